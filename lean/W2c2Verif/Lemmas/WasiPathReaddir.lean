/-
  Lemmas.WasiPathReaddir — fd_readdir: the dirent header, the client's decoder, the abstract
  description `emit` of what one call writes, and the refinement of the modelled loop to it.
-/
import W2c2Verif.Lemmas.WasiPathMem
import W2c2Verif.Model.WasiReaddir
namespace W2c2Verif.WasiReaddir
open W2c2Verif W2c2Verif.WasiPath W2c2Verif.Dir

def header (next ino namlen ft : Nat) : Bytes :=
  leBytes 8 next ++ leBytes 8 ino ++ leBytes 4 namlen ++ leBytes 1 ft ++ [0, 0, 0]

theorem header_length (a b c e : Nat) : (header a b c e).length = 24 := by
  simp [header, leBytes_length]

/-- a complete directory entry as a WASI client reads it -/
structure Rec where
  next : Nat
  ino : Nat
  namlen : Nat
  ftype : Nat
  name : Bytes
  deriving DecidableEq, Repr

/-- the client's view of the first `bufferUsed` bytes: complete entries, in order -/
def decode (bs : Bytes) : List Rec :=
  if bs.length < 24 then [] else
  let namlen := leVal ((bs.drop 16).take 4)
  if bs.length < 24 + namlen then [] else
  ⟨leVal (bs.take 8), leVal ((bs.drop 8).take 8), namlen, leVal ((bs.drop 20).take 1),
    (bs.drop 24).take namlen⟩ :: decode (bs.drop (24 + namlen))
termination_by bs.length
decreasing_by simp; omega

theorem decode_short (bs : Bytes) (h : bs.length < 24) : decode bs = [] := by
  rw [decode]; simp [h]

theorem header_fields (next ino nl ft : Nat) (X : Bytes) :
    (header next ino nl ft ++ X).take 8 = leBytes 8 next ∧
    ((header next ino nl ft ++ X).drop 8).take 8 = leBytes 8 ino ∧
    ((header next ino nl ft ++ X).drop 16).take 4 = leBytes 4 nl ∧
    ((header next ino nl ft ++ X).drop 20).take 1 = leBytes 1 ft ∧
    (header next ino nl ft ++ X).drop 24 = X := by
  have l8a := leBytes_length 8 next
  have l8b := leBytes_length 8 ino
  have l4 := leBytes_length 4 nl
  have l1 := leBytes_length 1 ft
  unfold header
  refine ⟨?_, ?_, ?_, ?_, ?_⟩
  · simp only [List.append_assoc]
    rw [List.take_append_of_le_length (by omega), List.take_of_length_le (by omega)]
  · simp only [List.append_assoc]
    rw [List.drop_append_of_le_length (by omega), List.drop_of_length_le (by omega), List.nil_append,
      List.take_append_of_le_length (by omega), List.take_of_length_le (by omega)]
  · have : leBytes 8 next ++ leBytes 8 ino ++ leBytes 4 nl ++ leBytes 1 ft ++ [0, 0, 0] ++ X
        = (leBytes 8 next ++ leBytes 8 ino) ++ (leBytes 4 nl ++ (leBytes 1 ft ++ [0, 0, 0] ++ X)) := by simp
    rw [this, List.drop_append_of_le_length (by simp; omega), List.drop_of_length_le (by simp; omega), List.nil_append,
      List.take_append_of_le_length (by omega), List.take_of_length_le (by omega)]
  · have : leBytes 8 next ++ leBytes 8 ino ++ leBytes 4 nl ++ leBytes 1 ft ++ [0, 0, 0] ++ X
        = (leBytes 8 next ++ leBytes 8 ino ++ leBytes 4 nl) ++ (leBytes 1 ft ++ ([0, 0, 0] ++ X)) := by simp
    rw [this, List.drop_append_of_le_length (by simp; omega), List.drop_of_length_le (by simp; omega), List.nil_append,
      List.take_append_of_le_length (by omega), List.take_of_length_le (by omega)]
  · rw [List.drop_append_of_le_length (by simp; omega), List.drop_of_length_le (by simp; omega), List.nil_append]


theorem decode_complete (next ino ft : Nat) (name tail : Bytes)
    (hn : next < 256 ^ 8) (hi : ino < 256 ^ 8) (hl : name.length < 256 ^ 4) (hf : ft < 256 ^ 1) :
    decode (header next ino name.length ft ++ (name ++ tail)) =
      ⟨next, ino, name.length, ft, name⟩ :: decode tail := by
  obtain ⟨f1, f2, f3, f4, f5⟩ := header_fields next ino name.length ft (name ++ tail)
  rw [decode]
  have hlen : (header next ino name.length ft ++ (name ++ tail)).length = 24 + name.length + tail.length := by
    simp [header_length]; omega
  simp only [f1, f2, f3, f4, f5, hlen, leVal_leBytes _ _ hn, leVal_leBytes _ _ hi, leVal_leBytes _ _ hl,
    leVal_leBytes _ _ hf]
  have h1 : ¬ 24 + name.length + tail.length < 24 := by omega
  have h2 : ¬ 24 + name.length + tail.length < 24 + name.length := by omega
  simp only [h1, h2, if_false]
  have h3 : (header next ino name.length ft ++ (name ++ tail)).drop (24 + name.length) = tail := by
    rw [← List.drop_drop, f5, List.drop_left]
  rw [h3]
  simp

theorem decode_truncated (next ino nl ft : Nat) (part : Bytes) (hl : nl < 256 ^ 4) (hp : part.length < nl) :
    decode (header next ino nl ft ++ part) = [] := by
  obtain ⟨_, _, f3, _, _⟩ := header_fields next ino nl ft part
  rw [decode]
  have hlen : (header next ino nl ft ++ part).length = 24 + part.length := by simp [header_length]
  simp only [f3, hlen, leVal_leBytes _ _ hl]
  have h2 : 24 + part.length < 24 + nl := by omega
  simp [h2]


theorem writeHeader_seg (A H B : Bytes) (p next ino nl ft : Nat) (hp : p = A.length) (hH : H.length = 24)
    (h32 : (A ++ H ++ B).length ≤ 4294967296) :
    writeHeader (A ++ H ++ B) p next ino nl ft = .val (A ++ header next ino nl ft ++ B) := by
  subst hp
  have hlen : A.length + 24 ≤ 4294967296 := by simp at h32; omega
  unfold writeHeader
  simp only [Gen.WasiPath.direntSize, Gen.WasiPath.direntNextOff, Gen.WasiPath.direntInoOff,
    Gen.WasiPath.direntNamlenOff, Gen.WasiPath.direntTypeOff, i64Store, i32Store, i32Store8]
  rw [storeBytes_seg A H B _ _ rfl (by simp [hH])]
  simp only [Out.bind_val]
  rw [u32_of_lt _ (by omega), u32_of_lt _ (by omega), u32_of_lt _ (by omega), u32_of_lt _ (by omega)]
  -- the zeroed header as five segments
  have hz : (List.replicate 24 (0 : UInt8)) =
      List.replicate 8 0 ++ (List.replicate 8 0 ++ (List.replicate 4 0 ++ (List.replicate 1 0 ++ [0, 0, 0]))) := by decide
  rw [hz]
  -- next
  have e1 : A ++ (List.replicate 8 (0 : UInt8) ++ (List.replicate 8 0 ++ (List.replicate 4 0 ++ (List.replicate 1 0 ++ [0, 0, 0])))) ++ B
      = A ++ List.replicate 8 0 ++ ((List.replicate 8 0 ++ (List.replicate 4 0 ++ (List.replicate 1 0 ++ [0, 0, 0]))) ++ B) := by
    simp
  rw [e1, storeBytes_seg A _ _ (leBytes 8 next) _ (by simp) (by simp [leBytes_length])]
  simp only [Out.bind_val]
  -- inode
  have e2 : A ++ leBytes 8 next ++ ((List.replicate 8 (0 : UInt8) ++ (List.replicate 4 0 ++ (List.replicate 1 0 ++ [0, 0, 0]))) ++ B)
      = (A ++ leBytes 8 next) ++ List.replicate 8 0 ++ ((List.replicate 4 0 ++ (List.replicate 1 0 ++ [0, 0, 0])) ++ B) := by
    simp
  rw [e2, storeBytes_seg (A ++ leBytes 8 next) _ _ (leBytes 8 ino) _ (by simp [leBytes_length]) (by simp [leBytes_length])]
  simp only [Out.bind_val]
  have e3 : (A ++ leBytes 8 next) ++ leBytes 8 ino ++ ((List.replicate 4 (0 : UInt8) ++ (List.replicate 1 0 ++ [0, 0, 0])) ++ B)
      = (A ++ leBytes 8 next ++ leBytes 8 ino) ++ List.replicate 4 0 ++ ((List.replicate 1 0 ++ [0, 0, 0]) ++ B) := by
    simp
  rw [e3, storeBytes_seg (A ++ leBytes 8 next ++ leBytes 8 ino) _ _ (leBytes 4 nl) _ (by simp [leBytes_length]) (by simp [leBytes_length])]
  simp only [Out.bind_val]
  have e4 : (A ++ leBytes 8 next ++ leBytes 8 ino) ++ leBytes 4 nl ++ ((List.replicate 1 (0 : UInt8) ++ [0, 0, 0]) ++ B)
      = (A ++ leBytes 8 next ++ leBytes 8 ino ++ leBytes 4 nl) ++ List.replicate 1 0 ++ ([0, 0, 0] ++ B) := by
    simp
  rw [e4, storeBytes_seg (A ++ leBytes 8 next ++ leBytes 8 ino ++ leBytes 4 nl) _ _ (leBytes 1 ft) _ (by simp [leBytes_length]) (by simp [leBytes_length])]
  simp [header]


/-- the WASI file type the loop stores for an entry -/
def ftOf (e : Entry) : Nat :=
  if fileTypeFromDT e.dtype = Gen.WasiPath.fileTypeUnknown then e.lstat.getD 0 else fileTypeFromDT e.dtype

/-- the entry's type is delivered by `d_type`, or the `lstat` fallback fits its buffer and succeeds -/
def TypeOK (pm : Nat) (path : Bytes) (e : Entry) : Prop :=
  fileTypeFromDT e.dtype = Gen.WasiPath.fileTypeUnknown →
    (path.length + 1 + e.name.length < pm ∧ e.lstat ≠ none)

/-- What the loop appends to the buffer, abstractly: (bytes written behind `used`, final
    bufferUsed, final stream index). -/
def emit (d : Dir) (bufLen : Nat) : List Entry → Nat → Nat → Bytes × Nat × Nat
  | [], i, used => ([], used, i)
  | e :: rest, i, used =>
    if ¬ used < bufLen then ([], used, i)
    else if bufLen - used < 24 then ([], bufLen, i + 1)
    else
      let adj := min e.name.length (bufLen - used - 24)
      let r := emit d bufLen rest (i + 1) (used + 24 + adj)
      (header (d.loc (i + 1)).toNat e.ino e.name.length (ftOf e) ++ e.name.take adj ++ r.1, r.2.1, r.2.2)

theorem emit_bounds (d : Dir) (bufLen : Nat) : ∀ (rest : List Entry) (i used : Nat), used ≤ bufLen →
    used + (emit d bufLen rest i used).1.length ≤ (emit d bufLen rest i used).2.1 ∧
    (emit d bufLen rest i used).2.1 ≤ bufLen ∧
    (emit d bufLen rest i used).2.1 - (used + (emit d bufLen rest i used).1.length) < 24 := by
  intro rest
  induction rest with
  | nil => intro i used h; simp [emit]; omega
  | cons e rest ih =>
    intro i used h
    unfold emit
    by_cases h1 : used < bufLen
    · by_cases h2 : bufLen - used < 24
      · simp [h1, h2]; omega
      · simp only [h1, h2, not_true_eq_false, if_false]
        have hadj : min e.name.length (bufLen - used - 24) ≤ bufLen - used - 24 := Nat.min_le_right _ _
        have := ih (i + 1) (used + 24 + min e.name.length (bufLen - used - 24)) (by omega)
        simp only [List.length_append, header_length, List.length_take]
        have hm : min (min e.name.length (bufLen - used - 24)) e.name.length = min e.name.length (bufLen - used - 24) := by
          omega
        rw [hm]
        omega
    · simp [h1]; omega

/-- **refinement of the loop**: on a memory `A ++ R ++ B` where `R` is the not yet used part of the
    guest buffer, the loop returns normally, replaces a prefix of `R` by `emit`'s bytes and
    touches nothing else. -/
theorem rdLoop_seg (pm : Nat) (d : Dir) (path : Bytes) (bufPtr bufLen : Nat) (hbl : bufLen < 4294967296) :
    ∀ (rest : List Entry) (i used : Nat) (A R B : Bytes),
    A.length = bufPtr + used → R.length = bufLen - used → used ≤ bufLen →
    (A ++ R ++ B).length < 4294967296 →
    (∀ e ∈ rest, TypeOK pm path e) → (∀ j, i < j → j ≤ i + rest.length → 0 ≤ d.loc j) →
    rdLoop pm d path none bufPtr bufLen rest i used (A ++ R ++ B) =
      .val (.fall (emit d bufLen rest i used).2.2 (emit d bufLen rest i used).2.1
        (A ++ (emit d bufLen rest i used).1 ++ R.drop (emit d bufLen rest i used).1.length ++ B)) := by
  intro rest
  induction rest with
  | nil =>
    intro i used A R B _ _ _ _ _ _
    unfold rdLoop
    simp [emit, Gen.WasiPath.loopContinues]
  | cons e rest ih =>
    intro i used A R B hA hR hu h32 hty hloc
    unfold rdLoop
    simp only [Gen.WasiPath.loopContinues, decide_eq_true_eq]
    by_cases h1 : used < bufLen
    · have hl : 0 ≤ d.loc (i + 1) := hloc (i + 1) (by omega) (by simp)
      have hnl : ¬ d.loc (i + 1) < 0 := by omega
      have hrem : u32 (bufLen - used) = bufLen - used := u32_of_lt _ (by omega)
      have htot : bufPtr + bufLen < 4294967296 := by
        simp only [List.length_append] at h32; omega
      have hrp : u32 (bufPtr + used) = bufPtr + used := u32_of_lt _ (by omega)
      have hTy := hty e (List.mem_cons_self)
      simp only [h1, not_true_eq_false, if_false, hnl, hrem, hrp]
      -- the two lstat-fallback tests pass
      have c1 : ¬ (fileTypeFromDT e.dtype = Gen.WasiPath.fileTypeUnknown ∧ ¬ path.length + 1 + e.name.length < pm) := by
        intro ⟨a, b⟩; exact b (hTy a).1
      have c2 : ¬ (fileTypeFromDT e.dtype = Gen.WasiPath.fileTypeUnknown ∧ e.lstat = none) := by
        intro ⟨a, b⟩; exact (hTy a).2 b
      simp only [c1, c2, if_false, Gen.WasiPath.headerDoesNotFit, Gen.WasiPath.direntSize, decide_eq_true_eq]
      by_cases h2 : bufLen - used < 24
      · simp [h2, emit, h1]
      · simp only [h2, if_false]
        -- split R into the header part, the name part and the rest
        have hR24 : 24 ≤ R.length := by omega
        let adj := min e.name.length (bufLen - used - 24)
        have hadj : adj ≤ bufLen - used - 24 := Nat.min_le_right _ _
        have hRsplit : R = R.take 24 ++ ((R.drop 24).take adj ++ R.drop (24 + adj)) := by
          rw [← List.drop_drop, List.take_append_drop, List.take_append_drop]
        have hmem : A ++ R ++ B = A ++ R.take 24 ++ (((R.drop 24).take adj ++ R.drop (24 + adj)) ++ B) := by
          conv => lhs; rw [hRsplit]
          simp
        rw [hmem, writeHeader_seg A (R.take 24) _ (bufPtr + used) _ _ _ _ hA.symm (by simp <;> omega)
          (by rw [← hmem]; exact Nat.le_of_lt h32)]
        simp only [Out.bind_val]
        have hu24 : u32 (used + 24) = used + 24 := u32_of_lt _ (by omega)
        have hrem2 : u32 (bufLen - (used + 24)) = bufLen - used - 24 := by
          rw [u32_of_lt _ (by omega)]; omega
        have hrp2 : u32 (bufPtr + (used + 24)) = bufPtr + used + 24 := by
          rw [u32_of_lt _ (by omega)]; omega
        have hadjeq : Gen.WasiPath.adjustedNameLength e.name.length (bufLen - used - 24) = adj := by
          unfold Gen.WasiPath.adjustedNameLength
          show _ = min e.name.length (bufLen - used - 24)
          split <;> omega
        simp only [hu24, hrem2, hrp2, hadjeq]
        let hd := header (d.loc (i + 1)).toNat e.ino e.name.length (ftOf e)
        have hft : (if fileTypeFromDT e.dtype = Gen.WasiPath.fileTypeUnknown then e.lstat.getD 0 else fileTypeFromDT e.dtype) = ftOf e := rfl
        rw [hft]
        have hmem2 : A ++ hd ++ (((R.drop 24).take adj ++ R.drop (24 + adj)) ++ B)
            = (A ++ hd) ++ (R.drop 24).take adj ++ (R.drop (24 + adj) ++ B) := by simp
        show (storeBytes (A ++ hd ++ (((R.drop 24).take adj ++ R.drop (24 + adj)) ++ B)) _ _ >>= _) = _
        rw [hmem2, storeBytes_seg (A ++ hd) _ _ (e.name.take adj) _ (by simp [hd, header_length]; omega)
          (by simp; omega)]
        simp only [Out.bind_val]
        have hu3 : u32 (used + 24 + adj) = used + 24 + adj := u32_of_lt _ (by omega)
        rw [hu3]
        have hmem3 : (A ++ hd) ++ e.name.take adj ++ (R.drop (24 + adj) ++ B)
            = (A ++ hd ++ e.name.take adj) ++ R.drop (24 + adj) ++ B := by simp
        rw [hmem3, ih (i + 1) (used + 24 + adj) (A ++ hd ++ e.name.take adj) (R.drop (24 + adj)) B
          (by simp [hd, header_length]; omega) (by simp; omega) (by omega)
          (by
            have hadj2 : adj ≤ e.name.length := Nat.min_le_left _ _
            simp only [List.length_append, List.length_take, List.length_drop, hd, header_length] at h32 ⊢
            omega)
          (fun e' he' => hty e' (List.mem_cons_of_mem _ he'))
          (fun j hj1 hj2 => hloc j (by omega) (by simp at *; omega))]
        -- both sides describe the same emit
        have hem : emit d bufLen (e :: rest) i used =
            (hd ++ e.name.take adj ++ (emit d bufLen rest (i + 1) (used + 24 + adj)).1,
             (emit d bufLen rest (i + 1) (used + 24 + adj)).2.1,
             (emit d bufLen rest (i + 1) (used + 24 + adj)).2.2) := by
          conv => lhs; unfold emit
          simp [h1, h2, hd, adj]
        rw [hem]
        simp only [List.length_append, List.append_assoc, List.drop_drop]
        congr 4
        simp [hd, header_length]
        omega
    · simp [h1, emit]



/-- the record a client must see for entry `e` at stream index `i` -/
def recOf (d : Dir) (i : Nat) (e : Entry) : Rec :=
  ⟨(d.loc (i + 1)).toNat, e.ino, e.name.length, ftOf e, e.name⟩

def recsFrom (d : Dir) : Nat → List Entry → List Rec
  | _, [] => []
  | i, e :: l => recOf d i e :: recsFrom d (i + 1) l

/-- field values fit their dirent fields -/
structure EntryOK (e : Entry) : Prop where
  ino : e.ino < 256 ^ 8
  name : e.name.length < 256 ^ 4
  ft : ftOf e < 256 ^ 1

/-- number of entries one call delivers completely, starting with `used` bytes in the buffer -/
def emitCount (bufLen : Nat) : List Entry → Nat → Nat
  | [], _ => 0
  | e :: rest, used =>
    if ¬ used < bufLen then 0
    else if bufLen - used < 24 then 0
    else if e.name.length ≤ bufLen - used - 24 then 1 + emitCount bufLen rest (used + 24 + e.name.length)
    else 0

theorem emit_full (d : Dir) (bufLen : Nat) (rest : List Entry) (i used : Nat) (h : ¬ used < bufLen) :
    emit d bufLen rest i used = ([], used, i) := by
  cases rest <;> simp [emit, h]

theorem emitCount_le (bufLen : Nat) : ∀ (rest : List Entry) (used : Nat), emitCount bufLen rest used ≤ rest.length := by
  intro rest
  induction rest with
  | nil => intro _; simp [emitCount]
  | cons e rest ih =>
    intro used
    unfold emitCount
    split
    · omega
    · split
      · omega
      · split
        · have := ih (used + 24 + e.name.length); simp; omega
        · omega

/-- decoding what one call wrote (`emit`'s bytes followed by the `bufferUsed − written` stale bytes the
    client also looks at) yields exactly the completely delivered entries, in stream order -/
theorem decode_emit (d : Dir) (bufLen : Nat) : ∀ (rest : List Entry) (i used : Nat) (G : Bytes),
    (∀ e ∈ rest, EntryOK e) → (∀ j, i < j → j ≤ i + rest.length → 0 ≤ d.loc j ∧ d.loc j < 256 ^ 8) →
    used ≤ bufLen →
    G.length = (emit d bufLen rest i used).2.1 - (used + (emit d bufLen rest i used).1.length) →
    decode ((emit d bufLen rest i used).1 ++ G) = recsFrom d i (rest.take (emitCount bufLen rest used)) := by
  intro rest
  induction rest with
  | nil =>
    intro i used G _ _ _ hG
    simp [emit] at hG
    simp [emit, emitCount, recsFrom, hG, decode_short]
  | cons e rest ih =>
    intro i used G hok hloc hu hG
    by_cases h1 : used < bufLen
    · by_cases h2 : bufLen - used < 24
      · have he : emit d bufLen (e :: rest) i used = ([], bufLen, i + 1) := by simp [emit, h1, h2]
        rw [he] at hG ⊢
        simp at hG
        simp only [List.nil_append, emitCount, h1, h2, not_true_eq_false, if_false, if_true, List.take_zero, recsFrom]
        exact decode_short G (by omega)
      · have hOK := hok e (List.mem_cons_self)
        have hl := hloc (i + 1) (by omega) (by simp)
        have hnext : (d.loc (i + 1)).toNat < 256 ^ 8 := by
          have := hl.2; omega
        by_cases h3 : e.name.length ≤ bufLen - used - 24
        · have hadj : min e.name.length (bufLen - used - 24) = e.name.length := Nat.min_eq_left h3
          have he : emit d bufLen (e :: rest) i used =
              (header (d.loc (i + 1)).toNat e.ino e.name.length (ftOf e) ++ e.name ++ (emit d bufLen rest (i + 1) (used + 24 + e.name.length)).1,
               (emit d bufLen rest (i + 1) (used + 24 + e.name.length)).2.1,
               (emit d bufLen rest (i + 1) (used + 24 + e.name.length)).2.2) := by
            conv => lhs; unfold emit
            simp [h1, h2, hadj]
          rw [he] at hG ⊢
          simp only [List.length_append, header_length] at hG
          have hcnt : emitCount bufLen (e :: rest) used = 1 + emitCount bufLen rest (used + 24 + e.name.length) := by
            conv => lhs; unfold emitCount
            simp [h1, h2, h3]
          rw [hcnt, Nat.add_comm 1, List.take_succ_cons, recsFrom]
          have hassoc : header (d.loc (i + 1)).toNat e.ino e.name.length (ftOf e) ++ e.name ++
              (emit d bufLen rest (i + 1) (used + 24 + e.name.length)).1 ++ G =
              header (d.loc (i + 1)).toNat e.ino e.name.length (ftOf e) ++ (e.name ++
              ((emit d bufLen rest (i + 1) (used + 24 + e.name.length)).1 ++ G)) := by simp
          rw [hassoc, decode_complete _ _ _ _ _ hnext hOK.ino hOK.name hOK.ft]
          rw [ih (i + 1) (used + 24 + e.name.length) G (fun e' he' => hok e' (List.mem_cons_of_mem _ he'))
            (fun j hj1 hj2 => hloc j (by omega) (by simp at *; omega)) (by omega) (by omega)]
          rfl
        · have hadj : min e.name.length (bufLen - used - 24) = bufLen - used - 24 := Nat.min_eq_right (by omega)
          have hfull : emit d bufLen rest (i + 1) (used + 24 + (bufLen - used - 24)) = ([], used + 24 + (bufLen - used - 24), i + 1) :=
            emit_full d bufLen rest (i + 1) _ (by omega)
          have he : emit d bufLen (e :: rest) i used =
              (header (d.loc (i + 1)).toNat e.ino e.name.length (ftOf e) ++ e.name.take (bufLen - used - 24),
               used + 24 + (bufLen - used - 24), i + 1) := by
            conv => lhs; unfold emit
            simp [h1, h2, hadj, hfull]
          rw [he] at hG ⊢
          simp only [List.length_append, header_length, List.length_take] at hG
          have hG0 : G = [] := List.eq_nil_of_length_eq_zero (by omega)
          have hcnt : emitCount bufLen (e :: rest) used = 0 := by
            conv => lhs; unfold emitCount
            simp [h1, h2, h3]
          rw [hcnt, hG0, List.append_nil, List.take_zero, recsFrom]
          exact decode_truncated _ _ _ _ _ hOK.name (by simp; omega)
    · rw [emit_full d bufLen _ i used h1] at hG ⊢
      simp at hG
      have hcnt : emitCount bufLen (e :: rest) used = 0 := by simp [emitCount, h1]
      simp [hcnt, recsFrom, hG, decode_short]

/-- a call that does not fill the buffer has delivered everything that was left -/
theorem emit_not_full (d : Dir) (bufLen : Nat) : ∀ (rest : List Entry) (i used : Nat), used ≤ bufLen →
    (emit d bufLen rest i used).2.1 < bufLen → emitCount bufLen rest used = rest.length := by
  intro rest
  induction rest with
  | nil => intro _ _ _ _; simp [emitCount]
  | cons e rest ih =>
    intro i used hu hlt
    by_cases h1 : used < bufLen
    · by_cases h2 : bufLen - used < 24
      · simp [emit, h1, h2] at hlt
      · by_cases h3 : e.name.length ≤ bufLen - used - 24
        · have hadj : min e.name.length (bufLen - used - 24) = e.name.length := Nat.min_eq_left h3
          have : (emit d bufLen (e :: rest) i used).2.1 = (emit d bufLen rest (i + 1) (used + 24 + e.name.length)).2.1 := by
            conv => lhs; unfold emit
            simp [h1, h2, hadj]
          rw [this] at hlt
          have := ih (i + 1) (used + 24 + e.name.length) (by omega) hlt
          conv => lhs; unfold emitCount
          simp [h1, h2, h3, this]; omega
        · have hadj : min e.name.length (bufLen - used - 24) = bufLen - used - 24 := Nat.min_eq_right (by omega)
          have hfull := emit_full d bufLen rest (i + 1) (used + 24 + (bufLen - used - 24)) (by omega)
          have : (emit d bufLen (e :: rest) i used).2.1 = used + 24 + (bufLen - used - 24) := by
            conv => lhs; unfold emit
            simp [h1, h2, hadj, hfull]
          omega
    · rw [emit_full d bufLen _ i used h1] at hlt
      simp at hlt; omega

/-- a buffer that can hold the next entry delivers at least that entry -/
theorem emitCount_pos (bufLen : Nat) (e : Entry) (rest : List Entry) (h : 24 + e.name.length ≤ bufLen) :
    1 ≤ emitCount bufLen (e :: rest) 0 := by
  unfold emitCount
  have h1 : 0 < bufLen := by omega
  have h2 : ¬ bufLen < 24 := by omega
  have h3 : e.name.length ≤ bufLen - 24 := by omega
  simp [h1, h2, h3]



/-- the guest's buffers: inside a memory smaller than 4 GiB, not overlapping -/
structure Layout (memLen bufPtr bufLen usedPtr : Nat) : Prop where
  small : memLen < 4294967296
  buf : bufPtr + bufLen ≤ memLen
  used : usedPtr + 4 ≤ memLen
  disj : usedPtr + 4 ≤ bufPtr ∨ bufPtr + bufLen ≤ usedPtr

/-- what the client reads after a call: bufferUsed and the complete entries within it -/
def clientView (mem : Mem) (bufPtr bufLen usedPtr : Nat) : Nat × List Rec :=
  let used := leVal (slice mem usedPtr 4)
  (used, decode ((slice mem bufPtr bufLen).take used))

/-- all that the property needs of a directory: LocOK, field ranges, type obtainable -/
structure DirOK (pm : Nat) (path : Bytes) (d : Dir) : Prop where
  loc : LocOK d
  entries : ∀ e ∈ d.entries, EntryOK e ∧ TypeOK pm path e

theorem mem_drop_of {α} (l : List α) (p : Nat) (x : α) (h : x ∈ l.drop p) : x ∈ l := List.mem_of_mem_drop h

/-- one call whose stream is positioned before entry `p` -/
theorem readFrom_at (pm : Nat) (d : Dir) (path : Bytes) (hd : DirOK pm path d) (p : Nat) (hp : p ≤ d.entries.length)
    (mem : Mem) (bufPtr bufLen usedPtr : Nat) (hl : Layout mem.length bufPtr bufLen usedPtr) :
    ∃ mem' i', readFrom pm d path none (.at p) mem bufPtr bufLen usedPtr
        = .val (.done ⟨Gen.WasiPath.errnoSuccess, some (.at i'), mem'⟩) ∧
      mem'.length = mem.length ∧
      clientView mem' bufPtr bufLen usedPtr =
        ((emit d bufLen (d.entries.drop p) p 0).2.1,
         recsFrom d p ((d.entries.drop p).take (emitCount bufLen (d.entries.drop p) 0))) := by
  have hbl : bufLen < 4294967296 := by have := hl.small; have := hl.buf; omega
  have hu4 : usedPtr + (leBytes 4 0).length ≤ mem.length := by simp [leBytes_length]; exact hl.used
  -- memory after the first store
  obtain ⟨mem1, hm1⟩ : ∃ m, m = mem.take usedPtr ++ leBytes 4 0 ++ mem.drop (usedPtr + (leBytes 4 0).length) := ⟨_, rfl⟩
  have hlen1 : mem1.length = mem.length := by rw [hm1]; exact stored_length mem usedPtr _ hu4
  have hsplit := split_at_slice mem1 bufPtr bufLen (by rw [hlen1]; exact hl.buf)
  have hRlen : (slice mem1 bufPtr bufLen).length = bufLen := slice_length _ _ _ (by rw [hlen1]; exact hl.buf)
  have hAlen : (mem1.take bufPtr).length = bufPtr := by
    simp only [List.length_take]; have := hl.buf; omega
  have hloop := rdLoop_seg pm d path bufPtr bufLen hbl (d.entries.drop p) p 0
    (mem1.take bufPtr) (slice mem1 bufPtr bufLen) (mem1.drop (bufPtr + bufLen))
    (by simp [hAlen]) (by simp [hRlen]) (by omega) (by rw [← hsplit, hlen1]; exact hl.small)
    (fun e he => (hd.entries e (List.mem_of_mem_drop he)).2)
    (fun j hj1 hj2 => by
      have : j ≤ d.entries.length := by simp at hj2; omega
      exact Int.le_of_lt (hd.loc.pos j (by omega) this))
  rw [← hsplit] at hloop
  have hb := emit_bounds d bufLen (d.entries.drop p) p 0 (by omega)
  simp only [Nat.zero_add] at hb
  have hde := decode_emit d bufLen (d.entries.drop p) p 0
  have hcnt : emitCount bufLen (d.entries.drop p) 0 = emitCount bufLen (d.entries.drop p) 0 := rfl
  obtain ⟨r, hr⟩ : ∃ r, r = emit d bufLen (d.entries.drop p) p 0 := ⟨_, rfl⟩
  rw [← hr] at hb hloop hde
  obtain ⟨mem2, hm2⟩ : ∃ m, m = mem1.take bufPtr ++ r.1 ++ (slice mem1 bufPtr bufLen).drop r.1.length ++ mem1.drop (bufPtr + bufLen) := ⟨_, rfl⟩
  rw [← hm2] at hloop
  have hlen2 : mem2.length = mem.length := by
    rw [hm2]
    simp only [List.length_append, List.length_drop, hAlen, hRlen]
    have := hl.buf
    omega
  have h4 : (leBytes 4 r.2.1).length = 4 := leBytes_length _ _
  have hu4' : usedPtr + (leBytes 4 r.2.1).length ≤ mem2.length := by rw [h4, hlen2]; exact hl.used
  obtain ⟨mem3, hm3⟩ : ∃ m, m = mem2.take usedPtr ++ leBytes 4 r.2.1 ++ mem2.drop (usedPtr + (leBytes 4 r.2.1).length) := ⟨_, rfl⟩
  have hrun : readFrom pm d path none (.at p) mem bufPtr bufLen usedPtr
      = .val (.done ⟨Gen.WasiPath.errnoSuccess, some (.at r.2.2), mem3⟩) := by
    unfold readFrom
    simp only [i32Store]
    rw [storeBytes_ok mem usedPtr (leBytes 4 0) hu4, ← hm1]
    simp only [Out.bind_val]
    rw [hloop]
    simp only [Out.bind_val]
    rw [storeBytes_ok mem2 usedPtr _ hu4', ← hm3]
    rfl
  refine ⟨mem3, r.2.2, hrun, ?_, ?_⟩
  · rw [hm3, stored_length mem2 usedPtr _ hu4', hlen2]
  · unfold clientView
    rw [← hr]
    have hsame := slice_stored_same mem2 usedPtr (leBytes 4 r.2.1) hu4'
    have hdisj := slice_stored_disj mem2 usedPtr (leBytes 4 r.2.1) hu4' bufPtr bufLen
      (by rw [h4]; exact hl.disj)
    rw [← hm3] at hsame hdisj
    rw [h4] at hsame
    simp only [hsame, hdisj]
    have hu : leVal (leBytes 4 r.2.1) = r.2.1 := leVal_leBytes 4 _ (by have := hb.2.1; omega)
    rw [hu]
    -- the buffer region of mem2
    have hmid : slice mem2 bufPtr bufLen = r.1 ++ (slice mem1 bufPtr bufLen).drop r.1.length := by
      have : mem2 = mem1.take bufPtr ++ (r.1 ++ (slice mem1 bufPtr bufLen).drop r.1.length) ++ mem1.drop (bufPtr + bufLen) := by
        rw [hm2]; simp
      rw [this]
      have hml : (r.1 ++ (slice mem1 bufPtr bufLen).drop r.1.length).length = bufLen := by
        simp only [List.length_append, List.length_drop, hRlen]; omega
      have := slice_mid (mem1.take bufPtr) (r.1 ++ (slice mem1 bufPtr bufLen).drop r.1.length) (mem1.drop (bufPtr + bufLen)) bufPtr hAlen.symm
      rw [hml] at this
      exact this
    rw [hmid]
    have htake : (r.1 ++ (slice mem1 bufPtr bufLen).drop r.1.length).take r.2.1
        = r.1 ++ ((slice mem1 bufPtr bufLen).drop r.1.length).take (r.2.1 - r.1.length) := by
      rw [List.take_append]
      have : List.take r.2.1 r.1 = r.1 := List.take_of_length_le hb.1
      rw [this]
    rw [htake]
    congr 1
    exact hde _
      (fun e he => (hd.entries e (List.mem_of_mem_drop he)).1)
      (fun j hj1 hj2 => by
        have hj : j ≤ d.entries.length := by simp at hj2; omega
        have h1 := hd.loc.pos j (by omega) hj
        have h2 := hd.loc.fits j hj
        constructor <;> omega)
      (by omega)
      (by
        simp only [List.length_take, List.length_drop, hRlen, Nat.zero_add]
        have := hb.2.1
        omega)


/-! ### where the stream stands before the loop -/

theorem cookieToLong_loc (l : Int) (h0 : 0 ≤ l) (h1 : l < 9223372036854775808) : cookieToLong l.toNat = l := by
  unfold cookieToLong
  have : l.toNat % 18446744073709551616 = l.toNat := Nat.mod_eq_of_lt (by omega)
  rw [this]
  have : l.toNat < 9223372036854775808 := by omega
  simp only [this, if_true]
  omega

/-- fresh descriptor, cookie 0: `opendir` (then `rewinddir`), no `seekdir` -/
theorem position_fresh (pm : Nat) (d : Dir) (path : Bytes) (mem : Mem) (hp : path.length < pm) :
    positionStream pm d path none mem 0 = .val (.inr (.at 0)) := by
  simp [positionStream, hp, Gen.WasiPath.dirCookieStart, Gen.WasiPath.seekWhenCookie, opendir,
    Gen.WasiPath.readdirCallsRewind, rewinddir]

/-- opened descriptor, cookie = a `d_next` value: `seekdir` puts the stream there, wherever it was -/
theorem position_cookie (pm : Nat) (d : Dir) (path : Bytes) (hl : LocOK d) (s : Pos) (mem : Mem)
    (p : Nat) (h1 : 1 ≤ p) (hp : p ≤ d.entries.length) :
    positionStream pm d path (some s) mem (d.loc p).toNat = .val (.inr (.at p)) := by
  have hpos := hl.pos p h1 hp
  have hne : (d.loc p).toNat ≠ 0 := by omega
  simp only [positionStream, Out.bind_val, Gen.WasiPath.seekWhenCookie, Gen.WasiPath.dirCookieStart, ne_eq, hne,
    not_false_eq_true, decide_true, if_true]
  rw [cookieToLong_loc _ (by omega) (hl.fits p hp), seekdir_loc d hl p hp]

/-- opened descriptor, cookie 0: `rewinddir` puts the stream at the beginning, wherever it was -/
theorem position_zero_open (pm : Nat) (d : Dir) (path : Bytes) (s : Pos) (mem : Mem) :
    positionStream pm d path (some s) mem 0 = .val (.inr (.at 0)) := by
  simp [positionStream, Gen.WasiPath.seekWhenCookie, Gen.WasiPath.dirCookieStart,
    Gen.WasiPath.readdirCallsRewind, rewinddir]

/-! ### the client protocol -/

/-- The WASI client: call with `cookie`; collect the complete entries; stop when the buffer was not
    filled; otherwise continue from the `d_next` of the last complete entry. -/
def client (pm : Nat) (d : Dir) (path : Bytes) (bufPtr bufLen usedPtr : Nat) :
    Nat → Nat → Option Pos → Mem → Option (List Rec)
  | 0, _, _, _ => none
  | fuel + 1, cookie, st, mem =>
    match fdReaddir pm d path none st mem bufPtr bufLen cookie usedPtr with
    | .val (.done r) =>
      if r.errno ≠ Gen.WasiPath.errnoSuccess then none else
      let v := clientView r.mem bufPtr bufLen usedPtr
      if v.1 < bufLen then some v.2
      else match v.2.getLast? with
        | none => none
        | some l => (client pm d path bufPtr bufLen usedPtr fuel l.next r.dirState r.mem).map (v.2 ++ ·)
    | _ => none

theorem recsFrom_append (d : Dir) : ∀ (l1 l2 : List Entry) (i : Nat),
    recsFrom d i (l1 ++ l2) = recsFrom d i l1 ++ recsFrom d (i + l1.length) l2 := by
  intro l1
  induction l1 with
  | nil => intro l2 i; simp [recsFrom]
  | cons e l ih =>
    intro l2 i
    simp only [List.cons_append, recsFrom, ih l2 (i + 1), List.length_cons]
    congr 3
    omega

theorem recsFrom_getLast (d : Dir) : ∀ (l : List Entry) (i : Nat), l ≠ [] →
    ∃ r, (recsFrom d i l).getLast? = some r ∧ r.next = (d.loc (i + l.length)).toNat := by
  intro l
  induction l with
  | nil => intro _ h; exact absurd rfl h
  | cons e l ih =>
    intro i _
    cases l with
    | nil => exact ⟨recOf d i e, by simp [recsFrom], by simp [recOf]⟩
    | cons e2 l2 =>
      obtain ⟨r, h1, h2⟩ := ih (i + 1) (by simp)
      refine ⟨r, ?_, ?_⟩
      · simp only [recsFrom] at h1 ⊢
        rw [List.getLast?_cons_cons]
        exact h1
      · rw [h2]; congr 2; simp; omega


theorem fdReaddir_positioned (pm : Nat) (d : Dir) (path : Bytes) (st : Option Pos) (mem : Mem)
    (bufPtr bufLen cookie usedPtr : Nat) (p : Pos)
    (h : positionStream pm d path st mem cookie = .val (.inr p)) :
    fdReaddir pm d path none st mem bufPtr bufLen cookie usedPtr = readFrom pm d path none p mem bufPtr bufLen usedPtr := by
  unfold fdReaddir; rw [h]; rfl

/-- **the client protocol delivers everything that is left, exactly once, in order**: from any
    call whose stream gets positioned before entry `p` -/
theorem client_from (pm : Nat) (d : Dir) (path : Bytes) (hd : DirOK pm path d) (bufPtr bufLen usedPtr : Nat)
    (hmax : ∀ e ∈ d.entries, 24 + e.name.length ≤ bufLen) (h24 : 24 ≤ bufLen) :
    ∀ (fuel p cookie : Nat) (st : Option Pos) (mem : Mem), p ≤ d.entries.length →
      d.entries.length - p + 1 ≤ fuel → Layout mem.length bufPtr bufLen usedPtr →
      positionStream pm d path st mem cookie = .val (.inr (.at p)) →
      client pm d path bufPtr bufLen usedPtr fuel cookie st mem = some (recsFrom d p (d.entries.drop p)) := by
  intro fuel
  induction fuel with
  | zero => intro p _ _ _ _ hf; omega
  | succ fuel ih =>
    intro p cookie st mem hp hf hl hpos
    obtain ⟨mem', i', hrun, hlen, hview⟩ := readFrom_at pm d path hd p hp mem bufPtr bufLen usedPtr hl
    have hb := emit_bounds d bufLen (d.entries.drop p) p 0 (by omega)
    simp only [Nat.zero_add] at hb
    unfold client
    rw [fdReaddir_positioned pm d path st mem bufPtr bufLen cookie usedPtr _ hpos, hrun]
    simp only [ne_eq, not_true_eq_false, if_false, hview]
    by_cases hlt : (emit d bufLen (d.entries.drop p) p 0).2.1 < bufLen
    · simp only [hlt, if_true]
      rw [emit_not_full d bufLen _ p 0 (by omega) hlt, List.take_length]
    · simp only [hlt, if_false]
      -- something is left, and the buffer holds at least the next entry
      have hne : d.entries.drop p ≠ [] := by
        intro h0
        rw [h0] at hlt
        simp [emit] at hlt
        omega
      obtain ⟨e, rest, hcons⟩ := List.exists_cons_of_ne_nil hne
      have hmem : e ∈ d.entries := List.mem_of_mem_drop (by rw [hcons]; exact List.mem_cons_self)
      have hc1 : 1 ≤ emitCount bufLen (d.entries.drop p) 0 := by
        rw [hcons]; exact emitCount_pos bufLen e rest (hmax e hmem)
      have hcle := emitCount_le bufLen (d.entries.drop p) 0
      obtain ⟨c, hc⟩ : ∃ c, c = emitCount bufLen (d.entries.drop p) 0 := ⟨_, rfl⟩
      rw [← hc] at hc1 hcle ⊢
      have hdl : (d.entries.drop p).length = d.entries.length - p := by simp
      have htl : ((d.entries.drop p).take c).length = c := by simp; omega
      have htne : (d.entries.drop p).take c ≠ [] := by
        intro h0; rw [h0] at htl; simp at htl; omega
      obtain ⟨r, hr1, hr2⟩ := recsFrom_getLast d _ p htne
      rw [htl] at hr2
      simp only [hr1, hr2]
      rw [ih (p + c) (d.loc (p + c)).toNat (some (.at i')) mem' (by omega) (by omega) (by rw [hlen]; exact hl)
        (position_cookie pm d path hd.loc _ mem' (p + c) (by omega) (by omega))]
      simp only [Option.map_some, Option.some.injEq]
      have hsplit : d.entries.drop p = (d.entries.drop p).take c ++ d.entries.drop (p + c) := by
        rw [← List.drop_drop, List.take_append_drop]
      conv => rhs; rw [hsplit]
      rw [recsFrom_append, htl]


end W2c2Verif.WasiReaddir
