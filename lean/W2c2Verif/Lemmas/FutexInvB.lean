import W2c2Verif.Lemmas.FutexInvA

/-!
  Lemmas.FutexInvB — preservation of the invariant `InvA` by every step of every thread, one lemma
  per field.  Each proof inverts the step (`step_inv`), discharges the crash case with
  `InvA.not_crashCond`, and closes the (statement × field) cases by simplification; the cases that
  need an argument are spelled out.
-/
namespace W2c2Verif.Futex
open W2c2Verif.Threads

attribute [local simp] Cfg.set_locals upd_apply L.ret L.start
set_option linter.unusedSimpArgs false

variable {B : Nat} {c : Cfg G L} {t : Tid} {g' : G} {l' : L}

/-- discharge the crash case of a `cases (step_inv hs)` -/
macro "no_crash_case " hinv:ident : tactic =>
  `(tactic| (first | exact absurd ‹CrashCond _ _ _ _› (InvA.not_crashCond $hinv _ _) | skip))

theorem tid_eq_step (hinv : InvA B c) (hs : (g', l') ∈ (sys B).step c.g (c.locals t)) :
    ∀ u, ((c.set t g' l').locals u).tid = u := by
  intro u
  have ht := hinv.tid_eq t
  have hu := hinv.tid_eq u
  by_cases hut : u = t
  · subst hut
    cases step_inv hs <;> simp_all
    rename_i op rest _ _
    cases op <;> simp_all
  · simp [hut, hu]

theorem no_crash_step (hinv : InvA B c) (hs : (g', l') ∈ (sys B).step c.g (c.locals t)) :
    ∀ u k, ((c.set t g' l').locals u).pc ≠ .crashed k := by
  intro u k
  have hu := hinv.no_crash u k
  by_cases hut : u = t
  · subst hut
    cases step_inv hs <;> no_crash_case hinv <;> simp_all
    rename_i op rest _ _
    cases op <;> simp
  · simp [hut, hu]

theorem mutex_iff_step (hinv : InvA B c) (hs : (g', l') ∈ (sys B).step c.g (c.locals t)) :
    ∀ u, (c.set t g' l').g.mutex = some u ↔ ((c.set t g' l').locals u).pc.holds = true := by
  intro u
  have ht := hinv.tid_eq t
  have hmt := hinv.mutex_iff t
  have hmu := hinv.mutex_iff u
  by_cases hut : u = t
  · subst hut
    cases step_inv hs <;> no_crash_case hinv <;> simp_all
    rename_i op rest _ _
    cases op <;> simp
  · cases step_inv hs <;> no_crash_case hinv <;> simp_all <;> grind

theorem map_alloc_step (hinv : InvA B c) (hs : (g', l') ∈ (sys B).step c.g (c.locals t)) :
    ∀ u, ((c.set t g' l').locals u).pc.afterCreate = true → (c.set t g' l').g.mapAlloc = true := by
  intro u
  have hmt := hinv.map_alloc t
  have hmu := hinv.map_alloc u
  by_cases hut : u = t
  · subst hut
    cases step_inv hs <;> no_crash_case hinv <;> simp_all
    rename_i op rest _ _
    cases op <;> simp
  · cases step_inv hs <;> no_crash_case hinv <;> simp_all

theorem signal_cursor_step (hinv : InvA B c) (hs : (g', l') ∈ (sys B).step c.g (c.locals t)) :
    ∀ u, ((c.set t g' l').locals u).pc = .nSignal → ((c.set t g' l').locals u).cursor ≠ [] := by
  intro u
  have hmu := hinv.signal_cursor u
  by_cases hut : u = t
  · subst hut
    cases step_inv hs <;> no_crash_case hinv <;> simp_all
    rename_i op rest _ _
    cases op <;> simp
  · simp_all

theorem parked_ok_step (hinv : InvA B c) (hs : (g', l') ∈ (sys B).step c.g (c.locals t)) :
    ∀ u w, (u, w) ∈ (c.set t g' l').g.parked →
      ((c.set t g' l').locals u).pc = .wParked ∧ ((c.set t g' l').locals u).wait = w := by
  intro u w
  have ht := hinv.tid_eq t
  have hmu := hinv.parked_ok u w
  have hmt := hinv.parked_ok t
  by_cases hut : u = t
  · subst hut
    cases step_inv hs <;> no_crash_case hinv <;> simp_all
    all_goals grind [List.mem_of_mem_erase, Parked.signal_sub]
  · cases step_inv hs <;> no_crash_case hinv <;> simp_all
    all_goals grind [List.mem_of_mem_erase, Parked.signal_sub]

theorem parked_nodup_step (hinv : InvA B c) (hs : (g', l') ∈ (sys B).step c.g (c.locals t)) :
    (c.set t g' l').g.parked.Nodup := by
  have hn := hinv.parked_nodup
  have ht := hinv.tid_eq t
  have hmt := hinv.parked_ok t
  cases step_inv hs <;> no_crash_case hinv <;> simp_all
  all_goals first | exact hn.erase _ | exact Parked.signal_nodup _ _ _ ‹_› hn

theorem wait_live_step (hinv : InvA B c) (hs : (g', l') ∈ (sys B).step c.g (c.locals t)) :
    ∀ u, ((c.set t g' l').locals u).pc.hasWait = true →
    ((c.set t g' l').locals u).wait = (u, ((c.set t g' l').locals u).serial) ∧
    ((c.set t g' l').g.waits ((c.set t g' l').locals u).wait).live = true ∧
    ((c.set t g' l').g.waits ((c.set t g' l').locals u).wait).addr = ((c.set t g' l').locals u).addr := by
  intro u
  have ht := hinv.tid_eq t
  have hwu := hinv.wait_live u
  have hwt := hinv.wait_live t
  by_cases hut : u = t
  · subst hut
    cases step_inv hs <;> no_crash_case hinv <;> simp_all
    rename_i op rest _ _
    cases op <;> simp
  · cases step_inv hs <;> no_crash_case hinv <;> simp_all
    all_goals grind

theorem live_wait_step (hinv : InvA B c) (hs : (g', l') ∈ (sys B).step c.g (c.locals t)) :
    ∀ w, ((c.set t g' l').g.waits w).live = true →
      ((c.set t g' l').locals w.1).pc.hasWait = true ∧ ((c.set t g' l').locals w.1).wait = w := by
  rintro ⟨a, b⟩
  have ht := hinv.tid_eq t
  have hlw := hinv.live_wait (a, b)
  simp only at hlw
  by_cases hut : a = t
  · subst hut
    cases step_inv hs <;> no_crash_case hinv
    case wFree hpc hw hp =>
      simp only [Cfg.set_g, Cfg.set_locals, upd_apply, if_true]
      intro h
      split at h
      · simp at h
      · rename_i hne
        exact absurd (hlw h).2.symm hne
    all_goals simp_all
    all_goals (split <;> simp_all)
  · cases step_inv hs <;> no_crash_case hinv <;> simp_all
    all_goals (split <;> simp_all)

theorem node_fresh_step (hinv : InvA B c) (hs : (g', l') ∈ (sys B).step c.g (c.locals t)) :
    ∀ n, ((c.set t g' l').g.nodes n).live = true →
      n.2 < ((c.set t g' l').locals n.1).serial ∨
      (n.2 = ((c.set t g' l').locals n.1).serial ∧ ((c.set t g' l').locals n.1).pc.afterInsert = true) := by
  rintro ⟨a, b⟩
  have ht := hinv.tid_eq t
  have hf := hinv.node_fresh (a, b)
  simp only at hf
  by_cases hut : a = t
  · subst hut
    cases step_inv hs <;> no_crash_case hinv <;> simp_all
    case idle => rename_i op _ _ _; cases op <;> simp_all <;> grind
    all_goals grind
  · cases step_inv hs <;> no_crash_case hinv <;> simp_all
    all_goals grind


theorem chain_ok_step (hinv : InvA B c) (hs : (g', l') ∈ (sys B).step c.g (c.locals t)) :
    ∀ b n, n ∈ (c.set t g' l').g.buckets b →
      ((c.set t g' l').g.nodes n).live = true ∧ ((c.set t g' l').g.nodes n).key % B = b := by
  rintro b ⟨a, k⟩
  have ht := hinv.tid_eq t
  have hc := hinv.chain_ok b (a, k)
  have hst := step_inv hs
  clear hs
  cases hst <;> no_crash_case hinv
  case wMapRemoveFree n' m hpc hsl hn he hf hall hme =>
    have hcf := chainFind_some _ _ _ _ hf
    have hnd := hinv.chain_nodup ((c.locals t).addr % B)
    have hcm := hinv.chain_ok ((c.locals t).addr % B) m
    have hcb := hinv.chain_ok b m
    simp only [Cfg.set_g, upd_apply]
    grind [List.Nodup.mem_erase_iff]
  case wMapInsert hpc hl =>
    have hnf := hinv.node_fresh (a, k)
    simp_all
    grind
  all_goals simp_all
  all_goals grind

theorem chain_nodup_step (hinv : InvA B c) (hs : (g', l') ∈ (sys B).step c.g (c.locals t)) :
    ∀ b, ((c.set t g' l').g.buckets b).Nodup := by
  intro b
  have ht := hinv.tid_eq t
  have hc := hinv.chain_nodup b
  have hst := step_inv hs
  clear hs
  cases hst <;> no_crash_case hinv
  case wMapInsert hpc hl =>
    have hnf := hinv.node_fresh (t, (c.locals t).serial)
    have hco := hinv.chain_ok b (t, (c.locals t).serial)
    simp_all
    grind
  case wMapRemoveFree n' m hpc hsl hn he hf hall hme =>
    simp only [Cfg.set_g, upd_apply]
    split
    · subst_vars; exact hc.erase _
    · exact hc
  all_goals simp_all

theorem chain_keys_step (hinv : InvA B c) (hs : (g', l') ∈ (sys B).step c.g (c.locals t)) :
    ∀ b n m, n ∈ (c.set t g' l').g.buckets b → m ∈ (c.set t g' l').g.buckets b →
      ((c.set t g' l').g.nodes n).key = ((c.set t g' l').g.nodes m).key → n = m := by
  intro b n m
  have ht := hinv.tid_eq t
  have hc := hinv.chain_keys b n m
  have hst := step_inv hs
  clear hs
  cases hst <;> no_crash_case hinv
  case wMapInsert hpc hl =>
    have hio := hinv.insert_ok t hpc
    have hcn := hinv.chain_ok b n
    have hcm := hinv.chain_ok b m
    have hnf := hinv.node_fresh (t, (c.locals t).serial)
    simp_all
    grind
  case wMapRemoveFree n' m' hpc hsl hn he hf hall hme =>
    have hnd := hinv.chain_nodup ((c.locals t).addr % B)
    simp only [Cfg.set_g, upd_apply]
    grind [List.Nodup.mem_erase_iff, List.mem_of_mem_erase]
  all_goals simp_all
  all_goals grind

theorem live_chain_step (hinv : InvA B c) (hs : (g', l') ∈ (sys B).step c.g (c.locals t)) :
    ∀ n, ((c.set t g' l').g.nodes n).live = true →
      n ∈ (c.set t g' l').g.buckets (((c.set t g' l').g.nodes n).key % B) := by
  intro n
  have ht := hinv.tid_eq t
  have hc := hinv.live_chain n
  have hst := step_inv hs
  clear hs
  cases hst <;> no_crash_case hinv
  case wMapRemoveFree n' m' hpc hsl hn he hf hall hme =>
    simp only [Cfg.set_g, upd_apply]
    grind
  all_goals simp_all
  all_goals grind

theorem insert_ok_step (hinv : InvA B c) (hs : (g', l') ∈ (sys B).step c.g (c.locals t)) :
    ∀ u, ((c.set t g' l').locals u).pc = .wMapInsert →
      ∀ n ∈ (c.set t g' l').g.buckets (((c.set t g' l').locals u).addr % B),
        ((c.set t g' l').g.nodes n).key ≠ ((c.set t g' l').locals u).addr := by
  intro u
  have ht := hinv.tid_eq t
  have hio := hinv.insert_ok u
  have hmt := hinv.mutex_iff t
  have hmu := hinv.mutex_iff u
  have hst := step_inv hs
  clear hs
  by_cases hut : u = t
  · subst hut
    cases hst <;> no_crash_case hinv
    case wMapGetNone hpc hg =>
      have hma := hinv.map_alloc u (by simp [hpc])
      unfold mapGet at hg
      simp [hma] at hg
      have := chainFind_none _ _ _ hg
      simp_all
    all_goals simp_all
    rename_i op _ _ _; cases op <;> simp
  · cases hst <;> no_crash_case hinv <;> simp_all
    all_goals grind

theorem PC.holds_of_hasSlot_not_enq {p : PC} (h : p.hasSlot = true) (h2 : p.enq = false) : p.holds = true := by
  cases p <;> simp_all

theorem InvA.holder_unique (hinv : InvA B c) {t u : Tid} (ht : (c.locals t).pc.holds = true)
    (hu : (c.locals u).pc.holds = true) : t = u := by
  have h1 := (hinv.mutex_iff t).mpr ht
  have h2 := (hinv.mutex_iff u).mpr hu
  rw [h1] at h2
  exact Option.some.inj h2

theorem slot_ok_step (hinv : InvA B c) (hs : (g', l') ∈ (sys B).step c.g (c.locals t)) :
    ∀ u, ((c.set t g' l').locals u).pc.hasSlot = true →
      ∃ n, ((c.set t g' l').locals u).slot = some n ∧ ((c.set t g' l').g.nodes n).live = true ∧
        ((c.set t g' l').g.nodes n).key = ((c.set t g' l').locals u).addr := by
  intro u
  have ht := hinv.tid_eq t
  have hsu := hinv.slot_ok u
  have hst := step_inv hs
  clear hs
  by_cases hut : u = t
  · subst hut
    cases hst <;> no_crash_case hinv
    case wMapGetSome n hpc hg =>
      have hma := hinv.map_alloc u (by simp [hpc])
      unfold mapGet at hg
      simp [hma] at hg
      have := chainFind_some _ _ _ _ hg
      simp_all
    case nMapGetSome n hpc hg =>
      have hma := hinv.map_alloc u (by simp [hpc])
      unfold mapGet at hg
      simp [hma] at hg
      have := chainFind_some _ _ _ _ hg
      simp_all
    all_goals simp_all
    rename_i op _ _ _; cases op <;> simp
  · cases hst <;> no_crash_case hinv
    case wMapInsert hpc hl =>
      simp only [Cfg.set_locals, hut, if_false, Cfg.set_g]
      intro h
      obtain ⟨n, hsl, hl, hk⟩ := hsu h
      have hnf := hinv.node_fresh n hl
      have hne : n ≠ (t, (c.locals t).serial) := by
        rintro rfl
        simp [hpc] at hnf
      exact ⟨n, hsl, by simp [ht, hne, hl], by simp [ht, hne, hk]⟩
    case wPrepend n' hpc hsl' hn hw hh =>
      simp only [Cfg.set_locals, hut, if_false, Cfg.set_g]
      intro h
      obtain ⟨n, hsl, hl, hk⟩ := hsu h
      refine ⟨n, hsl, ?_, ?_⟩ <;> simp only [upd_apply] <;> split <;> simp_all
    case wRemove n' hpc hsl' hn hw hh =>
      simp only [Cfg.set_locals, hut, if_false, Cfg.set_g]
      intro h
      obtain ⟨n, hsl, hl, hk⟩ := hsu h
      refine ⟨n, hsl, ?_, ?_⟩ <;> simp only [upd_apply] <;> split <;> simp_all
    case wMapRemoveFree n' m hpc hsl' hn he hf hall hme =>
      simp only [Cfg.set_locals, hut, if_false, Cfg.set_g]
      intro h
      obtain ⟨n, hsl, hl, hk⟩ := hsu h
      have hne : n ≠ m := by
        rintro rfl
        by_cases henq : (c.locals u).pc.enq = true
        · have := hinv.enq_mem u n henq hsl
          simp [hme] at this
        · have hh : (c.locals u).pc.holds = true := PC.holds_of_hasSlot_not_enq h (by simpa using henq)
          exact hut (hinv.holder_unique hh (by simp [hpc]))
      exact ⟨n, hsl, by simp [hne, hl], by simp [hne, hk]⟩
    all_goals simp_all

theorem PC.hasSlot_of_enq {p : PC} (h : p.enq = true) : p.hasSlot = true := by cases p <;> simp_all
theorem PC.hasWait_of_enq {p : PC} (h : p.enq = true) : p.hasWait = true := by cases p <;> simp_all
theorem PC.afterInsert_of_enq {p : PC} (h : p.enq = true) : p.afterInsert = true := by cases p <;> simp_all
theorem PC.afterCreate_of_enq {p : PC} (h : p.enq = true) : p.afterCreate = true := by cases p <;> simp_all

theorem enq_mem_step (hinv : InvA B c) (hs : (g', l') ∈ (sys B).step c.g (c.locals t)) :
    ∀ u n, ((c.set t g' l').locals u).pc.enq = true → ((c.set t g' l').locals u).slot = some n →
      ((c.set t g' l').locals u).wait ∈ ((c.set t g' l').g.nodes n).waits := by
  intro u n
  have ht := hinv.tid_eq t
  have hsu := hinv.enq_mem u n
  have hst := step_inv hs
  clear hs
  by_cases hut : u = t
  · subst hut
    cases hst <;> no_crash_case hinv
    all_goals simp_all
    rename_i op _ _ _; cases op <;> simp
  · have hwu := hinv.wait_live u
    have hwt := hinv.wait_live t
    have hslu := hinv.slot_ok u
    have he1 := @PC.hasSlot_of_enq (c.locals u).pc
    have he2 := @PC.hasWait_of_enq (c.locals u).pc
    cases hst <;> no_crash_case hinv
    case wMapInsert hpc hl =>
      have hnf := hinv.node_fresh (t, (c.locals t).serial)
      simp_all
      grind
    case wRemove n' hpc hsl' hn hw hh =>
      have hnd := hinv.list_nodup n' hn
      have hmt := hinv.enq_mem t n' (by simp [hpc]) hsl'
      have hlr := @mem_listRemove (c.g.nodes n').waits (c.locals t).wait (c.locals u).wait hnd hmt
      simp_all
      grind
    all_goals simp_all
    all_goals grind

theorem list_ok_step (hinv : InvA B c) (hs : (g', l') ∈ (sys B).step c.g (c.locals t)) :
    ∀ n w, ((c.set t g' l').g.nodes n).live = true → w ∈ ((c.set t g' l').g.nodes n).waits →
      ((c.set t g' l').g.waits w).live = true ∧ ((c.set t g' l').locals w.1).pc.enq = true ∧
      ((c.set t g' l').locals w.1).slot = some n := by
  rintro n ⟨a, k⟩
  have ht := hinv.tid_eq t
  have hlo := hinv.list_ok n (a, k)
  simp only at hlo
  have hst := step_inv hs
  clear hs
  have hlw := hinv.live_wait (a, k)
  simp only at hlw
  have hnf := hinv.node_fresh n
  by_cases hut : a = t
  · subst hut
    have hwt := hinv.wait_live a
    cases hst <;> no_crash_case hinv
    case wRemove n' hpc hsl' hn hw hh =>
      have hnd := hinv.list_nodup n' hn
      have hmt := hinv.enq_mem a n' (by simp [hpc]) hsl'
      have hlr := @mem_listRemove (c.g.nodes n').waits (c.locals a).wait (a, k) hnd hmt
      have hlo' := hinv.list_ok n' (a, k) hn
      simp_all
      grind
    case idle op rest hpc hp => cases op <;> (simp only [Cfg.set_g, Cfg.set_locals, upd_apply, L.start, ↓reduceIte]; grind)
    all_goals (simp only [Cfg.set_g, Cfg.set_locals, upd_apply, L.ret, ↓reduceIte]; grind)
  · have hwt := hinv.wait_live t
    cases hst <;> no_crash_case hinv
    case wRemove n' hpc hsl' hn hw hh =>
      have hnd := hinv.list_nodup n' hn
      have hmt := hinv.enq_mem t n' (by simp [hpc]) hsl'
      have hlr := @mem_listRemove (c.g.nodes n').waits (c.locals t).wait (a, k) hnd hmt
      simp_all
      grind
    all_goals simp_all
    all_goals grind

theorem list_nodup_step (hinv : InvA B c) (hs : (g', l') ∈ (sys B).step c.g (c.locals t)) :
    ∀ n, ((c.set t g' l').g.nodes n).live = true → ((c.set t g' l').g.nodes n).waits.Nodup := by
  intro n
  have ht := hinv.tid_eq t
  have hnd := hinv.list_nodup n
  have hst := step_inv hs
  clear hs
  cases hst <;> no_crash_case hinv
  case wPrepend n' hpc hsl' hn hw hh =>
    have hwt := hinv.wait_live t (by simp [hpc])
    have hlo := hinv.list_ok n' (c.locals t).wait hn
    simp only [Cfg.set_g, upd_apply]
    split
    · subst_vars
      intro _
      refine List.nodup_cons.mpr ⟨fun hmem => ?_, hinv.list_nodup _ hn⟩
      have := (hlo hmem).2.1
      rw [hwt.1] at this
      simp [hpc] at this
    · exact hnd
  case wRemove n' hpc hsl' hn hw hh =>
    simp only [Cfg.set_g, upd_apply]
    split
    · subst_vars
      intro _
      exact listRemove_nodup (hinv.list_nodup _ hn)
    · exact hnd
  all_goals (simp only [Cfg.set_g, Cfg.set_locals, upd_apply, L.ret, ↓reduceIte]; grind)

theorem cursor_ok_step (hinv : InvA B c) (hs : (g', l') ∈ (sys B).step c.g (c.locals t)) :
    ∀ u n, (((c.set t g' l').locals u).pc = .nLoop ∨ ((c.set t g' l').locals u).pc = .nSignal) →
      ((c.set t g' l').locals u).slot = some n →
      ((c.set t g' l').locals u).cursor <:+ ((c.set t g' l').g.nodes n).waits := by
  intro u n
  have ht := hinv.tid_eq t
  have hco := hinv.cursor_ok u n
  have hst := step_inv hs
  clear hs
  by_cases hut : u = t
  · subst hut
    cases hst <;> no_crash_case hinv
    case idle op rest hpc hp => cases op <;> simp
    case nLoopSkip w rest hpc hc hn hw hst' =>
      simp only [Cfg.set_g, Cfg.set_locals, if_true]
      intro h1 h2
      have := hco (Or.inl hpc) h2
      rw [hc] at this
      exact (List.suffix_cons w rest).trans this
    case nSignal w rest ps hpc hc hw hps =>
      simp only [Cfg.set_g, Cfg.set_locals, if_true]
      intro h1 h2
      have := hco (Or.inr hpc) h2
      rw [hc] at this
      exact (List.suffix_cons w rest).trans this
    all_goals (simp only [Cfg.set_g, Cfg.set_locals, upd_apply, L.ret, ↓reduceIte]; grind)
  · have hmt := hinv.mutex_iff t
    have hmu := hinv.mutex_iff u
    cases hst <;> no_crash_case hinv
    all_goals (simp only [Cfg.set_g, Cfg.set_locals, upd_apply, L.ret, hut, ↓reduceIte]; grind)

/-- the invariant is preserved by every step of every thread -/
theorem InvA.step (hinv : InvA B c) (hs : (g', l') ∈ (sys B).step c.g (c.locals t)) :
    InvA B (c.set t g' l') where
  tid_eq := tid_eq_step hinv hs
  no_crash := no_crash_step hinv hs
  mutex_iff := mutex_iff_step hinv hs
  wait_live := wait_live_step hinv hs
  live_wait := live_wait_step hinv hs
  slot_ok := slot_ok_step hinv hs
  enq_mem := enq_mem_step hinv hs
  list_ok := list_ok_step hinv hs
  list_nodup := list_nodup_step hinv hs
  chain_ok := chain_ok_step hinv hs
  chain_nodup := chain_nodup_step hinv hs
  chain_keys := chain_keys_step hinv hs
  live_chain := live_chain_step hinv hs
  node_fresh := node_fresh_step hinv hs
  parked_ok := parked_ok_step hinv hs
  parked_nodup := parked_nodup_step hinv hs
  map_alloc := map_alloc_step hinv hs
  cursor_ok := cursor_ok_step hinv hs
  signal_cursor := signal_cursor_step hinv hs
  insert_ok := insert_ok_step hinv hs

/-- `InvA` holds in every reachable configuration: any number of threads, any programs, any
    interleaving, spurious wake-ups and timeouts included. -/
theorem InvA.reach {c : Cfg G L} (hr : Reach (sys B) Init c) : InvA B c :=
  Reach.invariant (InvA B) (fun _ h => InvA.init h) (fun _ _ _ _ hi hs => hi.step hs) hr

end W2c2Verif.Futex
