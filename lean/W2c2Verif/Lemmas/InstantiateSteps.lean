/-
  Lemmas.InstantiateSteps — each Init* function of the model establishes its part of the specified state.
-/
import W2c2Verif.Lemmas.InstantiateHeap

namespace W2c2Verif.Model.Inst
open W2c2Verif Spec.Inst

/-! ## resolution in a fixed environment -/

theorem filterMap_congr' {α β} {f g : α → Option β} : ∀ (l : List α), (∀ x ∈ l, f x = g x) → l.filterMap f = l.filterMap g := by
  intro l
  induction l with
  | nil => intro _; rfl
  | cons x xs ih =>
    intro h
    simp only [List.filterMap_cons, h x (by simp)]
    rw [ih (fun y hy => h y (by simp [hy]))]

theorem range_map_get (n : Nat) (f : Nat → α) (k : Nat) : ((List.range n).map f)[k]? = if k < n then some (f k) else none := by
  rw [List.getElem?_map]
  by_cases h : k < n
  · simp [h]
  · simp [h]

theorem evalC_of_evalConst (d : ModDesc) (w : World) (r : Resolver) (i : Instance)
    (hg : i.globImp = (List.range d.globalImports).map r.global) (e : ConstE) (v : Nat)
    (h : evalConst d w r e = some v) : evalC d w.globals i e = .val v := by
  cases e with
  | const b => simp [evalConst] at h; simp [evalC, h]
  | globalGet k =>
    simp only [evalConst] at h
    by_cases hk : k < d.globalImports
    · simp only [hk, if_true, importedGlobal] at h
      simp only [evalC, hk, if_true, hg, range_map_get, Option.join]
      cases hr : r.global k with
      | none => simp [hr] at h
      | some p =>
        simp only [hr, Option.bind_some] at h
        simp [h]
    · simp [hk] at h

theorem memPtr_eq (d : ModDesc) (w : World) (r : Resolver) (i : Instance)
    (hm : i.memImp = (List.range d.memImports).map r.mem)
    (ho : i.mems = (List.range d.mems.length).map (w.mems.length + ·)) (idx : Nat) :
    memPtr d i idx = memAddr d w r idx := by
  unfold memPtr memAddr
  by_cases h : idx < d.memImports
  · simp [h, hm]
  · simp only [h, if_false, ho, range_map_get]

theorem tabPtr_eq (d : ModDesc) (w : World) (r : Resolver) (i : Instance)
    (hm : i.tabImp = (List.range d.tableImports).map r.table)
    (ho : i.tables = (List.range d.tables.length).map (w.tables.length + ·)) (idx : Nat) :
    tabPtr d i idx = tableAddr d w r idx := by
  unfold tabPtr tableAddr
  by_cases h : idx < d.tableImports
  · simp [h, hm]
  · simp only [h, if_false, ho, range_map_get]

/-! ## data segments -/

def resolvedData (d : ModDesc) (gl : List Nat) (i : Instance) (segs : List DataSeg) : List (Nat × Nat × List UInt8) :=
  segs.filterMap fun seg => match resData d gl i seg with | .val (some w) => some w | _ => none

theorem fold_loadData (d : ModDesc) (i : Instance) (segs : List DataSeg) : ∀ (w : World),
    (∀ seg ∈ segs, ∃ x, resData d w.globals i seg = .val x) →
    foldM' (loadData d) (w, i) segs =
      (writeAll w.mems (resolvedData d w.globals i segs) >>= fun ms => .val ({ w with mems := ms }, i)) := by
  induction segs with
  | nil => intro w _; simp [foldM', resolvedData, writeAll]
  | cons seg rest ih =>
    intro w hres
    obtain ⟨x, hx⟩ := hres seg (by simp)
    have hrest : ∀ seg ∈ rest, ∃ x, resData d w.globals i seg = .val x := fun s hs => hres s (by simp [hs])
    cases x with
    | none =>
      have h1 : loadData d (w, i) seg = .val (w, i) := by simp [loadData, hx]
      have h2 : resolvedData d w.globals i (seg :: rest) = resolvedData d w.globals i rest := by
        simp [resolvedData, hx]
      simp only [foldM', h1, Out.bind_val, h2]
      exact ih w hrest
    | some x =>
      have h2 : resolvedData d w.globals i (seg :: rest) = x :: resolvedData d w.globals i rest := by
        simp [resolvedData, hx]
      simp only [foldM', h2, writeAll]
      have h1 : loadData d (w, i) seg = (heapWrite w.mems x.1 x.2.1 x.2.2 >>= fun ms => .val ({ w with mems := ms }, i)) := by
        simp [loadData, hx]
      rw [h1]
      cases hw : heapWrite w.mems x.1 x.2.1 x.2.2 with
      | val ms =>
        simp only [Out.bind_val]
        have := ih { w with mems := ms } hrest
        simpa [writeAll] using this
      | trap t => rfl
      | ub k => rfl
      | oof => rfl

theorem objSize_append_mems (d : ModDesc) (w : World) (p : Nat) :
    objSize (w.mems ++ d.mems.map fun mm => Array.replicate (mm.1 * pageSize) (0 : UInt8)) p = memSize d w p := by
  unfold objSize memSize
  rw [List.getElem?_append]
  by_cases h : p < w.mems.length
  · simp [h]
  · simp [h, List.getElem?_map]
    cases d.mems[p - w.mems.length]? <;> simp

theorem cell_append_mems (d : ModDesc) (w : World) (p a : Nat) :
    cell (w.mems ++ d.mems.map fun mm => Array.replicate (mm.1 * pageSize) (0 : UInt8)) p a = memPrior d w p a := by
  unfold cell memPrior
  rw [List.getElem?_append]
  by_cases h : p < w.mems.length
  · simp [h, cell]
  · simp only [h, if_false, List.getElem?_map]
    cases d.mems[p - w.mems.length]? with
    | none => simp
    | some mm => simp [Array.getElem?_replicate]

theorem initMemories_spec (d : ModDesc) (w : World) (r : Resolver) (i : Instance)
    (hm : i.memImp = (List.range d.memImports).map r.mem)
    (hg : i.globImp = (List.range d.globalImports).map r.global)
    (hf : Fits d w r) :
    ∃ ms, initMemories d (w, i) = .val ({ w with mems := ms }, { i with mems := (List.range d.mems.length).map (w.mems.length + ·) }) ∧
      ms.length = w.mems.length + d.mems.length ∧ ∀ p a, cell ms p a = memAfter d w r p a := by
  let i1 : Instance := { i with mems := (List.range d.mems.length).map (w.mems.length + ·) }
  let w1 : World := { w with mems := w.mems ++ d.mems.map fun mm => Array.replicate (mm.1 * pageSize) (0 : UInt8) }
  have hres : ∀ seg ∈ d.datas, resData d w1.globals i1 seg =
      .val (if seg.passive then none else
        match memAddr d w r seg.mem, evalConst d w r seg.offset with
        | some p, some off => some (p, off, seg.bytes) | _, _ => none) := by
    intro seg hs
    unfold resData
    by_cases hp : seg.passive
    · simp [hp]
    · have hp' : seg.passive = false := by simpa using hp
      obtain ⟨p, off, sz, h1, h2, _, _⟩ := hf.data seg hs hp'
      have e1 : evalC d w1.globals i1 seg.offset = .val off := evalC_of_evalConst d w r i1 hg seg.offset off h2
      have e2 : memPtr d i1 seg.mem = some p := by rw [memPtr_eq d w r i1 hm rfl]; exact h1
      simp [hp', e1, e2, h1, h2]
  have hfold := fold_loadData d i1 d.datas w1 (fun seg hs => ⟨_, hres seg hs⟩)
  have hsegs : ∀ q, segsFor (resolvedData d w1.globals i1 d.datas) q = dataSegsAt d w r q := by
    intro q
    unfold segsFor resolvedData dataSegsAt
    rw [List.filterMap_filterMap]
    apply filterMap_congr'
    intro seg hs
    rw [hres seg hs]
    by_cases hp : seg.passive
    · simp [hp]
    · have hp' : seg.passive = false := by simpa using hp
      obtain ⟨p, off, sz, h1, h2, _, _⟩ := hf.data seg hs hp'
      simp only [hp', h1, h2]
      by_cases hq : p = q
      · simp [hq]
      · simp [hq]
  have hok : ∀ x ∈ resolvedData d w1.globals i1 d.datas, ∃ sz, objSize w1.mems x.1 = some sz ∧ x.2.1 + x.2.2.length ≤ sz := by
    intro x hx
    unfold resolvedData at hx
    rw [List.mem_filterMap] at hx
    obtain ⟨seg, hs, hx⟩ := hx
    rw [hres seg hs] at hx
    by_cases hp : seg.passive
    · simp [hp] at hx
    · have hp' : seg.passive = false := by simpa using hp
      obtain ⟨p, off, sz, h1, h2, h3, h4⟩ := hf.data seg hs hp'
      simp only [hp', h1, h2] at hx
      have hx' : x = (p, off, seg.bytes) := by simpa using hx.symm
      subst hx'
      exact ⟨sz, by rw [objSize_append_mems]; exact h3, h4⟩
  obtain ⟨ms, hw, hl, _, hcell⟩ := writeAll_spec _ w1.mems hok
  refine ⟨ms, ?_, ?_, ?_⟩
  · show foldM' (loadData d) (w1, i1) d.datas = _
    rw [hfold, hw]; rfl
  · rw [hl]; simp [w1]
  · intro p a
    rw [hcell, hsegs, cell_append_mems]
    rfl

end W2c2Verif.Model.Inst
