/-
  Lemmas.Elem — sequential element-segment stores compute the specified table.
-/
import W2c2Verif.Model.Elem
namespace W2c2Verif.Model

theorem writeSeg_length (tbl : List (Option Nat)) (seg : ElemSeg) : (writeSeg tbl seg).length = tbl.length := by
  unfold writeSeg
  generalize seg.funcs.zipIdx = l
  induction l generalizing tbl with
  | nil => rfl
  | cons x xs ih => simp only [List.foldl_cons]; rw [ih]; simp

/-- writing entries `fs` (with running index starting at `start`) -/
theorem writeSeg_aux (off : Nat) (fs : List Nat) : ∀ (start : Nat) (tbl : List (Option Nat)) (k : Nat), k < tbl.length →
    ((fs.zipIdx start).foldl (fun t (fi : Nat × Nat) => t.set (off + fi.2) (some fi.1)) tbl)[k]? =
      (if off + start ≤ k ∧ k < off + start + fs.length then some (fs[k - (off + start)]?) else tbl[k]?) := by
  induction fs with
  | nil => intro start tbl k hk; simp; intro h; omega
  | cons f rest ih =>
    intro start tbl k hk
    simp only [List.zipIdx_cons, List.foldl_cons]
    rw [ih (start + 1) _ k (by simpa using hk)]
    by_cases h1 : off + (start + 1) ≤ k ∧ k < off + (start + 1) + rest.length
    · have h2 : off + start ≤ k ∧ k < off + start + (f :: rest).length := by simp; omega
      simp only [h1, h2, and_self, if_true]
      have e : k - (off + start) = (k - (off + (start + 1))) + 1 := by omega
      rw [e]; simp
    · simp only [h1, if_false]
      by_cases h3 : k = off + start
      · subst h3
        have h2 : off + start ≤ off + start ∧ off + start < off + start + (f :: rest).length := by simp
        simp only [h2, and_self, if_true, Nat.sub_self]
        simp [List.getElem?_set_self hk]
      · have h2 : ¬ (off + start ≤ k ∧ k < off + start + (f :: rest).length) := by simp at h1 ⊢; omega
        simp only [h2, if_false]
        rw [List.getElem?_set_ne (by omega)]

theorem writeSeg_get (tbl : List (Option Nat)) (seg : ElemSeg) (k : Nat) (hk : k < tbl.length) :
    (writeSeg tbl seg)[k]? = some (match segAt seg k with | some f => some f | none => tbl[k]?.join) := by
  unfold writeSeg
  rw [writeSeg_aux seg.offset seg.funcs 0 tbl k hk]
  simp only [Nat.add_zero, segAt]
  split
  · rename_i h
    have : k - seg.offset < seg.funcs.length := by omega
    simp [List.getElem?_eq_getElem this]
  · simp [List.getElem?_eq_getElem hk]

theorem foldl_writeSeg_get (segs : List ElemSeg) : ∀ (tbl : List (Option Nat)) (k : Nat), k < tbl.length →
    (segs.foldl writeSeg tbl)[k]? =
      some (segs.foldl (fun cur seg => match segAt seg k with | some f => some f | none => cur) (tbl[k]?.join)) := by
  induction segs with
  | nil => intro tbl k hk; simp [List.getElem?_eq_getElem hk]
  | cons seg rest ih =>
    intro tbl k hk
    simp only [List.foldl_cons]
    rw [ih (writeSeg tbl seg) k (by rw [writeSeg_length]; exact hk), writeSeg_get tbl seg k hk]
    simp

/-- every slot of the initialised table holds what the specification says: the function listed for it by
    the last segment that covers it, or nothing; for any number of (possibly overlapping) segments -/
theorem initTable_spec (size : Nat) (segs : List ElemSeg) (k : Nat) (hk : k < size) :
    (initTable size segs)[k]? = some (slotSpec segs k) := by
  unfold initTable slotSpec
  rw [foldl_writeSeg_get segs _ k (by simpa using hk)]
  have : (List.replicate size (none : Option Nat))[k]?.join = none := by simp [hk]
  rw [this]
  rfl

theorem initTable_length (size : Nat) (segs : List ElemSeg) : (initTable size segs).length = size := by
  unfold initTable
  generalize hl : List.replicate size (none : Option Nat) = tbl
  have : tbl.length = size := by rw [← hl]; simp
  clear hl
  induction segs generalizing tbl with
  | nil => exact this
  | cons seg rest ih => simp only [List.foldl_cons]; exact ih _ (by rw [writeSeg_length]; exact this)

end W2c2Verif.Model
