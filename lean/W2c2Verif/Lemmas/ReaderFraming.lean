/-
  Lemmas.ReaderFraming — section readers are stable up to the two fields that legitimately depend on the
  file image (`RawModule.length`, `RawModule.debugSections`), they never change `length`, and the module loop
  can be unfolded without its (never taken) progress check.
-/
import W2c2Verif.Lemmas.ReaderSections
import W2c2Verif.Lemmas.ReaderNoUB

namespace W2c2Verif.Lemmas.Reader
open W2c2Verif.Model W2c2Verif.Model.Reader
open W2c2Verif.Gen

/-- Equal except for the file length and the list of `.debug_*` sections. -/
def Sim (m m' : RawModule) : Prop := ∃ L d, m' = { m with length := L, debugSections := d }

theorem Sim.refl (m : RawModule) : Sim m m := ⟨m.length, m.debugSections, rfl⟩

theorem Sim.symm {m m' : RawModule} (h : Sim m m') : Sim m' m := by
  obtain ⟨L, d, rfl⟩ := h
  exact ⟨m.length, m.debugSections, rfl⟩

theorem Sim.trans {a b c : RawModule} (h1 : Sim a b) (h2 : Sim b c) : Sim a c := by
  obtain ⟨L, d, rfl⟩ := h1
  obtain ⟨L', d', rfl⟩ := h2
  exact ⟨L', d', rfl⟩

/-- `p >>= f` where `p` is an element reader (stable, no module involved) and the continuations are related. -/
theorem sb {α β β' : Type} {S : β → β' → Prop} {p : P α} {f : α → P β} {g : α → P β'}
    (hp : Stable p) (hf : ∀ a, StableR S (f a) (g a)) : StableR S (p >>= f) (p >>= g) :=
  stable_bind (stable_to_eq hp) (fun a a' h => by subst h; exact hf a)

/-! ### the sections that only append decoded entries -/

theorem typeSection_stable {m m' : RawModule} (h : Sim m m') : StableR Sim (typeSection m) (typeSection m') := by
  obtain ⟨L, d, rfl⟩ := h
  unfold typeSection
  exact sb (stable_u32 _) fun n => sb (stable_vec stable_functionType _) fun ts => stable_pure ⟨L, d, rfl⟩

theorem importEntry_stable {m m' : RawModule} (h : Sim m m') : StableR Sim (importEntry m) (importEntry m') := by
  obtain ⟨L, d, rfl⟩ := h
  unfold importEntry
  refine sb (stable_name _) fun mod => sb (stable_name _) fun nm => sb (stable_byte _) fun k => ?_
  refine stable_ite (fun _ => stable_fail _ _) fun _ => ?_
  split
  · exact sb (stable_u32 _) fun _ => stable_pure ⟨L, d, rfl⟩
  · exact sb stable_globalType fun _ => stable_pure ⟨L, d, rfl⟩
  · exact sb stable_memoryType fun _ => stable_pure ⟨L, d, rfl⟩
  · exact sb stable_tableType fun _ => stable_pure ⟨L, d, rfl⟩
  · exact stable_fail _ _

theorem importSection_stable {m m' : RawModule} (h : Sim m m') : StableR Sim (importSection m) (importSection m') := by
  unfold importSection
  exact sb (stable_u32 _) fun n => stable_iter (fun s t hst => importEntry_stable hst) n m m' h

theorem functionSection_stable {m m' : RawModule} (h : Sim m m') :
    StableR Sim (functionSection m) (functionSection m') := by
  obtain ⟨L, d, rfl⟩ := h
  unfold functionSection
  exact sb (stable_u32 _) fun n => sb (stable_vec (stable_functionEntry _) _) fun fs => stable_pure ⟨L, d, rfl⟩

theorem tableSection_stable {m m' : RawModule} (h : Sim m m') : StableR Sim (tableSection m) (tableSection m') := by
  obtain ⟨L, d, rfl⟩ := h
  unfold tableSection
  exact sb (stable_u32 _) fun n => sb (stable_vec stable_tableType _) fun ts => stable_pure ⟨L, d, rfl⟩

theorem memorySection_stable {m m' : RawModule} (h : Sim m m') :
    StableR Sim (memorySection m) (memorySection m') := by
  obtain ⟨L, d, rfl⟩ := h
  unfold memorySection
  exact sb (stable_u32 _) fun n => sb (stable_vec stable_memoryType _) fun ts => stable_pure ⟨L, d, rfl⟩

theorem globalSection_stable (cfg : Cfg) {m m' : RawModule} (h : Sim m m') :
    StableR Sim (globalSection cfg m) (globalSection cfg m') := by
  obtain ⟨L, d, rfl⟩ := h
  unfold globalSection
  exact sb (stable_u32 _) fun n => sb (stable_vec (stable_globalEntry cfg) _) fun gs => stable_pure ⟨L, d, rfl⟩

theorem startSection_stable {m m' : RawModule} (h : Sim m m') : StableR Sim (startSection m) (startSection m') := by
  obtain ⟨L, d, rfl⟩ := h
  unfold startSection
  exact sb (stable_u32 _) fun idx => stable_pure ⟨L, d, rfl⟩

theorem elementSection_stable (cfg : Cfg) {m m' : RawModule} (h : Sim m m') :
    StableR Sim (elementSection cfg m) (elementSection cfg m') := by
  obtain ⟨L, d, rfl⟩ := h
  unfold elementSection
  exact sb (stable_u32 _) fun n => sb (stable_vec (stable_elemEntry cfg) _) fun es => stable_pure ⟨L, d, rfl⟩

theorem dataSection_stable (cfg : Cfg) {m m' : RawModule} (h : Sim m m') :
    StableR Sim (dataSection cfg m) (dataSection cfg m') := by
  obtain ⟨L, d, rfl⟩ := h
  unfold dataSection
  exact sb (stable_u32 _) fun n => sb (stable_vec (stable_dataEntry cfg) _) fun ds => stable_pure ⟨L, d, rfl⟩

theorem dataCountSection_stable {m m' : RawModule} (h : Sim m m') :
    StableR Sim (dataCountSection m) (dataCountSection m') := by
  unfold dataCountSection
  exact sb (stable_u32 _) fun _ => stable_pure h

theorem stable_exportStep (ic fc : Nat) (st : List Function × List Export) : Stable (exportStep ic fc st) := by
  unfold exportStep
  refine stable_bind_eq stable_exportEntry fun ex => stable_ite_eq (fun _ => ?_) (fun _ => stable_pure_eq _)
  refine stable_ite_eq (fun _ => stable_fail_eq _) fun _ => stable_ite_eq (fun _ => ?_) (fun _ => stable_pure_eq _)
  exact stable_ite_eq (fun _ => stable_pure_eq _) (fun _ => stable_undefined_eq _)

theorem exportSection_stable {m m' : RawModule} (h : Sim m m') :
    StableR Sim (exportSection m) (exportSection m') := by
  obtain ⟨L, d, rfl⟩ := h
  unfold exportSection
  refine sb (stable_u32 _) fun n => ?_
  refine sb ?_ fun st => stable_pure ⟨L, d, rfl⟩
  exact stable_of_eq (stable_iter (R := Eq) (fun s t hst => by subst hst; exact stable_to_eq (stable_exportStep _ _ s)) n _ _ rfl)

/-! ### the code section: `Function.start` is computed from absolute positions -/

theorem remaining_bind {β : Type} (f : Nat → P β) (bs : Bytes) : (P.remaining >>= f) bs = f bs.length bs :=
  bind_eq_of_ok (p := P.remaining) rfl

theorem peek_bind {β : Type} (f : Bytes → P β) (bs : Bytes) : (P.peek >>= f) bs = f bs bs :=
  bind_eq_of_ok (p := P.peek) rfl

theorem ite_run {α : Type} (c : Prop) [Decidable c] (p q : P α) (bs : Bytes) :
    (if c then p else q) bs = if c then p bs else q bs := by
  by_cases h : c
  · rw [if_pos h, if_pos h]
  · rw [if_neg h, if_neg h]

theorem bind_run {α β : Type} (p : P α) (f : α → P β) (bs : Bytes) :
    (p >>= f) bs = match p bs with
      | .ok (a, rest) => f a rest
      | .err c => .err c
      | .ub u => .ub u := rfl

theorem take_add_append {α : Type} (l₁ l₂ : List α) (i : Nat) :
    (l₁ ++ l₂).take (l₁.length + i) = l₁ ++ l₂.take i := by
  rw [List.take_append]; simp
  exact List.take_of_length_le (by omega)

/-- `codeEntry` as a plain function of the buffer. -/
theorem codeEntry_run (L cs : Nat) (f : Function) (bs : Bytes) :
    codeEntry L cs f bs =
      match u32 E.invalidCodeSectionCodeSize bs with
      | .ok (codeSize, b1) =>
        if b1.length < codeSize then .err E.invalidCodeSectionCodeSize
        else
          match localsDecls b1 with
          | .ok (locals, b2) =>
            if codeSize < b1.length - b2.length then .ub .codeSizeUnderflow
            else .ok ({ f with locals := locals, code := b2.take (codeSize - (b1.length - b2.length)),
                               start := L - b2.length - cs, hashed := some (b1.take codeSize) },
                      b2.drop (codeSize - (b1.length - b2.length)))
          | .err c => .err c
          | .ub u => .ub u
      | .err c => .err c
      | .ub u => .ub u := by
  unfold codeEntry
  rw [bind_run]
  cases h1 : u32 E.invalidCodeSectionCodeSize bs with
  | err c => rfl
  | ub u => rfl
  | ok x =>
    obtain ⟨codeSize, b1⟩ := x
    dsimp only
    show (P.remaining >>= _) b1 = _
    rw [remaining_bind, ite_run]
    by_cases hc : b1.length < codeSize
    · rw [if_pos hc, if_pos hc]; rfl
    · rw [if_neg hc, if_neg hc, peek_bind, bind_run]
      cases h2 : localsDecls b1 with
      | err c => rfl
      | ub u => rfl
      | ok y =>
        obtain ⟨locals, b2⟩ := y
        dsimp only
        show (P.remaining >>= _) b2 = _
        rw [remaining_bind, ite_run]
        by_cases hc2 : codeSize < b1.length - b2.length
        · rw [if_pos hc2, if_pos hc2]; rfl
        · rw [if_neg hc2, if_neg hc2]; rfl

/-- One code entry, at offset `off` from the start of the code section, in two runs whose buffers share the
    consumed prefix: same function record (incl. `start`), and the offset advances by what was consumed. -/
theorem codeEntry_local (L cs L' cs' off : Nat) (f : Function) (bs : Bytes) (f1 : Function) (rest : Bytes)
    (h : codeEntry L cs f bs = .ok (f1, rest)) (hL : bs.length ≤ L) (hoff : L - bs.length = cs + off) :
    ∃ pre, bs = pre ++ rest ∧
      (∀ rest', (rest ≠ [] ∨ rest' = rest) → (pre ++ rest').length ≤ L' → L' - (pre ++ rest').length = cs' + off →
        codeEntry L' cs' f (pre ++ rest') = .ok (f1, rest')) := by
  rw [codeEntry_run] at h
  cases h1 : u32 E.invalidCodeSectionCodeSize bs with
  | err c => rw [h1] at h; cases h
  | ub u => rw [h1] at h; cases h
  | ok x =>
    obtain ⟨codeSize, b1⟩ := x
    rw [h1] at h
    simp only at h
    by_cases hc : b1.length < codeSize
    · rw [if_pos hc] at h; cases h
    · rw [if_neg hc] at h
      cases h2 : localsDecls b1 with
      | err c => rw [h2] at h; cases h
      | ub u => rw [h2] at h; cases h
      | ok y =>
        obtain ⟨locals, b2⟩ := y
        rw [h2] at h
        simp only at h
        by_cases hc2 : codeSize < b1.length - b2.length
        · rw [if_pos hc2] at h; cases h
        · rw [if_neg hc2] at h
          obtain ⟨p1, e1⟩ := (stable_u32 _).suffix h1
          obtain ⟨p2, e2⟩ := stable_localsDecls.suffix h2
          have hlen1 : b1.length = p2.length + b2.length := by rw [e2, List.length_append]
          have hlen0 : bs.length = p1.length + b1.length := by rw [e1, List.length_append]
          have hcons : b1.length - b2.length = p2.length := by omega
          rw [hcons] at h hc2
          have hk : codeSize - p2.length ≤ b2.length := by omega
          cases h
          refine ⟨p1 ++ p2 ++ b2.take (codeSize - p2.length), ?_, ?_⟩
          · rw [e1, e2, List.append_assoc, List.append_assoc, List.take_append_drop]
          · intro rest' hcase hL' hoff'
            rcases hcase with hne | heq
            · -- the original rest is non-empty: use locality of the LEB and of the locals reader
              have hb2 : b2 ≠ [] := by
                intro hb; rw [hb] at hne; simp at hne
              have hb1 : b1 ≠ [] := by rw [e2]; intro hb; exact hb2 (List.append_eq_nil_iff.1 hb).2
              obtain ⟨p1', e1', k1⟩ := (stable_u32 _).local h1 hb1
              have : p1' = p1 := List.append_cancel_right (by rw [← e1', ← e1])
              subst this
              obtain ⟨p2', e2', k2⟩ := stable_localsDecls.local h2 hb2
              have : p2' = p2 := List.append_cancel_right (by rw [← e2', ← e2])
              subst this
              rw [codeEntry_run]
              have hX : p1' ++ p2' ++ b2.take (codeSize - p2'.length) ++ rest' =
                  p1' ++ (p2' ++ (b2.take (codeSize - p2'.length) ++ rest')) := by simp [List.append_assoc]
              rw [hX, k1]
              simp only
              have htl : (b2.take (codeSize - p2'.length)).length = codeSize - p2'.length := by
                rw [List.length_take]; omega
              have hge : ¬ (p2' ++ (b2.take (codeSize - p2'.length) ++ rest')).length < codeSize := by
                simp only [List.length_append, htl]; omega
              rw [if_neg hge, k2]
              simp only
              have hcons' : (p2' ++ (b2.take (codeSize - p2'.length) ++ rest')).length -
                  (b2.take (codeSize - p2'.length) ++ rest').length = p2'.length := by
                simp only [List.length_append]; omega
              rw [hcons', if_neg hc2]
              have hcode : (b2.take (codeSize - p2'.length) ++ rest').take (codeSize - p2'.length) =
                  b2.take (codeSize - p2'.length) := List.take_left' htl
              have hdrop : (b2.take (codeSize - p2'.length) ++ rest').drop (codeSize - p2'.length) = rest' :=
                List.drop_left' htl
              have hhash : (p2' ++ (b2.take (codeSize - p2'.length) ++ rest')).take codeSize = b1.take codeSize := by
                rw [e2]
                have : codeSize = p2'.length + (codeSize - p2'.length) := by omega
                rw [this, take_add_append, take_add_append]
                rw [Nat.add_sub_cancel_left, hcode]
              have hstart : L' - (b2.take (codeSize - p2'.length) ++ rest').length - cs' = L - b2.length - cs := by
                simp only [List.length_append, htl] at hL' hoff' ⊢
                omega
              rw [hcode, hdrop, hhash, hstart]
            · -- same input
              subst heq
              have hin : p1 ++ p2 ++ b2.take (codeSize - p2.length) ++ b2.drop (codeSize - p2.length) = bs := by
                rw [e1, e2, List.append_assoc, List.append_assoc, List.take_append_drop]
              rw [hin] at hL' hoff' ⊢
              rw [codeEntry_run, h1]
              simp only
              rw [if_neg hc, h2]
              simp only
              rw [hcons, if_neg hc2]
              have hstart : L' - b2.length - cs' = L - b2.length - cs := by omega
              rw [hstart]

theorem codeEntries_local (L cs L' cs' : Nat) : ∀ (fs : List Function) (off : Nat) (bs : Bytes) (fs1 : List Function)
    (rest : Bytes), codeEntries L cs fs bs = .ok (fs1, rest) → bs.length ≤ L → L - bs.length = cs + off →
    ∃ pre, bs = pre ++ rest ∧
      (∀ rest', (rest ≠ [] ∨ rest' = rest) → (pre ++ rest').length ≤ L' → L' - (pre ++ rest').length = cs' + off →
        codeEntries L' cs' fs (pre ++ rest') = .ok (fs1, rest')) := by
  intro fs
  induction fs with
  | nil =>
    intro off bs fs1 rest h _ _
    have : codeEntries L cs [] bs = .ok ([], bs) := rfl
    rw [this] at h; cases h
    exact ⟨[], rfl, fun rest' _ _ _ => rfl⟩
  | cons f fs ih =>
    intro off bs fs1 rest h hL hoff
    have hdef : ∀ (A B : Nat) (xs : Bytes), codeEntries A B (f :: fs) xs =
        (codeEntry A B f >>= fun f' => codeEntries A B fs >>= fun fs' => pure (f' :: fs')) xs := fun _ _ _ => rfl
    rw [hdef] at h
    obtain ⟨f', mid, h1, h2⟩ := bind_ok h
    obtain ⟨fs', rest2, h3, h4⟩ := bind_ok h2
    rw [pure_run] at h4
    have hfs : fs1 = f' :: fs' := by cases h4; rfl
    have hrest : rest2 = rest := by cases h4; rfl
    subst hfs hrest
    obtain ⟨pre1, e1, k1⟩ := codeEntry_local L cs L' cs' off f bs f' mid h1 hL hoff
    have hlen : bs.length = pre1.length + mid.length := by rw [e1, List.length_append]
    obtain ⟨pre2, e2, k2⟩ := ih (off + pre1.length) mid fs' rest2 h3 (by omega) (by omega)
    refine ⟨pre1 ++ pre2, by rw [e1, e2, List.append_assoc], fun rest' hcase hL' hoff' => ?_⟩
    have hmidcase : mid ≠ [] ∨ pre2 ++ rest' = mid := by
      rcases hcase with hne | heq
      · left; rw [e2]; intro hc; exact hne (List.append_eq_nil_iff.1 hc).2
      · right; rw [heq, ← e2]
    rw [List.append_assoc] at hL' hoff' ⊢
    have r1 := k1 (pre2 ++ rest') hmidcase hL' hoff'
    have hlen' : (pre1 ++ (pre2 ++ rest')).length = pre1.length + (pre2 ++ rest').length := List.length_append
    have r2 := k2 rest' hcase (by omega) (by omega)
    rw [hdef, bind_eq_of_ok r1, bind_eq_of_ok r2, pure_run]

theorem codeSection_run (m : RawModule) (bs : Bytes) :
    codeSection m bs =
      match u32 E.invalidCodeSectionFunctionCount bs with
      | .ok (n, b1) =>
        if n ≠ m.functions.length then .err E.invalidCodeSectionFunctionCount
        else
          match codeEntries m.length (m.length - bs.length) m.functions b1 with
          | .ok (fs, rest) => .ok ({ m with functions := fs }, rest)
          | .err c => .err c
          | .ub u => .ub u
      | .err c => .err c
      | .ub u => .ub u := by
  unfold codeSection
  rw [remaining_bind]
  show (u32 E.invalidCodeSectionFunctionCount >>= _) bs = _
  rw [bind_run]
  cases h1 : u32 E.invalidCodeSectionFunctionCount bs with
  | err c => rfl
  | ub u => rfl
  | ok x =>
    obtain ⟨n, b1⟩ := x
    dsimp only
    rw [ite_run]
    by_cases hc : n ≠ m.functions.length
    · rw [if_pos hc, if_pos hc]; rfl
    · rw [if_neg hc, if_neg hc, bind_run]
      cases h2 : codeEntries m.length (m.length - bs.length) m.functions b1 with
      | err c => rfl
      | ub u => rfl
      | ok y => obtain ⟨fs, rest⟩ := y; rfl

/-- Stability of a section reader up to `Sim`, under the invariant "the buffer is a suffix of the file"
    (`bs.length ≤ m.length`), in the two cases the framing argument needs: the rest is non-empty (any other
    continuation), or the continuation is the same. -/
def SecStable (f : RawModule → P RawModule) : Prop :=
  ∀ m m' bs m1 rest, Sim m m' → f m bs = .ok (m1, rest) → bs.length ≤ m.length →
    ∃ pre, bs = pre ++ rest ∧
      ∀ rest', (rest ≠ [] ∨ rest' = rest) → (pre ++ rest').length ≤ m'.length →
        ∃ m1', f m' (pre ++ rest') = .ok (m1', rest') ∧ Sim m1 m1'

theorem secStable_of_stableR {f : RawModule → P RawModule}
    (h : ∀ m m', Sim m m' → StableR Sim (f m) (f m')) : SecStable f := by
  intro m m' bs m1 rest hs hf _
  have hst := h m m' hs
  obtain ⟨pre, e⟩ := hst.suffix hf
  refine ⟨pre, e, fun rest' hcase _ => ?_⟩
  rcases hcase with hne | heq
  · obtain ⟨pre', e', k⟩ := hst.local hf hne
    have : pre' = pre := List.append_cancel_right (by rw [← e', ← e])
    subst this
    exact k rest'
  · subst heq
    rw [← e]
    exact hst.same hf

theorem codeSection_secStable : SecStable codeSection := by
  intro m m' bs m1 rest hs hf hL
  obtain ⟨L', d', rfl⟩ := hs
  rw [codeSection_run] at hf
  cases h1 : u32 E.invalidCodeSectionFunctionCount bs with
  | err c => rw [h1] at hf; cases hf
  | ub u => rw [h1] at hf; cases hf
  | ok x =>
    obtain ⟨n, b1⟩ := x
    rw [h1] at hf
    dsimp only at hf
    by_cases hc : n ≠ m.functions.length
    · rw [if_pos hc] at hf; cases hf
    · rw [if_neg hc] at hf
      cases h2 : codeEntries m.length (m.length - bs.length) m.functions b1 with
      | err c => rw [h2] at hf; cases hf
      | ub u => rw [h2] at hf; cases hf
      | ok y =>
        obtain ⟨fs, rest2⟩ := y
        rw [h2] at hf
        cases hf
        obtain ⟨p1, e1⟩ := (stable_u32 _).suffix h1
        have hlen : bs.length = p1.length + b1.length := by rw [e1, List.length_append]
        obtain ⟨pre2, e2, _⟩ := codeEntries_local m.length (m.length - bs.length) L'
          0 m.functions p1.length b1 fs rest h2 (by omega) (by omega)
        -- the second run's codeStart depends on rest': instantiate the locality lemma per rest'
        refine ⟨p1 ++ pre2, by rw [e1, e2, List.append_assoc], fun rest' hcase hL2 => ?_⟩
        have hL2 : (p1 ++ pre2 ++ rest').length ≤ L' := hL2
        obtain ⟨pre2', e2', k2'⟩ := codeEntries_local m.length (m.length - bs.length) L'
          (L' - (p1 ++ pre2 ++ rest').length) m.functions p1.length b1 fs rest h2 (by omega) (by omega)
        have : pre2' = pre2 := List.append_cancel_right (by rw [← e2', ← e2])
        subst this
        refine ⟨{ ({ m with length := L', debugSections := d' } : RawModule) with functions := fs }, ?_, ⟨L', d', rfl⟩⟩
        rw [codeSection_run]
        have hu : u32 E.invalidCodeSectionFunctionCount (p1 ++ pre2' ++ rest') = .ok (n, pre2' ++ rest') := by
          rw [List.append_assoc]
          rcases hcase with hne | heq
          · have hb1 : b1 ≠ [] := by rw [e2]; intro hb; exact hne (List.append_eq_nil_iff.1 hb).2
            obtain ⟨p1', e1', k1⟩ := (stable_u32 _).local h1 hb1
            have : p1' = p1 := List.append_cancel_right (by rw [← e1', ← e1])
            subst this
            exact k1 _
          · subst heq; rw [← e2, ← e1]; exact h1
        rw [hu]
        dsimp only
        rw [if_neg hc]
        have hlen2 : (p1 ++ pre2' ++ rest').length = p1.length + (pre2' ++ rest').length := by
          rw [List.append_assoc, List.length_append]
        have r2 := k2' rest' hcase (by omega) (by omega)
        show (match codeEntries L' (L' - (p1 ++ pre2' ++ rest').length) m.functions (pre2' ++ rest') with
          | .ok (fs, rest) => Res.ok ({ ({ m with length := L', debugSections := d' } : RawModule) with functions := fs }, rest)
          | .err c => .err c
          | .ub u => .ub u) = _
        rw [r2]

/-! ### no section reader changes `RawModule.length` -/

theorem ok_bind_inv {α β : Type} {I : α → Prop} {J : β → Prop} {p : P α} {f : α → P β}
    (hp : OkInv I p) (hf : ∀ a, I a → OkInv J (f a)) : OkInv J (p >>= f) := by
  intro bs b rest h
  obtain ⟨a, mid, h1, h2⟩ := bind_ok h
  exact hf a (hp bs a mid h1) mid b rest h2

theorem ok_iter {σ : Type} {I : σ → Prop} {f : σ → P σ} (hpres : ∀ s, I s → OkInv I (f s)) :
    ∀ n s, I s → OkInv I (iter f n s) := by
  intro n
  induction n with
  | zero => intro s hs; exact ok_pure hs
  | succ n ih =>
    intro s hs
    show OkInv I (f s >>= fun s' => iter f n s')
    exact ok_bind_inv (hpres s hs) (fun s' hs' => ih s' hs')

abbrev KeepsLength (L : Nat) (p : P RawModule) : Prop := OkInv (fun m' : RawModule => m'.length = L) p

theorem importEntry_len (m : RawModule) : KeepsLength m.length (importEntry m) := by
  unfold importEntry
  refine ok_bind fun mod => ok_bind fun nm => ok_bind fun k => ok_ite (fun _ => ok_fail _) fun _ => ?_
  split
  · exact ok_bind fun _ => ok_pure rfl
  · exact ok_bind fun _ => ok_pure rfl
  · exact ok_bind fun _ => ok_pure rfl
  · exact ok_bind fun _ => ok_pure rfl
  · exact ok_fail _

theorem functionNamesSubsection_len (m : RawModule) : KeepsLength m.length (functionNamesSubsection m) := by
  unfold functionNamesSubsection
  refine ok_bind fun n => ?_
  split
  · exact ok_undefined _
  · refine ok_bind fun names => ?_
    split
    · exact ok_pure rfl
    · exact ok_fail _
    · exact ok_undefined _

theorem nameSectionLoop_len (endRem : Int) : ∀ fuel (m : RawModule), KeepsLength m.length (nameSectionLoop endRem fuel m) := by
  intro fuel
  induction fuel with
  | zero => intro m; exact ok_pure rfl
  | succ n ih =>
    intro m bs m' rest h
    unfold nameSectionLoop at h
    split at h
    · cases h; rfl
    · revert h
      refine (ok_bind (I := fun x : RawModule => x.length = m.length) fun id => ok_bind fun size =>
        ok_bind_inv (I := fun x : RawModule => x.length = m.length) (J := fun x : RawModule => x.length = m.length) ?_ ?_) bs m' rest
      · exact ok_ite (fun _ => functionNamesSubsection_len m) fun _ => ok_bind fun _ => ok_pure rfl
      · intro a ha; rw [← ha]; exact ih a

theorem customSection_len (cfg : Cfg) (size : Nat) (m : RawModule) : KeepsLength m.length (customSection cfg size m) := by
  unfold customSection
  refine ok_bind fun before => ok_bind fun nm => ok_bind fun after => ok_ite (fun _ => ?_) fun _ => ok_ite (fun _ => ?_) fun _ => ?_
  · exact ok_bind fun rem => ok_bind fun _ => ok_pure rfl
  · intro bs m' rest h; exact nameSectionLoop_len _ _ m bs m' rest h
  · exact ok_bind fun _ => ok_pure rfl

theorem sectionReader_len (cfg : Cfg) (rd : String) (size : Nat) (m : RawModule) :
    KeepsLength m.length (sectionReader cfg rd size m) := by
  unfold sectionReader
  split
  · exact customSection_len cfg size m
  · unfold typeSection; exact ok_bind fun n => ok_bind fun ts => ok_pure rfl
  · unfold importSection
    exact ok_bind fun n => ok_iter (I := fun x : RawModule => x.length = m.length)
      (fun s hs => by rw [← hs]; exact importEntry_len s) n m rfl
  · unfold functionSection; exact ok_bind fun n => ok_bind fun ts => ok_pure rfl
  · unfold tableSection; exact ok_bind fun n => ok_bind fun ts => ok_pure rfl
  · unfold memorySection; exact ok_bind fun n => ok_bind fun ts => ok_pure rfl
  · unfold globalSection; exact ok_bind fun n => ok_bind fun ts => ok_pure rfl
  · unfold exportSection; exact ok_bind fun n => ok_bind fun ts => ok_pure rfl
  · unfold startSection; exact ok_bind fun n => ok_pure rfl
  · unfold elementSection; exact ok_bind fun n => ok_bind fun ts => ok_pure rfl
  · unfold codeSection
    exact ok_bind fun rem => ok_bind fun n => ok_ite (fun _ => ok_fail _) fun _ => ok_bind fun fs => ok_pure rfl
  · unfold dataSection; exact ok_bind fun n => ok_bind fun ts => ok_pure rfl
  · unfold dataCountSection; exact ok_bind fun n => ok_pure rfl
  · exact ok_fail _

theorem readSection_len (cfg : Cfg) (m : RawModule) : KeepsLength m.length (readSection cfg m) := by
  unfold readSection
  refine ok_bind fun id => ok_bind fun size => ?_
  split
  · refine ok_bind fun start => ok_bind_inv (sectionReader_len cfg _ size m) fun m' hm' => ?_
    exact ok_bind fun stop => ok_ite (fun _ => ok_fail _) fun _ => ok_pure hm'
  · exact ok_bind fun _ => ok_pure rfl

end W2c2Verif.Lemmas.Reader
