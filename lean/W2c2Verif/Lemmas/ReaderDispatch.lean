/-
  Lemmas.ReaderDispatch — `wasmModuleReadSection` and the module loop on framed streams
  (Spec.Binary.EncItem / EncStream): headers with padded sizes, custom sections, the consumed-exactly check.
-/
import W2c2Verif.Lemmas.ReaderFraming

namespace W2c2Verif.Lemmas.Reader
open W2c2Verif.Model W2c2Verif.Model.Reader W2c2Verif.Spec.Binary
open W2c2Verif.Gen

theorem wfU32 : W2c2Verif.Lemmas.Leb.WF Reader.leb128ReadU32 := ⟨rfl, rfl, rfl, by decide, by decide⟩

/-- a padded `u32` in front of anything is read back exactly -/
theorem u32_uleb (e : Nat) {n : Nat} {sz : List UInt8} (h : ULeb 32 n sz) (rest : Bytes) :
    u32 e (sz ++ rest) = .ok (n, rest) := by
  have hr := W2c2Verif.Lemmas.Leb.readU_uleb wfU32 rfl h rest
  have hr' : Leb.readU32 (sz ++ rest) = { value := n, count := sz.length, rest := rest, ub := false } := hr
  rw [u32_run, hr']
  have : sz.length ≠ 0 := by have := h.length_pos; omega
  exact if_neg this

/-- `wasmModuleReadSection` after a well-formed header `id size`. -/
theorem readSection_run (cfg : Cfg) (m : RawModule) (id : UInt8) {n : Nat} {sz : List UInt8} (h : ULeb 32 n sz)
    (X : Bytes) :
    readSection cfg m (id :: (sz ++ X)) =
      match Reader.sectionReaders[id.toNat]? with
      | some rd =>
        match sectionReader cfg rd n m X with
        | .ok (m', r) => if r.length + n ≠ X.length then .err E.incorrectSectionRead else .ok (m', r)
        | .err c => .err c
        | .ub u => .ub u
      | none => .ok (m, X.drop n) := by
  unfold readSection
  have hb : byte E.invalidSectionID (id :: (sz ++ X)) = .ok (id, sz ++ X) := rfl
  rw [bind_eq_of_ok hb, bind_eq_of_ok (u32_uleb _ h X)]
  cases hrd : Reader.sectionReaders[id.toNat]? with
  | none => rfl
  | some rd =>
    dsimp only
    rw [remaining_bind, bind_run]
    cases hs : sectionReader cfg rd n m X with
    | err c => rfl
    | ub u => rfl
    | ok x =>
      obtain ⟨m', r⟩ := x
      dsimp only
      rw [remaining_bind, ite_run]
      by_cases hc : r.length + n ≠ X.length
      · rw [if_pos hc, if_pos hc]; rfl
      · rw [if_neg hc, if_neg hc]; rfl

/-- Only id 0 dispatches to the custom-section reader. -/
theorem reader_custom_iff : ∀ i, i < 13 → (Reader.sectionReaders[i]? = some "wasmReadCustomSection" ↔ i = 0) := by
  decide

theorem reader_none_iff (i : Nat) : Reader.sectionReaders[i]? = none ↔ 13 ≤ i := by
  have : Reader.sectionReaders.length = 13 := rfl
  rw [List.getElem?_eq_none_iff, this]

/-- Every non-custom section reader is stable up to `Sim`. -/
theorem sectionReader_secStable (cfg : Cfg) (rd : String) (size : Nat) (hrd : rd ≠ "wasmReadCustomSection") :
    SecStable (sectionReader cfg rd size) := by
  unfold sectionReader
  split
  · exact absurd rfl hrd
  · exact secStable_of_stableR fun _ _ h => typeSection_stable h
  · exact secStable_of_stableR fun _ _ h => importSection_stable h
  · exact secStable_of_stableR fun _ _ h => functionSection_stable h
  · exact secStable_of_stableR fun _ _ h => tableSection_stable h
  · exact secStable_of_stableR fun _ _ h => memorySection_stable h
  · exact secStable_of_stableR fun _ _ h => globalSection_stable cfg h
  · exact secStable_of_stableR fun _ _ h => exportSection_stable h
  · exact secStable_of_stableR fun _ _ h => startSection_stable h
  · exact secStable_of_stableR fun _ _ h => elementSection_stable cfg h
  · exact codeSection_secStable
  · exact secStable_of_stableR fun _ _ h => dataSection_stable cfg h
  · exact secStable_of_stableR fun _ _ h => dataCountSection_stable h
  · exact secStable_of_stableR fun _ _ _ => stable_fail _ _

/-- The module loop without its progress check (which never fails: `readSection_progress`). -/
theorem readSection_progress (cfg : Cfg) (m m' : RawModule) (bs rest : Bytes)
    (h : readSection cfg m bs = .ok (m', rest)) : rest.length < bs.length := by
  unfold readSection at h
  obtain ⟨id, b1, h1, h2⟩ := bind_ok h
  obtain ⟨size, b2, h3, h4⟩ := bind_ok h2
  obtain ⟨p1, e1⟩ := (stable_byte _).suffix h1
  obtain ⟨p2, e2⟩ := (stable_u32 _).suffix h3
  have hl1 : b1.length < bs.length := by
    cases bs with
    | nil => cases h1
    | cons b t => simp only [byte] at h1; cases h1; simp
  have hl2 : b2.length ≤ b1.length := by rw [e2, List.length_append]; omega
  cases hrd : Reader.sectionReaders[id.toNat]? with
  | some rd =>
    rw [hrd] at h4
    dsimp only at h4
    rw [remaining_bind] at h4
    obtain ⟨m1, b3, _, h6⟩ := bind_ok h4
    rw [remaining_bind, ite_run] at h6
    by_cases hc : b3.length + size ≠ b2.length
    · rw [if_pos hc] at h6; cases h6
    · rw [if_neg hc, pure_run] at h6
      cases h6
      omega
  | none =>
    rw [hrd] at h4
    dsimp only at h4
    have hsk : ∀ xs : Bytes, skip size xs = .ok ((), xs.drop size) := fun _ => rfl
    rw [bind_eq_of_ok (hsk b2), pure_run] at h4
    cases h4
    rw [List.length_drop]; omega

theorem readSections_cons (cfg : Cfg) (bs : Bytes) (m : RawModule) (hne : bs ≠ []) :
    readSections cfg bs m =
      match readSection cfg m bs with
      | .ok (m', rest) => readSections cfg rest m'
      | .err c => .err c
      | .ub u => .ub u := by
  rw [readSections]
  have : bs.isEmpty = false := by cases bs <;> simp_all
  rw [this]
  simp only [Bool.false_eq_true, if_false]
  cases h : readSection cfg m bs with
  | err c => rfl
  | ub u => rfl
  | ok x =>
    obtain ⟨m', rest⟩ := x
    have := readSection_progress cfg m m' bs rest h
    simp only [this, dite_true]

theorem readSections_nil (cfg : Cfg) (m : RawModule) : readSections cfg [] m = .ok m := by
  rw [readSections]; rfl

end W2c2Verif.Lemmas.Reader
