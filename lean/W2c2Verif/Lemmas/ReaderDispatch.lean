/-
  Lemmas.ReaderDispatch — `wasmModuleReadSection` and the module loop on framed streams
  (Spec.Binary.EncItem / EncStream): headers with padded sizes, custom sections, the consumed-exactly check.
-/
import W2c2Verif.Lemmas.ReaderFraming

namespace W2c2Verif.Lemmas.Reader
open W2c2Verif.Model W2c2Verif.Model.Reader W2c2Verif.Spec.Binary
open W2c2Verif.Gen

theorem wfU32 : W2c2Verif.Lemmas.Leb.WF Reader.leb128ReadU32 := ⟨rfl, rfl, rfl, by decide, by decide⟩

/-- a padded `u32` in front of anything is read back exactly -/
theorem u32_uleb (e : Nat) {n : Nat} {sz : List UInt8} (h : ULeb 32 n sz) (rest : Bytes) :
    u32 e (sz ++ rest) = .ok (n, rest) := by
  have hr := W2c2Verif.Lemmas.Leb.readU_uleb wfU32 rfl h rest
  have hr' : Leb.readU32 (sz ++ rest) = { value := n, count := sz.length, rest := rest, ub := false } := hr
  rw [u32_run, hr']
  have : sz.length ≠ 0 := by have := h.length_pos; omega
  exact if_neg this

/-- `wasmModuleReadSection` after a well-formed header `id size`. -/
theorem readSection_run (cfg : Cfg) (m : RawModule) (id : UInt8) {n : Nat} {sz : List UInt8} (h : ULeb 32 n sz)
    (X : Bytes) :
    readSection cfg m (id :: (sz ++ X)) =
      match Reader.sectionReaders[id.toNat]? with
      | some rd =>
        match sectionReader cfg rd n m X with
        | .ok (m', r) => if r.length + n ≠ X.length then .err E.incorrectSectionRead else .ok (m', r)
        | .err c => .err c
        | .ub u => .ub u
      | none => .ok (m, X.drop n) := by
  unfold readSection
  have hb : byte E.invalidSectionID (id :: (sz ++ X)) = .ok (id, sz ++ X) := rfl
  rw [bind_eq_of_ok hb, bind_eq_of_ok (u32_uleb _ h X)]
  cases hrd : Reader.sectionReaders[id.toNat]? with
  | none => rfl
  | some rd =>
    dsimp only
    rw [remaining_bind, bind_run]
    cases hs : sectionReader cfg rd n m X with
    | err c => rfl
    | ub u => rfl
    | ok x =>
      obtain ⟨m', r⟩ := x
      dsimp only
      rw [remaining_bind, ite_run]
      by_cases hc : r.length + n ≠ X.length
      · rw [if_pos hc, if_pos hc]; rfl
      · rw [if_neg hc, if_neg hc]; rfl

/-- Only id 0 dispatches to the custom-section reader. -/
theorem reader_custom_iff : ∀ i, i < 13 → (Reader.sectionReaders[i]? = some "wasmReadCustomSection" ↔ i = 0) := by
  decide

theorem reader_none_iff (i : Nat) : Reader.sectionReaders[i]? = none ↔ 13 ≤ i := by
  have : Reader.sectionReaders.length = 13 := rfl
  rw [List.getElem?_eq_none_iff, this]

/-- Every non-custom section reader is stable up to `Sim`. -/
theorem sectionReader_secStable (cfg : Cfg) (rd : String) (size : Nat) (hrd : rd ≠ "wasmReadCustomSection") :
    SecStable (sectionReader cfg rd size) := by
  unfold sectionReader
  split
  · exact absurd rfl hrd
  · exact secStable_of_stableR fun _ _ h => typeSection_stable h
  · exact secStable_of_stableR fun _ _ h => importSection_stable h
  · exact secStable_of_stableR fun _ _ h => functionSection_stable h
  · exact secStable_of_stableR fun _ _ h => tableSection_stable h
  · exact secStable_of_stableR fun _ _ h => memorySection_stable h
  · exact secStable_of_stableR fun _ _ h => globalSection_stable cfg h
  · exact secStable_of_stableR fun _ _ h => exportSection_stable h
  · exact secStable_of_stableR fun _ _ h => startSection_stable h
  · exact secStable_of_stableR fun _ _ h => elementSection_stable cfg h
  · exact codeSection_secStable
  · exact secStable_of_stableR fun _ _ h => dataSection_stable cfg h
  · exact secStable_of_stableR fun _ _ h => dataCountSection_stable h
  · exact secStable_of_stableR fun _ _ _ => stable_fail _ _

/-- The module loop without its progress check (which never fails: `readSection_progress`). -/
theorem readSection_progress (cfg : Cfg) (m m' : RawModule) (bs rest : Bytes)
    (h : readSection cfg m bs = .ok (m', rest)) : rest.length < bs.length := by
  unfold readSection at h
  obtain ⟨id, b1, h1, h2⟩ := bind_ok h
  obtain ⟨size, b2, h3, h4⟩ := bind_ok h2
  obtain ⟨p1, e1⟩ := (stable_byte _).suffix h1
  obtain ⟨p2, e2⟩ := (stable_u32 _).suffix h3
  have hl1 : b1.length < bs.length := by
    cases bs with
    | nil => cases h1
    | cons b t => simp only [byte] at h1; cases h1; simp
  have hl2 : b2.length ≤ b1.length := by rw [e2, List.length_append]; omega
  cases hrd : Reader.sectionReaders[id.toNat]? with
  | some rd =>
    rw [hrd] at h4
    dsimp only at h4
    rw [remaining_bind] at h4
    obtain ⟨m1, b3, _, h6⟩ := bind_ok h4
    rw [remaining_bind, ite_run] at h6
    by_cases hc : b3.length + size ≠ b2.length
    · rw [if_pos hc] at h6; cases h6
    · rw [if_neg hc, pure_run] at h6
      cases h6
      omega
  | none =>
    rw [hrd] at h4
    dsimp only at h4
    have hsk : ∀ xs : Bytes, skip size xs = .ok ((), xs.drop size) := fun _ => rfl
    rw [bind_eq_of_ok (hsk b2), pure_run] at h4
    cases h4
    rw [List.length_drop]; omega

theorem readSections_cons (cfg : Cfg) (bs : Bytes) (m : RawModule) (hne : bs ≠ []) :
    readSections cfg bs m =
      match readSection cfg m bs with
      | .ok (m', rest) => readSections cfg rest m'
      | .err c => .err c
      | .ub u => .ub u := by
  rw [readSections]
  have : bs.isEmpty = false := by cases bs <;> simp_all
  rw [this]
  simp only [Bool.false_eq_true, if_false]
  cases h : readSection cfg m bs with
  | err c => rfl
  | ub u => rfl
  | ok x =>
    obtain ⟨m', rest⟩ := x
    have := readSection_progress cfg m m' bs rest h
    simp only [this, dite_true]

theorem readSections_nil (cfg : Cfg) (m : RawModule) : readSections cfg [] m = .ok m := by
  rw [readSections]; rfl

end W2c2Verif.Lemmas.Reader

namespace W2c2Verif.Lemmas.Reader
open W2c2Verif.Model W2c2Verif.Model.Reader W2c2Verif.Spec.Binary
open W2c2Verif.Gen

/-- `wasmReadName` on a name written with any padding of its length field. -/
theorem name_enc (e : Nat) {nm nsz : List UInt8} (h : ULeb 32 nm.length nsz) (tail : Bytes) :
    name e (nsz ++ (nm ++ tail)) = .ok (cstr nm, tail) := by
  unfold name
  rw [bind_eq_of_ok (u32_uleb e h (nm ++ tail))]
  have hrun : takeExact cstr e nm.length (nm ++ tail) =
      if (nm ++ tail).length < nm.length then .err e
      else .ok (cstr ((nm ++ tail).take nm.length), (nm ++ tail).drop nm.length) := rfl
  rw [hrun, if_neg (by rw [List.length_append]; omega), List.take_left' rfl, List.drop_left' rfl]

theorem skip_run (n : Nat) (bs : Bytes) : skip n bs = .ok ((), bs.drop n) := rfl

/-- The name section is recognised by its EXACT name (`strcmp(name, "name") == 0`): the regenerated comparison mode is
    `exact`.  With a prefix comparison (`strncmp`) this — and every statement about skipped custom sections — fails. -/
theorem isNameSection_iff (nm : Bytes) : isNameSection nm = true ↔ nm = strBytes Reader.nameSectionName := by
  have hmode : Reader.nameSectionMatch = "exact" := rfl
  unfold isNameSection nameMatch
  rw [hmode]
  exact beq_iff_eq

/-- A custom section that is not the name section (or any custom section without `-g`) is skipped: the
    module is unchanged except, for `.debug_*` names, the list of debug sections. -/
theorem readSection_custom (cfg : Cfg) (m : RawModule) {nm content b : List UInt8} (rest : Bytes)
    (henc : EncItem (.custom nm content) b)
    (hno : ¬ (cfg.debug = true ∧ cstr nm = strBytes Reader.nameSectionName)) :
    ∃ m', readSection cfg m (b ++ rest) = .ok (m', rest) ∧ Sim m m' := by
  cases henc with
  | @custom _ _ nsz sz hn hsz =>
    have hassoc : (0 :: (sz ++ (nsz ++ (nm ++ content)))) ++ rest = 0 :: (sz ++ (nsz ++ (nm ++ (content ++ rest)))) := by
      simp [List.append_assoc]
    rw [hassoc, readSection_run cfg m 0 hsz]
    have hrd : Reader.sectionReaders[(0 : UInt8).toNat]? = some "wasmReadCustomSection" := rfl
    rw [hrd]
    dsimp only
    have hsr : sectionReader cfg "wasmReadCustomSection" (nsz ++ (nm ++ content)).length m =
        customSection cfg (nsz ++ (nm ++ content)).length m := rfl
    rw [hsr]
    have hlt := hsz.lt
    -- run the custom-section reader
    have hsize : ((nsz ++ (nm ++ content)).length + u32Max -
        ((nsz ++ (nm ++ (content ++ rest))).length - (content ++ rest).length) % u32Max) % u32Max = content.length := by
      simp only [List.length_append, u32Max] at hlt ⊢
      omega
    have hdrop : (content ++ rest).drop content.length = rest := List.drop_left' rfl
    have hcs : ∃ m', customSection cfg (nsz ++ (nm ++ content)).length m (nsz ++ (nm ++ (content ++ rest))) = .ok (m', rest) ∧ Sim m m' := by
      unfold customSection
      rw [remaining_bind, bind_eq_of_ok (name_enc _ hn (content ++ rest)), remaining_bind]
      rw [hsize, ite_run]
      by_cases hp : (strBytes Reader.debugSectionNamePrefix).isPrefixOf (cstr nm) = true
      · rw [if_pos hp, remaining_bind, bind_eq_of_ok (skip_run _ _), pure_run, hdrop]
        exact ⟨_, rfl, ⟨m.length, _, rfl⟩⟩
      · have hno' : ¬ (cfg.debug = true ∧ isNameSection (cstr nm) = true) := fun hc => hno ⟨hc.1, (isNameSection_iff _).1 hc.2⟩
        rw [if_neg hp, ite_run, if_neg hno', bind_eq_of_ok (skip_run _ _), pure_run, hdrop]
        exact ⟨m, rfl, Sim.refl m⟩
    obtain ⟨m', hm', hsim⟩ := hcs
    rw [hm']
    dsimp only
    have : ¬ (rest.length + (nsz ++ (nm ++ content)).length ≠ (nsz ++ (nm ++ (content ++ rest))).length) := by
      simp only [List.length_append]; omega
    rw [if_neg this]
    exact ⟨m', rfl, hsim⟩

end W2c2Verif.Lemmas.Reader

namespace W2c2Verif.Lemmas.Reader
open W2c2Verif.Model W2c2Verif.Model.Reader W2c2Verif.Spec.Binary
open W2c2Verif.Gen

theorem encItem_ne_nil {it : Item} {b : List UInt8} (h : EncItem it b) : b ≠ [] := by
  cases h <;> simp

/-- The same non-custom section, framed with two different size encodings and followed by different bytes,
    read in two `Sim`-related states: if both are accepted, both consume exactly the section and the results
    are `Sim`-related. -/
theorem readSection_sec_agree (cfg : Cfg) {id : UInt8} {payload b₁ b₂ : List UInt8} (rest₁ rest₂ : Bytes)
    (h₁ : EncItem (.sec id payload) b₁) (h₂ : EncItem (.sec id payload) b₂)
    {m₁ m₂ m₁' m₂' : RawModule} {r₁ r₂ : Bytes} (hs : Sim m₁ m₂)
    (hl₁ : (b₁ ++ rest₁).length ≤ m₁.length) (hl₂ : (b₂ ++ rest₂).length ≤ m₂.length)
    (hr₁ : readSection cfg m₁ (b₁ ++ rest₁) = .ok (m₁', r₁)) (hr₂ : readSection cfg m₂ (b₂ ++ rest₂) = .ok (m₂', r₂)) :
    r₁ = rest₁ ∧ r₂ = rest₂ ∧ Sim m₁' m₂' := by
  cases h₁ with
  | @sec _ _ sz₁ hid hsz₁ =>
  cases h₂ with
  | @sec _ _ sz₂ _ hsz₂ =>
    have ha₁ : (id :: (sz₁ ++ payload)) ++ rest₁ = id :: (sz₁ ++ (payload ++ rest₁)) := by simp [List.append_assoc]
    have ha₂ : (id :: (sz₂ ++ payload)) ++ rest₂ = id :: (sz₂ ++ (payload ++ rest₂)) := by simp [List.append_assoc]
    rw [ha₁] at hr₁ hl₁
    rw [ha₂] at hr₂ hl₂
    rw [readSection_run cfg m₁ id hsz₁] at hr₁
    rw [readSection_run cfg m₂ id hsz₂] at hr₂
    have hX₁ : (payload ++ rest₁).length ≤ m₁.length := by
      simp only [List.length_cons, List.length_append] at hl₁ ⊢; omega
    have hX₂ : (payload ++ rest₂).length ≤ m₂.length := by
      simp only [List.length_cons, List.length_append] at hl₂ ⊢; omega
    cases hrd : Reader.sectionReaders[id.toNat]? with
    | none =>
      rw [hrd] at hr₁ hr₂
      dsimp only at hr₁ hr₂
      cases hr₁; cases hr₂
      exact ⟨List.drop_left' rfl, List.drop_left' rfl, hs⟩
    | some rd =>
      rw [hrd] at hr₁ hr₂
      dsimp only at hr₁ hr₂
      have hidlt : id.toNat < 13 := by
        have := (List.getElem?_eq_some_iff.1 hrd).1
        exact this
      have hne : rd ≠ "wasmReadCustomSection" := by
        intro hc
        rw [hc] at hrd
        have := (reader_custom_iff id.toNat hidlt).1 hrd
        apply hid
        exact UInt8.toNat_inj.1 (by simpa using this)
      have hst := sectionReader_secStable cfg rd payload.length hne
      cases hs₁ : sectionReader cfg rd payload.length m₁ (payload ++ rest₁) with
      | err c => rw [hs₁] at hr₁; cases hr₁
      | ub u => rw [hs₁] at hr₁; cases hr₁
      | ok x₁ =>
        obtain ⟨a₁, q₁⟩ := x₁
        rw [hs₁] at hr₁
        dsimp only at hr₁
        by_cases hc₁ : q₁.length + payload.length ≠ (payload ++ rest₁).length
        · rw [if_pos hc₁] at hr₁; cases hr₁
        · rw [if_neg hc₁] at hr₁
          cases hr₁
          cases hs₂ : sectionReader cfg rd payload.length m₂ (payload ++ rest₂) with
          | err c => rw [hs₂] at hr₂; cases hr₂
          | ub u => rw [hs₂] at hr₂; cases hr₂
          | ok x₂ =>
            obtain ⟨a₂, q₂⟩ := x₂
            rw [hs₂] at hr₂
            dsimp only at hr₂
            by_cases hc₂ : q₂.length + payload.length ≠ (payload ++ rest₂).length
            · rw [if_pos hc₂] at hr₂; cases hr₂
            · rw [if_neg hc₂] at hr₂
              cases hr₂
              -- both readers consumed exactly the payload
              obtain ⟨pre₁, e₁, k₁⟩ := hst m₁ m₂ _ _ _ hs hs₁ hX₁
              obtain ⟨pre₂, e₂, k₂⟩ := hst m₂ m₁ _ _ _ hs.symm hs₂ hX₂
              have hlen₁ : pre₁.length = payload.length := by
                have := congrArg List.length e₁
                simp only [List.length_append] at this hc₁; omega
              have hlen₂ : pre₂.length = payload.length := by
                have := congrArg List.length e₂
                simp only [List.length_append] at this hc₂; omega
              obtain ⟨hp₁, hq₁⟩ := List.append_inj e₁ hlen₁.symm
              obtain ⟨hp₂, hq₂⟩ := List.append_inj e₂ hlen₂.symm
              subst hp₁ hq₁
              have hp₂' : pre₂ = payload := hp₂.symm
              subst hp₂'
              subst hq₂
              refine ⟨rfl, rfl, ?_⟩
              by_cases hcase : rest₁ ≠ [] ∨ rest₂ = rest₁
              · obtain ⟨m', hm', hsim⟩ := k₁ rest₂ hcase hX₂
                rw [hs₂] at hm'
                cases hm'
                exact hsim
              · have hcase' : rest₂ ≠ [] ∨ rest₁ = rest₂ := by
                  left
                  intro h2
                  apply hcase
                  by_cases h1 : rest₁ = []
                  · right; rw [h1, h2]
                  · left; exact h1
                obtain ⟨m', hm', hsim⟩ := k₂ rest₁ hcase' hX₁
                rw [hs₁] at hm'
                cases hm'
                exact hsim.symm

/-- **Framing invariance of the module loop**: two framings of the same sequence of non-custom sections —
    custom sections (other than a name section read under `-g`) inserted anywhere, every size field padded in
    any way — that are both accepted yield the same module up to `Sim`. -/
theorem readSections_framing (cfg : Cfg) :
    ∀ (n : Nat) (items₁ items₂ : List Item) (bs₁ bs₂ : Bytes) (m₁ m₂ r₁ r₂ : RawModule),
      items₁.length + items₂.length ≤ n →
      EncStream items₁ bs₁ → EncStream items₂ bs₂ → view items₁ = view items₂ →
      (∀ nm ∈ customNames items₁, ¬ (cfg.debug = true ∧ cstr nm = strBytes Reader.nameSectionName)) →
      (∀ nm ∈ customNames items₂, ¬ (cfg.debug = true ∧ cstr nm = strBytes Reader.nameSectionName)) →
      Sim m₁ m₂ → bs₁.length ≤ m₁.length → bs₂.length ≤ m₂.length →
      readSections cfg bs₁ m₁ = .ok r₁ → readSections cfg bs₂ m₂ = .ok r₂ → Sim r₁ r₂ := by
  intro n
  induction n with
  | zero =>
    intro items₁ items₂ bs₁ bs₂ m₁ m₂ r₁ r₂ hn e₁ e₂ _ _ _ hs _ _ h₁ h₂
    have i1 : items₁ = [] := List.eq_nil_of_length_eq_zero (by omega)
    have i2 : items₂ = [] := List.eq_nil_of_length_eq_zero (by omega)
    subst i1 i2
    cases e₁; cases e₂
    rw [readSections_nil] at h₁ h₂
    cases h₁; cases h₂
    exact hs
  | succ n ih =>
    intro items₁ items₂ bs₁ bs₂ m₁ m₂ r₁ r₂ hn e₁ e₂ hv hc₁ hc₂ hs hl₁ hl₂ h₁ h₂
    -- a leading custom section on the left
    have left_custom : ∀ (nm content : List UInt8) (t₁ : List Item), items₁ = .custom nm content :: t₁ → Sim r₁ r₂ := by
      intro nm content t₁ hi
      subst hi
      cases e₁ with
      | @cons _ _ b bt hb ht =>
        have hne : b ++ bt ≠ [] := by
          intro hc; exact encItem_ne_nil hb (List.append_eq_nil_iff.1 hc).1
        rw [readSections_cons cfg _ _ hne] at h₁
        obtain ⟨m', hm', hsim⟩ := readSection_custom cfg m₁ bt hb (hc₁ nm (by simp [customNames]))
        rw [hm'] at h₁
        dsimp only at h₁
        have hlen := readSection_len cfg m₁ _ _ _ hm'
        refine ih t₁ items₂ bt bs₂ m' m₂ r₁ r₂ (by simp only [List.length_cons] at hn; omega) ht e₂
          (by simpa [view] using hv) (fun x hx => hc₁ x (by simp [customNames, hx])) hc₂
          (hsim.symm.trans hs) ?_ hl₂ h₁ h₂
        rw [hlen]; rw [List.length_append] at hl₁; omega
    have right_custom : ∀ (nm content : List UInt8) (t₂ : List Item), items₂ = .custom nm content :: t₂ → Sim r₁ r₂ := by
      intro nm content t₂ hi
      subst hi
      cases e₂ with
      | @cons _ _ b bt hb ht =>
        have hne : b ++ bt ≠ [] := by
          intro hc; exact encItem_ne_nil hb (List.append_eq_nil_iff.1 hc).1
        rw [readSections_cons cfg _ _ hne] at h₂
        obtain ⟨m', hm', hsim⟩ := readSection_custom cfg m₂ bt hb (hc₂ nm (by simp [customNames]))
        rw [hm'] at h₂
        dsimp only at h₂
        have hlen := readSection_len cfg m₂ _ _ _ hm'
        refine ih items₁ t₂ bs₁ bt m₁ m' r₁ r₂ (by simp only [List.length_cons] at hn; omega) e₁ ht
          (by simpa [view] using hv) hc₁ (fun x hx => hc₂ x (by simp [customNames, hx]))
          (hs.trans hsim) hl₁ ?_ h₁ h₂
        rw [hlen]; rw [List.length_append] at hl₂; omega
    cases items₁ with
    | nil =>
      cases items₂ with
      | nil =>
        cases e₁; cases e₂
        rw [readSections_nil] at h₁ h₂
        cases h₁; cases h₂
        exact hs
      | cons it₂ t₂ =>
        cases it₂ with
        | custom nm content => exact right_custom nm content t₂ rfl
        | sec id p => simp [view] at hv
    | cons it₁ t₁ =>
      cases it₁ with
      | custom nm content => exact left_custom nm content t₁ rfl
      | sec id₁ p₁ =>
        cases items₂ with
        | nil => simp [view] at hv
        | cons it₂ t₂ =>
          cases it₂ with
          | custom nm content => exact right_custom nm content t₂ rfl
          | sec id₂ p₂ =>
            simp only [view, List.cons.injEq, Prod.mk.injEq] at hv
            obtain ⟨⟨hid, hp⟩, hvt⟩ := hv
            subst hid hp
            cases e₁ with
            | @cons _ _ b₁ bt₁ hb₁ ht₁ =>
            cases e₂ with
            | @cons _ _ b₂ bt₂ hb₂ ht₂ =>
              have hne₁ : b₁ ++ bt₁ ≠ [] := by
                intro hc; exact encItem_ne_nil hb₁ (List.append_eq_nil_iff.1 hc).1
              have hne₂ : b₂ ++ bt₂ ≠ [] := by
                intro hc; exact encItem_ne_nil hb₂ (List.append_eq_nil_iff.1 hc).1
              rw [readSections_cons cfg _ _ hne₁] at h₁
              rw [readSections_cons cfg _ _ hne₂] at h₂
              cases hr₁ : readSection cfg m₁ (b₁ ++ bt₁) with
              | err c => rw [hr₁] at h₁; cases h₁
              | ub u => rw [hr₁] at h₁; cases h₁
              | ok x₁ =>
                obtain ⟨m₁', q₁⟩ := x₁
                cases hr₂ : readSection cfg m₂ (b₂ ++ bt₂) with
                | err c => rw [hr₂] at h₂; cases h₂
                | ub u => rw [hr₂] at h₂; cases h₂
                | ok x₂ =>
                  obtain ⟨m₂', q₂⟩ := x₂
                  rw [hr₁] at h₁
                  rw [hr₂] at h₂
                  dsimp only at h₁ h₂
                  obtain ⟨hq₁, hq₂, hsim⟩ := readSection_sec_agree cfg bt₁ bt₂ hb₁ hb₂ hs hl₁ hl₂ hr₁ hr₂
                  subst hq₁ hq₂
                  have hlen₁ := readSection_len cfg m₁ _ _ _ hr₁
                  have hlen₂ := readSection_len cfg m₂ _ _ _ hr₂
                  refine ih t₁ t₂ q₁ q₂ m₁' m₂' r₁ r₂ (by simp only [List.length_cons] at hn; omega) ht₁ ht₂ hvt
                    (fun x hx => hc₁ x (by simpa [customNames] using hx))
                    (fun x hx => hc₂ x (by simpa [customNames] using hx)) hsim ?_ ?_ h₁ h₂
                  · rw [hlen₁]; rw [List.length_append] at hl₁; omega
                  · rw [hlen₂]; rw [List.length_append] at hl₂; omega

end W2c2Verif.Lemmas.Reader
