/-
  Lemmas.PoolPartition — arithmetic of the file partition (Model/Partition.lean).
-/
import W2c2Verif.Model.Partition

namespace W2c2Verif.Model.Partition

theorem effFpf_pos (fpf : Nat) : 0 < effFpf fpf := by
  unfold effFpf U32MAX; split <;> omega

theorem effFpf_lt {fpf : Nat} (h : fpf < 4294967296) : effFpf fpf < 4294967296 := by
  unfold effFpf U32MAX; split <;> omega

theorem fileCount_pos_iff {n fpf : Nat} : 0 < fileCount n fpf ↔ 0 < n := by
  unfold fileCount
  generalize (n - 1) / effFpf fpf = q
  split <;> omega

/-- `i < fileCount` means `i * f ≤ n - 1` -/
theorem lt_fileCount_iff {n fpf i : Nat} (hn : 0 < n) : i < fileCount n fpf ↔ i * effFpf fpf ≤ n - 1 := by
  unfold fileCount
  have hf := effFpf_pos fpf
  rw [if_neg (by omega)]
  rw [← Nat.le_div_iff_mul_le hf]
  generalize (n - 1) / effFpf fpf = q
  omega

/-- no U32 wrap in `fileIndex * functionsPerFile` -/
theorem start_no_wrap {n fpf i : Nat} (hn : n < 4294967296) (hi : i < fileCount n fpf) :
    i * effFpf fpf < 4294967296 := by
  have hpos : 0 < n := (fileCount_pos_iff (fpf := fpf)).mp (by omega)
  have := (lt_fileCount_iff hpos).mp hi
  omega

/-- closed form of the range of file `i`, for up to 2^31 functions -/
theorem fileRange_eq {n fpf i : Nat} (hn : n ≤ 2147483648) (hf : fpf < 4294967296) (hi : i < fileCount n fpf) :
    fileRange n fpf i = some (i * effFpf fpf, min ((i + 1) * effFpf fpf) n) ∧
      i * effFpf fpf < min ((i + 1) * effFpf fpf) n := by
  have hpos : 0 < n := (fileCount_pos_iff (fpf := fpf)).mp (by omega)
  have h1 := (lt_fileCount_iff hpos).mp hi
  have hfp := effFpf_pos fpf
  have hfl := effFpf_lt hf
  have hsucc : (i + 1) * effFpf fpf = i * effFpf fpf + effFpf fpf := Nat.succ_mul _ _
  have hge : i = 0 ∨ effFpf fpf ≤ i * effFpf fpf := by
    cases i with
    | zero => exact Or.inl rfl
    | succ j => exact Or.inr (Nat.le_mul_of_pos_left _ (Nat.succ_pos j))
  have h0 : i = 0 → i * effFpf fpf = 0 := fun h => by rw [h, Nat.zero_mul]
  unfold fileRange
  simp only [U32MOD]
  rw [hsucc]
  have hs : (i * effFpf fpf) % 4294967296 = i * effFpf fpf := Nat.mod_eq_of_lt (by omega)
  have hsf : (i * effFpf fpf + effFpf fpf) % 4294967296 = i * effFpf fpf + effFpf fpf :=
    Nat.mod_eq_of_lt (by
      rcases hge with h | h
      · have := h0 h; omega
      · omega)
  simp only [hs, hsf]
  refine ⟨?_, by omega⟩
  by_cases hc : i * effFpf fpf + effFpf fpf > n
  · simp only [if_pos hc]
    rw [if_neg (by omega), Nat.min_eq_right (by omega)]
  · simp only [if_neg hc]
    rw [if_neg (by omega), Nat.min_eq_left (by omega)]

theorem filterMap_eq_map_of_some {α β : Type} (f : α → Option β) (g : α → β) :
    ∀ l : List α, (∀ i ∈ l, f i = some (g i)) → l.filterMap f = l.map g
  | [], _ => rfl
  | x :: xs, h => by
    rw [List.filterMap_cons, h x List.mem_cons_self, List.map_cons,
      filterMap_eq_map_of_some f g xs (fun i hi => h i (List.mem_cons_of_mem _ hi))]

/-- every attempted file is written, with exactly these bounds -/
theorem files_eq {n fpf : Nat} (hn : n ≤ 2147483648) (hf : fpf < 4294967296) :
    files n fpf = (List.range (fileCount n fpf)).map
      (fun i => (i, i * effFpf fpf, min ((i + 1) * effFpf fpf) n)) := by
  unfold files
  apply filterMap_eq_map_of_some
  intro i hi
  rw [(fileRange_eq hn hf (List.mem_range.mp hi)).1]
  rfl

/-- each function ID index lies in exactly one file: file `k / f` -/
theorem unique_file {n fpf k : Nat} (hk : k < n) :
    (k / effFpf fpf < fileCount n fpf ∧ (k / effFpf fpf) * effFpf fpf ≤ k ∧
      k < min ((k / effFpf fpf + 1) * effFpf fpf) n) ∧
    ∀ j, j * effFpf fpf ≤ k → k < min ((j + 1) * effFpf fpf) n → j = k / effFpf fpf := by
  have hfp : 0 < effFpf fpf := effFpf_pos fpf
  have h1 := Nat.div_mul_le_self k (effFpf fpf)
  have h2 := Nat.lt_mul_div_succ k hfp
  rw [Nat.mul_comm] at h2
  refine ⟨⟨?_, h1, ?_⟩, ?_⟩
  · rw [lt_fileCount_iff (by omega)]
    omega
  · omega
  · intro j h3 h4
    have h5 : k < (j + 1) * effFpf fpf := by omega
    exact (Nat.div_eq_of_lt_le h3 h5).symm

end W2c2Verif.Model.Partition
