/-
  Lemmas.Wasi — invariants of the descriptor table of `Model.Wasi` and their preservation by
  every call, for every host and every configuration of the structural switches.
-/
import W2c2Verif.Model.Wasi

namespace W2c2Verif.Model.Wasi
open W2c2Verif W2c2Verif.Spec.Posix

variable {σ : Type}

/-! ## heap -/

/-- the descriptor's `path` points to freed memory -/
def Dangling (heap : List Cell) (d : Desc) : Prop := ∃ h, d.path = some h ∧ heap[h]? = some .freed

/-- descriptor `n` has been closed: no native fd, no DIR, and no usable path -/
def Closed (s : St σ) (n : Nat) : Prop :=
  ∃ d, s.fds[n]? = some d ∧ d.fd = -1 ∧ d.dir = none ∧ (d.path = none ∨ Dangling s.heap d)

/-- the table invariant that holds in EVERY reachable state of the code as it is -/
structure InvW (s : St σ) : Prop where
  valid : ∀ (i : Nat) (d : Desc) (h : Nat), s.fds[i]? = some d → d.path = some h → h < s.heap.length
  inj : ∀ (i j : Nat) (d d' : Desc) (h : Nat),
    s.fds[i]? = some d → s.fds[j]? = some d' → d.path = some h → d'.path = some h → i = j
  freedClosed : ∀ (i : Nat) (d : Desc) (h : Nat),
    s.fds[i]? = some d → d.path = some h → s.heap[h]? = some Cell.freed → d.fd = -1 ∧ d.dir = none
  std : ∀ i : Nat, i < 3 → s.fds[i]? = some ⟨i, none, none⟩ ∨ s.fds[i]? = some Desc.empty
  dirPath : ∀ (i : Nat) (d : Desc), s.fds[i]? = some d → d.dir ≠ none → d.path ≠ none

/-- the invariant DESIGN §5 asks for: every stored path is live, and a closed slot is the empty descriptor -/
structure InvS (s : St σ) : Prop extends InvW s where
  live : ∀ (i : Nat) (d : Desc) (h : Nat), s.fds[i]? = some d → d.path = some h → ∃ p, s.heap[h]? = some (Cell.live p)

theorem readHeap_eq (heap : List Cell) (h : Nat) :
    (∃ p, heap[h]? = some (.live p) ∧ readHeap heap h = .val p) ∨
    (heap[h]? = some .freed ∧ readHeap heap h = .ub .useAfterFree) ∨
    (heap[h]? = none ∧ readHeap heap h = .ub .outOfBounds) := by
  unfold readHeap
  cases hh : heap[h]? with
  | none => simp
  | some c => cases c <;> simp

theorem freeHeap_eq (heap : List Cell) (h : Nat) :
    (∃ p, heap[h]? = some (.live p) ∧ freeHeap heap h = .val (heap.set h .freed)) ∨
    (heap[h]? = some .freed ∧ freeHeap heap h = .ub .doubleFree) ∨
    (heap[h]? = none ∧ freeHeap heap h = .ub .outOfBounds) := by
  unfold freeHeap
  cases hh : heap[h]? with
  | none => simp
  | some c => cases c <;> simp

/-! ## frame: read-only calls do not touch the table -/

theorem step_ro_frame (cfg : Cfg) (H : Host σ) (abi : Abi) (s s' : St σ) (c : ROCall) (r : Res)
    (h : step cfg H abi s (.ro c) = .val (s', r)) : s'.fds = s.fds ∧ s'.heap = s.heap := by
  simp only [step, Out.map'] at h
  cases hr : stepRO cfg H abi s c with
  | val x =>
    rw [hr] at h
    simp only [Out.bind_val] at h
    obtain ⟨w, hh, rr⟩ := x
    simp only [Out.val.injEq, Prod.mk.injEq] at h
    obtain ⟨h1, _⟩ := h
    subst h1; exact ⟨rfl, rfl⟩
  | trap t => rw [hr] at h; simp at h
  | ub k => rw [hr] at h; simp at h
  | oof => rw [hr] at h; simp at h

theorem InvW_of_frame {s s' : St σ} (hf : s'.fds = s.fds) (hh : s'.heap = s.heap) (hi : InvW s) : InvW s' := by
  constructor
  · intro i d h; rw [hf, hh]; exact hi.valid i d h
  · intro i j d d' h; rw [hf]; exact hi.inj i j d d' h
  · intro i d h; rw [hf, hh]; exact hi.freedClosed i d h
  · intro i; rw [hf]; exact hi.std i
  · intro i d; rw [hf]; exact hi.dirPath i d

/-! ## the table operations -/

theorem tableAdd_spec (s s' : St σ) (fd : Int) (path : Bytes) (idx : Nat)
    (h : tableAdd s fd path = some (s', idx)) :
    idx = s.fds.length ∧ s'.fds = s.fds ++ [⟨fd, none, some s.heap.length⟩] ∧
    s'.heap = s.heap ++ [.live (cstr path)] ∧ s'.mem = s.mem ∧ s'.host = s.host := by
  unfold tableAdd at h
  simp only at h
  split at h
  · simp only [Option.some.injEq, Prod.mk.injEq] at h
    obtain ⟨h1, h2⟩ := h
    subst h1 h2
    exact ⟨rfl, rfl, rfl, rfl, rfl⟩
  · simp at h

theorem getElem?_snoc {α : Type} (l : List α) (x : α) (i : Nat) (d : α) :
    (l ++ [x])[i]? = some d ↔ (i < l.length ∧ l[i]? = some d) ∨ (i = l.length ∧ d = x) := by
  rw [List.getElem?_append]
  split
  · rename_i h; constructor
    · intro h'; exact Or.inl ⟨h, h'⟩
    · rintro (⟨_, h'⟩ | ⟨h', _⟩)
      · exact h'
      · omega
  · rename_i h
    cases hk : i - l.length with
    | zero =>
      have : i = l.length := by omega
      simp [this, eq_comm]
    | succ k =>
      simp only [List.getElem?_cons_succ, List.getElem?_nil]
      constructor
      · intro h'; cases h'
      · rintro (⟨h', _⟩ | ⟨h', _⟩) <;> omega

theorem InvW_len (s : St σ) (hi : InvW s) : 3 ≤ s.fds.length := by
  rcases hi.std 2 (by omega) with h2 | h2 <;>
  · have := (List.getElem?_eq_some_iff.mp h2).1; omega

theorem InvW_tableAdd {s s' : St σ} {fd : Int} {path : Bytes} {idx : Nat}
    (h : tableAdd s fd path = some (s', idx)) (hi : InvW s) : InvW s' := by
  obtain ⟨_, hf, hh, _, _⟩ := tableAdd_spec s s' fd path idx h
  have hstd3 := InvW_len s hi
  constructor
  · intro i d hp hd hpath
    rw [hf, getElem?_snoc] at hd
    rw [hh, List.length_append]
    rcases hd with ⟨_, hd⟩ | ⟨_, hd⟩
    · have := hi.valid i d hp hd hpath; simp; omega
    · subst hd; simp at hpath; subst hpath; simp
  · intro i j d d' hp hd hd' hpath hpath'
    rw [hf, getElem?_snoc] at hd hd'
    rcases hd with ⟨_, hd⟩ | ⟨hil, hd⟩ <;> rcases hd' with ⟨_, hd'⟩ | ⟨hjl, hd'⟩
    · exact hi.inj i j d d' hp hd hd' hpath hpath'
    · have hv := hi.valid i d hp hd hpath
      subst hd'
      have : s.heap.length = hp := by simpa using hpath'
      omega
    · have hv := hi.valid j d' hp hd' hpath'
      subst hd
      have : s.heap.length = hp := by simpa using hpath
      omega
    · omega
  · intro i d hp hd hpath hfr
    rw [hf, getElem?_snoc] at hd
    rw [hh, List.getElem?_append] at hfr
    rcases hd with ⟨_, hd⟩ | ⟨_, hd⟩
    · have hv := hi.valid i d hp hd hpath
      simp only [hv, ↓reduceIte] at hfr
      exact hi.freedClosed i d hp hd hpath hfr
    · subst hd; simp at hpath; subst hpath
      simp at hfr
  · intro i hi3
    rw [hf, List.getElem?_append_left (by omega)]
    exact hi.std i hi3
  · intro i d hd hdir
    rw [hf, getElem?_snoc] at hd
    rcases hd with ⟨_, hd⟩ | ⟨_, hd⟩
    · exact hi.dirPath i d hd hdir
    · subst hd; simp at hdir

/-! ## `wasiFileDescriptorGet` -/

theorem getDesc_some {cfg : Cfg} {s : St σ} {n : Nat} {d : Desc} (h : getDesc cfg s n = some d) :
    s.fds[n]? = some d ∧ (cfg.getRejectsClosed = true → ¬ (d.fd < 0 ∧ d.dir = none ∧ d.path = none)) := by
  unfold getDesc at h
  split at h
  · cases h
  · rename_i e he
    split at h
    · cases h
    · rename_i hne
      cases h
      refine ⟨he, ?_⟩
      intro hr hc
      exact hne ⟨hr, hc⟩

theorem getDesc_none_of_len {cfg : Cfg} {s : St σ} {n : Nat} (h : s.fds.length ≤ n) : getDesc cfg s n = none := by
  unfold getDesc; rw [List.getElem?_eq_none h]

theorem getDesc_none_of_empty {cfg : Cfg} {s : St σ} {n : Nat} (hc : cfg.getRejectsClosed = true)
    (h : s.fds[n]? = some Desc.empty) : getDesc cfg s n = none := by
  unfold getDesc; rw [h]; simp [hc, Desc.empty]

/-! ## fd_close -/

/-- what a returning `fd_close` did to the table -/
theorem fdClose_val (cfg : Cfg) (H : Host σ) (s s' : St σ) (n : Nat) (r : Res)
    (h : fdClose cfg H s n = .val (s', r)) :
    (s'.fds = s.fds ∧ s'.heap = s.heap ∧ s'.mem = s.mem ∧ r ≠ .errno 0 []) ∨
    (∃ d, s.fds[n]? = some d ∧ r = .errno 0 [] ∧ s'.mem = s.mem ∧
      s'.fds = s.fds.modify n (fun e => ⟨-1, none, if cfg.closeClearsPath then none else e.path⟩) ∧
      ((d.path = none ∧ s'.heap = s.heap) ∨
       (∃ hp p, d.path = some hp ∧ s.heap[hp]? = some (.live p) ∧ s'.heap = s.heap.set hp .freed))) := by
  unfold fdClose at h
  split at h
  · simp at h; obtain ⟨h1, h2⟩ := h; subst h1 h2; left; simp [BADF, Gen.Wasi.WASI_ERRNO_BADF]
  · rename_i d hd0
    have hd := (getDesc_some hd0).1
    · split at h
      · simp at h; obtain ⟨h1, h2⟩ := h; subst h1 h2; left; simp
      · simp at h; obtain ⟨h1, h2⟩ := h; subst h1 h2; left; simp [BADF, Gen.Wasi.WASI_ERRNO_BADF]
      · rename_i h' u hr
        right
        refine ⟨d, hd, ?_⟩
        cases hp : d.path with
        | none =>
          simp [hp, setDesc] at h
          obtain ⟨h1, h2⟩ := h
          subst h1 h2
          simp
        | some hpp =>
          simp only [hp] at h
          rcases freeHeap_eq s.heap hpp with ⟨p, hl, hf⟩ | ⟨_, hf⟩ | ⟨_, hf⟩
          · rw [hf] at h
            simp [setDesc] at h
            obtain ⟨h1, h2⟩ := h
            subst h1 h2
            simp [hl]
          · rw [hf] at h; simp at h
          · rw [hf] at h; simp at h

theorem getElem?_modify_some {α : Type} (l : List α) (n : Nat) (f : α → α) (i : Nat) (d' : α)
    (h : (l.modify n f)[i]? = some d') : ∃ e, l[i]? = some e ∧ d' = if n = i then f e else e := by
  rw [List.getElem?_modify] at h
  cases he : l[i]? with
  | none => rw [he] at h; simp at h
  | some e => rw [he] at h; simp at h; exact ⟨e, rfl, h.symm⟩

theorem InvW_fdClose (cfg : Cfg) (H : Host σ) (s s' : St σ) (n : Nat) (r : Res)
    (h : fdClose cfg H s n = .val (s', r)) (hi : InvW s) : InvW s' := by
  rcases fdClose_val cfg H s s' n r h with ⟨hf, hh, _, _⟩ | ⟨d, hd, _, _, hf, hheap⟩
  · exact InvW_of_frame hf hh hi
  · have hlen : s'.heap.length = s.heap.length := by
      rcases hheap with ⟨_, hh⟩ | ⟨hp, p, _, _, hh⟩ <;> simp [hh]
    -- every entry of the new table comes from the old entry at the same index, with the same or no path
    have hsrc : ∀ (i : Nat) (d' : Desc), s'.fds[i]? = some d' →
        ∃ e, s.fds[i]? = some e ∧ (d'.path = none ∨ d'.path = e.path) ∧ (i ≠ n → d' = e) ∧
          (i = n → d'.fd = -1 ∧ d'.dir = none) := by
      intro i d' hd'
      rw [hf] at hd'
      obtain ⟨e, he, hde⟩ := getElem?_modify_some _ _ _ _ _ hd'
      refine ⟨e, he, ?_, ?_, ?_⟩
      · subst hde; split <;> (try split) <;> simp
      · intro hne; subst hde; simp [Ne.symm hne]
      · intro heq; subst hde; simp [heq]
    constructor
    · intro i d' hp hd' hpath
      obtain ⟨e, he, hpe, _, _⟩ := hsrc i d' hd'
      rw [hlen]
      rcases hpe with hpe | hpe
      · rw [hpe] at hpath; cases hpath
      · rw [hpe] at hpath; exact hi.valid i e hp he hpath
    · intro i j d1 d2 hp hd1 hd2 hp1 hp2
      obtain ⟨e1, he1, hpe1, _, _⟩ := hsrc i d1 hd1
      obtain ⟨e2, he2, hpe2, _, _⟩ := hsrc j d2 hd2
      rcases hpe1 with hpe1 | hpe1
      · rw [hpe1] at hp1; cases hp1
      · rcases hpe2 with hpe2 | hpe2
        · rw [hpe2] at hp2; cases hp2
        · rw [hpe1] at hp1; rw [hpe2] at hp2
          exact hi.inj i j e1 e2 hp he1 he2 hp1 hp2
    · intro i d' hp hd' hpath hfr
      obtain ⟨e, he, hpe, hne, heq⟩ := hsrc i d' hd'
      by_cases hin : i = n
      · exact heq hin
      · have hde := hne hin
        subst hde
        rcases hheap with ⟨_, hh⟩ | ⟨hpp, p, hdp, hl, hh⟩
        · rw [hh] at hfr; exact hi.freedClosed i d' hp he hpath hfr
        · rw [hh, List.getElem?_set] at hfr
          split at hfr
          · rename_i heq2
            subst heq2
            exact absurd (hi.inj i n d' d hpp he hd hpath hdp) hin
          · exact hi.freedClosed i d' hp he hpath hfr
    · intro i hi3
      rcases hi.std i hi3 with hs | hs
      · by_cases hin : i = n
        · right
          rw [hf, List.getElem?_modify, hs]; simp [hin, Desc.empty]
        · left
          rw [hf, List.getElem?_modify, hs]; simp [Ne.symm hin]
      · right
        rw [hf, List.getElem?_modify, hs]
        by_cases hin : n = i <;> simp [hin, Desc.empty]
    · intro i d' hd' hdir
      obtain ⟨e, he, hpe, hne, heq⟩ := hsrc i d' hd'
      by_cases hin : i = n
      · exact absurd (heq hin).2 hdir
      · have hde := hne hin
        subst hde
        exact hi.dirPath i d' he hdir
