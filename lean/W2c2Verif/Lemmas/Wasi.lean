/-
  Lemmas.Wasi — invariants of the descriptor table of `Model.Wasi` and their preservation by
  every call, for every host and every configuration of the structural switches.
-/
import W2c2Verif.Model.Wasi

namespace W2c2Verif.Model.Wasi
open W2c2Verif W2c2Verif.Spec.Posix

variable {σ : Type}

/-! ## heap -/

/-- the descriptor's `path` points to freed memory -/
def Dangling (heap : List Cell) (d : Desc) : Prop := ∃ h, d.path = some h ∧ heap[h]? = some .freed

/-- descriptor `n` has been closed: no native fd, no DIR, and no usable path -/
def Closed (s : St σ) (n : Nat) : Prop :=
  ∃ d, s.fds[n]? = some d ∧ d.fd = -1 ∧ d.dir = none ∧ (d.path = none ∨ Dangling s.heap d)

/-- the table invariant that holds in EVERY reachable state of the code as it is -/
structure InvW (s : St σ) : Prop where
  valid : ∀ (i : Nat) (d : Desc) (h : Nat), s.fds[i]? = some d → d.path = some h → h < s.heap.length
  inj : ∀ (i j : Nat) (d d' : Desc) (h : Nat),
    s.fds[i]? = some d → s.fds[j]? = some d' → d.path = some h → d'.path = some h → i = j
  freedClosed : ∀ (i : Nat) (d : Desc) (h : Nat),
    s.fds[i]? = some d → d.path = some h → s.heap[h]? = some Cell.freed → d.fd = -1 ∧ d.dir = none
  std : ∀ i : Nat, i < 3 → s.fds[i]? = some ⟨i, none, none⟩ ∨ s.fds[i]? = some Desc.empty
  dirPath : ∀ (i : Nat) (d : Desc), s.fds[i]? = some d → d.dir ≠ none → d.path ≠ none

/-- the invariant DESIGN §5 asks for: every stored path is live, and a closed slot is the empty descriptor -/
structure InvS (s : St σ) : Prop extends InvW s where
  live : ∀ (i : Nat) (d : Desc) (h : Nat), s.fds[i]? = some d → d.path = some h → ∃ p, s.heap[h]? = some (Cell.live p)

theorem readHeap_eq (heap : List Cell) (h : Nat) :
    (∃ p, heap[h]? = some (.live p) ∧ readHeap heap h = .val p) ∨
    (heap[h]? = some .freed ∧ readHeap heap h = .ub .useAfterFree) ∨
    (heap[h]? = none ∧ readHeap heap h = .ub .outOfBounds) := by
  unfold readHeap
  cases hh : heap[h]? with
  | none => simp
  | some c => cases c <;> simp

theorem freeHeap_eq (heap : List Cell) (h : Nat) :
    (∃ p, heap[h]? = some (.live p) ∧ freeHeap heap h = .val (heap.set h .freed)) ∨
    (heap[h]? = some .freed ∧ freeHeap heap h = .ub .doubleFree) ∨
    (heap[h]? = none ∧ freeHeap heap h = .ub .outOfBounds) := by
  unfold freeHeap
  cases hh : heap[h]? with
  | none => simp
  | some c => cases c <;> simp

/-! ## frame: read-only calls do not touch the table -/

theorem step_ro_frame (cfg : Cfg) (H : Host σ) (abi : Abi) (s s' : St σ) (c : ROCall) (r : Res)
    (h : step cfg H abi s (.ro c) = .val (s', r)) : s'.fds = s.fds ∧ s'.heap = s.heap := by
  simp only [step, Out.map'] at h
  cases hr : stepRO cfg H abi s c with
  | val x =>
    rw [hr] at h
    simp only [Out.bind_val] at h
    obtain ⟨w, hh, rr⟩ := x
    simp only [Out.val.injEq, Prod.mk.injEq] at h
    obtain ⟨h1, _⟩ := h
    subst h1; exact ⟨rfl, rfl⟩
  | trap t => rw [hr] at h; simp at h
  | ub k => rw [hr] at h; simp at h
  | oof => rw [hr] at h; simp at h

theorem InvW_of_frame {s s' : St σ} (hf : s'.fds = s.fds) (hh : s'.heap = s.heap) (hi : InvW s) : InvW s' := by
  constructor
  · intro i d h; rw [hf, hh]; exact hi.valid i d h
  · intro i j d d' h; rw [hf]; exact hi.inj i j d d' h
  · intro i d h; rw [hf, hh]; exact hi.freedClosed i d h
  · intro i; rw [hf]; exact hi.std i
  · intro i d; rw [hf]; exact hi.dirPath i d

/-! ## the table operations -/

theorem tableAdd_spec (s s' : St σ) (fd : Int) (path : Bytes) (idx : Nat)
    (h : tableAdd s fd path = some (s', idx)) :
    idx = s.fds.length ∧ s'.fds = s.fds ++ [⟨fd, none, some s.heap.length⟩] ∧
    s'.heap = s.heap ++ [.live (cstr path)] ∧ s'.mem = s.mem ∧ s'.host = s.host := by
  unfold tableAdd at h
  simp only at h
  split at h
  · simp only [Option.some.injEq, Prod.mk.injEq] at h
    obtain ⟨h1, h2⟩ := h
    subst h1 h2
    exact ⟨rfl, rfl, rfl, rfl, rfl⟩
  · simp at h

theorem getElem?_snoc {α : Type} (l : List α) (x : α) (i : Nat) (d : α) :
    (l ++ [x])[i]? = some d ↔ (i < l.length ∧ l[i]? = some d) ∨ (i = l.length ∧ d = x) := by
  rw [List.getElem?_append]
  split
  · rename_i h; constructor
    · intro h'; exact Or.inl ⟨h, h'⟩
    · rintro (⟨_, h'⟩ | ⟨h', _⟩)
      · exact h'
      · omega
  · rename_i h
    cases hk : i - l.length with
    | zero =>
      have : i = l.length := by omega
      simp [this, eq_comm]
    | succ k =>
      simp only [List.getElem?_cons_succ, List.getElem?_nil]
      constructor
      · intro h'; cases h'
      · rintro (⟨h', _⟩ | ⟨h', _⟩) <;> omega

theorem InvW_len (s : St σ) (hi : InvW s) : 3 ≤ s.fds.length := by
  rcases hi.std 2 (by omega) with h2 | h2 <;>
  · have := (List.getElem?_eq_some_iff.mp h2).1; omega

theorem InvW_tableAdd {s s' : St σ} {fd : Int} {path : Bytes} {idx : Nat}
    (h : tableAdd s fd path = some (s', idx)) (hi : InvW s) : InvW s' := by
  obtain ⟨_, hf, hh, _, _⟩ := tableAdd_spec s s' fd path idx h
  have hstd3 := InvW_len s hi
  constructor
  · intro i d hp hd hpath
    rw [hf, getElem?_snoc] at hd
    rw [hh, List.length_append]
    rcases hd with ⟨_, hd⟩ | ⟨_, hd⟩
    · have := hi.valid i d hp hd hpath; simp; omega
    · subst hd; simp at hpath; subst hpath; simp
  · intro i j d d' hp hd hd' hpath hpath'
    rw [hf, getElem?_snoc] at hd hd'
    rcases hd with ⟨_, hd⟩ | ⟨hil, hd⟩ <;> rcases hd' with ⟨_, hd'⟩ | ⟨hjl, hd'⟩
    · exact hi.inj i j d d' hp hd hd' hpath hpath'
    · have hv := hi.valid i d hp hd hpath
      subst hd'
      have : s.heap.length = hp := by simpa using hpath'
      omega
    · have hv := hi.valid j d' hp hd' hpath'
      subst hd
      have : s.heap.length = hp := by simpa using hpath
      omega
    · omega
  · intro i d hp hd hpath hfr
    rw [hf, getElem?_snoc] at hd
    rw [hh, List.getElem?_append] at hfr
    rcases hd with ⟨_, hd⟩ | ⟨_, hd⟩
    · have hv := hi.valid i d hp hd hpath
      simp only [hv, ↓reduceIte] at hfr
      exact hi.freedClosed i d hp hd hpath hfr
    · subst hd; simp at hpath; subst hpath
      simp at hfr
  · intro i hi3
    rw [hf, List.getElem?_append_left (by omega)]
    exact hi.std i hi3
  · intro i d hd hdir
    rw [hf, getElem?_snoc] at hd
    rcases hd with ⟨_, hd⟩ | ⟨_, hd⟩
    · exact hi.dirPath i d hd hdir
    · subst hd; simp at hdir

/-! ## `wasiFileDescriptorGet` -/

theorem getDesc_some {cfg : Cfg} {s : St σ} {n : Nat} {d : Desc} (h : getDesc cfg s n = some d) :
    s.fds[n]? = some d ∧ (cfg.getRejectsClosed = true → ¬ (d.fd < 0 ∧ d.dir = none ∧ d.path = none)) := by
  unfold getDesc at h
  split at h
  · cases h
  · rename_i e he
    split at h
    · cases h
    · rename_i hne
      cases h
      refine ⟨he, ?_⟩
      intro hr hc
      exact hne ⟨hr, hc⟩

theorem getDesc_none_of_len {cfg : Cfg} {s : St σ} {n : Nat} (h : s.fds.length ≤ n) : getDesc cfg s n = none := by
  unfold getDesc; rw [List.getElem?_eq_none h]

theorem getDesc_none_of_empty {cfg : Cfg} {s : St σ} {n : Nat} (hc : cfg.getRejectsClosed = true)
    (h : s.fds[n]? = some Desc.empty) : getDesc cfg s n = none := by
  unfold getDesc; rw [h]; simp [hc, Desc.empty]

/-! ## fd_close -/

/-- what a returning `fd_close` did to the table -/
theorem fdClose_val (cfg : Cfg) (H : Host σ) (s s' : St σ) (n : Nat) (r : Res)
    (h : fdClose cfg H s n = .val (s', r)) :
    (s'.fds = s.fds ∧ s'.heap = s.heap ∧ s'.mem = s.mem ∧ r ≠ .errno 0 []) ∨
    (∃ d, s.fds[n]? = some d ∧ r = .errno 0 [] ∧ s'.mem = s.mem ∧
      s'.fds = s.fds.modify n (fun e => ⟨-1, none, if cfg.closeClearsPath then none else e.path⟩) ∧
      ((d.path = none ∧ s'.heap = s.heap) ∨
       (∃ hp p, d.path = some hp ∧ s.heap[hp]? = some (.live p) ∧ s'.heap = s.heap.set hp .freed))) := by
  unfold fdClose at h
  split at h
  · simp at h; obtain ⟨h1, h2⟩ := h; subst h1 h2; left; simp [BADF, Gen.Wasi.WASI_ERRNO_BADF]
  · rename_i d hd0
    have hd := (getDesc_some hd0).1
    split at h
    · simp at h; obtain ⟨h1, h2⟩ := h; subst h1 h2; left; simp
    · simp at h; obtain ⟨h1, h2⟩ := h; subst h1 h2; left; simp [BADF, Gen.Wasi.WASI_ERRNO_BADF]
    · right
      refine ⟨d, hd, ?_⟩
      split at h
      · rename_i hp
        simp [setDesc] at h
        obtain ⟨h1, h2⟩ := h
        subst h1 h2
        simp [hp]
      · rename_i hpp hp
        rcases freeHeap_eq s.heap hpp with ⟨p, hl, hf⟩ | ⟨_, hf⟩ | ⟨_, hf⟩
        · rw [hf] at h
          simp [setDesc] at h
          obtain ⟨h1, h2⟩ := h
          subst h1 h2
          simp [hl, hp]
        · rw [hf] at h; simp at h
        · rw [hf] at h; simp at h

theorem getElem?_modify_some {α : Type} (l : List α) (n : Nat) (f : α → α) (i : Nat) (d' : α)
    (h : (l.modify n f)[i]? = some d') : ∃ e, l[i]? = some e ∧ d' = if n = i then f e else e := by
  rw [List.getElem?_modify] at h
  cases he : l[i]? with
  | none => rw [he] at h; simp at h
  | some e => rw [he] at h; simp at h; exact ⟨e, rfl, h.symm⟩

theorem InvW_fdClose (cfg : Cfg) (H : Host σ) (s s' : St σ) (n : Nat) (r : Res)
    (h : fdClose cfg H s n = .val (s', r)) (hi : InvW s) : InvW s' := by
  rcases fdClose_val cfg H s s' n r h with ⟨hf, hh, _, _⟩ | ⟨d, hd, _, _, hf, hheap⟩
  · exact InvW_of_frame hf hh hi
  · have hlen : s'.heap.length = s.heap.length := by
      rcases hheap with ⟨_, hh⟩ | ⟨hp, p, _, _, hh⟩ <;> simp [hh]
    -- every entry of the new table comes from the old entry at the same index, with the same or no path
    have hsrc : ∀ (i : Nat) (d' : Desc), s'.fds[i]? = some d' →
        ∃ e, s.fds[i]? = some e ∧ (d'.path = none ∨ d'.path = e.path) ∧ (i ≠ n → d' = e) ∧
          (i = n → d'.fd = -1 ∧ d'.dir = none) := by
      intro i d' hd'
      rw [hf] at hd'
      obtain ⟨e, he, hde⟩ := getElem?_modify_some _ _ _ _ _ hd'
      refine ⟨e, he, ?_, ?_, ?_⟩
      · subst hde; split <;> (try split) <;> simp
      · intro hne; subst hde; simp [Ne.symm hne]
      · intro heq; subst hde; simp [heq]
    constructor
    · intro i d' hp hd' hpath
      obtain ⟨e, he, hpe, _, _⟩ := hsrc i d' hd'
      rw [hlen]
      rcases hpe with hpe | hpe
      · rw [hpe] at hpath; cases hpath
      · rw [hpe] at hpath; exact hi.valid i e hp he hpath
    · intro i j d1 d2 hp hd1 hd2 hp1 hp2
      obtain ⟨e1, he1, hpe1, _, _⟩ := hsrc i d1 hd1
      obtain ⟨e2, he2, hpe2, _, _⟩ := hsrc j d2 hd2
      rcases hpe1 with hpe1 | hpe1
      · rw [hpe1] at hp1; cases hp1
      · rcases hpe2 with hpe2 | hpe2
        · rw [hpe2] at hp2; cases hp2
        · rw [hpe1] at hp1; rw [hpe2] at hp2
          exact hi.inj i j e1 e2 hp he1 he2 hp1 hp2
    · intro i d' hp hd' hpath hfr
      obtain ⟨e, he, hpe, hne, heq⟩ := hsrc i d' hd'
      by_cases hin : i = n
      · exact heq hin
      · have hde := hne hin
        subst hde
        rcases hheap with ⟨_, hh⟩ | ⟨hpp, p, hdp, hl, hh⟩
        · rw [hh] at hfr; exact hi.freedClosed i d' hp he hpath hfr
        · rw [hh, List.getElem?_set] at hfr
          split at hfr
          · rename_i heq2
            subst heq2
            exact absurd (hi.inj i n d' d hpp he hd hpath hdp) hin
          · exact hi.freedClosed i d' hp he hpath hfr
    · intro i hi3
      rcases hi.std i hi3 with hs | hs
      · by_cases hin : i = n
        · right
          rw [hf, List.getElem?_modify, hs]; simp [hin, Desc.empty]
        · left
          rw [hf, List.getElem?_modify, hs]; simp [Ne.symm hin]
      · right
        rw [hf, List.getElem?_modify, hs]
        by_cases hin : n = i <;> simp [hin, Desc.empty]
    · intro i d' hd' hdir
      obtain ⟨e, he, hpe, hne, heq⟩ := hsrc i d' hd'
      by_cases hin : i = n
      · exact absurd (heq hin).2 hdir
      · have hde := hne hin
        subst hde
        exact hi.dirPath i d' he hdir

/-! ## fd_readdir -/

theorem derefPath_val {heap : List Cell} {p : Option HeapId} {bs : Bytes} (h : derefPath heap p = .val bs) :
    ∃ hp, p = some hp ∧ heap[hp]? = some (.live bs) := by
  unfold derefPath at h
  cases p with
  | none => simp at h
  | some hp =>
    refine ⟨hp, rfl, ?_⟩
    simp only at h
    rcases readHeap_eq heap hp with ⟨q, hl, hr⟩ | ⟨_, hr⟩ | ⟨_, hr⟩
    · rw [hr] at h; cases h; exact hl
    · rw [hr] at h; cases h
    · rw [hr] at h; cases h

/-- what the lazy `opendir` does to the table -/
theorem readdirOpen_ok (cfg : Cfg) (H : Host σ) (s s1 : St σ) (n : Nat) (d : Desc) (cookie : Nat)
    (h : readdirOpen cfg H s n d cookie = .val (.ok s1)) :
    s1.heap = s.heap ∧ s1.mem = s.mem ∧
    (s1.fds = s.fds ∨
      ∃ dh hp p, d.dir = none ∧ d.path = some hp ∧ s.heap[hp]? = some (.live p) ∧
        s1.fds = s.fds.modify n (fun e => { e with dir := some dh })) := by
  unfold readdirOpen at h
  split at h
  · cases h; exact ⟨rfl, rfl, Or.inl rfl⟩
  · rename_i hdir
    split at h
    · cases h
    · split at h
      · cases h
      · cases h
      · cases h
      · rename_i p hp
        obtain ⟨hpp, hpe, hl⟩ := derefPath_val hp
        split at h
        · cases h
        · split at h
          · cases h
          · cases h
          · rename_i h' dh hop
            cases h
            refine ⟨rfl, rfl, Or.inr ⟨dh, hpp, p, hdir, hpe, hl, rfl⟩⟩

theorem readdirOpen_error (cfg : Cfg) (H : Host σ) (s s1 : St σ) (n : Nat) (d : Desc) (cookie : Nat) (r : Res)
    (h : readdirOpen cfg H s n d cookie = .val (.error (s1, r))) :
    s1.heap = s.heap ∧ s1.mem = s.mem ∧ s1.fds = s.fds := by
  unfold readdirOpen at h
  split at h
  · cases h
  · split at h
    · cases h; exact ⟨rfl, rfl, rfl⟩
    · split at h
      · cases h
      · cases h
      · cases h
      · split at h
        · cases h; exact ⟨rfl, rfl, rfl⟩
        · split at h
          · cases h; exact ⟨rfl, rfl, rfl⟩
          · cases h; exact ⟨rfl, rfl, rfl⟩
          · cases h

/-- what a returning `fd_readdir` did to the table -/
theorem fdReaddir_val (cfg : Cfg) (H : Host σ) (s s' : St σ) (n buf len cookie used : Nat) (r : Res)
    (h : fdReaddir cfg H s n buf len cookie used = .val (s', r)) :
    s'.heap = s.heap ∧
    (s'.fds = s.fds ∨
      ∃ d dh hp p, s.fds[n]? = some d ∧ d.dir = none ∧ d.path = some hp ∧ s.heap[hp]? = some (.live p) ∧
        s'.fds = s.fds.modify n (fun e => { e with dir := some dh })) := by
  unfold fdReaddir at h
  split at h
  · cases h; exact ⟨rfl, Or.inl rfl⟩
  · rename_i d hd0
    have hd := (getDesc_some hd0).1
    split at h
    · cases h
    · cases h
    · cases h
    · rename_i r' hro
      cases h
      obtain ⟨h1, _, h3⟩ := readdirOpen_error cfg H s s' n d cookie r hro
      exact ⟨h1, Or.inl h3⟩
    · rename_i s1 hro
      obtain ⟨h1, _, h3⟩ := readdirOpen_ok cfg H s s1 n d cookie hro
      have key : s1.heap = s.heap ∧ (s1.fds = s.fds ∨
          ∃ d dh hp p, s.fds[n]? = some d ∧ d.dir = none ∧ d.path = some hp ∧ s.heap[hp]? = some (.live p) ∧
            s1.fds = s.fds.modify n (fun e => { e with dir := some dh })) := by
        refine ⟨h1, ?_⟩
        rcases h3 with h3 | ⟨dh, hp, p, a, b, c, e⟩
        · exact Or.inl h3
        · exact Or.inr ⟨d, dh, hp, p, hd, a, b, c, e⟩
      simp only at h
      split at h
      · cases h
      · cases h
      · cases h
      · split at h
        · split at h
          · cases h
          · cases h
          · cases h
          · cases h; exact key
        · cases h; exact key

theorem InvW_fdReaddir (cfg : Cfg) (H : Host σ) (s s' : St σ) (n buf len cookie used : Nat) (r : Res)
    (h : fdReaddir cfg H s n buf len cookie used = .val (s', r)) (hi : InvW s) : InvW s' := by
  obtain ⟨hh, hf⟩ := fdReaddir_val cfg H s s' n buf len cookie used r h
  rcases hf with hf | ⟨d, dh, hp, p, hd, hdir, hpath, hl, hf⟩
  · exact InvW_of_frame hf hh hi
  · have hsrc : ∀ (i : Nat) (d' : Desc), s'.fds[i]? = some d' →
        ∃ e, s.fds[i]? = some e ∧ d'.path = e.path ∧ d'.fd = e.fd ∧ (i ≠ n → d' = e) ∧ (i = n → e = d) := by
      intro i d' hd'
      rw [hf] at hd'
      obtain ⟨e, he, hde⟩ := getElem?_modify_some _ _ _ _ _ hd'
      refine ⟨e, he, ?_, ?_, ?_, ?_⟩
      · subst hde; split <;> rfl
      · subst hde; split <;> rfl
      · intro hne; subst hde; simp [Ne.symm hne]
      · intro heq; subst heq; rw [hd] at he; cases he; rfl
    constructor
    · intro i d' h0 hd' hpath'
      obtain ⟨e, he, hpe, _, _, _⟩ := hsrc i d' hd'
      rw [hh]; rw [hpe] at hpath'; exact hi.valid i e h0 he hpath'
    · intro i j d1 d2 h0 hd1 hd2 hp1 hp2
      obtain ⟨e1, he1, hpe1, _, _, _⟩ := hsrc i d1 hd1
      obtain ⟨e2, he2, hpe2, _, _, _⟩ := hsrc j d2 hd2
      rw [hpe1] at hp1; rw [hpe2] at hp2
      exact hi.inj i j e1 e2 h0 he1 he2 hp1 hp2
    · intro i d' h0 hd' hpath' hfr
      obtain ⟨e, he, hpe, hfe, hne, heq⟩ := hsrc i d' hd'
      rw [hh] at hfr
      by_cases hin : i = n
      · -- the listed descriptor's path is live, so it is not freed
        have hed := heq hin
        subst hed
        rw [hpe, hpath] at hpath'
        cases hpath'
        rw [hl] at hfr; cases hfr
      · have hde := hne hin
        subst hde
        exact hi.freedClosed i d' h0 he hpath' hfr
    · intro i hi3
      rcases hi.std i hi3 with hs | hs
      · by_cases hin : i = n
        · -- descriptors 0–2 have no path, so they are never listed
          subst hin; rw [hd] at hs; cases hs; simp at hpath
        · left; rw [hf, List.getElem?_modify, hs]; simp [Ne.symm hin]
      · by_cases hin : i = n
        · subst hin; rw [hd] at hs; cases hs; simp [Desc.empty] at hpath
        · right; rw [hf, List.getElem?_modify, hs]; simp [Ne.symm hin]
    · intro i d' hd' hdir'
      obtain ⟨e, he, hpe, _, hne, heq⟩ := hsrc i d' hd'
      by_cases hin : i = n
      · have hed := heq hin
        subst hed
        rw [hpe, hpath]; simp
      · have hde := hne hin
        subst hde
        exact hi.dirPath i d' he hdir'

/-! ## path_open -/

/-- a returning `path_open` either leaves the table alone or appended exactly one descriptor -/
theorem pathOpen_val (cfg : Cfg) (H : Host σ) (s s' : St σ) (a b c d e f g hh i : Nat) (r : Res)
    (h : pathOpen cfg H s a b c d e f g hh i = .val (s', r)) :
    (s'.fds = s.fds ∧ s'.heap = s.heap ∧ s'.mem = s.mem) ∨
    (∃ h' nfd p s2 idx w', tableAdd { s with host := h' } nfd p = some (s2, idx) ∧
        s' = { s2 with mem := w'.mem } ∧ (⟨s.mem, []⟩ : MW).store i (leBytes 4 idx) = .val w' ∧
        r = .errno 0 w'.log) := by
  unfold pathOpen at h
  simp only at h
  split at h
  · cases h
  · cases h
  · cases h
  · cases h; exact Or.inl ⟨rfl, rfl, rfl⟩
  · rename_i p hpro
    unfold finishOpen at h
    split at h
    · cases h; exact Or.inl ⟨rfl, rfl, rfl⟩
    · cases h; exact Or.inl ⟨rfl, rfl, rfl⟩
    · rename_i h' nfd hop
      split at h
      · cases h; exact Or.inl ⟨rfl, rfl, rfl⟩
      · split at h
        · cases h; exact Or.inl ⟨rfl, rfl, rfl⟩
        · rename_i s2 idx hadd
          split at h
          · cases h
          · cases h
          · cases h
          · rename_i w' hst
            cases h
            exact Or.inr ⟨h', nfd, p, s2, idx, w', hadd, rfl, hst, rfl⟩

theorem InvW_pathOpen (cfg : Cfg) (H : Host σ) (s s' : St σ) (a b c d e f g hh i : Nat) (r : Res)
    (h : pathOpen cfg H s a b c d e f g hh i = .val (s', r)) (hi : InvW s) : InvW s' := by
  rcases pathOpen_val cfg H s s' a b c d e f g hh i r h with ⟨hf, hheap, _⟩ | ⟨h', nfd, p, s2, idx, w', hadd, hs', _, _⟩
  · exact InvW_of_frame hf hheap hi
  · have h1 : InvW ({ s with host := h' } : St σ) := @InvW_of_frame _ s { s with host := h' } rfl rfl hi
    have h2 : InvW s2 := InvW_tableAdd hadd h1
    subst hs'
    exact @InvW_of_frame _ s2 { s2 with mem := w'.mem } rfl rfl h2

/-! ## every call preserves the invariant -/

theorem step_InvW (cfg : Cfg) (H : Host σ) (abi : Abi) (s s' : St σ) (c : Call) (r : Res)
    (h : step cfg H abi s c = .val (s', r)) (hi : InvW s) : InvW s' := by
  cases c with
  | ro c =>
    obtain ⟨hf, hh⟩ := step_ro_frame cfg H abi s s' c r h
    exact InvW_of_frame hf hh hi
  | fdClose n => exact InvW_fdClose cfg H s s' n r h hi
  | fdReaddir n buf len cookie used => exact InvW_fdReaddir cfg H s s' n buf len cookie used r h hi
  | pathOpen a b c d e f g hh i => exact InvW_pathOpen cfg H s s' a b c d e f g hh i r h hi

theorem InvW_initTable (mem : Mem) (host : σ) : InvW (initTable mem host) := by
  constructor
  · intro i d h hd hp
    simp only [initTable, tableAddNoPath, List.nil_append, List.cons_append] at hd
    match i, hd with
    | 0, hd => simp at hd; subst hd; simp at hp
    | 1, hd => simp at hd; subst hd; simp at hp
    | 2, hd => simp at hd; subst hd; simp at hp
    | k + 3, hd => simp at hd
  · intro i j d d' h hd _ hp _
    simp only [initTable, tableAddNoPath, List.nil_append, List.cons_append] at hd
    match i, hd with
    | 0, hd => simp at hd; subst hd; simp at hp
    | 1, hd => simp at hd; subst hd; simp at hp
    | 2, hd => simp at hd; subst hd; simp at hp
    | k + 3, hd => simp at hd
  · intro i d h hd hp
    simp only [initTable, tableAddNoPath, List.nil_append, List.cons_append] at hd
    match i, hd with
    | 0, hd => simp at hd; subst hd; simp at hp
    | 1, hd => simp at hd; subst hd; simp at hp
    | 2, hd => simp at hd; subst hd; simp at hp
    | k + 3, hd => simp at hd
  · intro i hi3
    left
    simp only [initTable, tableAddNoPath, List.nil_append, List.cons_append]
    match i, hi3 with
    | 0, _ => rfl
    | 1, _ => rfl
    | 2, _ => rfl
  · intro i d hd hdir
    simp only [initTable, tableAddNoPath, List.nil_append, List.cons_append] at hd
    match i, hd with
    | 0, hd => simp at hd; subst hd; simp at hdir
    | 1, hd => simp at hd; subst hd; simp at hdir
    | 2, hd => simp at hd; subst hd; simp at hdir
    | k + 3, hd => simp at hd

theorem InvW_addPreopen (s : St σ) (path : Bytes) (hi : InvW s) : InvW (addPreopen s path) := by
  unfold addPreopen
  split
  · rename_i s' idx hadd; exact InvW_tableAdd hadd hi
  · exact hi

/-- the invariant along a whole history -/
theorem run_InvW (cfg : Cfg) (H : Host σ) (hist : List (Abi × Call)) :
    ∀ (s s' : St σ) (rs : List Res), run cfg H s hist = .val (s', rs) → InvW s → InvW s' := by
  induction hist with
  | nil => intro s s' rs h hi; simp [run] at h; obtain ⟨h1, _⟩ := h; subst h1; exact hi
  | cons ac rest ih =>
    intro s s' rs h hi
    obtain ⟨abi, c⟩ := ac
    simp only [run] at h
    cases hs : step cfg H abi s c with
    | val x =>
      obtain ⟨s1, r⟩ := x
      rw [hs] at h
      simp only [Out.bind_val] at h
      cases hr : run cfg H s1 rest with
      | val y =>
        obtain ⟨s2, rs2⟩ := y
        rw [hr] at h
        simp only [Out.bind_val, Out.val.injEq, Prod.mk.injEq] at h
        obtain ⟨h1, _⟩ := h
        subst h1
        exact ih s1 s2 rs2 hr (step_InvW cfg H abi s s1 c r hs hi)
      | trap t => rw [hr] at h; simp at h
      | ub k => rw [hr] at h; simp at h
      | oof => rw [hr] at h; simp at h
    | trap t => rw [hs] at h; simp at h
    | ub k => rw [hs] at h; simp at h
    | oof => rw [hs] at h; simp at h

/-! ## the strong invariant (needs `path = NULL` after `free`) -/

/-- every path stored in the table is live -/
def Live (s : St σ) : Prop :=
  ∀ (i : Nat) (d : Desc) (h : Nat), s.fds[i]? = some d → d.path = some h → ∃ p, s.heap[h]? = some (Cell.live p)

theorem InvS_iff (s : St σ) : InvS s ↔ InvW s ∧ Live s :=
  ⟨fun h => ⟨h.toInvW, h.live⟩, fun h => ⟨h.1, h.2⟩⟩

theorem Live_of_frame {s s' : St σ} (hf : s'.fds = s.fds) (hh : s'.heap = s.heap) (hl : Live s) : Live s' := by
  intro i d h; rw [hf, hh]; exact hl i d h

theorem Live_tableAdd {s s' : St σ} {fd : Int} {path : Bytes} {idx : Nat}
    (h : tableAdd s fd path = some (s', idx)) (hi : InvW s) (hl : Live s) : Live s' := by
  obtain ⟨_, hf, hh, _, _⟩ := tableAdd_spec s s' fd path idx h
  intro i d hp hd hpath
  rw [hf, getElem?_snoc] at hd
  rw [hh]
  rcases hd with ⟨_, hd⟩ | ⟨_, hd⟩
  · obtain ⟨p, hp'⟩ := hl i d hp hd hpath
    have hv := hi.valid i d hp hd hpath
    exact ⟨p, by rw [List.getElem?_append_left hv]; exact hp'⟩
  · subst hd
    have : s.heap.length = hp := by simpa using hpath
    subst this
    exact ⟨cstr path, by simp⟩

theorem Live_fdClose (cfg : Cfg) (hc : cfg.closeClearsPath = true) (H : Host σ) (s s' : St σ) (n : Nat) (r : Res)
    (h : fdClose cfg H s n = .val (s', r)) (hi : InvW s) (hl : Live s) : Live s' := by
  rcases fdClose_val cfg H s s' n r h with ⟨hf, hh, _, _⟩ | ⟨d, hd, _, _, hf, hheap⟩
  · exact Live_of_frame hf hh hl
  · intro i d' hp hd' hpath
    rw [hf] at hd'
    obtain ⟨e, he, hde⟩ := getElem?_modify_some _ _ _ _ _ hd'
    by_cases hin : n = i
    · subst hde; simp [hin, hc] at hpath
    · simp only [hin, ↓reduceIte] at hde
      subst hde
      obtain ⟨p, hp'⟩ := hl i d' hp he hpath
      rcases hheap with ⟨_, hh⟩ | ⟨hpp, q, hdp, _, hh⟩
      · exact ⟨p, by rw [hh]; exact hp'⟩
      · refine ⟨p, ?_⟩
        rw [hh, List.getElem?_set]
        by_cases heq : hpp = hp
        · subst heq
          exact absurd (hi.inj i n d' d hpp he hd hpath hdp).symm hin
        · simp [heq]; exact hp'

theorem Live_fdReaddir (cfg : Cfg) (H : Host σ) (s s' : St σ) (n buf len cookie used : Nat) (r : Res)
    (h : fdReaddir cfg H s n buf len cookie used = .val (s', r)) (hl : Live s) : Live s' := by
  obtain ⟨hh, hf⟩ := fdReaddir_val cfg H s s' n buf len cookie used r h
  rcases hf with hf | ⟨d, dh, hp, p, hd, hdir, hpath, hlv, hf⟩
  · exact Live_of_frame hf hh hl
  · intro i d' h0 hd' hpath'
    rw [hf] at hd'
    obtain ⟨e, he, hde⟩ := getElem?_modify_some _ _ _ _ _ hd'
    rw [hh]
    have : d'.path = e.path := by subst hde; split <;> rfl
    rw [this] at hpath'
    exact hl i e h0 he hpath'

theorem Live_pathOpen (cfg : Cfg) (H : Host σ) (s s' : St σ) (a b c d e f g hh i : Nat) (r : Res)
    (h : pathOpen cfg H s a b c d e f g hh i = .val (s', r)) (hi : InvW s) (hl : Live s) : Live s' := by
  rcases pathOpen_val cfg H s s' a b c d e f g hh i r h with ⟨hf, hheap, _⟩ | ⟨h', nfd, p, s2, idx, w', hadd, hs', _, _⟩
  · exact Live_of_frame hf hheap hl
  · have h1 : InvW ({ s with host := h' } : St σ) := @InvW_of_frame _ s { s with host := h' } rfl rfl hi
    have l1 : Live ({ s with host := h' } : St σ) := @Live_of_frame _ s { s with host := h' } rfl rfl hl
    have l2 : Live s2 := Live_tableAdd hadd h1 l1
    subst hs'
    exact @Live_of_frame _ s2 { s2 with mem := w'.mem } rfl rfl l2

theorem step_InvS (cfg : Cfg) (hc : cfg.closeClearsPath = true) (H : Host σ) (abi : Abi) (s s' : St σ)
    (c : Call) (r : Res) (h : step cfg H abi s c = .val (s', r)) (hi : InvS s) : InvS s' := by
  rw [InvS_iff] at hi ⊢
  refine ⟨step_InvW cfg H abi s s' c r h hi.1, ?_⟩
  cases c with
  | ro c =>
    obtain ⟨hf, hh⟩ := step_ro_frame cfg H abi s s' c r h
    exact Live_of_frame hf hh hi.2
  | fdClose n => exact Live_fdClose cfg hc H s s' n r h hi.1 hi.2
  | fdReaddir n buf len cookie used => exact Live_fdReaddir cfg H s s' n buf len cookie used r h hi.2
  | pathOpen a b c d e f g hh i => exact Live_pathOpen cfg H s s' a b c d e f g hh i r h hi.1 hi.2

theorem InvS_initTable (mem : Mem) (host : σ) : InvS (initTable mem host) := by
  rw [InvS_iff]
  refine ⟨InvW_initTable mem host, ?_⟩
  intro i d h hd hp
  simp only [initTable, tableAddNoPath, List.nil_append, List.cons_append] at hd
  match i, hd with
  | 0, hd => simp at hd; subst hd; simp at hp
  | 1, hd => simp at hd; subst hd; simp at hp
  | 2, hd => simp at hd; subst hd; simp at hp
  | k + 3, hd => simp at hd

theorem InvS_addPreopen (s : St σ) (path : Bytes) (hi : InvS s) : InvS (addPreopen s path) := by
  rw [InvS_iff] at hi ⊢
  unfold addPreopen
  split
  · rename_i s' idx hadd; exact ⟨InvW_tableAdd hadd hi.1, Live_tableAdd hadd hi.1 hi.2⟩
  · exact hi
