/-
  Lemmas.PoolStep — every transition of the worker pool preserves `Inv` (Lemmas/PoolInv.lean).
  One theorem per invariant field; each is a case analysis over the 36 program counters of the moving thread
  (t = 0: producer, t ≥ 1: worker) closed by `simp_all`/`grind` from the few fields it depends on.
-/
import W2c2Verif.Lemmas.PoolInv
namespace W2c2Verif.Model.Pool
open W2c2Verif.Model

macro "pool_extract" hs:ident : tactic => `(tactic| (
  (try split at $hs:ident) <;>
  (try simp only [List.mem_singleton, List.mem_map, Prod.mk.injEq, List.not_mem_nil] at $hs:ident) <;>
  (try (obtain ⟨c, hc, rfl, rfl⟩ := $hs:ident)) <;> (try (obtain ⟨rfl, rfl⟩ := $hs:ident)) <;>
  (try (have hsc := mem_signalChoices hc)) <;> (try (simp only [wake] at hc))))

macro "pool_finish" : tactic => `(tactic| (
  simp_all [upd_apply, PC.holds, PC.isWorker, PC.isProducer, PC.published, PC.inLoop, PC.afterLoop, b2n] <;> grind))

theorem tkseq_cons {tk : List Nat} (h : (List.range tk.length).reverse = tk) :
    (List.range (tk.length + 1)).reverse = tk.length :: tk := by
  rw [List.range_succ, List.reverse_append, h]; rfl

set_option maxHeartbeats 8000000 in
theorem step_role0 {cfg : Cfg} {g : Sh} {ls : Tid → Loc} (I : Inv cfg g ls) (t : Nat) (g' : Sh) (l' : Loc)
    (hs : (g', l') ∈ step true cfg t g (ls t)) :
    (upd ls t l' 0).pc.isProducer = true := by
  have h0 := I.role0
  rcases Nat.eq_zero_or_pos t with rfl | htpos
  · unfold step at hs
    cases hpc : (ls 0).pc <;> simp [hpc, PC.isProducer, PC.isWorker] at h0 <;> simp only [hpc] at hs <;>
      pool_extract hs <;> pool_finish
  · have hw := I.roleW t htpos
    have ht0 : t ≠ 0 := by omega
    unfold step at hs
    cases hpc : (ls t).pc <;> simp [hpc, PC.isWorker] at hw <;> simp only [hpc] at hs <;>
      pool_extract hs <;> pool_finish

set_option maxHeartbeats 8000000 in
theorem step_roleW {cfg : Cfg} {g : Sh} {ls : Tid → Loc} (I : Inv cfg g ls) (t : Nat) (g' : Sh) (l' : Loc)
    (hs : (g', l') ∈ step true cfg t g (ls t)) :
    ∀ u : Nat, 1 ≤ u → (upd ls t l' u).pc.isWorker = true := by
  intro u
  have h0 := I.role0
  have hroleW_u := I.roleW u
  rcases Nat.eq_zero_or_pos t with rfl | htpos
  · unfold step at hs
    cases hpc : (ls 0).pc <;> simp [hpc, PC.isProducer, PC.isWorker] at h0 <;> simp only [hpc] at hs <;>
      pool_extract hs <;> (by_cases hu : u = 0 <;> pool_finish)
  · have hw := I.roleW t htpos
    have ht0 : t ≠ 0 := by omega
    unfold step at hs
    cases hpc : (ls t).pc <;> simp [hpc, PC.isWorker] at hw <;> simp only [hpc] at hs <;>
      pool_extract hs <;> (by_cases hu : u = t <;> pool_finish)

set_option maxHeartbeats 8000000 in
theorem step_roleX {cfg : Cfg} {g : Sh} {ls : Tid → Loc} (I : Inv cfg g ls) (t : Nat) (g' : Sh) (l' : Loc)
    (hs : (g', l') ∈ step true cfg t g (ls t)) :
    ∀ u : Nat, cfg.N < u → (upd ls t l' u).pc = .wret := by
  intro u
  have h0 := I.role0
  have hroleX_u := I.roleX u
  have hroleX_t := I.roleX t
  rcases Nat.eq_zero_or_pos t with rfl | htpos
  · unfold step at hs
    cases hpc : (ls 0).pc <;> simp [hpc, PC.isProducer, PC.isWorker] at h0 <;> simp only [hpc] at hs <;>
      pool_extract hs <;> (by_cases hu : u = 0 <;> pool_finish)
  · have hw := I.roleW t htpos
    have ht0 : t ≠ 0 := by omega
    unfold step at hs
    cases hpc : (ls t).pc <;> simp [hpc, PC.isWorker] at hw <;> simp only [hpc] at hs <;>
      pool_extract hs <;> (by_cases hu : u = t <;> pool_finish)

set_option maxHeartbeats 8000000 in
theorem step_mx {cfg : Cfg} {g : Sh} {ls : Tid → Loc} (I : Inv cfg g ls) (t : Nat) (g' : Sh) (l' : Loc)
    (hs : (g', l') ∈ step true cfg t g (ls t)) :
    ∀ u : Nat, (upd ls t l' u).pc.holds = true ↔ g'.mutex = some u := by
  intro u
  have h0 := I.role0
  have hmx_t := I.mx t
  have hmx_u := I.mx u
  have hmx_0 := I.mx 0
  rcases Nat.eq_zero_or_pos t with rfl | htpos
  · unfold step at hs
    cases hpc : (ls 0).pc <;> simp [hpc, PC.isProducer, PC.isWorker] at h0 <;> simp only [hpc] at hs <;>
      pool_extract hs <;> (by_cases hu : u = 0 <;> pool_finish)
  · have hw := I.roleW t htpos
    have ht0 : t ≠ 0 := by omega
    unfold step at hs
    cases hpc : (ls t).pc <;> simp [hpc, PC.isWorker] at hw <;> simp only [hpc] at hs <;>
      pool_extract hs <;> (by_cases hu : u = t <;> pool_finish)

set_option maxHeartbeats 8000000 in
theorem step_cons {cfg : Cfg} {g : Sh} {ls : Tid → Loc} (I : Inv cfg g ls) (t : Nat) (g' : Sh) (l' : Loc)
    (hs : (g', l') ∈ step true cfg t g (ls t)) :
    ∀ u : Nat, u ∈ g'.consume → (upd ls t l' u).pc = .w3p := by
  intro u
  have h0 := I.role0
  have hcons_u := I.cons u
  have hcons_t := I.cons t
  rcases Nat.eq_zero_or_pos t with rfl | htpos
  · unfold step at hs
    cases hpc : (ls 0).pc <;> simp [hpc, PC.isProducer, PC.isWorker] at h0 <;> simp only [hpc] at hs <;>
      pool_extract hs <;> (by_cases hu : u = 0 <;> pool_finish)
  · have hw := I.roleW t htpos
    have ht0 : t ≠ 0 := by omega
    unfold step at hs
    cases hpc : (ls t).pc <;> simp [hpc, PC.isWorker] at hw <;> simp only [hpc] at hs <;>
      pool_extract hs <;> (by_cases hu : u = t <;> pool_finish)

set_option maxHeartbeats 8000000 in
theorem step_prod {cfg : Cfg} {g : Sh} {ls : Tid → Loc} (I : Inv cfg g ls) (t : Nat) (g' : Sh) (l' : Loc)
    (hs : (g', l') ∈ step true cfg t g (ls t)) :
    g'.produce = [] ∨ (g'.produce = [0] ∧ ((upd ls t l' 0).pc = .p3p ∨ (upd ls t l' 0).pc = .p10p)) := by
  have h0 := I.role0
  have hprod := I.prod
  rcases Nat.eq_zero_or_pos t with rfl | htpos
  · unfold step at hs
    cases hpc : (ls 0).pc <;> simp [hpc, PC.isProducer, PC.isWorker] at h0 <;> simp only [hpc] at hs <;>
      pool_extract hs <;> pool_finish
  · have hw := I.roleW t htpos
    have ht0 : t ≠ 0 := by omega
    unfold step at hs
    cases hpc : (ls t).pc <;> simp [hpc, PC.isWorker] at hw <;> simp only [hpc] at hs <;>
      pool_extract hs <;> pool_finish

set_option maxHeartbeats 8000000 in
theorem step_tkseq {cfg : Cfg} {g : Sh} {ls : Tid → Loc} (I : Inv cfg g ls) (t : Nat) (g' : Sh) (l' : Loc)
    (hs : (g', l') ∈ step true cfg t g (ls t)) :
    (List.range g'.tk.length).reverse = g'.tk := by
  have h0 := I.role0
  have htk := I.tkseq
  have htk2 := tkseq_cons I.tkseq
  have hslot := I.slot
  have hwk_t := I.wk t
  rcases Nat.eq_zero_or_pos t with rfl | htpos
  · unfold step at hs
    cases hpc : (ls 0).pc <;> simp [hpc, PC.isProducer, PC.isWorker] at h0 <;> simp only [hpc] at hs <;>
      pool_extract hs <;> pool_finish
  · have hw := I.roleW t htpos
    have ht0 : t ≠ 0 := by omega
    unfold step at hs
    cases hpc : (ls t).pc <;> simp [hpc, PC.isWorker] at hw <;> simp only [hpc] at hs <;>
      pool_extract hs <;> pool_finish

set_option maxHeartbeats 8000000 in
theorem step_slot {cfg : Cfg} {g : Sh} {ls : Tid → Loc} (I : Inv cfg g ls) (t : Nat) (g' : Sh) (l' : Loc)
    (hs : (g', l') ∈ step true cfg t g (ls t)) :
    g'.taskSet = true → g'.fa = g'.tk.length ∧ g'.fb = cfg.startOf g'.fa := by
  have h0 := I.role0
  have hslot := I.slot
  have hppc := I.ppc
  have hpub := I.pub
  have hwk_t := I.wk t
  have hmx_0 := I.mx 0
  have hmx_t := I.mx t
  rcases Nat.eq_zero_or_pos t with rfl | htpos
  · unfold step at hs
    cases hpc : (ls 0).pc <;> simp [hpc, PC.isProducer, PC.isWorker] at h0 <;> simp only [hpc] at hs <;>
      pool_extract hs <;> pool_finish
  · have hw := I.roleW t htpos
    have ht0 : t ≠ 0 := by omega
    unfold step at hs
    cases hpc : (ls t).pc <;> simp [hpc, PC.isWorker] at hw <;> simp only [hpc] at hs <;>
      pool_extract hs <;> pool_finish

set_option maxHeartbeats 8000000 in
theorem step_pub {cfg : Cfg} {g : Sh} {ls : Tid → Loc} (I : Inv cfg g ls) (t : Nat) (g' : Sh) (l' : Loc)
    (hs : (g', l') ∈ step true cfg t g (ls t)) :
    g'.tk.length + b2n g'.taskSet = (upd ls t l' 0).fi + b2n (upd ls t l' 0).pc.published := by
  have h0 := I.role0
  have hpub := I.pub
  have hppc := I.ppc
  have hwk_t := I.wk t
  have hmx_0 := I.mx 0
  have hmx_t := I.mx t
  rcases Nat.eq_zero_or_pos t with rfl | htpos
  · unfold step at hs
    cases hpc : (ls 0).pc <;> simp [hpc, PC.isProducer, PC.isWorker] at h0 <;> simp only [hpc] at hs <;>
      pool_extract hs <;> pool_finish
  · have hw := I.roleW t htpos
    have ht0 : t ≠ 0 := by omega
    unfold step at hs
    cases hpc : (ls t).pc <;> simp [hpc, PC.isWorker] at hw <;> simp only [hpc] at hs <;>
      pool_extract hs <;> pool_finish

set_option maxHeartbeats 8000000 in
theorem step_fiK {cfg : Cfg} {g : Sh} {ls : Tid → Loc} (I : Inv cfg g ls) (t : Nat) (g' : Sh) (l' : Loc)
    (hs : (g', l') ∈ step true cfg t g (ls t)) :
    (upd ls t l' 0).fi ≤ cfg.K ∧ ((upd ls t l' 0).pc.inLoop = true → (upd ls t l' 0).fi < cfg.K) ∧
    ((upd ls t l' 0).pc.afterLoop = true → (upd ls t l' 0).fi = cfg.K) := by
  have h0 := I.role0
  have hfiK := I.fiK
  rcases Nat.eq_zero_or_pos t with rfl | htpos
  · unfold step at hs
    cases hpc : (ls 0).pc <;> simp [hpc, PC.isProducer, PC.isWorker] at h0 <;> simp only [hpc] at hs <;>
      pool_extract hs <;> pool_finish
  · have hw := I.roleW t htpos
    have ht0 : t ≠ 0 := by omega
    unfold step at hs
    cases hpc : (ls t).pc <;> simp [hpc, PC.isWorker] at hw <;> simp only [hpc] at hs <;>
      pool_extract hs <;> pool_finish

set_option maxHeartbeats 8000000 in
theorem step_ppc {cfg : Cfg} {g : Sh} {ls : Tid → Loc} (I : Inv cfg g ls) (t : Nat) (g' : Sh) (l' : Loc)
    (hs : (g', l') ∈ step true cfg t g (ls t)) :
    ((((upd ls t l' 0).pc = .p3 ∨ (upd ls t l' 0).pc = .p10 ∨ (upd ls t l' 0).pc = .p6) → g'.taskSet = true) ∧
    (((upd ls t l' 0).pc = .p4a ∨ (upd ls t l' 0).pc = .p4b ∨ (upd ls t l' 0).pc = .p5 ∨ (upd ls t l' 0).pc = .p11) → g'.taskSet = false) ∧
    (((upd ls t l' 0).pc = .p4b ∨ (upd ls t l' 0).pc = .p5) → g'.fa = (upd ls t l' 0).fi) ∧
    ((upd ls t l' 0).pc = .p5 → g'.fb = cfg.startOf (upd ls t l' 0).fi)) := by
  have h0 := I.role0
  have hppc := I.ppc
  have hmx_0 := I.mx 0
  have hmx_t := I.mx t
  have hwk_t := I.wk t
  rcases Nat.eq_zero_or_pos t with rfl | htpos
  · unfold step at hs
    cases hpc : (ls 0).pc <;> simp [hpc, PC.isProducer, PC.isWorker] at h0 <;> simp only [hpc] at hs <;>
      pool_extract hs <;> pool_finish
  · have hw := I.roleW t htpos
    have ht0 : t ≠ 0 := by omega
    unfold step at hs
    cases hpc : (ls t).pc <;> simp [hpc, PC.isWorker] at hw <;> simp only [hpc] at hs <;>
      pool_extract hs <;> pool_finish

set_option maxHeartbeats 8000000 in
theorem step_dn1 {cfg : Cfg} {g : Sh} {ls : Tid → Loc} (I : Inv cfg g ls) (t : Nat) (g' : Sh) (l' : Loc)
    (hs : (g', l') ∈ step true cfg t g (ls t)) :
    g'.done = true → g'.taskSet = false ∧
    ((upd ls t l' 0).pc = .p12 ∨ (upd ls t l' 0).pc = .p13 ∨ (upd ls t l' 0).pc = .p14 ∨ (upd ls t l' 0).pc = .pend) := by
  have h0 := I.role0
  have hdn1 := I.dn1
  have hppc := I.ppc
  have hdn3 := I.dn3
  rcases Nat.eq_zero_or_pos t with rfl | htpos
  · unfold step at hs
    cases hpc : (ls 0).pc <;> simp [hpc, PC.isProducer, PC.isWorker] at h0 <;> simp only [hpc] at hs <;>
      pool_extract hs <;> pool_finish
  · have hw := I.roleW t htpos
    have ht0 : t ≠ 0 := by omega
    unfold step at hs
    cases hpc : (ls t).pc <;> simp [hpc, PC.isWorker] at hw <;> simp only [hpc] at hs <;>
      pool_extract hs <;> pool_finish

set_option maxHeartbeats 8000000 in
theorem step_dn2 {cfg : Cfg} {g : Sh} {ls : Tid → Loc} (I : Inv cfg g ls) (t : Nat) (g' : Sh) (l' : Loc)
    (hs : (g', l') ∈ step true cfg t g (ls t)) :
    ((upd ls t l' 0).pc = .p13 ∨ (upd ls t l' 0).pc = .p14 ∨ (upd ls t l' 0).pc = .pend) → g'.done = true ∧ g'.consume = [] := by
  have h0 := I.role0
  have hdn2 := I.dn2
  have hdn3 := I.dn3
  have hwk_t := I.wk t
  have hdn1 := I.dn1
  rcases Nat.eq_zero_or_pos t with rfl | htpos
  · unfold step at hs
    cases hpc : (ls 0).pc <;> simp [hpc, PC.isProducer, PC.isWorker] at h0 <;> simp only [hpc] at hs <;>
      pool_extract hs <;> pool_finish
  · have hw := I.roleW t htpos
    have ht0 : t ≠ 0 := by omega
    unfold step at hs
    cases hpc : (ls t).pc <;> simp [hpc, PC.isWorker] at hw <;> simp only [hpc] at hs <;>
      pool_extract hs <;> pool_finish

set_option maxHeartbeats 8000000 in
theorem step_dn3 {cfg : Cfg} {g : Sh} {ls : Tid → Loc} (I : Inv cfg g ls) (t : Nat) (g' : Sh) (l' : Loc)
    (hs : (g', l') ∈ step true cfg t g (ls t)) :
    (upd ls t l' 0).pc = .p12 → g'.done = true := by
  have h0 := I.role0
  have hdn3 := I.dn3
  have hdn1 := I.dn1
  rcases Nat.eq_zero_or_pos t with rfl | htpos
  · unfold step at hs
    cases hpc : (ls 0).pc <;> simp [hpc, PC.isProducer, PC.isWorker] at h0 <;> simp only [hpc] at hs <;>
      pool_extract hs <;> pool_finish
  · have hw := I.roleW t htpos
    have ht0 : t ≠ 0 := by omega
    unfold step at hs
    cases hpc : (ls t).pc <;> simp [hpc, PC.isWorker] at hw <;> simp only [hpc] at hs <;>
      pool_extract hs <;> pool_finish

set_option maxHeartbeats 8000000 in
theorem step_ret1 {cfg : Cfg} {g : Sh} {ls : Tid → Loc} (I : Inv cfg g ls) (t : Nat) (g' : Sh) (l' : Loc)
    (hs : (g', l') ∈ step true cfg t g (ls t)) :
    ∀ u : Nat, u ∈ g'.returned → (upd ls t l' u).pc = .wret := by
  intro u
  have h0 := I.role0
  have hret1_u := I.ret1 u
  have hret1_t := I.ret1 t
  rcases Nat.eq_zero_or_pos t with rfl | htpos
  · unfold step at hs
    cases hpc : (ls 0).pc <;> simp [hpc, PC.isProducer, PC.isWorker] at h0 <;> simp only [hpc] at hs <;>
      pool_extract hs <;> (by_cases hu : u = 0 <;> pool_finish)
  · have hw := I.roleW t htpos
    have ht0 : t ≠ 0 := by omega
    unfold step at hs
    cases hpc : (ls t).pc <;> simp [hpc, PC.isWorker] at hw <;> simp only [hpc] at hs <;>
      pool_extract hs <;> (by_cases hu : u = t <;> pool_finish)

set_option maxHeartbeats 8000000 in
theorem step_ret2 {cfg : Cfg} {g : Sh} {ls : Tid → Loc} (I : Inv cfg g ls) (t : Nat) (g' : Sh) (l' : Loc)
    (hs : (g', l') ∈ step true cfg t g (ls t)) :
    ∀ u : Nat, 1 ≤ u → u ≤ cfg.N → (upd ls t l' u).pc = .wret → u ∈ g'.returned ∧ g'.done = true := by
  intro u
  have h0 := I.role0
  have hret2_u := I.ret2 u
  have hwk_t := I.wk t
  have hret2_t := I.ret2 t
  rcases Nat.eq_zero_or_pos t with rfl | htpos
  · unfold step at hs
    cases hpc : (ls 0).pc <;> simp [hpc, PC.isProducer, PC.isWorker] at h0 <;> simp only [hpc] at hs <;>
      pool_extract hs <;> (by_cases hu : u = 0 <;> pool_finish)
  · have hw := I.roleW t htpos
    have ht0 : t ≠ 0 := by omega
    unfold step at hs
    cases hpc : (ls t).pc <;> simp [hpc, PC.isWorker] at hw <;> simp only [hpc] at hs <;>
      pool_extract hs <;> (by_cases hu : u = t <;> pool_finish)

set_option maxHeartbeats 8000000 in
theorem step_join {cfg : Cfg} {g : Sh} {ls : Tid → Loc} (I : Inv cfg g ls) (t : Nat) (g' : Sh) (l' : Loc)
    (hs : (g', l') ∈ step true cfg t g (ls t)) :
    ((upd ls t l' 0).pc = .p14 → 1 ≤ (upd ls t l' 0).j ∧ ∀ w : Nat, 1 ≤ w → w < (upd ls t l' 0).j → w ∈ g'.returned) ∧
    ((upd ls t l' 0).pc = .pend → ∀ w : Nat, 1 ≤ w → w ≤ cfg.N → w ∈ g'.returned) := by
  have h0 := I.role0
  have hjoin := I.join
  have hroleX_t := I.roleX t
  rcases Nat.eq_zero_or_pos t with rfl | htpos
  · unfold step at hs
    cases hpc : (ls 0).pc <;> simp [hpc, PC.isProducer, PC.isWorker] at h0 <;> simp only [hpc] at hs <;>
      pool_extract hs <;> pool_finish
  · have hw := I.roleW t htpos
    have ht0 : t ≠ 0 := by omega
    unfold step at hs
    cases hpc : (ls t).pc <;> simp [hpc, PC.isWorker] at hw <;> simp only [hpc] at hs <;>
      pool_extract hs <;> pool_finish

set_option maxHeartbeats 8000000 in
theorem step_wk {cfg : Cfg} {g : Sh} {ls : Tid → Loc} (I : Inv cfg g ls) (t : Nat) (g' : Sh) (l' : Loc)
    (hs : (g', l') ∈ step true cfg t g (ls t)) :
    ∀ u : Nat, ((upd ls t l' u).pc = .w3 → g'.taskSet = false ∧ g'.done = false) ∧
    ((upd ls t l' u).pc = .w4 → g'.done = true ∨ g'.taskSet = true) ∧
    ((upd ls t l' u).pc = .w5 → g'.done = true) ∧
    (((upd ls t l' u).pc = .w6a ∨ (upd ls t l' u).pc = .w6b ∨ (upd ls t l' u).pc = .w7) → g'.taskSet = true) ∧
    (((upd ls t l' u).pc = .w6b ∨ (upd ls t l' u).pc = .w7) → (upd ls t l' u).la = g'.fa) ∧
    ((upd ls t l' u).pc = .w7 → (upd ls t l' u).lb = g'.fb) ∧
    (((upd ls t l' u).pc = .w8 ∨ (upd ls t l' u).pc = .w9) → (upd ls t l' u).lb = cfg.startOf (upd ls t l' u).la) := by
  intro u
  have h0 := I.role0
  have hwk_u := I.wk u
  have hwk_t := I.wk t
  have hmx_u := I.mx u
  have hmx_t := I.mx t
  have hmx_0 := I.mx 0
  have hslot := I.slot
  have hppc := I.ppc
  have hdn1 := I.dn1
  rcases Nat.eq_zero_or_pos t with rfl | htpos
  · unfold step at hs
    cases hpc : (ls 0).pc <;> simp [hpc, PC.isProducer, PC.isWorker] at h0 <;> simp only [hpc] at hs <;>
      pool_extract hs <;> (by_cases hu : u = 0 <;> by_cases hh : (ls u).pc.holds = true <;> pool_finish)
  · have hw := I.roleW t htpos
    have ht0 : t ≠ 0 := by omega
    unfold step at hs
    cases hpc : (ls t).pc <;> simp [hpc, PC.isWorker] at hw <;> simp only [hpc] at hs <;>
      pool_extract hs <;> (by_cases hu : u = t <;> by_cases hh : (ls u).pc.holds = true <;> pool_finish)

set_option maxHeartbeats 8000000 in
theorem step_exv {cfg : Cfg} {g : Sh} {ls : Tid → Loc} (I : Inv cfg g ls) (t : Nat) (g' : Sh) (l' : Loc)
    (hs : (g', l') ∈ step true cfg t g (ls t)) :
    ∀ e, e ∈ g'.ex → e.2.2 = cfg.startOf e.2.1 ∧ 1 ≤ e.1 ∧ e.1 ≤ cfg.N := by
  have h0 := I.role0
  have hexv := I.exv
  have hwk_t := I.wk t
  have hroleX_t := I.roleX t
  rcases Nat.eq_zero_or_pos t with rfl | htpos
  · unfold step at hs
    cases hpc : (ls 0).pc <;> simp [hpc, PC.isProducer, PC.isWorker] at h0 <;> simp only [hpc] at hs <;>
      pool_extract hs <;> pool_finish
  · have hw := I.roleW t htpos
    have ht0 : t ≠ 0 := by omega
    unfold step at hs
    cases hpc : (ls t).pc <;> simp [hpc, PC.isWorker] at hw <;> simp only [hpc] at hs <;>
      pool_extract hs <;> pool_finish

/-- every transition preserves the invariant -/
theorem inv_step {cfg : Cfg} {g : Sh} {ls : Tid → Loc} (I : Inv cfg g ls) (t : Nat) (g' : Sh) (l' : Loc)
    (hs : (g', l') ∈ step true cfg t g (ls t)) : Inv cfg g' (upd ls t l') :=
  { role0 := step_role0 I t g' l' hs, roleW := step_roleW I t g' l' hs, roleX := step_roleX I t g' l' hs,
    mx := step_mx I t g' l' hs, cons := step_cons I t g' l' hs, prod := step_prod I t g' l' hs,
    tkseq := step_tkseq I t g' l' hs, slot := step_slot I t g' l' hs, pub := step_pub I t g' l' hs,
    fiK := step_fiK I t g' l' hs, ppc := step_ppc I t g' l' hs, dn1 := step_dn1 I t g' l' hs,
    dn2 := step_dn2 I t g' l' hs, dn3 := step_dn3 I t g' l' hs, ret1 := step_ret1 I t g' l' hs,
    ret2 := step_ret2 I t g' l' hs, join := step_join I t g' l' hs, wk := step_wk I t g' l' hs,
    exv := step_exv I t g' l' hs }

theorem inv_reach {cfg : Cfg} {s : Sh × (Tid → Loc)} (hr : Reachable cfg s) : Inv cfg s.1 s.2 := by
  induction hr with
  | init => exact inv_init cfg
  | step t g' l' _ hs ih => exact inv_step ih t g' l' hs

end W2c2Verif.Model.Pool
