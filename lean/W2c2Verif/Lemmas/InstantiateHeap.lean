/-
  Lemmas.InstantiateHeap — element-wise copies into heap objects, and sequences of such copies, compute
  "the last covering segment wins" (for any number of possibly overlapping segments).
-/
import W2c2Verif.Spec.Instantiate

namespace W2c2Verif.Model.Inst
open W2c2Verif Spec.Inst

theorem writeArr_size {α} (xs : List α) : ∀ (a : Array α) (off : Nat), (writeArr a off xs).size = a.size := by
  intro a off
  unfold writeArr
  generalize xs.zipIdx = l
  induction l generalizing a with
  | nil => rfl
  | cons x rest ih => simp only [List.foldl_cons]; rw [ih]; simp

/-- writing `xs` with running index starting at `start` -/
theorem writeArr_aux {α} (off : Nat) (xs : List α) : ∀ (start : Nat) (a : Array α) (k : Nat),
    ((xs.zipIdx start).foldl (fun a (x : α × Nat) => a.setIfInBounds (off + x.2) x.1) a)[k]? =
      (a[k]?).map (fun b => if off + start ≤ k ∧ k < off + start + xs.length then (xs[k - (off + start)]?).getD b else b) := by
  induction xs with
  | nil => intro start a k; simp
  | cons x rest ih =>
    intro start a k
    simp only [List.zipIdx_cons, List.foldl_cons]
    rw [ih (start + 1) _ k, Array.getElem?_setIfInBounds]
    by_cases hk : k < a.size
    · have hka : a[k]? = some a[k] := Array.getElem?_eq_getElem hk
      by_cases h3 : off + start = k
      · have h1 : ¬ (off + (start + 1) ≤ k ∧ k < off + (start + 1) + rest.length) := by omega
        have h2 : off + start ≤ k ∧ k < off + start + (x :: rest).length := by simp; omega
        have h4 : off + start < a.size := by omega
        have e : k - (off + start) = 0 := by omega
        rw [if_pos h3, if_pos h4, hka]
        simp only [Option.map_some, if_neg h1, if_pos h2, e]
        simp
      · rw [if_neg h3, hka]
        by_cases h1 : off + (start + 1) ≤ k ∧ k < off + (start + 1) + rest.length
        · have h2 : off + start ≤ k ∧ k < off + start + (x :: rest).length := by simp; omega
          have e : k - (off + start) = (k - (off + (start + 1))) + 1 := by omega
          simp only [Option.map_some, if_pos h1, if_pos h2, e]
          simp
        · have h2 : ¬ (off + start ≤ k ∧ k < off + start + (x :: rest).length) := by simp at h1 ⊢; omega
          simp only [Option.map_some, if_neg h1, if_neg h2]
    · have hka : a[k]? = none := by simp at hk; simp [hk]
      by_cases h3 : off + start = k
      · have h4 : ¬ off + start < a.size := by omega
        rw [if_pos h3, if_neg h4, hka]; rfl
      · rw [if_neg h3, hka]; rfl

theorem writeArr_get {α} (a : Array α) (off : Nat) (xs : List α) (k : Nat) :
    (writeArr a off xs)[k]? = (a[k]?).map (fun b => ((Seg.mk off xs).at k).getD b) := by
  unfold writeArr
  rw [writeArr_aux off xs 0 a k]
  congr 1
  funext b
  simp only [Nat.add_zero, Seg.at]
  split <;> simp

/-! ## heap writes -/

def objSize {α} (h : List (Array α)) (p : Nat) : Option Nat := (h[p]?).map (·.size)

theorem heapWrite_ok {α} (h : List (Array α)) (p off : Nat) (xs : List α) (sz : Nat)
    (hs : objSize h p = some sz) (hf : off + xs.length ≤ sz) :
    ∃ a, h[p]? = some a ∧ heapWrite h p off xs = .val (h.set p (writeArr a off xs)) := by
  unfold objSize at hs
  cases hp : h[p]? with
  | none => simp [hp] at hs
  | some a =>
    simp [hp] at hs
    refine ⟨a, rfl, ?_⟩
    unfold heapWrite
    simp [hp, hs, hf]

theorem cell_set {α} (h : List (Array α)) (p : Nat) (a a' : Array α) (hp : h[p]? = some a) (q k : Nat) :
    cell (h.set p a') q k = if q = p then a'[k]? else cell h q k := by
  unfold cell
  rw [List.getElem?_set]
  have hlt : p < h.length := by
    cases Nat.lt_or_ge p h.length with
    | inl h1 => exact h1
    | inr h1 => simp [List.getElem?_eq_none h1] at hp
  by_cases hq : p = q
  · subst hq; simp [hlt]
  · have : ¬ q = p := fun e => hq e.symm
    simp [hq, this]

theorem objSize_set {α} (h : List (Array α)) (p : Nat) (a a' : Array α) (hp : h[p]? = some a) (hsz : a'.size = a.size) (q : Nat) :
    objSize (h.set p a') q = objSize h q := by
  unfold objSize
  rw [List.getElem?_set]
  by_cases hq : p = q
  · subst hq
    have hlt : p < h.length := by
      cases Nat.lt_or_ge p h.length with
      | inl h1 => exact h1
      | inr h1 => simp [List.getElem?_eq_none h1] at hp
    have e : h[p] = a := by
      have := List.getElem?_eq_getElem hlt
      rw [hp] at this; exact (Option.some.inj this).symm
    simp [hlt, hsz, e]
  · simp [hq]

/-- a sequence of element-wise copies `(object, offset, items)` -/
def writeAll {α} (h : List (Array α)) (ws : List (Nat × Nat × List α)) : Out (List (Array α)) :=
  foldM' (fun h w => heapWrite h w.1 w.2.1 w.2.2) h ws

def segsFor {α} (ws : List (Nat × Nat × List α)) (q : Nat) : List (Seg α) :=
  ws.filterMap fun w => if w.1 = q then some ⟨w.2.1, w.2.2⟩ else none

theorem writeAll_spec {α} (ws : List (Nat × Nat × List α)) : ∀ (h : List (Array α)),
    (∀ w ∈ ws, ∃ sz, objSize h w.1 = some sz ∧ w.2.1 + w.2.2.length ≤ sz) →
    ∃ h', writeAll h ws = .val h' ∧ h'.length = h.length ∧ (∀ q, objSize h' q = objSize h q) ∧
      ∀ q k, cell h' q k = (cell h q k).map (fun b => lastCover (segsFor ws q) b k) := by
  induction ws with
  | nil =>
    intro h _
    refine ⟨h, rfl, rfl, fun _ => rfl, ?_⟩
    intro q k; simp [segsFor, lastCover]
  | cons w rest ih =>
    intro h hok
    obtain ⟨sz, hs, hf⟩ := hok w (by simp)
    obtain ⟨a, hp, hw⟩ := heapWrite_ok h w.1 w.2.1 w.2.2 sz hs hf
    have hsize : ∀ q, objSize (h.set w.1 (writeArr a w.2.1 w.2.2)) q = objSize h q :=
      objSize_set h w.1 a _ hp (writeArr_size _ _ _)
    obtain ⟨h', hr, hl, hsz', hcell⟩ := ih (h.set w.1 (writeArr a w.2.1 w.2.2)) (by
      intro w' hw'
      obtain ⟨sz', hs', hf'⟩ := hok w' (by simp [hw'])
      exact ⟨sz', by rw [hsize]; exact hs', hf'⟩)
    refine ⟨h', ?_, ?_, ?_, ?_⟩
    · simp only [writeAll, foldM'] at hr ⊢
      rw [hw]; simpa using hr
    · rw [hl]; simp
    · intro q; rw [hsz', hsize]
    · intro q k
      rw [hcell, cell_set h w.1 a _ hp]
      by_cases hq : q = w.1
      · subst hq
        have hc : cell h w.1 k = a[k]? := by simp [cell, hp]
        simp only [if_true, writeArr_get, hc, segsFor, List.filterMap_cons, lastCover, List.foldl_cons, Option.map_map]
        congr 1
      · have hq' : ¬ w.1 = q := fun e => hq e.symm
        simp [hq, hq', segsFor]

end W2c2Verif.Model.Inst
