/-
  Lemmas.SimFunc — from the simulation of bodies to whole functions: parameters, zero-initialised
  locals, the function label `L0` and the `return s<t>0;` epilogue.
-/
import W2c2Verif.Lemmas.SimInstr
set_option linter.unusedSimpArgs false
set_option linter.unusedVariables false
namespace W2c2Verif.Sim
open W2c2Verif Model Gen Spec

theorem vtOf_zeroVal (t : VT) : vtOf (zeroVal t) = t := by cases t <;> rfl

theorem locTyped_init (ctx : Ctx) (params locals : List VT) (args : List Val) (g : GS) (hargs : args.map vtOf = params)
    (hg : GTyped ctx g) :
    LocTyped { ctx with localTypes := params ++ locals } (initLocals locals args g) := by
  have hlen : args.length = params.length := by rw [← hargs]; simp
  refine ⟨by simp [initLocals, hlen], fun k h h' => ?_, hg⟩
  simp only [initLocals] at h ⊢
  by_cases hk : k < args.length
  · have e1 : (args ++ locals.map zeroVal)[k] = args[k] := List.getElem_append_left hk
    have e2 : (params ++ locals)[k]'h' = params[k]'(by omega) := List.getElem_append_left (by omega)
    rw [e1]
    show _ = (params ++ locals)[k]
    rw [e2]
    have : (args.map vtOf)[k]'(by simp; exact hk) = vtOf args[k] := by simp
    rw [← this]
    simp only [hargs]
  · have hk' : args.length ≤ k := by omega
    have e1 : (args ++ locals.map zeroVal)[k] = (locals.map zeroVal)[k - args.length]'(by simp at h ⊢; omega) :=
      List.getElem_append_right hk'
    have e2 : (params ++ locals)[k]'h' = locals[k - params.length]'(by simp at h'; omega) := List.getElem_append_right (by omega)
    rw [e1]
    show _ = (params ++ locals)[k]
    rw [e2]
    simp only [List.getElem_map, vtOf_zeroVal, hlen]

def s0Func (result : Option VT) : St := { labels := [⟨0, 0, result⟩], next := 1 }

theorem wf_s0Func (result : Option VT) : WF (s0Func result) := by
  refine ⟨by simp [s0Func], ?_, ?_, by simp [s0Func], by simp [s0Func]⟩
  · intro lab hm; simp [s0Func] at hm; subst hm; simp
  · intro lab hm; simp [s0Func] at hm; subst hm; simp [s0Func]

theorem func_sim (ns : NumSem) (hns : NumOK ns) (hmo : MemOK ns) (ctx : Ctx) (params locals : List VT) (result : Option VT) (body : List EInstr)
    (cf : Model.CFunc) (args : List Val) (g : GS) (fuel : Nat)
    (hco : CallOK ns { ctx with localTypes := params ++ locals })
    (hc : compileFunc ctx params locals result body = .ok cf) (hargs : args.map vtOf = params) (hg : GTyped ctx g) :
    match runFuncSrc ns fuel locals result body args g with
    | .value v g' => runFuncTgt ns fuel cf args g = .value v g' ∧ GTyped ctx g'
    | .trap t => runFuncTgt ns fuel cf args g = .trap t
    | _ => True := by
  unfold compileFunc at hc
  simp only [bind, Except.bind] at hc
  split at hc
  · cases hc
  · rename_i res hcb
    obtain ⟨s1, out, dead⟩ := res
    simp only [] at hc
    split at hc
    · cases hc
    · rename_i hchk
      have hfin := check_of_not hchk
      have hw0 := wf_s0Func result
      have hlt := locTyped_init ctx params locals args g hargs hg
      have hsim := (sim_all ns hns hmo { ctx with localTypes := params ++ locals } hco fuel).1 body (s0Func result) s1 out dead [] (initLocals locals args g)
        (initMSt locals args g) hcb hw0 (Rel.nil _) rfl hlt
      -- the emitted function
      have hcf : cf.localTypes = locals ∧ cf.body = out ∧ cf.result = result ∧
          (∀ rt, result = some rt → 1 ≤ s1.declLen → cf.returnsSlot = true) := by
        cases result with
        | none => simp only [] at hc; injection hc with hc; subst hc; exact ⟨rfl, rfl, rfl, fun rt h => by cases h⟩
        | some rt =>
          simp only [] at hc
          split at hc
          · injection hc with hc; subst hc; exact ⟨rfl, rfl, rfl, fun _ _ _ => rfl⟩
          · rename_i hdl
            injection hc with hc; subst hc
            exact ⟨rfl, rfl, rfl, fun _ _ h => by omega⟩
      obtain ⟨e1, e2, e3, e4⟩ := hcf
      have hlab0 : (s0Func result).label 0 = some ⟨0, 0, result⟩ := by simp [s0Func, St.label]
      have hlabs0 : (s0Func result).labels[0]? = some ⟨0, 0, result⟩ := by simp [s0Func]
      unfold runFuncSrc runFuncTgt
      rw [e1, e2]
      -- a value carried to the function label
      have hjump : ∀ (stkB : List Val) (locB : Store) (σ' : MSt), LocTyped { ctx with localTypes := params ++ locals } locB →
          JumpOK ⟨0, 0, result⟩ (s0Func result).base [] stkB locB (initMSt locals args g) σ' → (result.isSome → 1 ≤ s1.declLen) →
          (match (match result with | none => FRes.value none locB.g | some _ => (match stkB.getLast? with | some v => FRes.value (some v) locB.g | none => .stuck)) with
            | .value v g' => tgtFinish cf (.jump 0 σ') = .value v g' ∧ GTyped ctx g'
            | .trap t => tgtFinish cf (.jump 0 σ') = .trap t
            | _ => True) := by
        intro stkB locB σ' hltB hj hd
        obtain ⟨j1, j2, j3, j4, j5⟩ := hj
        have hgB : GTyped ctx locB.g := hltB.glob
        cases result with
        | none => simp only [tgtFinish, e3, j1]; exact ⟨trivial, hgB⟩
        | some rt =>
          obtain ⟨v, hv1, hv2⟩ := j5 rt rfl
          simp only [hv1]
          have hret := e4 rt rfl (hd rfl)
          simp only [tgtFinish, e3, hret, if_true, j1]
          exact ⟨congrArg (fun x => FRes.value (some x) locB.g) hv2, hgB⟩
      cases hres : erunSeq ns fuel body [] (initLocals locals args g) with
      | oof => trivial
      | stuck => trivial
      | trap t =>
        rw [hres] at hsim
        simp only [SimRes] at hsim
        simp only [srcFinish, hsim, tgtFinish]
      | normal stk' loc' =>
        rw [hres] at hsim
        obtain ⟨h1, h2, h3, h4, h5, σ', h6, h7, h8, h9, h10⟩ := hsim
        have hst := hfin h1
        rw [h6]
        have hgB : GTyped ctx loc'.g := h5.glob
        cases result with
        | none => simp only [srcFinish, tgtFinish, e3, h8]; exact ⟨trivial, hgB⟩
        | some rt =>
          simp only [Option.toList] at hst
          rw [hst] at h7
          have hlen := h7.length
          match stk', h7, hlen with
          | [v], h7, _ =>
            have hv := h7.get 0 (by simp)
            have hdl : 1 ≤ s1.declLen := by have := h2.decl; rw [hst] at this; simpa using this
            have hret := e4 rt rfl hdl
            simp only [srcFinish, List.getLast?_singleton, tgtFinish, e3, hret, if_true, h8]
            exact ⟨congrArg (fun x => FRes.value (some x) loc'.g) (by simpa using hv), hgB⟩
      | branch l stkB locB =>
        cases l with
        | succ l => trivial
        | zero =>
          rw [hres] at hsim
          obtain ⟨h0, lab, σ', h1, h2, h3, h4⟩ := hsim
          rw [hlab0] at h1; injection h1 with h1; subst h1
          rw [h2]
          exact hjump stkB locB σ' h0 h3 h4
      | ret stkB locB =>
        rw [hres] at hsim
        obtain ⟨h0, lab, σ', h1, h2, h3, h4⟩ := hsim
        rw [hlabs0] at h1; injection h1 with h1; subst h1
        rw [h2]
        exact hjump stkB locB σ' h0 h3 h4

end W2c2Verif.Sim
