/-
  Lemmas.FilesClean — what the extracted clean predicate (Gen.Files.cleanSteps over
  Gen.Files.globPattern) computes, for every byte string.
-/
import W2c2Verif.Lemmas.Files

namespace W2c2Verif.Lemmas.Files
open W2c2Verif W2c2Verif.Model.Files W2c2Verif.Gen.Files

def firstOk : Name → Bool
  | c :: _ => decide (c = 100) || decide (c = 115)
  | [] => false

theorem evalSteps_cons (sg : Bool) (name : Name) (s : CleanStep) (rest : List CleanStep) (b : Bool)
    (h : evalStep sg name s = .val b) :
    evalSteps sg name (s :: rest) = if b then .val false else evalSteps sg name rest := by
  simp only [evalSteps, h]
  cases b <;> rfl

theorem evalSteps_clean13 (sg : Bool) (c : UInt8) (rest : List UInt8) (hr : rest.length = 12) :
    evalSteps sg (c :: rest) cleanSteps =
      .val ((decide (c = 100) || decide (c = 115)) && (rest.take 10).all isDigit) := by
  have hl : (c :: rest).length = 13 := by simp [hr]
  have hfun : evalCond sg (.or (.cmp .lt 48) (.cmp .gt 57)) = fun x => !isDigit x := funext (notDigit_cond sg)
  have hscan := scan_lt sg (c :: rest) (.or (.cmp .lt 48) (.cmp .gt 57)) 11 (by omega) 15 1 (by omega)
  have hb : (13 + sizeMod - 2) % sizeMod = 11 := by decide
  have s1 : evalStep sg (c :: rest) (.rejectIfLen .ne 13) = .val false := by
    simp only [evalStep, hl, cmpInt]; rfl
  have s2 : evalStep sg (c :: rest) (.rejectIfCharAt 0 (.and (.cmp .ne 100) (.cmp .ne 115)))
      = .val (!(decide (c = 100) || decide (c = 115))) := by
    simp only [evalStep, charAt_lt (c :: rest) 0 (by omega), firstChar_cond]; rfl
  have s3 : evalStep sg (c :: rest) (.rejectIfAnyInRange 1 .lt 2 (.or (.cmp .lt 48) (.cmp .gt 57)))
      = .val (!((rest.take 10).all isDigit)) := by
    simp only [evalStep, hl, hb]
    show scan sg (c :: rest) _ .lt 11 15 1 = _
    rw [hscan, hfun]
    simp only [List.drop_succ_cons, List.drop_zero]
    rw [List.all_eq_not_any_not, Bool.not_not]
  show evalSteps sg (c :: rest) [.rejectIfLen .ne 13, .rejectIfCharAt 0 (.and (.cmp .ne 100) (.cmp .ne 115)),
    .rejectIfAnyInRange 1 .lt 2 (.or (.cmp .lt 48) (.cmp .gt 57))] = _
  rw [evalSteps_cons _ _ _ _ _ s1, evalSteps_cons _ _ _ _ _ s2, evalSteps_cons _ _ _ _ _ s3]
  cases (decide (c = 100) || decide (c = 115)) <;> cases (rest.take 10).all isDigit <;> rfl

/-- the three extracted tests, evaluated on an arbitrary name: never UB, and equal to
    "length 13, first byte d|s, bytes 1..10 digits" -/
theorem evalSteps_clean (sg : Bool) (name : Name) :
    evalSteps sg name cleanSteps =
      .val (decide (name.length = 13) && firstOk name && ((name.drop 1).take 10).all isDigit) := by
  by_cases hlen : name.length = 13
  · match name, hlen with
    | c :: rest, hlen =>
      have hr : rest.length = 12 := by simpa using hlen
      rw [evalSteps_clean13 sg c rest hr]
      simp [hr, firstOk]
  · have hc : cmpInt .ne (name.length : Int) ((13 : Nat) : Int) = true := by
      simp only [cmpInt, decide_eq_true_eq]; omega
    have s1 : evalStep sg name (.rejectIfLen .ne 13) = .val true := by
      simp only [evalStep, hc]
    show evalSteps sg name (.rejectIfLen .ne 13 :: _) = _
    rw [evalSteps_cons _ _ _ _ _ s1]
    simp [hlen]

theorem cleanDecision_val (sg : Bool) (name : Name) :
    cleanDecision sg name = .val (globMatch globPattern name && decide (name.length = 13) && firstOk name &&
      ((name.drop 1).take 10).all isDigit) := by
  unfold cleanDecision
  rw [evalSteps_clean]
  cases globMatch globPattern name <;> simp

theorem cleanAccept_eq (sg : Bool) (name : Name) :
    cleanAccept sg name = (globMatch globPattern name && decide (name.length = 13) && firstOk name &&
      ((name.drop 1).take 10).all isDigit) := by
  unfold cleanAccept
  rw [cleanDecision_val]

/-! ## the scan flag: the stateful fold equals the stateless loop

  These lemmas are re-checked against the regenerated `Gen.Files.cleanScanFlagCarried`: they hold because the loop body
  re-initialises the flag for every entry (`none`).  If the source only initialises it at its declaration, `entryFlag_true`
  fails, and with it everything that says WHICH names a clean run removes. -/

/-- every directory entry starts its tests with the flag set, whatever the previous entry left in it -/
theorem entryFlag_true (f : Bool) : entryFlag f = true := by
  cases f <;> rfl

theorem evalStepF_true (sg : Bool) (name : Name) (s : CleanStep) (b : Bool) (h : evalStep sg name s = .val b) :
    ∃ f', evalStepF sg name true s = .val (b, f') ∧ (b = false → f' = true) := by
  cases s with
  | rejectIfLen op k => exact ⟨true, by simp only [evalStepF, h], fun _ => rfl⟩
  | rejectIfCharAt i c => exact ⟨true, by simp only [evalStepF, h], fun _ => rfl⟩
  | rejectIfAnyInRange start op minus c =>
    simp only [evalStep] at h
    cases b with
    | true => exact ⟨false, by simp [evalStepF, h], fun h => by cases h⟩
    | false => exact ⟨true, by simp [evalStepF, h], fun _ => rfl⟩

/-- started with the flag set, the flag-threading tests decide exactly like the stateless ones (for ANY list of steps) -/
theorem evalStepsF_true (sg : Bool) (name : Name) : ∀ (steps : List CleanStep) (b : Bool),
    evalSteps sg name steps = .val b → ∃ f', evalStepsF sg name steps true = .val (b, f')
  | [], b, h => by
    simp only [evalSteps] at h
    cases h
    exact ⟨true, rfl⟩
  | s :: rest, b, h => by
    cases hs : evalStep sg name s with
    | val r =>
      obtain ⟨f', hf, hflag⟩ := evalStepF_true sg name s r hs
      simp only [evalSteps, hs] at h
      cases r with
      | true =>
        cases h
        exact ⟨f', by simp only [evalStepsF, hf]⟩
      | false =>
        have hf' : f' = true := hflag rfl
        subst hf'
        obtain ⟨f'', hrest⟩ := evalStepsF_true sg name rest b h
        exact ⟨f'', by simp only [evalStepsF, hf, hrest]⟩
    | ub k => simp only [evalSteps, hs] at h; cases h
    | trap t => simp only [evalSteps, hs] at h; cases h
    | oof => simp only [evalSteps, hs] at h; cases h

/-- the match loop with the flag as carried state is the stateless loop — for every listing, in every order, from every
    initial flag -/
theorem cleanLoopF_eq (sg : Bool) : ∀ (names : List Name) (f : Bool) (st : St),
    cleanLoopF sg names f st = cleanLoop sg names st
  | [], f, st => rfl
  | n :: rest, f, st => by
    obtain ⟨f', hf⟩ := evalStepsF_true sg n cleanSteps _ (evalSteps_clean sg n)
    unfold cleanLoopF cleanLoop
    rw [entryFlag_true, hf, evalSteps_clean]
    cases (decide (n.length = 13) && firstOk n && ((n.drop 1).take 10).all isDigit) with
    | true => exact cleanLoopF_eq sg rest f' (removeN st n)
    | false => exact cleanLoopF_eq sg rest f' st

theorem cleanDir_eq (w : World) (st : St) :
    cleanDir w st = cleanLoop w.charSigned ((w.listing st.inOut).filter (globMatch globPattern))
      (st.emit (.glob st.inOut globPatternString)) := by
  unfold cleanDir
  exact cleanLoopF_eq _ _ _ _

theorem implName_shape_glob (c : UInt8) (ds : List UInt8) (hc : c = 115 ∨ c = 100) :
    globMatch globPattern (c :: ds ++ [46, 99]) = true := by
  unfold globMatch
  rw [Bool.and_eq_true]
  constructor
  · rw [leadingPeriodOk_pattern]
    intro c' rest e
    simp at e
    rw [← e.1]
    rcases hc with rfl | rfl <;> decide
  · rw [globCore_pattern]
    exact ⟨c :: ds, by simp⟩

theorem cleanAccept_iff (sg : Bool) (name : Name) : cleanAccept sg name = true ↔ IsImplName name := by
  rw [cleanAccept_eq]
  constructor
  · intro h
    simp only [Bool.and_eq_true, decide_eq_true_eq] at h
    obtain ⟨⟨⟨hg, hlen⟩, hf⟩, hd⟩ := h
    match name, hlen, hf with
    | c :: rest, hlen, hf =>
      have hr : rest.length = 12 := by simpa using hlen
      simp only [firstOk, Bool.or_eq_true, decide_eq_true_eq] at hf
      simp only [List.drop_succ_cons, List.drop_zero] at hd
      unfold globMatch at hg
      rw [Bool.and_eq_true, globCore_pattern] at hg
      obtain ⟨pre, hpre⟩ := hg.2
      have hsplit : rest = rest.take 10 ++ rest.drop 10 := (List.take_append_drop 10 rest).symm
      have hl2 : (rest.drop 10).length = 2 := by simp [hr]
      have hprelen : pre.length = 11 := by
        have := congrArg List.length hpre
        simp [hr] at this; omega
      have hsuf : rest.drop 10 = [46, 99] := by
        have h1 : (c :: rest).drop 11 = [46, 99] := by
          rw [hpre, List.drop_append_of_le_length (by omega)]
          simp [hprelen]
        simpa using h1
      refine ⟨c, rest.take 10, hf.symm.symm.elim (fun h => Or.inr h) (fun h => Or.inl h), by simp [hr], ?_, ?_⟩
      · intro d hdm
        exact (List.all_eq_true.mp hd) d hdm
      · rw [← hsuf]
        simp [List.take_append_drop]
  · rintro ⟨c, ds, hc, hlen, hdig, rfl⟩
    have hg := implName_shape_glob c ds hc
    simp only [Bool.and_eq_true, decide_eq_true_eq]
    refine ⟨⟨⟨hg, by simp [hlen]⟩, ?_⟩, ?_⟩
    · rcases hc with rfl | rfl <;> simp [firstOk]
    · simp only [List.cons_append, List.drop_succ_cons, List.drop_zero]
      rw [List.take_append_of_le_length (by omega), List.take_of_length_le (by omega)]
      exact List.all_eq_true.mpr hdig

end W2c2Verif.Lemmas.Files
