/-
  Lemmas.PoolSplit — the static/dynamic merge (Model/Split.lean) is sound for ANY two ID lists.
-/
import W2c2Verif.Model.Split

namespace W2c2Verif.Model.Split

theorem split_nil_ref (ids : List FnId) : split ids [] = ([], ids) := by
  induction ids with
  | nil => simp [split]
  | cons f fs ih => rw [split, ih]

/-- static ++ dynamic is a permutation of the input -/
theorem split_perm (ids ref : List FnId) : ((split ids ref).1 ++ (split ids ref).2).Perm ids := by
  fun_induction split ids ref with
  | case1 => simp
  | case2 f fs ih =>
    simp only
    exact (List.perm_middle).trans (List.Perm.cons f ih)
  | case3 f fs r rs h ih =>
    simp only
    exact (List.perm_middle).trans (List.Perm.cons f ih)
  | case4 f fs r rs h1 h2 ih => exact ih
  | case5 f fs r rs h1 h2 ih =>
    simp only [List.cons_append]
    exact List.Perm.cons f ih

/-- the hashes of the static functions occur, in order and each reference entry used at most once, among the
    hashes of the reference module -/
theorem split_static_sublist_ref (ids ref : List FnId) :
    ((split ids ref).1.map (·.hash)).Sublist (ref.map (·.hash)) := by
  fun_induction split ids ref with
  | case1 => simp
  | case2 f fs ih => simpa using ih
  | case3 f fs r rs h ih => simpa using ih
  | case4 f fs r rs h1 h2 ih =>
    simp only [List.map_cons]
    exact List.Sublist.cons _ ih
  | case5 f fs r rs h1 h2 ih =>
    have : f.hash = r.hash := by omega
    simp only [List.map_cons, this]
    exact List.Sublist.cons_cons _ ih

/-- both output lists keep the (sorted) input order -/
theorem split_sublists (ids ref : List FnId) :
    (split ids ref).1.Sublist ids ∧ (split ids ref).2.Sublist ids := by
  fun_induction split ids ref with
  | case1 => simp
  | case2 f fs ih => exact ⟨List.Sublist.cons _ ih.1, List.Sublist.cons_cons _ ih.2⟩
  | case3 f fs r rs h ih => exact ⟨List.Sublist.cons _ ih.1, List.Sublist.cons_cons _ ih.2⟩
  | case4 f fs r rs h1 h2 ih => exact ih
  | case5 f fs r rs h1 h2 ih => exact ⟨List.Sublist.cons_cons _ ih.1, List.Sublist.cons _ ih.2⟩

end W2c2Verif.Model.Split
