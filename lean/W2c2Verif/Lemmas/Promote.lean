/-
  Lemmas.Promote — C's integer promotion of 8- and 16-bit operands to `int`: the promoted signed arithmetic never
  overflows, and converting back to the narrow type gives the narrow (wrapping) result.
-/
import W2c2Verif.CSem.Expr
import Std.Tactic.BVDecide

namespace W2c2Verif

theorem promote8_add (a b : BitVec 8) : CPrim.arithS .add (a.setWidth 32) (b.setWidth 32) = .val (a.setWidth 32 + b.setWidth 32) := by
  have : BitVec.saddOverflow (a.setWidth 32) (b.setWidth 32) = false := by bv_decide
  simp [CPrim.arithS, this]
theorem promote8_sub (a b : BitVec 8) : CPrim.arithS .sub (a.setWidth 32) (b.setWidth 32) = .val (a.setWidth 32 - b.setWidth 32) := by
  have : BitVec.ssubOverflow (a.setWidth 32) (b.setWidth 32) = false := by bv_decide
  simp [CPrim.arithS, this]
theorem promote16_add (a b : BitVec 16) : CPrim.arithS .add (a.setWidth 32) (b.setWidth 32) = .val (a.setWidth 32 + b.setWidth 32) := by
  have : BitVec.saddOverflow (a.setWidth 32) (b.setWidth 32) = false := by bv_decide
  simp [CPrim.arithS, this]
theorem promote16_sub (a b : BitVec 16) : CPrim.arithS .sub (a.setWidth 32) (b.setWidth 32) = .val (a.setWidth 32 - b.setWidth 32) := by
  have : BitVec.ssubOverflow (a.setWidth 32) (b.setWidth 32) = false := by bv_decide
  simp [CPrim.arithS, this]

theorem narrow8_add (a b : BitVec 8) : (a.setWidth 32 + b.setWidth 32).setWidth 8 = a + b := by bv_decide
theorem narrow8_sub (a b : BitVec 8) : (a.setWidth 32 - b.setWidth 32).setWidth 8 = a - b := by bv_decide
theorem narrow8_and (a b : BitVec 8) : (a.setWidth 32 &&& b.setWidth 32).setWidth 8 = a &&& b := by bv_decide
theorem narrow8_or (a b : BitVec 8) : (a.setWidth 32 ||| b.setWidth 32).setWidth 8 = a ||| b := by bv_decide
theorem narrow8_xor (a b : BitVec 8) : (a.setWidth 32 ^^^ b.setWidth 32).setWidth 8 = a ^^^ b := by bv_decide
theorem narrow16_add (a b : BitVec 16) : (a.setWidth 32 + b.setWidth 32).setWidth 16 = a + b := by bv_decide
theorem narrow16_sub (a b : BitVec 16) : (a.setWidth 32 - b.setWidth 32).setWidth 16 = a - b := by bv_decide
theorem narrow16_and (a b : BitVec 16) : (a.setWidth 32 &&& b.setWidth 32).setWidth 16 = a &&& b := by bv_decide
theorem narrow16_or (a b : BitVec 16) : (a.setWidth 32 ||| b.setWidth 32).setWidth 16 = a ||| b := by bv_decide
theorem narrow16_xor (a b : BitVec 16) : (a.setWidth 32 ^^^ b.setWidth 32).setWidth 16 = a ^^^ b := by bv_decide

theorem narrowS8_add (a b : BitVec 8) : BitVec.signExtend 8 (a.setWidth 32 + b.setWidth 32) = a + b := by bv_decide
theorem narrowS8_sub (a b : BitVec 8) : BitVec.signExtend 8 (a.setWidth 32 - b.setWidth 32) = a - b := by bv_decide
theorem narrowS8_and (a b : BitVec 8) : BitVec.signExtend 8 (a.setWidth 32 &&& b.setWidth 32) = a &&& b := by bv_decide
theorem narrowS8_or (a b : BitVec 8) : BitVec.signExtend 8 (a.setWidth 32 ||| b.setWidth 32) = a ||| b := by bv_decide
theorem narrowS8_xor (a b : BitVec 8) : BitVec.signExtend 8 (a.setWidth 32 ^^^ b.setWidth 32) = a ^^^ b := by bv_decide
theorem narrowS16_add (a b : BitVec 16) : BitVec.signExtend 16 (a.setWidth 32 + b.setWidth 32) = a + b := by bv_decide
theorem narrowS16_sub (a b : BitVec 16) : BitVec.signExtend 16 (a.setWidth 32 - b.setWidth 32) = a - b := by bv_decide
theorem narrowS16_and (a b : BitVec 16) : BitVec.signExtend 16 (a.setWidth 32 &&& b.setWidth 32) = a &&& b := by bv_decide
theorem narrowS16_or (a b : BitVec 16) : BitVec.signExtend 16 (a.setWidth 32 ||| b.setWidth 32) = a ||| b := by bv_decide
theorem narrowS16_xor (a b : BitVec 16) : BitVec.signExtend 16 (a.setWidth 32 ^^^ b.setWidth 32) = a ^^^ b := by bv_decide

theorem cmpS_eq_promote8 (a b : BitVec 8) : CPrim.cmpS .eq (a.setWidth 32) (b.setWidth 32) = (a == b) := by
  simp only [CPrim.cmpS]; apply Bool.eq_iff_iff.2; simp; constructor
  · intro h; bv_decide
  · intro h; rw [h]
theorem cmpS_eq_promote16 (a b : BitVec 16) : CPrim.cmpS .eq (a.setWidth 32) (b.setWidth 32) = (a == b) := by
  simp only [CPrim.cmpS]; apply Bool.eq_iff_iff.2; simp; constructor
  · intro h; bv_decide
  · intro h; rw [h]
theorem truthy_ofBool (b : Bool) : (match CVal.ofBool b with
          | CVal.u8 v => v != 0#8
          | CVal.i8 v => v != 0#8
          | CVal.u16 v => v != 0#16
          | CVal.i16 v => v != 0#16
          | CVal.u32 v => v != 0#32
          | CVal.i32 v => v != 0#32
          | CVal.u64 v => v != 0#64
          | CVal.i64 v => v != 0#64
          | CVal.f32 b => !SF.isZero SF.f32 b.toNat
          | CVal.f64 b => !SF.isZero SF.f64 b.toNat) = b := by
  cases b <;> rfl
theorem toNat_eq_mod256 {N : Nat} (x : BitVec 8) (e : BitVec N) : (x.toNat = e.toNat % 256) ↔ x = e.setWidth 8 := by
  constructor
  · intro h; apply BitVec.eq_of_toNat_eq; simp [h]
  · intro h; rw [h]; simp
theorem toNat_eq_mod65536 {N : Nat} (x : BitVec 16) (e : BitVec N) : (x.toNat = e.toNat % 65536) ↔ x = e.setWidth 16 := by
  constructor
  · intro h; apply BitVec.eq_of_toNat_eq; simp [h]
  · intro h; rw [h]; simp
theorem toNat_eq_mod4294967296 (x : BitVec 32) (e : BitVec 64) : (x.toNat = e.toNat % 4294967296) ↔ x = e.setWidth 32 := by
  constructor
  · intro h; apply BitVec.eq_of_toNat_eq; simp [h]
  · intro h; rw [h]; simp

theorem arithS_band {w : Nat} (x y : BitVec w) : CPrim.arithS .band x y = .val (x &&& y) := rfl
theorem arithS_bor {w : Nat} (x y : BitVec w) : CPrim.arithS .bor x y = .val (x ||| y) := rfl
theorem arithS_bxor {w : Nat} (x y : BitVec w) : CPrim.arithS .bxor x y = .val (x ^^^ y) := rfl

theorem ite_ne_zero32 (b : Bool) : ((if b = true then 1#32 else 0#32) != 0#32) = b := by cases b <;> rfl
theorem se8 (a : BitVec 8) : BitVec.signExtend 8 (BitVec.setWidth 32 a) = a := by bv_decide
theorem se16 (a : BitVec 16) : BitVec.signExtend 16 (BitVec.setWidth 32 a) = a := by bv_decide

end W2c2Verif
