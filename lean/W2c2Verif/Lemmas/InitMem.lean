/-
  Lemmas.InitMem — closed forms of what `Model.InitMem` computes over the REGENERATED emitter loops
  (`Gen.InitMem.memLoop/segLoop/blobLoop/arrayLoop/allocSteps`), the statements the text parses to, and their execution.
  Every `*_gen` lemma is proved by evaluating the generated lists: it stops closing when the extracted shape changes.
-/
import W2c2Verif.Model.InitMem

namespace W2c2Verif.Model.InitMem
open W2c2Verif Model.Inst Gen.InitMem

/-! ## closed forms of the two loops -/

def isExt : Mode → Bool
  | .arrays => false
  | _ => true

/-- the text printed for one defined memory -/
def memShape (c : MemCtx) : List Tok :=
  if c.shared then
    [.kw .ifParentNull, .memRef c.idx, .kw .allocSharedOpen, .num c.min, .kw .comma, .num c.max, .kw .closeSemi, .kw .elseOpen,
     .memRef c.idx, .kw .assign, .memRefParent c.idx, .kw .semi, .kw .closeBrace]
  else [.memRef c.idx, .kw .allocOpen, .num c.min, .kw .comma, .num c.max, .kw .falseCloseSemi]

/-- `d<k>=ds+off;` -/
def ptrShape (k off : Nat) : List Tok := [.segName k, .kw .assignDsPlus, .num off, .kw .semi]

/-- `LOAD_DATA((*i->mem), offset, <source>, len);` -/
def loadShape (mode : Mode) (k off : Nat) (seg : DataSeg) : List Tok :=
  if isExt mode then
    [.kw .loadDataOpen, .memUse seg.mem, .kw .comma, .expr seg.offset, .kw .commaDsPlus, .num off, .kw .comma, .num seg.bytes.length, .kw .closeSemi]
  else
    [.kw .loadDataOpen, .memUse seg.mem, .kw .comma, .expr seg.offset, .kw .comma, .segName k, .kw .comma, .num seg.bytes.length, .kw .closeSemi]

/-- the text printed for data segment `k` when the running offset is `off`: in the external modes the pointer variable of EVERY
    segment is set (memory.init may refer to active segments too, /repo af3520e), then active segments are loaded -/
def segShape (mode : Mode) (k off : Nat) (seg : DataSeg) : List Tok :=
  (if isExt mode then ptrShape k off else []) ++ (if seg.passive then [] else loadShape mode k off seg)

theorem runMem_gen (c : MemCtx) : runMem memLoop c = memShape c := by
  obtain ⟨idx, mn, mx, sh⟩ := c
  cases sh <;> rfl

/-- every segment — passive or active, whatever the mode — advances `byteOffset` by its length, and prints `segShape` -/
theorem runSeg_gen (mode : Mode) (k off : Nat) (seg : DataSeg) :
    runSeg segLoop mode k off seg = (segShape mode k off seg, off + seg.bytes.length) := by
  cases mode <;> cases hp : seg.passive <;>
    simp [runSeg, segLoop, stepSeg, guardSeg, hp, pieceSeg, segShape, ptrShape, loadShape, isExt]

theorem blobOf_gen (mode : Mode) (datas : List DataSeg) : blobOf blobLoop mode datas = datas.flatMap (·.bytes) := by
  unfold blobOf
  congr 1
  funext seg
  simp [leafBytes, blobLoop]

theorem arraysOf_gen (mode : Mode) (datas : List DataSeg) : arraysOf arrayLoop mode datas = datas.map (fun seg => some seg.bytes) := by
  unfold arraysOf
  congr 1

/-! ## the statements in the text -/

def memEmitted (c : MemCtx) : Emitted :=
  if c.shared then .allocShared c.idx c.min c.max else .alloc c.idx c.min c.max

def loadEmitted (mode : Mode) (k off : Nat) (seg : DataSeg) : Emitted :=
  if isExt mode then .loadBlob seg.mem seg.offset off seg.bytes.length else .loadArr seg.mem seg.offset k seg.bytes.length

/-- the statements printed for data segment `k` -/
def segEmitted (mode : Mode) (k off : Nat) (seg : DataSeg) : List Emitted :=
  (if isExt mode then [.ptrInit k off] else []) ++ (if seg.passive then [] else [loadEmitted mode k off seg])

theorem parseOne_mem (c : MemCtx) (rest : List Tok) : parseOne (memShape c ++ rest) = some (memEmitted c, rest) := by
  obtain ⟨idx, mn, mx, sh⟩ := c
  cases sh <;> simp [memShape, memEmitted, parseOne]

theorem memShape_ne_nil (c : MemCtx) : memShape c ≠ [] := by
  obtain ⟨idx, mn, mx, sh⟩ := c
  cases sh <;> simp [memShape]

theorem parseOne_ptr (k off : Nat) (rest : List Tok) : parseOne (ptrShape k off ++ rest) = some (.ptrInit k off, rest) := by
  simp [ptrShape, parseOne]

theorem parseOne_load (mode : Mode) (k off : Nat) (seg : DataSeg) (rest : List Tok) :
    parseOne (loadShape mode k off seg ++ rest) = some (loadEmitted mode k off seg, rest) := by
  cases mode <;> simp [loadShape, loadEmitted, isExt, parseOne]

theorem parseN_cons (n : Nat) (p rest : List Tok) (e : Emitted) (h : parseOne (p ++ rest) = some (e, rest)) (hp : p ≠ []) :
    parseN (n + 1) (p ++ rest) = (parseN n rest).map (e :: ·) := by
  cases p with
  | nil => exact absurd rfl hp
  | cons t ts =>
    show parseN (n + 1) (t :: (ts ++ rest)) = _
    have h' : parseOne (t :: (ts ++ rest)) = some (e, rest) := h
    simp only [parseN, h']

theorem parseN_mono : ∀ (n : Nat) (ts : List Tok) (es : List Emitted), parseN n ts = some es → ∀ m, n ≤ m → parseN m ts = some es := by
  intro n
  induction n with
  | zero =>
    intro ts es h m _
    cases ts with
    | nil => cases m <;> simpa [parseN] using h
    | cons t ts => simp [parseN] at h
  | succ n ih =>
    intro ts es h m hm
    cases ts with
    | nil => cases m <;> simpa [parseN] using h
    | cons t ts =>
      obtain ⟨m', rfl⟩ : ∃ m', m = m' + 1 := ⟨m - 1, by omega⟩
      simp only [parseN] at h ⊢
      cases hpo : parseOne (t :: ts) with
      | none => simp [hpo] at h
      | some er =>
        obtain ⟨e, rest⟩ := er
        simp only [hpo] at h ⊢
        cases hr : parseN n rest with
        | none => simp [hr] at h
        | some es' =>
          rw [ih rest es' hr m' (by omega)]
          simpa [hr] using h

def memsEmitted (imports : Nat) (shared : List Bool) : Nat → List (Nat × Nat) → List Emitted
  | _, [] => []
  | j, mm :: rest => memEmitted ⟨imports + j, mm.1, mm.2, shared.getD j false⟩ :: memsEmitted imports shared (j + 1) rest

def segsEmitted (mode : Mode) : Nat → Nat → List DataSeg → List Emitted
  | _, _, [] => []
  | k, off, seg :: rest => segEmitted mode k off seg ++ segsEmitted mode (k + 1) (off + seg.bytes.length) rest

theorem parseN_seg (mode : Mode) (k off : Nat) (seg : DataSeg) (rest : List Tok) (n : Nat) :
    parseN (n + (segEmitted mode k off seg).length) (segShape mode k off seg ++ rest) =
      (parseN n rest).map (segEmitted mode k off seg ++ ·) := by
  have hptr : ∀ (m : Nat) (tail : List Tok), parseN (m + 1) (ptrShape k off ++ tail) = (parseN m tail).map (Emitted.ptrInit k off :: ·) :=
    fun m tail => parseN_cons m _ tail _ (parseOne_ptr k off tail) (by simp [ptrShape])
  have hload : ∀ (m : Nat) (tail : List Tok), parseN (m + 1) (loadShape mode k off seg ++ tail) = (parseN m tail).map (loadEmitted mode k off seg :: ·) :=
    fun m tail => parseN_cons m _ tail _ (parseOne_load mode k off seg tail) (by cases mode <;> simp [loadShape, isExt])
  unfold segShape segEmitted
  cases he : isExt mode <;> cases hp : seg.passive
  · simp only [Bool.false_eq_true, ↓reduceIte, List.nil_append, List.length_cons, List.length_nil, Nat.zero_add]
    rw [hload]
    rfl
  · simp
  · simp only [↓reduceIte, Bool.false_eq_true, List.append_assoc, List.length_append, List.length_cons, List.length_nil, Nat.zero_add]
    rw [show n + (1 + 1) = (n + 1) + 1 by omega, hptr, hload]
    cases parseN n rest <;> simp
  · simp only [↓reduceIte, List.append_nil, List.length_cons, List.length_nil, Nat.zero_add]
    rw [hptr]
    rfl

theorem parseN_segs (mode : Mode) : ∀ (datas : List DataSeg) (k off : Nat),
    parseN (segsEmitted mode k off datas).length (renderSegs segLoop mode k off datas) = some (segsEmitted mode k off datas) := by
  intro datas
  induction datas with
  | nil => intro k off; simp [renderSegs, segsEmitted, parseN]
  | cons seg rest ih =>
    intro k off
    simp only [renderSegs, runSeg_gen, segsEmitted, List.length_append]
    rw [Nat.add_comm, parseN_seg, ih]
    rfl

theorem parseN_mems (imports : Nat) (shared : List Bool) (tail : List Tok) (es : List Emitted) (n : Nat) (ht : parseN n tail = some es) :
    ∀ (mems : List (Nat × Nat)) (j : Nat),
    parseN (mems.length + n) (renderMems memLoop imports shared j mems ++ tail) = some (memsEmitted imports shared j mems ++ es) := by
  intro mems
  induction mems with
  | nil => intro j; simpa [renderMems, memsEmitted] using ht
  | cons mm rest ih =>
    intro j
    simp only [renderMems, runMem_gen, memsEmitted, List.append_assoc, List.length_cons]
    have h1 := parseOne_mem ⟨imports + j, mm.1, mm.2, shared.getD j false⟩ (renderMems memLoop imports shared (j + 1) rest ++ tail)
    have : rest.length + 1 + n = (rest.length + n) + 1 := by omega
    rw [this, parseN_cons _ _ _ _ h1 (memShape_ne_nil _), ih]
    rfl

/-- the emitted statements, in order: one allocation per defined memory, then per data segment what `segEmitted` says, the blob
    offset of segment k being the total length of ALL segments before it -/
def emittedOf (mode : Mode) (d : ModDesc) : List Emitted :=
  memsEmitted d.memImports d.memShared 0 d.mems ++ segsEmitted mode 0 0 d.datas

theorem parseOne_shorter : ∀ (ts : List Tok) (e : Emitted) (rest : List Tok), parseOne ts = some (e, rest) → rest.length < ts.length := by
  intro ts e rest h
  unfold parseOne at h
  split at h
  · simp only [Option.some.injEq, Prod.mk.injEq] at h; obtain ⟨_, rfl⟩ := h; simp; omega
  · split at h
    · simp only [Option.some.injEq, Prod.mk.injEq] at h; obtain ⟨_, rfl⟩ := h; simp; omega
    · exact absurd h (by simp)
  · simp only [Option.some.injEq, Prod.mk.injEq] at h; obtain ⟨_, rfl⟩ := h; simp; omega
  · split at h
    · simp only [Option.some.injEq, Prod.mk.injEq] at h; obtain ⟨_, rfl⟩ := h; simp; omega
    · simp only [Option.some.injEq, Prod.mk.injEq] at h; obtain ⟨_, rfl⟩ := h; simp; omega
    · exact absurd h (by simp)
  · exact absurd h (by simp)

theorem parseN_length : ∀ (n : Nat) (ts : List Tok) (es : List Emitted), parseN n ts = some es → es.length ≤ ts.length := by
  intro n
  induction n with
  | zero =>
    intro ts es h
    cases ts with
    | nil => simp [parseN] at h; subst h; simp
    | cons t ts => simp [parseN] at h
  | succ n ih =>
    intro ts es h
    cases ts with
    | nil => simp [parseN] at h; subst h; simp
    | cons t ts =>
      simp only [parseN] at h
      cases hpo : parseOne (t :: ts) with
      | none => simp [hpo] at h
      | some er =>
        obtain ⟨e, rest⟩ := er
        simp only [hpo] at h
        cases hr : parseN n rest with
        | none => simp [hr] at h
        | some es' =>
          simp [hr] at h
          subst h
          have := ih rest es' hr
          have := parseOne_shorter _ _ _ hpo
          simp at this ⊢
          omega

/-- the text of InitMemories is, for every module description and every mode, exactly the statement list `emittedOf` -/
theorem parse_render (mode : Mode) (d : ModDesc) : parse (render mode d) = some (emittedOf mode d) := by
  have h := parseN_mems d.memImports d.memShared _ _ _ (parseN_segs mode d.datas 0 0) d.mems 0
  have hl := parseN_length _ _ _ h
  unfold parse render
  exact parseN_mono _ _ _ h _ (by
    have : (emittedOf mode d).length = d.mems.length + (segsEmitted mode 0 0 d.datas).length := by
      have hm : ∀ (mems : List (Nat × Nat)) (j : Nat), (memsEmitted d.memImports d.memShared j mems).length = mems.length := by
        intro mems; induction mems with
        | nil => intro j; rfl
        | cons mm rest ih => intro j; simp [memsEmitted, ih]
      simp [emittedOf, hm]
    simp only [emittedOf] at this
    omega)

/-! ## `wasmMemoryAllocate` -/

/-- the descriptor a new memory gets: `pages` is the DECLARED MINIMUM for shared and non-shared memories alike (only the
    allocation size uses the maximum for a shared memory), `maxPages`/`shared` are the arguments -/
theorem allocDesc_gen (initial max shared : Nat) :
    ∃ f, allocDesc initial max shared = some f ∧ f .pages = initial ∧ f .maxPages = max ∧ f .shared = shared ∧
      f .size = ((if shared ≠ 0 then max else initial) * 65536) % 4294967296 ∧
      allocBlockBytes initial max shared = some (f .size) := by
  refine ⟨_, rfl, ?_, ?_, ?_, ?_, ?_⟩ <;>
    simp [allocBlockBytes, allocSteps, allocRun, allocRegs, MExpr.eval, setReg, allocDataBytes] <;> (try split) <;> simp_all

/-! ## execution -/

theorem foldM'_append {σ α} (f : σ → α → Out σ) : ∀ (a b : List α) (s : σ),
    foldM' f s (a ++ b) = (foldM' f s a >>= fun s' => foldM' f s' b) := by
  intro a
  induction a with
  | nil => intro b s; rfl
  | cons x xs ih =>
    intro b s
    simp only [List.cons_append, foldM']
    cases f s x with
    | val s' => simp only [Out.bind_val]; exact ih b s'
    | trap t => rfl
    | ub k => rfl
    | oof => rfl

theorem execAlloc_eq (d : ModDesc) (s : St) (mn mx sh : Nat) :
    execAlloc d s (d.memImports + s.2.mems.length) mn mx sh =
      .val ({ s.1 with mems := s.1.mems ++ [Array.replicate (mn * pageSize) (0 : UInt8)] }, { s.2 with mems := s.2.mems ++ [s.1.mems.length] }) := by
  obtain ⟨f, hf, hp, _⟩ := allocDesc_gen mn mx sh
  simp [execAlloc, hf, hp]

theorem exec_mems (d : ModDesc) (src : Sources) : ∀ (mems : List (Nat × Nat)) (s : St),
    foldM' (exec d src) s (memsEmitted d.memImports d.memShared s.2.mems.length mems) =
      .val ({ s.1 with mems := s.1.mems ++ mems.map fun mm => Array.replicate (mm.1 * pageSize) (0 : UInt8) },
            { s.2 with mems := s.2.mems ++ (List.range mems.length).map (s.1.mems.length + ·) }) := by
  intro mems
  induction mems with
  | nil => intro s; simp [memsEmitted, foldM']
  | cons mm rest ih =>
    intro s
    simp only [memsEmitted, foldM']
    have h1 : exec d src s (memEmitted ⟨d.memImports + s.2.mems.length, mm.1, mm.2, d.memShared.getD s.2.mems.length false⟩) =
        .val ({ s.1 with mems := s.1.mems ++ [Array.replicate (mm.1 * pageSize) (0 : UInt8)] }, { s.2 with mems := s.2.mems ++ [s.1.mems.length] }) := by
      unfold memEmitted
      split <;> simp only [exec] <;> exact execAlloc_eq d s _ _ _
    rw [h1]
    simp only [Out.bind_val]
    have := ih ({ s.1 with mems := s.1.mems ++ [Array.replicate (mm.1 * pageSize) (0 : UInt8)] }, { s.2 with mems := s.2.mems ++ [s.1.mems.length] })
    simp only [List.length_append, List.length_cons, List.length_nil] at this
    rw [this]
    congr 1
    simp only [List.map_cons, List.append_assoc, List.cons_append, List.nil_append, List.length_cons, List.range_succ_eq_map, List.map_map,
      List.map_cons, Nat.add_zero]
    congr 4
    apply List.map_congr_left
    intro k _
    simp; omega

theorem loadBytes_eq_loadData (d : ModDesc) (s : St) (seg : DataSeg) (hp : seg.passive = false) :
    loadBytes d s seg.mem seg.offset seg.bytes = loadData d s seg := by
  unfold loadBytes loadData resData
  simp only [hp, Bool.false_eq_true, ↓reduceIte]
  cases evalC d s.1.globals s.2 seg.offset with
  | val off =>
    simp only [Out.bind_val]
    cases memPtr d s.2 seg.mem <;> rfl
  | trap t => rfl
  | ub k => rfl
  | oof => rfl

def bytesLen (segs : List DataSeg) : Nat := (segs.flatMap (·.bytes)).length

theorem drop_take_mid {α} (pre mid post : List α) : ((pre ++ mid ++ post).drop pre.length).take mid.length = mid := by
  simp

/-- the statements printed for segment `seg` of `d.datas = pre ++ seg :: post` do what `loadData` does: in the external modes the bytes
    at `ds + (total length of pre)` ARE the segment's bytes, in arrays mode `d<|pre|>` is the segment's array -/
theorem exec_seg (mode : Mode) (d : ModDesc) (pre : List DataSeg) (seg : DataSeg) (post : List DataSeg) (hd : d.datas = pre ++ seg :: post) (s : St) :
    foldM' (exec d (sourcesOf mode d)) s (segEmitted mode pre.length (bytesLen pre) seg) = loadData d s seg := by
  have hblob : (sourcesOf mode d).blob = pre.flatMap (·.bytes) ++ seg.bytes ++ post.flatMap (·.bytes) := by
    simp [sourcesOf, blobOf_gen, hd, List.flatMap_append, List.flatMap_cons]
  have harr : ((sourcesOf mode d).arrays[pre.length]?).join = some seg.bytes := by
    simp [sourcesOf, arraysOf_gen, hd]
  cases hp : seg.passive with
  | true =>
    have hl : loadData d s seg = .val s := by simp [loadData, resData, hp]
    rw [hl]
    cases mode <;> simp [segEmitted, hp, isExt, foldM', exec]
  | false =>
    rw [← loadBytes_eq_loadData d s seg hp]
    have hslice : (((sourcesOf mode d).blob.drop (bytesLen pre)).take seg.bytes.length) = seg.bytes := by
      rw [hblob]; exact drop_take_mid _ _ _
    have hfit : bytesLen pre + seg.bytes.length ≤ (sourcesOf mode d).blob.length := by
      rw [hblob]; simp [bytesLen]
    have bind_ret : ∀ (x : Out St), (x >>= fun s' => Out.val s') = x := by intro x; cases x <;> rfl
    cases mode <;> simp [segEmitted, loadEmitted, hp, isExt, foldM', exec, harr, hslice, hfit, bind_ret]

theorem exec_segs (mode : Mode) (d : ModDesc) : ∀ (rest pre : List DataSeg), d.datas = pre ++ rest → ∀ (s : St),
    foldM' (exec d (sourcesOf mode d)) s (segsEmitted mode pre.length (bytesLen pre) rest) = foldM' (loadData d) s rest := by
  intro rest
  induction rest with
  | nil => intro pre _ s; rfl
  | cons seg post ih =>
    intro pre hd s
    simp only [segsEmitted, foldM'_append, exec_seg mode d pre seg post hd s, foldM']
    cases loadData d s seg with
    | val s' =>
      simp only [Out.bind_val]
      have := ih (pre ++ [seg]) (by simp [hd]) s'
      simpa [bytesLen, List.flatMap_append] using this
    | trap t => rfl
    | ub k => rfl
    | oof => rfl

/-- for a fresh instance the emitted InitMemories of EVERY data segment mode is `Model.Inst.initMemories` -/
theorem initMemoriesE_eq (mode : Mode) (d : ModDesc) (s : St) (hs : s.2.mems = []) : initMemoriesE mode d s = initMemories d s := by
  unfold initMemoriesE
  rw [parse_render]
  simp only [emittedOf, foldM'_append]
  have hm := exec_mems d (sourcesOf mode d) d.mems s
  rw [hs] at hm
  simp only [List.length_nil, List.nil_append] at hm
  rw [hm]
  simp only [Out.bind_val]
  have := exec_segs mode d d.datas [] rfl
  simp only [List.length_nil, bytesLen, List.flatMap_nil] at this
  rw [this]
  rfl

end W2c2Verif.Model.InitMem
