/-
  Lemmas.CSemSimp — the simp set that evaluates a concrete `CExpr`/`CStmt` AST on symbolic
  leaf values down to a bit-vector expression, plus small facts used by every property file.
-/
import W2c2Verif.CSem.Defs

namespace W2c2Verif

@[simp] theorem intMin32 : BitVec.intMin 32 = 2147483648#32 := by decide
@[simp] theorem intMin64 : BitVec.intMin 64 = 9223372036854775808#64 := by decide
@[simp] theorem CVal.truthy_ofBool (b : Bool) : (CVal.ofBool b).truthy = b := by
  cases b <;> simp [CVal.ofBool, CVal.truthy]

@[simp] theorem CVal.fromFloat_f32 (fmt b) : CVal.fromFloat .f32 fmt b = .val (.f32 (BitVec.ofNat 32 (SF.convert fmt SF.f32 b))) := rfl
@[simp] theorem CVal.fromFloat_f64 (fmt b) : CVal.fromFloat .f64 fmt b = .val (.f64 (BitVec.ofNat 64 (SF.convert fmt SF.f64 b))) := rfl

@[simp] theorem CVal.castInt_u32_ofBool (b : Bool) : (CVal.ofBool b).castInt .u32 = .val (.u32 (if b then 1#32 else 0#32)) := by
  cases b <;> rfl
@[simp] theorem CVal.castInt_i32_ofBool (b : Bool) : (CVal.ofBool b).castInt .i32 = .val (.i32 (if b then 1#32 else 0#32)) := by
  cases b <;> rfl
@[simp] theorem CVal.castInt_u64_ofBool (b : Bool) : (CVal.ofBool b).castInt .u64 = .val (.u64 (if b then 1#64 else 0#64)) := by
  cases b <;> rfl

/-- unfold the evaluator on a concrete AST (distributing continuations over `if`) -/
macro "csem_eval" : tactic => `(tactic|
  simp +decide [CMacro.call, CFunc.call, CExpr.eval, CExpr.typeOf, CStmt.exec, bindParams, Env.get, Env.set, List.zip,
        CVal.fromNat, CVal.fromInt, CVal.binop, CVal.unop, CVal.shift, CVal.withAmt, CPrim.amtOk, CTy.common, CTy.promote, CVal.ty,
        CPrim.cmpS, CPrim.cmpU, CPrim.arithS, CPrim.arithU, CPrim.shiftU, CPrim.shiftS, BinOp.isCmp,
        Out.map', builtin1, builtin2, signbitSem, noDefs, defsOfMacros, defsOfFuncs, Out.ite_bind,
        lookupAssoc, -BitVec.shiftLeft_eq', -BitVec.ushiftRight_eq', -BitVec.sshiftRight_eq'])

/-- the same without distributing continuations over `if`: evaluation stops at the first
    undecided branch, to be `split` by the caller (keeps path-by-path evaluation linear) -/
macro "csem_step" : tactic => `(tactic|
  simp +decide [CMacro.call, CFunc.call, CExpr.eval, CExpr.typeOf, CStmt.exec_seq, CStmt.exec_skip, CStmt.exec_decl,
        CStmt.exec_assign, CStmt.exec_opAssign, CStmt.exec_ifThen, CStmt.exec_ret, bindParams, Env.get, Env.set, List.zip,
        CVal.fromNat, CVal.fromInt, CVal.binop, CVal.unop, CVal.shift, CVal.withAmt, CPrim.amtOk, CTy.common, CTy.promote, CVal.ty,
        CPrim.cmpS, CPrim.cmpU, CPrim.arithS, CPrim.arithU, CPrim.shiftU, CPrim.shiftS, BinOp.isCmp,
        Out.map', builtin1, builtin2, signbitSem, noDefs, defsOfMacros, defsOfFuncs,
        lookupAssoc, -BitVec.shiftLeft_eq', -BitVec.ushiftRight_eq', -BitVec.sshiftRight_eq', *])

end W2c2Verif
