/-
  Lemmas.ReaderStable — "what a reader accepts does not depend on what follows".

  `StableR R p q`: whenever `p` succeeds on a buffer, `q` succeeds on the same buffer with the same rest and an
  `R`-related result; `p` consumed a prefix `pre` of the buffer, and — provided the rest it left is NON-EMPTY —
  `q` succeeds on `pre` followed by ANY continuation, consuming exactly `pre`, with a result related by `R`.  (The side condition is essential: `leb128ReadU32` accepts an integer that is cut
  short by the end of the file, so a reader that stops exactly at the end of the buffer may behave
  differently when more bytes follow.)  The notion is closed under `bind`, `if`, `match`, `vec`, `iter`,
  `sliced`, and holds for all primitives of Model.Buffer and Model.Reader; it is the key to
  `sections_framing_invariant`.
-/
import W2c2Verif.Model.Reader
import W2c2Verif.Lemmas.Leb

namespace W2c2Verif.Lemmas.Reader
open W2c2Verif.Model W2c2Verif.Model.Reader
open W2c2Verif.Gen

def StableR {α β : Type} (R : α → β → Prop) (p : P α) (q : P β) : Prop :=
  ∀ bs a rest, p bs = .ok (a, rest) →
    (∃ b, q bs = .ok (b, rest) ∧ R a b) ∧
    ∃ pre, bs = pre ++ rest ∧ (rest ≠ [] → ∀ rest', ∃ b, q (pre ++ rest') = .ok (b, rest') ∧ R a b)

def Stable {α : Type} (p : P α) : Prop := StableR Eq p p

/-- For `q = p`, `R = Eq` the same-input clause is trivial. -/
theorem stable_of_local {α : Type} {p : P α}
    (h : ∀ bs a rest, p bs = .ok (a, rest) →
      ∃ pre, bs = pre ++ rest ∧ (rest ≠ [] → ∀ rest', ∃ b, p (pre ++ rest') = .ok (b, rest') ∧ a = b)) :
    Stable p := fun bs a rest hp => ⟨⟨a, hp, rfl⟩, h bs a rest hp⟩

/-! ### monad structure -/

theorem bind_ok {α β : Type} {p : P α} {f : α → P β} {bs : Bytes} {b : β} {rest : Bytes}
    (h : (p >>= f) bs = .ok (b, rest)) : ∃ a mid, p bs = .ok (a, mid) ∧ f a mid = .ok (b, rest) := by
  have h' : P.bind p f bs = .ok (b, rest) := h
  unfold P.bind at h'
  split at h'
  · rename_i a mid hp; exact ⟨a, mid, hp, h'⟩
  · cases h'
  · cases h'

theorem bind_eq_of_ok {α β : Type} {p : P α} {f : α → P β} {bs : Bytes} {a : α} {mid : Bytes}
    (h : p bs = .ok (a, mid)) : (p >>= f) bs = f a mid := by
  show P.bind p f bs = _
  unfold P.bind; rw [h]

theorem pure_run {α : Type} (a : α) (bs : Bytes) : (pure a : P α) bs = .ok (a, bs) := rfl

theorem stable_pure {α β : Type} {R : α → β → Prop} {a : α} {b : β} (h : R a b) :
    StableR R (pure a : P α) (pure b : P β) := by
  intro bs a' rest hp
  rw [pure_run] at hp
  cases hp
  exact ⟨⟨b, rfl, h⟩, [], rfl, fun _ rest' => ⟨b, rfl, h⟩⟩

theorem stable_fail {α β : Type} {R : α → β → Prop} (e : Nat) (q : P β) : StableR R (P.fail e : P α) q := by
  intro bs a rest hp; cases hp

theorem stable_undefined {α β : Type} {R : α → β → Prop} (u : UB) (q : P β) :
    StableR R (P.undefined u : P α) q := by
  intro bs a rest hp; cases hp

theorem stable_bind {α β α' β' : Type} {R : α → α' → Prop} {S : β → β' → Prop}
    {p : P α} {q : P α'} {f : α → P β} {g : α' → P β'}
    (hp : StableR R p q) (hf : ∀ a a', R a a' → StableR S (f a) (g a')) :
    StableR S (p >>= f) (q >>= g) := by
  intro bs b rest h
  obtain ⟨a, mid, h1, h2⟩ := bind_ok h
  obtain ⟨⟨a0, hq0, hR0⟩, pre1, e1, k1⟩ := hp bs a mid h1
  obtain ⟨⟨b0, hg0, hS0⟩, pre2, e2, _⟩ := hf a a0 hR0 mid b rest h2
  refine ⟨⟨b0, by rw [bind_eq_of_ok hq0]; exact hg0, hS0⟩, pre1 ++ pre2, by rw [e1, e2, List.append_assoc], fun hne rest' => ?_⟩
  have hmid : mid ≠ [] := by
    rw [e2]; intro hc
    exact hne (List.append_eq_nil_iff.1 hc).2
  obtain ⟨a', hq, hR⟩ := k1 hmid (pre2 ++ rest')
  obtain ⟨_, pre2', e2', k2⟩ := hf a a' hR mid b rest h2
  have hpre : pre2' = pre2 := by
    have : pre2' ++ rest = pre2 ++ rest := by rw [← e2', ← e2]
    exact List.append_cancel_right this
  subst hpre
  obtain ⟨b', hg, hS⟩ := k2 hne rest'
  refine ⟨b', ?_, hS⟩
  rw [List.append_assoc, bind_eq_of_ok hq]; exact hg

theorem stable_bind_eq {α β : Type} {p : P α} {f : α → P β}
    (hp : Stable p) (hf : ∀ a, Stable (f a)) : Stable (p >>= f) :=
  stable_bind hp (fun a a' h => by subst h; exact hf a)

theorem stable_ite {α β : Type} {R : α → β → Prop} {c : Prop} [Decidable c] {p p' : P α} {q q' : P β}
    (h1 : c → StableR R p q) (h2 : ¬ c → StableR R p' q') :
    StableR R (if c then p else p') (if c then q else q') := by
  by_cases hc : c
  · simp only [hc, if_true]; exact h1 hc
  · simp only [hc, if_false]; exact h2 hc

/-! ### primitives -/

theorem stable_byte (e : Nat) : Stable (byte e) := by
  apply stable_of_local
  intro bs a rest h
  cases bs with
  | nil => cases h
  | cons b t =>
    simp only [byte] at h
    cases h
    exact ⟨[a], rfl, fun _ rest' => ⟨a, rfl, rfl⟩⟩

theorem stable_fixed (n e : Nat) : Stable (fixed n e) := by
  apply stable_of_local
  intro bs a rest h
  simp only [fixed] at h
  split at h
  · cases h
  · rename_i hlen
    cases h
    refine ⟨bs.take n, (List.take_append_drop n bs).symm, fun _ rest' => ⟨bs.take n, ?_, rfl⟩⟩
    have hl : (bs.take n).length = n := by rw [List.length_take]; omega
    simp only [fixed]
    have : ¬ (bs.take n ++ rest').length < n := by rw [List.length_append, hl]; omega
    simp only [this, if_false]
    rw [List.take_left' hl, List.drop_left' hl]

/-- the decoder loop is local: what it read is a prefix, and it reads the same prefix before any continuation
    as long as it did not stop because the buffer ended. -/
theorem loop_local (d : Reader.LebDecoder) :
    ∀ (fuel : Nat) (bs : Bytes) (s : Leb.St),
      ∃ pre, bs = pre ++ (Leb.loop d fuel bs s).2 ∧
        ((Leb.loop d fuel bs s).2 ≠ [] → ∀ rest', Leb.loop d fuel (pre ++ rest') s = ((Leb.loop d fuel bs s).1, rest')) := by
  intro fuel
  induction fuel with
  | zero => intro bs s; exact ⟨[], rfl, fun _ rest' => rfl⟩
  | succ n ih =>
    intro bs s
    cases bs with
    | nil => exact ⟨[], rfl, fun h => absurd rfl h⟩
    | cons b t =>
      by_cases hc : b.toNat &&& d.contMask = 0
      · have hl : Leb.loop d (n + 1) (b :: t) s = (Leb.step d s b, t) := by simp [Leb.loop, hc]
        rw [hl]
        exact ⟨[b], rfl, fun _ rest' => by simp [Leb.loop, hc]⟩
      · have hl : Leb.loop d (n + 1) (b :: t) s = Leb.loop d n t (Leb.step d s b) := by simp [Leb.loop, hc]
        rw [hl]
        obtain ⟨pre, e, k⟩ := ih t (Leb.step d s b)
        refine ⟨b :: pre, by rw [List.cons_append, ← e], fun hne rest' => ?_⟩
        have := k hne rest'
        simp [Leb.loop, hc, this]

theorem run_local (d : Reader.LebDecoder) (bs : Bytes) :
    ∃ pre, bs = pre ++ (Leb.run d bs).2 ∧
      ((Leb.run d bs).2 ≠ [] → ∀ rest', Leb.run d (pre ++ rest') = ((Leb.run d bs).1, rest')) := by
  obtain ⟨pre, e, k⟩ := loop_local d d.maxBytes bs Leb.St.init
  refine ⟨pre, e, fun hne rest' => ?_⟩
  have := k hne rest'
  simp only [Leb.run, this]

theorem readU_local (d : Reader.LebDecoder) (bs : Bytes) :
    ∃ pre, bs = pre ++ (Leb.readU d bs).rest ∧
      ((Leb.readU d bs).rest ≠ [] → ∀ rest', Leb.readU d (pre ++ rest') = { Leb.readU d bs with rest := rest' }) := by
  obtain ⟨pre, e1, k⟩ := run_local d bs
  refine ⟨pre, e1, fun hne rest' => ?_⟩
  have := k hne rest'
  simp only [Leb.readU, this]

theorem readS_local (d : Reader.LebDecoder) (bs : Bytes) :
    ∃ pre, bs = pre ++ (Leb.readS d bs).rest ∧
      ((Leb.readS d bs).rest ≠ [] → ∀ rest', Leb.readS d (pre ++ rest') = { Leb.readS d bs with rest := rest' }) := by
  obtain ⟨pre, e1, k⟩ := run_local d bs
  refine ⟨pre, e1, fun hne rest' => ?_⟩
  have := k hne rest'
  simp only [Leb.readS, this]

theorem u32_run (e : Nat) (bs : Bytes) :
    u32 e bs = if (Leb.readU32 bs).count = 0 then .err e else .ok ((Leb.readU32 bs).value, (Leb.readU32 bs).rest) := rfl

theorem i32_run (e : Nat) (bs : Bytes) :
    i32 e bs = if (Leb.readI32 bs).count = 0 then .err e else .ok ((Leb.readI32 bs).value, (Leb.readI32 bs).rest) := rfl

theorem i64_run (strict : Bool) (e : Nat) (bs : Bytes) :
    i64 strict e bs = if (Leb.readI64 bs).count = 0 then .err e
      else if (strict && (Leb.readI64 bs).ub) = true then .ub .lebSignedShift
      else .ok ((Leb.readI64 bs).value, (Leb.readI64 bs).rest) := rfl

theorem stable_u32 (e : Nat) : Stable (u32 e) := by
  apply stable_of_local
  intro bs a rest h
  obtain ⟨pre, e1, k⟩ := readU_local Reader.leb128ReadU32 bs
  rw [u32_run] at h
  by_cases hcnt : (Leb.readU32 bs).count = 0
  · rw [if_pos hcnt] at h; cases h
  · rw [if_neg hcnt] at h
    cases h
    refine ⟨pre, e1, fun hne rest' => ⟨_, ?_, rfl⟩⟩
    have hk : Leb.readU32 (pre ++ rest') = { Leb.readU32 bs with rest := rest' } := k hne rest'
    rw [u32_run, hk]
    exact if_neg hcnt

theorem stable_i32 (e : Nat) : Stable (i32 e) := by
  apply stable_of_local
  intro bs a rest h
  obtain ⟨pre, e1, k⟩ := readS_local Reader.leb128ReadI32 bs
  rw [i32_run] at h
  by_cases hcnt : (Leb.readI32 bs).count = 0
  · rw [if_pos hcnt] at h; cases h
  · rw [if_neg hcnt] at h
    cases h
    refine ⟨pre, e1, fun hne rest' => ⟨_, ?_, rfl⟩⟩
    have hk : Leb.readI32 (pre ++ rest') = { Leb.readI32 bs with rest := rest' } := k hne rest'
    rw [i32_run, hk]
    exact if_neg hcnt

theorem stable_i64 (strict : Bool) (e : Nat) : Stable (i64 strict e) := by
  apply stable_of_local
  intro bs a rest h
  obtain ⟨pre, e1, k⟩ := readS_local Reader.leb128ReadI64 bs
  rw [i64_run] at h
  by_cases hcnt : (Leb.readI64 bs).count = 0
  · rw [if_pos hcnt] at h; cases h
  · rw [if_neg hcnt] at h
    by_cases hub : (strict && (Leb.readI64 bs).ub) = true
    · rw [if_pos hub] at h; cases h
    · rw [if_neg hub] at h
      cases h
      refine ⟨pre, e1, fun hne rest' => ⟨_, ?_, rfl⟩⟩
      have hk : Leb.readI64 (pre ++ rest') = { Leb.readI64 bs with rest := rest' } := k hne rest'
      rw [i64_run, hk]
      show (if (Leb.readI64 bs).count = 0 then _ else _) = _
      rw [if_neg hcnt]
      show (if (strict && (Leb.readI64 bs).ub) = true then _ else _) = _
      rw [if_neg hub]

theorem stable_takeExact (g : Bytes → Bytes) (e length : Nat) : Stable (takeExact g e length) := by
  apply stable_of_local
  intro bs a rest h
  have hrun : ∀ xs : Bytes, takeExact g e length xs =
      if xs.length < length then .err e else .ok (g (xs.take length), xs.drop length) := fun _ => rfl
  rw [hrun] at h
  by_cases hlen : bs.length < length
  · rw [if_pos hlen] at h; cases h
  · rw [if_neg hlen] at h
    cases h
    refine ⟨bs.take length, (List.take_append_drop length bs).symm, fun _ rest' => ⟨_, ?_, rfl⟩⟩
    have hl : (bs.take length).length = length := by rw [List.length_take]; omega
    rw [hrun]
    have : ¬ (bs.take length ++ rest').length < length := by rw [List.length_append, hl]; omega
    rw [if_neg this, List.take_left' hl, List.drop_left' hl]

theorem stable_name (e : Nat) : Stable (name e) :=
  stable_bind_eq (stable_u32 e) (fun l => stable_takeExact _ e l)

theorem stable_bytesVec (e : Nat) : Stable (bytesVec e) :=
  stable_bind_eq (stable_u32 e) (fun l => stable_takeExact _ e l)

/-! ### loops and slices -/

theorem stable_vec {α : Type} {p : P α} (hp : Stable p) : ∀ n, Stable (vec p n) := by
  intro n
  induction n with
  | zero => exact stable_pure rfl
  | succ n ih =>
    show Stable (p >>= fun a => vec p n >>= fun as => pure (a :: as))
    exact stable_bind_eq hp (fun a => stable_bind_eq ih (fun as => stable_pure rfl))

theorem stable_iter {σ τ : Type} {R : σ → τ → Prop} {f : σ → P σ} {g : τ → P τ}
    (hf : ∀ s t, R s t → StableR R (f s) (g t)) :
    ∀ n s t, R s t → StableR R (iter f n s) (iter g n t) := by
  intro n
  induction n with
  | zero => intro s t h; exact stable_pure h
  | succ n ih =>
    intro s t h
    show StableR R (f s >>= fun s' => iter f n s') (g t >>= fun t' => iter g n t')
    exact stable_bind (hf s t h) (fun s' t' h' => ih s' t' h')

theorem sliced_run (p : P Unit) (bs : Bytes) :
    sliced p bs = match p bs with
      | .ok ((), rest) => .ok (bs.take (bs.length - rest.length), rest)
      | .err c => .err c
      | .ub u => .ub u := rfl

theorem stable_sliced {p : P Unit} (hp : Stable p) : Stable (sliced p) := by
  apply stable_of_local
  intro bs a rest h
  rw [sliced_run] at h
  cases hpr : p bs with
  | ok x =>
    obtain ⟨u, r⟩ := x
    rw [hpr] at h
    cases h
    obtain ⟨_, pre, e1, k⟩ := hp bs () rest hpr
    have hlen : bs.length - rest.length = pre.length := by rw [e1, List.length_append]; omega
    refine ⟨pre, e1, fun hne rest' => ⟨_, ?_, rfl⟩⟩
    obtain ⟨u, hq, _⟩ := k hne rest'
    rw [sliced_run, hq]
    have h1 : bs.take (bs.length - rest.length) = pre := by
      rw [hlen]; conv => lhs; rw [e1]
      exact List.take_left' rfl
    have h2 : (pre ++ rest').take ((pre ++ rest').length - rest'.length) = pre := by
      rw [List.length_append, Nat.add_sub_cancel]; exact List.take_left' rfl
    show Res.ok (_, rest') = Res.ok (_, rest')
    rw [h1, h2]
  | err c => rw [hpr] at h; cases h
  | ub u => rw [hpr] at h; cases h

theorem stable_pure_eq {α : Type} (a : α) : Stable (pure a : P α) := stable_pure rfl
theorem stable_fail_eq {α : Type} (e : Nat) : Stable (P.fail e : P α) := stable_fail e _
theorem stable_undefined_eq {α : Type} (u : UB) : Stable (P.undefined u : P α) := stable_undefined u _
theorem stable_ite_eq {α : Type} {c : Prop} [Decidable c] {p p' : P α}
    (h1 : c → Stable p) (h2 : ¬ c → Stable p') : Stable (if c then p else p') := stable_ite h1 h2
theorem stable_of_eq {α : Type} {p : P α} (h : StableR Eq p p) : Stable p := h
theorem stable_to_eq {α : Type} {p : P α} (h : Stable p) : StableR Eq p p := h

/-- what a successful reader left is a suffix of what it was given -/
theorem StableR.suffix {α β : Type} {R : α → β → Prop} {p : P α} {q : P β} (h : StableR R p q)
    {bs : Bytes} {a : α} {rest : Bytes} (hp : p bs = .ok (a, rest)) : ∃ pre, bs = pre ++ rest :=
  let ⟨_, pre, e, _⟩ := h bs a rest hp; ⟨pre, e⟩

theorem StableR.same {α β : Type} {R : α → β → Prop} {p : P α} {q : P β} (h : StableR R p q)
    {bs : Bytes} {a : α} {rest : Bytes} (hp : p bs = .ok (a, rest)) : ∃ b, q bs = .ok (b, rest) ∧ R a b :=
  (h bs a rest hp).1

theorem StableR.local {α β : Type} {R : α → β → Prop} {p : P α} {q : P β} (h : StableR R p q)
    {bs : Bytes} {a : α} {rest : Bytes} (hp : p bs = .ok (a, rest)) (hne : rest ≠ []) :
    ∃ pre, bs = pre ++ rest ∧ ∀ rest', ∃ b, q (pre ++ rest') = .ok (b, rest') ∧ R a b :=
  let ⟨_, pre, e, k⟩ := h bs a rest hp; ⟨pre, e, k hne⟩

theorem Stable.suffix {α : Type} {p : P α} (h : Stable p) {bs : Bytes} {a : α} {rest : Bytes}
    (hp : p bs = .ok (a, rest)) : ∃ pre, bs = pre ++ rest := StableR.suffix h hp

theorem Stable.local {α : Type} {p : P α} (h : Stable p) {bs : Bytes} {a : α} {rest : Bytes}
    (hp : p bs = .ok (a, rest)) (hne : rest ≠ []) :
    ∃ pre, bs = pre ++ rest ∧ ∀ rest', p (pre ++ rest') = .ok (a, rest') := by
  obtain ⟨pre, e, k⟩ := StableR.local h hp hne
  refine ⟨pre, e, fun rest' => ?_⟩
  obtain ⟨b, hq, hab⟩ := k rest'
  subst hab; exact hq

theorem StableR.intro {α β : Type} {R : α → β → Prop} {p : P α} {q : P β}
    (h : ∀ bs a rest, p bs = .ok (a, rest) →
      (∃ b, q bs = .ok (b, rest) ∧ R a b) ∧
      ∃ pre, bs = pre ++ rest ∧ (rest ≠ [] → ∀ rest', ∃ b, q (pre ++ rest') = .ok (b, rest') ∧ R a b)) :
    StableR R p q := h

/-! From here on stability is used through the lemmas above only. -/
attribute [irreducible] Stable StableR

end W2c2Verif.Lemmas.Reader
