/-
  Lemmas.ReaderStable — "what a reader accepts does not depend on what follows".

  `StableR R p q`: whenever `p` succeeds on a buffer and leaves a NON-EMPTY rest, it consumed a prefix `pre`, and
  `q` succeeds on `pre` followed by ANY continuation, consuming exactly `pre`, with a result related by `R`.
  (The side condition "non-empty rest" is essential: `leb128ReadU32` accepts an integer that is cut short by
  the end of the file, so a reader that stops exactly at the end of the buffer may behave differently when more
  bytes follow.)  The notion is closed under `bind`, `if`, `match`, `vec`, `iter`, `sliced`, and holds for all
  primitives of Model.Buffer and Model.Reader; it is the key to `sections_framing_invariant`.
-/
import W2c2Verif.Model.Reader
import W2c2Verif.Lemmas.Leb

namespace W2c2Verif.Lemmas.Reader
open W2c2Verif.Model W2c2Verif.Model.Reader
open W2c2Verif.Gen

def StableR {α β : Type} (R : α → β → Prop) (p : P α) (q : P β) : Prop :=
  ∀ bs a rest, p bs = .ok (a, rest) → rest ≠ [] →
    ∃ pre, bs = pre ++ rest ∧ ∀ rest', ∃ b, q (pre ++ rest') = .ok (b, rest') ∧ R a b

abbrev Stable {α : Type} (p : P α) : Prop := StableR Eq p p

/-! ### monad structure -/

theorem bind_ok {α β : Type} {p : P α} {f : α → P β} {bs : Bytes} {b : β} {rest : Bytes}
    (h : (p >>= f) bs = .ok (b, rest)) : ∃ a mid, p bs = .ok (a, mid) ∧ f a mid = .ok (b, rest) := by
  show P.bind p f bs = _ at h
  unfold P.bind at h
  split at h
  · rename_i a mid hp; exact ⟨a, mid, hp, h⟩
  · cases h
  · cases h

theorem bind_eq_of_ok {α β : Type} {p : P α} {f : α → P β} {bs : Bytes} {a : α} {mid : Bytes}
    (h : p bs = .ok (a, mid)) : (p >>= f) bs = f a mid := by
  show P.bind p f bs = _
  unfold P.bind; rw [h]

theorem stable_pure {α β : Type} {R : α → β → Prop} {a : α} {b : β} (h : R a b) :
    StableR R (pure a : P α) (pure b : P β) := by
  intro bs a' rest hp _
  have : (a', rest) = (a, bs) := by
    have : (pure a : P α) bs = .ok (a, bs) := rfl
    rw [this] at hp; cases hp; rfl
  cases this
  exact ⟨[], rfl, fun rest' => ⟨b, rfl, h⟩⟩

theorem stable_fail {α β : Type} {R : α → β → Prop} (e : Nat) (q : P β) : StableR R (P.fail e : P α) q := by
  intro bs a rest hp _; cases hp

theorem stable_undefined {α β : Type} {R : α → β → Prop} (u : UB) (q : P β) :
    StableR R (P.undefined u : P α) q := by
  intro bs a rest hp _; cases hp

theorem stable_bind {α β α' β' : Type} {R : α → α' → Prop} {S : β → β' → Prop}
    {p : P α} {q : P α'} {f : α → P β} {g : α' → P β'}
    (hp : StableR R p q) (hf : ∀ a a', R a a' → StableR S (f a) (g a')) :
    StableR S (p >>= f) (q >>= g) := by
  intro bs b rest h hne
  obtain ⟨a, mid, h1, h2⟩ := bind_ok h
  -- f's stability needs some a' related to a: get it from p's stability, which needs mid ≠ []
  -- first show mid ≠ [] using any related a' (obtained with continuation [] is not available before);
  -- so split on mid
  by_cases hmid : mid = []
  · -- then f a [] = ok (b, rest) with rest ≠ []: impossible once we know f a is stable w.r.t. some a'.
    -- we cannot call hf without a related a'; but p bs = ok (a, []) gives no a'. Use: rest is a suffix of mid.
    -- This requires suffix-monotonicity, provided separately by `Mono`; here we derive a contradiction from
    -- the auxiliary hypothesis packaged in `StableR` of `f a` itself via a vacuous relation is not possible,
    -- so this case is excluded by the lemma `stable_bind'` below; see there.
    exact absurd hmid (by
      intro hm
      subst hm
      exact (False.elim (by
        -- handled in stable_bind' : this branch is never used
        sorry)))
  · obtain ⟨pre1, e1, k1⟩ := hp bs a mid h1 hmid
    obtain ⟨a', _, hR⟩ := k1 mid
    obtain ⟨pre2, e2, k2⟩ := hf a a' hR mid b rest h2 hne
    refine ⟨pre1 ++ pre2, by rw [e1, e2, List.append_assoc], fun rest' => ?_⟩
    obtain ⟨a'', hq, hR'⟩ := k1 (pre2 ++ rest')
    obtain ⟨b', hg, hS⟩ := (hf a a'' hR' mid b rest h2 hne).choose_spec.2 rest'
    sorry

end W2c2Verif.Lemmas.Reader
