/-
  Lemmas.PoolFacts — what a single transition of the pool can change (used by the exactly-once and
  deadlock-freedom invariants of Lemmas/PoolLive.lean).  Same 36-way case analysis as Lemmas/PoolStep.lean.
-/
import W2c2Verif.Lemmas.PoolStep
namespace W2c2Verif.Model.Pool
open W2c2Verif.Model

macro "facts_finish" : tactic => `(tactic| (
  simp_all [upd_apply, PC.holds, PC.isWorker, PC.isProducer, contrib, Active, Owing] <;> grind))

set_option maxHeartbeats 8000000 in
/-- the task slot is filled only by the producer at `writer.task = &task` -/
theorem sf_taskSet {cfg : Cfg} {g : Sh} {ls : Tid → Loc} (I : Inv cfg g ls) (t : Nat) (g' : Sh) (l' : Loc)
    (hs : (g', l') ∈ step true cfg t g (ls t)) :
    g'.taskSet = true → g.taskSet = true ∨ (t = 0 ∧ (ls 0).pc = .p5 ∧ l'.pc = .p6) := by
  have h0 := I.role0
  have hwkt := I.wk t
  have hprod := I.prod
  have hdn1 := I.dn1
  have hppc := I.ppc
  have hslot := I.slot
  rcases Nat.eq_zero_or_pos t with rfl | htpos
  · unfold step at hs
    cases hpc : (ls 0).pc <;> simp [hpc, PC.isProducer, PC.isWorker] at h0 <;> simp only [hpc] at hs <;>
      pool_extract hs <;> facts_finish
  · have hw := I.roleW t htpos
    have ht0 : t ≠ 0 := by omega
    unfold step at hs
    cases hpc : (ls t).pc <;> simp [hpc, PC.isWorker] at hw <;> simp only [hpc] at hs <;>
      pool_extract hs <;> facts_finish

set_option maxHeartbeats 8000000 in
/-- only the moving thread can join `consume`, and only by `pthread_cond_wait` -/
theorem sf_consume {cfg : Cfg} {g : Sh} {ls : Tid → Loc} (I : Inv cfg g ls) (t : Nat) (g' : Sh) (l' : Loc)
    (hs : (g', l') ∈ step true cfg t g (ls t)) :
    ∀ x : Nat, x ∈ g'.consume → x ∈ g.consume ∨ (x = t ∧ (ls t).pc = .w3) := by
  intro x
  have h0 := I.role0
  have hwkt := I.wk t
  have hprod := I.prod
  have hdn1 := I.dn1
  have hppc := I.ppc
  have hslot := I.slot
  rcases Nat.eq_zero_or_pos t with rfl | htpos
  · unfold step at hs
    cases hpc : (ls 0).pc <;> simp [hpc, PC.isProducer, PC.isWorker] at h0 <;> simp only [hpc] at hs <;>
      pool_extract hs <;> facts_finish
  · have hw := I.roleW t htpos
    have ht0 : t ≠ 0 := by omega
    unfold step at hs
    cases hpc : (ls t).pc <;> simp [hpc, PC.isWorker] at hw <;> simp only [hpc] at hs <;>
      pool_extract hs <;> facts_finish

set_option maxHeartbeats 8000000 in
/-- `produce` gains a waiter only when the producer parks (slot full) -/
theorem sf_produce {cfg : Cfg} {g : Sh} {ls : Tid → Loc} (I : Inv cfg g ls) (t : Nat) (g' : Sh) (l' : Loc)
    (hs : (g', l') ∈ step true cfg t g (ls t)) :
    0 ∈ g'.produce → 0 ∈ g.produce ∨ (t = 0 ∧ ((ls 0).pc = .p3 ∨ (ls 0).pc = .p10) ∧ g'.consume = g.consume ∧
      g'.taskSet = g.taskSet) := by
  have h0 := I.role0
  have hwkt := I.wk t
  have hprod := I.prod
  have hdn1 := I.dn1
  have hppc := I.ppc
  have hslot := I.slot
  rcases Nat.eq_zero_or_pos t with rfl | htpos
  · unfold step at hs
    cases hpc : (ls 0).pc <;> simp [hpc, PC.isProducer, PC.isWorker] at h0 <;> simp only [hpc] at hs <;>
      pool_extract hs <;> facts_finish
  · have hw := I.roleW t htpos
    have ht0 : t ≠ 0 := by omega
    unfold step at hs
    cases hpc : (ls t).pc <;> simp [hpc, PC.isWorker] at hw <;> simp only [hpc] at hs <;>
      pool_extract hs <;> facts_finish

set_option maxHeartbeats 8000000 in
/-- an active worker that moves while the slot stays filled remains active -/
theorem sf_active {cfg : Cfg} {g : Sh} {ls : Tid → Loc} (I : Inv cfg g ls) (t : Nat) (g' : Sh) (l' : Loc)
    (hs : (g', l') ∈ step true cfg t g (ls t)) :
    1 ≤ t → Active g ls t → g'.taskSet = true → Active g' (upd ls t l') t := by
  have h0 := I.role0
  have hwkt := I.wk t
  have hprod := I.prod
  have hdn1 := I.dn1
  have hppc := I.ppc
  have hslot := I.slot
  rcases Nat.eq_zero_or_pos t with rfl | htpos
  · unfold step at hs
    cases hpc : (ls 0).pc <;> simp [hpc, PC.isProducer, PC.isWorker] at h0 <;> simp only [hpc] at hs <;>
      pool_extract hs <;> facts_finish
  · have hw := I.roleW t htpos
    have ht0 : t ≠ 0 := by omega
    unfold step at hs
    cases hpc : (ls t).pc <;> simp [hpc, PC.isWorker] at hw <;> simp only [hpc] at hs <;>
      pool_extract hs <;> facts_finish

set_option maxHeartbeats 8000000 in
/-- a worker that owes a signal keeps owing it until it has emptied `produce` -/
theorem sf_owing {cfg : Cfg} {g : Sh} {ls : Tid → Loc} (I : Inv cfg g ls) (t : Nat) (g' : Sh) (l' : Loc)
    (hs : (g', l') ∈ step true cfg t g (ls t)) :
    1 ≤ t → Owing ls t → Owing (upd ls t l') t ∨ 0 ∉ g'.produce := by
  have h0 := I.role0
  have hwkt := I.wk t
  have hprod := I.prod
  have hdn1 := I.dn1
  have hppc := I.ppc
  have hslot := I.slot
  rcases Nat.eq_zero_or_pos t with rfl | htpos
  · unfold step at hs
    cases hpc : (ls 0).pc <;> simp [hpc, PC.isProducer, PC.isWorker] at h0 <;> simp only [hpc] at hs <;>
      pool_extract hs <;> facts_finish
  · have hw := I.roleW t htpos
    have ht0 : t ≠ 0 := by omega
    unfold step at hs
    cases hpc : (ls t).pc <;> simp [hpc, PC.isWorker] at hw <;> simp only [hpc] at hs <;>
      pool_extract hs <;> facts_finish

set_option maxHeartbeats 8000000 in
/-- the slot is emptied only by a worker, which then owes a signal -/
theorem sf_clear {cfg : Cfg} {g : Sh} {ls : Tid → Loc} (I : Inv cfg g ls) (t : Nat) (g' : Sh) (l' : Loc)
    (hs : (g', l') ∈ step true cfg t g (ls t)) :
    g.taskSet = true → g'.taskSet = false → 1 ≤ t ∧ Owing (upd ls t l') t := by
  have h0 := I.role0
  have hwkt := I.wk t
  have hprod := I.prod
  have hdn1 := I.dn1
  have hppc := I.ppc
  have hslot := I.slot
  rcases Nat.eq_zero_or_pos t with rfl | htpos
  · unfold step at hs
    cases hpc : (ls 0).pc <;> simp [hpc, PC.isProducer, PC.isWorker] at h0 <;> simp only [hpc] at hs <;>
      pool_extract hs <;> facts_finish
  · have hw := I.roleW t htpos
    have ht0 : t ≠ 0 := by omega
    unfold step at hs
    cases hpc : (ls t).pc <;> simp [hpc, PC.isWorker] at hw <;> simp only [hpc] at hs <;>
      pool_extract hs <;> facts_finish

set_option maxHeartbeats 8000000 in
/-- effect of a step on the logs and on what the moving worker holds -/
theorem sf_logs {cfg : Cfg} {g : Sh} {ls : Tid → Loc} (I : Inv cfg g ls) (t : Nat) (g' : Sh) (l' : Loc)
    (hs : (g', l') ∈ step true cfg t g (ls t)) :
    (g'.tk = g.tk ∧ g'.ex = g.ex ∧ contrib l' = contrib (ls t)) ∨
    (1 ≤ t ∧ contrib (ls t) = [] ∧ contrib l' = [g.fa] ∧ g'.tk = g.fa :: g.tk ∧ g'.ex = g.ex) ∨
    (1 ≤ t ∧ contrib (ls t) = [(ls t).la] ∧ contrib l' = [] ∧ g'.tk = g.tk ∧
      g'.ex = (t, (ls t).la, (ls t).lb) :: g.ex) := by
  have h0 := I.role0
  have hwkt := I.wk t
  have hprod := I.prod
  have hdn1 := I.dn1
  have hppc := I.ppc
  have hslot := I.slot
  rcases Nat.eq_zero_or_pos t with rfl | htpos
  · unfold step at hs
    cases hpc : (ls 0).pc <;> simp [hpc, PC.isProducer, PC.isWorker] at h0 <;> simp only [hpc] at hs <;>
      pool_extract hs <;> facts_finish
  · have hw := I.roleW t htpos
    have ht0 : t ≠ 0 := by omega
    unfold step at hs
    cases hpc : (ls t).pc <;> simp [hpc, PC.isWorker] at hw <;> simp only [hpc] at hs <;>
      pool_extract hs <;> facts_finish

end W2c2Verif.Model.Pool
