import W2c2Verif.Lemmas.FutexInvB

/-!
  Lemmas.FutexInv2 — second layer of the invariant (`InvB`, on top of `InvA`): the ghost log of
  Waiting→Notified transitions (`marks`), the notifier's counter and cursor, the "a Notified waiter
  is never left parked" fact, and the bookkeeping behind the return values of wait.
-/
namespace W2c2Verif.Futex
open W2c2Verif.Threads

/-- the marks made by the `k`-th operation of thread `t` -/
def marksOf (g : G) (t : Tid) (k : Nat) : List Mark :=
  g.marks.filter (fun m => decide (m.tid = t ∧ m.serial = k))

/-- pcs of wait at which the locked load has compared equal -/
def PC.afterCompare : PC → Bool
  | .wAlloc | .wMapCreate | .wMapGet | .wMapInsert | .wPrepend | .wCondWait | .wParked | .wCheck
  | .wIsTimeout | .wRemove | .wMapRemove | .wFree | .wUnlock => true
  | _ => false

/-- pcs of wait after `isTimeout` has been assigned -/
def PC.afterIsTimeout : PC → Bool
  | .wRemove | .wMapRemove | .wFree | .wUnlock => true
  | _ => false

/-- pcs of wait between allocating the wait record and the first `cond_wait` on it (and back at the
    `cond_wait` after a wake-up that found it still Waiting) -/
def PC.preWait : PC → Bool
  | .wMapCreate | .wMapGet | .wMapInsert | .wPrepend | .wCondWait => true
  | _ => false

/-- pcs of notify at which marks of the current call may exist -/
def PC.inLoop : PC → Bool
  | .nLoop | .nSignal | .nUnlock => true
  | _ => false

@[simp, grind =] theorem PC.afterCompare_idle : PC.afterCompare .idle = false := rfl
@[simp, grind =] theorem PC.afterCompare_wLock : PC.afterCompare .wLock = false := rfl
@[simp, grind =] theorem PC.afterCompare_wLoad : PC.afterCompare .wLoad = false := rfl
@[simp, grind =] theorem PC.afterCompare_wUnlockNe : PC.afterCompare .wUnlockNe = false := rfl
@[simp, grind =] theorem PC.afterCompare_wAlloc : PC.afterCompare .wAlloc = true := rfl
@[simp, grind =] theorem PC.afterCompare_wMapCreate : PC.afterCompare .wMapCreate = true := rfl
@[simp, grind =] theorem PC.afterCompare_wMapGet : PC.afterCompare .wMapGet = true := rfl
@[simp, grind =] theorem PC.afterCompare_wMapInsert : PC.afterCompare .wMapInsert = true := rfl
@[simp, grind =] theorem PC.afterCompare_wPrepend : PC.afterCompare .wPrepend = true := rfl
@[simp, grind =] theorem PC.afterCompare_wCondWait : PC.afterCompare .wCondWait = true := rfl
@[simp, grind =] theorem PC.afterCompare_wParked : PC.afterCompare .wParked = true := rfl
@[simp, grind =] theorem PC.afterCompare_wCheck : PC.afterCompare .wCheck = true := rfl
@[simp, grind =] theorem PC.afterCompare_wIsTimeout : PC.afterCompare .wIsTimeout = true := rfl
@[simp, grind =] theorem PC.afterCompare_wRemove : PC.afterCompare .wRemove = true := rfl
@[simp, grind =] theorem PC.afterCompare_wMapRemove : PC.afterCompare .wMapRemove = true := rfl
@[simp, grind =] theorem PC.afterCompare_wFree : PC.afterCompare .wFree = true := rfl
@[simp, grind =] theorem PC.afterCompare_wUnlock : PC.afterCompare .wUnlock = true := rfl
@[simp, grind =] theorem PC.afterCompare_nShared : PC.afterCompare .nShared = false := rfl
@[simp, grind =] theorem PC.afterCompare_nLock : PC.afterCompare .nLock = false := rfl
@[simp, grind =] theorem PC.afterCompare_nGetMap : PC.afterCompare .nGetMap = false := rfl
@[simp, grind =] theorem PC.afterCompare_nMapGet : PC.afterCompare .nMapGet = false := rfl
@[simp, grind =] theorem PC.afterCompare_nHead : PC.afterCompare .nHead = false := rfl
@[simp, grind =] theorem PC.afterCompare_nLoop : PC.afterCompare .nLoop = false := rfl
@[simp, grind =] theorem PC.afterCompare_nSignal : PC.afterCompare .nSignal = false := rfl
@[simp, grind =] theorem PC.afterCompare_nUnlock : PC.afterCompare .nUnlock = false := rfl
@[simp, grind =] theorem PC.afterCompare_sPoint : PC.afterCompare .sPoint = false := rfl
@[simp, grind =] theorem PC.afterCompare_crashed (k : Crash) : PC.afterCompare (.crashed k) = false := rfl
@[simp, grind =] theorem PC.afterIsTimeout_idle : PC.afterIsTimeout .idle = false := rfl
@[simp, grind =] theorem PC.afterIsTimeout_wLock : PC.afterIsTimeout .wLock = false := rfl
@[simp, grind =] theorem PC.afterIsTimeout_wLoad : PC.afterIsTimeout .wLoad = false := rfl
@[simp, grind =] theorem PC.afterIsTimeout_wUnlockNe : PC.afterIsTimeout .wUnlockNe = false := rfl
@[simp, grind =] theorem PC.afterIsTimeout_wAlloc : PC.afterIsTimeout .wAlloc = false := rfl
@[simp, grind =] theorem PC.afterIsTimeout_wMapCreate : PC.afterIsTimeout .wMapCreate = false := rfl
@[simp, grind =] theorem PC.afterIsTimeout_wMapGet : PC.afterIsTimeout .wMapGet = false := rfl
@[simp, grind =] theorem PC.afterIsTimeout_wMapInsert : PC.afterIsTimeout .wMapInsert = false := rfl
@[simp, grind =] theorem PC.afterIsTimeout_wPrepend : PC.afterIsTimeout .wPrepend = false := rfl
@[simp, grind =] theorem PC.afterIsTimeout_wCondWait : PC.afterIsTimeout .wCondWait = false := rfl
@[simp, grind =] theorem PC.afterIsTimeout_wParked : PC.afterIsTimeout .wParked = false := rfl
@[simp, grind =] theorem PC.afterIsTimeout_wCheck : PC.afterIsTimeout .wCheck = false := rfl
@[simp, grind =] theorem PC.afterIsTimeout_wIsTimeout : PC.afterIsTimeout .wIsTimeout = false := rfl
@[simp, grind =] theorem PC.afterIsTimeout_wRemove : PC.afterIsTimeout .wRemove = true := rfl
@[simp, grind =] theorem PC.afterIsTimeout_wMapRemove : PC.afterIsTimeout .wMapRemove = true := rfl
@[simp, grind =] theorem PC.afterIsTimeout_wFree : PC.afterIsTimeout .wFree = true := rfl
@[simp, grind =] theorem PC.afterIsTimeout_wUnlock : PC.afterIsTimeout .wUnlock = true := rfl
@[simp, grind =] theorem PC.afterIsTimeout_nShared : PC.afterIsTimeout .nShared = false := rfl
@[simp, grind =] theorem PC.afterIsTimeout_nLock : PC.afterIsTimeout .nLock = false := rfl
@[simp, grind =] theorem PC.afterIsTimeout_nGetMap : PC.afterIsTimeout .nGetMap = false := rfl
@[simp, grind =] theorem PC.afterIsTimeout_nMapGet : PC.afterIsTimeout .nMapGet = false := rfl
@[simp, grind =] theorem PC.afterIsTimeout_nHead : PC.afterIsTimeout .nHead = false := rfl
@[simp, grind =] theorem PC.afterIsTimeout_nLoop : PC.afterIsTimeout .nLoop = false := rfl
@[simp, grind =] theorem PC.afterIsTimeout_nSignal : PC.afterIsTimeout .nSignal = false := rfl
@[simp, grind =] theorem PC.afterIsTimeout_nUnlock : PC.afterIsTimeout .nUnlock = false := rfl
@[simp, grind =] theorem PC.afterIsTimeout_sPoint : PC.afterIsTimeout .sPoint = false := rfl
@[simp, grind =] theorem PC.afterIsTimeout_crashed (k : Crash) : PC.afterIsTimeout (.crashed k) = false := rfl
@[simp, grind =] theorem PC.inLoop_idle : PC.inLoop .idle = false := rfl
@[simp, grind =] theorem PC.inLoop_wLock : PC.inLoop .wLock = false := rfl
@[simp, grind =] theorem PC.inLoop_wLoad : PC.inLoop .wLoad = false := rfl
@[simp, grind =] theorem PC.inLoop_wUnlockNe : PC.inLoop .wUnlockNe = false := rfl
@[simp, grind =] theorem PC.inLoop_wAlloc : PC.inLoop .wAlloc = false := rfl
@[simp, grind =] theorem PC.inLoop_wMapCreate : PC.inLoop .wMapCreate = false := rfl
@[simp, grind =] theorem PC.inLoop_wMapGet : PC.inLoop .wMapGet = false := rfl
@[simp, grind =] theorem PC.inLoop_wMapInsert : PC.inLoop .wMapInsert = false := rfl
@[simp, grind =] theorem PC.inLoop_wPrepend : PC.inLoop .wPrepend = false := rfl
@[simp, grind =] theorem PC.inLoop_wCondWait : PC.inLoop .wCondWait = false := rfl
@[simp, grind =] theorem PC.inLoop_wParked : PC.inLoop .wParked = false := rfl
@[simp, grind =] theorem PC.inLoop_wCheck : PC.inLoop .wCheck = false := rfl
@[simp, grind =] theorem PC.inLoop_wIsTimeout : PC.inLoop .wIsTimeout = false := rfl
@[simp, grind =] theorem PC.inLoop_wRemove : PC.inLoop .wRemove = false := rfl
@[simp, grind =] theorem PC.inLoop_wMapRemove : PC.inLoop .wMapRemove = false := rfl
@[simp, grind =] theorem PC.inLoop_wFree : PC.inLoop .wFree = false := rfl
@[simp, grind =] theorem PC.inLoop_wUnlock : PC.inLoop .wUnlock = false := rfl
@[simp, grind =] theorem PC.inLoop_nShared : PC.inLoop .nShared = false := rfl
@[simp, grind =] theorem PC.inLoop_nLock : PC.inLoop .nLock = false := rfl
@[simp, grind =] theorem PC.inLoop_nGetMap : PC.inLoop .nGetMap = false := rfl
@[simp, grind =] theorem PC.inLoop_nMapGet : PC.inLoop .nMapGet = false := rfl
@[simp, grind =] theorem PC.inLoop_nHead : PC.inLoop .nHead = false := rfl
@[simp, grind =] theorem PC.inLoop_nLoop : PC.inLoop .nLoop = true := rfl
@[simp, grind =] theorem PC.inLoop_nSignal : PC.inLoop .nSignal = true := rfl
@[simp, grind =] theorem PC.inLoop_nUnlock : PC.inLoop .nUnlock = true := rfl
@[simp, grind =] theorem PC.inLoop_sPoint : PC.inLoop .sPoint = false := rfl
@[simp, grind =] theorem PC.inLoop_crashed (k : Crash) : PC.inLoop (.crashed k) = false := rfl

@[simp, grind =] theorem PC.preWait_idle : PC.preWait .idle = false := rfl
@[simp, grind =] theorem PC.preWait_wLock : PC.preWait .wLock = false := rfl
@[simp, grind =] theorem PC.preWait_wLoad : PC.preWait .wLoad = false := rfl
@[simp, grind =] theorem PC.preWait_wUnlockNe : PC.preWait .wUnlockNe = false := rfl
@[simp, grind =] theorem PC.preWait_wAlloc : PC.preWait .wAlloc = false := rfl
@[simp, grind =] theorem PC.preWait_wMapCreate : PC.preWait .wMapCreate = true := rfl
@[simp, grind =] theorem PC.preWait_wMapGet : PC.preWait .wMapGet = true := rfl
@[simp, grind =] theorem PC.preWait_wMapInsert : PC.preWait .wMapInsert = true := rfl
@[simp, grind =] theorem PC.preWait_wPrepend : PC.preWait .wPrepend = true := rfl
@[simp, grind =] theorem PC.preWait_wCondWait : PC.preWait .wCondWait = true := rfl
@[simp, grind =] theorem PC.preWait_wParked : PC.preWait .wParked = false := rfl
@[simp, grind =] theorem PC.preWait_wCheck : PC.preWait .wCheck = false := rfl
@[simp, grind =] theorem PC.preWait_wIsTimeout : PC.preWait .wIsTimeout = false := rfl
@[simp, grind =] theorem PC.preWait_wRemove : PC.preWait .wRemove = false := rfl
@[simp, grind =] theorem PC.preWait_wMapRemove : PC.preWait .wMapRemove = false := rfl
@[simp, grind =] theorem PC.preWait_wFree : PC.preWait .wFree = false := rfl
@[simp, grind =] theorem PC.preWait_wUnlock : PC.preWait .wUnlock = false := rfl
@[simp, grind =] theorem PC.preWait_nShared : PC.preWait .nShared = false := rfl
@[simp, grind =] theorem PC.preWait_nLock : PC.preWait .nLock = false := rfl
@[simp, grind =] theorem PC.preWait_nGetMap : PC.preWait .nGetMap = false := rfl
@[simp, grind =] theorem PC.preWait_nMapGet : PC.preWait .nMapGet = false := rfl
@[simp, grind =] theorem PC.preWait_nHead : PC.preWait .nHead = false := rfl
@[simp, grind =] theorem PC.preWait_nLoop : PC.preWait .nLoop = false := rfl
@[simp, grind =] theorem PC.preWait_nSignal : PC.preWait .nSignal = false := rfl
@[simp, grind =] theorem PC.preWait_nUnlock : PC.preWait .nUnlock = false := rfl
@[simp, grind =] theorem PC.preWait_sPoint : PC.preWait .sPoint = false := rfl
@[simp, grind =] theorem PC.preWait_crashed (k : Crash) : PC.preWait (.crashed k) = false := rfl

theorem PC.afterCompare_cases (p : PC) : p.afterCompare = true ↔
    p = .wAlloc ∨ p = .wMapCreate ∨ p = .wMapGet ∨ p = .wMapInsert ∨ p = .wPrepend ∨ p = .wCondWait ∨
    p = .wParked ∨ p = .wCheck ∨ p = .wIsTimeout ∨ p = .wRemove ∨ p = .wMapRemove ∨ p = .wFree ∨ p = .wUnlock := by
  cases p <;> simp [PC.afterCompare]

/-- what a completed wait reports, in terms of the ghost record -/
def WaitOutcome (g : G) (t : Tid) (k : Nat) (d : Done) (w64 : Bool) (a e : Nat) (to : Int) : Prop :=
  (d.ret = 1 ∧ d.loaded ≠ expected w64 e) ∨
  (d.ret = 0 ∧ d.loaded = expected w64 e ∧ d.sawWaiting = false ∧
     ∃ m ∈ g.marks, m.wait = (t, k) ∧ m.addr = a) ∨
  (d.ret = 2 ∧ d.loaded = expected w64 e ∧ d.sawWaiting = true ∧ d.timedOut = true ∧ 0 ≤ to ∧
     (g.waits (t, k)).status = .waiting)

structure InvB (B : Nat) (c : Cfg G L) : Prop where
  cur_wait : ∀ t, (c.locals t).pc.inWait = true →
    (c.locals t).cur = .wait (c.locals t).w64 (c.locals t).addr (c.locals t).expect (c.locals t).timeout
  cur_notify : ∀ t, (c.locals t).pc.inNotify = true →
    (c.locals t).cur = .notify (c.locals t).addr (c.locals t).count
  cur_store : ∀ t, (c.locals t).pc = .sPoint → ∃ a w v, (c.locals t).cur = .store a w v
  done_len : ∀ t, (c.locals t).done.length = (c.locals t).serial
  /-- each wait is marked (counted) at most once, over all notify calls -/
  marks_nodup : (c.g.marks.map (·.wait)).Nodup
  /-- status Notified is set exactly by the logged transitions -/
  notified_iff : ∀ w, (c.g.waits w).status = .notified ↔ w ∈ c.g.marks.map (·.wait)
  mark_alloc : ∀ m ∈ c.g.marks, m.wait.2 < (c.locals m.wait.1).serial ∨
    (m.wait.2 = (c.locals m.wait.1).serial ∧ (c.locals m.wait.1).pc.afterAlloc = true)
  /-- a notify marks only waits registered under its own address -/
  mark_addr : ∀ m ∈ c.g.marks, (c.g.waits m.wait).addr = m.addr
  mark_by : ∀ m ∈ c.g.marks, m.serial < (c.locals m.tid).serial ∨
    (m.serial = (c.locals m.tid).serial ∧ (c.locals m.tid).pc.inLoop = true ∧ m.addr = (c.locals m.tid).addr)
  /-- `notifiedCount` equals the number of marks of the running call (one ahead between marking and signalling) -/
  count_notify : ∀ t, (c.locals t).pc.inNotify = true →
    (marksOf c.g t (c.locals t).serial).length = (c.locals t).notified + (if (c.locals t).pc = .nSignal then 1 else 0)
  count_le : ∀ t, (c.locals t).pc.inNotify = true →
    (c.locals t).notified + (if (c.locals t).pc = .nSignal then 1 else 0) ≤ (c.locals t).count
  /-- the waits marked by a running notify call are (still) in the list it walks -/
  marks_listed : ∀ u, (c.locals u).pc.inLoop = true → ∀ m ∈ marksOf c.g u (c.locals u).serial,
    ∃ n, (c.locals u).slot = some n ∧ (c.g.nodes n).live = true ∧ m.wait ∈ (c.g.nodes n).waits
  /-- completed notify calls returned exactly their number of marks, at most `count`, all on their address -/
  done_notify : ∀ t k d, (c.locals t).done[k]? = some d → ∀ a n, d.op = .notify a n →
    d.ret = (marksOf c.g t k).length ∧ d.ret ≤ n ∧ ∀ m ∈ marksOf c.g t k, m.addr = a
  /-- a Notified waiter is not left parked: only while its notifier is between marking and signalling -/
  notified_unparked : ∀ t, (c.locals t).pc = .wParked → (c.g.waits (c.locals t).wait).status = .notified →
    (t, (c.locals t).wait) ∈ c.g.parked → ∃ u, (c.locals u).pc = .nSignal ∧ (c.locals u).cursor.head? = some (c.locals t).wait
  /-- the part of the list the notifier has walked past is all Notified -/
  walked : ∀ u n, ((c.locals u).pc = .nLoop ∨ (c.locals u).pc = .nSignal) → (c.locals u).slot = some n →
    ∀ w ∈ (c.g.nodes n).waits, w ∉ (c.locals u).cursor → (c.g.waits w).status = .notified
  signal_head : ∀ u, (c.locals u).pc = .nSignal → ∃ w rest, (c.locals u).cursor = w :: rest ∧ (c.g.waits w).status = .notified
  /-- when the notifier leaves its loop every enqueued waiter of the address is Notified, or `count` were -/
  unlock_ok : ∀ u, (c.locals u).pc = .nUnlock → ∀ t, (c.locals t).pc.enq = true → (c.locals t).addr = (c.locals u).addr →
    (c.g.waits (c.locals t).wait).status = .notified ∨ (c.locals u).notified = (c.locals u).count
  /-- the thread's wait record keeps its identity and address until the call returns -/
  wait_rec : ∀ t, (c.locals t).pc.afterAlloc = true →
    (c.locals t).wait = (t, (c.locals t).serial) ∧ (c.g.waits (c.locals t).wait).addr = (c.locals t).addr
  /-- a wait is (still) Waiting whenever its owner is about to block on it -/
  fresh_waiting : ∀ t, (c.locals t).pc.preWait = true → (c.g.waits (c.locals t).wait).status = .waiting
  loaded_ne : ∀ t, (c.locals t).pc = .wUnlockNe → (c.locals t).loaded ≠ expected (c.locals t).w64 (c.locals t).expect
  loaded_eq : ∀ t, (c.locals t).pc.afterCompare = true → (c.locals t).loaded = expected (c.locals t).w64 (c.locals t).expect
  timed_flag : ∀ t, (c.locals t).pc.inWait = true → (c.locals t).timedOut = true → 0 ≤ (c.locals t).timeout
  /-- the wait loop is left only Notified or after a timeout -/
  exit_ok : ∀ t, (c.locals t).pc = .wIsTimeout →
    (c.g.waits (c.locals t).wait).status = .notified ∨ (c.locals t).timedOut = true
  is_timeout : ∀ t, (c.locals t).pc.afterIsTimeout = true →
    ((c.locals t).isTimeout = true → (c.g.waits (c.locals t).wait).status = .waiting ∧ (c.locals t).timedOut = true) ∧
    ((c.locals t).isTimeout = false → (c.g.waits (c.locals t).wait).status = .notified)
  done_wait : ∀ t k d, (c.locals t).done[k]? = some d → ∀ w64 a e to, d.op = .wait w64 a e to →
    WaitOutcome c.g t k d w64 a e to

end W2c2Verif.Futex
