/-
  Lemmas.WasiImage — the POSIX image of a history of WASI calls: a reference executor that
  performs, for each of the C12 calls, the corresponding POSIX operation of `Spec.Posix`
  directly (`write`, `pwrite` at the full 64-bit offset, `readv`, `pread`, `lseek` with the
  specification's whence, `open` with the specification's flag mapping, `fstat` laid out as
  the specification says, `close`), with the same descriptor bookkeeping and marshalling.
-/
import W2c2Verif.Lemmas.WasiSpecTables
import W2c2Verif.Lemmas.WasiPositional

namespace W2c2Verif.Model.Wasi
open W2c2Verif W2c2Verif.Spec.Posix

/-- the guest's 64-bit offset argument as the signed `off_t` POSIX receives -/
def toOffT (v : Nat) : Int := (BitVec.ofNat 64 v).toInt

/-- filestat as the specification lays it out: `size` zero bytes, then each field LE at its offset -/
def storeFilestatSpec (abi : Abi) (w : MW) (p : Nat) (st : Stat) : Out MW := do
  let w0 ← w.store p (List.replicate (specFilestat abi).1 0)
  storeRows w0 p st ((specFilestat abi).2.map fun r => (r.1, r.2.1, r.2.2, 8 * r.2.2))

/-- the POSIX image of the read-only calls of C12 (the other calls are not part of C12 and are
    taken over unchanged) -/
def imageRO (abi : Abi) (s : St State) (c : ROCall) : Out (MW × State × Res) :=
  let w : MW := ⟨s.mem, []⟩
  match c with
  | .fdWrite n iovs cnt res =>
    match getDesc Cfg.ofGen s n with
    | none => ret w s.host BADF
    | some d =>
      if d.fd < 0 then ret w s.host BADF else
      doWrite posixHost w s.host iovs cnt res fun h bufs =>
        if bufs.length > IOV_MAX then (h, .err .EINVAL) else h.write d.fd bufs.flatten
  | .fdPwrite n iovs cnt off res =>
    match getDesc Cfg.ofGen s n with
    | none => ret w s.host BADF
    | some d =>
      if d.fd < 0 then ret w s.host BADF else
      doWrite posixHost w s.host iovs cnt res fun h bufs => h.pwrite d.fd bufs.flatten (toOffT off)
  | .fdRead n iovs cnt res =>
    match getDesc Cfg.ofGen s n with
    | none => ret w s.host BADF
    | some d =>
      if d.fd < 0 then ret w s.host BADF else
      doRead w s.host iovs cnt res fun h lens =>
        if lens.length > IOV_MAX then (h, .err .EINVAL) else h.readv d.fd lens
  | .fdPread n iovs cnt off res =>
    match getDesc Cfg.ofGen s n with
    | none => ret w s.host BADF
    | some d =>
      if d.fd < 0 then ret w s.host BADF else
      doRead w s.host iovs cnt res fun h lens => h.pread d.fd lens.sum (toOffT off)
  | .fdSeek n off wh res =>
    -- lseek(2): EBADF for an invalid descriptor comes before EINVAL for an invalid whence
    match getDesc Cfg.ofGen s n with
    | none => ret w s.host BADF
    | some d =>
      if d.fd < 0 then ret w s.host BADF else
      match specWhence abi wh with
      | none => ret w s.host INVAL
      | some wnc => finishSeek w res (s.host.lseek d.fd (toOffT off) wnc)
  | .fdTell n res =>
    match getDesc Cfg.ofGen s n with
    | none => ret w s.host BADF
    | some d =>
      if d.fd < 0 then ret w s.host BADF else
      finishSeek w res (s.host.lseek d.fd 0 .cur)
  | .fdFilestatGet n ptr =>
    match getDesc Cfg.ofGen s n with
    | none => ret w s.host BADF
    | some d => do
      match ← fdOrPathStat posixHost s d Cfg.ofGen.filestatNullPath with
      | .error e => ret w s.host e
      | .ok .unmodelled => retUnmodelled w s.host
      | .ok (.err e) => ret w s.host (wasiErrno e)
      | .ok (.ok st) => do
        let w' ← storeFilestatSpec abi w ptr st
        ret w' s.host 0
  | c => stepRO Cfg.ofGen posixHost abi s c

/-- the POSIX image of path_open: `open(resolved, spec access mode | spec flags, 0644)` -/
def imagePathOpen (s : St State) (dirfd _df pp pl oflags rights _ri fdflags fdPtr : Nat) : Out (St State × Res) :=
  let w : MW := ⟨s.mem, []⟩
  match pathPrologue Cfg.ofGen s w dirfd pp pl with
  | .ub k => .ub k
  | .trap t => .trap t
  | .oof => .oof
  | .val (.error e) => .val (s, .errno e [])
  | .val (.ok p) =>
    finishOpen posixHost s w (specOpenFlags oflags fdflags) fdPtr p
      (s.host.open p (specAcc rights) (specOpenFlags oflags fdflags))

def imageStep (abi : Abi) (s : St State) : Call → Out (St State × Res)
  | .ro c => (imageRO abi s c).map' fun (w, h, r) => ({ s with mem := w.mem, host := h }, r)
  | .pathOpen a b c d e f g h i => imagePathOpen s a b c d e f g h i
  | c => step Cfg.ofGen posixHost abi s c          -- fd_close = POSIX close; fd_readdir is C14

def runImage (s : St State) : List (Abi × Call) → Out (St State × List Res)
  | [] => .val (s, [])
  | (abi, c) :: rest => do
    let (s1, r) ← imageStep abi s c
    let (s2, rs) ← runImage s1 rest
    .val (s2, r :: rs)

/-- the side conditions under which the emulation in `wasi.c` coincides with the POSIX
    operation (everything else coincides unconditionally):
    positional calls — the descriptor is a regular file, the offset is below 2^63 and within the
    file system's largest offset, at most IOV_MAX segments; fd_seek — the offset is a 64-bit value -/
def Good (abi : Abi) (s : St State) : Call → Prop
  | .ro (.fdPwrite n _ cnt off _) | .ro (.fdPread n _ cnt off _) =>
    ∀ d, getDesc Cfg.ofGen s n = some d → 0 ≤ d.fd →
      off < 2 ^ 63 ∧ off ≤ s.host.maxBytes ∧ cnt ≤ IOV_MAX ∧
      ∃ ino pos acc flags f, IsFile s.host d.fd ino pos acc flags f ∧ f.size ≤ s.host.maxBytes
  | .ro (.fdSeek _ off _ _) => off < 2 ^ 64
  | _ => True

def GoodRun : St State → List (Abi × Call) → Prop
  | _, [] => True
  | s, (abi, c) :: rest =>
    Good abi s c ∧ ∀ s1 r, step Cfg.ofGen posixHost abi s c = .val (s1, r) → GoodRun s1 rest

theorem toOffT_small (v : Nat) (h : v < 2 ^ 63) : toOffT v = (v : Int) := by
  unfold toOffT
  rw [BitVec.toInt_eq_toNat_cond]
  simp only [BitVec.toNat_ofNat]
  have h1 : v % 2 ^ 64 = v := Nat.mod_eq_of_lt (by omega)
  rw [h1]
  have : 2 * v < 2 ^ 64 := by omega
  rw [if_pos this]

theorem asOffT_64_eq_toOffT (v : Nat) (h : v < 2 ^ 64) : asOffT 64 v = toOffT v := by
  unfold asOffT toOffT
  rw [BitVec.toInt_eq_toNat_cond]
  simp only [BitVec.toNat_ofNat, Nat.mod_eq_of_lt h]
  by_cases hb : v ≥ 2 ^ 63
  · have : 64 ≥ 64 ∧ v ≥ 2 ^ 63 := ⟨Nat.le_refl _, hb⟩
    rw [if_pos this]
    have h2 : ¬ 2 * v < 2 ^ 64 := by omega
    rw [if_neg h2]
    norm_cast
  · have : ¬ (64 ≥ 64 ∧ v ≥ 2 ^ 63) := by omega
    rw [if_neg this]
    have h2 : 2 * v < 2 ^ 64 := by omega
    rw [if_pos h2]

theorem storeFilestat_eq_spec (abi : Abi) (w : MW) (p : Nat) (st : Stat) :
    storeFilestat abi w p st = storeFilestatSpec abi w p st := by cases abi <;> rfl

end W2c2Verif.Model.Wasi

namespace W2c2Verif.Model.Wasi
open W2c2Verif W2c2Verif.Spec.Posix

theorem whenceOf_eq_spec (abi : Abi) (v : Nat) : whenceOf abi v = specWhence abi v := by
  cases abi <;>
  · match v with
    | 0 => rfl
    | 1 => rfl
    | 2 => rfl
    | _ + 3 => rfl

theorem openFlags_eq_spec (oflags fdflags : Nat) : openFlags oflags fdflags = specOpenFlags oflags fdflags := by
  simp only [openFlags, specOpenFlags, Gen.Wasi.oflagsMap, Gen.Wasi.fdflagsMap, hasBit, List.filter]
  cases (oflags &&& 1 != 0) <;> cases (oflags &&& 2 != 0) <;> cases (oflags &&& 4 != 0) <;>
    cases (oflags &&& 8 != 0) <;> cases (fdflags &&& 1 != 0) <;> cases (fdflags &&& 2 != 0) <;>
    cases (fdflags &&& 4 != 0) <;> cases (fdflags &&& 16 != 0) <;> rfl

theorem openAcc_eq_spec (rights : Nat) : openAcc rights = specAcc rights := by
  simp only [openAcc, specAcc, Gen.Wasi.accessMode, Gen.Wasi.readRightsMask, Gen.Wasi.writeRightsMask, hasBit]
  rfl

/-- one read-only call equals its POSIX image -/
theorem stepRO_eq_image (abi : Abi) (s : St State) (c : ROCall) (hg : Good abi s (.ro c)) :
    stepRO Cfg.ofGen posixHost abi s c = imageRO abi s c := by
  have hpw : Cfg.ofGen.pwriteOffsetBits abi = 64 := by cases abi <;> rfl
  have hpr : Cfg.ofGen.preadOffsetBits abi = 64 := by cases abi <;> rfl
  have hsk : Cfg.ofGen.seekOffsetBits abi = 64 := by cases abi <;> rfl
  cases c with
  | fdWrite n iovs cnt res =>
    simp only [stepRO, imageRO]
    cases getDesc Cfg.ofGen s n with
    | none => rfl
    | some d => simp only [posixHost]
  | fdRead n iovs cnt res =>
    simp only [stepRO, imageRO]
    cases getDesc Cfg.ofGen s n with
    | none => rfl
    | some d => simp only [posixHost]
  | fdPwrite n iovs cnt off res =>
    simp only [stepRO, imageRO]
    cases hd : getDesc Cfg.ofGen s n with
    | none => rfl
    | some d =>
      simp only
      by_cases hneg : d.fd < 0
      · simp only [hneg, ↓reduceIte]
      · simp only [hneg, ↓reduceIte]
        obtain ⟨ho63, hoff, hcnt, ino, pos, acc, flags, f, hf, _⟩ := hg d hd (by omega)
        rw [hpw, asOffT_64 off ho63, toOffT_small off ho63]
        apply doWrite_congr
        intro bufs hl
        exact wrapPositional_writev_eq_pwrite hf off hoff bufs (by omega)
  | fdPread n iovs cnt off res =>
    simp only [stepRO, imageRO]
    cases hd : getDesc Cfg.ofGen s n with
    | none => rfl
    | some d =>
      simp only
      by_cases hneg : d.fd < 0
      · simp only [hneg, ↓reduceIte]
      · simp only [hneg, ↓reduceIte]
        obtain ⟨ho63, hoff, hcnt, ino, pos, acc, flags, f, hf, hsz⟩ := hg d hd (by omega)
        rw [hpr, asOffT_64 off ho63, toOffT_small off ho63]
        apply doRead_congr
        intro lens hl
        by_cases hz : lens.sum = 0
        · exact wrapPositional_readv_zero hf off hoff lens hz (by omega)
        · exact wrapPositional_readv_eq_pread hf off hoff lens hz (by omega) hsz
  | fdSeek n off wh res =>
    have ho : off < 2 ^ 64 := hg
    have hwf : Cfg.ofGen.seekChecksWhenceFirst = false := rfl
    simp only [stepRO, imageRO, hwf, Bool.false_eq_true, ↓reduceIte, whenceOf_eq_spec]
    cases hd : getDesc Cfg.ofGen s n with
    | none => rfl
    | some d =>
      simp only
      by_cases hneg : d.fd < 0
      · simp only [hneg, ↓reduceIte]
      · simp only [hneg, ↓reduceIte]
        cases specWhence abi wh with
        | none => rfl
        | some w =>
          simp only [doSeek, hd, hneg, ↓reduceIte, hsk, asOffT_64_eq_toOffT off ho, posixHost]
  | fdTell n res =>
    simp only [stepRO, imageRO, doSeek, posixHost]
    cases getDesc Cfg.ofGen s n <;> rfl
  | fdFilestatGet n ptr =>
    simp only [stepRO, imageRO, storeFilestat_eq_spec]
    cases getDesc Cfg.ofGen s n with
    | none => rfl
    | some d =>
      simp only
      cases fdOrPathStat posixHost s d Cfg.ofGen.filestatNullPath with
      | val x =>
        simp only [Out.bind_val]
        cases x with
        | error e => rfl
        | ok r => cases r <;> rfl
      | trap t => rfl
      | ub k => rfl
      | oof => rfl
  | fdFdstatGet n res => rfl
  | fdDatasync n => rfl
  | fdSync n => rfl
  | fdPrestatGet n ptr => rfl
  | fdPrestatDirName n ptr len => rfl
  | pathFilestatGet n fl pp pl sp => rfl
  | pathRename o op ol n np nl => rfl
  | pathUnlinkFile n p l => rfl
  | pathRemoveDirectory n p l => rfl
  | pathCreateDirectory n p l => rfl
  | pathSymlink op ol n np nl => rfl
  | pathReadlink n p l buf bl lp => rfl
  | nosys name n => rfl

/-- one call equals its POSIX image -/
theorem step_eq_image (abi : Abi) (s : St State) (c : Call) (hg : Good abi s c) :
    step Cfg.ofGen posixHost abi s c = imageStep abi s c := by
  cases c with
  | ro c => simp only [step, imageStep, stepRO_eq_image abi s c hg]
  | fdClose n => rfl
  | fdReaddir n buf len cookie used => rfl
  | pathOpen a b c d e f g h i =>
    simp only [step, imageStep, pathOpen, imagePathOpen, openFlags_eq_spec, openAcc_eq_spec, posixHost]
    cases pathPrologue Cfg.ofGen s ⟨s.mem, []⟩ a c d with
    | val x => cases x <;> rfl
    | trap t => rfl
    | ub k => rfl
    | oof => rfl

/-- a whole history equals its POSIX image -/
theorem run_eq_runImage (hist : List (Abi × Call)) :
    ∀ s : St State, GoodRun s hist → run Cfg.ofGen posixHost s hist = runImage s hist := by
  induction hist with
  | nil => intro s _; rfl
  | cons ac rest ih =>
    intro s hg
    obtain ⟨abi, c⟩ := ac
    obtain ⟨hg1, hg2⟩ := hg
    simp only [run, runImage]
    rw [← step_eq_image abi s c hg1]
    cases hs : step Cfg.ofGen posixHost abi s c with
    | val x =>
      obtain ⟨s1, r⟩ := x
      simp only [Out.bind_val]
      rw [ih s1 (hg2 s1 r hs)]
    | trap t => rfl
    | ub k => rfl
    | oof => rfl

end W2c2Verif.Model.Wasi
