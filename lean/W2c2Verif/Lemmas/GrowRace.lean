/-
  Lemmas.GrowRace — no two threads are ever simultaneously poised at conflicting descriptor accesses,
  provided every grow obeys the lock discipline and the other operations do not read `pages`/`size`.
-/
import W2c2Verif.Lemmas.GrowInv

namespace W2c2Verif.Model.Grow
open W2c2Verif.Model

theorem good_write {prog : List MStep} {ph : Phase} {pc : Nat} {ρ : Nat → Nat} (h : Good prog ph pc ρ)
    {f : MFld} {e : MExpr} (hp : prog[pc]? = some (.write f e)) : ph = .held ∧ (f = .pages ∨ f = .size) := by
  obtain ⟨fuel, c, hc, _⟩ := h
  cases fuel with
  | zero => simp [chk] at hc
  | succ fuel =>
    unfold chk at hc
    simp only [hp] at hc
    cases f <;> simp_all

theorem good_read {prog : List MStep} {ph : Phase} {pc : Nat} {ρ : Nat → Nat} (h : Good prog ph pc ρ)
    {r : Nat} {f : MFld} (hp : prog[pc]? = some (.read r f)) (hf : f = .pages ∨ f = .size) : ph = .held := by
  obtain ⟨fuel, c, hc, _⟩ := h
  cases fuel with
  | zero => simp [chk] at hc
  | succ fuel =>
    unfold chk at hc
    simp only [hp] at hc
    rcases hf with rfl | rfl <;> simp_all

theorem readOnly_no_write {prog : List MStep} (h : ReadOnly prog = true) {pc : Nat} {f : MFld} {e : MExpr}
    (hp : prog[pc]? = some (.write f e)) : False := by
  have := (List.all_eq_true.mp h) _ (List.mem_of_getElem? hp)
  simp at this

theorem noSizeRead_read {prog : List MStep} (h : NoSizeRead prog = true) {pc r : Nat} {f : MFld}
    (hp : prog[pc]? = some (.read r f)) (hf : f = .pages ∨ f = .size) : False := by
  have := (List.all_eq_true.mp h) _ (List.mem_of_getElem? hp)
  rcases hf with rfl | rfl <;> simp at this

/-- a thread poised at an access of `pages`/`size` (a write, or any access by a grow) holds the mutex -/
theorem writer_holds {cfg : Cfg} {m0 : Mem} (wf : WF cfg m0) {g : Sh} {ls : Tid → Loc} (hI : GInv cfg m0 g ls)
    {t : Tid} {f : MFld} (ht : nextAccess cfg t (ls t) = some (f, true)) :
    g.mutex = some t ∧ (f = .pages ∨ f = .size) := by
  unfold nextAccess at ht
  cases hst : (ls t).st <;> simp only [hst] at ht <;> try (cases ht)
  cases hp : (cfg.prog t)[(ls t).pc]? with
  | none => simp [hp] at ht
  | some st =>
    cases st with
    | write f' e =>
      simp only [hp, Option.some.injEq, Prod.mk.injEq, and_true] at ht
      subst ht
      cases hg : cfg.isGrow t with
      | false => exact (readOnly_no_write (wf.reader t hg) hp).elim
      | true =>
        have := good_write ((hI.thr t).good hg (Or.inr hst)) hp
        exact ⟨(hI.thr t).held.mp this.1, this.2⟩
    | _ => simp [hp] at ht

theorem accessor_holds {cfg : Cfg} {m0 : Mem} (wf : WF cfg m0)
    (hro : ∀ t, cfg.isGrow t = false → NoSizeRead (cfg.prog t) = true)
    {g : Sh} {ls : Tid → Loc} (hI : GInv cfg m0 g ls)
    {u : Tid} {f : MFld} {w : Bool} (hu : nextAccess cfg u (ls u) = some (f, w)) (hf : f = .pages ∨ f = .size) :
    g.mutex = some u := by
  cases w with
  | true => exact (writer_holds wf hI hu).1
  | false =>
    unfold nextAccess at hu
    cases hst : (ls u).st <;> simp only [hst] at hu <;> try (cases hu)
    cases hp : (cfg.prog u)[(ls u).pc]? with
    | none => simp [hp] at hu
    | some st =>
      cases st with
      | read r f' =>
        simp only [hp, Option.some.injEq, Prod.mk.injEq, and_true] at hu
        subst hu
        cases hg : cfg.isGrow u with
        | false => exact (noSizeRead_read (hro u hg) hp hf).elim
        | true =>
          have := good_read ((hI.thr u).good hg (Or.inr hst)) hp hf
          exact (hI.thr u).held.mp this
      | _ => simp [hp] at hu

theorem no_race_of_ginv {cfg : Cfg} {m0 : Mem} (wf : WF cfg m0)
    (hro : ∀ t, cfg.isGrow t = false → NoSizeRead (cfg.prog t) = true)
    {s : Sh × (Tid → Loc)} (hI : GInv cfg m0 s.1 s.2) : ¬ Race cfg s := by
  rintro ⟨t, u, f, w1, w2, hne, ht, hu, hw⟩
  rcases hw with rfl | rfl
  · obtain ⟨h1, hf⟩ := writer_holds wf hI ht
    have h2 := accessor_holds wf hro hI hu hf
    rw [h1] at h2
    exact hne (Option.some.inj h2)
  · obtain ⟨h1, hf⟩ := writer_holds wf hI hu
    have h2 := accessor_holds wf hro hI ht hf
    rw [h1] at h2
    exact hne (Option.some.inj h2).symm

end W2c2Verif.Model.Grow
