/-
  Lemmas.FilesRun — invariants of a whole run of Model.Files.run, by induction over the list of
  main()'s steps (any order that changes directory before cleaning / writing), over the listing
  glob returns, and over the lists of implementation-file indices.
-/
import W2c2Verif.Lemmas.FilesClean
import W2c2Verif.Lemmas.FilesPaths

namespace W2c2Verif.Lemmas.Files
open W2c2Verif W2c2Verif.Model.Files W2c2Verif.Gen.Files

/-! ## implementation file names -/

theorem implName_eq (c : UInt8) (i : BitVec 32) :
    implName c i = c :: padLeft 10 48 (decimal i.toNat) ++ [46, 99] := by
  simp [implName, sprintf, implFormat, fmtItem, ofNats]

theorem implName_isImpl (c : UInt8) (hc : c = 115 ∨ c = 100) (i : BitVec 32) : IsImplName (implName c i) := by
  rw [implName_eq]
  have hl := decimal_length_u32 i.toNat i.isLt
  exact ⟨c, padLeft 10 48 (decimal i.toNat), hc, padLeft_length 10 48 _ hl,
    padLeft_digits 10 _ (decimal_digits _), rfl⟩

theorem prefixChars_eq : prefixChars = [115, 100] := by decide

/-! ## what a run may touch -/

def outName (o : Opts) : Name := basenameC o.outputPath
def hdrName (o : Opts) : Name := headerName (outName o)

/-- the names a run may create or overwrite (in `dirname(outputPath)`) -/
def AllowedName (o : Opts) (n : Name) : Prop :=
  n = outName o ∨ n = hdrName o ∨ (external o.mode = true ∧ n = dsName) ∨ IsImplName n

def writeModes : List String := [headerMode, outputMode, implMode, dataSegmentsMode]

def EvOk (o : Opts) : Ev → Prop
  | .openWrite io n m _ => io = true ∧ AllowedName o n ∧ m ∈ writeModes
  | .remove io n _ => io = true ∧ o.clean = true ∧ IsImplName n
  | .openRead p m => m = readMode ∧ (p = o.modulePath ∨ some p = o.refPath)
  | .chdir p _ => p = dirnameC o.outputPath
  | .glob io pat => io = true ∧ o.clean = true ∧ pat = globPatternString
  | .exit _ => True

structure Inv (o : Opts) (fs0 : FS) (st : St) : Prop where
  evs : ∀ e ∈ st.events, EvOk o e
  /-- anything whose state differs from the initial one is an allowed name in the output directory -/
  frame : ∀ l, st.fs l ≠ fs0 l → l.inOut = true ∧ AllowedName o l.name
  /-- anything that disappeared is an implementation-file name in the output directory, and `-c` was given -/
  gone : ∀ l, st.fs l = none → fs0 l ≠ none → l.inOut = true ∧ o.clean = true ∧ IsImplName l.name

/-- once the run is in the output directory it stays there -/
def K (st : St) : Prop := st.done = none → st.inOut = true

theorem inv_emit {o fs0 st} (e : Ev) (he : EvOk o e) (h : Inv o fs0 st) : Inv o fs0 (st.emit e) :=
  ⟨fun e' h' => by
      simp only [St.emit, List.mem_append, List.mem_singleton] at h'
      rcases h' with h' | rfl
      · exact h.evs e' h'
      · exact he,
    h.frame, h.gone⟩

theorem inv_stop {o fs0 st} (c : Nat) (h : Inv o fs0 st) : Inv o fs0 (st.stop c) :=
  ⟨fun e' h' => by
      simp only [St.stop, List.mem_append, List.mem_singleton] at h'
      rcases h' with h' | rfl
      · exact h.evs e' h'
      · trivial,
    h.frame, h.gone⟩

theorem set_apply (fs : FS) (l l' : Loc) (e : Option Entry) : (fs.set l e) l' = if l' = l then e else fs l' := rfl

theorem openW_props (st : St) (n : Name) (m : String) :
    (openW st n m).1.inOut = st.inOut ∧ (openW st n m).1.done = st.done ∧ (openW st n m).1.fpf = st.fpf := by
  unfold openW
  split <;> simp [St.emit]

theorem inv_openW {o fs0 st} (n : Name) (m : String) (hio : st.inOut = true) (hn : AllowedName o n)
    (hm : m ∈ writeModes) (h : Inv o fs0 st) : Inv o fs0 (openW st n m).1 := by
  unfold openW
  split
  · rename_i e he
    refine ⟨?_, ?_, ?_⟩
    · intro e' h'
      simp only [List.mem_append, List.mem_singleton] at h'
      rcases h' with h' | rfl
      · exact h.evs e' h'
      · exact ⟨hio, hn, hm⟩
    · intro l hl
      simp only [set_apply] at hl
      by_cases hll : l = ⟨st.inOut, n⟩
      · rw [hll]; exact ⟨hio, hn⟩
      · rw [if_neg hll] at hl; exact h.frame l hl
    · intro l hl h0
      simp only [set_apply] at hl
      by_cases hll : l = ⟨st.inOut, n⟩
      · rw [if_pos hll] at hl; cases hl
      · rw [if_neg hll] at hl; exact h.gone l hl h0
  · exact inv_emit _ ⟨hio, hn, hm⟩ h

theorem removeN_props (st : St) (n : Name) :
    (removeN st n).inOut = st.inOut ∧ (removeN st n).done = st.done ∧ (removeN st n).fpf = st.fpf := by
  unfold removeN
  split <;> simp [St.emit]

theorem removeEntry_some (x : Option Entry) (e : Option Entry) (h : removeEntry x = some e) : e = none := by
  unfold removeEntry at h
  split at h <;> simp_all

theorem inv_removeN {o fs0 st} (n : Name) (hio : st.inOut = true) (hc : o.clean = true) (hn : IsImplName n)
    (h : Inv o fs0 st) : Inv o fs0 (removeN st n) := by
  unfold removeN
  split
  · rename_i e he
    have hen := removeEntry_some _ _ he
    refine ⟨?_, ?_, ?_⟩
    · intro e' h'
      simp only [List.mem_append, List.mem_singleton] at h'
      rcases h' with h' | rfl
      · exact h.evs e' h'
      · exact ⟨hio, hc, hn⟩
    · intro l hl
      simp only [set_apply] at hl
      by_cases hll : l = ⟨st.inOut, n⟩
      · rw [hll]; exact ⟨hio, Or.inr (Or.inr (Or.inr hn))⟩
      · rw [if_neg hll] at hl; exact h.frame l hl
    · intro l hl h0
      simp only [set_apply] at hl
      by_cases hll : l = ⟨st.inOut, n⟩
      · rw [hll]; exact ⟨hio, hc, hn⟩
      · rw [if_neg hll] at hl; exact h.gone l hl h0
  · exact inv_emit _ ⟨hio, hc, hn⟩ h

/-! ## the clean loop -/

/-- the (signedness independent) value of the three extracted tests -/
def stepsB (n : Name) : Bool :=
  decide (n.length = 13) && firstOk n && ((n.drop 1).take 10).all isDigit

theorem evalSteps_stepsB (sg : Bool) (n : Name) : evalSteps sg n cleanSteps = .val (stepsB n) :=
  evalSteps_clean sg n

theorem cleanAccept_split (sg : Bool) (n : Name) : cleanAccept sg n = (globMatch globPattern n && stepsB n) := by
  rw [cleanAccept_eq, stepsB]
  simp only [Bool.and_assoc]

def removeNames : List Ev → List Name
  | [] => []
  | .remove _ n _ :: r => n :: removeNames r
  | _ :: r => removeNames r

theorem removeNames_append (a b : List Ev) : removeNames (a ++ b) = removeNames a ++ removeNames b := by
  induction a with
  | nil => rfl
  | cons e a ih => cases e <;> simp [removeNames, ih]

theorem removeN_names (st : St) (n : Name) : removeNames (removeN st n).events = removeNames st.events ++ [n] := by
  unfold removeN
  split <;> simp [St.emit, removeNames_append, removeNames]

theorem removeN_fs_other (st : St) (n : Name) (l : Loc) (h : l ≠ ⟨st.inOut, n⟩) : (removeN st n).fs l = st.fs l := by
  unfold removeN
  split
  · simp [set_apply, h]
  · simp [St.emit]

theorem removeN_fs_self (st : St) (n : Name) (h1 : st.fs ⟨st.inOut, n⟩ ≠ some .dirNonEmpty) :
    (removeN st n).fs ⟨st.inOut, n⟩ = none := by
  unfold removeN
  cases hx : st.fs ⟨st.inOut, n⟩ with
  | none => simp [removeEntry, St.emit, hx]
  | some e =>
    cases e <;> simp_all [removeEntry, set_apply]

/-- the match loop is total (no UB for any name), removes exactly the names that pass the tests,
    in order, and touches nothing else -/
theorem cleanLoop_spec (sg : Bool) : ∀ (names : List Name) (st : St),
    ∃ st', cleanLoop sg names st = .val st' ∧ st'.inOut = st.inOut ∧ st'.done = st.done ∧ st'.fpf = st.fpf ∧
      removeNames st'.events = removeNames st.events ++ names.filter stepsB ∧
      (∀ l, ¬ (l.inOut = st.inOut ∧ l.name ∈ names.filter stepsB) → st'.fs l = st.fs l) ∧
      (∀ n ∈ names.filter stepsB, st.fs ⟨st.inOut, n⟩ ≠ some .dirNonEmpty → st'.fs ⟨st.inOut, n⟩ = none)
  | [], st => ⟨st, rfl, rfl, rfl, rfl, by simp, fun _ _ => rfl, by simp⟩
  | n :: rest, st => by
    unfold cleanLoop
    rw [evalSteps_stepsB]
    cases hb : stepsB n with
    | true =>
      obtain ⟨st', h1, h2, h3, h4, h5, h6, h7⟩ := cleanLoop_spec sg rest (removeN st n)
      have hp := removeN_props st n
      refine ⟨st', h1, h2.trans hp.1, h3.trans hp.2.1, h4.trans hp.2.2, ?_, ?_, ?_⟩
      · rw [h5, removeN_names]; simp [List.filter, hb]
      · intro l hl
        have hne : l ≠ ⟨st.inOut, n⟩ := by
          intro e; apply hl; rw [e]; simp [List.filter, hb]
        rw [h6 l ?_, removeN_fs_other st n l hne]
        intro hh
        apply hl
        refine ⟨hh.1.trans hp.1, ?_⟩
        simp only [List.filter, hb]
        exact List.mem_cons_of_mem _ hh.2
      · intro m hm hne
        simp only [List.filter, hb] at hm
        by_cases hmem : m ∈ rest.filter stepsB
        · have := h7 m hmem
          rw [hp.1] at this
          apply this
          by_cases hmn : m = n
          · rw [hmn, removeN_fs_self st n (by rw [← hmn]; exact hne)]; simp
          · rw [removeN_fs_other st n ⟨st.inOut, m⟩ (by intro e; apply hmn; injection e)]; exact hne
        · have hmn : m = n := by
            rcases List.mem_cons.mp hm with h | h
            · exact h
            · exact absurd h hmem
          have := h6 ⟨st.inOut, m⟩ (by
            intro hh; apply hmem; exact hh.2)
          rw [this, hmn]
          exact removeN_fs_self st n (by rw [← hmn]; exact hne)
    | false =>
      obtain ⟨st', h1, h2, h3, h4, h5, h6, h7⟩ := cleanLoop_spec sg rest st
      refine ⟨st', h1, h2, h3, h4, ?_, ?_, ?_⟩
      · rw [h5]; simp [List.filter, hb]
      · intro l hl; apply h6; simpa [List.filter, hb] using hl
      · intro m hm; apply h7; simpa [List.filter, hb] using hm

theorem inv_cleanLoop {o fs0} (sg : Bool) (hc : o.clean = true) : ∀ (names : List Name) (st st' : St),
    (∀ n ∈ names, globMatch globPattern n = true) → st.inOut = true → Inv o fs0 st →
    cleanLoop sg names st = .val st' → Inv o fs0 st'
  | [], st, st', _, _, h, hr => by
    simp only [cleanLoop] at hr; cases hr; exact h
  | n :: rest, st, st', hg, hio, h, hr => by
    unfold cleanLoop at hr
    rw [evalSteps_stepsB] at hr
    cases hb : stepsB n with
    | true =>
      rw [hb] at hr
      have hn : IsImplName n := by
        rw [← cleanAccept_iff sg, cleanAccept_split, hg n (List.mem_cons_self), hb]; rfl
      exact inv_cleanLoop sg hc rest (removeN st n) st' (fun m hm => hg m (List.mem_cons_of_mem _ hm))
        ((removeN_props st n).1.trans hio) (inv_removeN n hio hc hn h) hr
    | false =>
      rw [hb] at hr
      exact inv_cleanLoop sg hc rest st st' (fun m hm => hg m (List.mem_cons_of_mem _ hm)) hio h hr

/-- a non-empty directory that happens to be named like an implementation file survives the loop (`remove` fails on it) -/
theorem removeN_fs_nonEmpty (st : St) (n : Name) (l : Loc) (h : st.fs l = some .dirNonEmpty) :
    (removeN st n).fs l = some .dirNonEmpty := by
  by_cases hl : l = ⟨st.inOut, n⟩
  · subst hl
    unfold removeN
    rw [h]
    simp [removeEntry, St.emit, h]
  · rw [removeN_fs_other st n l hl]
    exact h

theorem cleanLoop_fs_nonEmpty (sg : Bool) : ∀ (names : List Name) (st st' : St) (l : Loc),
    st.fs l = some .dirNonEmpty → cleanLoop sg names st = .val st' → st'.fs l = some .dirNonEmpty
  | [], st, st', l, h, hr => by
    simp only [cleanLoop] at hr; cases hr; exact h
  | n :: rest, st, st', l, h, hr => by
    unfold cleanLoop at hr
    rw [evalSteps_stepsB] at hr
    cases hb : stepsB n with
    | true =>
      rw [hb] at hr
      exact cleanLoop_fs_nonEmpty sg rest (removeN st n) st' l (removeN_fs_nonEmpty st n l h) hr
    | false =>
      rw [hb] at hr
      exact cleanLoop_fs_nonEmpty sg rest st st' l h hr

theorem cleanDir_fs_nonEmpty (w : World) (st st' : St) (l : Loc) (h : st.fs l = some .dirNonEmpty)
    (hr : cleanDir w st = .val st') : st'.fs l = some .dirNonEmpty := by
  rw [cleanDir_eq] at hr
  exact cleanLoop_fs_nonEmpty _ _ _ _ l (by simpa [St.emit] using h) hr

/-! ## writing -/

theorem writeImpls_props (c : UInt8) : ∀ (idx : List (BitVec 32)) (st : St),
    (writeImpls c idx st).inOut = st.inOut ∧ ((writeImpls c idx st).done = none → st.done = none)
  | [], st => ⟨rfl, id⟩
  | i :: rest, st => by
    unfold writeImpls
    have hp := openW_props st (implName c i) implMode
    split
    · rename_i st' heq
      have e : st' = (openW st (implName c i) implMode).1 := by rw [heq]
      have ih := writeImpls_props c rest st'
      rw [e] at ih
      rw [e]
      exact ⟨ih.1.trans hp.1, fun hd => hp.2.1 ▸ ih.2 hd⟩
    · rename_i st' heq
      simp [St.stop]
      have e : st' = (openW st (implName c i) implMode).1 := by rw [heq]
      rw [e]; exact hp.1

theorem inv_writeImpls {o fs0} (c : UInt8) (hc : c = 115 ∨ c = 100) : ∀ (idx : List (BitVec 32)) (st : St),
    st.inOut = true → Inv o fs0 st → Inv o fs0 (writeImpls c idx st)
  | [], st, _, h => h
  | i :: rest, st, hio, h => by
    unfold writeImpls
    have hp := openW_props st (implName c i) implMode
    have hinv := inv_openW (o := o) (fs0 := fs0) (implName c i) implMode hio
      (Or.inr (Or.inr (Or.inr (implName_isImpl c hc i)))) (by simp [writeModes]) h
    split
    · rename_i st' heq
      have e : st' = (openW st (implName c i) implMode).1 := by rw [heq]
      rw [e]
      exact inv_writeImpls c hc rest _ (hp.1.trans hio) hinv
    · rename_i st' heq
      have e : st' = (openW st (implName c i) implMode).1 := by rw [heq]
      rw [e]
      exact inv_stop 1 hinv

theorem inv_writeImplGroups {o fs0} : ∀ (gs : List (UInt8 × List (BitVec 32))) (st : St),
    (∀ g ∈ gs, g.1 = 115 ∨ g.1 = 100) → st.inOut = true → Inv o fs0 st → Inv o fs0 (writeImplGroups gs st)
  | [], st, _, _, h => h
  | (c, idx) :: rest, st, hg, hio, h => by
    unfold writeImplGroups
    have h1 := inv_writeImpls (o := o) (fs0 := fs0) c (hg (c, idx) (List.mem_cons_self)) idx st hio h
    simp only
    split
    · exact h1
    · exact inv_writeImplGroups rest _ (fun g hm => hg g (List.mem_cons_of_mem _ hm))
        ((writeImpls_props c idx st).1.trans hio) h1

theorem zip_prefix_ok (sIdx dIdx : List (BitVec 32)) :
    ∀ g ∈ prefixChars.zip [sIdx, dIdx], g.1 = 115 ∨ g.1 = 100 := by
  rw [prefixChars_eq]
  intro g hg
  simp at hg
  rcases hg with rfl | rfl
  · left; rfl
  · right; rfl

theorem inv_writeModule {o fs0 st st'} (w : World) (sIdx dIdx : List (BitVec 32)) (hio : st.inOut = true)
    (h : Inv o fs0 st) (hr : writeModule o w sIdx dIdx st = .val st') : Inv o fs0 st' := by
  unfold writeModule at hr
  split at hr
  · cases hr
  simp only at hr
  split at hr
  · cases hr
  have hH := inv_openW (o := o) (fs0 := fs0) (hdrName o) headerMode hio (Or.inr (Or.inl rfl)) (by simp [writeModes]) h
  have pH := openW_props st (hdrName o) headerMode
  split at hr
  · rename_i st1 heq
    have e : st1 = (openW st (headerName (basenameC o.outputPath)) headerMode).1 := by rw [heq]
    cases hr
    rw [e]; exact inv_stop 1 hH
  rename_i st1 heq
  have e1 : st1 = (openW st (hdrName o) headerMode).1 := by simp only [hdrName, outName]; rw [heq]
  have hio1 : st1.inOut = true := by rw [e1]; exact pH.1.trans hio
  have h1 : Inv o fs0 st1 := by rw [e1]; exact hH
  have hO := inv_openW (o := o) (fs0 := fs0) (outName o) outputMode hio1 (Or.inl rfl) (by simp [writeModes]) h1
  have pO := openW_props st1 (outName o) outputMode
  split at hr
  · rename_i st2 heq2
    have e : st2 = (openW st1 (outName o) outputMode).1 := by simp only [outName]; rw [heq2]
    cases hr
    rw [e]; exact inv_stop 1 hO
  rename_i st2 heq2
  have e2 : st2 = (openW st1 (outName o) outputMode).1 := by simp only [outName]; rw [heq2]
  have hio2 : st2.inOut = true := by rw [e2]; exact pO.1.trans hio1
  have h2 : Inv o fs0 st2 := by rw [e2]; exact hO
  by_cases hx : external o.mode = true
  · simp only [hx, if_true] at hr
    have hD := inv_openW (o := o) (fs0 := fs0) dsName dataSegmentsMode hio2 (Or.inr (Or.inr (Or.inl ⟨hx, rfl⟩)))
      (by simp [writeModes]) h2
    have pD := openW_props st2 dsName dataSegmentsMode
    split at hr
    · rename_i st3 heq3
      have e : st3 = (openW st2 dsName dataSegmentsMode).1 := by rw [heq3]
      cases hr
      rw [e]; exact inv_stop 134 hD
    · rename_i st3 heq3
      have e : st3 = (openW st2 dsName dataSegmentsMode).1 := by rw [heq3]
      cases hr
      exact inv_writeImplGroups _ _ (zip_prefix_ok sIdx dIdx) (by rw [e]; exact pD.1.trans hio2) (by rw [e]; exact hD)
  · have hx' : external o.mode = false := by simpa using hx
    simp only [hx', Bool.false_eq_true, if_false] at hr
    cases hr
    exact inv_writeImplGroups _ _ (zip_prefix_ok sIdx dIdx) hio2 h2

/-! ## the steps of main() -/

/-- the order property of main()'s step list the invariants need: the directory is changed
    before anything is cleaned or written -/
def orderOk : Bool → List MainStep → Bool
  | _, [] => true
  | _, .chdirOut :: r => orderOk true r
  | seen, .clean :: r => seen && orderOk seen r
  | seen, .writeModule :: r => seen && orderOk seen r
  | seen, _ :: r => orderOk seen r

theorem cleanDir_inv {o fs0 st st'} (w : World) (hc : o.clean = true) (hio : st.inOut = true) (h : Inv o fs0 st)
    (hr : cleanDir w st = .val st') : Inv o fs0 st' ∧ st'.inOut = st.inOut ∧ st'.done = st.done := by
  rw [cleanDir_eq] at hr
  have hi := inv_emit (o := o) (fs0 := fs0) (.glob st.inOut globPatternString) ⟨hio, hc, rfl⟩ h
  refine ⟨inv_cleanLoop w.charSigned hc _ _ st' (fun n hn => by simpa using (List.mem_filter.mp hn).2) (by simpa [St.emit] using hio) hi hr, ?_⟩
  obtain ⟨st'', h1, h2, h3, _⟩ := cleanLoop_spec w.charSigned
    ((w.listing st.inOut).filter (globMatch globPattern)) (st.emit (.glob st.inOut globPatternString))
  rw [h1] at hr
  cases hr
  exact ⟨h2, h3⟩

theorem step_inv {o : Opts} {fs0 : FS} (w : World) (plan) (s : MainStep) (st st' : St)
    (hpre : (s = .clean ∨ s = .writeModule) → K st)
    (h : Inv o fs0 st) (hr : step o w plan s st = .val st') :
    Inv o fs0 st' ∧ (K st → K st') ∧ (s = .chdirOut → K st') := by
  unfold step at hr
  by_cases hd : st.done.isSome = true
  · rw [if_pos hd] at hr
    cases hr
    refine ⟨h, id, fun _ hn => ?_⟩
    rw [hn] at hd; simp at hd
  rw [if_neg hd] at hr
  have hdn : st.done = none := by simpa using hd
  cases s with
  | readModule =>
    simp only at hr
    cases hr
    have hi := inv_emit (o := o) (fs0 := fs0) (.openRead o.modulePath readMode) ⟨rfl, Or.inl rfl⟩ h
    refine ⟨?_, ?_, fun e => by cases e⟩
    · split
      · exact hi
      · exact inv_stop 1 hi
    · intro hk
      split
      · exact hk
      · intro hn; simp [St.stop] at hn
  | readReference =>
    simp only at hr
    split at hr
    · cases hr; exact ⟨h, id, fun e => by cases e⟩
    · rename_i p hp
      cases hr
      have hi := inv_emit (o := o) (fs0 := fs0) (.openRead p readMode) ⟨rfl, Or.inr hp.symm⟩ h
      refine ⟨?_, ?_, fun e => by cases e⟩
      · split
        · exact hi
        · exact inv_stop 1 hi
      · intro hk
        split
        · exact hk
        · intro hn; simp [St.stop] at hn
  | defaultFpf =>
    simp only at hr
    cases hr
    refine ⟨?_, ?_, fun e => by cases e⟩
    · split
      · exact ⟨h.evs, h.frame, h.gone⟩
      · exact h
    · intro hk
      split
      · exact hk
      · exact hk
  | chdirOut =>
    simp only at hr
    split at hr
    · cases hr
    split at hr
    · cases hr
      have hi := inv_emit (o := o) (fs0 := fs0) (.chdir (dirnameC o.outputPath) true) rfl h
      exact ⟨⟨hi.evs, hi.frame, hi.gone⟩, fun _ _ => rfl, fun _ _ => rfl⟩
    · cases hr
      have hi := inv_emit (o := o) (fs0 := fs0) (.chdir (dirnameC o.outputPath) false) rfl h
      refine ⟨inv_stop 1 hi, ?_, ?_⟩ <;> intro _ hn <;> simp [St.stop] at hn
  | clean =>
    simp only at hr
    have hio : st.inOut = true := hpre (Or.inl rfl) hdn
    split at hr
    · rename_i hc
      obtain ⟨hi, h2, h3⟩ := cleanDir_inv w hc hio h hr
      refine ⟨hi, fun _ _ => h2.trans hio, fun e => by cases e⟩
    · cases hr; exact ⟨h, id, fun e => by cases e⟩
  | writeModule =>
    simp only at hr
    have hio : st.inOut = true := hpre (Or.inr rfl) hdn
    have hi := inv_writeModule w _ _ hio h hr
    refine ⟨hi, ?_, fun e => by cases e⟩
    intro _ hn
    -- writeModule never leaves the directory
    unfold writeModule at hr
    split at hr
    · cases hr
    simp only at hr
    split at hr
    · cases hr
    have pH := openW_props st (headerName (basenameC o.outputPath)) headerMode
    split at hr
    · cases hr; simp [St.stop] at hn
    rename_i st1 heq
    have e1 : st1 = (openW st (headerName (basenameC o.outputPath)) headerMode).1 := by rw [heq]
    have pO := openW_props st1 (basenameC o.outputPath) outputMode
    split at hr
    · cases hr; simp [St.stop] at hn
    rename_i st2 heq2
    have e2 : st2 = (openW st1 (basenameC o.outputPath) outputMode).1 := by rw [heq2]
    have hio2 : st2.inOut = true := by rw [e2, pO.1, e1, pH.1]; exact hio
    by_cases hx : external o.mode = true
    · simp only [hx, if_true] at hr
      have pD := openW_props st2 dsName dataSegmentsMode
      split at hr
      · cases hr; simp [St.stop] at hn
      · rename_i st3 heq3
        have e3 : st3 = (openW st2 dsName dataSegmentsMode).1 := by rw [heq3]
        cases hr
        have : ∀ gs (s : St), (writeImplGroups gs s).inOut = s.inOut := by
          intro gs
          induction gs with
          | nil => intro s; rfl
          | cons g gs ih =>
            intro s
            obtain ⟨c, idx⟩ := g
            unfold writeImplGroups
            simp only
            split
            · exact (writeImpls_props c idx s).1
            · rw [ih]; exact (writeImpls_props c idx s).1
        rw [this, e3, pD.1]; exact hio2
    · have hx' : external o.mode = false := by simpa using hx
      simp only [hx', Bool.false_eq_true, if_false] at hr
      cases hr
      have : ∀ gs (s : St), (writeImplGroups gs s).inOut = s.inOut := by
        intro gs
        induction gs with
        | nil => intro s; rfl
        | cons g gs ih =>
          intro s
          obtain ⟨c, idx⟩ := g
          unfold writeImplGroups
          simp only
          split
          · exact (writeImpls_props c idx s).1
          · rw [ih]; exact (writeImpls_props c idx s).1
      rw [this]; exact hio2

theorem runSteps_inv {o : Opts} {fs0 : FS} (w : World) (plan) : ∀ (steps : List MainStep) (seen : Bool) (st st' : St),
    orderOk seen steps = true → (seen = true → K st) → Inv o fs0 st →
    runSteps o w plan steps st = .val st' → Inv o fs0 st'
  | [], _, st, st', _, _, h, hr => by
    simp only [runSteps] at hr; cases hr; exact h
  | s :: rest, seen, st, st', ho, hk, h, hr => by
    unfold runSteps at hr
    split at hr
    · rename_i st1 hs
      cases s with
      | chdirOut =>
        have := step_inv w plan .chdirOut st st1 (fun e => by rcases e with e | e <;> cases e) h hs
        exact runSteps_inv w plan rest true st1 st' (by simpa [orderOk] using ho) (fun _ => this.2.2 rfl) this.1 hr
      | clean =>
        simp only [orderOk, Bool.and_eq_true] at ho
        have := step_inv w plan .clean st st1 (fun _ => hk ho.1) h hs
        exact runSteps_inv w plan rest seen st1 st' ho.2 (fun hs' => this.2.1 (hk hs')) this.1 hr
      | writeModule =>
        simp only [orderOk, Bool.and_eq_true] at ho
        have := step_inv w plan .writeModule st st1 (fun _ => hk ho.1) h hs
        exact runSteps_inv w plan rest seen st1 st' ho.2 (fun hs' => this.2.1 (hk hs')) this.1 hr
      | readModule =>
        have := step_inv w plan .readModule st st1 (fun e => by rcases e with e | e <;> cases e) h hs
        exact runSteps_inv w plan rest seen st1 st' (by simpa [orderOk] using ho) (fun hs' => this.2.1 (hk hs')) this.1 hr
      | readReference =>
        have := step_inv w plan .readReference st st1 (fun e => by rcases e with e | e <;> cases e) h hs
        exact runSteps_inv w plan rest seen st1 st' (by simpa [orderOk] using ho) (fun hs' => this.2.1 (hk hs')) this.1 hr
      | defaultFpf =>
        have := step_inv w plan .defaultFpf st st1 (fun e => by rcases e with e | e <;> cases e) h hs
        exact runSteps_inv w plan rest seen st1 st' (by simpa [orderOk] using ho) (fun hs' => this.2.1 (hk hs')) this.1 hr
    all_goals cases hr

theorem inv_init (o : Opts) (fs : FS) : Inv o fs { fs := fs, fpf := o.fpf } :=
  ⟨fun e h => by simp at h, fun l h => absurd rfl h, fun l h h0 => absurd h h0⟩

/-- main()'s extracted step order changes directory before it cleans or writes -/
theorem mainSteps_order : orderOk false mainSteps = true := by decide

theorem run_inv {o : Opts} {w : World} {plan} {fs : FS} {st : St} (h : run o w plan fs = .val st) : Inv o fs st := by
  unfold run at h
  simp only at h
  by_cases hv : optsValid o = true
  · simp only [hv, Bool.not_true, Bool.false_eq_true, if_false] at h
    generalize hrs : runSteps o w plan mainSteps { fs := fs, fpf := o.fpf } = r at h
    cases r with
    | val st1 =>
      simp only at h
      cases h
      have := runSteps_inv w plan mainSteps false _ st1 mainSteps_order (fun e => by cases e) (inv_init o fs) hrs
      unfold finish
      split
      · exact this
      · exact inv_stop 0 this
    | ub k => simp at h
    | trap t => simp at h
    | oof => simp at h
  · have hv' : optsValid o = false := by simpa using hv
    simp only [hv', Bool.not_false, if_true] at h
    cases h
    exact inv_stop 1 (inv_init o fs)

end W2c2Verif.Lemmas.Files
