/-
  Lemmas.WasiNative — the native descriptors stored in the WASI table, over the POSIX host:
  every live table entry's native descriptor is open in the host, and no two live entries
  store the same one.  (What a WASI descriptor denotes can then change only by its own
  fd_close: no other call closes or re-targets a stored native descriptor.)
-/
import W2c2Verif.Lemmas.WasiEbadf
import W2c2Verif.Model.WasiPosix

namespace W2c2Verif.Model.Wasi
open W2c2Verif W2c2Verif.Spec.Posix

/-! ## which native descriptors are open in a POSIX state -/

def openAt (l : List (Option OFD)) (fd : Int) : Bool :=
  if fd < 0 then false else (l[fd.toNat]?.join).isSome

theorem ofd?_isSome (s : State) (fd : Int) : (s.ofd? fd).isSome = openAt s.fds fd := by
  unfold State.ofd? openAt; split <;> rfl

/-- the two states have the same open native descriptors -/
def SameFds (h h' : State) : Prop := ∀ fd : Int, openAt h'.fds fd = openAt h.fds fd

theorem SameFds.refl (h : State) : SameFds h h := fun _ => rfl
theorem SameFds.trans {a b c : State} (h1 : SameFds a b) (h2 : SameFds b c) : SameFds a c :=
  fun fd => (h2 fd).trans (h1 fd)
theorem SameFds.of_fds {h h' : State} (e : h'.fds = h.fds) : SameFds h h' := fun fd => by rw [e]

theorem slot_lt {l : List (Option OFD)} {k : Nat} (hk : (l[k]?.join).isSome = true) : k < l.length := by
  cases hh : l[k]? with
  | none => rw [hh] at hk; simp at hk
  | some x => exact (List.getElem?_eq_some_iff.mp hh).1

theorem openAt_set_some (l : List (Option OFD)) (k : Nat) (o : OFD) (hk : (l[k]?.join).isSome = true) (fd : Int) :
    openAt (l.set k (some o)) fd = openAt l fd := by
  unfold openAt
  split
  · rfl
  · rw [List.getElem?_set]
    by_cases hkf : k = fd.toNat
    · subst hkf
      rw [if_pos rfl, if_pos (slot_lt hk), hk]; rfl
    · rw [if_neg hkf]

theorem ofd?_some_slot {s : State} {fd : Int} {o : OFD} (h : s.ofd? fd = some o) :
    (s.fds[fd.toNat]?.join).isSome = true := by
  unfold State.ofd? at h
  split at h
  · cases h
  · rw [h]; rfl

theorem ofd?_some_nonneg {s : State} {fd : Int} {o : OFD} (h : s.ofd? fd = some o) : 0 ≤ fd := by
  unfold State.ofd? at h
  split at h
  · cases h
  · omega

theorem sameFds_setOfd {s : State} {fd : Int} {o : OFD} (o' : OFD) (h : s.ofd? fd = some o) :
    SameFds s (s.setOfd fd.toNat (some o')) :=
  fun x => openAt_set_some _ _ _ (ofd?_some_slot h) x

theorem sameFds_setOfd_fs {s : State} {fd : Int} {o : OFD} (fs' : FS) (o' : OFD) (h : s.ofd? fd = some o) :
    SameFds s (({ s with fs := fs' } : State).setOfd fd.toNat (some o')) :=
  fun x => openAt_set_some _ _ _ (ofd?_some_slot h) x

theorem read_sameFds (s : State) (fd : Int) (n : Nat) : SameFds s (s.read fd n).1 := by
  unfold State.read
  cases ho : s.ofd? fd with
  | none => exact SameFds.refl _
  | some o =>
    simp only
    repeat' split
    all_goals first | exact SameFds.refl _ | exact sameFds_setOfd _ ho

theorem readv_sameFds (s : State) (fd : Int) (lens : List Nat) : SameFds s (s.readv fd lens).1 := by
  unfold State.readv
  split
  · repeat' split
    all_goals exact SameFds.refl _
  · exact read_sameFds _ _ _

theorem write_sameFds (s : State) (fd : Int) (bs : Bytes) : SameFds s (s.write fd bs).1 := by
  unfold State.write
  cases ho : s.ofd? fd with
  | none => exact SameFds.refl _
  | some o =>
    simp only
    repeat' split
    all_goals first | exact SameFds.refl _ | exact sameFds_setOfd_fs _ _ ho

theorem lseek_sameFds (s : State) (fd : Int) (off : Int) (w : Whence) : SameFds s (s.lseek fd off w).1 := by
  unfold State.lseek
  cases ho : s.ofd? fd with
  | none => exact SameFds.refl _
  | some o =>
    simp only
    repeat' split
    all_goals first | exact SameFds.refl _ | exact sameFds_setOfd _ ho

theorem lowestFree_le (l : List (Option OFD)) : lowestFree l ≤ l.length := by
  induction l with
  | nil => simp [lowestFree]
  | cons a r ih => cases a <;> simp [lowestFree]; omega

theorem lowestFree_slot (l : List (Option OFD)) : (l[lowestFree l]?.join).isSome = false := by
  induction l with
  | nil => rfl
  | cons a r ih =>
    cases a with
    | none => rfl
    | some o => simpa [lowestFree] using ih

/-- `install`: the returned descriptor was not open, is open afterwards, nothing else changes -/
theorem install_spec (s : State) (o : OFD) :
    openAt s.fds ((s.install o).2 : Int) = false ∧ openAt (s.install o).1.fds ((s.install o).2 : Int) = true ∧
    ∀ x : Int, x ≠ ((s.install o).2 : Int) → openAt (s.install o).1.fds x = openAt s.fds x := by
  have hfree := lowestFree_slot s.fds
  have hle := lowestFree_le s.fds
  unfold State.install
  simp only
  split
  · rename_i hlt
    refine ⟨?_, ?_, ?_⟩
    · unfold openAt; simp [hfree]
    · unfold openAt; simp [hlt]
    · intro x hx
      unfold openAt
      split
      · rfl
      · rw [List.getElem?_set]
        have : lowestFree s.fds ≠ x.toNat := by omega
        rw [if_neg this]
  · rename_i hge
    have hlen : lowestFree s.fds = s.fds.length := by omega
    refine ⟨?_, ?_, ?_⟩
    · unfold openAt; simp [hfree]
    · unfold openAt; simp [hlen]
    · intro x hx
      unfold openAt
      split
      · rfl
      · rename_i hx0
        rw [List.getElem?_append]
        by_cases hlt : x.toNat < s.fds.length
        · rw [if_pos hlt]
        · rw [if_neg hlt]
          have h1 : x.toNat - s.fds.length ≠ 0 := by omega
          have h2 : s.fds[x.toNat]? = none := List.getElem?_eq_none (by omega)
          rw [h2]
          cases hk : x.toNat - s.fds.length with
          | zero => omega
          | succ k => rfl

/-- `open`: on success the new descriptor was not open before and is open now, every other
    descriptor keeps its state; on failure the descriptor table is unchanged -/
theorem open_spec (s : State) (p : Bytes) (acc : Acc) (fl : List OFlag) :
    (∀ s' n, s.open p acc fl = (s', .ok n) →
      openAt s.fds (n : Int) = false ∧ openAt s'.fds (n : Int) = true ∧
      ∀ x : Int, x ≠ (n : Int) → openAt s'.fds x = openAt s.fds x) ∧
    (∀ s' r, s.open p acc fl = (s', r) → (∀ n, r ≠ .ok n) → s'.fds = s.fds) := by
  have key : ∀ (t : State) (o : OFD) (a : State) (b : Nat), t.install o = (a, b) → t.fds = s.fds →
      openAt s.fds (b : Int) = false ∧ openAt a.fds (b : Int) = true ∧
      ∀ x : Int, x ≠ (b : Int) → openAt a.fds x = openAt s.fds x := by
    intro t o a b h ht
    have := install_spec t o
    rw [h, ht] at this
    exact this
  unfold State.open
  constructor
  · intro s' n h
    repeat' split at h
    all_goals first
      | (simp only [Prod.mk.injEq, reduceCtorEq, and_false] at h; done)
      | (simp only [Prod.mk.injEq, R.ok.injEq] at h
         obtain ⟨h1, h2⟩ := h
         subst h1 h2
         exact key _ _ _ _ rfl rfl)
  · intro s' r h hr
    repeat' split at h
    all_goals first
      | (simp only [Prod.mk.injEq] at h; obtain ⟨h1, _⟩ := h; subst h1; rfl)
      | (simp only [Prod.mk.injEq] at h; exact absurd h.2.symm (hr _))

theorem close_spec (s : State) (fd : Int) :
    (∀ s', s.close fd = (s', .ok ()) → openAt s.fds fd = true ∧
      ∀ x : Int, openAt s'.fds x = (openAt s.fds x && decide (x ≠ fd))) ∧
    (∀ s' r, s.close fd = (s', r) → r ≠ .ok () → s' = s) := by
  unfold State.close
  cases ho : s.ofd? fd with
  | none =>
    constructor
    · intro s' h; simp at h
    · intro s' r h _; simp at h; exact h.1.symm
  | some o =>
    have hslot := ofd?_some_slot ho
    have hnn := ofd?_some_nonneg ho
    constructor
    · intro s' h
      simp only [Prod.mk.injEq, and_true] at h
      subst h
      refine ⟨by rw [← ofd?_isSome, ho]; rfl, ?_⟩
      intro x
      unfold openAt State.setOfd
      by_cases hx : x < 0
      · simp [hx]
      · simp only [hx, ↓reduceIte, List.getElem?_set]
        by_cases hxe : x = fd
        · subst hxe
          simp [slot_lt hslot]
        · have : fd.toNat ≠ x.toNat := by omega
          simp [this, hxe]
    · intro s' r h hr
      simp only [Prod.mk.injEq] at h
      exact absurd h.2.symm hr

/-! ## the read-only calls keep the set of open native descriptors -/

/-- a property of the host state a read-only call returns -/
def HostP (P : State → Prop) (x : Out (MW × State × Res)) : Prop := ∀ w h r, x = .val (w, h, r) → P h

theorem HostP.ret {P : State → Prop} {w : MW} {h : State} {e : Nat} (hp : P h) : HostP P (ret w h e) := by
  intro w' h' r heq; simp only [Wasi.ret, Out.val.injEq, Prod.mk.injEq] at heq; rw [← heq.2.1]; exact hp

theorem HostP.retU {P : State → Prop} {w : MW} {h : State} (hp : P h) : HostP P (retUnmodelled w h) := by
  intro w' h' r heq; simp only [retUnmodelled, Out.val.injEq, Prod.mk.injEq] at heq; rw [← heq.2.1]; exact hp

theorem HostP.bind {α : Type} {P : State → Prop} {x : Out α} {f : α → Out (MW × State × Res)}
    (hf : ∀ a, HostP P (f a)) : HostP P (x >>= f) := by
  intro w h r heq
  cases x with
  | val a => exact hf a w h r heq
  | trap t => cases heq
  | ub k => cases heq
  | oof => cases heq

theorem HostP_finishWrite {P : State → Prop} (w : MW) (res : Nat) (x : State × R Nat) (hp : P x.1) :
    HostP P (finishWrite w res x) := by
  obtain ⟨h', r⟩ := x
  cases r with
  | ok n => exact HostP.bind fun _ => HostP.ret hp
  | err e => exact HostP.ret hp
  | unmodelled => exact HostP.retU hp

theorem HostP_finishRead {P : State → Prop} (w : MW) (segs : List (Nat × Nat)) (res : Nat) (x : State × R Bytes)
    (hp : P x.1) : HostP P (finishRead w segs res x) := by
  obtain ⟨h', r⟩ := x
  cases r with
  | ok n => exact HostP.bind fun _ => HostP.bind fun _ => HostP.ret hp
  | err e => exact HostP.ret hp
  | unmodelled => exact HostP.retU hp

theorem HostP_finishSeek {P : State → Prop} (w : MW) (res : Nat) (x : State × R Nat) (hp : P x.1) :
    HostP P (finishSeek w res x) := by
  obtain ⟨h', r⟩ := x
  cases r with
  | ok n => exact HostP.bind fun _ => HostP.ret hp
  | err e => exact HostP.ret hp
  | unmodelled => exact HostP.retU hp

theorem HostP_doWrite {P : State → Prop} (w : MW) (h : State) (iovs cnt res : Nat)
    (wr : State → List Bytes → State × R Nat) (hp : ∀ bufs, P (wr h bufs).1) :
    HostP P (doWrite posixHost w h iovs cnt res wr) := by
  unfold doWrite
  exact HostP.bind fun _ => HostP.bind fun bufs => HostP_finishWrite _ _ _ (hp bufs)

theorem HostP_doRead {P : State → Prop} (w : MW) (h : State) (iovs cnt res : Nat)
    (rd : State → List Nat → State × R Bytes) (hp : ∀ lens, P (rd h lens).1) :
    HostP P (doRead w h iovs cnt res rd) := by
  unfold doRead
  exact HostP.bind fun segs => HostP_finishRead _ _ _ _ (hp _)

theorem posix_writev_sameFds (s : State) (fd : Int) (bufs : List Bytes) : SameFds s (posixHost.writev s fd bufs).1 := by
  simp only [posixHost]; split
  · exact SameFds.refl _
  · exact write_sameFds _ _ _

theorem posix_readv_sameFds (s : State) (fd : Int) (lens : List Nat) : SameFds s (posixHost.readv s fd lens).1 := by
  simp only [posixHost]; split
  · exact SameFds.refl _
  · exact readv_sameFds _ _ _

theorem posix_lseek_sameFds (s : State) (fd : Int) (off : Int) (w : Whence) : SameFds s (posixHost.lseek s fd off w).1 :=
  lseek_sameFds s fd off w

theorem wrapPositional_sameFds {α : Type} (s : State) (fd : Int) (off : Int) (f : State → State × R α)
    (hf : ∀ h, SameFds h (f h).1) : SameFds s (wrapPositional posixHost s fd off f).1 := by
  unfold wrapPositional
  have l1 := posix_lseek_sameFds s fd 0 .cur
  generalize posixHost.lseek s fd 0 .cur = x1 at l1
  obtain ⟨h1, r1⟩ := x1
  cases r1 with
  | unmodelled => exact l1
  | err e => exact l1
  | ok orig =>
    simp only
    have l2 := posix_lseek_sameFds h1 fd off .set
    generalize posixHost.lseek h1 fd off .set = x2 at l2
    obtain ⟨h2, r2⟩ := x2
    cases r2 with
    | unmodelled => exact l1.trans l2
    | err e => exact l1.trans l2
    | ok _ =>
      simp only
      have l3 := hf h2
      generalize f h2 = x3 at l3
      obtain ⟨h3, r3⟩ := x3
      simp only
      have l4 := posix_lseek_sameFds h3 fd orig .set
      generalize posixHost.lseek h3 fd orig .set = x4 at l4
      obtain ⟨h4, r4⟩ := x4
      have all := ((l1.trans l2).trans l3).trans l4
      cases r4 <;> exact all

theorem HostP_doSeek (cfg : Cfg) (s : St State) (w : MW) (n : Nat) (off : Int) (wh : Whence) (res : Nat) :
    HostP (SameFds s.host) (doSeek cfg posixHost s w n off wh res) := by
  unfold doSeek
  split
  · exact HostP.ret (SameFds.refl _)
  · split
    · exact HostP.ret (SameFds.refl _)
    · exact HostP_finishSeek _ _ _ (posix_lseek_sameFds _ _ _ _)

theorem unlink_fds (s : State) (p : Bytes) : (s.unlink p).1.fds = s.fds := by
  unfold State.unlink
  repeat' split
  all_goals rfl

theorem rename_fds (s : State) (a b : Bytes) : (s.rename a b).1.fds = s.fds := by
  unfold State.rename
  repeat' split
  all_goals rfl

/-- the remaining path calls (unlink, rename; the others are not modelled) never touch the descriptor table of the host -/
theorem posix_pathCall_sameFds (s : State) (name : String) (paths : List Bytes) :
    SameFds s (posixHost.pathCall s name paths).1 := by
  apply SameFds.of_fds
  simp only [posixHost]
  split
  · have := unlink_fds s ‹Bytes›
    generalize s.unlink _ = x at this ⊢
    obtain ⟨s', r⟩ := x
    cases r <;> exact this
  · rename_i a b
    have := rename_fds s a b
    generalize s.rename a b = x at this ⊢
    obtain ⟨s', r⟩ := x
    cases r <;> exact this
  · rfl

/-- the tail every path call shares: translate the host result -/
theorem HostP_pathTail {P : State → Prop} (w : MW) (x : State × R Nat) (hp : P x.1) :
    HostP P (match x with
      | (h', .unmodelled) => retUnmodelled w h'
      | (h', .err e) => ret w h' (wasiErrno e)
      | (h', .ok _) => ret w h' 0) := by
  obtain ⟨h', r⟩ := x
  cases r with
  | ok n => exact HostP.ret hp
  | err e => exact HostP.ret hp
  | unmodelled => exact HostP.retU hp

theorem HostP_simplePathCall (cfg : Cfg) (s : St State) (w : MW) (name : String) (n ptr len : Nat) :
    HostP (SameFds s.host) (simplePathCall cfg posixHost s w name n ptr len) := by
  unfold simplePathCall
  refine HostP.bind fun r => ?_
  split
  · exact HostP.ret (SameFds.refl _)
  · generalize hx : posixHost.pathCall s.host _ _ = x
    have hs : SameFds s.host x.1 := by rw [← hx]; exact posix_pathCall_sameFds _ _ _
    obtain ⟨h', r⟩ := x
    cases r <;> first | exact HostP.ret hs | exact HostP.retU hs

/-- every read-only call leaves the set of open native descriptors of the host unchanged -/
theorem stepRO_sameFds (cfg : Cfg) (abi : Abi) (s : St State) (c : ROCall) :
    HostP (SameFds s.host) (stepRO cfg posixHost abi s c) := by
  have R0 : SameFds s.host s.host := SameFds.refl _
  cases c with
  | fdWrite n iovs cnt res =>
    simp only [stepRO]
    split
    · exact HostP.ret R0
    · split
      · exact HostP.ret R0
      · exact HostP_doWrite _ _ _ _ _ _ fun bufs => posix_writev_sameFds _ _ _
  | fdPwrite n iovs cnt off res =>
    simp only [stepRO]
    split
    · exact HostP.ret R0
    · split
      · exact HostP.ret R0
      · exact HostP_doWrite _ _ _ _ _ _ fun bufs =>
          wrapPositional_sameFds _ _ _ _ fun h => posix_writev_sameFds _ _ _
  | fdRead n iovs cnt res =>
    simp only [stepRO]
    split
    · exact HostP.ret R0
    · split
      · exact HostP.ret R0
      · exact HostP_doRead _ _ _ _ _ _ fun lens => posix_readv_sameFds _ _ _
  | fdPread n iovs cnt off res =>
    simp only [stepRO]
    split
    · exact HostP.ret R0
    · split
      · exact HostP.ret R0
      · exact HostP_doRead _ _ _ _ _ _ fun lens =>
          wrapPositional_sameFds _ _ _ _ fun h => posix_readv_sameFds _ _ _
  | fdSeek n off whence res =>
    simp only [stepRO]
    split
    · split
      · exact HostP.ret R0
      · exact HostP_doSeek _ _ _ _ _ _ _
    · split
      · exact HostP.ret R0
      · split
        · exact HostP.ret R0
        · split
          · exact HostP.ret R0
          · exact HostP_doSeek _ _ _ _ _ _ _
  | fdTell n res => simp only [stepRO]; exact HostP_doSeek _ _ _ _ _ _ _
  | fdFdstatGet n res =>
    simp only [stepRO]
    split
    · exact HostP.ret R0
    · refine HostP.bind fun r => ?_
      split
      · exact HostP.ret R0
      · exact HostP.retU R0
      · exact HostP.ret R0
      · split
        · exact HostP.retU R0
        · exact HostP.ret R0
        · exact HostP.bind fun _ => HostP.bind fun _ => HostP.bind fun _ => HostP.bind fun _ =>
            HostP.bind fun _ => HostP.ret R0
  | fdDatasync n =>
    simp only [stepRO]
    split
    · exact HostP.ret R0
    · split
      · exact HostP.ret R0
      · simp only [posixHost]
        cases s.host.fsync _ <;> first | exact HostP.ret R0 | exact HostP.retU R0
  | fdSync n =>
    simp only [stepRO]
    split
    · exact HostP.ret R0
    · split
      · exact HostP.ret R0
      · simp only [posixHost]
        cases s.host.fsync _ <;> first | exact HostP.ret R0 | exact HostP.retU R0
  | fdPrestatGet n ptr =>
    simp only [stepRO]
    split
    · exact HostP.ret R0
    · split
      · exact HostP.ret R0
      · exact HostP.bind fun _ => HostP.bind fun _ => HostP.bind fun _ => HostP.ret R0
  | fdPrestatDirName n ptr len =>
    simp only [stepRO]
    split
    · exact HostP.ret R0
    · split
      · exact HostP.ret R0
      · exact HostP.bind fun _ => HostP.bind fun _ => HostP.ret R0
  | fdFilestatGet n ptr =>
    simp only [stepRO]
    split
    · exact HostP.ret R0
    · refine HostP.bind fun r => ?_
      split
      · exact HostP.ret R0
      · exact HostP.retU R0
      · exact HostP.ret R0
      · exact HostP.bind fun _ => HostP.ret R0
  | pathFilestatGet n fl pathPtr pathLen statPtr =>
    simp only [stepRO]
    refine HostP.bind fun r => ?_
    split
    · exact HostP.ret R0
    · split
      · exact HostP.retU R0
      · exact HostP.ret R0
      · exact HostP.bind fun _ => HostP.ret R0
  | pathRename ofd op ol nfd np nl =>
    simp only [stepRO]
    split
    · exact HostP.ret R0
    · split
      · exact HostP.ret R0
      · split
        · exact HostP.ret R0
        · refine HostP.bind fun _ => HostP.bind fun r => ?_
          split
          · exact HostP.ret R0
          · split
            · exact HostP.ret R0
            · refine HostP.bind fun _ => HostP.bind fun r => ?_
              split
              · exact HostP.ret R0
              · generalize hx : posixHost.pathCall s.host _ _ = x
                have hs : SameFds s.host x.1 := by rw [← hx]; exact posix_pathCall_sameFds _ _ _
                obtain ⟨h', r⟩ := x
                cases r <;> first | exact HostP.ret hs | exact HostP.retU hs
  | pathUnlinkFile n p l => simp only [stepRO]; exact HostP_simplePathCall _ _ _ _ _ _ _
  | pathRemoveDirectory n p l => simp only [stepRO]; exact HostP_simplePathCall _ _ _ _ _ _ _
  | pathCreateDirectory n p l => simp only [stepRO]; exact HostP_simplePathCall _ _ _ _ _ _ _
  | pathSymlink op ol n np nl =>
    simp only [stepRO]
    split
    · exact HostP.ret R0
    · split
      · exact HostP.ret R0
      · refine HostP.bind fun _ => ?_
        split
        · exact HostP.ret R0
        · refine HostP.bind fun _ => HostP.bind fun r => ?_
          split
          · exact HostP.ret R0
          · generalize hx : posixHost.pathCall s.host _ _ = x
            have hs : SameFds s.host x.1 := by rw [← hx]; exact posix_pathCall_sameFds _ _ _
            obtain ⟨h', r⟩ := x
            cases r <;> first | exact HostP.ret hs | exact HostP.retU hs
  | pathReadlink n p l buf bl lp =>
    simp only [stepRO]
    refine HostP.bind fun r => ?_
    split
    · exact HostP.ret R0
    · have := posix_pathCall_sameFds s.host "readlink" [‹Bytes›]
      generalize posixHost.pathCall s.host "readlink" _ = x at this ⊢
      obtain ⟨h', r⟩ := x
      cases r <;> first | exact HostP.ret this | exact HostP.retU this
  | nosys name fd => simp only [stepRO]; exact HostP.ret R0

/-! ## the invariant -/

/-- every native descriptor stored in a live table entry is open in the host, and no two entries
    store the same one -/
structure NF (s : St State) : Prop where
  isOpen : ∀ (i : Nat) (d : Desc), s.fds[i]? = some d → 0 ≤ d.fd → openAt s.host.fds d.fd = true
  distinct : ∀ (i j : Nat) (d d' : Desc), s.fds[i]? = some d → s.fds[j]? = some d' → 0 ≤ d.fd → d.fd = d'.fd → i = j

theorem NF_ro (cfg : Cfg) (abi : Abi) (s s' : St State) (c : ROCall) (r : Res)
    (h : step cfg posixHost abi s (.ro c) = .val (s', r)) (hi : NF s) : NF s' := by
  obtain ⟨hf, _⟩ := step_ro_frame cfg posixHost abi s s' c r h
  have hhost : SameFds s.host s'.host := by
    simp only [step, Out.map'] at h
    cases hr : stepRO cfg posixHost abi s c with
    | val x =>
      obtain ⟨w, hh, rr⟩ := x
      rw [hr] at h
      simp only [Out.bind_val, Out.val.injEq, Prod.mk.injEq] at h
      rw [← h.1]
      exact stepRO_sameFds cfg abi s c w hh rr hr
    | trap t => rw [hr] at h; simp at h
    | ub k => rw [hr] at h; simp at h
    | oof => rw [hr] at h; simp at h
  constructor
  · intro i d hd hfd; rw [hhost]; rw [hf] at hd; exact hi.isOpen i d hd hfd
  · intro i j d d'; rw [hf]; exact hi.distinct i j d d'

theorem closedir_fds (s : State) (h : Nat) : (s.closedir h).1.fds = s.fds := by
  unfold State.closedir; split <;> rfl

/-- `closedir`/`close` of fd_close: no other descriptor is affected; on failure nothing is -/
theorem closeHost_posix (h : State) (d : Desc) :
    (∀ x : Int, x ≠ d.fd → openAt (closeHost posixHost h d).1.fds x = openAt h.fds x) ∧
    ((closeHost posixHost h d).2 ≠ .ok () → (closeHost posixHost h d).1.fds = h.fds) := by
  unfold closeHost
  simp only [posixHost]
  split
  · exact ⟨fun x _ => by rw [closedir_fds], fun _ => closedir_fds _ _⟩
  · split
    · obtain ⟨c1, c2⟩ := close_spec h d.fd
      generalize hc : h.close d.fd = x at c1 c2
      obtain ⟨h', r⟩ := x
      constructor
      · intro x hx
        cases r with
        | ok u => cases u; rw [(c1 h' rfl).2 x]; simp [hx]
        | err e => rw [c2 h' _ rfl (by simp)]
        | unmodelled => rw [c2 h' _ rfl (by simp)]
      · intro hr; rw [c2 h' r rfl hr]
    · exact ⟨fun _ _ => rfl, fun _ => rfl⟩

theorem NF_fdClose (cfg : Cfg) (s s' : St State) (n : Nat) (r : Res)
    (h : fdClose cfg posixHost s n = .val (s', r)) (hi : NF s) : NF s' := by
  unfold fdClose at h
  split at h
  · cases h; exact hi
  · rename_i d hd0
    have hd := (getDesc_some hd0).1
    obtain ⟨cA, cB⟩ := closeHost_posix s.host d
    generalize closeHost posixHost s.host d = x at h cA cB
    obtain ⟨h', rr⟩ := x
    cases rr with
    | unmodelled =>
      simp only [Out.val.injEq, Prod.mk.injEq] at h
      obtain ⟨h1, _⟩ := h; subst h1
      have hfds : h'.fds = s.host.fds := cB (by simp)
      exact ⟨fun i d hd hfd => by show openAt h'.fds d.fd = true; rw [hfds]; exact hi.isOpen i d hd hfd, hi.distinct⟩
    | err e =>
      simp only [Out.val.injEq, Prod.mk.injEq] at h
      obtain ⟨h1, _⟩ := h; subst h1
      have hfds : h'.fds = s.host.fds := cB (by simp)
      exact ⟨fun i d hd hfd => by show openAt h'.fds d.fd = true; rw [hfds]; exact hi.isOpen i d hd hfd, hi.distinct⟩
    | ok u =>
      -- the table after the call: entry n has no native descriptor any more, the others are unchanged
      have key : ∀ (heap' : List Cell), NF (setDesc { s with host := h', heap := heap' } n fun e =>
          { fd := -1, dir := none, path := if cfg.closeClearsPath then none else e.path }) := by
        intro heap'
        have hsrc : ∀ (i : Nat) (d' : Desc), (s.fds.modify n fun e =>
            ({ fd := -1, dir := none, path := if cfg.closeClearsPath then none else e.path } : Desc))[i]? = some d' →
            0 ≤ d'.fd → i ≠ n ∧ s.fds[i]? = some d' := by
          intro i d' hd' hfd
          obtain ⟨e, he, hde⟩ := getElem?_modify_some _ _ _ _ _ hd'
          by_cases hin : n = i
          · subst hde; simp [hin] at hfd
          · simp only [hin, ↓reduceIte] at hde; subst hde; exact ⟨fun h => hin h.symm, he⟩
        constructor
        · intro i d' hd' hfd
          obtain ⟨hne, he⟩ := hsrc i d' hd' hfd
          have hneq : d'.fd ≠ d.fd := by
            intro heq
            exact hne (hi.distinct i n d' d he hd hfd heq)
          show openAt h'.fds d'.fd = true
          rw [cA d'.fd hneq]
          exact hi.isOpen i d' he hfd
        · intro i j d1 d2 hd1 hd2 hfd heq
          obtain ⟨_, he1⟩ := hsrc i d1 hd1 hfd
          obtain ⟨_, he2⟩ := hsrc j d2 hd2 (by omega)
          exact hi.distinct i j d1 d2 he1 he2 hfd heq
      simp only at h
      split at h
      · simp only [Out.val.injEq, Prod.mk.injEq] at h
        obtain ⟨h1, _⟩ := h; subst h1
        exact key s.heap
      · split at h
        · simp only [Out.val.injEq, Prod.mk.injEq] at h
          obtain ⟨h1, _⟩ := h; subst h1
          exact key _
        · cases h
        · cases h
        · cases h

theorem opendir_fds (s : State) (p : Bytes) : (s.opendir p).1.fds = s.fds := by
  unfold State.opendir
  repeat' split
  all_goals rfl

theorem readdirOpen_host_ok (cfg : Cfg) (hc : cfg.readdirClosesNativeFd = false) (s s1 : St State)
    (n : Nat) (d : Desc) (cookie : Nat) (h : readdirOpen cfg posixHost s n d cookie = .val (.ok s1)) :
    s1.host.fds = s.host.fds := by
  unfold readdirOpen at h
  simp only [hc, Bool.false_eq_true, false_and, ↓reduceIte, posixHost] at h
  repeat' split at h
  all_goals first
    | (cases h; done)
    | (cases h; rfl)
    | (rename_i heq; cases h
       have := congrArg (fun x => x.1.fds) heq
       simp only [opendir_fds] at this
       exact this.symm)

theorem readdirOpen_host_error (cfg : Cfg) (s s1 : St State) (r1 : Res)
    (n : Nat) (d : Desc) (cookie : Nat) (h : readdirOpen cfg posixHost s n d cookie = .val (.error (s1, r1))) :
    s1.host.fds = s.host.fds := by
  unfold readdirOpen at h
  simp only [posixHost] at h
  repeat' split at h
  all_goals first
    | (cases h; done)
    | (cases h; rfl)
    | (rename_i heq; cases h
       have := congrArg (fun x => x.1.fds) heq
       simp only [opendir_fds] at this
       exact this.symm)

/-- fd_readdir (the source does NOT close the entry's native descriptor): host descriptors unchanged -/
theorem fdReaddir_host (cfg : Cfg) (hc : cfg.readdirClosesNativeFd = false) (s s' : St State)
    (n buf len cookie used : Nat) (r : Res) (h : fdReaddir cfg posixHost s n buf len cookie used = .val (s', r)) :
    s'.host.fds = s.host.fds := by
  unfold fdReaddir at h
  split at h
  · cases h; rfl
  · rename_i d hd
    cases hro : readdirOpen cfg posixHost s n d cookie with
    | val x =>
      rw [hro] at h
      cases x with
      | error e =>
        obtain ⟨s1, r1⟩ := e
        simp only at h
        cases h
        exact readdirOpen_host_error cfg s s' r n d cookie hro
      | ok s1 =>
        have := readdirOpen_host_ok cfg hc s s1 n d cookie hro
        simp only at h
        repeat' split at h
        all_goals first
          | (cases h; done)
          | (cases h; exact this)
    | trap t => rw [hro] at h; cases h
    | ub k => rw [hro] at h; cases h
    | oof => rw [hro] at h; cases h

theorem NF_fdReaddir (cfg : Cfg) (hc : cfg.readdirClosesNativeFd = false) (s s' : St State)
    (n buf len cookie used : Nat) (r : Res) (h : fdReaddir cfg posixHost s n buf len cookie used = .val (s', r))
    (hi : NF s) : NF s' := by
  have hh := fdReaddir_host cfg hc s s' n buf len cookie used r h
  obtain ⟨_, hf⟩ := fdReaddir_val cfg posixHost s s' n buf len cookie used r h
  have hsrc : ∀ (i : Nat) (d' : Desc), s'.fds[i]? = some d' → ∃ e, s.fds[i]? = some e ∧ d'.fd = e.fd := by
    intro i d' hd'
    rcases hf with hf | ⟨d, dh, hp, p, _, _, _, _, hf⟩
    · rw [hf] at hd'; exact ⟨d', hd', rfl⟩
    · rw [hf] at hd'
      obtain ⟨e, he, hde⟩ := getElem?_modify_some _ _ _ _ _ hd'
      exact ⟨e, he, by subst hde; split <;> rfl⟩
  constructor
  · intro i d' hd' hfd
    obtain ⟨e, he, hfe⟩ := hsrc i d' hd'
    rw [hh, hfe]; exact hi.isOpen i e he (by omega)
  · intro i j d1 d2 hd1 hd2 hfd heq
    obtain ⟨e1, he1, hf1⟩ := hsrc i d1 hd1
    obtain ⟨e2, he2, hf2⟩ := hsrc j d2 hd2
    exact hi.distinct i j e1 e2 he1 he2 (by omega) (by omega)

theorem NF_pathOpen (cfg : Cfg) (s s' : St State) (a b c d e f g hh i : Nat) (r : Res)
    (h : pathOpen cfg posixHost s a b c d e f g hh i = .val (s', r)) (hi : NF s) : NF s' := by
  unfold pathOpen at h
  simp only at h
  split at h
  · cases h
  · cases h
  · cases h
  · cases h; exact hi
  · rename_i p hpro
    simp only [posixHost] at h
    obtain ⟨o1, o2⟩ := open_spec s.host p (openAcc f) (openFlags e hh)
    generalize hop : s.host.open p (openAcc f) (openFlags e hh) = x at h o1 o2
    obtain ⟨h', rr⟩ := x
    -- every old entry's descriptor is still open in h'
    have old : ∀ (k : Nat) (dd : Desc), s.fds[k]? = some dd → 0 ≤ dd.fd → openAt h'.fds dd.fd = true := by
      intro k dd hdd hfd
      have hopen := hi.isOpen k dd hdd hfd
      cases rr with
      | ok nfd =>
        obtain ⟨n1, _, n3⟩ := o1 h' nfd rfl
        have : dd.fd ≠ (nfd : Int) := by intro heq; rw [heq, n1] at hopen; cases hopen
        rw [n3 dd.fd this]; exact hopen
      | err er => rw [o2 h' _ rfl (by simp)]; exact hopen
      | unmodelled => rw [o2 h' _ rfl (by simp)]; exact hopen
    have frame : NF ({ s with host := h' } : St State) := ⟨old, hi.distinct⟩
    unfold finishOpen at h
    cases rr with
    | unmodelled => simp only at h; cases h; exact frame
    | err er => simp only at h; cases h; exact frame
    | ok nfd =>
      simp only at h
      obtain ⟨n1, n2, n3⟩ := o1 h' nfd rfl
      split at h
      · cases h; exact frame
      · split at h
        · cases h; exact frame
        · rename_i s2 idx hadd
          obtain ⟨_, hf, _, _, hhost⟩ := tableAdd_spec _ _ _ _ _ hadd
          have fin : NF s2 := by
            constructor
            · intro k dd hdd hfd
              rw [hf, getElem?_snoc] at hdd
              rw [hhost]
              rcases hdd with ⟨_, hdd⟩ | ⟨_, hdd⟩
              · exact old k dd hdd hfd
              · subst hdd; exact n2
            · intro k j d1 d2 hd1 hd2 hfd heq
              rw [hf, getElem?_snoc] at hd1 hd2
              rcases hd1 with ⟨_, hd1⟩ | ⟨hk, hd1⟩ <;> rcases hd2 with ⟨_, hd2⟩ | ⟨hj, hd2⟩
              · exact hi.distinct k j d1 d2 hd1 hd2 hfd heq
              · subst hd2
                have := hi.isOpen k d1 hd1 hfd
                simp only at heq
                rw [heq, n1] at this; cases this
              · subst hd1
                have := hi.isOpen j d2 hd2 (by simp only at heq; omega)
                simp only at heq
                rw [← heq, n1] at this; cases this
              · omega
          split at h
          · cases h
          · cases h
          · cases h
          · cases h
            exact ⟨fin.isOpen, fin.distinct⟩

/-- one call preserves the invariant (the source must not close the entry's native descriptor in
    fd_readdir) -/
theorem step_NF (cfg : Cfg) (hc : cfg.readdirClosesNativeFd = false) (abi : Abi) (s s' : St State)
    (c : Call) (r : Res) (h : step cfg posixHost abi s c = .val (s', r)) (hi : NF s) : NF s' := by
  cases c with
  | ro c => exact NF_ro cfg abi s s' c r h hi
  | fdClose n => exact NF_fdClose cfg s s' n r h hi
  | fdReaddir n buf len cookie used => exact NF_fdReaddir cfg hc s s' n buf len cookie used r h hi
  | pathOpen a b c d e f g hh i => exact NF_pathOpen cfg s s' a b c d e f g hh i r h hi

theorem run_NF (cfg : Cfg) (hc : cfg.readdirClosesNativeFd = false) (hist : List (Abi × Call)) :
    ∀ (s s' : St State) (rs : List Res), run cfg posixHost s hist = .val (s', rs) → NF s → NF s' := by
  induction hist with
  | nil => intro s s' rs h hi; simp [run] at h; obtain ⟨h1, _⟩ := h; subst h1; exact hi
  | cons ac rest ih =>
    intro s s' rs h hi
    obtain ⟨abi, c⟩ := ac
    simp only [run] at h
    cases hs : step cfg posixHost abi s c with
    | val x =>
      obtain ⟨s1, r⟩ := x
      rw [hs] at h
      simp only [Out.bind_val] at h
      cases hr : run cfg posixHost s1 rest with
      | val y =>
        obtain ⟨s2, rs2⟩ := y
        rw [hr] at h
        simp only [Out.bind_val, Out.val.injEq, Prod.mk.injEq] at h
        obtain ⟨h1, _⟩ := h
        subst h1
        exact ih s1 s2 rs2 hr (step_NF cfg hc abi s s1 c r hs hi)
      | trap t => rw [hr] at h; simp at h
      | ub k => rw [hr] at h; simp at h
      | oof => rw [hr] at h; simp at h
    | trap t => rw [hs] at h; simp at h
    | ub k => rw [hs] at h; simp at h
    | oof => rw [hs] at h; simp at h

/-- the harness's initial state: descriptors 0–2 on the open native descriptors 0–2, the pre-open
    has no native descriptor -/
theorem NF_initState (m : Nat) : NF (initState m) := by
  have hfds : (initState m).fds = [⟨0, none, none⟩, ⟨1, none, none⟩, ⟨2, none, none⟩, ⟨-1, none, some 0⟩] := by
    have hc : 0 < (cstr (strBytes "sb")).length ∧ (cstr (strBytes "sb")).length < PATH_MAX := by decide +kernel
    simp [initState, addPreopen, tableAdd, initTable, tableAddNoPath, hc]
  have hhost : (initState m).host = initHost m := by
    unfold initState addPreopen
    split
    · rename_i s' idx hadd
      exact (tableAdd_spec _ _ _ _ _ hadd).2.2.2.2
    · rfl
  constructor
  · intro i d hd hfd
    rw [hhost]
    rw [hfds] at hd
    match i, hd with
    | 0, hd => simp at hd; subst hd; rfl
    | 1, hd => simp at hd; subst hd; rfl
    | 2, hd => simp at hd; subst hd; rfl
    | 3, hd => simp at hd; subst hd; simp at hfd
    | k + 4, hd => simp at hd
  · intro i j d d' hd hd' hfd heq
    rw [hfds] at hd hd'
    match i, hd, j, hd' with
    | 0, hd, 0, hd' => rfl
    | 1, hd, 1, hd' => rfl
    | 2, hd, 2, hd' => rfl
    | 3, hd, _, _ => simp at hd; subst hd; simp at hfd
    | 0, hd, 1, hd' => simp at hd hd'; subst hd hd'; simp at heq
    | 0, hd, 2, hd' => simp at hd hd'; subst hd hd'; simp at heq
    | 0, hd, 3, hd' => simp at hd hd'; subst hd hd'; simp at heq
    | 1, hd, 0, hd' => simp at hd hd'; subst hd hd'; simp at heq
    | 1, hd, 2, hd' => simp at hd hd'; subst hd hd'; simp at heq
    | 1, hd, 3, hd' => simp at hd hd'; subst hd hd'; simp at heq
    | 2, hd, 0, hd' => simp at hd hd'; subst hd hd'; simp at heq
    | 2, hd, 1, hd' => simp at hd hd'; subst hd hd'; simp at heq
    | 2, hd, 3, hd' => simp at hd hd'; subst hd hd'; simp at heq
    | k + 4, hd, _, _ => simp at hd
    | 0, _, k + 4, hd' => simp at hd'
    | 1, _, k + 4, hd' => simp at hd'
    | 2, _, k + 4, hd' => simp at hd'

end W2c2Verif.Model.Wasi
