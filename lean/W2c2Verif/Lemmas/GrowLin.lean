/-
  Lemmas.GrowLin — the linearization order read off a trace, and pure facts about `Older`, `replay`.
-/
import W2c2Verif.Lemmas.GrowSeq

namespace W2c2Verif.Model.Grow
open W2c2Verif.Model

def linAdd (t : Tid) (l : List Tid) : List Tid := if t ∈ l then l else t :: l

/-- The witness order (newest first): a grow takes effect when it releases the mutex; a grow that returns
    without ever having taken the mutex takes effect when it returns. -/
def lin (cfg : Cfg) : List Ev → List Tid
  | [] => []
  | .rel t :: tr => linAdd t (lin cfg tr)
  | .res t _ :: tr => if cfg.isGrow t then linAdd t (lin cfg tr) else lin cfg tr
  | .inv _ :: tr => lin cfg tr
  | .acq _ :: tr => lin cfg tr

theorem mem_linAdd {t u : Tid} {l : List Tid} : u ∈ linAdd t l ↔ u = t ∨ u ∈ l := by
  unfold linAdd
  split
  · constructor
    · exact Or.inr
    · rintro (rfl | h)
      · assumption
      · exact h
  · simp

theorem nodup_linAdd {t : Tid} {l : List Tid} (h : l.Nodup) : (linAdd t l).Nodup := by
  unfold linAdd
  split
  · exact h
  · rename_i hn; exact List.nodup_cons.mpr ⟨hn, h⟩

theorem linAdd_of_not_mem {t : Tid} {l : List Tid} (h : t ∉ l) : linAdd t l = t :: l := by
  simp [linAdd, h]

theorem linAdd_of_mem {t : Tid} {l : List Tid} (h : t ∈ l) : linAdd t l = l := by
  simp [linAdd, h]

theorem lin_nodup (cfg : Cfg) : ∀ tr : List Ev, (lin cfg tr).Nodup
  | [] => by simp [lin]
  | .rel t :: tr => by simp only [lin]; exact nodup_linAdd (lin_nodup cfg tr)
  | .res t _ :: tr => by
    simp only [lin]; split
    · exact nodup_linAdd (lin_nodup cfg tr)
    · exact lin_nodup cfg tr
  | .inv _ :: tr => by simp only [lin]; exact lin_nodup cfg tr
  | .acq _ :: tr => by simp only [lin]; exact lin_nodup cfg tr

theorem mem_lin (cfg : Cfg) (u : Tid) : ∀ tr : List Ev,
    u ∈ lin cfg tr ↔ (Ev.rel u ∈ tr ∨ (cfg.isGrow u = true ∧ ∃ v, Ev.res u v ∈ tr))
  | [] => by simp [lin]
  | .rel t :: tr => by
    simp only [lin, mem_linAdd, mem_lin cfg u tr, List.mem_cons, Ev.rel.injEq, reduceCtorEq, false_or]
    constructor
    · rintro (h | h | h)
      · exact Or.inl (Or.inl h)
      · exact Or.inl (Or.inr h)
      · exact Or.inr h
    · rintro ((h | h) | h)
      · exact Or.inl h
      · exact Or.inr (Or.inl h)
      · exact Or.inr (Or.inr h)
  | .res t w :: tr => by
    simp only [lin]
    split
    · rename_i hg
      simp only [mem_linAdd, mem_lin cfg u tr, List.mem_cons, reduceCtorEq, false_or, Ev.res.injEq]
      constructor
      · rintro (h | h | ⟨hg', v, hv⟩)
        · subst h; exact Or.inr ⟨hg, w, Or.inl ⟨rfl, rfl⟩⟩
        · exact Or.inl h
        · exact Or.inr ⟨hg', v, Or.inr hv⟩
      · rintro (h | ⟨hg', v, (⟨h1, _⟩ | hv)⟩)
        · exact Or.inr (Or.inl h)
        · exact Or.inl h1
        · exact Or.inr (Or.inr ⟨hg', v, hv⟩)
    · rename_i hg
      simp only [mem_lin cfg u tr, List.mem_cons, reduceCtorEq, false_or, Ev.res.injEq]
      constructor
      · rintro (h | ⟨hg', v, hv⟩)
        · exact Or.inl h
        · exact Or.inr ⟨hg', v, Or.inr hv⟩
      · rintro (h | ⟨hg', v, (⟨h1, _⟩ | hv)⟩)
        · exact Or.inl h
        · subst h1; exact absurd hg' hg
        · exact Or.inr ⟨hg', v, hv⟩
  | .inv t :: tr => by
    simp only [lin, mem_lin cfg u tr, List.mem_cons, reduceCtorEq, false_or]
  | .acq t :: tr => by
    simp only [lin, mem_lin cfg u tr, List.mem_cons, reduceCtorEq, false_or]

/-! ### Older -/

theorem Older_cons {α : Type} {e x y : α} {l : List α} :
    Older (e :: l) x y ↔ (e = y ∧ x ∈ l) ∨ Older l x y := by
  constructor
  · rintro ⟨l1, l2, h, hx⟩
    cases l1 with
    | nil =>
      simp only [List.nil_append, List.cons.injEq] at h
      exact Or.inl ⟨h.1, h.2 ▸ hx⟩
    | cons a l1 =>
      simp only [List.cons_append, List.cons.injEq] at h
      exact Or.inr ⟨l1, l2, h.2, hx⟩
  · rintro (⟨rfl, hx⟩ | ⟨l1, l2, h, hx⟩)
    · exact ⟨[], l, rfl, hx⟩
    · exact ⟨e :: l1, l2, by simp [h], hx⟩

theorem Older_mem_left {α : Type} {x y : α} {l : List α} (h : Older l x y) : x ∈ l := by
  obtain ⟨l1, l2, rfl, hx⟩ := h
  simp [hx]

theorem Older_mem_right {α : Type} {x y : α} {l : List α} (h : Older l x y) : y ∈ l := by
  obtain ⟨l1, l2, rfl, _⟩ := h
  simp

/-- decompositions of a duplicate-free list around an element are unique -/
theorem nodup_decomp_unique {α : Type} {t : α} : ∀ {n1 o1 n2 o2 : List α},
    (n1 ++ t :: o1).Nodup → n1 ++ t :: o1 = n2 ++ t :: o2 → n1 = n2 ∧ o1 = o2 := by
  intro n1
  induction n1 with
  | nil =>
    intro o1 n2 o2 hnd h
    cases n2 with
    | nil => simp at h; exact ⟨rfl, h⟩
    | cons a n2 =>
      simp only [List.nil_append, List.cons_append, List.cons.injEq] at h
      obtain ⟨rfl, rfl⟩ := h
      simp at hnd
  | cons b n1 ih =>
    intro o1 n2 o2 hnd h
    cases n2 with
    | nil =>
      simp only [List.nil_append, List.cons_append, List.cons.injEq] at h
      obtain ⟨rfl, h2⟩ := h
      simp at hnd
    | cons a n2 =>
      simp only [List.cons_append, List.cons.injEq] at h
      obtain ⟨rfl, h2⟩ := h
      have := ih (List.nodup_cons.mp hnd).2 h2
      exact ⟨by rw [this.1], this.2⟩

/-- a decomposition of `x :: l` around `u ≠ x` is a decomposition of `l` -/
theorem decomp_cons_ne {α : Type} {x u : α} {l newer older : List α} (hne : x ≠ u)
    (h : x :: l = newer ++ u :: older) : ∃ n', newer = x :: n' ∧ l = n' ++ u :: older := by
  cases newer with
  | nil => simp at h; exact absurd h.1 hne
  | cons a n' =>
    simp only [List.cons_append, List.cons.injEq] at h
    exact ⟨n', by rw [h.1], h.2⟩

/-! ### replay -/

theorem specGrow_snd_le {imm : Imm} {p d : Nat} (h : p ≤ imm.maxPages) : (specGrow imm p d).2 ≤ imm.maxPages := by
  unfold specGrow; split <;> simp_all

theorem replay_le (cfg : Cfg) {p0 : Nat} (h : p0 ≤ cfg.imm.maxPages) :
    ∀ l : List Tid, replay cfg p0 l ≤ cfg.imm.maxPages
  | [] => h
  | _ :: l => specGrow_snd_le (replay_le cfg h l)

theorem specGrow_snd_ge (imm : Imm) (p d : Nat) : p ≤ (specGrow imm p d).2 := by
  unfold specGrow; split <;> simp

theorem replay_mono_append (cfg : Cfg) (p0 : Nat) (older : List Tid) :
    ∀ newer : List Tid, replay cfg p0 older ≤ replay cfg p0 (newer ++ older)
  | [] => Nat.le_refl _
  | _ :: n => Nat.le_trans (replay_mono_append cfg p0 older n) (specGrow_snd_ge _ _ _)

end W2c2Verif.Model.Grow
