/-
  Lemmas.NumEval — tactics that evaluate `Model.runNumeric` (the emitted statement of one
  numeric opcode) on symbolic operands, rewriting calls of header macros with the macro
  theorems of Props.C01 (part A).
-/
import W2c2Verif.Props.C01
import W2c2Verif.Model.EmitNumeric
import W2c2Verif.Spec.Num

namespace W2c2Verif.Props.C01
open W2c2Verif

/-- the callable definitions visible to emitted code: the macros of w2c2_base.h (this host's configuration) -/
def macroDefs : Defs := defsOfMacros Gen.macrosLE noDefs
theorem repr0 : Nat.repr 0 = "0" := by decide
theorem repr1 : Nat.repr 1 = "1" := by decide

/-- evaluate `runNumeric` on a concrete opcode: table lookup, statement construction, slot names -/
macro "num_unfold" : tactic => `(tactic|
  simp +decide [Model.runNumeric, lookupAssoc, Gen.emitTable, Model.numEmit, Model.binOpOfString, Model.unaryExpr, List.foldr,
    Model.lookupVT, Gen.opcodeResultType, Gen.opcodeParam1Type,
    Model.slotName, Gen.VT.idx, Gen.VT.cty, Gen.VT.signedCty, Gen.VT.shiftMask, Gen.stackNamePrefix,
    Gen.valueTypeStackNames, Gen.valueTypeNames, Gen.signedTypeNames, Gen.shiftMaskStrings, CTy.ofName, CVal.ofBits, Gen.shiftMaskValues, repr0, repr1])

/-- evaluate the emitted statement; calls of header macros are rewritten with the theorems of part A -/
macro "num_eval" : tactic => `(tactic|
  simp +decide [CExpr.eval, CExpr.typeOf, CStmt.exec_seq, CStmt.exec_skip, CStmt.exec_decl,
        CStmt.exec_assign, CStmt.exec_opAssign, CStmt.exec_ifThen, CStmt.exec_ret, Env.get, Env.set,
        CVal.fromNat, CVal.fromInt, CVal.binop, CVal.unop, CVal.shift, CVal.withAmt, CPrim.amtOk, CTy.common, CTy.promote, CVal.ty,
        CPrim.cmpS, CPrim.cmpU, CPrim.arithS, CPrim.arithU, CPrim.shiftU, CPrim.shiftS, BinOp.isCmp,
        Out.map', Out.ite_bind, builtin1, builtin2, signbitSem, macroDefs, defsOfMacros, lookupAssoc, Gen.macrosLE, CVal.truthy,
        i32_div_s_correct, i64_div_s_correct, i32_rem_s_correct, i64_rem_s_correct,
        i32_div_u_correct, i64_div_u_correct, i32_rem_u_correct, i64_rem_u_correct,
        i32_rotl_correct, i64_rotl_correct, i32_rotr_correct, i64_rotr_correct,
        i32_clz_raw, i32_ctz_raw, i32_popcnt_raw, i64_clz_raw, i64_ctz_raw, i64_popcnt_raw, clz64_small, ctz64_small, popcnt64_small,
        -BitVec.shiftLeft_eq', -BitVec.ushiftRight_eq', -BitVec.sshiftRight_eq'])


end W2c2Verif.Props.C01
