/-
  Lemmas.WasiEbadf — a descriptor that `wasiFileDescriptorGet` rejects makes every call return
  EBADF with the state untouched; closed slots stay closed; path_open appends.
-/
import W2c2Verif.Lemmas.WasiSafe
import W2c2Verif.Lemmas.WasiMem

namespace W2c2Verif.Model.Wasi
open W2c2Verif W2c2Verif.Spec.Posix

variable {σ : Type}

/-- the descriptor arguments of a call -/
def Call.fdArgs : Call → List Nat
  | .ro (.fdWrite n ..) | .ro (.fdPwrite n ..) | .ro (.fdRead n ..) | .ro (.fdPread n ..)
  | .ro (.fdSeek n ..) | .ro (.fdTell n _) | .ro (.fdFdstatGet n _) | .ro (.fdDatasync n) | .ro (.fdSync n)
  | .ro (.fdPrestatGet n _) | .ro (.fdPrestatDirName n ..) | .ro (.fdFilestatGet n _)
  | .ro (.pathFilestatGet n ..) | .ro (.pathUnlinkFile n ..) | .ro (.pathRemoveDirectory n ..)
  | .ro (.pathCreateDirectory n ..) | .ro (.pathReadlink n ..) => [n]
  | .ro (.pathSymlink _ _ n _ _) => [n]
  | .ro (.pathRename o _ _ n _ _) => [o, n]
  | .ro (.nosys _ n) => [n]
  | .fdClose n | .fdReaddir n .. | .pathOpen n .. => [n]

/-- the call looks its descriptor(s) up before anything else: every implemented import except
    `fd_seek` with an invalid whence value when the source converts whence first -/
def Call.looksUpFirst (cfg : Cfg) (abi : Abi) : Call → Prop
  | .ro (.nosys _ _) => False
  | .ro (.fdSeek _ _ wh _) => cfg.seekChecksWhenceFirst = true → (whenceOf abi wh).isSome = true
  | _ => True

/-- every import except the unimplemented ENOSYS stubs -/
def Call.implemented : Call → Prop
  | .ro (.nosys _ _) => False
  | _ => True

theorem looksUpFirst_of_implemented (cfg : Cfg) (abi : Abi) (c : Call) (hs : cfg.seekChecksWhenceFirst = false)
    (h : c.implemented) : c.looksUpFirst cfg abi := by
  cases c with
  | ro c =>
    cases c <;> first | exact trivial | exact h | (intro hw; rw [hs] at hw; cases hw)
  | fdClose n => exact trivial
  | fdReaddir n b l c u => exact trivial
  | pathOpen a b c d e f g h i => exact trivial

theorem step_ro_eq (cfg : Cfg) (H : Host σ) (abi : Abi) (s : St σ) (c : ROCall) (e : Nat)
    (h : stepRO cfg H abi s c = ret ⟨s.mem, []⟩ s.host e) :
    step cfg H abi s (.ro c) = .val (s, .errno e []) := by
  simp only [step, h, ret, Out.map']
  rfl

theorem doSeek_dead (cfg : Cfg) (H : Host σ) (s : St σ) (w : MW) (n : Nat) (off : Int) (wh : Whence) (res : Nat)
    (hd : getDesc cfg s n = none) : doSeek cfg H s w n off wh res = ret w s.host BADF := by
  unfold doSeek; rw [hd]

theorem pathPrologue_dead (cfg : Cfg) (s : St σ) (w : MW) (n ptr len : Nat) (hd : getDesc cfg s n = none) :
    pathPrologue cfg s w n ptr len = .val (.error BADF) := by
  unfold pathPrologue; rw [hd]

/-- a descriptor number that `wasiFileDescriptorGet` rejects: EBADF, nothing read, nothing changed -/
theorem dead_is_ebadf (cfg : Cfg) (H : Host σ) (abi : Abi) (s : St σ) (c : Call) (n : Nat)
    (hn : n ∈ c.fdArgs) (hd : getDesc cfg s n = none) (hc : c.looksUpFirst cfg abi) :
    step cfg H abi s c = .val (s, .errno BADF []) := by
  cases c with
  | fdClose m =>
    simp [Call.fdArgs] at hn; subst hn
    simp only [step, fdClose, hd]
  | fdReaddir m buf len cookie used =>
    simp [Call.fdArgs] at hn; subst hn
    simp only [step, fdReaddir, hd]
  | pathOpen a b c d e f g hh i =>
    simp [Call.fdArgs] at hn; subst hn
    simp only [step, pathOpen, pathPrologue_dead cfg s _ n c d hd]
  | ro c =>
    apply step_ro_eq
    cases c with
    | fdWrite m iovs cnt res => simp [Call.fdArgs] at hn; subst hn; simp only [stepRO, hd]
    | fdPwrite m iovs cnt off res => simp [Call.fdArgs] at hn; subst hn; simp only [stepRO, hd]
    | fdRead m iovs cnt res => simp [Call.fdArgs] at hn; subst hn; simp only [stepRO, hd]
    | fdPread m iovs cnt off res => simp [Call.fdArgs] at hn; subst hn; simp only [stepRO, hd]
    | fdSeek m off wh res =>
      simp [Call.fdArgs] at hn; subst hn
      simp only [stepRO]
      split
      · rename_i hw
        have := hc hw
        cases hwh : whenceOf abi wh with
        | none => rw [hwh] at this; cases this
        | some w => simp only; exact doSeek_dead cfg H s _ n _ w res hd
      · simp only [hd]
    | fdTell m res => simp [Call.fdArgs] at hn; subst hn; simp only [stepRO]; exact doSeek_dead cfg H s _ n _ _ res hd
    | fdFdstatGet m res => simp [Call.fdArgs] at hn; subst hn; simp only [stepRO, hd]
    | fdDatasync m => simp [Call.fdArgs] at hn; subst hn; simp only [stepRO, hd]
    | fdSync m => simp [Call.fdArgs] at hn; subst hn; simp only [stepRO, hd]
    | fdPrestatGet m ptr => simp [Call.fdArgs] at hn; subst hn; simp only [stepRO, hd]
    | fdPrestatDirName m ptr len => simp [Call.fdArgs] at hn; subst hn; simp only [stepRO, hd]
    | fdFilestatGet m ptr => simp [Call.fdArgs] at hn; subst hn; simp only [stepRO, hd]
    | pathFilestatGet m fl pp pl sp =>
      simp [Call.fdArgs] at hn; subst hn
      simp only [stepRO, pathPrologue_dead cfg s _ n pp pl hd]; rfl
    | pathRename o op ol m np nl =>
      simp [Call.fdArgs] at hn
      simp only [stepRO]
      rcases hn with hn | hn
      · subst hn; simp only [hd]
      · subst hn
        cases ho : getDesc cfg s o with
        | none => rfl
        | some od => simp only [hd]
    | pathUnlinkFile m p l =>
      simp [Call.fdArgs] at hn; subst hn
      simp only [stepRO, simplePathCall, pathPrologue_dead cfg s _ n p l hd]; rfl
    | pathRemoveDirectory m p l =>
      simp [Call.fdArgs] at hn; subst hn
      simp only [stepRO, simplePathCall, pathPrologue_dead cfg s _ n p l hd]; rfl
    | pathCreateDirectory m p l =>
      simp [Call.fdArgs] at hn; subst hn
      simp only [stepRO, simplePathCall, pathPrologue_dead cfg s _ n p l hd]; rfl
    | pathSymlink op ol m np nl => simp [Call.fdArgs] at hn; subst hn; simp only [stepRO, hd]
    | pathReadlink m p l buf bl lp =>
      simp [Call.fdArgs] at hn; subst hn
      simp only [stepRO, pathPrologue_dead cfg s _ n p l hd]; rfl
    | nosys name m => exact absurd hc (by simp [Call.looksUpFirst])

/-! ## closing empties the slot, and an empty slot stays empty -/

theorem fdClose_ok_empty (cfg : Cfg) (hc : cfg.closeClearsPath = true) (H : Host σ) (s s' : St σ) (n : Nat)
    (log : List (Nat × Bytes)) (h : fdClose cfg H s n = .val (s', .errno 0 log)) :
    s'.fds[n]? = some Desc.empty := by
  rcases fdClose_val cfg H s s' n _ h with ⟨_, _, _, hne⟩ | ⟨d, hd, hr, _, hf, _⟩
  · unfold fdClose at h
    -- the BADF / unmodelled exits never answer 0
    split at h
    · simp [BADF, Gen.Wasi.WASI_ERRNO_BADF] at h
    · split at h
      · simp at h
      · simp [BADF, Gen.Wasi.WASI_ERRNO_BADF] at h
      · split at h
        · simp at h; obtain ⟨_, h2⟩ := h; subst h2; exact absurd rfl hne
        · split at h
          · simp at h; obtain ⟨_, h2⟩ := h; subst h2; exact absurd rfl hne
          · cases h
          · cases h
          · cases h
  · rw [hf, List.getElem?_modify, hd]; simp [hc, Desc.empty]

theorem empty_stable (cfg : Cfg) (H : Host σ) (abi : Abi) (s s' : St σ) (c : Call) (r : Res) (n : Nat)
    (he : s.fds[n]? = some Desc.empty) (h : step cfg H abi s c = .val (s', r)) :
    s'.fds[n]? = some Desc.empty := by
  cases c with
  | ro c => rw [(step_ro_frame cfg H abi s s' c r h).1]; exact he
  | fdClose m =>
    rcases fdClose_val cfg H s s' m r h with ⟨hf, _⟩ | ⟨d, hd, _, _, hf, _⟩
    · rw [hf]; exact he
    · rw [hf, List.getElem?_modify, he]
      by_cases hmn : m = n <;> simp [hmn, Desc.empty]
  | fdReaddir m buf len cookie used =>
    obtain ⟨_, hf⟩ := fdReaddir_val cfg H s s' m buf len cookie used r h
    rcases hf with hf | ⟨d, dh, hp, p, hd, _, hpath, _, hf⟩
    · rw [hf]; exact he
    · rw [hf, List.getElem?_modify, he]
      by_cases hmn : m = n
      · subst hmn; rw [he] at hd; cases hd; simp [Desc.empty] at hpath
      · simp [hmn]
  | pathOpen a b c d e f g hh i =>
    rcases pathOpen_val cfg H s s' a b c d e f g hh i r h with ⟨hf, _⟩ | ⟨h', nfd, p, s2, idx, w', hadd, hs', _, _⟩
    · rw [hf]; exact he
    · obtain ⟨_, hf, _⟩ := tableAdd_spec _ _ _ _ _ hadd
      subst hs'
      simp only [hf]
      have : n < s.fds.length := (List.getElem?_eq_some_iff.mp he).1
      rw [List.getElem?_append_left this]; exact he

theorem empty_stable_run (cfg : Cfg) (H : Host σ) (n : Nat) (hist : List (Abi × Call)) :
    ∀ (s s' : St σ) (rs : List Res), s.fds[n]? = some Desc.empty → run cfg H s hist = .val (s', rs) →
      s'.fds[n]? = some Desc.empty := by
  induction hist with
  | nil => intro s s' rs he h; simp [run] at h; obtain ⟨h1, _⟩ := h; subst h1; exact he
  | cons ac rest ih =>
    intro s s' rs he h
    obtain ⟨abi, c⟩ := ac
    simp only [run] at h
    cases hs : step cfg H abi s c with
    | val x =>
      obtain ⟨s1, r⟩ := x
      rw [hs] at h
      simp only [Out.bind_val] at h
      cases hr : run cfg H s1 rest with
      | val y =>
        obtain ⟨s2, rs2⟩ := y
        rw [hr] at h
        simp only [Out.bind_val, Out.val.injEq, Prod.mk.injEq] at h
        obtain ⟨h1, _⟩ := h
        subst h1
        exact ih s1 s2 rs2 (empty_stable cfg H abi s s1 c r n he hs) hr
      | trap t => rw [hr] at h; simp at h
      | ub k => rw [hr] at h; simp at h
      | oof => rw [hr] at h; simp at h
    | trap t => rw [hs] at h; simp at h
    | ub k => rw [hs] at h; simp at h
    | oof => rw [hs] at h; simp at h

/-! ## the table only grows -/

theorem step_length_mono (cfg : Cfg) (H : Host σ) (abi : Abi) (s s' : St σ) (c : Call) (r : Res)
    (h : step cfg H abi s c = .val (s', r)) : s.fds.length ≤ s'.fds.length := by
  cases c with
  | ro c => rw [(step_ro_frame cfg H abi s s' c r h).1]; exact Nat.le_refl _
  | fdClose m =>
    rcases fdClose_val cfg H s s' m r h with ⟨hf, _⟩ | ⟨d, hd, _, _, hf, _⟩
    · rw [hf]; exact Nat.le_refl _
    · rw [hf, List.length_modify]; exact Nat.le_refl _
  | fdReaddir m buf len cookie used =>
    obtain ⟨_, hf⟩ := fdReaddir_val cfg H s s' m buf len cookie used r h
    rcases hf with hf | ⟨d, dh, hp, p, _, _, _, _, hf⟩
    · rw [hf]; exact Nat.le_refl _
    · rw [hf, List.length_modify]; exact Nat.le_refl _
  | pathOpen a b c d e f g hh i =>
    rcases pathOpen_val cfg H s s' a b c d e f g hh i r h with ⟨hf, _⟩ | ⟨h', nfd, p, s2, idx, w', hadd, hs', _, _⟩
    · rw [hf]; exact Nat.le_refl _
    · obtain ⟨_, hf, _⟩ := tableAdd_spec _ _ _ _ _ hadd
      subst hs'
      simp only [hf, List.length_append]; simp

/-! ## a successful path_open appended a fresh descriptor -/

theorem wasiErrno_ne_zero (e : Errno) : wasiErrno e ≠ 0 := by
  cases e <;> decide

theorem pathPrologue_error (cfg : Cfg) (s : St σ) (w : MW) (n ptr len e : Nat)
    (h : pathPrologue cfg s w n ptr len = .val (.error e)) : e = BADF ∨ e = INVAL := by
  unfold pathPrologue at h
  split at h
  · cases h; exact Or.inl rfl
  · split at h
    · cases h; exact Or.inl rfl
    · cases hg : guestPath w.mem ptr len with
      | val gp =>
        rw [hg] at h
        simp only [Out.bind_val] at h
        rename_i hp _
        cases hr : resolvePath cfg s.heap hp gp with
        | val r =>
          rw [hr] at h
          simp only [Out.bind_val] at h
          cases r with
          | none => simp at h; exact Or.inr h.symm
          | some p => simp at h
        | trap t => rw [hr] at h; simp at h
        | ub k => rw [hr] at h; simp at h
        | oof => rw [hr] at h; simp at h
      | trap t => rw [hg] at h; simp at h
      | ub k => rw [hg] at h; simp at h
      | oof => rw [hg] at h; simp at h

theorem pathOpen_ok (cfg : Cfg) (H : Host σ) (s s' : St σ) (a b c d e f g hh i : Nat) (log : List (Nat × Bytes))
    (h : pathOpen cfg H s a b c d e f g hh i = .val (s', .errno 0 log)) :
    ∃ h' nfd p s2 w', tableAdd { s with host := h' } nfd p = some (s2, s.fds.length) ∧
        s' = { s2 with mem := w'.mem } ∧ (⟨s.mem, []⟩ : MW).store i (leBytes 4 s.fds.length) = .val w' ∧
        log = [(i, leBytes 4 s.fds.length)] := by
  unfold pathOpen at h
  simp only at h
  split at h
  · cases h
  · cases h
  · cases h
  · rename_i e' hpro
    rcases pathPrologue_error cfg s _ a c d e' hpro with he | he <;>
      (subst he; simp [BADF, INVAL, Gen.Wasi.WASI_ERRNO_BADF, Gen.Wasi.WASI_ERRNO_INVAL] at h)
  · rename_i p hpro
    unfold finishOpen at h
    split at h
    · simp at h
    · rename_i h' e' _
      simp at h
      exact absurd h.2.1 (wasiErrno_ne_zero e')
    · rename_i h' nfd hop
      split at h
      · rename_i r hdc
        simp at h
        obtain ⟨_, hr⟩ := h
        subst hr
        unfold directoryCheck at hdc
        split at hdc
        · split at hdc
          · cases hdc
          · rename_i e' _; simp at hdc; exact absurd hdc.1 (wasiErrno_ne_zero e')
          · split at hdc
            · cases hdc
            · simp [NOTDIR, Gen.Wasi.WASI_ERRNO_NOTDIR] at hdc
        · cases hdc
      · split at h
        · simp [BADF, Gen.Wasi.WASI_ERRNO_BADF] at h
        · rename_i s2 idx hadd
          split at h
          · cases h
          · cases h
          · cases h
          · rename_i w' hst
            simp at h
            obtain ⟨h1, h2⟩ := h
            obtain ⟨hidx, _⟩ := tableAdd_spec _ _ _ _ _ hadd
            simp only at hidx
            subst hidx
            obtain ⟨_, hlog⟩ := MW.store_val hst
            refine ⟨h', nfd, p, s2, w', hadd, h1.symm, hst, ?_⟩
            rw [← h2, hlog]; rfl
