/-
  Lemmas.ReaderNoUB — which undefined operations `Model.Reader` can reach, on ANY input.
  `UBOnly S p`: every `ub` outcome of the reader `p` satisfies `S`.  Closed under bind/if/match/loops; the
  guarded indexing sites (`exportFunctionIndex`, `functionNameIndex`) are shown unreachable through loop
  invariants on the lengths of the arrays involved.
-/
import W2c2Verif.Lemmas.ReaderStable

namespace W2c2Verif.Lemmas.Reader
open W2c2Verif.Model W2c2Verif.Model.Reader
open W2c2Verif.Gen

def UBOnly {α : Type} (S : UB → Prop) (p : P α) : Prop := ∀ bs u, p bs = .ub u → S u

/-- `OkInv I p`: every successful result of `p` satisfies `I`. -/
def OkInv {α : Type} (I : α → Prop) (p : P α) : Prop := ∀ bs a rest, p bs = .ok (a, rest) → I a

theorem bind_ub {α β : Type} {p : P α} {f : α → P β} {bs : Bytes} {u : UB}
    (h : (p >>= f) bs = .ub u) : p bs = .ub u ∨ ∃ a mid, p bs = .ok (a, mid) ∧ f a mid = .ub u := by
  have h' : P.bind p f bs = .ub u := h
  unfold P.bind at h'
  split at h'
  · rename_i a mid hp; exact Or.inr ⟨a, mid, hp, h'⟩
  · cases h'
  · rename_i u' hp; cases h'; exact Or.inl hp

theorem ub_bind {α β : Type} {S : UB → Prop} {p : P α} {f : α → P β}
    (hp : UBOnly S p) (hf : ∀ a, UBOnly S (f a)) : UBOnly S (p >>= f) := by
  intro bs u h
  rcases bind_ub h with h | ⟨a, mid, _, h⟩
  · exact hp bs u h
  · exact hf a mid u h

/-- bind where the continuation is only known to be safe on results satisfying an invariant of `p` -/
theorem ub_bind_inv {α β : Type} {S : UB → Prop} {I : α → Prop} {p : P α} {f : α → P β}
    (hp : UBOnly S p) (hi : OkInv I p) (hf : ∀ a, I a → UBOnly S (f a)) : UBOnly S (p >>= f) := by
  intro bs u h
  rcases bind_ub h with h | ⟨a, mid, hok, h⟩
  · exact hp bs u h
  · exact hf a (hi bs a mid hok) mid u h

theorem ub_pure {α : Type} {S : UB → Prop} (a : α) : UBOnly S (pure a : P α) := by
  intro bs u h; cases h

theorem ub_fail {α : Type} {S : UB → Prop} (e : Nat) : UBOnly S (P.fail e : P α) := by
  intro bs u h; cases h

theorem ub_undefined {α : Type} {S : UB → Prop} (u : UB) (h : S u) : UBOnly S (P.undefined u : P α) := by
  intro bs u' h'; cases h'; exact h

theorem ub_ite {α : Type} {S : UB → Prop} {c : Prop} [Decidable c] {p q : P α}
    (h1 : c → UBOnly S p) (h2 : ¬ c → UBOnly S q) : UBOnly S (if c then p else q) := by
  by_cases hc : c
  · rw [if_pos hc]; exact h1 hc
  · rw [if_neg hc]; exact h2 hc

theorem ub_byte {S : UB → Prop} (e : Nat) : UBOnly S (byte e) := by
  intro bs u h; cases bs <;> cases h

theorem ub_u32 {S : UB → Prop} (e : Nat) : UBOnly S (u32 e) := by
  intro bs u h; rw [u32_run] at h; split at h <;> cases h

theorem ub_i32 {S : UB → Prop} (e : Nat) : UBOnly S (i32 e) := by
  intro bs u h; rw [i32_run] at h; split at h <;> cases h

theorem ub_fixed {S : UB → Prop} (n e : Nat) : UBOnly S (fixed n e) := by
  intro bs u h
  have : fixed n e bs = if bs.length < n then .err e else .ok (bs.take n, bs.drop n) := rfl
  rw [this] at h; split at h <;> cases h

theorem ub_takeExact {S : UB → Prop} (g : Bytes → Bytes) (e l : Nat) : UBOnly S (takeExact g e l) := by
  intro bs u h
  have : takeExact g e l bs = if bs.length < l then .err e else .ok (g (bs.take l), bs.drop l) := rfl
  rw [this] at h; split at h <;> cases h

theorem ub_skip {S : UB → Prop} (n : Nat) : UBOnly S (skip n) := by
  intro bs u h; cases h

theorem ub_remaining {S : UB → Prop} : UBOnly S P.remaining := by
  intro bs u h; cases h

theorem ub_peek {S : UB → Prop} : UBOnly S P.peek := by
  intro bs u h; cases h

/-- `leb128ReadI64` with the sign-extension form of the current source performs no undefined operation, so
    `i64` never reports one (whatever `strict` is).  Fails to check if the form `-((I64)1 << shift)` returns. -/
theorem readI64_ub_false (bs : Bytes) : (Leb.readI64 bs).ub = false :=
  W2c2Verif.Lemmas.Leb.run_ub_false (d := Reader.leb128ReadI64) ⟨rfl, rfl, rfl, by decide, by decide⟩ (by decide) (by decide)
    (Or.inl (by decide)) bs

theorem ub_i64 {S : UB → Prop} (strict : Bool) (e : Nat) : UBOnly S (i64 strict e) := by
  intro bs u h
  rw [i64_run, readI64_ub_false] at h
  split at h
  · cases h
  · simp at h

theorem ub_name {S : UB → Prop} (e : Nat) : UBOnly S (name e) :=
  ub_bind (ub_u32 e) fun _ => ub_takeExact _ _ _

theorem ub_bytesVec {S : UB → Prop} (e : Nat) : UBOnly S (bytesVec e) :=
  ub_bind (ub_u32 e) fun _ => ub_takeExact _ _ _

theorem ub_vec {α : Type} {S : UB → Prop} {p : P α} (hp : UBOnly S p) : ∀ n, UBOnly S (vec p n) := by
  intro n
  induction n with
  | zero => exact ub_pure _
  | succ n ih =>
    show UBOnly S (p >>= fun a => vec p n >>= fun as => pure (a :: as))
    exact ub_bind hp fun a => ub_bind ih fun as => ub_pure _

theorem ub_iter {σ : Type} {S : UB → Prop} {I : σ → Prop} {f : σ → P σ}
    (hpres : ∀ s, I s → OkInv I (f s)) (hub : ∀ s, I s → UBOnly S (f s)) :
    ∀ n s, I s → UBOnly S (iter f n s) := by
  intro n
  induction n with
  | zero => intro s _; exact ub_pure _
  | succ n ih =>
    intro s hs
    show UBOnly S (f s >>= fun s' => iter f n s')
    exact ub_bind_inv (hub s hs) (hpres s hs) (fun s' hs' => ih s' hs')

theorem ub_sliced {S : UB → Prop} {p : P Unit} (hp : UBOnly S p) : UBOnly S (sliced p) := by
  intro bs u h
  rw [sliced_run] at h
  cases hpr : p bs with
  | ok x => obtain ⟨v, r⟩ := x; rw [hpr] at h; cases h
  | err c => rw [hpr] at h; cases h
  | ub u' => rw [hpr] at h; cases h; exact hp bs u hpr

end W2c2Verif.Lemmas.Reader

namespace W2c2Verif.Lemmas.Reader
open W2c2Verif.Model W2c2Verif.Model.Reader
open W2c2Verif.Gen

/-! ### element readers: no undefined operation at all -/

section elements
variable {S : UB → Prop}

theorem ub_valueType (e : Nat) : UBOnly S (valueType e) := by
  unfold valueType
  refine ub_bind (ub_i32 _) fun c => ?_
  split
  · exact ub_pure _
  · exact ub_fail _

theorem ub_functionType : UBOnly S functionType := by
  unfold functionType
  refine ub_bind (ub_byte _) fun ind => ub_ite (fun _ => ub_fail _) fun _ => ?_
  refine ub_bind (ub_u32 _) fun pc => ub_bind (ub_vec (ub_valueType _) _) fun params => ?_
  exact ub_bind (ub_u32 _) fun rc => ub_bind (ub_vec (ub_valueType _) _) fun results => ub_pure _

theorem ub_globalType : UBOnly S globalType := by
  unfold globalType
  refine ub_bind (ub_valueType _) fun vt => ub_bind (ub_byte _) fun mi => ?_
  exact ub_ite (fun _ => ub_fail _) fun _ => ub_pure _

theorem ub_limits : UBOnly S limits := by
  unfold limits
  refine ub_bind (ub_byte _) fun kind => ub_bind (ub_u32 _) fun min => ?_
  split
  · exact ub_fail _
  · exact ub_ite (fun _ => ub_bind (ub_u32 _) fun max => ub_pure _) (fun _ => ub_pure _)

theorem ub_memoryType : UBOnly S memoryType := by
  unfold memoryType
  refine ub_bind ub_limits fun x => ?_
  split
  exact ub_pure _

theorem ub_tableType : UBOnly S tableType := by
  unfold tableType
  refine ub_bind (ub_byte _) fun t => ub_ite (fun _ => ub_fail _) fun _ => ub_bind ub_limits fun x => ?_
  split
  exact ub_pure _

theorem ub_constImmediate (cfg : Cfg) (e : Nat) (rd : String) : UBOnly S (constImmediate cfg e rd) := by
  unfold constImmediate
  split
  · exact ub_bind (ub_i32 _) fun _ => ub_pure _
  · exact ub_bind (ub_i64 _ _) fun _ => ub_pure _
  · exact ub_bind (ub_fixed _ _) fun _ => ub_pure _
  · exact ub_bind (ub_fixed _ _) fun _ => ub_pure _
  · exact ub_fail _

theorem ub_endByte (e : Nat) :
    UBOnly S (byte e >>= fun op2 => if op2.toNat ≠ Reader.opcodeEnd then (P.fail e : P Unit) else pure ()) :=
  ub_bind (ub_byte _) fun _ => ub_ite (fun _ => ub_fail _) fun _ => ub_pure _

theorem ub_constExpr (cfg : Cfg) (e : Nat) : UBOnly S (constExpr cfg e) := by
  unfold constExpr
  refine ub_bind (ub_byte _) fun op => ?_
  split
  · exact ub_bind (ub_constImmediate _ _ _) fun _ => ub_endByte e
  · refine ub_ite (fun _ => ub_bind (ub_u32 _) fun _ => ub_endByte e) fun _ => ?_
    exact ub_ite (fun _ => ub_pure _) fun _ => ub_fail _

theorem ub_typeSection (m : RawModule) : UBOnly S (typeSection m) := by
  unfold typeSection
  exact ub_bind (ub_u32 _) fun n => ub_bind (ub_vec ub_functionType _) fun ts => ub_pure _

theorem ub_importEntry (m : RawModule) : UBOnly S (importEntry m) := by
  unfold importEntry
  refine ub_bind (ub_name _) fun mod => ub_bind (ub_name _) fun nm => ub_bind (ub_byte _) fun k => ?_
  refine ub_ite (fun _ => ub_fail _) fun _ => ?_
  split
  · exact ub_bind (ub_u32 _) fun _ => ub_pure _
  · exact ub_bind ub_globalType fun _ => ub_pure _
  · exact ub_bind ub_memoryType fun _ => ub_pure _
  · exact ub_bind ub_tableType fun _ => ub_pure _
  · exact ub_fail _

theorem ub_importSection (m : RawModule) : UBOnly S (importSection m) := by
  unfold importSection
  refine ub_bind (ub_u32 _) fun n => ?_
  exact ub_iter (I := fun _ => True) (fun _ _ _ _ _ _ => trivial) (fun s _ => ub_importEntry s) n m trivial

theorem ub_functionSection (m : RawModule) : UBOnly S (functionSection m) := by
  unfold functionSection
  refine ub_bind (ub_u32 _) fun n => ub_bind (ub_vec ?_ _) fun fs => ub_pure _
  unfold functionEntry
  exact ub_bind (ub_u32 _) fun ti => ub_ite (fun _ => ub_fail _) fun _ => ub_pure _

theorem ub_tableSection (m : RawModule) : UBOnly S (tableSection m) := by
  unfold tableSection
  exact ub_bind (ub_u32 _) fun n => ub_bind (ub_vec ub_tableType _) fun ts => ub_pure _

theorem ub_memorySection (m : RawModule) : UBOnly S (memorySection m) := by
  unfold memorySection
  exact ub_bind (ub_u32 _) fun n => ub_bind (ub_vec ub_memoryType _) fun ts => ub_pure _

theorem ub_globalSection (cfg : Cfg) (m : RawModule) : UBOnly S (globalSection cfg m) := by
  unfold globalSection
  refine ub_bind (ub_u32 _) fun n => ub_bind (ub_vec ?_ _) fun gs => ub_pure _
  unfold globalEntry
  exact ub_bind ub_globalType fun t => ub_bind (ub_sliced (ub_constExpr _ _)) fun _ => ub_pure _

theorem ub_startSection (m : RawModule) : UBOnly S (startSection m) := by
  unfold startSection
  exact ub_bind (ub_u32 _) fun _ => ub_pure _

theorem ub_elementSection (cfg : Cfg) (m : RawModule) : UBOnly S (elementSection cfg m) := by
  unfold elementSection
  refine ub_bind (ub_u32 _) fun n => ub_bind (ub_vec ?_ _) fun es => ub_pure _
  unfold elemEntry
  refine ub_bind (ub_u32 _) fun ti => ub_bind (ub_sliced (ub_constExpr _ _)) fun off => ?_
  exact ub_bind (ub_u32 _) fun n => ub_bind (ub_vec (ub_u32 _) _) fun fs => ub_pure _

theorem ub_dataSection (cfg : Cfg) (m : RawModule) : UBOnly S (dataSection cfg m) := by
  unfold dataSection
  refine ub_bind (ub_u32 _) fun n => ub_bind (ub_vec ?_ _) fun ds => ub_pure _
  unfold dataEntry
  refine ub_bind (ub_u32 _) fun kind => ?_
  split
  · exact ub_fail _
  · refine ub_bind (ub_ite (fun _ => ub_u32 _) fun _ => ub_pure _) fun mi => ?_
    refine ub_bind (ub_ite (fun _ => ub_sliced (ub_constExpr _ _)) fun _ => ub_pure _) fun off => ?_
    exact ub_bind (ub_bytesVec _) fun bs => ub_pure _

theorem ub_dataCountSection (m : RawModule) : UBOnly S (dataCountSection m) := by
  unfold dataCountSection
  exact ub_bind (ub_u32 _) fun _ => ub_pure _

/-! ### exports: the unchecked index `functions[export.index - importCount]` is in range -/

theorem setExportName_length (fs : List Function) (i : Nat) (nm : Bytes) :
    (setExportName fs i nm).length = fs.length := by
  simp [setExportName]

theorem exportEntry_ub : UBOnly S exportEntry := by
  unfold exportEntry
  refine ub_bind (ub_name _) fun nm => ub_bind (ub_byte _) fun k => ub_ite (fun _ => ub_fail _) fun _ => ?_
  exact ub_bind (ub_u32 _) fun idx => ub_pure _

theorem ok_bind {α β : Type} {I : β → Prop} {p : P α} {f : α → P β} (hf : ∀ a, OkInv I (f a)) :
    OkInv I (p >>= f) := by
  intro bs b rest h
  obtain ⟨a, mid, _, h2⟩ := bind_ok h
  exact hf a mid b rest h2

theorem ok_pure {α : Type} {I : α → Prop} {a : α} (h : I a) : OkInv I (pure a : P α) := by
  intro bs a' rest hp; rw [pure_run] at hp; cases hp; exact h

theorem ok_fail {α : Type} {I : α → Prop} (e : Nat) : OkInv I (P.fail e : P α) := by
  intro bs a rest h; cases h

theorem ok_undefined {α : Type} {I : α → Prop} (u : UB) : OkInv I (P.undefined u : P α) := by
  intro bs a rest h; cases h

theorem ok_ite {α : Type} {I : α → Prop} {c : Prop} [Decidable c] {p q : P α}
    (h1 : c → OkInv I p) (h2 : ¬ c → OkInv I q) : OkInv I (if c then p else q) := by
  by_cases hc : c
  · rw [if_pos hc]; exact h1 hc
  · rw [if_neg hc]; exact h2 hc

theorem exportStep_inv (ic fc n : Nat) (st : List Function × List Export) (hst : st.1.length = n) :
    OkInv (fun st' : List Function × List Export => st'.1.length = n) (exportStep ic fc st) := by
  unfold exportStep
  refine ok_bind fun ex => ok_ite (fun _ => ?_) (fun _ => ok_pure hst)
  refine ok_ite (fun _ => ok_fail _) fun _ => ok_ite (fun _ => ?_) (fun _ => ok_pure hst)
  refine ok_ite (fun _ => ok_pure ?_) (fun _ => ok_undefined _)
  show (setExportName st.1 _ _).length = n
  rw [setExportName_length]; exact hst

theorem exportStep_ub (ic fc n : Nat) (hfc : fc ≤ ic + n) (st : List Function × List Export) (hst : st.1.length = n) :
    UBOnly S (exportStep ic fc st) := by
  unfold exportStep
  refine ub_bind exportEntry_ub fun ex => ub_ite (fun _ => ?_) (fun _ => ub_pure _)
  refine ub_ite (fun _ => ub_fail _) fun h1 => ub_ite (fun h2 => ?_) (fun _ => ub_pure _)
  refine ub_ite (fun _ => ub_pure _) fun h3 => ?_
  exact absurd (show ex.index - ic < st.1.length by omega) h3

theorem ub_exportSection (m : RawModule) : UBOnly S (exportSection m) := by
  unfold exportSection
  refine ub_bind (ub_u32 _) fun n => ?_
  have hfc : (m.funcImports.length + m.functions.length) % u32Max ≤ m.funcImports.length + m.functions.length :=
    Nat.mod_le _ _
  refine ub_bind ?_ fun st => ub_pure _
  exact ub_iter (I := fun st : List Function × List Export => st.1.length = m.functions.length)
    (fun s hs => exportStep_inv _ _ _ s hs) (fun s hs => exportStep_ub _ _ _ hfc s hs) n (m.functions, []) rfl

end elements

/-! ### the sites that ARE reachable -/

/-- The undefined operations the reader model can reach: the code-size wrap (reader.c:1482-1486) on any
    configuration, and the uninitialised tail of `functionNames` (array.c:20) under `-g`. -/
def Allowed (cfg : Cfg) (u : UB) : Prop :=
  u = .codeSizeUnderflow ∨ (cfg.debug = true ∧ u = .uninitFunctionNames)

theorem ub_localsDecls {S : UB → Prop} : UBOnly S localsDecls := by
  unfold localsDecls
  refine ub_bind (ub_u32 _) fun n => ub_vec ?_ _
  unfold localsDecl
  exact ub_bind (ub_u32 _) fun c => ub_bind (ub_valueType _) fun t => ub_pure _

theorem ub_codeEntry (cfg : Cfg) (L cs : Nat) (f : Function) : UBOnly (Allowed cfg) (codeEntry L cs f) := by
  unfold codeEntry
  refine ub_bind (ub_u32 _) fun codeSize => ub_bind ub_remaining fun rem => ub_ite (fun _ => ub_fail _) fun _ => ?_
  refine ub_bind ub_peek fun body => ub_bind ub_localsDecls fun locals => ub_bind ub_remaining fun rem' => ?_
  refine ub_ite (fun _ => ub_undefined _ (Or.inl rfl)) fun _ => ?_
  intro bs u h; cases h

theorem ub_codeEntries (cfg : Cfg) (L cs : Nat) : ∀ fs, UBOnly (Allowed cfg) (codeEntries L cs fs) := by
  intro fs
  induction fs with
  | nil => exact ub_pure _
  | cons f fs ih =>
    show UBOnly _ (codeEntry L cs f >>= fun f' => codeEntries L cs fs >>= fun fs' => pure (f' :: fs'))
    exact ub_bind (ub_codeEntry cfg L cs f) fun f' => ub_bind ih fun fs' => ub_pure _

theorem ub_codeSection (cfg : Cfg) (m : RawModule) : UBOnly (Allowed cfg) (codeSection m) := by
  unfold codeSection
  refine ub_bind ub_remaining fun rem => ub_bind (ub_u32 _) fun n => ub_ite (fun _ => ub_fail _) fun _ => ?_
  exact ub_bind (ub_codeEntries cfg _ _ _) fun fs => ub_pure _

/-! ### name section (`-g` only) -/

theorem removeDuplicates_no_ub (names : List (Option Bytes)) (len : Nat) (u : UB) :
    removeDuplicates names len ≠ .ub u := by
  unfold removeDuplicates
  have hg : Reader.functionNamesNullGuard = true := rfl
  simp only [hg]
  split
  · intro h; cases h
  · simp

theorem storeFuncName_inv (n : Nat) (names : List (Option Bytes)) (h : names.length = n) (idx : Nat) (nm : Bytes) :
    OkInv (fun ns : List (Option Bytes) => ns.length = n) (storeFuncName names idx nm) := by
  unfold storeFuncName
  refine ok_ite (fun _ => ok_pure ?_) (fun _ => ok_undefined _)
  simp [h]

theorem funcNameEntry_inv (fc n : Nat) (names : List (Option Bytes)) (h : names.length = n) :
    OkInv (fun ns : List (Option Bytes) => ns.length = n) (funcNameEntry fc names) := by
  unfold funcNameEntry
  refine ok_ite (fun _ => ?_) (fun _ => ?_)
  · unfold funcNameEntrySkip
    exact ok_bind fun idx => ok_bind fun nm => ok_ite (fun _ => ok_pure h) fun _ => storeFuncName_inv n names h idx nm
  · unfold funcNameEntryReject
    exact ok_bind fun idx => ok_ite (fun _ => ok_fail _) fun _ => ok_bind fun nm => storeFuncName_inv n names h idx nm

theorem storeFuncName_ub {S : UB → Prop} (names : List (Option Bytes)) (idx : Nat) (nm : Bytes) (h : idx < names.length) :
    UBOnly S (storeFuncName names idx nm) := by
  unfold storeFuncName
  exact ub_ite (fun _ => ub_pure _) fun h3 => absurd h h3

theorem funcNameEntry_ub {S : UB → Prop} (fc : Nat) (names : List (Option Bytes)) (h : fc ≤ names.length) :
    UBOnly S (funcNameEntry fc names) := by
  unfold funcNameEntry
  refine ub_ite (fun _ => ?_) (fun _ => ?_)
  · unfold funcNameEntrySkip
    refine ub_bind (ub_u32 _) fun idx => ub_bind (ub_name _) fun nm => ub_ite (fun _ => ub_pure _) fun h1 => ?_
    exact storeFuncName_ub names idx nm (by omega)
  · unfold funcNameEntryReject
    refine ub_bind (ub_u32 _) fun idx => ub_ite (fun _ => ub_fail _) fun h1 => ub_bind (ub_name _) fun nm => ?_
    exact storeFuncName_ub names idx nm (by omega)

/-- whenever the name table can be used, it covers every function known so far -/
theorem grownNames_length (m : RawModule) (fc : Nat) (names0 : List (Option Bytes)) (h : grownNames m fc = some names0) :
    fc ≤ names0.length := by
  unfold grownNames at h
  split at h
  · split at h
    · cases h; simp; omega
    · split at h
      · cases h
      · cases h; simp
  · cases h; omega

theorem ub_functionNamesSubsection (cfg : Cfg) (hd : cfg.debug = true) (m : RawModule) :
    UBOnly (Allowed cfg) (functionNamesSubsection m) := by
  unfold functionNamesSubsection
  refine ub_bind (ub_u32 _) fun n => ?_
  split
  · exact ub_undefined _ (Or.inr ⟨hd, rfl⟩)
  · rename_i names0 hg
    have hlen := grownNames_length m _ names0 hg
    refine ub_bind ?_ fun names => ?_
    · exact ub_iter (I := fun ns : List (Option Bytes) => ns.length = names0.length)
        (fun s hs => funcNameEntry_inv _ _ s hs) (fun s hs => funcNameEntry_ub _ s (by rw [hs]; exact hlen)) n _ rfl
    · split
      · exact ub_pure _
      · exact ub_fail _
      · rename_i u hu; exact absurd hu (removeDuplicates_no_ub _ _ u)

theorem ub_nameSectionLoop (cfg : Cfg) (hd : cfg.debug = true) (endRem : Int) :
    ∀ fuel m, UBOnly (Allowed cfg) (nameSectionLoop endRem fuel m) := by
  intro fuel
  induction fuel with
  | zero => intro m; exact ub_pure _
  | succ n ih =>
    intro m bs u h
    unfold nameSectionLoop at h
    split at h
    · cases h
    · revert h
      refine ub_bind (ub_byte _) (fun id => ub_bind (ub_u32 _) fun size => ub_bind ?_ fun m' => ih m') bs u
      exact ub_ite (fun _ => ub_functionNamesSubsection cfg hd m) fun _ => ub_bind (ub_skip _) fun _ => ub_pure _

theorem ub_nameSection (cfg : Cfg) (hd : cfg.debug = true) (size : Nat) (m : RawModule) :
    UBOnly (Allowed cfg) (nameSection size m) := by
  intro bs u h
  exact ub_nameSectionLoop cfg hd _ _ m bs u h

theorem ub_customSection (cfg : Cfg) (size : Nat) (m : RawModule) : UBOnly (Allowed cfg) (customSection cfg size m) := by
  unfold customSection
  refine ub_bind ub_remaining fun before => ub_bind (ub_name _) fun nm => ub_bind ub_remaining fun after => ?_
  refine ub_ite (fun _ => ub_bind ub_remaining fun rem => ub_bind (ub_skip _) fun _ => ub_pure _) fun _ => ?_
  refine ub_ite (fun h => ub_nameSection cfg h.1 _ m) fun _ => ub_bind (ub_skip _) fun _ => ub_pure _

theorem ub_sectionReader (cfg : Cfg) (rd : String) (size : Nat) (m : RawModule) :
    UBOnly (Allowed cfg) (sectionReader cfg rd size m) := by
  unfold sectionReader
  split
  · exact ub_customSection cfg size m
  · exact ub_typeSection m
  · exact ub_importSection m
  · exact ub_functionSection m
  · exact ub_tableSection m
  · exact ub_memorySection m
  · exact ub_globalSection cfg m
  · exact ub_exportSection m
  · exact ub_startSection m
  · exact ub_elementSection cfg m
  · exact ub_codeSection cfg m
  · exact ub_dataSection cfg m
  · exact ub_dataCountSection m
  · exact ub_fail _

theorem ub_readSection (cfg : Cfg) (m : RawModule) : UBOnly (Allowed cfg) (readSection cfg m) := by
  unfold readSection
  refine ub_bind (ub_byte _) fun id => ub_bind (ub_u32 _) fun size => ?_
  split
  · refine ub_bind ub_remaining fun start => ub_bind (ub_sectionReader cfg _ size m) fun m' => ?_
    exact ub_bind ub_remaining fun stop => ub_ite (fun _ => ub_fail _) fun _ => ub_pure _
  · exact ub_bind (ub_skip _) fun _ => ub_pure _

theorem readSections_ub (cfg : Cfg) : ∀ (n : Nat) (bs : Bytes) (m : RawModule) (u : UB),
    bs.length ≤ n → readSections cfg bs m = .ub u → Allowed cfg u := by
  intro n
  induction n with
  | zero =>
    intro bs m u hn h
    have : bs = [] := List.eq_nil_of_length_eq_zero (by omega)
    subst this
    unfold readSections at h
    simp at h
  | succ n ih =>
    intro bs m u hn h
    unfold readSections at h
    split at h
    · cases h
    · split at h
      · rename_i m' rest hrs
        split at h
        · rename_i hlt
          exact ih rest m' u (by omega) h
        · cases h
      · cases h
      · rename_i u' hrs
        cases h
        exact ub_readSection cfg m bs u hrs

/-- Every undefined operation `Model.Reader.read` can reach, on ANY byte string and configuration. -/
theorem read_ub (cfg : Cfg) (bs : Bytes) (u : UB) (h : Model.Reader.read cfg bs = .ub u) : Allowed cfg u := by
  unfold Model.Reader.read at h
  split at h
  · rename_i rest hm
    exact readSections_ub cfg rest.length rest _ u (Nat.le_refl _) h
  · cases h
  · rename_i u' hm
    have : readEqual Reader.magic E.invalidMagic bs ≠ .ub u' := by
      unfold readEqual; split
      · intro hc; cases hc
      · split <;> (intro hc; cases hc)
    exact absurd hm this

end W2c2Verif.Lemmas.Reader
