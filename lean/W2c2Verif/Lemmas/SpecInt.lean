/-
  Lemmas.SpecInt — the integer operators of `Spec.Int` (stated over mathematical integers, as
  the WebAssembly specification does) characterised in bit-vector terms.
-/
import W2c2Verif.Spec.Int
import Std.Tactic.BVDecide

namespace W2c2Verif.Spec

theorem toInt_eq_zero_iff {w : Nat} (y : BitVec w) : y.toInt = 0 ↔ y = 0#w := by
  constructor
  · intro h; exact BitVec.toInt_inj.mp (by simpa using h)
  · intro h; subst h; simp

theorem toNat_eq_zero_iff {w : Nat} (y : BitVec w) : y.toNat = 0 ↔ y = 0#w := by
  constructor
  · intro h; exact BitVec.eq_of_toNat_eq (by simpa using h)
  · intro h; subst h; simp

theorem idiv_u_eq {w : Nat} (x y : BitVec w) :
    idiv_u x y = if y = 0#w then .trap .divByZero else .val (x / y) := by
  unfold idiv_u
  by_cases h : y = 0#w
  · subst h; simp
  · have : ¬ y.toNat = 0 := fun h' => h ((toNat_eq_zero_iff y).mp h')
    simp only [this, h, if_false]
    congr 1
    apply BitVec.eq_of_toNat_eq
    simp only [BitVec.toNat_ofNat, BitVec.toNat_udiv]
    exact Nat.mod_eq_of_lt (Nat.lt_of_le_of_lt (Nat.div_le_self _ _) x.isLt)

theorem irem_u_eq {w : Nat} (x y : BitVec w) :
    irem_u x y = if y = 0#w then .trap .divByZero else .val (x % y) := by
  unfold irem_u
  by_cases h : y = 0#w
  · subst h; simp
  · have : ¬ y.toNat = 0 := fun h' => h ((toNat_eq_zero_iff y).mp h')
    simp only [this, h, if_false]
    congr 1
    apply BitVec.eq_of_toNat_eq
    simp only [BitVec.toNat_ofNat, BitVec.toNat_umod]
    exact Nat.mod_eq_of_lt (Nat.lt_of_le_of_lt (Nat.mod_le _ _) x.isLt)

theorem irem_s_eq {w : Nat} (x y : BitVec w) :
    irem_s x y = if y = 0#w then .trap .divByZero else .val (x.srem y) := by
  unfold irem_s
  by_cases h : y = 0#w
  · subst h; simp
  · have : ¬ y.toInt = 0 := fun h' => h ((toInt_eq_zero_iff y).mp h')
    simp only [this, h, if_false]
    congr 1
    rw [← BitVec.toInt_srem, BitVec.ofInt_toInt]

theorem idiv_s_eq32 (x y : BitVec 32) :
    idiv_s x y = if y = 0#32 then .trap .divByZero
      else if x = 2147483648#32 ∧ y = 4294967295#32 then .trap .intOverflow
      else .val (x.sdiv y) := by
  unfold idiv_s
  by_cases h1 : y = 0#32
  · subst h1; simp
  · have hy : ¬ y.toInt = 0 := fun h' => h1 ((toInt_eq_zero_iff y).mp h')
    simp only [h1, hy, if_false]
    by_cases h2 : x = 2147483648#32 ∧ y = 4294967295#32
    · obtain ⟨rfl, rfl⟩ := h2; decide
    · simp only [h2, if_false]
      have hne : x ≠ BitVec.intMin 32 ∨ y ≠ -1#32 := by
        by_cases hx : x = 2147483648#32
        · right; intro hy'; exact h2 ⟨hx, by simpa using hy'⟩
        · left; intro hx'; exact hx (hx'.trans (by decide))
      have h := BitVec.toInt_sdiv_of_ne_or_ne x y hne
      have hlt := @BitVec.toInt_lt 32 (x.sdiv y)
      rw [← h]
      have : ¬ (x.sdiv y).toInt = 2 ^ (32 - 1) := by
        intro hh; rw [hh] at hlt; exact absurd hlt (by decide)
      simp only [this, if_false, BitVec.ofInt_toInt]

theorem idiv_s_eq64 (x y : BitVec 64) :
    idiv_s x y = if y = 0#64 then .trap .divByZero
      else if x = 9223372036854775808#64 ∧ y = 18446744073709551615#64 then .trap .intOverflow
      else .val (x.sdiv y) := by
  unfold idiv_s
  by_cases h1 : y = 0#64
  · subst h1; simp
  · have hy : ¬ y.toInt = 0 := fun h' => h1 ((toInt_eq_zero_iff y).mp h')
    simp only [h1, hy, if_false]
    by_cases h2 : x = 9223372036854775808#64 ∧ y = 18446744073709551615#64
    · obtain ⟨rfl, rfl⟩ := h2; decide
    · simp only [h2, if_false]
      have hne : x ≠ BitVec.intMin 64 ∨ y ≠ -1#64 := by
        by_cases hx : x = 9223372036854775808#64
        · right; intro hy'; exact h2 ⟨hx, by simpa using hy'⟩
        · left; intro hx'; exact hx (hx'.trans (by decide))
      have h := BitVec.toInt_sdiv_of_ne_or_ne x y hne
      have hlt := @BitVec.toInt_lt 64 (x.sdiv y)
      rw [← h]
      have : ¬ (x.sdiv y).toInt = 2 ^ (64 - 1) := by
        intro hh; rw [hh] at hlt; exact absurd hlt (by decide)
      simp only [this, if_false, BitVec.ofInt_toInt]

/-! ### shifts and rotates: counts modulo N as masks -/

theorem and31_toNat (y : BitVec 32) : (y &&& 31#32).toNat = y.toNat % 32 := by
  simp [BitVec.toNat_and]; exact Nat.and_two_pow_sub_one_eq_mod y.toNat 5

theorem and63_toNat (y : BitVec 64) : (y &&& 63#64).toNat = y.toNat % 64 := by
  simp [BitVec.toNat_and]; exact Nat.and_two_pow_sub_one_eq_mod y.toNat 6

theorem ishl_eq32 (x y : BitVec 32) : ishl x y = x <<< (y &&& 31#32) := by
  unfold ishl; rw [BitVec.shiftLeft_eq', and31_toNat]
theorem ishl_eq64 (x y : BitVec 64) : ishl x y = x <<< (y &&& 63#64) := by
  unfold ishl; rw [BitVec.shiftLeft_eq', and63_toNat]
theorem ishr_u_eq32 (x y : BitVec 32) : ishr_u x y = x >>> (y &&& 31#32) := by
  unfold ishr_u; rw [BitVec.ushiftRight_eq', and31_toNat]
theorem ishr_u_eq64 (x y : BitVec 64) : ishr_u x y = x >>> (y &&& 63#64) := by
  unfold ishr_u; rw [BitVec.ushiftRight_eq', and63_toNat]
theorem ishr_s_eq32 (x y : BitVec 32) : ishr_s x y = x.sshiftRight' (y &&& 31#32) := by
  unfold ishr_s; rw [BitVec.sshiftRight_eq', and31_toNat]
theorem ishr_s_eq64 (x y : BitVec 64) : ishr_s x y = x.sshiftRight' (y &&& 63#64) := by
  unfold ishr_s; rw [BitVec.sshiftRight_eq', and63_toNat]

theorem irotl_eq32 (x y : BitVec 32) :
    irotl x y = x <<< (y &&& 31#32) ||| x >>> ((32#32 - (y &&& 31#32)) &&& 31#32) := by
  unfold irotl
  rw [BitVec.rotateLeft_def]
  have hk := and31_toNat y
  rw [BitVec.shiftLeft_eq', BitVec.ushiftRight_eq', hk]
  have h2 : ((32#32 - (y &&& 31#32)) &&& 31#32).toNat = (32 - y.toNat % 32) % 32 := by
    have : (32#32 - (y &&& 31#32)).toNat = 32 - y.toNat % 32 := by
      rw [BitVec.toNat_sub, hk]; simp; omega
    rw [BitVec.toNat_and, this]; simp
    exact Nat.and_two_pow_sub_one_eq_mod _ 5
  rw [h2]
  by_cases h0 : y.toNat % 32 = 0
  · have : x >>> 32 = 0#32 := by bv_decide
    simp [h0, this]
  · have : (32 - y.toNat % 32) % 32 = 32 - y.toNat % 32 := by omega
    rw [this]; simp

theorem irotl_eq64 (x y : BitVec 64) :
    irotl x y = x <<< (y &&& 63#64) ||| x >>> ((64#64 - (y &&& 63#64)) &&& 63#64) := by
  unfold irotl
  rw [BitVec.rotateLeft_def]
  have hk := and63_toNat y
  rw [BitVec.shiftLeft_eq', BitVec.ushiftRight_eq', hk]
  have h2 : ((64#64 - (y &&& 63#64)) &&& 63#64).toNat = (64 - y.toNat % 64) % 64 := by
    have : (64#64 - (y &&& 63#64)).toNat = 64 - y.toNat % 64 := by
      rw [BitVec.toNat_sub, hk]; simp; omega
    rw [BitVec.toNat_and, this]; simp
    exact Nat.and_two_pow_sub_one_eq_mod _ 6
  rw [h2]
  by_cases h0 : y.toNat % 64 = 0
  · have : x >>> 64 = 0#64 := by bv_decide
    simp [h0, this]
  · have : (64 - y.toNat % 64) % 64 = 64 - y.toNat % 64 := by omega
    rw [this]; simp

theorem irotr_eq32 (x y : BitVec 32) :
    irotr x y = x >>> (y &&& 31#32) ||| x <<< ((32#32 - (y &&& 31#32)) &&& 31#32) := by
  unfold irotr
  rw [BitVec.rotateRight_def]
  have hk := and31_toNat y
  rw [BitVec.shiftLeft_eq', BitVec.ushiftRight_eq', hk]
  have h2 : ((32#32 - (y &&& 31#32)) &&& 31#32).toNat = (32 - y.toNat % 32) % 32 := by
    have : (32#32 - (y &&& 31#32)).toNat = 32 - y.toNat % 32 := by
      rw [BitVec.toNat_sub, hk]; simp; omega
    rw [BitVec.toNat_and, this]; simp
    exact Nat.and_two_pow_sub_one_eq_mod _ 5
  rw [h2]
  by_cases h0 : y.toNat % 32 = 0
  · have : x <<< 32 = 0#32 := by bv_decide
    simp [h0, this]
  · have : (32 - y.toNat % 32) % 32 = 32 - y.toNat % 32 := by omega
    rw [this]; simp

theorem irotr_eq64 (x y : BitVec 64) :
    irotr x y = x >>> (y &&& 63#64) ||| x <<< ((64#64 - (y &&& 63#64)) &&& 63#64) := by
  unfold irotr
  rw [BitVec.rotateRight_def]
  have hk := and63_toNat y
  rw [BitVec.shiftLeft_eq', BitVec.ushiftRight_eq', hk]
  have h2 : ((64#64 - (y &&& 63#64)) &&& 63#64).toNat = (64 - y.toNat % 64) % 64 := by
    have : (64#64 - (y &&& 63#64)).toNat = 64 - y.toNat % 64 := by
      rw [BitVec.toNat_sub, hk]; simp; omega
    rw [BitVec.toNat_and, this]; simp
    exact Nat.and_two_pow_sub_one_eq_mod _ 6
  rw [h2]
  by_cases h0 : y.toNat % 64 = 0
  · have : x <<< 64 = 0#64 := by bv_decide
    simp [h0, this]
  · have : (64 - y.toNat % 64) % 64 = 64 - y.toNat % 64 := by omega
    rw [this]; simp

/-! ### comparisons in bit-vector form -/

theorem ilt_u_eq {w} (x y : BitVec w) : ilt_u x y = bool32 (x.ult y) := by
  simp [ilt_u, BitVec.ult]
theorem igt_u_eq {w} (x y : BitVec w) : igt_u x y = bool32 (y.ult x) := by
  simp [igt_u, BitVec.ult]
theorem ile_u_eq {w} (x y : BitVec w) : ile_u x y = bool32 (x.ule y) := by
  simp [ile_u, BitVec.ule]
theorem ige_u_eq {w} (x y : BitVec w) : ige_u x y = bool32 (y.ule x) := by
  simp [ige_u, BitVec.ule]
theorem ilt_s_eq {w} (x y : BitVec w) : ilt_s x y = bool32 (x.slt y) := by
  simp [ilt_s, BitVec.slt]
theorem igt_s_eq {w} (x y : BitVec w) : igt_s x y = bool32 (y.slt x) := by
  simp [igt_s, BitVec.slt]
theorem ile_s_eq {w} (x y : BitVec w) : ile_s x y = bool32 (x.sle y) := by
  simp [ile_s, BitVec.sle]
theorem ige_s_eq {w} (x y : BitVec w) : ige_s x y = bool32 (y.sle x) := by
  simp [ige_s, BitVec.sle]
theorem ieqz_eq {w} (x : BitVec w) : ieqz x = bool32 (x == 0#w) := by
  simp only [ieqz, toNat_eq_zero_iff]; congr 1
theorem ieq_eq {w} (x y : BitVec w) : ieq x y = bool32 (x == y) := by
  simp only [ieq]; congr 1
theorem ine_eq {w} (x y : BitVec w) : ine x y = bool32 (x != y) := by
  simp only [ine]; congr 1; simp [bne, BEq.beq]

end W2c2Verif.Spec
