/-
  Lemmas.FilesPaths — basename / header-name facts.
-/
import W2c2Verif.Lemmas.Files

namespace W2c2Verif.Lemmas.Files
open W2c2Verif W2c2Verif.Model.Files W2c2Verif.Gen.Files

theorem mem_takeWhile_imp {p : UInt8 → Bool} : ∀ {l : List UInt8} {a : UInt8}, a ∈ l.takeWhile p → p a = true
  | [], _, h => by simp at h
  | x :: xs, a, h => by
    simp only [List.takeWhile] at h
    split at h
    · rename_i hx
      rcases List.mem_cons.mp h with rfl | h'
      · exact hx
      · exact mem_takeWhile_imp h'
    · simp at h

theorem takeWhileEnd_all (p : UInt8 → Bool) (l : Name) : ∀ a ∈ takeWhileEnd p l, p a = true := by
  intro a h
  unfold takeWhileEnd at h
  rw [List.mem_reverse] at h
  exact mem_takeWhile_imp h

/-- the name files are created under never contains a path separator, except for the degenerate
    output path that consists of slashes only (`basename("/") = "/"`) -/
theorem basename_no_slash (s : Name) : basenameC s = [slash] ∨ slash ∉ basenameC s := by
  unfold basenameC
  split
  · right; decide
  · simp only
    split
    · left; rfl
    · right
      intro h
      have := takeWhileEnd_all notSlash _ slash h
      simp [notSlash] at this

theorem lastIdx_none (c : UInt8) : ∀ (b : Name), lastIdx c b = none ↔ c ∉ b
  | [] => by simp [lastIdx]
  | x :: xs => by
    have ih := lastIdx_none c xs
    unfold lastIdx
    cases h : lastIdx c xs with
    | some i =>
      have : ¬ c ∉ xs := fun hn => by rw [ih.mpr hn] at h; cases h
      simp only [reduceCtorEq, false_iff, List.mem_cons, not_or, not_and, Decidable.not_not]
      intro _
      exact Decidable.not_not.mp this
    | none =>
      have hn := ih.mp h
      by_cases hx : x = c
      · simp [hx]
      · simp only [hx, if_false, true_iff, List.mem_cons, not_or]
        exact ⟨fun e => hx e.symm, hn⟩

theorem lastIdx_append (c : UInt8) (ext : Name) (hext : c ∉ ext) :
    ∀ (stem : Name), lastIdx c (stem ++ c :: ext) = some stem.length
  | [] => by
    simp only [List.nil_append, lastIdx, (lastIdx_none c ext).mpr hext]
    simp
  | x :: xs => by
    simp only [List.cons_append, lastIdx, lastIdx_append c ext hext xs, List.length_cons]

theorem ofNats_no_slash_suffix : slash ∉ ofNats headerSuffix := by decide

theorem headerName_of_dot (stem ext : Name) (hext : headerExtChar.toUInt8 ∉ ext) :
    headerName (stem ++ headerExtChar.toUInt8 :: ext) = stem ++ ofNats headerSuffix := by
  unfold headerName
  rw [lastIdx_append _ ext hext stem]
  simp

theorem headerName_no_dot (b : Name) (h : headerExtChar.toUInt8 ∉ b) :
    headerName b = b ++ ofNats headerSuffix := by
  unfold headerName
  rw [(lastIdx_none _ b).mpr h]

theorem lastIdx_lt (c : UInt8) : ∀ (b : Name) (i : Nat), lastIdx c b = some i → i < b.length
  | [], i, h => by simp [lastIdx] at h
  | x :: xs, i, h => by
    unfold lastIdx at h
    cases h' : lastIdx c xs with
    | some j =>
      rw [h'] at h
      simp at h
      have := lastIdx_lt c xs j h'
      simp; omega
    | none =>
      simp only [h'] at h
      by_cases hx : x = c
      · simp [hx] at h; simp [← h]
      · simp [hx] at h

theorem headerName_no_slash (b : Name) (h : slash ∉ b) : slash ∉ headerName b := by
  unfold headerName
  split
  · intro hm
    rcases List.mem_append.mp hm with hm | hm
    · exact h (List.mem_of_mem_take hm)
    · exact ofNats_no_slash_suffix hm
  · intro hm
    rcases List.mem_append.mp hm with hm | hm
    · exact h hm
    · exact ofNats_no_slash_suffix hm

theorem headerName_length_le (b : Name) : (headerName b).length ≤ b.length + (ofNats headerSuffix).length := by
  unfold headerName
  split
  · simp; omega
  · simp

end W2c2Verif.Lemmas.Files
