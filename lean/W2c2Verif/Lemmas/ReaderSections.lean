/-
  Lemmas.ReaderSections — every element reader of Model.Reader is stable (Lemmas.ReaderStable): what it
  accepts and returns does not depend on the bytes after what it consumed.
-/
import W2c2Verif.Lemmas.ReaderStable

namespace W2c2Verif.Lemmas.Reader
open W2c2Verif.Model W2c2Verif.Model.Reader
open W2c2Verif.Gen

theorem stable_valueType (e : Nat) : Stable (valueType e) := by
  unfold valueType
  refine stable_bind_eq (stable_i32 _) fun c => ?_
  split
  · exact stable_pure_eq _
  · exact stable_fail_eq _

theorem stable_functionType : Stable functionType := by
  unfold functionType
  refine stable_bind_eq (stable_byte _) fun ind => stable_ite_eq (fun _ => stable_fail_eq _) fun _ => ?_
  refine stable_bind_eq (stable_u32 _) fun pc => ?_
  refine stable_bind_eq (stable_vec (stable_valueType _) _) fun params => ?_
  refine stable_bind_eq (stable_u32 _) fun rc => ?_
  exact stable_bind_eq (stable_vec (stable_valueType _) _) fun results => stable_pure_eq _

theorem stable_globalType : Stable globalType := by
  unfold globalType
  refine stable_bind_eq (stable_valueType _) fun vt => ?_
  refine stable_bind_eq (stable_byte _) fun mi => ?_
  exact stable_ite_eq (fun _ => stable_fail_eq _) fun _ => stable_pure_eq _

theorem stable_limits : Stable limits := by
  unfold limits
  refine stable_bind_eq (stable_byte _) fun kind => ?_
  refine stable_bind_eq (stable_u32 _) fun min => ?_
  split
  · exact stable_fail_eq _
  · refine stable_ite_eq (fun _ => ?_) (fun _ => stable_pure_eq _)
    exact stable_bind_eq (stable_u32 _) fun max => stable_pure_eq _

theorem stable_memoryType : Stable memoryType := by
  unfold memoryType
  refine stable_bind_eq stable_limits fun x => ?_
  split
  exact stable_pure_eq _

theorem stable_tableType : Stable tableType := by
  unfold tableType
  refine stable_bind_eq (stable_byte _) fun t => stable_ite_eq (fun _ => stable_fail_eq _) fun _ => ?_
  refine stable_bind_eq stable_limits fun x => ?_
  split
  exact stable_pure_eq _

theorem stable_constImmediate (cfg : Cfg) (e : Nat) (rd : String) : Stable (constImmediate cfg e rd) := by
  unfold constImmediate
  split
  · exact stable_bind_eq (stable_i32 _) fun _ => stable_pure_eq _
  · exact stable_bind_eq (stable_i64 _ _) fun _ => stable_pure_eq _
  · exact stable_bind_eq (stable_fixed _ _) fun _ => stable_pure_eq _
  · exact stable_bind_eq (stable_fixed _ _) fun _ => stable_pure_eq _
  · exact stable_fail_eq _

theorem stable_endByte (e : Nat) :
    Stable (byte e >>= fun op2 => if op2.toNat ≠ Reader.opcodeEnd then (P.fail e : P Unit) else pure ()) :=
  stable_bind_eq (stable_byte _) fun _ => stable_ite_eq (fun _ => stable_fail_eq _) fun _ => stable_pure_eq _

theorem stable_constExpr (cfg : Cfg) (e : Nat) : Stable (constExpr cfg e) := by
  unfold constExpr
  refine stable_bind_eq (stable_byte _) fun op => ?_
  split
  · exact stable_bind_eq (stable_constImmediate _ _ _) fun _ => stable_endByte e
  · refine stable_ite_eq (fun _ => ?_) (fun _ => stable_ite_eq (fun _ => stable_pure_eq _) fun _ => stable_fail_eq _)
    exact stable_bind_eq (stable_u32 _) fun _ => stable_endByte e

theorem stable_globalEntry (cfg : Cfg) : Stable (globalEntry cfg) := by
  unfold globalEntry
  refine stable_bind_eq stable_globalType fun t => ?_
  exact stable_bind_eq (stable_sliced (stable_constExpr _ _)) fun _ => stable_pure_eq _

theorem stable_functionEntry (n : Nat) : Stable (functionEntry n) := by
  unfold functionEntry
  exact stable_bind_eq (stable_u32 _) fun ti => stable_ite_eq (fun _ => stable_fail_eq _) fun _ => stable_pure_eq _

theorem stable_exportEntry : Stable exportEntry := by
  unfold exportEntry
  refine stable_bind_eq (stable_name _) fun nm => ?_
  refine stable_bind_eq (stable_byte _) fun k => stable_ite_eq (fun _ => stable_fail_eq _) fun _ => ?_
  exact stable_bind_eq (stable_u32 _) fun idx => stable_pure_eq _

theorem stable_elemEntry (cfg : Cfg) : Stable (elemEntry cfg) := by
  unfold elemEntry
  refine stable_bind_eq (stable_u32 _) fun ti => ?_
  refine stable_bind_eq (stable_sliced (stable_constExpr _ _)) fun off => ?_
  refine stable_bind_eq (stable_u32 _) fun n => ?_
  exact stable_bind_eq (stable_vec (stable_u32 _) _) fun fs => stable_pure_eq _

theorem stable_localsDecl : Stable localsDecl := by
  unfold localsDecl
  refine stable_bind_eq (stable_u32 _) fun c => ?_
  exact stable_bind_eq (stable_valueType _) fun t => stable_pure_eq _

theorem stable_localsDecls : Stable localsDecls := by
  unfold localsDecls
  exact stable_bind_eq (stable_u32 _) fun n => stable_vec stable_localsDecl _

theorem stable_dataEntry (cfg : Cfg) : Stable (dataEntry cfg) := by
  unfold dataEntry
  refine stable_bind_eq (stable_u32 _) fun kind => ?_
  split
  · exact stable_fail_eq _
  · refine stable_bind_eq ?_ fun mi => stable_bind_eq ?_ fun off => ?_
    · exact stable_ite_eq (fun _ => stable_u32 _) fun _ => stable_pure_eq _
    · exact stable_ite_eq (fun _ => stable_sliced (stable_constExpr _ _)) fun _ => stable_pure_eq _
    · exact stable_bind_eq (stable_bytesVec _) fun bs => stable_pure_eq _

end W2c2Verif.Lemmas.Reader
