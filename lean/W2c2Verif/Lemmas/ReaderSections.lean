/-
  Lemmas.ReaderSections — every element reader and every section reader of Model.Reader is stable
  (Lemmas.ReaderStable): what it accepts and returns does not depend on the bytes after what it consumed.
-/
import W2c2Verif.Lemmas.ReaderStable

namespace W2c2Verif.Lemmas.Reader
open W2c2Verif.Model W2c2Verif.Model.Reader
open W2c2Verif.Gen

/-- one structural step of a stability proof -/
macro "stable_step" : tactic => `(tactic| first
  | exact stable_byte _ | exact stable_u32 _ | exact stable_i32 _ | exact stable_i64 _ _
  | exact stable_fixed _ _ | exact stable_name _ | exact stable_bytesVec _
  | exact stable_pure rfl | exact stable_fail _ _ | exact stable_undefined _ _
  | assumption
  | apply stable_bind_eq | apply stable_vec | apply stable_sliced | apply stable_ite
  | intro _
  | split)

macro "stable" : tactic => `(tactic| repeat stable_step)

theorem stable_valueType (e : Nat) : Stable (valueType e) := by
  unfold valueType; stable

theorem stable_functionType : Stable functionType := by
  have := stable_valueType
  unfold functionType; stable

theorem stable_globalType : Stable globalType := by
  have := stable_valueType
  unfold globalType; stable

theorem stable_limits : Stable limits := by
  unfold limits; stable

theorem stable_memoryType : Stable memoryType := by
  have := stable_limits
  unfold memoryType; stable

theorem stable_tableType : Stable tableType := by
  have := stable_limits
  unfold tableType; stable

theorem stable_constImmediate (cfg : Cfg) (e : Nat) (rd : String) : Stable (constImmediate cfg e rd) := by
  unfold constImmediate; stable

theorem stable_constExpr (cfg : Cfg) (e : Nat) : Stable (constExpr cfg e) := by
  have := stable_constImmediate cfg e
  unfold constExpr; stable

theorem stable_globalEntry (cfg : Cfg) : Stable (globalEntry cfg) := by
  have := stable_globalType
  have := stable_constExpr cfg
  unfold globalEntry; stable

theorem stable_functionEntry (n : Nat) : Stable (functionEntry n) := by
  unfold functionEntry; stable

theorem stable_exportEntry : Stable exportEntry := by
  unfold exportEntry; stable

theorem stable_elemEntry (cfg : Cfg) : Stable (elemEntry cfg) := by
  have := stable_constExpr cfg
  unfold elemEntry; stable

theorem stable_localsDecl : Stable localsDecl := by
  have := stable_valueType
  unfold localsDecl; stable

theorem stable_localsDecls : Stable localsDecls := by
  have := stable_localsDecl
  unfold localsDecls; stable

theorem stable_dataEntry (cfg : Cfg) : Stable (dataEntry cfg) := by
  have := stable_constExpr cfg
  unfold dataEntry; stable

end W2c2Verif.Lemmas.Reader
