/-
  Lemmas.SimSeqStep — the sequence step of the simulation proof.
-/
import W2c2Verif.Lemmas.SimStatic
set_option linter.unusedSimpArgs false
set_option linter.unusedVariables false
namespace W2c2Verif.Sim
open W2c2Verif Model Gen Spec

theorem seq_step (ns : NumSem) (ctx : Ctx) (f : Nat) (hS : SeqStmt ns ctx f) (hI : InstrStmt ns ctx f) : SeqStmt ns ctx (f + 1) := by
  intro is st st' out dead stk loc σ hc hw hr hl hlt
  cases is with
  | nil =>
    simp [compileSeq] at hc
    obtain ⟨rfl, rfl, rfl⟩ := hc
    rw [erunSeq, execSeq]
    exact simres_normal_intro rfl hw rfl (Nat.le_refl _) hlt σ rfl hr hl (SlotsBelow.refl _ _) rfl
  | cons i rest =>
    simp only [compileSeq] at hc
    cases hci : compileInstr ctx st i with
    | error e => simp [hci, bind, Except.bind] at hc
    | ok res =>
      obtain ⟨s1, out1, dead1⟩ := res
      simp only [hci, bind, Except.bind] at hc
      obtain ⟨hlen, hsim⟩ := hI i st s1 out1 dead1 stk loc σ hci hw hr hl hlt
      rw [erunSeq]
      -- the statement list of the first instruction is [] or [s]
      cases hri : erunInstr ns f i stk loc with
      | normal stk1 loc1 =>
        rw [hri] at hsim
        obtain ⟨hd1, hw1, hlab1, hn1, hlt1, σ1, hm1, hr1, hl1, hb1, ht1⟩ := hsim
        subst hd1
        simp only [Bool.false_eq_true, if_false] at hc
        cases hcr : compileSeq ctx s1 rest with
        | error e => simp [hcr] at hc
        | ok res2 =>
          obtain ⟨s2, out2, dead2⟩ := res2
          simp only [hcr] at hc
          injection hc with hc
          simp only [Prod.mk.injEq] at hc
          obtain ⟨rfl, rfl, rfl⟩ := hc
          have ih := hS rest s1 s2 out2 dead2 stk1 loc1 σ1 hcr hw1 hr1 hl1 hlt1
          have ih' := simres_rebase hw hlab1 hn1 hb1 ht1 ih
          simp only []
          match out1, hlen, hm1 with
          | [], _, hm1 =>
            simp only [execOut] at hm1
            injection hm1 with hm1; subst hm1
            simp only [List.nil_append]
            exact simres_exec_mono ih'
          | [s], _, hm1 =>
            simp only [execOut] at hm1
            simp only [List.cons_append, List.nil_append]
            rw [execSeq, hm1]
            exact ih'
      | oof => trivial
      | stuck => trivial
      | trap t =>
        rw [hri] at hsim
        have hout : ∃ out2, out = out1 ++ out2 := by
          by_cases hd : dead1 = true
          · simp only [hd, if_true] at hc; injection hc with hc; simp only [Prod.mk.injEq] at hc; exact ⟨[], by simp [hc.2.1]⟩
          · simp only [hd, if_false] at hc
            cases hcr : compileSeq ctx s1 rest with
            | error e => simp [hcr] at hc
            | ok res2 => simp only [hcr] at hc; injection hc with hc; simp only [Prod.mk.injEq] at hc; exact ⟨res2.2.1, hc.2.1.symm⟩
        obtain ⟨out2, rfl⟩ := hout
        have hm : execOut ns f out1 σ = .trap t := hsim
        show execSeq ns (f + 1) (out1 ++ out2) σ = .trap t
        exact execSeq_of_execOut hlen hm (by intro σ'; simp)
      | branch l stkB locB =>
        rw [hri] at hsim
        have hout : ∃ out2, out = out1 ++ out2 ∧ s1.declLen ≤ st'.declLen := by
          by_cases hd : dead1 = true
          · simp only [hd, if_true] at hc; injection hc with hc; simp only [Prod.mk.injEq] at hc
            exact ⟨[], by simp [hc.2.1], by rw [hc.1]; exact Nat.le_refl _⟩
          · simp only [hd, if_false] at hc
            cases hcr : compileSeq ctx s1 rest with
            | error e => simp [hcr] at hc
            | ok res2 =>
              simp only [hcr] at hc; injection hc with hc; simp only [Prod.mk.injEq] at hc
              have hst1 := instr_static ctx i st s1 out1 dead1 hci hw
              have hst2 := seq_static ctx rest s1 res2.1 res2.2.1 res2.2.2 hcr hst1.wf
              exact ⟨res2.2.1, hc.2.1.symm, by rw [← hc.1]; exact hst2.declMono⟩
        obtain ⟨out2, rfl, hmono⟩ := hout
        obtain ⟨h0, lab, σ', h1, h2, h3⟩ := hsim
        exact ⟨h0, lab, σ', h1, execSeq_of_execOut hlen h2 (by intro σ''; simp), h3.1, fun ht => Nat.le_trans (h3.2 ht) hmono⟩
      | ret stkB locB =>
        rw [hri] at hsim
        have hout : ∃ out2, out = out1 ++ out2 ∧ s1.declLen ≤ st'.declLen := by
          by_cases hd : dead1 = true
          · simp only [hd, if_true] at hc; injection hc with hc; simp only [Prod.mk.injEq] at hc
            exact ⟨[], by simp [hc.2.1], by rw [hc.1]; exact Nat.le_refl _⟩
          · simp only [hd, if_false] at hc
            cases hcr : compileSeq ctx s1 rest with
            | error e => simp [hcr] at hc
            | ok res2 =>
              simp only [hcr] at hc; injection hc with hc; simp only [Prod.mk.injEq] at hc
              have hst1 := instr_static ctx i st s1 out1 dead1 hci hw
              have hst2 := seq_static ctx rest s1 res2.1 res2.2.1 res2.2.2 hcr hst1.wf
              exact ⟨res2.2.1, hc.2.1.symm, by rw [← hc.1]; exact hst2.declMono⟩
        obtain ⟨out2, rfl, hmono⟩ := hout
        obtain ⟨h0, lab, σ', h1, h2, h3⟩ := hsim
        exact ⟨h0, lab, σ', h1, execSeq_of_execOut hlen h2 (by intro σ''; simp), h3.1, fun ht => Nat.le_trans (h3.2 ht) hmono⟩
end W2c2Verif.Sim
