/-
  Lemmas.WasiSpecTables — what the WASI specification (witx, snapshot_preview1 and the older
  `wasi_unstable`) prescribes for the table-like parts of C12, written down independently of
  `wasi.c`: whence encodings, open flags, filestat layouts, errno numbers.  The C12 theorems
  compare the tables regenerated from the source (`Gen.Wasi`) with these.
-/
import W2c2Verif.Model.WasiPosix
import W2c2Verif.Lemmas.WasiMem

namespace W2c2Verif.Model.Wasi
open W2c2Verif W2c2Verif.Spec.Posix

/-- `whence`: preview1 = {set 0, cur 1, end 2}; unstable = {cur 0, end 1, set 2} (WASI PR 106) -/
def specWhence : Abi → Nat → Option Whence
  | .preview1, 0 => some .set | .preview1, 1 => some .cur | .preview1, 2 => some .end
  | .unstable, 0 => some .cur | .unstable, 1 => some .end | .unstable, 2 => some .set
  | _, _ => none

/-- `oflags`: creat 1, directory 2, excl 4, trunc 8;  `fdflags`: append 1, dsync 2, nonblock 4, rsync 8, sync 16 -/
def specOpenFlags (oflags fdflags : Nat) : List OFlag :=
  (if oflags &&& 1 != 0 then [.creat] else []) ++ (if oflags &&& 2 != 0 then [.directory] else []) ++
  (if oflags &&& 4 != 0 then [.excl] else []) ++ (if oflags &&& 8 != 0 then [.trunc] else []) ++
  (if fdflags &&& 1 != 0 then [.append] else []) ++ (if fdflags &&& 2 != 0 then [.dsync] else []) ++
  (if fdflags &&& 4 != 0 then [.nonblock] else []) ++ (if fdflags &&& 16 != 0 then [.sync] else [])

/-- rights → access mode, the convention wasi-libc uses in the other direction:
    readable iff fd_read (bit 1) or fd_readdir (bit 14); writable iff fd_datasync (0), fd_write (6),
    fd_allocate (8) or fd_filestat_set_size (22) -/
def specAcc (rights : Nat) : Acc :=
  let rd := rights &&& ((1 <<< 1) ||| (1 <<< 14)) != 0
  let wr := rights &&& ((1 <<< 0) ||| (1 <<< 6) ||| (1 <<< 8) ||| (1 <<< 22)) != 0
  if wr then (if rd then .rdwr else .wronly) else .rdonly

/-- filestat: (field, offset, bytes) and total size -/
def specFilestat : Abi → Nat × List (String × Nat × Nat)
  | .preview1 => (64, [("dev", 0, 8), ("ino", 8, 8), ("wasiFileType", 16, 1), ("nlink", 24, 8), ("size", 32, 8),
                       ("accessTime", 40, 8), ("modificationTime", 48, 8), ("creationTime", 56, 8)])
  | .unstable => (56, [("dev", 0, 8), ("ino", 8, 8), ("wasiFileType", 16, 1), ("nlink", 20, 4), ("size", 24, 8),
                       ("accessTime", 32, 8), ("modificationTime", 40, 8), ("creationTime", 48, 8)])

/-- WASI errno numbers (witx `errno`) -/
def specErrno : Errno → Nat
  | .E2BIG => 1 | .EACCES => 2 | .EAGAIN => 6 | .EBADF => 8 | .EBUSY => 10 | .ECHILD => 12 | .EDOM => 18
  | .EEXIST => 20 | .EFAULT => 21 | .EFBIG => 22 | .EINTR => 27 | .EINVAL => 28 | .EIO => 29 | .EISDIR => 31
  | .ELOOP => 32 | .EMFILE => 33 | .EMLINK => 34 | .ENAMETOOLONG => 37 | .ENFILE => 41 | .ENODEV => 43
  | .ENOENT => 44 | .ENOEXEC => 45 | .ENOMEM => 48 | .ENOSPC => 51 | .ENOSYS => 52 | .ENOTDIR => 54
  | .ENOTEMPTY => 55 | .ENOTTY => 59 | .ENXIO => 60 | .EOVERFLOW => 61 | .EPERM => 63 | .EPIPE => 64
  | .ERANGE => 68 | .EROFS => 69 | .ESPIPE => 70 | .ESRCH => 71 | .ETXTBSY => 74 | .EXDEV => 75

/-! ## congruence of the I/O cores in the transfer function -/

theorem readIovecs_length (m : Mem) (ptr stride bo lo : Nat) (cnt : Nat) (segs : List (Nat × Nat))
    (h : readIovecs m ptr stride bo lo cnt = .val segs) : segs.length = cnt := by
  induction cnt generalizing segs with
  | zero => simp [readIovecs] at h; simp [h]
  | succ k ih =>
    unfold readIovecs at h
    cases hp : readIovecs m ptr stride bo lo k with
    | val pre =>
      rw [hp] at h
      simp only [Out.bind_val] at h
      cases hb : m.loadU32 (ptr + k * stride + bo) with
      | val b =>
        rw [hb] at h
        simp only [Out.bind_val] at h
        cases hl : m.loadU32 (ptr + k * stride + lo) with
        | val l =>
          rw [hl] at h
          simp only [Out.bind_val, Out.val.injEq] at h
          rw [← h, List.length_append, ih pre hp]; rfl
        | trap t => rw [hl] at h; simp at h
        | ub u => rw [hl] at h; simp at h
        | oof => rw [hl] at h; simp at h
      | trap t => rw [hb] at h; simp at h
      | ub u => rw [hb] at h; simp at h
      | oof => rw [hb] at h; simp at h
    | trap t => rw [hp] at h; simp at h
    | ub u => rw [hp] at h; simp at h
    | oof => rw [hp] at h; simp at h

theorem doRead_congr {σ : Type} (w : MW) (h : σ) (iovs cnt res : Nat) (rd1 rd2 : σ → List Nat → σ × R Bytes)
    (heq : ∀ lens : List Nat, lens.length = cnt → rd1 h lens = rd2 h lens) :
    doRead w h iovs cnt res rd1 = doRead w h iovs cnt res rd2 := by
  unfold doRead
  cases hs : readIovecs w.mem iovs Gen.Wasi.iovecSize Gen.Wasi.iovecBufOffset Gen.Wasi.iovecLenOffset cnt with
  | val segs =>
    simp only [Out.bind_val]
    rw [heq (segs.map (·.2)) (by rw [List.length_map]; exact readIovecs_length _ _ _ _ _ _ _ hs)]
  | trap t => rfl
  | ub u => rfl
  | oof => rfl

theorem gather_length (m : Mem) (segs : List (Nat × Nat)) (bufs : List Bytes) (h : gather m segs = .val bufs) :
    bufs.length = segs.length := by
  induction segs generalizing bufs with
  | nil => simp [gather] at h; simp [h]
  | cons sg r ih =>
    obtain ⟨b, l⟩ := sg
    unfold gather at h
    cases hr : m.read b l with
    | val bs =>
      rw [hr] at h
      simp only [Out.bind_val] at h
      cases hg : gather m r with
      | val rest =>
        rw [hg] at h
        simp only [Out.bind_val, Out.val.injEq] at h
        rw [← h]; simp [ih rest hg]
      | trap t => rw [hg] at h; simp at h
      | ub u => rw [hg] at h; simp at h
      | oof => rw [hg] at h; simp at h
    | trap t => rw [hr] at h; simp at h
    | ub u => rw [hr] at h; simp at h
    | oof => rw [hr] at h; simp at h

theorem doWrite_congr {σ : Type} (H : Host σ) (w : MW) (h : σ) (iovs cnt res : Nat) (wr1 wr2 : σ → List Bytes → σ × R Nat)
    (heq : ∀ bufs : List Bytes, bufs.length = cnt → wr1 h bufs = wr2 h bufs) :
    doWrite H w h iovs cnt res wr1 = doWrite H w h iovs cnt res wr2 := by
  unfold doWrite
  cases hs : readIovecs w.mem iovs Gen.Wasi.ciovecSize Gen.Wasi.ciovecBufOffset Gen.Wasi.ciovecLenOffset cnt with
  | val segs =>
    simp only [Out.bind_val]
    cases hg : gather w.mem segs with
    | val bufs =>
      simp only [Out.bind_val]
      rw [heq bufs (by rw [gather_length _ _ _ hg]; exact readIovecs_length _ _ _ _ _ _ _ hs)]
    | trap t => rfl
    | ub u => rfl
    | oof => rfl
  | trap t => rfl
  | ub u => rfl
  | oof => rfl

/-- a 64-bit C parameter holding a guest offset below 2^63 is that offset -/
theorem asOffT_64 (v : Nat) (h : v < 2 ^ 63) : asOffT 64 v = (v : Int) := by
  unfold asOffT
  have h1 : v % 2 ^ 64 = v := Nat.mod_eq_of_lt (by omega)
  simp only [h1]
  have : ¬ (64 ≥ 64 ∧ v ≥ 2 ^ 63) := by omega
  rw [if_neg this]

end W2c2Verif.Model.Wasi
