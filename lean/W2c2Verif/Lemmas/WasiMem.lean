/-
  Lemmas.WasiMem — guest memory: read-after-write, little-endian encoding.
-/
import W2c2Verif.Model.Wasi

namespace W2c2Verif.Model.Wasi
open W2c2Verif W2c2Verif.Spec.Posix

theorem leBytes_length (n v : Nat) : (leBytes n v).length = n := by simp [leBytes]

theorem Mem.write_size {m m' : Mem} {a : Nat} {bs : Bytes} (h : m.write a bs = .val m') : m'.size = m.size := by
  unfold Mem.write at h
  split at h
  · cases h; rfl
  · split at h
    · cases h; rfl
    · cases h

theorem Mem.write_data {m m' : Mem} {a : Nat} {bs : Bytes} (h : m.write a bs = .val m') (i : Nat) :
    m'.data i = if a ≤ i ∧ i < a + bs.length then bs.getD (i - a) 0 else m.data i := by
  unfold Mem.write at h
  split at h
  · rename_i h0; cases h
    have : ¬ (a ≤ i ∧ i < a + bs.length) := by omega
    simp [this]
  · split at h
    · cases h; rfl
    · cases h

theorem Mem.write_inb {m : Mem} {a : Nat} {bs : Bytes} (h : a + bs.length ≤ m.size) :
    ∃ m', m.write a bs = .val m' := by
  unfold Mem.write
  split
  · exact ⟨_, rfl⟩
  · simp [h]

/-- reading back what was just written -/
theorem Mem.read_write_same {m m' : Mem} {a : Nat} {bs : Bytes} (h : m.write a bs = .val m') :
    m'.read a bs.length = .val bs := by
  have hd := Mem.write_data h
  have hs := Mem.write_size h
  unfold Mem.read
  have hb : bs.length = 0 ∨ a + bs.length ≤ m'.size := by
    unfold Mem.write at h
    split at h
    · left; assumption
    · split at h
      · right; rw [hs]; assumption
      · cases h
  simp only [hb, ↓reduceIte]
  congr 1
  apply List.ext_getElem
  · simp
  · intro i h1 h2
    simp only [List.getElem_map, List.getElem_range]
    rw [hd]
    simp at h1
    have : a ≤ a + i ∧ a + i < a + bs.length := by omega
    simp only [this, and_self, ↓reduceIte, Nat.add_sub_cancel_left]
    simp [List.getD_eq_getElem?_getD, h2]

/-- bytes outside the written range keep their value -/
theorem Mem.read_write_disjoint {m m' : Mem} {a : Nat} {bs : Bytes} (h : m.write a bs = .val m')
    (b n : Nat) (hdis : b + n ≤ a ∨ a + bs.length ≤ b) : m'.read b n = m.read b n := by
  have hd := Mem.write_data h
  have hs := Mem.write_size h
  unfold Mem.read
  rw [hs]
  split
  · congr 1
    apply List.map_congr_left
    intro k hk
    simp at hk
    rw [hd]
    have : ¬ (a ≤ b + k ∧ b + k < a + bs.length) := by omega
    simp [this]
  · rfl

theorem MW.store_val {w w' : MW} {a : Nat} {bs : Bytes} (h : w.store a bs = .val w') :
    w.mem.write a bs = .val w'.mem ∧ w'.log = w.log ++ [(a, bs)] := by
  unfold MW.store Out.map' at h
  cases hw : w.mem.write a bs with
  | val m => rw [hw] at h; simp at h; subst h; exact ⟨rfl, rfl⟩
  | trap t => rw [hw] at h; simp at h
  | ub k => rw [hw] at h; simp at h
  | oof => rw [hw] at h; simp at h

theorem MW.store_inb {w : MW} {a : Nat} {bs : Bytes} (h : a + bs.length ≤ w.mem.size) :
    ∃ m', w.mem.write a bs = .val m' ∧ w.store a bs = .val ⟨m', w.log ++ [(a, bs)]⟩ := by
  obtain ⟨m', hm⟩ := Mem.write_inb h
  exact ⟨m', hm, by simp [MW.store, Out.map', hm]⟩

/-! ## little endian -/

theorem leNat_leBytes (n v : Nat) : leNat (leBytes n v) = v % 256 ^ n := by
  induction n generalizing v with
  | zero => simp [leBytes, leNat, Nat.mod_one]
  | succ n ih =>
    have hsplit : leBytes (n + 1) v = UInt8.ofNat (v % 256) :: leBytes n (v / 256) := by
      simp only [leBytes, List.range_succ_eq_map, List.map_cons, List.map_map]
      congr 1
      · simp
      · apply List.map_congr_left
        intro k _
        simp only [Function.comp]
        congr 2
        rw [Nat.pow_succ, Nat.mul_comm, Nat.div_div_eq_div_mul]
    rw [hsplit, leNat, ih]
    have : (UInt8.ofNat (v % 256)).toNat = v % 256 := by
      simp [UInt8.toNat_ofNat']
    rw [this, Nat.pow_succ]
    have h1 := Nat.mod_add_div v 256
    have h2 := Nat.mod_mul_right_div_self v 256 (256 ^ n)
    have h3 : v % (256 ^ n * 256) = v % 256 + 256 * (v / 256 % 256 ^ n) := by
      rw [Nat.mul_comm (256 ^ n) 256, Nat.mod_mul]
    omega

end W2c2Verif.Model.Wasi
