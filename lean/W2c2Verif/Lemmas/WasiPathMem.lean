/-
  Lemmas.WasiPathMem — guest-memory primitives of Model.WasiPath (storeBytes, little-endian bytes).
-/
import W2c2Verif.Model.WasiPath
namespace W2c2Verif.WasiPath
open W2c2Verif

theorem storeBytes_ok (m : Mem) (addr : Nat) (bs : Bytes) (h : addr + bs.length ≤ m.length) :
    storeBytes m addr bs = .val (m.take addr ++ bs ++ m.drop (addr + bs.length)) := by
  simp [storeBytes, h]

/-- storing over a segment `old` of the same length -/
theorem storeBytes_seg (A old B bs : Bytes) (addr : Nat) (ha : addr = A.length) (hl : bs.length = old.length) :
    storeBytes (A ++ old ++ B) addr bs = .val (A ++ bs ++ B) := by
  subst ha
  rw [storeBytes_ok _ _ _ (by simp; omega)]
  congr 1
  rw [List.append_assoc A old B, List.take_left, hl]
  have : A.length + old.length = (A ++ old).length := by simp
  rw [← List.append_assoc, this, List.drop_left]

theorem leBytes_length (w v : Nat) : (leBytes w v).length = w := by
  induction w generalizing v with
  | zero => rfl
  | succ w ih => simp [leBytes, ih]

theorem leVal_leBytes (w v : Nat) (h : v < 256 ^ w) : leVal (leBytes w v) = v := by
  induction w generalizing v with
  | zero => simp at h; subst h; rfl
  | succ w ih =>
    simp only [leBytes, leVal]
    have h1 : v / 256 < 256 ^ w := by
      rw [Nat.div_lt_iff_lt_mul (by decide)]; rw [Nat.pow_succ] at h; exact h
    rw [ih _ h1]
    have : (UInt8.ofNat (v % 256)).toNat = v % 256 := by
      simp [UInt8.toNat_ofNat']
    rw [this]; omega

theorem u32_of_lt (x : Nat) (h : x < 4294967296) : u32 x = x := Nat.mod_eq_of_lt h

end W2c2Verif.WasiPath
