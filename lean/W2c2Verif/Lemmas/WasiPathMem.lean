/-
  Lemmas.WasiPathMem — guest-memory primitives of Model.WasiPath (storeBytes, little-endian bytes).
-/
import W2c2Verif.Model.WasiPath
namespace W2c2Verif.WasiPath
open W2c2Verif

theorem storeBytes_ok (m : Mem) (addr : Nat) (bs : Bytes) (h : addr + bs.length ≤ m.length) :
    storeBytes m addr bs = .val (m.take addr ++ bs ++ m.drop (addr + bs.length)) := by
  simp [storeBytes, h]

/-- storing over a segment `old` of the same length -/
theorem storeBytes_seg (A old B bs : Bytes) (addr : Nat) (ha : addr = A.length) (hl : bs.length = old.length) :
    storeBytes (A ++ old ++ B) addr bs = .val (A ++ bs ++ B) := by
  subst ha
  rw [storeBytes_ok _ _ _ (by simp; omega)]
  congr 1
  rw [List.append_assoc A old B, List.take_left, hl]
  have : A.length + old.length = (A ++ old).length := by simp
  rw [← List.append_assoc, this, List.drop_left]

theorem leBytes_length (w v : Nat) : (leBytes w v).length = w := by
  induction w generalizing v with
  | zero => rfl
  | succ w ih => simp [leBytes, ih]

theorem leVal_leBytes (w v : Nat) (h : v < 256 ^ w) : leVal (leBytes w v) = v := by
  induction w generalizing v with
  | zero => simp at h; subst h; rfl
  | succ w ih =>
    simp only [leBytes, leVal]
    have h1 : v / 256 < 256 ^ w := by
      rw [Nat.div_lt_iff_lt_mul (by decide)]; rw [Nat.pow_succ] at h; exact h
    rw [ih _ h1]
    have : (UInt8.ofNat (v % 256)).toNat = v % 256 := by
      simp [UInt8.toNat_ofNat']
    rw [this]; omega

theorem u32_of_lt (x : Nat) (h : x < 4294967296) : u32 x = x := Nat.mod_eq_of_lt h


/-- `n` bytes of memory at `a` -/
def slice (m : Mem) (a n : Nat) : Bytes := (m.drop a).take n

theorem stored_length (m : Mem) (a : Nat) (bs : Bytes) (h : a + bs.length ≤ m.length) :
    (m.take a ++ bs ++ m.drop (a + bs.length)).length = m.length := by
  simp; omega

theorem stored_getElem?_outside (m : Mem) (a : Nat) (bs : Bytes) (h : a + bs.length ≤ m.length) (k : Nat)
    (hk : k < a ∨ a + bs.length ≤ k) :
    (m.take a ++ bs ++ m.drop (a + bs.length))[k]? = m[k]? := by
  rcases hk with hk | hk
  · rw [List.append_assoc, List.getElem?_append_left (by simp; omega), List.getElem?_take]
    simp [hk]
  · rw [List.getElem?_append_right (by simp; omega), List.getElem?_drop]
    congr 1
    simp; omega

theorem slice_stored_disj (m : Mem) (a : Nat) (bs : Bytes) (h : a + bs.length ≤ m.length) (b n : Nat)
    (hd : a + bs.length ≤ b ∨ b + n ≤ a) :
    slice (m.take a ++ bs ++ m.drop (a + bs.length)) b n = slice m b n := by
  unfold slice
  apply List.ext_getElem?
  intro j
  simp only [List.getElem?_take, List.getElem?_drop]
  by_cases hj : j < n
  · simp only [hj, if_true]
    exact stored_getElem?_outside m a bs h (b + j) (by omega)
  · simp [hj]

theorem slice_stored_same (m : Mem) (a : Nat) (bs : Bytes) (h : a + bs.length ≤ m.length) :
    slice (m.take a ++ bs ++ m.drop (a + bs.length)) a bs.length = bs := by
  unfold slice
  have : (m.take a).length = a := by simp; omega
  rw [List.append_assoc, List.drop_append_of_le_length (by omega), List.drop_of_length_le (by omega)]
  simp

theorem split_at_slice (m : Mem) (b n : Nat) (h : b + n ≤ m.length) :
    m = m.take b ++ slice m b n ++ m.drop (b + n) := by
  unfold slice
  rw [List.append_assoc, ← List.drop_drop, List.take_append_drop, List.take_append_drop]

theorem slice_length (m : Mem) (b n : Nat) (h : b + n ≤ m.length) : (slice m b n).length = n := by
  unfold slice; simp; omega

theorem slice_mid (A M B : Bytes) (a : Nat) (ha : a = A.length) : slice (A ++ M ++ B) a M.length = M := by
  subst ha
  unfold slice
  rw [List.append_assoc, List.drop_left, List.take_left]


end W2c2Verif.WasiPath
