/-
  Lemmas.GrowSeq — facts about the sequential semantics (`runSeq`/`Final`), the abstract evaluator and
  the soundness of the static discipline check `chk` of Model/Grow.lean.
-/
import W2c2Verif.Model.Grow

namespace W2c2Verif.Model.Grow
open W2c2Verif.Model

/-! ### runSeq / Final -/

theorem runSeq_succ {imm prog} : ∀ (n : Nat) (m : Mem) (pc : Nat) (ρ : Nat → Nat) (r : Mem × Nat),
    runSeq imm prog n m pc ρ = some r → runSeq imm prog (n + 1) m pc ρ = some r := by
  intro n
  induction n with
  | zero => intro m pc ρ r h; simp [runSeq] at h
  | succ n ih =>
    intro m pc ρ r h
    rw [runSeq] at h
    rw [runSeq]
    cases ha : act imm prog m pc ρ <;> simp only [ha] at h ⊢
    · exact ih _ _ _ _ h
    · exact ih _ _ _ _ h
    · exact ih _ _ _ _ h
    · exact h
    · cases h
    · cases h

theorem runSeq_add {imm prog} (k : Nat) {n m pc ρ r} (h : runSeq imm prog n m pc ρ = some r) :
    runSeq imm prog (n + k) m pc ρ = some r := by
  induction k with
  | zero => exact h
  | succ k ih => exact runSeq_succ _ _ _ _ _ ih

theorem Final_det {imm prog m pc ρ r r'} (h : Final imm prog m pc ρ r) (h' : Final imm prog m pc ρ r') :
    r = r' := by
  obtain ⟨n, hn⟩ := h
  obtain ⟨n', hn'⟩ := h'
  have a := runSeq_add n' hn
  have b := runSeq_add n hn'
  rw [Nat.add_comm] at b
  rw [a] at b
  exact Option.some.inj b

theorem Final_cont {imm prog m pc ρ m' pc' ρ'} (ha : act imm prog m pc ρ = .cont m' pc' ρ') (r : Mem × Nat) :
    Final imm prog m pc ρ r ↔ Final imm prog m' pc' ρ' r := by
  constructor
  · rintro ⟨n, hn⟩
    cases n with
    | zero => simp [runSeq] at hn
    | succ n => rw [runSeq, ha] at hn; exact ⟨n, hn⟩
  · rintro ⟨n, hn⟩
    exact ⟨n + 1, by rw [runSeq, ha]; exact hn⟩

theorem Final_lock {imm prog m pc ρ pc'} (ha : act imm prog m pc ρ = .lock pc') (r : Mem × Nat) :
    Final imm prog m pc ρ r ↔ Final imm prog m pc' ρ r := by
  constructor
  · rintro ⟨n, hn⟩
    cases n with
    | zero => simp [runSeq] at hn
    | succ n => rw [runSeq, ha] at hn; exact ⟨n, hn⟩
  · rintro ⟨n, hn⟩
    exact ⟨n + 1, by rw [runSeq, ha]; exact hn⟩

theorem Final_unlock {imm prog m pc ρ pc'} (ha : act imm prog m pc ρ = .unlock pc') (r : Mem × Nat) :
    Final imm prog m pc ρ r ↔ Final imm prog m pc' ρ r := by
  constructor
  · rintro ⟨n, hn⟩
    cases n with
    | zero => simp [runSeq] at hn
    | succ n => rw [runSeq, ha] at hn; exact ⟨n, hn⟩
  · rintro ⟨n, hn⟩
    exact ⟨n + 1, by rw [runSeq, ha]; exact hn⟩

theorem Final_ret {imm prog m pc ρ v} (ha : act imm prog m pc ρ = .ret v) (r : Mem × Nat) :
    Final imm prog m pc ρ r ↔ r = (m, v) := by
  constructor
  · rintro ⟨n, hn⟩
    cases n with
    | zero => simp [runSeq] at hn
    | succ n => rw [runSeq, ha] at hn; exact (Option.some.inj hn).symm
  · rintro rfl
    exact ⟨1, by rw [runSeq, ha]⟩

/-! ### abstraction of register files by known constants -/

def Abs (c : Consts) (ρ : Nat → Nat) : Prop := ∀ r v, Consts.get c r = some v → ρ r = v

theorem Abs_nil (ρ : Nat → Nat) : Abs [] ρ := by
  intro r v h; simp [Consts.get] at h

theorem Consts.get_erase_same (c : Consts) (r : Nat) : Consts.get (Consts.erase c r) r = none := by
  induction c with
  | nil => simp [Consts.get, Consts.erase]
  | cons x xs ih =>
    obtain ⟨k, v⟩ := x
    simp only [Consts.erase]
    split
    · exact ih
    · rename_i hk
      simp only [Consts.get, hk, ↓reduceIte]; exact ih

theorem Consts.get_erase_other (c : Consts) {r x : Nat} (h : x ≠ r) :
    Consts.get (Consts.erase c r) x = Consts.get c x := by
  induction c with
  | nil => simp [Consts.get, Consts.erase]
  | cons y ys ih =>
    obtain ⟨k, v⟩ := y
    simp only [Consts.erase]
    split
    · rename_i hk
      have : ¬ (k = x) := by intro e; exact h (e ▸ hk)
      simp only [Consts.get, this, ↓reduceIte]; exact ih
    · simp only [Consts.get]
      split
      · rfl
      · exact ih

theorem Abs_set {c : Consts} {ρ : Nat → Nat} (h : Abs c ρ) (r x : Nat) (o : Option Nat)
    (ho : ∀ v, o = some v → x = v) : Abs (Consts.set c r o) (setReg ρ r x) := by
  intro y v hy
  by_cases hyr : y = r
  · subst hyr
    cases o with
    | none => simp [Consts.set, Consts.get_erase_same] at hy
    | some w =>
      simp only [Consts.set, Consts.get, ↓reduceIte, Option.some.injEq] at hy
      simp only [setReg, ↓reduceIte]
      rw [ho w rfl]; exact hy
  · have : Consts.get (Consts.set c r o) y = Consts.get c y := by
      cases o with
      | none => simp [Consts.set, Consts.get_erase_other c hyr]
      | some w =>
        have hne : ¬ (r = y) := fun e => hyr e.symm
        simp only [Consts.set, Consts.get, hne, ↓reduceIte]
        exact Consts.get_erase_other c hyr
    rw [this] at hy
    simp only [setReg, hyr, ↓reduceIte]
    exact h y v hy

theorem aeval_sound {c : Consts} {ρ : Nat → Nat} (h : Abs c ρ) :
    ∀ (e : MExpr) (v : Nat), aeval c e = some v → e.eval ρ = v := by
  intro e
  induction e with
  | lit n => intro v hv; simp [aeval] at hv; simp [MExpr.eval, hv]
  | reg r => intro v hv; simp only [aeval] at hv; simp [MExpr.eval, h r v hv]
  | add a b iha ihb | sub a b iha ihb | mul a b iha ihb | eq a b iha ihb | ne a b iha ihb
  | lt a b iha ihb | le a b iha ihb | gt a b iha ihb | ge a b iha ihb | lor a b iha ihb | land a b iha ihb =>
    intro v hv
    simp only [aeval, bind, Option.bind] at hv
    cases ha : aeval c a with
    | none => simp [ha] at hv
    | some x =>
      cases hb : aeval c b with
      | none => simp [ha, hb] at hv
      | some y =>
        simp only [ha, hb, pure, Option.some.injEq] at hv
        simp only [MExpr.eval, iha x ha, ihb y hb]
        exact hv
  | lnot a iha =>
    intro v hv
    simp only [aeval, bind, Option.bind] at hv
    cases ha : aeval c a with
    | none => simp [ha] at hv
    | some x =>
      simp only [ha, pure, Option.some.injEq] at hv
      simp only [MExpr.eval, iha x ha]; exact hv
  | cond g a b ihg iha ihb =>
    intro v hv
    simp only [aeval, bind, Option.bind] at hv
    cases hg : aeval c g with
    | none => simp [hg] at hv
    | some x =>
      cases ha : aeval c a with
      | none => simp [hg, ha] at hv
      | some y =>
        cases hb : aeval c b with
        | none => simp [hg, ha, hb] at hv
        | some z =>
          simp only [hg, ha, hb, pure, Option.some.injEq] at hv
          simp only [MExpr.eval, ihg x hg, iha y ha, ihb z hb]; exact hv

/-! ### soundness of the discipline check, one step at a time -/

/-- the thread's continuation from `pc` in phase `ph` has been accepted by `chk` -/
def Good (prog : List MStep) (ph : Phase) (pc : Nat) (ρ : Nat → Nat) : Prop :=
  ∃ fuel c, chk prog fuel pc ph c = true ∧ Abs c ρ

theorem good_of_readsUnderLock {prog : List MStep} (h : ReadsUnderLock prog = true) (ρ : Nat → Nat) :
    Good prog .pre 0 ρ := ⟨_, [], h, Abs_nil ρ⟩

/-- What a step of a checked thread can be (`imm.shared = true`). -/
theorem good_act {imm : Imm} {prog : List MStep} {ph : Phase} {pc : Nat} {ρ : Nat → Nat}
    (hs : imm.shared = true) (h : Good prog ph pc ρ) (m : Mem) :
    match act imm prog m pc ρ with
    | .cont m' pc' ρ' => Good prog ph pc' ρ' ∧ m'.data = m.data ∧
        (ph ≠ .held → m' = m ∧ ∀ m2, act imm prog m2 pc ρ = .cont m2 pc' ρ')
    | .lock pc' => ph = .pre ∧ Good prog .held pc' ρ ∧ ∀ m2, act imm prog m2 pc ρ = .lock pc'
    | .unlock pc' => ph = .held ∧ Good prog .post pc' ρ ∧ ∀ m2, act imm prog m2 pc ρ = .unlock pc'
    | .ret v => ph ≠ .held ∧ ∀ m2, act imm prog m2 pc ρ = .ret v
    | .abort => False
    | .stuck => False := by
  obtain ⟨fuel, c, hc, habs⟩ := h
  cases fuel with
  | zero => simp [chk] at hc
  | succ fuel =>
    unfold chk at hc
    unfold act
    cases hp : prog[pc]? with
    | none => simp [hp] at hc
    | some st =>
      simp only [hp] at hc ⊢
      cases st with
      | set r e =>
        simp only at hc ⊢
        refine ⟨⟨fuel, _, hc, Abs_set habs r _ _ (fun v hv => aeval_sound habs e v hv)⟩, rfl, ?_⟩
        intro _; exact ⟨rfl, fun m2 => by simp [hp]⟩
      | read r f =>
        cases f with
        | shared =>
          simp only at hc ⊢
          refine ⟨⟨fuel, _, hc, Abs_set habs r _ _ (fun v hv => by
            cases hv; simp [readFld, hs, b2n])⟩, rfl, ?_⟩
          intro _; exact ⟨rfl, fun m2 => by simp [hp, readFld]⟩
        | maxPages =>
          simp only at hc ⊢
          refine ⟨⟨fuel, _, hc, Abs_set habs r _ _ (fun v hv => by cases hv)⟩, rfl, ?_⟩
          intro _; exact ⟨rfl, fun m2 => by simp [hp, readFld]⟩
        | data =>
          simp only [Bool.and_eq_true, beq_iff_eq] at hc ⊢
          refine ⟨⟨fuel, _, hc.2, Abs_set habs r _ _ (fun v hv => by cases hv)⟩, rfl, ?_⟩
          intro hne; exact absurd hc.1 hne
        | size =>
          simp only [Bool.and_eq_true, beq_iff_eq] at hc ⊢
          refine ⟨⟨fuel, _, hc.2, Abs_set habs r _ _ (fun v hv => by cases hv)⟩, rfl, ?_⟩
          intro hne; exact absurd hc.1 hne
        | pages =>
          simp only [Bool.and_eq_true, beq_iff_eq] at hc ⊢
          refine ⟨⟨fuel, _, hc.2, Abs_set habs r _ _ (fun v hv => by cases hv)⟩, rfl, ?_⟩
          intro hne; exact absurd hc.1 hne
      | write f e =>
        cases f with
        | pages =>
          simp only [Bool.and_eq_true, beq_iff_eq, writeFld] at hc ⊢
          exact ⟨⟨fuel, _, hc.2, habs⟩, rfl, fun hne => absurd hc.1 hne⟩
        | size =>
          simp only [Bool.and_eq_true, beq_iff_eq, writeFld] at hc ⊢
          exact ⟨⟨fuel, _, hc.2, habs⟩, rfl, fun hne => absurd hc.1 hne⟩
        | data => simp at hc
        | maxPages => simp at hc
        | shared => simp at hc
      | brUnless e k =>
        simp only at hc ⊢
        cases hv : aeval c e with
        | some v =>
          simp only [hv] at hc
          have he := aeval_sound habs e v hv
          rw [he]
          by_cases hv0 : v ≠ 0
          · simp only [hv0, ↓reduceIte] at hc ⊢
            refine ⟨⟨fuel, _, hc, habs⟩, rfl, fun _ => ⟨rfl, fun m2 => ?_⟩⟩
            simp [hp, he, hv0]
          · simp only [hv0, ↓reduceIte] at hc ⊢
            refine ⟨⟨fuel, _, hc, habs⟩, rfl, fun _ => ⟨rfl, fun m2 => ?_⟩⟩
            simp [hp, he, hv0]
        | none =>
          simp only [hv, Bool.and_eq_true] at hc
          by_cases hv0 : e.eval ρ ≠ 0
          · simp only [hv0, ↓reduceIte]
            refine ⟨⟨fuel, _, hc.1, habs⟩, rfl, fun _ => ⟨rfl, fun m2 => ?_⟩⟩
            simp [hp, hv0]
          · simp only [hv0, ↓reduceIte]
            refine ⟨⟨fuel, _, hc.2, habs⟩, rfl, fun _ => ⟨rfl, fun m2 => ?_⟩⟩
            simp [hp, hv0]
      | ret e =>
        simp only [bne_iff_ne, ne_eq] at hc ⊢
        exact ⟨hc, fun m2 => by simp [hp]⟩
      | lock =>
        simp only [Bool.and_eq_true, beq_iff_eq] at hc ⊢
        exact ⟨hc.1, ⟨fuel, _, hc.2, habs⟩, fun m2 => by simp [hp]⟩
      | unlock =>
        simp only [Bool.and_eq_true, beq_iff_eq] at hc ⊢
        exact ⟨hc.1, ⟨fuel, _, hc.2, habs⟩, fun m2 => by simp [hp]⟩
      | realloc r p n => simp at hc
      | memset d v n => simp at hc
      | abort => simp at hc

end W2c2Verif.Model.Grow
