/-
  Lemmas.GrowSeq — facts about the sequential semantics (`runSeq`/`Final`), the abstract evaluator and
  the soundness of the static discipline check `chk` of Model/Grow.lean.
-/
import W2c2Verif.Model.Grow

namespace W2c2Verif.Model.Grow
open W2c2Verif.Model

/-! ### runSeq / Final -/

theorem runSeq_succ {imm prog} : ∀ (n : Nat) (m : Mem) (pc : Nat) (ρ : Nat → Nat) (r : Mem × Nat),
    runSeq imm prog n m pc ρ = some r → runSeq imm prog (n + 1) m pc ρ = some r := by
  intro n
  induction n with
  | zero => intro m pc ρ r h; simp [runSeq] at h
  | succ n ih =>
    intro m pc ρ r h
    rw [runSeq] at h
    rw [runSeq]
    cases ha : act imm prog m pc ρ <;> simp only [ha] at h ⊢
    · exact ih _ _ _ _ h
    · exact ih _ _ _ _ h
    · exact ih _ _ _ _ h
    · exact h
    · cases h
    · cases h

theorem runSeq_add {imm prog} (k : Nat) {n m pc ρ r} (h : runSeq imm prog n m pc ρ = some r) :
    runSeq imm prog (n + k) m pc ρ = some r := by
  induction k with
  | zero => exact h
  | succ k ih => exact runSeq_succ _ _ _ _ _ ih

theorem Final_det {imm prog m pc ρ r r'} (h : Final imm prog m pc ρ r) (h' : Final imm prog m pc ρ r') :
    r = r' := by
  obtain ⟨n, hn⟩ := h
  obtain ⟨n', hn'⟩ := h'
  have a := runSeq_add n' hn
  have b := runSeq_add n hn'
  rw [Nat.add_comm] at b
  rw [a] at b
  exact Option.some.inj b

theorem Final_cont {imm prog m pc ρ m' pc' ρ'} (ha : act imm prog m pc ρ = .cont m' pc' ρ') (r : Mem × Nat) :
    Final imm prog m pc ρ r ↔ Final imm prog m' pc' ρ' r := by
  constructor
  · rintro ⟨n, hn⟩
    cases n with
    | zero => simp [runSeq] at hn
    | succ n => rw [runSeq, ha] at hn; exact ⟨n, hn⟩
  · rintro ⟨n, hn⟩
    exact ⟨n + 1, by rw [runSeq, ha]; exact hn⟩

theorem Final_lock {imm prog m pc ρ pc'} (ha : act imm prog m pc ρ = .lock pc') (r : Mem × Nat) :
    Final imm prog m pc ρ r ↔ Final imm prog m pc' ρ r := by
  constructor
  · rintro ⟨n, hn⟩
    cases n with
    | zero => simp [runSeq] at hn
    | succ n => rw [runSeq, ha] at hn; exact ⟨n, hn⟩
  · rintro ⟨n, hn⟩
    exact ⟨n + 1, by rw [runSeq, ha]; exact hn⟩

theorem Final_unlock {imm prog m pc ρ pc'} (ha : act imm prog m pc ρ = .unlock pc') (r : Mem × Nat) :
    Final imm prog m pc ρ r ↔ Final imm prog m pc' ρ r := by
  constructor
  · rintro ⟨n, hn⟩
    cases n with
    | zero => simp [runSeq] at hn
    | succ n => rw [runSeq, ha] at hn; exact ⟨n, hn⟩
  · rintro ⟨n, hn⟩
    exact ⟨n + 1, by rw [runSeq, ha]; exact hn⟩

theorem Final_ret {imm prog m pc ρ v} (ha : act imm prog m pc ρ = .ret v) (r : Mem × Nat) :
    Final imm prog m pc ρ r ↔ r = (m, v) := by
  constructor
  · rintro ⟨n, hn⟩
    cases n with
    | zero => simp [runSeq] at hn
    | succ n => rw [runSeq, ha] at hn; exact (Option.some.inj hn).symm
  · rintro rfl
    exact ⟨1, by rw [runSeq, ha]⟩

/-! ### abstraction of register files by known constants -/

def Abs (c : Consts) (ρ : Nat → Nat) : Prop := ∀ r v, Consts.get c r = some v → ρ r = v

theorem Abs_nil (ρ : Nat → Nat) : Abs [] ρ := by
  intro r v h; simp [Consts.get] at h

theorem Consts.get_erase_same (c : Consts) (r : Nat) : Consts.get (Consts.erase c r) r = none := by
  induction c with
  | nil => simp [Consts.get, Consts.erase]
  | cons x xs ih =>
    obtain ⟨k, v⟩ := x
    simp only [Consts.erase]
    split
    · exact ih
    · rename_i hk
      simp only [Consts.get, hk, ↓reduceIte]; exact ih

theorem Consts.get_erase_other (c : Consts) {r x : Nat} (h : x ≠ r) :
    Consts.get (Consts.erase c r) x = Consts.get c x := by
  induction c with
  | nil => simp [Consts.get, Consts.erase]
  | cons y ys ih =>
    obtain ⟨k, v⟩ := y
    simp only [Consts.erase]
    split
    · rename_i hk
      have : ¬ (k = x) := by intro e; exact h (e ▸ hk)
      simp only [Consts.get, this, ↓reduceIte]; exact ih
    · simp only [Consts.get]
      split
      · rfl
      · exact ih

theorem Abs_set {c : Consts} {ρ : Nat → Nat} (h : Abs c ρ) (r x : Nat) (o : Option Nat)
    (ho : ∀ v, o = some v → x = v) : Abs (Consts.set c r o) (setReg ρ r x) := by
  intro y v hy
  by_cases hyr : y = r
  · subst hyr
    cases o with
    | none => simp [Consts.set, Consts.get_erase_same] at hy
    | some w =>
      simp only [Consts.set, Consts.get, ↓reduceIte, Option.some.injEq] at hy
      simp only [setReg, ↓reduceIte]
      rw [ho w rfl]; exact hy
  · have : Consts.get (Consts.set c r o) y = Consts.get c y := by
      cases o with
      | none => simp [Consts.set, Consts.get_erase_other c hyr]
      | some w =>
        have hne : ¬ (r = y) := fun e => hyr e.symm
        simp only [Consts.set, Consts.get, hne, ↓reduceIte]
        exact Consts.get_erase_other c hyr
    rw [this] at hy
    simp only [setReg, hyr, ↓reduceIte]
    exact h y v hy

theorem aeval_sound {c : Consts} {ρ : Nat → Nat} (h : Abs c ρ) :
    ∀ (e : MExpr) (v : Nat), aeval c e = some v → e.eval ρ = v := by
  intro e
  induction e with
  | lit n => intro v hv; simp [aeval] at hv; simp [MExpr.eval, hv]
  | reg r => intro v hv; simp only [aeval] at hv; simp [MExpr.eval, h r v hv]
  | add a b iha ihb | sub a b iha ihb | mul a b iha ihb | wmul a b iha ihb | eq a b iha ihb | ne a b iha ihb
  | lt a b iha ihb | le a b iha ihb | gt a b iha ihb | ge a b iha ihb | lor a b iha ihb | land a b iha ihb =>
    intro v hv
    simp only [aeval, bind, Option.bind] at hv
    cases ha : aeval c a with
    | none => simp [ha] at hv
    | some x =>
      cases hb : aeval c b with
      | none => simp [ha, hb] at hv
      | some y =>
        simp only [ha, hb, pure, Option.some.injEq] at hv
        simp only [MExpr.eval, iha x ha, ihb y hb]
        exact hv
  | lnot a iha =>
    intro v hv
    simp only [aeval, bind, Option.bind] at hv
    cases ha : aeval c a with
    | none => simp [ha] at hv
    | some x =>
      simp only [ha, pure, Option.some.injEq] at hv
      simp only [MExpr.eval, iha x ha]; exact hv
  | cond g a b ihg iha ihb =>
    intro v hv
    simp only [aeval, bind, Option.bind] at hv
    cases hg : aeval c g with
    | none => simp [hg] at hv
    | some x =>
      cases ha : aeval c a with
      | none => simp [hg, ha] at hv
      | some y =>
        cases hb : aeval c b with
        | none => simp [hg, ha, hb] at hv
        | some z =>
          simp only [hg, ha, hb, pure, Option.some.injEq] at hv
          simp only [MExpr.eval, ihg x hg, iha y ha, ihb z hb]; exact hv

/-! ### soundness of the discipline check, one step at a time -/

/-- the thread's continuation from `pc` in phase `ph` has been accepted by `chk` -/
def Good (prog : List MStep) (ph : Phase) (pc : Nat) (ρ : Nat → Nat) : Prop :=
  ∃ fuel c, chk prog fuel pc ph c = true ∧ Abs c ρ

theorem good_of_readsUnderLock {prog : List MStep} (h : ReadsUnderLock prog = true) (ρ : Nat → Nat) :
    Good prog .pre 0 ρ := ⟨_, [], h, Abs_nil ρ⟩

/-- What a step of a checked thread can be (`imm.shared = true`). -/
theorem good_act {imm : Imm} {prog : List MStep} {ph : Phase} {pc : Nat} {ρ : Nat → Nat}
    (hs : imm.shared = true) (h : Good prog ph pc ρ) (m : Mem) :
    match act imm prog m pc ρ with
    | .cont m' pc' ρ' => Good prog ph pc' ρ' ∧ m'.data = m.data ∧
        (ph ≠ .held → m' = m ∧ ∀ m2, act imm prog m2 pc ρ = .cont m2 pc' ρ')
    | .lock pc' => ph = .pre ∧ Good prog .held pc' ρ ∧ ∀ m2, act imm prog m2 pc ρ = .lock pc'
    | .unlock pc' => ph = .held ∧ Good prog .post pc' ρ ∧ ∀ m2, act imm prog m2 pc ρ = .unlock pc'
    | .ret v => ph ≠ .held ∧ ∀ m2, act imm prog m2 pc ρ = .ret v
    | .abort => False
    | .stuck => False := by
  obtain ⟨fuel, c, hc, habs⟩ := h
  cases fuel with
  | zero => simp [chk] at hc
  | succ fuel =>
    unfold chk at hc
    cases hp : prog[pc]? with
    | none => simp [hp] at hc
    | some st =>
      simp only [hp] at hc
      cases st with
      | set r e =>
        have hact : ∀ m2, act imm prog m2 pc ρ = .cont m2 (pc + 1) (setReg ρ r (e.eval ρ)) :=
          fun m2 => by simp [act, hp]
        rw [hact m]; dsimp only
        exact ⟨⟨fuel, _, hc, Abs_set habs r _ _ (fun v hv => aeval_sound habs e v hv)⟩, rfl,
          fun _ => ⟨rfl, hact⟩⟩
      | read r f =>
        have hact : ∀ m2, act imm prog m2 pc ρ = .cont m2 (pc + 1) (setReg ρ r (readFld imm m2 f)) :=
          fun m2 => by simp [act, hp]
        rw [hact m]; dsimp only
        cases f with
        | shared =>
          simp only at hc
          refine ⟨⟨fuel, _, hc, Abs_set habs r _ _ (fun v hv => by
            cases hv; simp [readFld, hs, b2n])⟩, rfl, fun _ => ⟨rfl, fun m2 => ?_⟩⟩
          rw [hact m2]; simp [readFld]
        | maxPages =>
          simp only at hc
          refine ⟨⟨fuel, _, hc, Abs_set habs r _ _ (fun v hv => by cases hv)⟩, rfl, fun _ => ⟨rfl, fun m2 => ?_⟩⟩
          rw [hact m2]; simp [readFld]
        | data =>
          simp only [Bool.and_eq_true, beq_iff_eq] at hc
          exact ⟨⟨fuel, _, hc.2, Abs_set habs r _ _ (fun v hv => by cases hv)⟩, rfl, fun hne => absurd hc.1 hne⟩
        | size =>
          simp only [Bool.and_eq_true, beq_iff_eq] at hc
          exact ⟨⟨fuel, _, hc.2, Abs_set habs r _ _ (fun v hv => by cases hv)⟩, rfl, fun hne => absurd hc.1 hne⟩
        | pages =>
          simp only [Bool.and_eq_true, beq_iff_eq] at hc
          exact ⟨⟨fuel, _, hc.2, Abs_set habs r _ _ (fun v hv => by cases hv)⟩, rfl, fun hne => absurd hc.1 hne⟩
      | write f e =>
        cases f with
        | pages =>
          have hact : act imm prog m pc ρ = .cont { m with pages := e.eval ρ } (pc + 1) ρ := by
            simp [act, hp, writeFld]
          rw [hact]; dsimp only
          simp only [Bool.and_eq_true, beq_iff_eq] at hc
          exact ⟨⟨fuel, _, hc.2, habs⟩, rfl, fun hne => absurd hc.1 hne⟩
        | size =>
          have hact : act imm prog m pc ρ = .cont { m with size := e.eval ρ } (pc + 1) ρ := by
            simp [act, hp, writeFld]
          rw [hact]; dsimp only
          simp only [Bool.and_eq_true, beq_iff_eq] at hc
          exact ⟨⟨fuel, _, hc.2, habs⟩, rfl, fun hne => absurd hc.1 hne⟩
        | data => simp at hc
        | maxPages => simp at hc
        | shared => simp at hc
      | brUnless e k =>
        have hact : ∀ m2, act imm prog m2 pc ρ =
            .cont m2 (if e.eval ρ ≠ 0 then pc + 1 else pc + 1 + k) ρ := fun m2 => by simp [act, hp]
        rw [hact m]; dsimp only
        refine ⟨?_, rfl, fun _ => ⟨rfl, hact⟩⟩
        cases hv : aeval c e with
        | some v =>
          simp only [hv] at hc
          have he := aeval_sound habs e v hv
          rw [he]
          by_cases hv0 : v ≠ 0
          · rw [if_pos hv0] at hc ⊢
            exact ⟨fuel, _, hc, habs⟩
          · rw [if_neg hv0] at hc ⊢
            exact ⟨fuel, _, hc, habs⟩
        | none =>
          simp only [hv, Bool.and_eq_true] at hc
          by_cases hv0 : e.eval ρ ≠ 0
          · rw [if_pos hv0]
            exact ⟨fuel, _, hc.1, habs⟩
          · rw [if_neg hv0]
            exact ⟨fuel, _, hc.2, habs⟩
      | ret e =>
        have hact : ∀ m2, act imm prog m2 pc ρ = .ret (e.eval ρ) := fun m2 => by simp [act, hp]
        rw [hact m]; dsimp only
        simp only [bne_iff_ne, ne_eq] at hc
        exact ⟨hc, hact⟩
      | lock =>
        have hact : ∀ m2, act imm prog m2 pc ρ = .lock (pc + 1) := fun m2 => by simp [act, hp]
        rw [hact m]; dsimp only
        simp only [Bool.and_eq_true, beq_iff_eq] at hc
        exact ⟨hc.1, ⟨fuel, _, hc.2, habs⟩, hact⟩
      | unlock =>
        have hact : ∀ m2, act imm prog m2 pc ρ = .unlock (pc + 1) := fun m2 => by simp [act, hp]
        rw [hact m]; dsimp only
        simp only [Bool.and_eq_true, beq_iff_eq] at hc
        exact ⟨hc.1, ⟨fuel, _, hc.2, habs⟩, hact⟩
      | realloc r p n => simp at hc
      | memset p off v n => simp at hc
      | abort => simp at hc

/-- once the mutex has been released, the rest of a checked operation does not touch the descriptor -/
theorem post_runSeq_mem {imm : Imm} {prog : List MStep} (hs : imm.shared = true) :
    ∀ (n : Nat) (m : Mem) (pc : Nat) (ρ : Nat → Nat) (r : Mem × Nat),
      Good prog .post pc ρ → runSeq imm prog n m pc ρ = some r → r.1 = m := by
  intro n
  induction n with
  | zero => intro m pc ρ r _ h; simp [runSeq] at h
  | succ n ih =>
    intro m pc ρ r hg h
    have ga := good_act hs hg m
    rw [runSeq] at h
    cases ha : act imm prog m pc ρ with
    | cont m' pc' ρ' =>
      simp only [ha] at h ga
      have := (ga.2.2 (by decide)).1
      subst this
      exact ih _ _ _ _ ga.1 h
    | lock pc' => simp only [ha] at ga; cases ga.1
    | unlock pc' => simp only [ha] at ga; cases ga.1
    | ret v => simp only [ha] at h; cases h; rfl
    | abort => simp only [ha] at ga
    | stuck => simp only [ha] at ga

/-- what a step of a read-only operation can be -/
theorem readOnly_act {imm : Imm} {prog : List MStep} (h : ReadOnly prog = true) (m : Mem) (pc : Nat) (ρ : Nat → Nat) :
    match act imm prog m pc ρ with
    | .cont m' _ _ => m' = m
    | .lock _ => False
    | .unlock _ => False
    | .abort => False
    | _ => True := by
  unfold act
  cases hp : prog[pc]? with
  | none => simp
  | some st =>
    have hmem := List.mem_of_getElem? hp
    have := (List.all_eq_true.mp h) st hmem
    cases st <;> simp_all

end W2c2Verif.Model.Grow
