/-
  Lemmas.SimBlock — leaving a structured instruction: how the result of the body becomes the result of
  block / if (and of one iteration of loop), on both sides.
-/
import W2c2Verif.Lemmas.SimStatic
set_option linter.unusedSimpArgs false
set_option linter.unusedVariables false
namespace W2c2Verif.Sim
open W2c2Verif Model Gen Spec

def blockRes (h : Nat) (bt : Option VT) : ERes → ERes
  | .branch 0 stk' loc' => .normal (exitBlock h bt stk') loc'
  | .branch (l + 1) stk' loc' => .branch l stk' loc'
  | r => r

def blockExec (L : Nat) : MRes → MRes
  | .jump L' σ' => if L' = L then .normal σ' else .jump L' σ'
  | r => r

theorem label_snoc_zero {s : St} {ls : List Label} {lab : Label} (h : s.labels = ls ++ [lab]) : s.label 0 = some lab := by
  simp [St.label, h]

theorem label_snoc_succ {s s0 : St} {lab : Label} (h : s.labels = s0.labels ++ [lab]) (l : Nat) : s.label (l + 1) = s0.label l := by
  simp only [St.label, h, List.length_append, List.length_cons, List.length_nil]
  by_cases hl : l < s0.labels.length
  · have h1 : l + 1 < s0.labels.length + (0 + 1) := by omega
    simp only [h1, hl, if_true]
    have e : s0.labels.length + (0 + 1) - 1 - (l + 1) = s0.labels.length - 1 - l := by omega
    rw [e, List.getElem?_append_left (by omega)]
  · have h1 : ¬ l + 1 < s0.labels.length + (0 + 1) := by omega
    simp [h1, hl]

theorem Rel.snoc {stack : List VT} {stk : List Val} {σ : MSt} (h : Rel stack stk σ) (t : VT) (v : Val)
    (hv : σ.get ⟨t, stack.length⟩ = v) : Rel (stack ++ [t]) (stk ++ [v]) σ := by
  refine ⟨by simp [h.1], fun k hk hk' => ?_⟩
  by_cases hlt : k < stack.length
  · have h1 : (stack ++ [t])[k] = stack[k] := List.getElem_append_left hlt
    have h2 : (stk ++ [v])[k] = stk[k]'(by rw [h.1]; exact hlt) := List.getElem_append_left (by rw [h.1]; exact hlt)
    rw [h2]
    have := h.2 k hlt (by rw [h.1]; exact hlt)
    simpa [h1] using this
  · have hk_eq : k = stack.length := by simp at hk; omega
    subst hk_eq
    have h1 : (stack ++ [t])[stack.length] = t := by simp
    have h2 : (stk ++ [v])[stack.length]'hk' = v := by
      have : stack.length = stk.length := h.1.symm
      simp [this]
    rw [h2]
    simpa [h1] using hv

theorem topN_one {stk : List Val} {x : Val} (h : stk[stk.length - 1]? = some x) (hl : 1 ≤ stk.length) : topN 1 stk = [x] := by
  unfold topN
  have hi : stk.length - 1 < stk.length := by omega
  rw [List.drop_eq_getElem_cons hi]
  rw [List.getElem?_eq_getElem hi] at h
  injection h with h
  rw [h, List.drop_eq_nil_of_le (by omega)]

theorem topN_two {stk : List Val} {x y : Val} (hy : stk[stk.length - 2]? = some y) (hx : stk[stk.length - 1]? = some x)
    (hl : 2 ≤ stk.length) : topN 2 stk = [y, x] := by
  unfold topN
  have hi : stk.length - 2 < stk.length := by omega
  have hi1 : stk.length - 2 + 1 < stk.length := by omega
  rw [List.drop_eq_getElem_cons hi, List.drop_eq_getElem_cons hi1]
  rw [List.getElem?_eq_getElem hi] at hy
  have e : stk.length - 2 + 1 = stk.length - 1 := by omega
  simp only [e] at hi1 ⊢
  rw [List.getElem?_eq_getElem (by omega)] at hx
  injection hy with hy; injection hx with hx
  rw [hy, hx, List.drop_eq_nil_of_le (by omega)]

theorem topN_zero (stk : List Val) : topN 0 stk = [] := by simp [topN]

theorem take_of_take_eq {α : Type} {a b : List α} {h n : Nat} (e : a.take h = b.take h) (hn : n ≤ h) : a.take n = b.take n := by
  have := congrArg (List.take n) e
  simpa [List.take_take, Nat.min_eq_left hn] using this

theorem block_finish_gen {ctx : Ctx} {s0 sIn sB : St} {stk0 : List Val} {σ : MSt} {deadB : Bool} {r : ERes} {m : MRes} {bt lt : Option VT}
    (hw0 : WF s0) (hr0 : Rel s0.stack stk0 σ)
    (hlabs : sIn.labels = s0.labels ++ [⟨s0.next, s0.stack.length, lt⟩]) (hnext : s0.next + 1 ≤ sIn.next)
    (hbr0 : ∀ a b, r = .branch 0 a b → lt = bt)
    (hstack : sIn.stack = s0.stack) (hstat : Static sIn sB)
    (hcheck : deadB = false → sB.stack = s0.stack ++ bt.toList)
    (hsim : SimRes ctx sIn stk0 σ sB deadB r m) :
    SimRes ctx s0 stk0 σ (sB.endBlock s0.stack.length bt s0.labels) false (blockRes stk0.length bt r) (blockExec s0.next m) := by
  have hbase : sIn.base = s0.stack.length := by simp [St.base, hlabs]
  have hlen0 := hr0.length
  have hb0 := hw0.base_le_height
  have hBtake : sB.stack.take s0.stack.length = s0.stack := by
    have := hstat.take; rw [hbase, hstack] at this; simpa using this
  have hBlen : s0.stack.length ≤ sB.stack.length := by have := hstat.len; rw [hbase] at this; exact this
  have hBnext : s0.next ≤ sB.next := by have := hstat.next; omega
  have hend_stack : (sB.endBlock s0.stack.length bt s0.labels).stack = s0.stack ++ bt.toList := by simp [hBtake]
  have hwEnd : WF (sB.endBlock s0.stack.length bt s0.labels) :=
    hw0.of_same (by simp) (by simp; exact hBnext) (by rw [hend_stack]; simp; omega) (endBlock_decl _ _ _ _ hstat.wf.decl)
  have hdecl : sB.declLen ≤ (sB.endBlock s0.stack.length bt s0.labels).declLen := St.endBlock_declLen_ge _ _ _ _
  cases r with
  | oof => trivial
  | stuck => trivial
  | trap t => simp only [SimRes] at hsim; subst hsim; rfl
  | normal stk' loc' =>
    obtain ⟨h1, h2, h3, h4, h5, σ', h6, h7, h8, h9, h10⟩ := hsim
    subst h6
    rw [hbase] at h9 h10
    refine simres_normal_intro rfl hwEnd (by simp) (by simp; exact hBnext) h5 σ' rfl ?_ h8 (h9.mono hb0) (take_of_take_eq h10 hb0)
    rw [hend_stack, ← hcheck h1]; exact h7
  | ret stkB locB =>
    obtain ⟨h0, lab, σ', h1, h2, h3⟩ := hsim
    subst h2
    have hne : s0.labels ≠ [] := hw0.nonempty
    have h1' : s0.labels[0]? = some lab := by
      rw [hlabs, List.getElem?_append_left (List.length_pos_iff.mpr hne)] at h1; exact h1
    have hmem := List.mem_of_getElem? h1'
    have hfresh := hw0.fresh lab hmem
    obtain ⟨h3, h4⟩ := h3
    rw [hbase] at h3
    obtain ⟨j1, j2, j3, j4, j5⟩ := h3
    refine ⟨h0, lab, σ', h1', ?_, ⟨j1, j2, take_of_take_eq j3 hb0, j4, j5⟩, fun ht => Nat.le_trans (h4 ht) hdecl⟩
    simp only [blockExec]
    rw [if_neg (by omega)]
  | branch l stkB locB =>
    obtain ⟨h0, lab, σ', h1, h2, h3⟩ := hsim
    subst h2
    obtain ⟨h3, h4⟩ := h3
    rw [hbase] at h3
    obtain ⟨j1, j2, j3, j4, j5⟩ := h3
    cases l with
    | zero =>
      have hlt : bt = lt := (hbr0 _ _ rfl).symm
      subst hlt
      rw [label_snoc_zero hlabs] at h1
      injection h1 with h1; subst h1
      simp only [] at j2 j4 j5
      simp only [blockRes, blockExec, if_true]
      have hrel : Rel s0.stack stk0 σ' := hr0.of_slotsBelow j2
      have htk : stkB.take stk0.length = stk0 := by rw [hlen0, j3, ← hlen0]; simp
      refine simres_normal_intro rfl hwEnd (by simp) (by simp; exact hBnext) h0 σ' rfl ?_ j1 (j2.mono hb0) ?_
      · rw [hend_stack]
        cases bt with
        | none => simpa [exitBlock, topN_zero, htk] using hrel
        | some ty =>
          obtain ⟨v, hv1, hv2⟩ := j5 ty rfl
          have hne : 1 ≤ stkB.length := by
            cases stkB with
            | nil => simp at hv1
            | cons => simp
          have htop : topN 1 stkB = [v] := topN_one (by rw [← List.getLast?_eq_getElem?]; exact hv1) hne
          simp only [exitBlock, Option.toList, List.length_cons, List.length_nil, htop, htk]
          exact hrel.snoc ty v hv2
      · simp only [exitBlock]
        rw [List.take_append_of_le_length (by simp; omega), List.take_take, ← hlen0] at *
        have : stkB.take (min s0.base stk0.length) = (stkB.take stk0.length).take s0.base := by
          rw [List.take_take]
        rw [this, htk]
    | succ l =>
      rw [label_snoc_succ hlabs] at h1
      have hmem := St.label_mem h1
      have hfresh := hw0.fresh lab hmem
      refine ⟨h0, lab, σ', h1, ?_, ⟨j1, j2, take_of_take_eq j3 hb0, j4, j5⟩, fun ht => Nat.le_trans (h4 ht) hdecl⟩
      simp only [blockRes, blockExec]
      rw [if_neg (by omega)]

theorem block_finish {ctx : Ctx} {s0 sIn sB : St} {stk0 : List Val} {σ : MSt} {deadB : Bool} {r : ERes} {m : MRes} {bt : Option VT}
    (hw0 : WF s0) (hr0 : Rel s0.stack stk0 σ)
    (hlabs : sIn.labels = s0.labels ++ [⟨s0.next, s0.stack.length, bt⟩]) (hnext : s0.next + 1 ≤ sIn.next)
    (hstack : sIn.stack = s0.stack) (hstat : Static sIn sB)
    (hcheck : deadB = false → sB.stack = s0.stack ++ bt.toList)
    (hsim : SimRes ctx sIn stk0 σ sB deadB r m) :
    SimRes ctx s0 stk0 σ (sB.endBlock s0.stack.length bt s0.labels) false (blockRes stk0.length bt r) (blockExec s0.next m) :=
  block_finish_gen hw0 hr0 hlabs hnext (fun _ _ _ => rfl) hstack hstat hcheck hsim

end W2c2Verif.Sim
