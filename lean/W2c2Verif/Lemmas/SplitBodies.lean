/-
  Lemmas.SplitBodies — membership lemmas about `sortIds` / `idsOf` (Model/Split.lean) used by Props/C09Split.lean.
-/
import W2c2Verif.Lemmas.PoolSplit

namespace W2c2Verif.Model.Split

theorem mem_insertSorted (x y : FnId) : ∀ (l : List FnId), y ∈ insertSorted x l ↔ y = x ∨ y ∈ l := by
  intro l
  induction l with
  | nil => simp [insertSorted]
  | cons z zs ih =>
    unfold insertSorted
    split
    · simp
    · simp only [List.mem_cons, ih]
      constructor
      · rintro (h | h | h) <;> simp [h]
      · rintro (h | h | h) <;> simp [h]

theorem mem_sortIds (y : FnId) : ∀ (l : List FnId), y ∈ sortIds l ↔ y ∈ l := by
  intro l
  induction l with
  | nil => simp [sortIds]
  | cons x xs ih =>
    have : sortIds (x :: xs) = insertSorted x (sortIds xs) := rfl
    rw [this, mem_insertSorted, ih]
    simp

theorem mem_idsOf (y : FnId) (hashes : List Nat) (h : y ∈ idsOf hashes) : hashes[y.idx]? = some y.hash := by
  unfold idsOf at h
  rw [List.mem_iff_getElem] at h
  obtain ⟨i, hi, rfl⟩ := h
  simp only [List.length_zipWith, List.length_range] at hi
  simp [List.getElem_zipWith]

end W2c2Verif.Model.Split
