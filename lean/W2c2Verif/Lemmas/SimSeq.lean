/-
  Lemmas.SimSeq — the sequence step of the simulation proof and its helper lemmas.
-/
import W2c2Verif.Lemmas.SimDefs
set_option linter.unusedSimpArgs false
namespace W2c2Verif.Sim
open W2c2Verif Model Gen Spec

def SeqStmt (ns : NumSem) (ctx : Ctx) (f : Nat) : Prop :=
  ∀ is st st' out dead stk loc σ, compileSeq ctx st is = .ok (st', out, dead) → WF st → Rel st.stack stk σ → σ.store = loc →
    LocTyped ctx loc → SimRes ctx st stk σ st' dead (erunSeq ns f is stk loc) (execSeq ns f out σ)

def InstrStmt (ns : NumSem) (ctx : Ctx) (f : Nat) : Prop :=
  ∀ i st st' out dead stk loc σ, compileInstr ctx st i = .ok (st', out, dead) → WF st → Rel st.stack stk σ → σ.store = loc →
    LocTyped ctx loc → out.length ≤ 1 ∧ SimRes ctx st stk σ st' dead (erunInstr ns f i stk loc) (execOut ns f out σ)

theorem simres_normal_intro {ctx : Ctx} {st : St} {stk : List Val} {σ : MSt} {stOut : St} {dead : Bool} {stk' : List Val} {loc' : Store} {m : MRes}
    (h1 : dead = false) (h2 : WF stOut) (h3 : stOut.labels = st.labels) (h4 : st.next ≤ stOut.next) (h5 : LocTyped ctx loc')
    (σ' : MSt) (h6 : m = .normal σ') (h7 : Rel stOut.stack stk' σ') (h8 : σ'.store = loc') (h9 : SlotsBelow st.base σ σ')
    (h10 : stk'.take st.base = stk.take st.base) : SimRes ctx st stk σ stOut dead (.normal stk' loc') m :=
  ⟨h1, h2, h3, h4, h5, σ', h6, h7, h8, h9, h10⟩

/-- `SimRes` only pins the target result by equations with finished results: more fuel keeps it -/
theorem simres_exec_mono {ns : NumSem} {ctx : Ctx} {st : St} {stk : List Val} {σ : MSt} {stOut : St} {dead : Bool} {r : ERes}
    {f : Nat} {out : List MStmtC} {σ0 : MSt}
    (h : SimRes ctx st stk σ stOut dead r (execSeq ns f out σ0)) : SimRes ctx st stk σ stOut dead r (execSeq ns (f + 1) out σ0) := by
  have mono := (exec_mono ns f).1 out σ0
  cases r with
  | oof => trivial
  | stuck => trivial
  | trap t => exact mono _ h (by simp)
  | normal stk' loc' =>
    obtain ⟨h1, h2, h3, h4, h5, σ', h6, h7⟩ := h
    exact ⟨h1, h2, h3, h4, h5, σ', mono _ h6 (by simp), h7⟩
  | branch l stkB locB =>
    obtain ⟨h0, lab, σ', h1, h2, h3⟩ := h
    exact ⟨h0, lab, σ', h1, mono _ h2 (by simp), h3⟩
  | ret stkB locB =>
    obtain ⟨h0, lab, σ', h1, h2, h3⟩ := h
    exact ⟨h0, lab, σ', h1, mono _ h2 (by simp), h3⟩

theorem base_eq_of_labels {s1 s2 : St} (h : s1.labels = s2.labels) : s1.base = s2.base := by simp [St.base, h]
theorem label_eq_of_labels {s1 s2 : St} (h : s1.labels = s2.labels) (l : Nat) : s1.label l = s2.label l := by simp [St.label, h]

theorem JumpOK.rebase {lab : Label} {base : Nat} {stk stk1 stkB : List Val} {locB : Store} {σ σ1 σ' : MSt}
    (h : JumpOK lab base stk1 stkB locB σ1 σ') (hb : SlotsBelow base σ σ1) (ht : stk1.take base = stk.take base)
    (hle : lab.height ≤ base) : JumpOK lab base stk stkB locB σ σ' := by
  obtain ⟨h1, h2, h3, h4, h5⟩ := h
  exact ⟨h1, (hb.mono hle).trans h2, h3.trans ht, h4, h5⟩

/-- a result obtained from the state after a prefix of the sequence, seen from the start of the sequence -/
theorem simres_rebase {ctx : Ctx} {st s1 : St} {stk stk1 : List Val} {σ σ1 : MSt} {stOut : St} {dead : Bool} {r : ERes} {m : MRes}
    (hw : WF st) (hlab : s1.labels = st.labels) (hn : st.next ≤ s1.next) (hb : SlotsBelow st.base σ σ1)
    (ht : stk1.take st.base = stk.take st.base)
    (h : SimRes ctx s1 stk1 σ1 stOut dead r m) : SimRes ctx st stk σ stOut dead r m := by
  have hbase := base_eq_of_labels hlab
  cases r with
  | oof => trivial
  | stuck => trivial
  | trap t => exact h
  | normal stk' loc' =>
    obtain ⟨h1, h2, h3, h4, h5, σ', h6, h7, h8, h9, h10⟩ := h
    rw [hbase] at h9 h10
    exact ⟨h1, h2, h3.trans hlab, Nat.le_trans hn h4, h5, σ', h6, h7, h8, hb.trans h9, h10.trans ht⟩
  | branch l stkB locB =>
    obtain ⟨h0, lab, σ', h1, h2, h34⟩ := h
    have h3 := h34.1
    have h4 := h34.2
    rw [label_eq_of_labels hlab] at h1
    rw [hbase] at h3
    exact ⟨h0, lab, σ', h1, h2, h3.rebase hb ht (hw.height_le_base (St.label_mem h1)), h4⟩
  | ret stkB locB =>
    obtain ⟨h0, lab, σ', h1, h2, h34⟩ := h
    have h3 := h34.1
    have h4 := h34.2
    rw [hlab] at h1
    rw [hbase] at h3
    exact ⟨h0, lab, σ', h1, h2, h3.rebase hb ht (hw.height_le_base (List.mem_of_getElem? h1)), h4⟩

/-- a non-normal finished result of the first statement is the result of the whole list -/
theorem execSeq_of_execOut {ns : NumSem} {f : Nat} {out1 out2 : List MStmtC} {σ : MSt} {m : MRes}
    (hlen : out1.length ≤ 1) (h : execOut ns f out1 σ = m) (hn : ∀ σ', m ≠ .normal σ') :
    execSeq ns (f + 1) (out1 ++ out2) σ = m := by
  match out1, hlen with
  | [], _ => simp only [execOut] at h; exact absurd h.symm (hn σ)
  | [s], _ =>
    simp only [execOut] at h
    simp only [List.cons_append, List.nil_append]
    rw [execSeq, h]
    cases m with
    | normal σ' => exact absurd rfl (hn σ')
    | _ => rfl

end W2c2Verif.Sim
