import W2c2Verif.Lemmas.FutexInvC

/-!
  Lemmas.FutexLive — enabledness facts for the deadlock-freedom theorem: every program counter
  other than `idle` (empty program), the two lock acquisitions, `wParked` and `crashed` always has a
  `run` successor.
-/
namespace W2c2Verif.Futex
open W2c2Verif.Threads

/-- pcs whose statement can always execute -/
def PC.alwaysEnabled : PC → Bool
  | .idle | .wLock | .nLock | .wParked | .crashed _ => false
  | _ => true

theorem Parked.signal_ne_nil {C : Type} [DecidableEq C] (ps : Parked C) (c : C) : ps.signal c ≠ [] := by
  unfold Parked.signal
  split
  · simp
  · rename_i ws hne
    intro h
    have := List.map_eq_nil_iff.mp h
    exact hne this

/-- a `run` successor exists -/
def CanRun (B : Nat) (g : G) (l : L) : Prop := ∃ g' l', (Label.run, g', l') ∈ stepL B g l

theorem run1_exists (g : G) (l : L) : ∃ g' l', (Label.run, g', l') ∈ run1 g l := ⟨g, l, by simp [run1]⟩
theorem crash_exists (g : G) (l : L) (k : Crash) : ∃ g' l', (Label.run, g', l') ∈ crash g l k :=
  ⟨g, { l with pc := .crashed k }, by simp [crash]⟩

theorem canRun_of_alwaysEnabled (B : Nat) (g : G) (l : L) (h : l.pc.alwaysEnabled = true) : CanRun B g l := by
  unfold CanRun stepL
  cases hpc : l.pc <;> simp [hpc, PC.alwaysEnabled] at h ⊢
  all_goals (try dsimp only)
  all_goals (repeat' split)
  all_goals (first
    | exact run1_exists _ _
    | exact crash_exists _ _ _
    | skip)
  -- nSignal: one successor per outcome of the signal
  rename_i w rest hc hl
  obtain ⟨ps, hps⟩ := List.exists_mem_of_ne_nil _ (Parked.signal_ne_nil g.parked w)
  exact ⟨_, _, List.mem_map.mpr ⟨ps, hps, rfl⟩⟩

theorem canRun_idle (B : Nat) (g : G) (l : L) (hpc : l.pc = .idle) (hp : l.prog ≠ []) : CanRun B g l := by
  unfold CanRun stepL
  simp only [hpc]
  cases hprog : l.prog with
  | nil => exact absurd hprog hp
  | cons op rest => exact ⟨g, l.start op rest, by simp [run1]⟩

theorem canRun_lock (B : Nat) (g : G) (l : L) (hpc : l.pc = .wLock ∨ l.pc = .nLock) (hm : g.mutex = none) :
    CanRun B g l := by
  unfold CanRun stepL
  rcases hpc with hpc | hpc <;> simp [hpc, hm, Mutex.lock?, run1]

theorem canRun_reacquire (B : Nat) (g : G) (l : L) (hpc : l.pc = .wParked) (hp : (l.tid, l.wait) ∉ g.parked)
    (hm : g.mutex = none) : CanRun B g l := by
  unfold CanRun stepL
  simp [hpc, hp, hm, Mutex.lock?, run1]

theorem timeout_enabled (B : Nat) (g : G) (l : L) (hpc : l.pc = .wParked) (hp : (l.tid, l.wait) ∈ g.parked)
    (ht : 0 ≤ l.timeout) : ∃ g' l', (Label.timeout, g', l') ∈ stepL B g l := by
  unfold stepL
  simp [hpc, hp, ht]

theorem PC.alwaysEnabled_of_holds {p : PC} (h : p.holds = true) : p.alwaysEnabled = true := by
  cases p <;> simp_all [PC.alwaysEnabled]

end W2c2Verif.Futex
