import W2c2Verif.Lemmas.FutexInv

/-!
  Lemmas.FutexInvA — under the invariant no statement of futex.c dereferences a dead object,
  misuses a pthread object or fails its assertion (`CrashCond` is refuted).
-/
namespace W2c2Verif.Futex
open W2c2Verif.Threads

theorem InvA.mutex_held {B : Nat} {c : Cfg G L} (hinv : InvA B c) {t : Tid}
    (h : (c.locals t).pc.holds = true) : c.g.mutex = some (c.locals t).tid := by
  rw [hinv.tid_eq t]; exact (hinv.mutex_iff t).mpr h

theorem InvA.cursor_live {B : Nat} {c : Cfg G L} (hinv : InvA B c) {t : Tid} {w : Id} {rest : List Id}
    (hpc : (c.locals t).pc = .nLoop ∨ (c.locals t).pc = .nSignal) (hc : (c.locals t).cursor = w :: rest) :
    (c.g.waits w).live = true := by
  have hs : (c.locals t).pc.hasSlot = true := by rcases hpc with h | h <;> simp [h]
  obtain ⟨n, hsl, hl, -⟩ := hinv.slot_ok t hs
  have hsuf := hinv.cursor_ok t n hpc hsl
  have hw : w ∈ (c.g.nodes n).waits := hsuf.subset (by rw [hc]; exact List.mem_cons_self ..)
  exact (hinv.list_ok n w hl hw).1

theorem InvA.not_crashCond {B : Nat} {c : Cfg G L} (hinv : InvA B c) (t : Tid) (k : Crash) :
    ¬ CrashCond B c.g (c.locals t) k := by
  intro hc
  unfold CrashCond at hc
  split at hc
  · rename_i hpc; exact hc.2 (hinv.mutex_held (by simp [hpc]))
  · rename_i hpc; exact hc.2 (hinv.mutex_held (by simp [hpc]))
  · rename_i hpc; exact hc.2 (hinv.mutex_held (by simp [hpc]))
  · -- wMapGet
    unfold mapGet at hc
    split at hc
    · simp at hc
    · obtain ⟨r, hr⟩ := chainFind_ok_of_live c.g.nodes (c.locals t).addr (c.g.buckets ((c.locals t).addr % B))
        (fun n hn => (hinv.chain_ok _ n hn).1)
      rw [hr] at hc; simp at hc
  · -- nMapGet
    unfold mapGet at hc
    split at hc
    · simp at hc
    · obtain ⟨r, hr⟩ := chainFind_ok_of_live c.g.nodes (c.locals t).addr (c.g.buckets ((c.locals t).addr % B))
        (fun n hn => (hinv.chain_ok _ n hn).1)
      rw [hr] at hc; simp at hc
  · -- wMapInsert
    obtain ⟨-, hc⟩ := hc
    obtain ⟨n, hn, hd⟩ := (allLiveN_eq_false _ _).mp hc
    have := (hinv.chain_ok _ n (List.mem_of_mem_take hn)).1
    simp [this] at hd
  · -- wPrepend
    rename_i hpc
    obtain ⟨n, hsl, hl, -⟩ := hinv.slot_ok t (by simp [hpc])
    obtain ⟨-, hwl, -⟩ := hinv.wait_live t (by simp [hpc])
    rcases hc with ⟨-, h⟩ | ⟨-, m, hm, h⟩
    · simp [hsl] at h
    · rw [hsl] at hm; cases hm
      rcases h with h | h | h
      · simp [hl] at h
      · simp [hwl] at h
      · obtain ⟨w, hw, hd⟩ := (allLiveW_eq_false _ _).mp h
        have := (hinv.list_ok n w hl (List.mem_of_mem_take hw)).1
        simp [this] at hd
  · -- wCondWait
    rename_i hpc
    obtain ⟨-, hwl, -⟩ := hinv.wait_live t (by simp [hpc])
    rcases hc with ⟨-, h⟩ | ⟨-, h⟩
    · simp [hwl] at h
    · exact h (hinv.mutex_held (by simp [hpc]))
  · -- wCheck
    rename_i hpc
    obtain ⟨-, hwl, -⟩ := hinv.wait_live t (by simp [hpc])
    simp [hwl] at hc
  · -- wIsTimeout
    rename_i hpc
    obtain ⟨-, hwl, -⟩ := hinv.wait_live t (by simp [hpc])
    simp [hwl] at hc
  · -- wRemove
    rename_i hpc
    obtain ⟨n, hsl, hl, -⟩ := hinv.slot_ok t (by simp [hpc])
    obtain ⟨-, hwl, -⟩ := hinv.wait_live t (by simp [hpc])
    rcases hc with ⟨-, h⟩ | ⟨-, m, hm, h⟩
    · simp [hsl] at h
    · rw [hsl] at hm; cases hm
      rcases h with h | h | h
      · simp [hl] at h
      · simp [hwl] at h
      · obtain ⟨w, hw, hd⟩ := (allLiveW_eq_false _ _).mp h
        have := (hinv.list_ok n w hl hw).1
        simp [this] at hd
  · -- wMapRemove
    rename_i hpc
    obtain ⟨n, hsl, hl, hkey⟩ := hinv.slot_ok t (by simp [hpc])
    rcases hc with ⟨-, h⟩ | ⟨m, hm, h⟩
    · simp [hsl] at h
    · rw [hsl] at hm; cases hm
      rcases h with ⟨-, h⟩ | ⟨he, h⟩
      · simp [hl] at h
      · have hlive : ∀ x ∈ c.g.buckets ((c.locals t).addr % B), (c.g.nodes x).live = true :=
          fun x hx => (hinv.chain_ok _ x hx).1
        rcases h with h | ⟨m, hf, h⟩
        · obtain ⟨r, hr⟩ := chainFind_ok_of_live c.g.nodes (c.locals t).addr _ hlive
          rw [hr] at h; simp at h
        · rcases h with ⟨-, h⟩ | ⟨-, h⟩
          · obtain ⟨x, hx, hd⟩ := (allLiveN_eq_false _ _).mp h
            simp [hlive x hx] at hd
          · obtain ⟨hmem, hmk, -⟩ := chainFind_some _ _ _ _ hf
            have hn := hinv.live_chain n hl
            rw [hkey] at hn
            have : n = m := hinv.chain_keys _ n m hn hmem (by rw [hkey, hmk])
            subst this
            exact h he
  · -- wFree
    rename_i hpc
    obtain ⟨hw, hwl, -⟩ := hinv.wait_live t (by simp [hpc])
    rcases hc with ⟨-, h⟩ | ⟨-, h⟩
    · simp [hwl] at h
    · simp only [List.any_eq_true, decide_eq_true_eq] at h
      obtain ⟨⟨u, w⟩, hp, hpw⟩ := h
      simp only at hpw
      obtain ⟨hupc, huw⟩ := hinv.parked_ok u w hp
      obtain ⟨huw', -, -⟩ := hinv.wait_live u (by simp [hupc])
      have : u = t := by
        have h1 : (c.locals u).wait = (c.locals t).wait := by rw [huw, hpw]
        rw [huw', hw] at h1
        exact (Prod.mk.inj h1).1
      subst this
      rw [hpc] at hupc; cases hupc
  · -- nHead
    rename_i hpc
    obtain ⟨n, hsl, hl, -⟩ := hinv.slot_ok t (by simp [hpc])
    rcases hc with ⟨-, h⟩ | ⟨-, m, hm, h⟩
    · simp [hsl] at h
    · rw [hsl] at hm; cases hm
      simp [hl] at h
  · -- nLoop
    rename_i hpc
    obtain ⟨-, w, rest, hcur, -, hd⟩ := hc
    have := hinv.cursor_live (Or.inl hpc) hcur
    simp [this] at hd
  · -- nSignal
    rename_i hpc
    rcases hc with ⟨-, h⟩ | ⟨-, w, rest, hcur, hd⟩
    · exact hinv.signal_cursor t hpc h
    · have := hinv.cursor_live (Or.inr hpc) hcur
      simp [this] at hd
  · exact hc

end W2c2Verif.Futex
