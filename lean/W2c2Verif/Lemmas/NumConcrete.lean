/-
  Lemmas.NumConcrete — the numeric hypotheses of the simulation discharged for the concrete semantics:
  `NumOK specNS`, `macroNum` refines `specNum`, and the module-level transfer from "emitted C over the
  specification's numeric functions" to "emitted C over the C semantics of the regenerated header macros".
-/
import W2c2Verif.Lemmas.NumLink
import W2c2Verif.Lemmas.SimModule

namespace W2c2Verif.Sim
open W2c2Verif Model Gen Spec

theorem lookupAssoc_pair_mem {α : Type} (tab : List (String × α)) (k : String) (v : α) (h : lookupAssoc tab k = some v) :
    (k, v) ∈ tab := by
  induction tab with
  | nil => simp [lookupAssoc] at h
  | cons x xs ih =>
    obtain ⟨k0, v0⟩ := x
    simp only [lookupAssoc] at h
    by_cases e : k0 = k
    · simp only [e, if_true, Option.some.injEq] at h; subst h; subst e; exact List.mem_cons_self
    · simp only [e, if_false] at h; exact List.mem_cons_of_mem _ (ih h)

/-- the emitted statement of every numeric opcode computes what the specification prescribes, wherever that is a
    value or a trap (operands of the instruction's type: everything validation admits) -/
theorem macroNum_refines_specNum (opcode : String) (args : List Val) (hd : Out.Defined (specNum opcode args)) :
    macroNum opcode args = specNum opcode args := by
  unfold specNum at hd ⊢
  cases hl : lookupAssoc sigTable opcode with
  | none => rw [hl] at hd; exact absurd hd (by simp [Out.Defined])
  | some e =>
    obtain ⟨mn, tys, rt⟩ := e
    rw [hl] at hd
    simp only at hd ⊢
    by_cases ht : args.map vtOf = tys
    · simp only [ht, if_true] at hd ⊢
      exact all_linked _ (lookupAssoc_pair_mem _ _ _ hl) args ht hd
    · simp only [ht, if_false] at hd; exact absurd hd (by simp [Out.Defined])

theorem numOK_spec : NumOK specNS := by
  refine ⟨fun opcode k h => by simp [specNS, numArity, h], ?_⟩
  intro opcode k args v hk hs a ha
  simp only [specNS, specNum] at hs
  cases hl : lookupAssoc sigTable opcode with
  | none => rw [hl] at hs; cases hs
  | some e =>
    obtain ⟨mn, tys, rt⟩ := e
    rw [hl] at hs
    simp only at hs
    by_cases ht : args.map vtOf = tys
    · simp only [ht, if_true] at hs
      obtain ⟨h1, ⟨t1, hh, hr⟩, _⟩ := all_typed _ (lookupAssoc_pair_mem _ _ _ hl)
      simp only at h1 hh hr
      rw [h1 args v ht hs]
      rw [hk] at hr
      simp only [Option.map_some, Option.some.injEq] at hr
      rw [← hr]
      congr 1
      cases args with
      | nil => simp at ha
      | cons a0 rest =>
        simp only [List.head?_cons, Option.some.injEq] at ha; subst ha
        rw [← ht] at hh
        simpa using hh.symm
    · simp only [ht, if_false] at hs; cases hs

theorem numOK_spec_mem (grow : Mem → Nat → Mem × BitVec 32) (datas : List (List UInt8) := []) : NumOK (withConcMem specNS grow datas) :=
  ⟨numOK_spec.arity, numOK_spec.typed⟩

/-! ## module level: the emitted-C side alone, over the macro semantics -/

/-- the emitted C functions of a module, calls resolved one level down — emitted-C side only -/
def MModule.runT (m : MModule) (ns0 : NumSem) (cfs : List Model.CFunc) : Nat → Nat → List Val → GS → Out (Option Val × GS)
  | 0 => fun _ _ _ => .oof
  | n + 1 =>
    let prev := MModule.runT m ns0 cfs n
    let env := m.env ns0 prev prev
    fun fn args g =>
      if fn < m.imports.length then m.host fn args g else
      match cfs[fn - m.imports.length]? with
      | none => .ub .outOfBounds
      | some cf => if args.map vtOf = cf.paramTypes then (runFuncTgt env (n + 1) cf args g).toOut else .ub .typeError

/-- what two base semantics must share for the transfer: `B` computes every numeric instruction as `A` does
    wherever `A` is defined; memory accesses and grow are the same functions -/
structure BaseRef (A B : NumSem) : Prop where
  sem : ∀ op args, Out.Defined (A.sem op args) → B.sem op args = A.sem op args
  load : B.loadT = A.loadT
  store : B.storeT = A.storeT
  grow : B.grow = A.grow
  bulk : B.bulkT = A.bulkT
  rmw : B.rmwT = A.rmwT

theorem indirect_noub (m : MModule) (cA cB : Nat → List Val → GS → Out (Option Val × GS))
    (h : ∀ fn args g, Out.NoUB (cA fn args g) → cB fn args g = cA fn args g) (ty i : Nat) (args : List Val) (g : GS)
    (hn : Out.NoUB (m.indirect cA ty i args g)) : m.indirect cB ty i args g = m.indirect cA ty i args g := by
  unfold MModule.indirect at hn ⊢
  cases ht : m.table[i]? with
  | none => rfl
  | some e =>
    cases e with
    | none => rfl
    | some fn =>
      rw [ht] at hn
      simp only at hn ⊢
      by_cases hty : m.funcType fn = m.types[ty]?
      · simp only [hty, if_true] at hn ⊢; exact h fn args g hn
      · simp only [hty, if_false]

theorem runT_eq (m : MModule) (A B : NumSem) (hab : BaseRef A B) (cfs : List Model.CFunc) :
    ∀ n fn args g, Out.NoUB ((m.run A cfs n).2 fn args g) → m.runT B cfs n fn args g = (m.run A cfs n).2 fn args g := by
  intro n
  induction n with
  | zero => intro fn args g _; rfl
  | succ n ih =>
    intro fn args g hn
    simp only [MModule.run, MModule.runT] at hn ⊢
    by_cases hi : fn < m.imports.length
    · simp only [hi, if_true]
    · simp only [hi, if_false] at hn ⊢
      cases hcf : cfs[fn - m.imports.length]? with
      | none => rfl
      | some cf =>
        rw [hcf] at hn
        simp only at hn ⊢
        by_cases hty : args.map vtOf = cf.paramTypes
        · simp only [hty, if_true] at hn ⊢
          have href : ExecRef (m.env A (m.run A cfs n).1 (m.run A cfs n).2) (m.env B (m.runT B cfs n) (m.runT B cfs n)) :=
            ⟨hab.sem, fun fn args g h => ih fn args g h,
             fun ty i args g h => indirect_noub m _ _ ih ty i args g h,
             fun fn mm ea _ => by show B.loadT fn mm ea = A.loadT fn mm ea; rw [hab.load],
             fun fn mm ea v _ => by show B.storeT fn mm ea v = A.storeT fn mm ea v; rw [hab.store],
             hab.grow,
             fun op mm a b c _ => by show B.bulkT op mm a b c = A.bulkT op mm a b c; rw [hab.bulk],
             fun fn mm ea args _ => by show B.rmwT fn mm ea args = A.rmwT fn mm ea args; rw [hab.rmw]⟩
          rw [runFuncTgt_refine _ _ href]
          intro hs; rw [hs] at hn; exact hn
        · simp only [hty, if_false]

theorem baseRef_macro (grow : Mem → Nat → Mem × BitVec 32) (datas : List (List UInt8) := []) : BaseRef (withConcMem specNS grow datas) (withConcMem macroNS grow datas) :=
  ⟨macroNum_refines_specNum, rfl, rfl, rfl, rfl, rfl⟩

end W2c2Verif.Sim
