import W2c2Verif.Lemmas.FutexInv2

/-!
  Lemmas.FutexInvC — preservation of `InvB` (given `InvA`), field by field.
-/
namespace W2c2Verif.Futex
open W2c2Verif.Threads
set_option linter.unusedSimpArgs false
variable {B : Nat} {c : Cfg G L} {t : Tid} {g' : G} {l' : L}

macro "step_simp" : tactic =>
  `(tactic| simp only [Cfg.set_g, Cfg.set_locals, upd_apply, L.ret, L.start, ↓reduceIte])

theorem cur_wait_step (ha : InvA B c) (hb : InvB B c) (hs : (g', l') ∈ (sys B).step c.g (c.locals t)) :
    ∀ u, ((c.set t g' l').locals u).pc.inWait = true →
      ((c.set t g' l').locals u).cur = .wait ((c.set t g' l').locals u).w64 ((c.set t g' l').locals u).addr
        ((c.set t g' l').locals u).expect ((c.set t g' l').locals u).timeout := by
  intro u
  have h0 := hb.cur_wait u
  have hst := step_inv hs
  clear hs
  by_cases hut : u = t
  · subst hut
    cases hst <;> no_crash_case ha
    case idle op rest hpc hp => cases op <;> (step_simp; grind)
    all_goals (step_simp; grind)
  · step_simp; grind

theorem cur_notify_step (ha : InvA B c) (hb : InvB B c) (hs : (g', l') ∈ (sys B).step c.g (c.locals t)) :
    ∀ u, ((c.set t g' l').locals u).pc.inNotify = true →
      ((c.set t g' l').locals u).cur = .notify ((c.set t g' l').locals u).addr ((c.set t g' l').locals u).count := by
  intro u
  have h0 := hb.cur_notify u
  have hst := step_inv hs
  clear hs
  by_cases hut : u = t
  · subst hut
    cases hst <;> no_crash_case ha
    case idle op rest hpc hp => cases op <;> (step_simp; grind)
    all_goals (step_simp; grind)
  · step_simp; grind

theorem done_len_step (ha : InvA B c) (hb : InvB B c) (hs : (g', l') ∈ (sys B).step c.g (c.locals t)) :
    ∀ u, ((c.set t g' l').locals u).done.length = ((c.set t g' l').locals u).serial := by
  intro u
  have h0 := hb.done_len u
  have hst := step_inv hs
  clear hs
  by_cases hut : u = t
  · subst hut
    cases hst <;> no_crash_case ha
    case idle op rest hpc hp => cases op <;> (step_simp; grind)
    all_goals (step_simp; grind)
  · step_simp; grind

theorem loaded_ne_step (ha : InvA B c) (hb : InvB B c) (hs : (g', l') ∈ (sys B).step c.g (c.locals t)) :
    ∀ u, ((c.set t g' l').locals u).pc = .wUnlockNe →
      ((c.set t g' l').locals u).loaded ≠ expected ((c.set t g' l').locals u).w64 ((c.set t g' l').locals u).expect := by
  intro u
  have h0 := hb.loaded_ne u
  have hst := step_inv hs
  clear hs
  by_cases hut : u = t
  · subst hut
    cases hst <;> no_crash_case ha
    case idle op rest hpc hp => cases op <;> (step_simp; grind)
    all_goals (step_simp; grind)
  · step_simp; grind

theorem loaded_eq_step (ha : InvA B c) (hb : InvB B c) (hs : (g', l') ∈ (sys B).step c.g (c.locals t)) :
    ∀ u, ((c.set t g' l').locals u).pc.afterCompare = true →
      ((c.set t g' l').locals u).loaded = expected ((c.set t g' l').locals u).w64 ((c.set t g' l').locals u).expect := by
  intro u
  have h0 := hb.loaded_eq u
  have hst := step_inv hs
  clear hs
  by_cases hut : u = t
  · subst hut
    cases hst <;> no_crash_case ha
    case idle op rest hpc hp => cases op <;> (step_simp; grind)
    all_goals (step_simp; grind)
  · step_simp; grind

theorem timed_flag_step (ha : InvA B c) (hb : InvB B c) (hs : (g', l') ∈ (sys B).step c.g (c.locals t)) :
    ∀ u, ((c.set t g' l').locals u).pc.inWait = true → ((c.set t g' l').locals u).timedOut = true →
      0 ≤ ((c.set t g' l').locals u).timeout := by
  intro u
  have h0 := hb.timed_flag u
  have hst := step_inv hs
  clear hs
  by_cases hut : u = t
  · subst hut
    cases hst <;> no_crash_case ha
    case idle op rest hpc hp => cases op <;> (step_simp; grind)
    all_goals (step_simp; grind)
  · step_simp; grind
theorem marks_nodup_step (ha : InvA B c) (hb : InvB B c) (hs : (g', l') ∈ (sys B).step c.g (c.locals t)) :
    ((c.set t g' l').g.marks.map (·.wait)).Nodup := by
  have h0 := hb.marks_nodup
  have hst := step_inv hs
  clear hs
  cases hst <;> no_crash_case ha
  case nLoopMark w rest hpc hc hn hw hst' =>
    have hni := hb.notified_iff w
    step_simp
    simp only [List.map_append, List.map_cons, List.map_nil]
    rw [List.nodup_append]
    refine ⟨h0, by simp, ?_⟩
    intro a ha' b hb'
    simp only [List.mem_singleton] at hb'
    subst hb'
    rintro rfl
    have := hni.mpr ha'
    rw [hst'] at this
    cases this
  all_goals (step_simp; exact h0)

theorem notified_iff_step (ha : InvA B c) (hb : InvB B c) (hs : (g', l') ∈ (sys B).step c.g (c.locals t)) :
    ∀ w, ((c.set t g' l').g.waits w).status = .notified ↔ w ∈ (c.set t g' l').g.marks.map (·.wait) := by
  intro w
  have h0 := hb.notified_iff w
  have hst := step_inv hs
  clear hs
  cases hst <;> no_crash_case ha
  case wAlloc hpc =>
    have hma := hb.mark_alloc
    have htid := ha.tid_eq t
    step_simp
    split
    · subst_vars
      simp only [reduceCtorEq, false_iff, List.mem_map, not_exists, not_and]
      intro m hm hmw
      have := hma m hm
      rw [hmw] at this
      simp [htid, hpc] at this
    · exact h0
  case nLoopMark w' rest hpc hc hn hw hst' =>
    step_simp
    simp only [List.map_append, List.map_cons, List.map_nil, List.mem_append, List.mem_singleton]
    grind
  all_goals (step_simp; grind)

theorem PC.afterAlloc_of_enq {p : PC} (h : p.enq = true) : p.afterAlloc = true := by cases p <;> simp_all
theorem PC.afterAlloc_of_hasWait {p : PC} (h : p.hasWait = true) : p.afterAlloc = true := by cases p <;> simp_all

theorem mark_alloc_step (ha : InvA B c) (hb : InvB B c) (hs : (g', l') ∈ (sys B).step c.g (c.locals t)) :
    ∀ m ∈ (c.set t g' l').g.marks, m.wait.2 < ((c.set t g' l').locals m.wait.1).serial ∨
      (m.wait.2 = ((c.set t g' l').locals m.wait.1).serial ∧ ((c.set t g' l').locals m.wait.1).pc.afterAlloc = true) := by
  rintro ⟨mt, ms, ma, ⟨a, k⟩⟩
  have h0 := hb.mark_alloc ⟨mt, ms, ma, (a, k)⟩
  simp only at h0
  have hst := step_inv hs
  clear hs
  by_cases hut : a = t
  · subst hut
    cases hst <;> no_crash_case ha
    case idle op rest hpc hp => cases op <;> (step_simp; grind)
    case nLoopMark w' rest hpc hc hn hw hst' =>
      have hlw := ha.live_wait w' hw
      have hwl := ha.wait_live w'.1 hlw.1
      have := @PC.afterAlloc_of_hasWait (c.locals w'.1).pc
      step_simp
      simp only [List.mem_append, List.mem_singleton, Mark.mk.injEq]
      grind
    all_goals (step_simp; grind)
  · cases hst <;> no_crash_case ha
    case nLoopMark w' rest hpc hc hn hw hst' =>
      have hlw := ha.live_wait w' hw
      have hwl := ha.wait_live w'.1 hlw.1
      have := @PC.afterAlloc_of_hasWait (c.locals w'.1).pc
      step_simp
      simp only [List.mem_append, List.mem_singleton, Mark.mk.injEq]
      grind
    all_goals (step_simp; grind)

theorem mark_addr_step (ha : InvA B c) (hb : InvB B c) (hs : (g', l') ∈ (sys B).step c.g (c.locals t)) :
    ∀ m ∈ (c.set t g' l').g.marks, ((c.set t g' l').g.waits m.wait).addr = m.addr := by
  rintro ⟨mt, ms, ma, ⟨a, k⟩⟩
  have h0 := hb.mark_addr ⟨mt, ms, ma, (a, k)⟩
  have h1 := hb.mark_alloc ⟨mt, ms, ma, (a, k)⟩
  simp only at h0 h1
  have htid := ha.tid_eq t
  have hst := step_inv hs
  clear hs
  cases hst <;> no_crash_case ha
  case nLoopMark w' rest hpc hc hn hw hst' =>
    -- the marked wait is in the list of the node keyed by the notifier's address
    obtain ⟨n, hsl, hnl, hnk⟩ := ha.slot_ok t (by simp [hpc])
    have hsuf := ha.cursor_ok t n (Or.inl hpc) hsl
    have hmem : w' ∈ (c.g.nodes n).waits := hsuf.subset (by rw [hc]; exact List.mem_cons_self ..)
    obtain ⟨hwl, henq, hslw⟩ := ha.list_ok n w' hnl hmem
    have hlw := ha.live_wait w' hwl
    have hwl' := ha.wait_live w'.1 hlw.1
    obtain ⟨n2, hs2, hl2, hk2⟩ := ha.slot_ok w'.1 (PC.hasSlot_of_enq henq)
    step_simp
    simp only [List.mem_append, List.mem_singleton, Mark.mk.injEq]
    grind
  all_goals (step_simp; grind)

theorem mark_by_step (ha : InvA B c) (hb : InvB B c) (hs : (g', l') ∈ (sys B).step c.g (c.locals t)) :
    ∀ m ∈ (c.set t g' l').g.marks, m.serial < ((c.set t g' l').locals m.tid).serial ∨
      (m.serial = ((c.set t g' l').locals m.tid).serial ∧ ((c.set t g' l').locals m.tid).pc.inLoop = true ∧
        m.addr = ((c.set t g' l').locals m.tid).addr) := by
  rintro ⟨mt, ms, ma, mw⟩
  have h0 := hb.mark_by ⟨mt, ms, ma, mw⟩
  simp only at h0
  have htid := ha.tid_eq t
  have hst := step_inv hs
  clear hs
  by_cases hut : mt = t
  · subst hut
    cases hst <;> no_crash_case ha
    case idle op rest hpc hp => cases op <;> (step_simp; grind)
    case nLoopMark w' rest hpc hc hn hw hst' =>
      step_simp
      simp only [List.mem_append, List.mem_singleton, Mark.mk.injEq]
      grind
    all_goals (step_simp; grind)
  · cases hst <;> no_crash_case ha
    case nLoopMark w' rest hpc hc hn hw hst' =>
      step_simp
      simp only [List.mem_append, List.mem_singleton, Mark.mk.injEq]
      grind
    all_goals (step_simp; grind)

theorem marksOf_empty_of_not_inLoop (hb : InvB B c) (t : Tid) (h : (c.locals t).pc.inLoop = false) :
    marksOf c.g t (c.locals t).serial = [] := by
  unfold marksOf
  rw [List.filter_eq_nil_iff]
  intro m hm
  have := hb.mark_by m hm
  simp only [decide_eq_true_eq]
  rintro ⟨rfl, h2⟩
  grind

theorem count_notify_step (ha : InvA B c) (hb : InvB B c) (hs : (g', l') ∈ (sys B).step c.g (c.locals t)) :
    ∀ u, ((c.set t g' l').locals u).pc.inNotify = true →
      (marksOf (c.set t g' l').g u ((c.set t g' l').locals u).serial).length =
        ((c.set t g' l').locals u).notified + (if ((c.set t g' l').locals u).pc = .nSignal then 1 else 0) := by
  intro u
  have h0 := hb.count_notify u
  have htid := ha.tid_eq t
  have hst := step_inv hs
  clear hs
  unfold marksOf at *
  by_cases hut : u = t
  · subst hut
    cases hst <;> no_crash_case ha
    case idle op rest hpc hp =>
      have := marksOf_empty_of_not_inLoop hb u (by simp [hpc])
      unfold marksOf at this
      cases op <;> (step_simp; grind)
    case nLoopMark w' rest hpc hc hn hw hst' =>
      step_simp
      simp only [List.filter_append, List.filter_cons, List.filter_nil, List.length_append]
      grind
    all_goals (step_simp; grind)
  · cases hst <;> no_crash_case ha
    case nLoopMark w' rest hpc hc hn hw hst' =>
      step_simp
      simp only [List.filter_append, List.filter_cons, List.filter_nil, List.length_append]
      grind
    all_goals (step_simp; grind)

theorem count_le_step (ha : InvA B c) (hb : InvB B c) (hs : (g', l') ∈ (sys B).step c.g (c.locals t)) :
    ∀ u, ((c.set t g' l').locals u).pc.inNotify = true →
      ((c.set t g' l').locals u).notified + (if ((c.set t g' l').locals u).pc = .nSignal then 1 else 0) ≤
        ((c.set t g' l').locals u).count := by
  intro u
  have h0 := hb.count_le u
  have hst := step_inv hs
  clear hs
  by_cases hut : u = t
  · subst hut
    cases hst <;> no_crash_case ha
    case idle op rest hpc hp => cases op <;> (step_simp; grind)
    all_goals (step_simp; grind)
  · step_simp; grind

theorem getElem?_snoc {α : Type} (l : List α) (d x : α) (k : Nat) :
    (l ++ [d])[k]? = some x ↔ l[k]? = some x ∨ (k = l.length ∧ x = d) := by
  by_cases hk : k < l.length
  · rw [List.getElem?_append_left hk]
    constructor
    · exact Or.inl
    · rintro (h | ⟨h, -⟩)
      · exact h
      · omega
  · have hk' : l.length ≤ k := Nat.le_of_not_lt hk
    rw [List.getElem?_append_right hk']
    have hnone : l[k]? = none := List.getElem?_eq_none hk'
    rw [hnone]
    by_cases he : k = l.length
    · subst he; simp [eq_comm]
    · have : k - l.length ≠ 0 := by omega
      obtain ⟨j, hj⟩ := Nat.exists_eq_succ_of_ne_zero this
      rw [hj]; simp [he]

theorem done_lt (hb : InvB B c) {t : Tid} {k : Nat} {d : Done} (h : (c.locals t).done[k]? = some d) :
    k < (c.locals t).serial := by
  rw [← hb.done_len t]
  exact (List.getElem?_eq_some_iff.mp h).1

theorem done_notify_step (ha : InvA B c) (hb : InvB B c) (hs : (g', l') ∈ (sys B).step c.g (c.locals t)) :
    ∀ u k d, ((c.set t g' l').locals u).done[k]? = some d → ∀ a n, d.op = .notify a n →
      d.ret = (marksOf (c.set t g' l').g u k).length ∧ d.ret ≤ n ∧ ∀ m ∈ marksOf (c.set t g' l').g u k, m.addr = a := by
  intro u k d
  have h0 := hb.done_notify u k d
  have hlt := @done_lt B c hb u k d
  have htid := ha.tid_eq t
  have hlen := hb.done_len t
  have hst := step_inv hs
  clear hs
  by_cases hut : u = t
  · subst hut
    have hcn := hb.cur_notify u
    have hcw := hb.cur_wait u
    have hcnt := hb.count_notify u
    have hcle := hb.count_le u
    have hmb := hb.mark_by
    cases hst <;> no_crash_case ha
    case idle op rest hpc hp => cases op <;> (step_simp; grind)
    case nLoopMark w' rest hpc hc hn hw hst' =>
      step_simp
      intro hd
      have := hlt hd
      unfold marksOf at *
      simp only [List.filter_append, List.filter_cons, List.filter_nil]
      grind
    case nUnlock hpc hm =>
      step_simp
      rw [getElem?_snoc]
      rintro (hd | ⟨rfl, rfl⟩)
      · exact h0 hd
      · intro a n hop
        have hc1 := hcn (by simp [hpc])
        simp only at hop
        rw [hc1] at hop
        cases hop
        have h1 := hcnt (by simp [hpc])
        have h2 := hcle (by simp [hpc])
        simp only [hpc, reduceCtorEq, ↓reduceIte, Nat.add_zero] at h1 h2
        rw [hlen]
        refine ⟨h1.symm, h2, ?_⟩
        intro m hm
        unfold marksOf at hm
        simp only [List.mem_filter, decide_eq_true_eq] at hm
        have := hmb m hm.1
        grind
    case nSharedNo hpc hsh =>
      step_simp
      rw [getElem?_snoc]
      rintro (hd | ⟨rfl, rfl⟩)
      · exact h0 hd
      · intro a n hop
        have := marksOf_empty_of_not_inLoop hb u (by simp [hpc])
        simp only [marksOf] at this ⊢
        rw [hlen, this]
        simp
    case wUnlockNe hpc hm =>
      step_simp
      rw [getElem?_snoc]
      rintro (hd | ⟨rfl, rfl⟩)
      · exact h0 hd
      · intro a n hop
        have hc1 := hcw (by simp [hpc])
        simp only at hop
        rw [hc1] at hop
        cases hop
    case wUnlock hpc hm =>
      step_simp
      rw [getElem?_snoc]
      rintro (hd | ⟨rfl, rfl⟩)
      · exact h0 hd
      · intro a n hop
        have hc1 := hcw (by simp [hpc])
        simp only at hop
        rw [hc1] at hop
        cases hop
    case sPoint hpc =>
      step_simp
      rw [getElem?_snoc]
      rintro (hd | ⟨rfl, rfl⟩)
      · exact h0 hd
      · intro a n hop
        have := marksOf_empty_of_not_inLoop hb u (by simp [hpc])
        simp only [marksOf] at this ⊢
        rw [hlen, this]
        simp
    all_goals (step_simp; exact h0)
  · cases hst <;> no_crash_case ha
    case nLoopMark w' rest hpc hc hn hw hst' =>
      step_simp
      unfold marksOf at *
      simp only [List.filter_append, List.filter_cons, List.filter_nil]
      grind
    all_goals (step_simp; simp only [marksOf] at h0 ⊢; simp only [hut, ↓reduceIte]; exact h0)

end W2c2Verif.Futex
