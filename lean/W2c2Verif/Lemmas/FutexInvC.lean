import W2c2Verif.Lemmas.FutexInv2

/-!
  Lemmas.FutexInvC — preservation of `InvB` (given `InvA`), field by field.
-/
namespace W2c2Verif.Futex
open W2c2Verif.Threads
set_option linter.unusedSimpArgs false
variable {B : Nat} {c : Cfg G L} {t : Tid} {g' : G} {l' : L}

macro "step_simp" : tactic =>
  `(tactic| simp only [Cfg.set_g, Cfg.set_locals, upd_apply, L.ret, L.start, ↓reduceIte])

theorem cur_wait_step (ha : InvA B c) (hb : InvB B c) (hs : (g', l') ∈ (sys B).step c.g (c.locals t)) :
    ∀ u, ((c.set t g' l').locals u).pc.inWait = true →
      ((c.set t g' l').locals u).cur = .wait ((c.set t g' l').locals u).w64 ((c.set t g' l').locals u).addr
        ((c.set t g' l').locals u).expect ((c.set t g' l').locals u).timeout := by
  intro u
  have h0 := hb.cur_wait u
  have hst := step_inv hs
  clear hs
  by_cases hut : u = t
  · subst hut
    cases hst <;> no_crash_case ha
    case idle op rest hpc hp => cases op <;> (step_simp; grind)
    all_goals (step_simp; grind)
  · step_simp; grind

theorem cur_notify_step (ha : InvA B c) (hb : InvB B c) (hs : (g', l') ∈ (sys B).step c.g (c.locals t)) :
    ∀ u, ((c.set t g' l').locals u).pc.inNotify = true →
      ((c.set t g' l').locals u).cur = .notify ((c.set t g' l').locals u).addr ((c.set t g' l').locals u).count := by
  intro u
  have h0 := hb.cur_notify u
  have hst := step_inv hs
  clear hs
  by_cases hut : u = t
  · subst hut
    cases hst <;> no_crash_case ha
    case idle op rest hpc hp => cases op <;> (step_simp; grind)
    all_goals (step_simp; grind)
  · step_simp; grind

theorem done_len_step (ha : InvA B c) (hb : InvB B c) (hs : (g', l') ∈ (sys B).step c.g (c.locals t)) :
    ∀ u, ((c.set t g' l').locals u).done.length = ((c.set t g' l').locals u).serial := by
  intro u
  have h0 := hb.done_len u
  have hst := step_inv hs
  clear hs
  by_cases hut : u = t
  · subst hut
    cases hst <;> no_crash_case ha
    case idle op rest hpc hp => cases op <;> (step_simp; grind)
    all_goals (step_simp; grind)
  · step_simp; grind

theorem loaded_ne_step (ha : InvA B c) (hb : InvB B c) (hs : (g', l') ∈ (sys B).step c.g (c.locals t)) :
    ∀ u, ((c.set t g' l').locals u).pc = .wUnlockNe →
      ((c.set t g' l').locals u).loaded ≠ expected ((c.set t g' l').locals u).w64 ((c.set t g' l').locals u).expect := by
  intro u
  have h0 := hb.loaded_ne u
  have hst := step_inv hs
  clear hs
  by_cases hut : u = t
  · subst hut
    cases hst <;> no_crash_case ha
    case idle op rest hpc hp => cases op <;> (step_simp; grind)
    all_goals (step_simp; grind)
  · step_simp; grind

theorem loaded_eq_step (ha : InvA B c) (hb : InvB B c) (hs : (g', l') ∈ (sys B).step c.g (c.locals t)) :
    ∀ u, ((c.set t g' l').locals u).pc.afterCompare = true →
      ((c.set t g' l').locals u).loaded = expected ((c.set t g' l').locals u).w64 ((c.set t g' l').locals u).expect := by
  intro u
  have h0 := hb.loaded_eq u
  have hst := step_inv hs
  clear hs
  by_cases hut : u = t
  · subst hut
    cases hst <;> no_crash_case ha
    case idle op rest hpc hp => cases op <;> (step_simp; grind)
    all_goals (step_simp; grind)
  · step_simp; grind

theorem timed_flag_step (ha : InvA B c) (hb : InvB B c) (hs : (g', l') ∈ (sys B).step c.g (c.locals t)) :
    ∀ u, ((c.set t g' l').locals u).pc.inWait = true → ((c.set t g' l').locals u).timedOut = true →
      0 ≤ ((c.set t g' l').locals u).timeout := by
  intro u
  have h0 := hb.timed_flag u
  have hst := step_inv hs
  clear hs
  by_cases hut : u = t
  · subst hut
    cases hst <;> no_crash_case ha
    case idle op rest hpc hp => cases op <;> (step_simp; grind)
    all_goals (step_simp; grind)
  · step_simp; grind
theorem marks_nodup_step (ha : InvA B c) (hb : InvB B c) (hs : (g', l') ∈ (sys B).step c.g (c.locals t)) :
    ((c.set t g' l').g.marks.map (·.wait)).Nodup := by
  have h0 := hb.marks_nodup
  have hst := step_inv hs
  clear hs
  cases hst <;> no_crash_case ha
  case nLoopMark w rest hpc hc hn hw hst' =>
    have hni := hb.notified_iff w
    step_simp
    simp only [List.map_append, List.map_cons, List.map_nil]
    rw [List.nodup_append]
    refine ⟨h0, by simp, ?_⟩
    intro a ha' b hb'
    simp only [List.mem_singleton] at hb'
    subst hb'
    rintro rfl
    have := hni.mpr ha'
    rw [hst'] at this
    cases this
  all_goals (step_simp; exact h0)

theorem notified_iff_step (ha : InvA B c) (hb : InvB B c) (hs : (g', l') ∈ (sys B).step c.g (c.locals t)) :
    ∀ w, ((c.set t g' l').g.waits w).status = .notified ↔ w ∈ (c.set t g' l').g.marks.map (·.wait) := by
  intro w
  have h0 := hb.notified_iff w
  have hst := step_inv hs
  clear hs
  cases hst <;> no_crash_case ha
  case wAlloc hpc =>
    have hma := hb.mark_alloc
    have htid := ha.tid_eq t
    step_simp
    split
    · subst_vars
      simp only [reduceCtorEq, false_iff, List.mem_map, not_exists, not_and]
      intro m hm hmw
      have := hma m hm
      rw [hmw] at this
      simp [htid, hpc] at this
    · exact h0
  case nLoopMark w' rest hpc hc hn hw hst' =>
    step_simp
    simp only [List.map_append, List.map_cons, List.map_nil, List.mem_append, List.mem_singleton]
    grind
  all_goals (step_simp; grind)

theorem PC.afterAlloc_of_enq {p : PC} (h : p.enq = true) : p.afterAlloc = true := by cases p <;> simp_all
theorem PC.afterAlloc_of_hasWait {p : PC} (h : p.hasWait = true) : p.afterAlloc = true := by cases p <;> simp_all

theorem mark_alloc_step (ha : InvA B c) (hb : InvB B c) (hs : (g', l') ∈ (sys B).step c.g (c.locals t)) :
    ∀ m ∈ (c.set t g' l').g.marks, m.wait.2 < ((c.set t g' l').locals m.wait.1).serial ∨
      (m.wait.2 = ((c.set t g' l').locals m.wait.1).serial ∧ ((c.set t g' l').locals m.wait.1).pc.afterAlloc = true) := by
  rintro ⟨mt, ms, ma, ⟨a, k⟩⟩
  have h0 := hb.mark_alloc ⟨mt, ms, ma, (a, k)⟩
  simp only at h0
  have hst := step_inv hs
  clear hs
  by_cases hut : a = t
  · subst hut
    cases hst <;> no_crash_case ha
    case idle op rest hpc hp => cases op <;> (step_simp; grind)
    case nLoopMark w' rest hpc hc hn hw hst' =>
      have hlw := ha.live_wait w' hw
      have hwl := ha.wait_live w'.1 hlw.1
      have := @PC.afterAlloc_of_hasWait (c.locals w'.1).pc
      step_simp
      simp only [List.mem_append, List.mem_singleton, Mark.mk.injEq]
      grind
    all_goals (step_simp; grind)
  · cases hst <;> no_crash_case ha
    case nLoopMark w' rest hpc hc hn hw hst' =>
      have hlw := ha.live_wait w' hw
      have hwl := ha.wait_live w'.1 hlw.1
      have := @PC.afterAlloc_of_hasWait (c.locals w'.1).pc
      step_simp
      simp only [List.mem_append, List.mem_singleton, Mark.mk.injEq]
      grind
    all_goals (step_simp; grind)

theorem mark_addr_step (ha : InvA B c) (hb : InvB B c) (hs : (g', l') ∈ (sys B).step c.g (c.locals t)) :
    ∀ m ∈ (c.set t g' l').g.marks, ((c.set t g' l').g.waits m.wait).addr = m.addr := by
  rintro ⟨mt, ms, ma, ⟨a, k⟩⟩
  have h0 := hb.mark_addr ⟨mt, ms, ma, (a, k)⟩
  have h1 := hb.mark_alloc ⟨mt, ms, ma, (a, k)⟩
  simp only at h0 h1
  have htid := ha.tid_eq t
  have hst := step_inv hs
  clear hs
  cases hst <;> no_crash_case ha
  case nLoopMark w' rest hpc hc hn hw hst' =>
    -- the marked wait is in the list of the node keyed by the notifier's address
    obtain ⟨n, hsl, hnl, hnk⟩ := ha.slot_ok t (by simp [hpc])
    have hsuf := ha.cursor_ok t n (Or.inl hpc) hsl
    have hmem : w' ∈ (c.g.nodes n).waits := hsuf.subset (by rw [hc]; exact List.mem_cons_self ..)
    obtain ⟨hwl, henq, hslw⟩ := ha.list_ok n w' hnl hmem
    have hlw := ha.live_wait w' hwl
    have hwl' := ha.wait_live w'.1 hlw.1
    obtain ⟨n2, hs2, hl2, hk2⟩ := ha.slot_ok w'.1 (PC.hasSlot_of_enq henq)
    step_simp
    simp only [List.mem_append, List.mem_singleton, Mark.mk.injEq]
    grind
  all_goals (step_simp; grind)

theorem mark_by_step (ha : InvA B c) (hb : InvB B c) (hs : (g', l') ∈ (sys B).step c.g (c.locals t)) :
    ∀ m ∈ (c.set t g' l').g.marks, m.serial < ((c.set t g' l').locals m.tid).serial ∨
      (m.serial = ((c.set t g' l').locals m.tid).serial ∧ ((c.set t g' l').locals m.tid).pc.inLoop = true ∧
        m.addr = ((c.set t g' l').locals m.tid).addr) := by
  rintro ⟨mt, ms, ma, mw⟩
  have h0 := hb.mark_by ⟨mt, ms, ma, mw⟩
  simp only at h0
  have htid := ha.tid_eq t
  have hst := step_inv hs
  clear hs
  by_cases hut : mt = t
  · subst hut
    cases hst <;> no_crash_case ha
    case idle op rest hpc hp => cases op <;> (step_simp; grind)
    case nLoopMark w' rest hpc hc hn hw hst' =>
      step_simp
      simp only [List.mem_append, List.mem_singleton, Mark.mk.injEq]
      grind
    all_goals (step_simp; grind)
  · cases hst <;> no_crash_case ha
    case nLoopMark w' rest hpc hc hn hw hst' =>
      step_simp
      simp only [List.mem_append, List.mem_singleton, Mark.mk.injEq]
      grind
    all_goals (step_simp; grind)

theorem marksOf_empty_of_not_inLoop (hb : InvB B c) (t : Tid) (h : (c.locals t).pc.inLoop = false) :
    marksOf c.g t (c.locals t).serial = [] := by
  unfold marksOf
  rw [List.filter_eq_nil_iff]
  intro m hm
  have := hb.mark_by m hm
  simp only [decide_eq_true_eq]
  rintro ⟨rfl, h2⟩
  grind

theorem count_notify_step (ha : InvA B c) (hb : InvB B c) (hs : (g', l') ∈ (sys B).step c.g (c.locals t)) :
    ∀ u, ((c.set t g' l').locals u).pc.inNotify = true →
      (marksOf (c.set t g' l').g u ((c.set t g' l').locals u).serial).length =
        ((c.set t g' l').locals u).notified + (if ((c.set t g' l').locals u).pc = .nSignal then 1 else 0) := by
  intro u
  have h0 := hb.count_notify u
  have htid := ha.tid_eq t
  have hst := step_inv hs
  clear hs
  unfold marksOf at *
  by_cases hut : u = t
  · subst hut
    cases hst <;> no_crash_case ha
    case idle op rest hpc hp =>
      have := marksOf_empty_of_not_inLoop hb u (by simp [hpc])
      unfold marksOf at this
      cases op <;> (step_simp; grind)
    case nLoopMark w' rest hpc hc hn hw hst' =>
      step_simp
      simp only [List.filter_append, List.filter_cons, List.filter_nil, List.length_append]
      grind
    all_goals (step_simp; grind)
  · cases hst <;> no_crash_case ha
    case nLoopMark w' rest hpc hc hn hw hst' =>
      step_simp
      simp only [List.filter_append, List.filter_cons, List.filter_nil, List.length_append]
      grind
    all_goals (step_simp; grind)

theorem count_le_step (ha : InvA B c) (hb : InvB B c) (hs : (g', l') ∈ (sys B).step c.g (c.locals t)) :
    ∀ u, ((c.set t g' l').locals u).pc.inNotify = true →
      ((c.set t g' l').locals u).notified + (if ((c.set t g' l').locals u).pc = .nSignal then 1 else 0) ≤
        ((c.set t g' l').locals u).count := by
  intro u
  have h0 := hb.count_le u
  have hst := step_inv hs
  clear hs
  by_cases hut : u = t
  · subst hut
    cases hst <;> no_crash_case ha
    case idle op rest hpc hp => cases op <;> (step_simp; grind)
    all_goals (step_simp; grind)
  · step_simp; grind

theorem getElem?_snoc {α : Type} (l : List α) (d x : α) (k : Nat) :
    (l ++ [d])[k]? = some x ↔ l[k]? = some x ∨ (k = l.length ∧ x = d) := by
  by_cases hk : k < l.length
  · rw [List.getElem?_append_left hk]
    constructor
    · exact Or.inl
    · rintro (h | ⟨h, -⟩)
      · exact h
      · omega
  · have hk' : l.length ≤ k := Nat.le_of_not_lt hk
    rw [List.getElem?_append_right hk']
    have hnone : l[k]? = none := List.getElem?_eq_none hk'
    rw [hnone]
    by_cases he : k = l.length
    · subst he; simp [eq_comm]
    · have : k - l.length ≠ 0 := by omega
      obtain ⟨j, hj⟩ := Nat.exists_eq_succ_of_ne_zero this
      rw [hj]; simp [he]

theorem done_lt (hb : InvB B c) {t : Tid} {k : Nat} {d : Done} (h : (c.locals t).done[k]? = some d) :
    k < (c.locals t).serial := by
  rw [← hb.done_len t]
  exact (List.getElem?_eq_some_iff.mp h).1

theorem done_notify_step (ha : InvA B c) (hb : InvB B c) (hs : (g', l') ∈ (sys B).step c.g (c.locals t)) :
    ∀ u k d, ((c.set t g' l').locals u).done[k]? = some d → ∀ a n, d.op = .notify a n →
      d.ret = (marksOf (c.set t g' l').g u k).length ∧ d.ret ≤ n ∧ ∀ m ∈ marksOf (c.set t g' l').g u k, m.addr = a := by
  intro u k d
  have h0 := hb.done_notify u k d
  have hlt := @done_lt B c hb u k d
  have htid := ha.tid_eq t
  have hlen := hb.done_len t
  have hst := step_inv hs
  clear hs
  by_cases hut : u = t
  · subst hut
    have hcn := hb.cur_notify u
    have hcw := hb.cur_wait u
    have hcnt := hb.count_notify u
    have hcle := hb.count_le u
    have hmb := hb.mark_by
    cases hst <;> no_crash_case ha
    case idle op rest hpc hp => cases op <;> (step_simp; grind)
    case nLoopMark w' rest hpc hc hn hw hst' =>
      step_simp
      intro hd
      have := hlt hd
      unfold marksOf at *
      simp only [List.filter_append, List.filter_cons, List.filter_nil]
      grind
    case nUnlock hpc hm =>
      step_simp
      rw [getElem?_snoc]
      rintro (hd | ⟨rfl, rfl⟩)
      · exact h0 hd
      · intro a n hop
        have hc1 := hcn (by simp [hpc])
        simp only at hop
        rw [hc1] at hop
        cases hop
        have h1 := hcnt (by simp [hpc])
        have h2 := hcle (by simp [hpc])
        simp only [hpc, reduceCtorEq, ↓reduceIte, Nat.add_zero] at h1 h2
        rw [hlen]
        refine ⟨h1.symm, h2, ?_⟩
        intro m hm
        unfold marksOf at hm
        simp only [List.mem_filter, decide_eq_true_eq] at hm
        have := hmb m hm.1
        grind
    case nSharedNo hpc hsh =>
      step_simp
      rw [getElem?_snoc]
      rintro (hd | ⟨rfl, rfl⟩)
      · exact h0 hd
      · intro a n hop
        have := marksOf_empty_of_not_inLoop hb u (by simp [hpc])
        simp only [marksOf] at this ⊢
        rw [hlen, this]
        simp
    case wUnlockNe hpc hm =>
      step_simp
      rw [getElem?_snoc]
      rintro (hd | ⟨rfl, rfl⟩)
      · exact h0 hd
      · intro a n hop
        have hc1 := hcw (by simp [hpc])
        simp only at hop
        rw [hc1] at hop
        cases hop
    case wUnlock hpc hm =>
      step_simp
      rw [getElem?_snoc]
      rintro (hd | ⟨rfl, rfl⟩)
      · exact h0 hd
      · intro a n hop
        have hc1 := hcw (by simp [hpc])
        simp only at hop
        rw [hc1] at hop
        cases hop
    case sPoint hpc =>
      step_simp
      rw [getElem?_snoc]
      rintro (hd | ⟨rfl, rfl⟩)
      · exact h0 hd
      · intro a n hop
        have := marksOf_empty_of_not_inLoop hb u (by simp [hpc])
        simp only [marksOf] at this ⊢
        rw [hlen, this]
        simp
    all_goals (step_simp; exact h0)
  · cases hst <;> no_crash_case ha
    case nLoopMark w' rest hpc hc hn hw hst' =>
      step_simp
      unfold marksOf at *
      simp only [List.filter_append, List.filter_cons, List.filter_nil]
      grind
    all_goals (step_simp; simp only [marksOf] at h0 ⊢; simp only [hut, ↓reduceIte]; exact h0)

theorem wait_rec_step (ha : InvA B c) (hb : InvB B c) (hs : (g', l') ∈ (sys B).step c.g (c.locals t)) :
    ∀ u, ((c.set t g' l').locals u).pc.afterAlloc = true →
      ((c.set t g' l').locals u).wait = (u, ((c.set t g' l').locals u).serial) ∧
      ((c.set t g' l').g.waits ((c.set t g' l').locals u).wait).addr = ((c.set t g' l').locals u).addr := by
  intro u
  have h0 := hb.wait_rec u
  have h1 := hb.wait_rec t
  have htid := ha.tid_eq t
  have hst := step_inv hs
  clear hs
  by_cases hut : u = t
  · subst hut
    cases hst <;> no_crash_case ha
    case idle op rest hpc hp => cases op <;> (step_simp; grind)
    all_goals (step_simp; grind)
  · cases hst <;> no_crash_case ha
    all_goals (step_simp; grind)

theorem fresh_waiting_step (ha : InvA B c) (hb : InvB B c) (hs : (g', l') ∈ (sys B).step c.g (c.locals t)) :
    ∀ u, ((c.set t g' l').locals u).pc.preWait = true →
      ((c.set t g' l').g.waits ((c.set t g' l').locals u).wait).status = .waiting := by
  intro u
  have h0 := hb.fresh_waiting u
  have htid := ha.tid_eq t
  have hmt := ha.mutex_iff t
  have hmu := ha.mutex_iff u
  have hst := step_inv hs
  clear hs
  by_cases hut : u = t
  · subst hut
    cases hst <;> no_crash_case ha
    case idle op rest hpc hp => cases op <;> (step_simp; grind)
    case wCheckAgain hpc ht hw hst' =>
      step_simp
      intro _
      cases h : (c.g.waits (c.locals u).wait).status
      · rfl
      · exact absurd h hst'
    all_goals (step_simp; grind)
  · have hwu := ha.wait_live u
    have hwt := ha.wait_live t
    have hpw : (c.locals u).pc.preWait = true → (c.locals u).pc.holds = true ∧ (c.locals u).pc.hasWait = true := by
      cases (c.locals u).pc <;> simp
    cases hst <;> no_crash_case ha
    all_goals (step_simp; grind)

theorem WStatus.eq_notified_of_ne_waiting {s : WStatus} (h : s ≠ .waiting) : s = .notified := by
  cases s <;> simp_all

theorem signal_head_step (ha : InvA B c) (hb : InvB B c) (hs : (g', l') ∈ (sys B).step c.g (c.locals t)) :
    ∀ u, ((c.set t g' l').locals u).pc = .nSignal →
      ∃ w rest, ((c.set t g' l').locals u).cursor = w :: rest ∧ ((c.set t g' l').g.waits w).status = .notified := by
  intro u
  have h0 := hb.signal_head u
  have htid := ha.tid_eq t
  have hmt := ha.mutex_iff t
  have hmu := ha.mutex_iff u
  have hst := step_inv hs
  clear hs
  by_cases hut : u = t
  · subst hut
    cases hst <;> no_crash_case ha
    case idle op rest hpc hp => cases op <;> (step_simp; grind)
    all_goals (step_simp; grind)
  · cases hst <;> no_crash_case ha
    case wAlloc hpc =>
      step_simp
      simp only [hut, ↓reduceIte]
      intro h
      obtain ⟨w, rest, hc, hs⟩ := h0 h
      have hl := ha.cursor_live (Or.inr h) hc
      have hlw := ha.live_wait w hl
      refine ⟨w, rest, hc, ?_⟩
      split
      · subst_vars; simp [htid, hpc] at hlw
      · exact hs
    all_goals (step_simp; grind)

theorem walked_step (ha : InvA B c) (hb : InvB B c) (hs : (g', l') ∈ (sys B).step c.g (c.locals t)) :
    ∀ u n, (((c.set t g' l').locals u).pc = .nLoop ∨ ((c.set t g' l').locals u).pc = .nSignal) →
      ((c.set t g' l').locals u).slot = some n →
      ∀ w ∈ ((c.set t g' l').g.nodes n).waits, w ∉ ((c.set t g' l').locals u).cursor →
        ((c.set t g' l').g.waits w).status = .notified := by
  intro u n
  have h0 := hb.walked u n
  have htid := ha.tid_eq t
  have hmt := ha.mutex_iff t
  have hmu := ha.mutex_iff u
  have hst := step_inv hs
  clear hs
  by_cases hut : u = t
  · subst hut
    have hsh := hb.signal_head u
    cases hst <;> no_crash_case ha
    case idle op rest hpc hp => cases op <;> (step_simp; grind)
    case nLoopSkip w' rest hpc hc hn hw hst' =>
      have := WStatus.eq_notified_of_ne_waiting hst'
      step_simp; grind
    all_goals (step_simp; grind)
  · cases hst <;> no_crash_case ha
    all_goals (step_simp; grind)

theorem notified_unparked_step (ha : InvA B c) (hb : InvB B c) (hs : (g', l') ∈ (sys B).step c.g (c.locals t)) :
    ∀ u, ((c.set t g' l').locals u).pc = .wParked →
      ((c.set t g' l').g.waits ((c.set t g' l').locals u).wait).status = .notified →
      (u, ((c.set t g' l').locals u).wait) ∈ (c.set t g' l').g.parked →
      ∃ v, ((c.set t g' l').locals v).pc = .nSignal ∧
        ((c.set t g' l').locals v).cursor.head? = some ((c.set t g' l').locals u).wait := by
  intro u
  have h0 := hb.notified_unparked u
  have htid := ha.tid_eq t
  have hst := step_inv hs
  clear hs
  by_cases hut : u = t
  · subst hut
    cases hst <;> no_crash_case ha
    case idle op rest hpc hp => cases op <;> (step_simp; grind)
    case wCondWait hpc hw hm =>
      have := hb.fresh_waiting u (by simp [hpc])
      step_simp; grind
    case wSpurious hpc hp =>
      have := ha.parked_nodup
      step_simp
      intro _ _ hmem
      exact absurd hmem (by rw [htid]; exact fun h => ((List.Nodup.mem_erase_iff this).mp h).1 rfl)
    case wTimeout hpc hp ht =>
      have := ha.parked_nodup
      step_simp
      intro _ _ hmem
      exact absurd hmem (by rw [htid]; exact fun h => ((List.Nodup.mem_erase_iff this).mp h).1 rfl)
    all_goals (step_simp; grind)
  · have hwu := ha.wait_live u
    have hwt := ha.wait_live t
    cases hst <;> no_crash_case ha
    case nLoopMark w' rest hpc hc hn hw hst' =>
      step_simp
      simp only [hut, ↓reduceIte]
      intro h1 h2 h3
      by_cases hw' : (c.locals u).wait = w'
      · exact ⟨t, by simp, by simp [hc, hw']⟩
      · rw [if_neg hw'] at h2
        obtain ⟨v, hv1, hv2⟩ := h0 h1 h2 h3
        have hvt : v ≠ t := by rintro rfl; rw [hpc] at hv1; cases hv1
        exact ⟨v, by simp [hvt, hv1], by simp [hvt, hv2]⟩
    case nSignal w rest ps hpc hc hw hps =>
      step_simp
      simp only [hut, ↓reduceIte]
      intro h1 h2 h3
      have hsub := Parked.signal_sub _ _ _ hps _ h3
      by_cases hw' : (c.locals u).wait = w
      · exfalso
        obtain ⟨q, hq1, hq2, hq3⟩ := Parked.signal_wakes _ _ _ hps ha.parked_nodup (u, (c.locals u).wait) hsub hw'
        obtain ⟨hq4, hq5⟩ := ha.parked_ok q.1 q.2 hq1
        have hq6 := (ha.wait_live q.1 (by simp [hq4])).1
        have hu6 := (hwu (by simp [h1])).1
        have : q = (u, (c.locals u).wait) := by
          have h7 : (c.locals q.1).wait = (c.locals u).wait := by rw [hq5, hq2, hw']
          rw [hq6, hu6] at h7
          have h8 : q.1 = u := (Prod.mk.inj h7).1
          ext
          · exact h8
          · simp [hq2, hw']
          · simp [hq2, hw']
        rw [this] at hq3
        exact hq3 h3
      · obtain ⟨v, hv1, hv2⟩ := h0 h1 h2 hsub
        have hvt : v ≠ t := by
          rintro rfl
          rw [hc] at hv2
          simp at hv2
          exact hw' hv2.symm
        exact ⟨v, by simp [hvt, hv1], by simp [hvt, hv2]⟩
    all_goals (
      step_simp
      simp only [hut, ↓reduceIte]
      intro h1 h2 h3
      have hpre : ∃ v, (c.locals v).pc = .nSignal ∧ (c.locals v).cursor.head? = some (c.locals u).wait := by
        apply h0 h1 <;> grind [List.mem_of_mem_erase]
      obtain ⟨v, hv1, hv2⟩ := hpre
      have hvt : v ≠ t := by rintro rfl; grind
      exact ⟨v, by simp [hvt, hv1], by simp [hvt, hv2]⟩)

theorem InvA.node_unique (ha : InvA B c) {n m : Id} (hn : (c.g.nodes n).live = true)
    (hm : (c.g.nodes m).live = true) (hk : (c.g.nodes n).key = (c.g.nodes m).key) : n = m := by
  have h1 := ha.live_chain n hn
  have h2 := ha.live_chain m hm
  rw [hk] at h1
  exact ha.chain_keys _ n m h1 h2 hk

/-- an enqueued waiter's record sits in the (unique) live node keyed by its address -/
theorem InvA.enq_in_node (ha : InvA B c) {v : Tid} {n : Id} (hv : (c.locals v).pc.enq = true)
    (hn : (c.g.nodes n).live = true) (hk : (c.g.nodes n).key = (c.locals v).addr) :
    (c.locals v).wait ∈ (c.g.nodes n).waits := by
  obtain ⟨m, hs, hl, hkm⟩ := ha.slot_ok v (PC.hasSlot_of_enq hv)
  have : m = n := ha.node_unique hl hn (by rw [hkm, hk])
  subst this
  exact ha.enq_mem v m hv hs

theorem unlock_ok_step (ha : InvA B c) (hb : InvB B c) (hs : (g', l') ∈ (sys B).step c.g (c.locals t)) :
    ∀ u, ((c.set t g' l').locals u).pc = .nUnlock → ∀ v, ((c.set t g' l').locals v).pc.enq = true →
      ((c.set t g' l').locals v).addr = ((c.set t g' l').locals u).addr →
      ((c.set t g' l').g.waits ((c.set t g' l').locals v).wait).status = .notified ∨
        ((c.set t g' l').locals u).notified = ((c.set t g' l').locals u).count := by
  intro u hu v hv hadr
  have h0 := hb.unlock_ok u
  have htid := ha.tid_eq t
  have hmt := ha.mutex_iff t
  have hmu := ha.mutex_iff u
  have hmv := ha.mutex_iff v
  have hst := step_inv hs
  clear hs
  have hvu : v ≠ u := by
    rintro rfl
    rw [hu] at hv
    simp at hv
  by_cases hut : u = t
  · subst hut
    revert hu hv hadr
    cases hst <;> no_crash_case ha
    case idle op rest hpc hp => cases op <;> (step_simp; grind)
    case nGetMapNull hpc hal =>
      step_simp
      simp only [hvu, ↓reduceIte]
      intro _ hv _
      have := ha.map_alloc v (PC.afterCreate_of_enq hv)
      rw [hal] at this; cases this
    case nMapGetNone hpc hg =>
      step_simp
      simp only [hvu, ↓reduceIte]
      intro _ hv hadr
      exfalso
      have hma := ha.map_alloc u (by simp [hpc])
      unfold mapGet at hg
      simp [hma] at hg
      obtain ⟨m, hs, hl, hkm⟩ := ha.slot_ok v (PC.hasSlot_of_enq hv)
      have hmem := ha.live_chain m hl
      rw [hkm, hadr] at hmem
      exact chainFind_none _ _ _ hg m hmem (by rw [hkm, hadr])
    case nLoopEnd hpc hc =>
      step_simp
      simp only [hvu, ↓reduceIte]
      intro _ hv hadr
      left
      obtain ⟨n, hs, hl, hk⟩ := ha.slot_ok u (by simp [hpc])
      have hmem := ha.enq_in_node hv hl (by rw [hk, hadr])
      exact hb.walked u n (Or.inl hpc) hs _ hmem (by simp [hc])
    case nLoopFull w rest hpc hc hn =>
      step_simp
      simp only [hvu, ↓reduceIte]
      intro _ _ _
      right
      have := hb.count_le u (by simp [hpc])
      simp [hpc] at this
      omega
    all_goals (step_simp; grind)
  · simp only [Cfg.set_locals, hut, if_false] at hu
    have huh : (c.locals u).pc.holds = true := by simp [hu]
    have hmx : c.g.mutex = some u := hmu.mpr huh
    have h0' := h0 hu v
    have hwv := ha.wait_live v
    have hwt := ha.wait_live t
    have he2 := @PC.hasWait_of_enq (c.locals v).pc
    revert hv hadr
    by_cases hvt : v = t
    · subst hvt
      cases hst <;> no_crash_case ha
      case idle op rest hpc hp => cases op <;> (step_simp; grind)
      all_goals (step_simp; grind)
    · cases hst <;> no_crash_case ha
      all_goals (step_simp; grind)

theorem exit_ok_step (ha : InvA B c) (hb : InvB B c) (hs : (g', l') ∈ (sys B).step c.g (c.locals t)) :
    ∀ u, ((c.set t g' l').locals u).pc = .wIsTimeout →
      ((c.set t g' l').g.waits ((c.set t g' l').locals u).wait).status = .notified ∨
        ((c.set t g' l').locals u).timedOut = true := by
  intro u
  have h0 := hb.exit_ok u
  have htid := ha.tid_eq t
  have hmt := ha.mutex_iff t
  have hmu := ha.mutex_iff u
  have hst := step_inv hs
  clear hs
  by_cases hut : u = t
  · subst hut
    cases hst <;> no_crash_case ha
    case idle op rest hpc hp => cases op <;> (step_simp; grind)
    all_goals (step_simp; grind)
  · cases hst <;> no_crash_case ha
    all_goals (step_simp; grind)

theorem is_timeout_step (ha : InvA B c) (hb : InvB B c) (hs : (g', l') ∈ (sys B).step c.g (c.locals t)) :
    ∀ u, ((c.set t g' l').locals u).pc.afterIsTimeout = true →
      (((c.set t g' l').locals u).isTimeout = true →
        ((c.set t g' l').g.waits ((c.set t g' l').locals u).wait).status = .waiting ∧
          ((c.set t g' l').locals u).timedOut = true) ∧
      (((c.set t g' l').locals u).isTimeout = false →
        ((c.set t g' l').g.waits ((c.set t g' l').locals u).wait).status = .notified) := by
  intro u
  have h0 := hb.is_timeout u
  have htid := ha.tid_eq t
  have hmt := ha.mutex_iff t
  have hmu := ha.mutex_iff u
  have hst := step_inv hs
  clear hs
  by_cases hut : u = t
  · subst hut
    have hex := hb.exit_ok u
    cases hst <;> no_crash_case ha
    case idle op rest hpc hp => cases op <;> (step_simp; grind)
    case wIsTimeout hpc hw =>
      step_simp
      intro _
      cases hst' : (c.g.waits (c.locals u).wait).status <;> simp_all
    all_goals (step_simp; grind)
  · have hai : (c.locals u).pc.afterIsTimeout = true → (c.locals u).pc.holds = true := by
      cases (c.locals u).pc <;> simp
    cases hst <;> no_crash_case ha
    all_goals (step_simp; grind)

theorem WaitOutcome.mono {g g2 : G} {u : Tid} {k : Nat} {d : Done} {w64 : Bool} {a e : Nat} {to : Int}
    (h : WaitOutcome g u k d w64 a e to) (hm : ∀ m ∈ g.marks, m ∈ g2.marks)
    (hs : (g.waits (u, k)).status = .waiting → (g2.waits (u, k)).status = .waiting) :
    WaitOutcome g2 u k d w64 a e to := by
  rcases h with h | ⟨h1, h2, h3, m, hmm, h4⟩ | ⟨h1, h2, h3, h4, h5, h6⟩
  · exact Or.inl h
  · exact Or.inr (Or.inl ⟨h1, h2, h3, m, hm m hmm, h4⟩)
  · exact Or.inr (Or.inr ⟨h1, h2, h3, h4, h5, hs h6⟩)

theorem done_wait_step (ha : InvA B c) (hb : InvB B c) (hs : (g', l') ∈ (sys B).step c.g (c.locals t)) :
    ∀ u k d, ((c.set t g' l').locals u).done[k]? = some d → ∀ w64 a e to, d.op = .wait w64 a e to →
      WaitOutcome (c.set t g' l').g u k d w64 a e to := by
  intro u k d
  have h0 := hb.done_wait u k d
  have hlt := @done_lt B c hb u k d
  have htid := ha.tid_eq t
  have hlen := hb.done_len t
  have hst := step_inv hs
  clear hs
  -- old entries: the outcome is stable
  have hold : ∀ g2 : G, (c.locals u).done[k]? = some d → (∀ m ∈ c.g.marks, m ∈ g2.marks) →
      ((c.g.waits (u, k)).status = .waiting → (g2.waits (u, k)).status = .waiting) →
      ∀ w64 a e to, d.op = .wait w64 a e to → WaitOutcome g2 u k d w64 a e to :=
    fun g2 hd hm hs w64 a e to hop => (h0 hd w64 a e to hop).mono hm hs
  by_cases hut : u = t
  · subst hut
    have hcn := hb.cur_notify u
    have hcw := hb.cur_wait u
    cases hst <;> no_crash_case ha
    case idle op rest hpc hp => cases op <;> (step_simp; exact fun hd => hold _ hd (fun _ h => h) (fun h => h))
    case wAlloc hpc =>
      step_simp
      intro hd
      refine hold _ hd (fun _ h => h) (fun h => ?_)
      have := hlt hd
      simp only [upd_apply]
      split
      · rfl
      · exact h
    case nLoopMark w' rest hpc hc hn hw hst' =>
      step_simp
      intro hd
      refine hold _ hd (fun _ h => List.mem_append_left _ h) (fun h => ?_)
      simp only [upd_apply]
      split
      · exfalso
        rename_i heq
        have := hlt hd
        have hlw := ha.live_wait w' hw
        have hwl := ha.wait_live w'.1 hlw.1
        rw [← heq] at hlw hwl
        simp only at hlw hwl
        have h2 := hwl.1
        rw [hlw.2] at h2
        have := (Prod.mk.inj h2).2
        omega
      · exact h
    case wFree hpc hw hp =>
      step_simp
      intro hd
      refine hold _ hd (fun _ h => h) (fun h => ?_)
      simp only [upd_apply]
      split
      · rename_i heq; rw [← heq]; exact h
      · exact h
    case wUnlockNe hpc hm =>
      step_simp
      rw [getElem?_snoc]
      rintro (hd | ⟨rfl, rfl⟩)
      · exact hold _ hd (fun _ h => h) (fun h => h)
      · intro w64 a e to hop
        have hc1 := hcw (by simp [hpc])
        simp only at hop
        rw [hc1] at hop
        cases hop
        exact Or.inl ⟨rfl, hb.loaded_ne u hpc⟩
    case wUnlock hpc hm =>
      step_simp
      rw [getElem?_snoc]
      rintro (hd | ⟨rfl, rfl⟩)
      · exact hold _ hd (fun _ h => h) (fun h => h)
      · intro w64 a e to hop
        have hc1 := hcw (by simp [hpc])
        simp only at hop
        rw [hc1] at hop
        cases hop
        have hle := hb.loaded_eq u (by simp [hpc])
        have hit := hb.is_timeout u (by simp [hpc])
        have hwr := hb.wait_rec u (by simp [hpc])
        have htf := hb.timed_flag u (by simp [hpc])
        rw [hlen]
        cases hti : (c.locals u).isTimeout
        · -- Notified: counted by a notify on this address
          have hst' := hit.2 hti
          have hmem := (hb.notified_iff _).mp hst'
          simp only [List.mem_map] at hmem
          obtain ⟨m, hmm, hmw⟩ := hmem
          have hma := hb.mark_addr m hmm
          refine Or.inr (Or.inl ⟨by simp, hle, rfl, m, hmm, ?_, ?_⟩)
          · rw [hmw, hwr.1]
          · rw [← hma, hmw, hwr.2]
        · have hst' := hit.1 hti
          refine Or.inr (Or.inr ⟨by simp, hle, rfl, hst'.2, htf hst'.2, ?_⟩)
          simp only
          rw [← hwr.1]
          exact hst'.1
    case nUnlock hpc hm =>
      step_simp
      rw [getElem?_snoc]
      rintro (hd | ⟨rfl, rfl⟩)
      · exact hold _ hd (fun _ h => h) (fun h => h)
      · intro w64 a e to hop
        have hc1 := hcn (by simp [hpc])
        simp only at hop
        rw [hc1] at hop
        cases hop
    case nSharedNo hpc hsh =>
      step_simp
      rw [getElem?_snoc]
      rintro (hd | ⟨rfl, rfl⟩)
      · exact hold _ hd (fun _ h => h) (fun h => h)
      · intro w64 a e to hop
        have hc1 := hcn (by simp [hpc])
        simp only at hop
        rw [hc1] at hop
        cases hop
    case sPoint hpc =>
      step_simp
      rw [getElem?_snoc]
      rintro (hd | ⟨rfl, rfl⟩)
      · exact hold _ hd (fun _ h => h) (fun h => h)
      · intro w64 a e to hop
        obtain ⟨a', w', v', hc1⟩ := hb.cur_store u hpc
        simp only at hop
        rw [hc1] at hop
        cases hop
    all_goals (step_simp; exact fun hd => hold _ hd (fun _ h => h) (fun h => h))
  · cases hst <;> no_crash_case ha
    case wAlloc hpc =>
      step_simp
      simp only [hut, ↓reduceIte]
      intro hd
      refine hold _ hd (fun _ h => h) (fun h => ?_)
      simp only [upd_apply]
      split
      · rfl
      · exact h
    case nLoopMark w' rest hpc hc hn hw hst' =>
      step_simp
      simp only [hut, ↓reduceIte]
      intro hd
      refine hold _ hd (fun _ h => List.mem_append_left _ h) (fun h => ?_)
      simp only [upd_apply]
      split
      · exfalso
        rename_i heq
        have := hlt hd
        have hlw := ha.live_wait w' hw
        have hwl := ha.wait_live w'.1 hlw.1
        rw [← heq] at hlw hwl
        simp only at hlw hwl
        have h2 := hwl.1
        rw [hlw.2] at h2
        have := (Prod.mk.inj h2).2
        omega
      · exact h
    case wFree hpc hw hp =>
      step_simp
      simp only [hut, ↓reduceIte]
      intro hd
      refine hold _ hd (fun _ h => h) (fun h => ?_)
      simp only [upd_apply]
      split
      · rename_i heq; rw [← heq]; exact h
      · exact h
    all_goals (step_simp; simp only [hut, ↓reduceIte]; exact fun hd => hold _ hd (fun _ h => h) (fun h => h))

theorem marks_listed_step (ha : InvA B c) (hb : InvB B c) (hs : (g', l') ∈ (sys B).step c.g (c.locals t)) :
    ∀ u, ((c.set t g' l').locals u).pc.inLoop = true →
      ∀ m ∈ marksOf (c.set t g' l').g u ((c.set t g' l').locals u).serial,
        ∃ n, ((c.set t g' l').locals u).slot = some n ∧ ((c.set t g' l').g.nodes n).live = true ∧
          m.wait ∈ ((c.set t g' l').g.nodes n).waits := by
  intro u
  have h0 := hb.marks_listed u
  have htid := ha.tid_eq t
  have hmt := ha.mutex_iff t
  have hmu := ha.mutex_iff u
  have hst := step_inv hs
  clear hs
  by_cases hut : u = t
  · subst hut
    have hem := marksOf_empty_of_not_inLoop hb u
    cases hst <;> no_crash_case ha
    case idle op rest hpc hp => cases op <;> (step_simp; simp)
    case nLoopMark w' rest hpc hc hn hw hst' =>
      obtain ⟨n, hsl, hnl, hnk⟩ := ha.slot_ok u (by simp [hpc])
      have hsuf := ha.cursor_ok u n (Or.inl hpc) hsl
      have hmem : w' ∈ (c.g.nodes n).waits := hsuf.subset (by rw [hc]; exact List.mem_cons_self ..)
      step_simp
      intro _ m hm
      unfold marksOf at hm h0
      simp only [List.filter_append, List.mem_append, List.mem_filter, decide_eq_true_eq,
        List.mem_singleton] at hm
      rcases hm with hm | ⟨rfl, -⟩
      · exact h0 (by simp [hpc]) m (List.mem_filter.mpr ⟨hm.1, by simpa using hm.2⟩)
      · exact ⟨n, hsl, hnl, hmem⟩
    case nGetMapNull hpc hal =>
      have := hem (by simp [hpc])
      step_simp
      simp only [marksOf] at this ⊢
      rw [this]; simp
    case nMapGetNone hpc hg =>
      have := hem (by simp [hpc])
      step_simp
      simp only [marksOf] at this ⊢
      rw [this]; simp
    case nHead n hpc hsl hn =>
      have := hem (by simp [hpc])
      step_simp
      simp only [marksOf] at this ⊢
      rw [this]; simp
    all_goals (step_simp; simp only [marksOf] at h0 ⊢; grind)
  · have hil : (c.locals u).pc.inLoop = true → (c.locals u).pc.holds = true := by
      cases (c.locals u).pc <;> simp
    cases hst <;> no_crash_case ha
    all_goals (step_simp; simp only [marksOf, hut, ↓reduceIte] at h0 ⊢; grind)

theorem cur_store_step (ha : InvA B c) (hb : InvB B c) (hs : (g', l') ∈ (sys B).step c.g (c.locals t)) :
    ∀ u, ((c.set t g' l').locals u).pc = .sPoint → ∃ a w v, ((c.set t g' l').locals u).cur = .store a w v := by
  intro u
  have h0 := hb.cur_store u
  have hst := step_inv hs
  clear hs
  by_cases hut : u = t
  · subst hut
    cases hst <;> no_crash_case ha
    case idle op rest hpc hp => cases op <;> (step_simp; grind)
    all_goals (step_simp; grind)
  · step_simp; grind


/-- `InvB` is preserved by every step of every thread (given `InvA`) -/
theorem InvB.step (ha : InvA B c) (hb : InvB B c) (hs : (g', l') ∈ (sys B).step c.g (c.locals t)) :
    InvB B (c.set t g' l') where
  cur_wait := cur_wait_step ha hb hs
  cur_notify := cur_notify_step ha hb hs
  cur_store := cur_store_step ha hb hs
  done_len := done_len_step ha hb hs
  marks_nodup := marks_nodup_step ha hb hs
  notified_iff := notified_iff_step ha hb hs
  mark_alloc := mark_alloc_step ha hb hs
  mark_addr := mark_addr_step ha hb hs
  mark_by := mark_by_step ha hb hs
  count_notify := count_notify_step ha hb hs
  count_le := count_le_step ha hb hs
  marks_listed := marks_listed_step ha hb hs
  done_notify := done_notify_step ha hb hs
  notified_unparked := notified_unparked_step ha hb hs
  walked := walked_step ha hb hs
  signal_head := signal_head_step ha hb hs
  unlock_ok := unlock_ok_step ha hb hs
  wait_rec := wait_rec_step ha hb hs
  fresh_waiting := fresh_waiting_step ha hb hs
  loaded_ne := loaded_ne_step ha hb hs
  loaded_eq := loaded_eq_step ha hb hs
  timed_flag := timed_flag_step ha hb hs
  exit_ok := exit_ok_step ha hb hs
  is_timeout := is_timeout_step ha hb hs
  done_wait := done_wait_step ha hb hs

theorem InvB.init {c : Cfg G L} (h : Init c) : InvB B c := by
  obtain ⟨⟨sh, mem, hg⟩, hl⟩ := h
  have hpc : ∀ t, (c.locals t).pc = .idle := fun t => by obtain ⟨p, hp⟩ := hl t; simp [hp, L.init]
  have hdone : ∀ t, (c.locals t).done = [] := fun t => by obtain ⟨p, hp⟩ := hl t; simp [hp, L.init]
  have hser : ∀ t, (c.locals t).serial = 0 := fun t => by obtain ⟨p, hp⟩ := hl t; simp [hp, L.init]
  refine { cur_wait := ?_, cur_notify := ?_, cur_store := ?_, done_len := ?_, marks_nodup := ?_, notified_iff := ?_,
           mark_alloc := ?_, mark_addr := ?_, mark_by := ?_, count_notify := ?_, count_le := ?_, marks_listed := ?_, done_notify := ?_,
           notified_unparked := ?_, walked := ?_, signal_head := ?_, unlock_ok := ?_, wait_rec := ?_,
           fresh_waiting := ?_, loaded_ne := ?_, loaded_eq := ?_, timed_flag := ?_, exit_ok := ?_,
           is_timeout := ?_, done_wait := ?_ }
  all_goals simp [hg, G.init, hpc, hdone, hser, marksOf]

/-- the full invariant -/
structure Inv (B : Nat) (c : Cfg G L) : Prop where
  a : InvA B c
  b : InvB B c

/-- the invariant holds in every reachable configuration (induction on `Reach`: any number of
    threads, any programs, any interleaving incl. spurious wake-ups and timeouts) -/
theorem Inv.reach {c : Cfg G L} (hr : Reach (sys B) Init c) : Inv B c :=
  Reach.invariant (Inv B) (fun _ h => ⟨InvA.init h, InvB.init h⟩)
    (fun _ _ _ _ hi hs => ⟨hi.a.step hs, InvB.step hi.a hi.b hs⟩) hr

end W2c2Verif.Futex
