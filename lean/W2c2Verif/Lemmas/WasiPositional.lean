/-
  Lemmas.WasiPositional — `wrapPositional` (lseek CUR ; lseek SET off ; readv/writev ; lseek SET orig)
  over the POSIX model equals `pread` / `pwrite`: the transfer happens at `off`, the file
  position of the description is unchanged afterwards — on success and on a transfer error.
-/
import W2c2Verif.Model.WasiPosix

namespace W2c2Verif.Model.Wasi
open W2c2Verif W2c2Verif.Spec.Posix

theorem set_self_of_getElem? {α : Type} (l : List α) (i : Nat) (a : α) (h : l[i]? = some a) : l.set i a = l := by
  apply List.ext_getElem?
  intro j
  rw [List.getElem?_set]
  by_cases hij : i = j
  · subst hij
    obtain ⟨hlt, heq⟩ := List.getElem?_eq_some_iff.mp h
    simp [hlt, heq.symm]
  · simp [hij]

/-- descriptor `fd` of host state `s` is an open description `⟨.file ino, pos, acc, flags⟩` of the
    regular file `f`, positioned within the file system's limit -/
structure IsFile (s : State) (fd : Int) (ino pos : Nat) (acc : Acc) (flags : List OFlag) (f : File) : Prop where
  nonneg : 0 ≤ fd
  ofd : s.fds[fd.toNat]? = some (some ⟨.file ino, pos, acc, flags⟩)
  file : s.fs.files[ino]? = some f
  posOk : pos ≤ s.maxBytes

section
variable {s : State} {fd : Int} {ino pos : Nat} {acc : Acc} {flags : List OFlag} {f : File}

theorem IsFile.ofd? (h : IsFile s fd ino pos acc flags f) : s.ofd? fd = some ⟨.file ino, pos, acc, flags⟩ := by
  unfold State.ofd?
  have : ¬ fd < 0 := by have := h.nonneg; omega
  rw [if_neg this, h.ofd]; rfl

theorem IsFile.setOfd_self (h : IsFile s fd ino pos acc flags f) :
    s.setOfd fd.toNat (some ⟨.file ino, pos, acc, flags⟩) = s := by
  unfold State.setOfd
  rw [set_self_of_getElem? _ _ _ h.ofd]

theorem IsFile.setPos (h : IsFile s fd ino pos acc flags f) (p : Nat) (hp : p ≤ s.maxBytes) :
    IsFile (s.setOfd fd.toNat (some ⟨.file ino, p, acc, flags⟩)) fd ino p acc flags f := by
  have hlt : fd.toNat < s.fds.length := (List.getElem?_eq_some_iff.mp h.ofd).1
  exact ⟨h.nonneg, by simp [State.setOfd, List.getElem?_set_self hlt], h.file, hp⟩

theorem setOfd_setOfd (s : State) (i : Nat) (a b : Option OFD) :
    (s.setOfd i a).setOfd i b = s.setOfd i b := by
  simp [State.setOfd, List.set_set]

/-- `lseek(fd, 0, SEEK_CUR)` returns the position and changes nothing -/
theorem lseek_cur_zero (h : IsFile s fd ino pos acc flags f) : s.lseek fd 0 .cur = (s, .ok pos) := by
  unfold State.lseek
  rw [h.ofd?]
  show (match s.fs.file? ino with
    | none => (s, R.err Errno.EIO)
    | some f => _) = _
  unfold FS.file?
  rw [h.file]
  show (if ((pos : Int) + 0 < 0 ∨ (pos : Int) + 0 > (s.maxBytes : Int)) then _ else _) = _
  have h1 : ¬ ((pos : Int) + 0 < 0 ∨ (pos : Int) + 0 > (s.maxBytes : Int)) := by
    have := h.posOk; omega
  rw [if_neg h1]
  have h2 : ((pos : Int) + 0).toNat = pos := by omega
  rw [h2]
  show (s.setOfd fd.toNat (some ⟨.file ino, pos, acc, flags⟩), R.ok pos) = _
  rw [h.setOfd_self]

/-- `lseek(fd, off, SEEK_SET)` with `0 ≤ off ≤ s_maxbytes` -/
theorem lseek_set (h : IsFile s fd ino pos acc flags f) (off : Nat) (hoff : off ≤ s.maxBytes) :
    s.lseek fd off .set = (s.setOfd fd.toNat (some ⟨.file ino, off, acc, flags⟩), .ok off) := by
  unfold State.lseek
  rw [h.ofd?]
  show (match s.fs.file? ino with
    | none => (s, R.err Errno.EIO)
    | some f => _) = _
  unfold FS.file?
  rw [h.file]
  show (if ((0 : Int) + (off : Int) < 0 ∨ (0 : Int) + (off : Int) > (s.maxBytes : Int)) then _ else _) = _
  have h1 : ¬ ((0 : Int) + (off : Int) < 0 ∨ (0 : Int) + (off : Int) > (s.maxBytes : Int)) := by omega
  rw [if_neg h1]
  have h2 : ((0 : Int) + (off : Int)).toNat = off := by omega
  rw [h2]

/-- `read` on a regular file -/
theorem read_file (h : IsFile s fd ino pos acc flags f) (n : Nat) :
    s.read fd n =
      if acc.canRead then
        (s.setOfd fd.toNat (some ⟨.file ino, pos + (f.read pos n).length, acc, flags⟩), .ok (f.read pos n))
      else (s, .err .EBADF) := by
  unfold State.read
  rw [h.ofd?]
  cases hr : acc.canRead
  · simp [hr]
  · simp only [hr, Bool.not_true, Bool.false_eq_true, ↓reduceIte, FS.file?, h.file]

/-- `pread` on a regular file at a non-negative offset -/
theorem pread_file (h : IsFile s fd ino pos acc flags f) (n off : Nat) :
    s.pread fd n off = if acc.canRead then (s, .ok (f.read off n)) else (s, .err .EBADF) := by
  unfold State.pread
  have h0 : ¬ ((off : Int) < 0) := by omega
  rw [if_neg h0, h.ofd?]
  cases hr : acc.canRead
  · simp [hr]
  · simp only [hr, Bool.not_true, Bool.false_eq_true, ↓reduceIte, FS.file?, h.file, Int.toNat_natCast]

end

/-- **pread by seek juggling.**  For a regular file and `0 ≤ off ≤ s_maxbytes`:
    `wrapPositional(readv)` returns exactly what `pread` returns and leaves the whole host
    state — in particular the file position — as it was, on success and on a transfer error. -/
theorem wrapPositional_readv_eq_pread {s : State} {fd : Int} {ino pos : Nat} {acc : Acc} {flags : List OFlag}
    {f : File} (h : IsFile s fd ino pos acc flags f) (off : Nat) (hoff : off ≤ s.maxBytes) (lens : List Nat)
    (hl : lens.sum ≠ 0) (hcnt : lens.length ≤ IOV_MAX) (hsz : f.size ≤ s.maxBytes) :
    wrapPositional posixHost s fd off (fun h' => posixHost.readv h' fd lens) = s.pread fd lens.sum off := by
  have h2 := h.setPos off hoff
  have hc : ¬ lens.length > IOV_MAX := by omega
  simp only [wrapPositional, posixHost]
  rw [lseek_cur_zero h]
  simp only
  rw [lseek_set h off hoff]
  simp only [if_neg hc]
  unfold State.readv
  rw [if_neg hl, read_file h2, pread_file h]
  cases hr : acc.canRead
  · -- not open for reading: EBADF from the transfer, position restored
    simp only [Bool.false_eq_true, ↓reduceIte]
    rw [lseek_set h2 pos h.posOk, setOfd_setOfd, h.setOfd_self]
  · simp only [↓reduceIte]
    have hlen : off + (f.read off lens.sum).length ≤ s.maxBytes := by
      rw [File.length_read]; omega
    have h3 := h2.setPos (off + (f.read off lens.sum).length) hlen
    rw [setOfd_setOfd] at h3 ⊢
    rw [lseek_set h3 pos h.posOk, setOfd_setOfd, h.setOfd_self]

section
variable {s : State} {fd : Int} {ino pos : Nat} {acc : Acc} {flags : List OFlag} {f : File}

/-- where a `write` of a description lands: at the end with O_APPEND, else at `p` -/
def landing (flags : List OFlag) (f : File) (p : Nat) : Nat := if flags.contains .append then f.size else p

/-- `write` on a regular file -/
theorem write_file (h : IsFile s fd ino pos acc flags f) (bs : Bytes) :
    s.write fd bs =
      if !acc.canWrite then (s, .err .EBADF)
      else if bs.isEmpty then (s, .ok 0)
      else if landing flags f pos ≥ s.maxBytes then (s, .err .EFBIG)
      else
        (({ s with fs := s.fs.setFile ino (f.write (landing flags f pos) (clip s.maxBytes (landing flags f pos) bs)) } : State).setOfd
            fd.toNat (some ⟨.file ino, landing flags f pos + (clip s.maxBytes (landing flags f pos) bs).length, acc, flags⟩),
          .ok (clip s.maxBytes (landing flags f pos) bs).length) := by
  unfold State.write
  rw [h.ofd?]
  simp only [FS.file?, h.file, landing]
  rfl

/-- `pwrite` on a regular file at a non-negative offset -/
theorem pwrite_file (h : IsFile s fd ino pos acc flags f) (bs : Bytes) (off : Nat) :
    s.pwrite fd bs off =
      if !acc.canWrite then (s, .err .EBADF)
      else if bs.isEmpty then (s, .ok 0)
      else if landing flags f off ≥ s.maxBytes then (s, .err .EFBIG)
      else
        ({ s with fs := s.fs.setFile ino (f.write (landing flags f off) (clip s.maxBytes (landing flags f off) bs)) },
          .ok (clip s.maxBytes (landing flags f off) bs).length) := by
  unfold State.pwrite
  have h0 : ¬ ((off : Int) < 0) := by omega
  rw [if_neg h0, h.ofd?]
  simp only [FS.file?, h.file, landing, Int.toNat_natCast]
  rfl

theorem clip_length_le (m p : Nat) (bs : Bytes) (hp : p < m) : p + (clip m p bs).length ≤ m := by
  unfold clip; simp; omega

end

/-- **pwrite by seek juggling.**  For a regular file and `0 ≤ off ≤ s_maxbytes`:
    `wrapPositional(writev)` has exactly the effect and result of `pwrite` (incl. the O_APPEND
    behaviour) and leaves the file position as it was, on success and on a transfer error. -/
theorem wrapPositional_writev_eq_pwrite {s : State} {fd : Int} {ino pos : Nat} {acc : Acc} {flags : List OFlag}
    {f : File} (h : IsFile s fd ino pos acc flags f) (off : Nat) (hoff : off ≤ s.maxBytes) (bufs : List Bytes)
    (hcnt : bufs.length ≤ IOV_MAX) :
    wrapPositional posixHost s fd off (fun h' => posixHost.writev h' fd bufs) = s.pwrite fd bufs.flatten off := by
  have h2 := h.setPos off hoff
  have hc : ¬ bufs.length > IOV_MAX := by omega
  have hlt : fd.toNat < s.fds.length := (List.getElem?_eq_some_iff.mp h.ofd).1
  have hino : ino < s.fs.files.length := (List.getElem?_eq_some_iff.mp h.file).1
  simp only [wrapPositional, posixHost]
  rw [lseek_cur_zero h]
  simp only
  rw [lseek_set h off hoff]
  simp only [if_neg hc]
  rw [pwrite_file h]
  -- name the state after the second lseek
  have hTm : (s.setOfd fd.toNat (some ⟨.file ino, off, acc, flags⟩)).maxBytes = s.maxBytes := rfl
  have hTfs : (s.setOfd fd.toNat (some ⟨.file ino, off, acc, flags⟩)).fs = s.fs := rfl
  have hTfds : (s.setOfd fd.toNat (some ⟨.file ino, off, acc, flags⟩)).fds
      = s.fds.set fd.toNat (some ⟨.file ino, off, acc, flags⟩) := rfl
  have hTdirs : (s.setOfd fd.toNat (some ⟨.file ino, off, acc, flags⟩)).dirs = s.dirs := rfl
  have hTpipes : (s.setOfd fd.toNat (some ⟨.file ino, off, acc, flags⟩)).pipes = s.pipes := rfl
  have hback : ∀ x : Option OFD, (s.setOfd fd.toNat x).setOfd fd.toNat (some ⟨.file ino, pos, acc, flags⟩) = s := by
    intro x; rw [setOfd_setOfd, h.setOfd_self]
  generalize hT : s.setOfd fd.toNat (some ⟨.file ino, off, acc, flags⟩) = T at h2 hTm hTfs hTfds hTdirs hTpipes
  rw [write_file h2]
  have hposT : pos ≤ T.maxBytes := by rw [hTm]; exact h.posOk
  cases hw : acc.canWrite
  · simp only [Bool.not_false, ↓reduceIte]
    rw [lseek_set h2 pos hposT]
    subst hT; rw [hback]
  · simp only [Bool.not_true, Bool.false_eq_true, ↓reduceIte]
    by_cases he : bufs.flatten.isEmpty
    · simp only [he, ↓reduceIte]
      rw [lseek_set h2 pos hposT]
      subst hT; rw [hback]
    · simp only [he, Bool.false_eq_true, ↓reduceIte, hTm]
      by_cases hbig : landing flags f off ≥ s.maxBytes
      · simp only [hbig, ↓reduceIte]
        rw [lseek_set h2 pos hposT]
        subst hT; rw [hback]
      · simp only [hbig, ↓reduceIte]
        have hp' : landing flags f off + (clip s.maxBytes (landing flags f off) bufs.flatten).length ≤ T.maxBytes := by
          rw [hTm]; exact clip_length_le _ _ _ (by omega)
        have hltT : fd.toNat < T.fds.length := by rw [hTfds]; simpa using hlt
        have hinoT : ino < T.fs.files.length := by rw [hTfs]; exact hino
        have h3 : IsFile
            (({ fs := T.fs.setFile ino (f.write (landing flags f off) (clip s.maxBytes (landing flags f off) bufs.flatten)),
                fds := T.fds, dirs := T.dirs, maxBytes := s.maxBytes, pipes := T.pipes } : State).setOfd
              fd.toNat (some ⟨.file ino, landing flags f off + (clip s.maxBytes (landing flags f off) bufs.flatten).length, acc, flags⟩))
            fd ino (landing flags f off + (clip s.maxBytes (landing flags f off) bufs.flatten).length) acc flags
            (f.write (landing flags f off) (clip s.maxBytes (landing flags f off) bufs.flatten)) := by
          refine ⟨h.nonneg, ?_, ?_, by rw [hTm] at hp'; exact hp'⟩
          · simp [State.setOfd, List.getElem?_set_self hltT]
          · simp [State.setOfd, FS.setFile, List.getElem?_set_self hinoT]
        rw [lseek_set h3 pos h.posOk, setOfd_setOfd]
        -- restoring the position gives back the original description
        simp only [State.setOfd, hTfds, hTfs, hTdirs, hTpipes, hTm, List.set_set]
        rw [set_self_of_getElem? _ _ _ h.ofd]

/-- the zero-length case of `readv`: also equal to `pread` of 0 bytes -/
theorem wrapPositional_readv_zero {s : State} {fd : Int} {ino pos : Nat} {acc : Acc} {flags : List OFlag}
    {f : File} (h : IsFile s fd ino pos acc flags f) (off : Nat) (hoff : off ≤ s.maxBytes) (lens : List Nat)
    (hl : lens.sum = 0) (hcnt : lens.length ≤ IOV_MAX) :
    wrapPositional posixHost s fd off (fun h' => posixHost.readv h' fd lens) = s.pread fd lens.sum off := by
  have h2 := h.setPos off hoff
  have hc : ¬ lens.length > IOV_MAX := by omega
  simp only [wrapPositional, posixHost]
  rw [lseek_cur_zero h]
  simp only
  rw [lseek_set h off hoff]
  simp only [if_neg hc]
  unfold State.readv
  rw [if_pos hl, h2.ofd?, pread_file h, hl]
  cases hr : acc.canRead
  · simp only [hr, Bool.not_false, ↓reduceIte, Bool.false_eq_true]
    rw [lseek_set h2 pos h.posOk, setOfd_setOfd, h.setOfd_self]
  · simp only [hr, Bool.not_true, Bool.false_eq_true, ↓reduceIte]
    rw [lseek_set h2 pos h.posOk, setOfd_setOfd, h.setOfd_self]
    simp [File.read]

/-- `pread` never changes the host state; `pwrite` never changes the descriptor table -/
theorem pread_state (s : State) (fd : Int) (n : Nat) (off : Int) : (s.pread fd n off).1 = s := by
  unfold State.pread
  repeat' split
  all_goals rfl

theorem pwrite_fds (s : State) (fd : Int) (bs : Bytes) (off : Int) : (s.pwrite fd bs off).1.fds = s.fds := by
  unfold State.pwrite
  repeat' split
  all_goals first | rfl | (simp only; split <;> rfl)
