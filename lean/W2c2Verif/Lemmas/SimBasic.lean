/-
  Lemmas.SimBasic — basic facts for the simulation proof: slot store, `Rel`, frames.
-/
import W2c2Verif.Model.Sim

namespace W2c2Verif.Sim
open W2c2Verif Model Gen Spec

theorem vtOf_mkV (t : VT) (n : Nat) : vtOf (mkV t n) = t := by cases t <;> rfl

theorem mkV_bits_of_ty {v : Val} {t : VT} (h : vtOf v = t) : mkV t v.bits = v := by
  subst h; exact mkV_bits v

@[simp] theorem MSt.get_set_same (σ : MSt) (s : Slot) (v : Val) (h : vtOf v = s.ty) : (σ.set s v).get s = v := by
  simp [MSt.get, MSt.set, mkV_bits_of_ty h]

theorem MSt.get_set_other (σ : MSt) (s s' : Slot) (v : Val) (h : s' ≠ s) : (σ.set s v).get s' = σ.get s' := by
  simp [MSt.get, MSt.set, h]

@[simp] theorem MSt.set_locals (σ : MSt) (s : Slot) (v : Val) : (σ.set s v).store = σ.store := rfl

theorem vtOf_get (σ : MSt) (s : Slot) : vtOf (σ.get s) = s.ty := vtOf_mkV _ _

/-- slots with index below `b` are untouched -/
def SlotsBelow (b : Nat) (σ σ' : MSt) : Prop := ∀ s : Slot, s.idx < b → σ'.slots s = σ.slots s

theorem SlotsBelow.refl (b : Nat) (σ : MSt) : SlotsBelow b σ σ := fun _ _ => rfl
theorem SlotsBelow.trans {b : Nat} {σ₁ σ₂ σ₃ : MSt} (h₁ : SlotsBelow b σ₁ σ₂) (h₂ : SlotsBelow b σ₂ σ₃) :
    SlotsBelow b σ₁ σ₃ := fun s hs => (h₂ s hs).trans (h₁ s hs)
theorem SlotsBelow.mono {b b' : Nat} {σ σ' : MSt} (h : SlotsBelow b σ σ') (hb : b' ≤ b) : SlotsBelow b' σ σ' :=
  fun s hs => h s (Nat.lt_of_lt_of_le hs hb)
theorem SlotsBelow.set {b : Nat} (σ : MSt) (s : Slot) (v : Val) (h : b ≤ s.idx) : SlotsBelow b σ (σ.set s v) := by
  intro s' hs'
  have : s' ≠ s := by intro e; subst e; omega
  simp [MSt.set, this]
theorem SlotsBelow.locals {b : Nat} (σ : MSt) (l : Store) : SlotsBelow b σ { σ with store := l } := fun _ _ => rfl
theorem SlotsBelow.get {b : Nat} {σ σ' : MSt} (h : SlotsBelow b σ σ') (s : Slot) (hs : s.idx < b) : σ'.get s = σ.get s := by
  simp [MSt.get, h s hs]

/-! ### Rel -/

theorem Rel.length {stack : List VT} {stk : List Val} {σ : MSt} (h : Rel stack stk σ) : stk.length = stack.length := h.1

theorem Rel.nil (σ : MSt) : Rel [] [] σ := ⟨rfl, fun k h => absurd h (Nat.not_lt_zero k)⟩

theorem Rel.get {stack : List VT} {stk : List Val} {σ : MSt} (h : Rel stack stk σ) (k : Nat) (hk : k < stack.length) :
    σ.get ⟨stack[k], k⟩ = stk[k]'(by rw [h.1]; exact hk) := h.2 k hk (by rw [h.1]; exact hk)

/-- the dynamic type of operand `k` is the static one -/
theorem Rel.ty {stack : List VT} {stk : List Val} {σ : MSt} (h : Rel stack stk σ) (k : Nat) (hk : k < stack.length) :
    vtOf (stk[k]'(by rw [h.1]; exact hk)) = stack[k] := by
  rw [← h.get k hk]; exact vtOf_get _ _

theorem Rel.of_slotsBelow {stack : List VT} {stk : List Val} {σ σ' : MSt} (h : Rel stack stk σ)
    (hb : SlotsBelow stack.length σ σ') : Rel stack stk σ' := by
  refine ⟨h.1, fun k hk hk' => ?_⟩
  rw [hb.get ⟨stack[k], k⟩ hk]; exact h.2 k hk hk'

theorem Rel.take {stack : List VT} {stk : List Val} {σ : MSt} (h : Rel stack stk σ) (n : Nat) :
    Rel (stack.take n) (stk.take n) σ := by
  refine ⟨by simp [h.1], fun k hk hk' => ?_⟩
  have hk2 : k < stack.length := by simp at hk; omega
  simp only [List.getElem_take]
  exact h.2 k hk2 (by rw [h.1]; exact hk2)

theorem Rel.push {stack : List VT} {stk : List Val} {σ : MSt} (h : Rel stack stk σ) (t : VT) (v : Val) (hv : vtOf v = t) :
    Rel (stack ++ [t]) (stk ++ [v]) (σ.set ⟨t, stack.length⟩ v) := by
  refine ⟨by simp [h.1], fun k hk hk' => ?_⟩
  by_cases hlt : k < stack.length
  · have hne : (⟨(stack ++ [t])[k], k⟩ : Slot) ≠ ⟨t, stack.length⟩ := by
      intro e; have := congrArg Slot.idx e; simp at this; omega
    rw [MSt.get_set_other _ _ _ _ hne]
    have h1 : (stack ++ [t])[k] = stack[k] := List.getElem_append_left hlt
    have h2 : (stk ++ [v])[k] = stk[k]'(by rw [h.1]; exact hlt) := List.getElem_append_left (by rw [h.1]; exact hlt)
    rw [h2]
    have := h.2 k hlt (by rw [h.1]; exact hlt)
    simpa [h1] using this
  · have hk_eq : k = stack.length := by simp at hk; omega
    subst hk_eq
    have h1 : (stack ++ [t])[stack.length] = t := by simp
    have h2 : (stk ++ [v])[stack.length]'hk' = v := by
      have : stack.length = stk.length := h.1.symm
      simp [this]
    rw [h2]
    have : (⟨(stack ++ [t])[stack.length], stack.length⟩ : Slot) = ⟨t, stack.length⟩ := by rw [h1]
    rw [this]
    exact MSt.get_set_same _ _ _ hv

end W2c2Verif.Sim
