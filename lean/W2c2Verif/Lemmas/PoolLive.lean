/-
  Lemmas.PoolLive — the two remaining invariants of the worker pool:
    * `PInv` : (file indices held by workers ++ file indices already written) is a permutation of the indices
               taken out of the slot — with `Inv.tkseq` (the slot was emptied for 0, 1, 2, … in this order) this
               is "every task at most once", and at the end "exactly once";
    * `DInv` : whoever is parked can be woken without relying on a spurious wake-up.
-/
import W2c2Verif.Lemmas.PoolFacts
namespace W2c2Verif.Model.Pool
open W2c2Verif.Model

theorem upd_ne {L : Type} (f : Tid → L) {t u : Nat} (l : L) (h : u ≠ t) : upd f t l u = f u := upd_other f l h

/-! ### `pend` under a change of one thread -/

theorem pend_congr {ls ls' : Tid → Loc} : ∀ n : Nat, (∀ u : Nat, 1 ≤ u → u ≤ n → ls' u = ls u) →
    pend ls' n = pend ls n
  | 0, _ => rfl
  | n + 1, h => by
    simp only [pend]
    rw [h (n + 1) (by omega) (Nat.le_refl _), pend_congr n (fun u h1 h2 => h u h1 (by omega))]

theorem pend_split (ls : Tid → Loc) (t : Nat) : ∀ n : Nat, 1 ≤ t → t ≤ n →
    ∃ A B, ∀ l' : Loc, pend (upd ls t l') n = A ++ contrib l' ++ B
  | 0, h1, h2 => by omega
  | n + 1, h1, h2 => by
    by_cases ht : t = n + 1
    · refine ⟨[], pend ls n, fun l' => ?_⟩
      subst ht
      simp only [pend, upd_same, List.nil_append]
      rw [pend_congr n (fun u _ hu => upd_ne ls l' (by omega))]
    · obtain ⟨A, B, h⟩ := pend_split ls t n h1 (by omega)
      refine ⟨contrib (ls (n + 1)) ++ A, B, fun l' => ?_⟩
      simp only [pend]
      rw [upd_ne ls l' (show n + 1 ≠ t from fun e => ht e.symm), h l']
      simp [List.append_assoc]

theorem upd_self {L : Type} (f : Tid → L) (t : Tid) : upd f t (f t) = f := by
  funext u; simp [upd_apply]; intro h; rw [h]

theorem pend_upd_same {ls : Tid → Loc} {t n : Nat} {l' : Loc} (h1 : 1 ≤ t) (h2 : t ≤ n)
    (hc : contrib l' = contrib (ls t)) : pend (upd ls t l') n = pend ls n := by
  obtain ⟨A, B, h⟩ := pend_split ls t n h1 h2
  have := h (ls t)
  rw [upd_self] at this
  rw [h l', this, hc]

theorem pend_upd_add {ls : Tid → Loc} {t n a : Nat} {l' : Loc} (h1 : 1 ≤ t) (h2 : t ≤ n)
    (hc : contrib (ls t) = []) (hc' : contrib l' = [a]) : (pend (upd ls t l') n).Perm (a :: pend ls n) := by
  obtain ⟨A, B, h⟩ := pend_split ls t n h1 h2
  have := h (ls t)
  rw [upd_self] at this
  rw [h l', this, hc, hc']
  simp only [List.append_nil, List.append_assoc, List.singleton_append]
  exact List.perm_middle

theorem pend_upd_remove {ls : Tid → Loc} {t n a : Nat} {l' : Loc} (h1 : 1 ≤ t) (h2 : t ≤ n)
    (hc : contrib (ls t) = [a]) (hc' : contrib l' = []) : (a :: pend (upd ls t l') n).Perm (pend ls n) := by
  obtain ⟨A, B, h⟩ := pend_split ls t n h1 h2
  have := h (ls t)
  rw [upd_self] at this
  rw [h l', this, hc, hc']
  simp only [List.append_nil, List.append_assoc, List.singleton_append]
  exact List.perm_middle.symm

theorem pend_upd_gt {ls : Tid → Loc} {t n : Nat} {l' : Loc} (h : n < t) : pend (upd ls t l') n = pend ls n :=
  pend_congr n (fun u _ hu => upd_ne ls l' (by omega))

/-! ### exactly once -/

def PInv (cfg : Cfg) (g : Sh) (ls : Tid → Loc) : Prop :=
  (pend ls cfg.N ++ g.ex.map (·.2.1)).Perm g.tk

theorem pinv_init (cfg : Cfg) : PInv cfg (initState cfg).1 (initState cfg).2 := by
  unfold PInv
  have : pend (initState cfg).2 cfg.N = [] := by
    generalize cfg.N = n
    induction n with
    | zero => rfl
    | succ n ih =>
      simp only [pend, ih, List.append_nil]
      rcases initLoc_cases cfg (n + 1) with ⟨_, h⟩ | ⟨_, _, h⟩ | ⟨_, _, h⟩ <;> simp [initState, h, contrib]
  rw [this]; simp [initState]

/-- a thread beyond the N workers never moves -/
theorem mover_le_N {cfg : Cfg} {g : Sh} {ls : Tid → Loc} (I : Inv cfg g ls) {t : Nat} {g' : Sh} {l' : Loc}
    (hs : (g', l') ∈ step true cfg t g (ls t)) : t ≤ cfg.N := by
  by_cases h : t ≤ cfg.N
  · exact h
  · have := I.roleX t (by omega)
    simp [step, this] at hs

theorem pinv_step {cfg : Cfg} {g : Sh} {ls : Tid → Loc} (I : Inv cfg g ls) (P : PInv cfg g ls) (t : Nat) (g' : Sh)
    (l' : Loc) (hs : (g', l') ∈ step true cfg t g (ls t)) : PInv cfg g' (upd ls t l') := by
  unfold PInv at P ⊢
  have htN := mover_le_N I hs
  rcases sf_logs I t g' l' hs with ⟨h1, h2, h3⟩ | ⟨ht, h1, h2, h3, h4⟩ | ⟨ht, h1, h2, h3, h4⟩
  · rw [h1, h2]
    by_cases ht : 1 ≤ t
    · rw [pend_upd_same ht htN h3]; exact P
    · have : t = 0 := by omega
      subst this
      -- the producer is not among the workers 1..N
      rw [pend_congr cfg.N (fun u hu _ => upd_ne ls l' (by omega))]; exact P
  · rw [h3, h4]
    have hp := pend_upd_add (n := cfg.N) ht htN h1 h2
    exact ((hp.append_right _).trans (by simp)).trans (List.Perm.cons _ P)
  · rw [h3, h4]
    have hp := pend_upd_remove (n := cfg.N) ht htN h1 h2
    simp only [List.map_cons]
    refine List.Perm.trans ?_ P
    exact (List.perm_middle).trans (hp.append_right _)

/-! ### nobody sleeps forever -/

structure DInv (cfg : Cfg) (g : Sh) (ls : Tid → Loc) : Prop where
  act : g.taskSet = true → (ls 0).pc = .p6 ∨ ∃ w : Nat, 1 ≤ w ∧ w ≤ cfg.N ∧ Active g ls w
  owe : 0 ∈ g.produce → (g.taskSet = true ∧ ∃ w : Nat, 1 ≤ w ∧ w ≤ cfg.N ∧ Active g ls w) ∨
    ∃ w : Nat, 1 ≤ w ∧ w ≤ cfg.N ∧ Owing ls w

theorem dinv_init (cfg : Cfg) : DInv cfg (initState cfg).1 (initState cfg).2 := by
  constructor <;> intro h <;> simp [initState] at h

/-- another thread's step keeps an active worker active -/
theorem active_other {cfg : Cfg} {g : Sh} {ls : Tid → Loc} (I : Inv cfg g ls) {t : Nat} {g' : Sh} {l' : Loc}
    (hs : (g', l') ∈ step true cfg t g (ls t)) {w : Nat} (hw : w ≠ t) (ha : Active g ls w) :
    Active g' (upd ls t l') w := by
  unfold Active at ha ⊢
  rw [upd_ne ls l' hw]
  refine ⟨ha.1, fun ⟨h1, h2⟩ => ha.2 ⟨h1, ?_⟩⟩
  rcases sf_consume I t g' l' hs w h2 with h | ⟨h, _⟩
  · exact h
  · exact absurd h hw

theorem active_step {cfg : Cfg} {g : Sh} {ls : Tid → Loc} (I : Inv cfg g ls) {t : Nat} {g' : Sh} {l' : Loc}
    (hs : (g', l') ∈ step true cfg t g (ls t)) (hts : g'.taskSet = true) {w : Nat} (h1 : 1 ≤ w)
    (ha : Active g ls w) : Active g' (upd ls t l') w := by
  by_cases hw : w = t
  · subst hw; exact sf_active I w g' l' hs h1 ha hts
  · exact active_other I hs hw ha

theorem dinv_step {cfg : Cfg} (hN : 1 ≤ cfg.N) {g : Sh} {ls : Tid → Loc} (I : Inv cfg g ls) (D : DInv cfg g ls)
    (t : Nat) (g' : Sh) (l' : Loc) (hs : (g', l') ∈ step true cfg t g (ls t)) : DInv cfg g' (upd ls t l') := by
  have I' := inv_step I t g' l' hs
  have htN := mover_le_N I hs
  have hact : g'.taskSet = true → (upd ls t l' 0).pc = .p6 ∨ ∃ w : Nat, 1 ≤ w ∧ w ≤ cfg.N ∧
      Active g' (upd ls t l') w := by
    intro hts
    rcases sf_taskSet I t g' l' hs hts with h | ⟨rfl, _, h⟩
    · rcases D.act h with h6 | ⟨w, h1, h2, ha⟩
      · -- the producer was at its signal
        by_cases ht : t = 0
        · subst ht
          -- p6: signal(consume)
          have hstep := hs
          simp only [step, h6, List.mem_map] at hstep
          obtain ⟨c, hc, heq⟩ := hstep
          have hg' : g'.consume = c := by cases heq; rfl
          rcases mem_signalChoices hc with ⟨hnil, hcn⟩ | ⟨w, hw, hcf⟩
          · -- nobody was parked: worker 1 is active
            refine Or.inr ⟨1, Nat.le_refl _, hN, ?_, ?_⟩
            · rw [upd_ne ls l' (by decide)]
              intro hret
              have := (I.ret2 1 (Nat.le_refl _) hN hret).2
              have := (I.dn1 this).1
              rw [h] at this; cases this
            · rintro ⟨_, hin⟩
              rw [hg', hcn] at hin; cases hin
          · -- the woken worker is active
            have hpc := I.cons w hw
            have hw1 : 1 ≤ w := by
              rcases Nat.eq_zero_or_pos w with rfl | h
              · have := I.role0; rw [hpc] at this; simp [PC.isProducer, PC.isWorker] at this
              · exact h
            have hwN : w ≤ cfg.N := by
              by_cases hle : w ≤ cfg.N
              · exact hle
              · have := I.roleX w (Nat.lt_of_not_le hle); rw [hpc] at this; cases this
            refine Or.inr ⟨w, hw1, hwN, ?_, ?_⟩
            · rw [upd_ne ls l' (Nat.pos_iff_ne_zero.mp hw1), hpc]; decide
            · rintro ⟨_, hin⟩
              rw [hg', hcf] at hin
              simp at hin
        · left; rw [upd_ne ls l' (fun e => ht e.symm)]; exact h6
      · exact Or.inr ⟨w, h1, h2, active_step I hs hts h1 ha⟩
    · left; rw [upd_same]; exact h
  refine ⟨hact, ?_⟩
  intro hp
  rcases sf_produce I t g' l' hs hp with h | ⟨rfl, hpc, hcons, hts⟩
  · rcases D.owe h with ⟨hts, w, h1, h2, ha⟩ | ⟨w, h1, h2, ho⟩
    · cases hts' : g'.taskSet with
      | true => exact Or.inl ⟨rfl, w, h1, h2, active_step I hs hts' h1 ha⟩
      | false =>
        obtain ⟨ht1, ho⟩ := sf_clear I t g' l' hs hts hts'
        exact Or.inr ⟨t, ht1, htN, ho⟩
    · by_cases hw : w = t
      · subst hw
        rcases sf_owing I w g' l' hs h1 ho with h' | h'
        · exact Or.inr ⟨w, h1, h2, h'⟩
        · exact absurd hp h'
      · refine Or.inr ⟨w, h1, h2, ?_⟩
        unfold Owing at ho ⊢
        rw [upd_ne ls l' hw]; exact ho
  · -- the producer has just parked: the slot is full and it is not at p6
    have hts0 : g.taskSet = true := by
      rcases hpc with h | h
      · exact I.ppc.1 (Or.inl h)
      · exact I.ppc.1 (Or.inr (Or.inl h))
    have hne6 : (ls 0).pc ≠ .p6 := by rcases hpc with h | h <;> rw [h] <;> decide
    rcases D.act hts0 with h6 | ⟨w, h1, h2, ha⟩
    · exact absurd h6 hne6
    · refine Or.inl ⟨by rw [hts]; exact hts0, w, h1, h2, ?_⟩
      exact active_other I hs (by omega) ha

theorem live_reach {cfg : Cfg} (hN : 1 ≤ cfg.N) {s : Sh × (Tid → Loc)} (hr : Reachable cfg s) :
    Inv cfg s.1 s.2 ∧ PInv cfg s.1 s.2 ∧ DInv cfg s.1 s.2 := by
  induction hr with
  | init => exact ⟨inv_init cfg, pinv_init cfg, dinv_init cfg⟩
  | step t g' l' _ hs ih =>
    exact ⟨inv_step ih.1 t g' l' hs, pinv_step ih.1 ih.2.1 t g' l' hs, dinv_step hN ih.1 ih.2.2 t g' l' hs⟩

end W2c2Verif.Model.Pool
