/-
  Lemmas.Float — facts about the exact soft-float `SF` used by the float properties.
-/
import W2c2Verif.CSem.Float

namespace W2c2Verif.SF

theorem decode_eq_nan_iff (f : Fmt) (a : Nat) : decode f a = .nan ↔ isNaN f a = true := by
  unfold decode isNaN
  by_cases h1 : expOf f a = f.expMax
  · by_cases h2 : fracOf f a = 0 <;> simp [h1, h2]
  · by_cases h3 : expOf f a = 0
    · have h1' : ¬ (0 = f.expMax) := by rw [← h3]; exact h1
      simp [h3, h1']
    · simp [h1, h3]

theorem cmpFin_self (s : Bool) (m : Nat) (e : Int) : cmpFin s m e s m e = .eq := by
  unfold cmpFin; simp

/-- `x == x` is false exactly for NaNs -/
theorem eq_self (f : Fmt) (a : Nat) : eq f a a = !isNaN f a := by
  unfold eq cmp
  cases h : decode f a with
  | nan => have := (decode_eq_nan_iff f a).mp h; simp [this]
  | inf s =>
    have : isNaN f a = false := by
      cases hn : isNaN f a with
      | false => rfl
      | true => have := (decode_eq_nan_iff f a).mpr hn; rw [h] at this; cases this
    simp [this]
  | fin s m e =>
    have : isNaN f a = false := by
      cases hn : isNaN f a with
      | false => rfl
      | true => have := (decode_eq_nan_iff f a).mpr hn; rw [h] at this; cases this
    simp [this, cmpFin_self]

theorem abs_eq_zero_iff (f : Fmt) (a : Nat) :
    abs f a = 0 ↔ fracOf f a = 0 ∧ expOf f a = 0 := by
  unfold abs fracOf expOf
  rw [Nat.pow_add, Nat.mod_mul]
  constructor
  · intro h
    have h1 : a % 2 ^ f.mbits = 0 := by omega
    have h2 : 2 ^ f.mbits * (a / 2 ^ f.mbits % 2 ^ f.ebits) = 0 := by omega
    have hp : 0 < 2 ^ f.mbits := Nat.two_pow_pos _
    rcases Nat.mul_eq_zero.mp h2 with h3 | h3
    · omega
    · exact ⟨h1, h3⟩
  · rintro ⟨h1, h2⟩; simp [h1, h2]

theorem expMax_pos (f : Fmt) (h : 0 < f.ebits) : 0 < f.expMax := by
  unfold Fmt.expMax
  have : 2 ^ 1 ≤ 2 ^ f.ebits := Nat.pow_le_pow_right (by decide) h
  omega

theorem isZero_iff (f : Fmt) (a : Nat) : isZero f a = true ↔ fracOf f a = 0 ∧ expOf f a = 0 := by
  unfold isZero; simp [abs_eq_zero_iff]

theorem decode_of_isZero (f : Fmt) (h : 0 < f.ebits) (a : Nat) (hz : isZero f a = true) :
    decode f a = .fin (signOf f a) 0 f.emin := by
  obtain ⟨h1, h2⟩ := (isZero_iff f a).mp hz
  have := expMax_pos f h
  unfold decode
  have h3 : ¬ (0 = f.expMax) := by omega
  simp [h1, h2, h3]

theorem decode_zero (f : Fmt) (h : 0 < f.ebits) : decode f 0 = .fin false 0 f.emin := by
  have hz : isZero f 0 = true := by simp [isZero, abs]
  have := decode_of_isZero f h 0 hz
  simpa [signOf] using this

theorem cmpFin_zero_right (s : Bool) (m : Nat) (e g : Int) :
    (cmpFin s m e false 0 g == .eq) = (m == 0) := by
  unfold cmpFin
  by_cases hm : m = 0
  · subst hm; simp
  · have hpos : 0 < m <<< (e - min e g).toNat := by
      rw [Nat.shiftLeft_eq]; exact Nat.mul_pos (Nat.pos_of_ne_zero hm) (Nat.two_pow_pos _)
    cases s <;> simp [hm, compare, compareOfLessAndEq] <;> split <;> simp [hm]

/-- `x == 0` (comparison with the integer literal 0 converted to the float type) holds exactly for ±0 -/
theorem eq_zero (f : Fmt) (h : 0 < f.ebits) (a : Nat) : eq f a 0 = isZero f a := by
  unfold eq cmp
  rw [decode_zero f h]
  cases hd : decode f a with
  | nan =>
    have hn := (decode_eq_nan_iff f a).mp hd
    have : isZero f a = false := by
      cases hz : isZero f a with
      | false => rfl
      | true => rw [decode_of_isZero f h a hz] at hd; cases hd
    simp [this]
  | inf s =>
    have : isZero f a = false := by
      cases hz : isZero f a with
      | false => rfl
      | true => rw [decode_of_isZero f h a hz] at hd; cases hd
    simp [this]; cases s <;> simp
  | fin s m e =>
    simp only []
    have key := cmpFin_zero_right s m e f.emin
    have hm : (m == 0) = isZero f a := by
      cases hz : isZero f a with
      | true =>
        rw [decode_of_isZero f h a hz] at hd
        injection hd with _ h2 _; subst h2; rfl
      | false =>
        have hnz : ¬ (fracOf f a = 0 ∧ expOf f a = 0) := by
          intro hh; have := (isZero_iff f a).mpr hh; rw [this] at hz; cases hz
        unfold decode at hd
        by_cases h1 : expOf f a = f.expMax
        · by_cases h2 : fracOf f a = 0 <;> simp [h1, h2] at hd
        · by_cases h3 : expOf f a = 0
          · have h1' : ¬ (0 = f.expMax) := by rw [← h3]; exact h1
            simp [h3, h1'] at hd
            obtain ⟨_, h5, _⟩ := hd
            have : ¬ fracOf f a = 0 := fun hf => hnz ⟨hf, h3⟩
            subst h5; simp [this]
          · simp [h1, h3] at hd
            obtain ⟨_, h5, _⟩ := hd
            have hp := Nat.two_pow_pos f.mbits
            subst h5; simp
    rw [← hm]
    simpa using key

end W2c2Verif.SF
