/-
  Lemmas.SimLabels — the labels the emitted code defines are pairwise distinct and every goto has a target (C11: the output compiles).
-/
import W2c2Verif.Lemmas.SimDecls
set_option linter.unusedSimpArgs false
set_option linter.unusedVariables false
namespace W2c2Verif.Sim
open W2c2Verif Model Gen Spec

def cpTarget (x : Option (Slot × Slot) × Nat) : Nat := x.2

mutual
/-- labels a statement defines (`L<n>:;`), including nested ones -/
def labelsStmt : MStmtC → List Nat
  | .block body L => L :: labelsSeq body
  | .loop L body => L :: labelsSeq body
  | .ifElse _ thn els L => L :: labelsSeq thn ++ (match els with | some e => labelsSeq e | none => [])
  | _ => []
def labelsSeq : List MStmtC → List Nat
  | [] => []
  | s :: rest => labelsStmt s ++ labelsSeq rest
end

mutual
/-- labels a statement jumps to -/
def gotosStmt : MStmtC → List Nat
  | .goto _ L => [L]
  | .ifGoto _ _ L => [L]
  | .switchGoto _ cases dflt => cases.map (·.2) ++ [dflt.2]
  | .block body _ => gotosSeq body
  | .loop _ body => gotosSeq body
  | .ifElse _ thn els _ => gotosSeq thn ++ (match els with | some e => gotosSeq e | none => [])
  | _ => []
def gotosSeq : List MStmtC → List Nat
  | [] => []
  | s :: rest => gotosStmt s ++ gotosSeq rest
end

theorem labelsSeq_append (a b : List MStmtC) : labelsSeq (a ++ b) = labelsSeq a ++ labelsSeq b := by
  induction a with
  | nil => simp [labelsSeq]
  | cons x xs ih => simp [labelsSeq, ih]
theorem gotosSeq_append (a b : List MStmtC) : gotosSeq (a ++ b) = gotosSeq a ++ gotosSeq b := by
  induction a with
  | nil => simp [gotosSeq]
  | cons x xs ih => simp [gotosSeq, ih]

/-- label facts of one translation step: the labels it defines are pairwise distinct and fresh (in
    `[s.next, s'.next)`), and every `goto` targets an enclosing open label or a label defined in the output -/
structure LabelStep (s s' : St) (out : List MStmtC) : Prop where
  nodup : (labelsSeq out).Nodup
  fresh : ∀ L ∈ labelsSeq out, s.next ≤ L ∧ L < s'.next
  next : s.next ≤ s'.next
  target : ∀ L ∈ gotosSeq out, (∃ lab ∈ s.labels, lab.index = L) ∨ L ∈ labelsSeq out

theorem LabelStep.refl (s : St) : LabelStep s s [] :=
  ⟨by simp [labelsSeq], by simp [labelsSeq], Nat.le_refl _, by simp [gotosSeq]⟩

theorem LabelStep.trans {s s1 s2 : St} {o1 o2 : List MStmtC} (h1 : LabelStep s s1 o1) (h2 : LabelStep s1 s2 o2)
    (hl : s1.labels = s.labels) : LabelStep s s2 (o1 ++ o2) := by
  refine ⟨?_, ?_, Nat.le_trans h1.next h2.next, ?_⟩
  · rw [labelsSeq_append, List.nodup_append]
    refine ⟨h1.nodup, h2.nodup, ?_⟩
    intro a ha b hb e
    subst e
    have := (h1.fresh a ha).2
    have := (h2.fresh a hb).1
    omega
  · intro L hL
    rw [labelsSeq_append, List.mem_append] at hL
    rcases hL with h | h
    · have := h1.fresh L h; have := h2.next; omega
    · have := h2.fresh L h; have := h1.next; omega
  · intro L hL
    rw [gotosSeq_append, List.mem_append] at hL
    rw [labelsSeq_append, List.mem_append]
    rcases hL with h | h
    · rcases h1.target L h with h' | h'
      · exact Or.inl h'
      · exact Or.inr (Or.inl h')
    · rcases h2.target L h with h' | h'
      · rw [hl] at h'; exact Or.inl h'
      · exact Or.inr (Or.inr h')

/-- an instruction that defines no label and jumps nowhere -/
theorem LabelStep.plain {s s' : St} {out : List MStmtC} (hn : s.next ≤ s'.next) (hl : labelsSeq out = []) (hg : gotosSeq out = []) :
    LabelStep s s' out := ⟨by simp [hl], by simp [hl], hn, by simp [hg]⟩

theorem brTable_fold_targets (ls : List Nat) : ∀ (s0 : St) (cs : List (Option (Slot × Slot) × Nat)) (s1 : St) (cases : List (Option (Slot × Slot) × Nat)),
    ls.foldl brTableStep (.ok (s0, cs)) = .ok (s1, cases) → (∀ x ∈ cs, ∃ lab ∈ s0.labels, lab.index = x.2) →
    ∀ x ∈ cases, ∃ lab ∈ s0.labels, lab.index = x.2 := by
  induction ls with
  | nil => intro s0 cs s1 cases h hcs; simp at h; obtain ⟨rfl, rfl⟩ := h; exact hcs
  | cons l rest ih =>
    intro s0 cs s1 cases h hcs
    simp only [List.foldl_cons] at h
    cases hstep : brTableStep (.ok (s0, cs)) l with
    | error e =>
      rw [hstep] at h
      have : ∀ (xs : List Nat), xs.foldl brTableStep (.error e) = .error e := by
        intro xs; induction xs with
        | nil => rfl
        | cons x xs ihx => simp only [List.foldl_cons]; exact ihx
      rw [this] at h; cases h
    | ok res =>
      obtain ⟨sa, ca⟩ := res
      rw [hstep] at h
      simp only [brTableStep, bind, Except.bind] at hstep
      cases hlab : s0.label l with
      | none => simp [hlab] at hstep
      | some lab =>
        cases hg : gotoCopy s0 lab with
        | none => simp [hlab, hg] at hstep
        | some r =>
          obtain ⟨sb, cp⟩ := r
          simp only [hlab, hg] at hstep
          injection hstep with hstep
          simp only [Prod.mk.injEq] at hstep
          obtain ⟨rfl, rfl⟩ := hstep
          have hsame := gotoCopy_same hg
          have := ih sb _ s1 cases h (by
            intro x hx
            simp only [List.mem_append, List.mem_cons, List.mem_nil_iff, or_false] at hx
            rw [hsame.2.1]
            rcases hx with hx | rfl
            · exact hcs x hx
            · exact ⟨lab, St.label_mem hlab, rfl⟩)
          intro x hx
          have := this x hx
          rw [hsame.2.1] at this
          exact this

set_option hygiene false in
macro "label_simple" : tactic => `(tactic| (
  have hst := instr_static ctx _ s s' out dead hc hw
  simp only [compileInstr, bind, Except.bind] at hc
  repeat' (split at hc)
  all_goals (first
    | (cases hc; done)
    | (injection hc with hc; simp only [Prod.mk.injEq] at hc; obtain ⟨rfl, rfl, _⟩ := hc
       exact LabelStep.plain hst.next (by simp [labelsSeq, labelsStmt]) (by simp [gotosSeq, gotosStmt])))))

theorem enter_label (s : St) (L : Nat) (bt : Option VT) (l : Nat)
    (h : ∃ lab ∈ ({ s with labels := s.labels ++ [⟨L, s.height, bt⟩], next := s.next + 1 } : St).labels, lab.index = l) :
    (∃ lab ∈ s.labels, lab.index = l) ∨ l = L := by
  obtain ⟨lab, hm, rfl⟩ := h
  simp only [List.mem_append, List.mem_cons, List.mem_nil_iff, or_false] at hm
  rcases hm with hm | rfl
  · exact Or.inl ⟨lab, hm, rfl⟩
  · exact Or.inr rfl

theorem LabelStep.congr_left {s t s' : St} {out : List MStmtC} (h : LabelStep s s' out) (hn : t.next = s.next) (hl : t.labels = s.labels) :
    LabelStep t s' out :=
  ⟨h.nodup, fun L hL => by rw [hn]; exact h.fresh L hL, by rw [hn]; exact h.next, fun L hL => by rw [hl]; exact h.target L hL⟩

/-- a structured statement: its own fresh label plus the body's -/
theorem LabelStep.wrap {s sIn sB s' : St} {outB : List MStmtC} {bt : Option VT}
    {h : Nat} (hB : LabelStep sIn sB outB) (hIn : sIn.next = s.next + 1) (hlab : sIn.labels = s.labels ++ [⟨s.next, h, bt⟩])
    (hn : sB.next ≤ s'.next) (stmt : MStmtC) (hl : labelsStmt stmt = s.next :: labelsSeq outB) (hg : gotosStmt stmt = gotosSeq outB) :
    LabelStep s s' [stmt] := by
  refine ⟨?_, ?_, by have := hB.next; omega, ?_⟩
  · simp only [labelsSeq, hl, List.append_nil, List.nodup_cons]
    refine ⟨fun hmem => ?_, hB.nodup⟩
    have := (hB.fresh _ hmem).1; omega
  · intro L hL
    simp only [labelsSeq, hl, List.append_nil, List.mem_cons] at hL
    rcases hL with rfl | hL
    · have := hB.next; omega
    · have := hB.fresh L hL; omega
  · intro L hL
    simp only [gotosSeq, hg, List.append_nil] at hL
    simp only [labelsSeq, hl, List.append_nil, List.mem_cons]
    rcases hB.target L hL with h | h
    · rw [hlab] at h
      obtain ⟨lab, hm, rfl⟩ := h
      simp only [List.mem_append, List.mem_cons, List.mem_nil_iff, or_false] at hm
      rcases hm with hm | rfl
      · exact Or.inl ⟨lab, hm, rfl⟩
      · exact Or.inr (Or.inl rfl)
    · exact Or.inr (Or.inr h)

mutual
theorem seq_labels (ctx : Ctx) : ∀ (is : List EInstr) (s s' : St) (out : List MStmtC) (dead : Bool),
    compileSeq ctx s is = .ok (s', out, dead) → WF s → LabelStep s s' out
  | [], s, s', out, dead, hc, hw => by
    simp [compileSeq] at hc
    obtain ⟨rfl, rfl, _⟩ := hc
    exact LabelStep.refl s
  | i :: rest, s, s', out, dead, hc, hw => by
    simp only [compileSeq] at hc
    cases hci : compileInstr ctx s i with
    | error e => simp [hci, bind, Except.bind] at hc
    | ok res =>
      obtain ⟨s1, out1, dead1⟩ := res
      simp only [hci, bind, Except.bind] at hc
      have h1 := instr_labels ctx i s s1 out1 dead1 hci hw
      have hst1 := instr_static ctx i s s1 out1 dead1 hci hw
      cases dead1 with
      | true =>
        simp at hc
        obtain ⟨rfl, rfl, _⟩ := hc
        exact h1
      | false =>
        simp only [Bool.false_eq_true, if_false] at hc
        cases hcr : compileSeq ctx s1 rest with
        | error e => simp [hcr] at hc
        | ok res2 =>
          obtain ⟨s2, out2, dead2⟩ := res2
          simp only [hcr] at hc
          injection hc with hc
          simp only [Prod.mk.injEq] at hc
          obtain ⟨rfl, rfl, _⟩ := hc
          exact h1.trans (seq_labels ctx rest s1 s2 out2 dead2 hcr hst1.wf) hst1.labels

theorem instr_labels (ctx : Ctx) : ∀ (i : EInstr) (s s' : St) (out : List MStmtC) (dead : Bool),
    compileInstr ctx s i = .ok (s', out, dead) → WF s → LabelStep s s' out
  | .nop, s, s', out, dead, hc, hw => by label_simple
  | .unreachable, s, s', out, dead, hc, hw => by label_simple
  | .drop, s, s', out, dead, hc, hw => by label_simple
  | .select, s, s', out, dead, hc, hw => by label_simple
  | .const t bits, s, s', out, dead, hc, hw => by label_simple
  | .localGet k, s, s', out, dead, hc, hw => by label_simple
  | .localSet k, s, s', out, dead, hc, hw => by label_simple
  | .localTee k, s, s', out, dead, hc, hw => by label_simple
  | .globalGet k, s, s', out, dead, hc, hw => by label_simple
  | .globalSet k, s, s', out, dead, hc, hw => by label_simple
  | .load o off, s, s', out, dead, hc, hw => by label_simple
  | .store o off, s, s', out, dead, hc, hw => by label_simple
  | .memorySize, s, s', out, dead, hc, hw => by label_simple
  | .memoryGrow, s, s', out, dead, hc, hw => by label_simple
  | .memoryCopy, s, s', out, dead, hc, hw => by label_simple
  | .memoryFill, s, s', out, dead, hc, hw => by label_simple
  | .memoryInit seg, s, s', out, dead, hc, hw => by label_simple
  | .dataDrop seg, s, s', out, dead, hc, hw => by label_simple
  | .atomicLoad o off, s, s', out, dead, hc, hw => by label_simple
  | .atomicStore o off, s, s', out, dead, hc, hw => by label_simple
  | .atomicRmw o off, s, s', out, dead, hc, hw => by label_simple
  | .atomicCmpxchg o off, s, s', out, dead, hc, hw => by label_simple
  | .atomicFence, s, s', out, dead, hc, hw => by label_simple
  | .atomicNotify off, s, s', out, dead, hc, hw => by label_simple
  | .atomicWait b off, s, s', out, dead, hc, hw => by label_simple
  | .numeric o, s, s', out, dead, hc, hw => by label_simple
  | .call f, s, s', out, dead, hc, hw => by label_simple
  | .callIndirect ty tbl, s, s', out, dead, hc, hw => by label_simple
  | .br l, s, s', out, dead, hc, hw => by
    have hst := instr_static ctx _ s s' out dead hc hw
    simp only [compileInstr, bind, Except.bind] at hc
    repeat' (split at hc)
    all_goals first | (cases hc; done) | skip
    have hlab := ‹s.label l = some _›
    injection hc with hc
    simp only [Prod.mk.injEq] at hc
    obtain ⟨rfl, rfl, _⟩ := hc
    refine ⟨by simp [labelsSeq, labelsStmt], by simp [labelsSeq, labelsStmt], hst.next, ?_⟩
    intro L hL
    simp only [gotosSeq, gotosStmt, List.append_nil, List.mem_cons, List.mem_nil_iff, or_false] at hL
    subst hL
    exact Or.inl ⟨_, St.label_mem hlab, rfl⟩
  | .brIf l, s, s', out, dead, hc, hw => by
    have hst := instr_static ctx _ s s' out dead hc hw
    simp only [compileInstr, bind, Except.bind] at hc
    repeat' (split at hc)
    all_goals first | (cases hc; done) | skip
    have hlab := ‹(s.drop 1).label l = some _›
    injection hc with hc
    simp only [Prod.mk.injEq] at hc
    obtain ⟨rfl, rfl, _⟩ := hc
    refine ⟨by simp [labelsSeq, labelsStmt], by simp [labelsSeq, labelsStmt], hst.next, ?_⟩
    intro L hL
    simp only [gotosSeq, gotosStmt, List.append_nil, List.mem_cons, List.mem_nil_iff, or_false] at hL
    subst hL
    exact Or.inl ⟨_, St.label_mem (s := s) hlab, rfl⟩
  | .ret, s, s', out, dead, hc, hw => by
    have hst := instr_static ctx _ s s' out dead hc hw
    simp only [compileInstr, bind, Except.bind] at hc
    repeat' (split at hc)
    all_goals first | (cases hc; done) | skip
    have hlab := ‹s.labels[0]? = some _›
    injection hc with hc
    simp only [Prod.mk.injEq] at hc
    obtain ⟨rfl, rfl, _⟩ := hc
    refine ⟨by simp [labelsSeq, labelsStmt], by simp [labelsSeq, labelsStmt], hst.next, ?_⟩
    intro L hL
    simp only [gotosSeq, gotosStmt, List.append_nil, List.mem_cons, List.mem_nil_iff, or_false] at hL
    subst hL
    exact Or.inl ⟨_, List.mem_of_getElem? hlab, rfl⟩
  | .brTable ls d, s, s', out, dead, hc, hw => by
    have hst := instr_static ctx _ s s' out dead hc hw
    simp only [compileInstr, bind, Except.bind] at hc
    repeat' (split at hc)
    all_goals first | (cases hc; done) | skip
    have hfold := ‹List.foldl brTableStep _ _ = Except.ok _›
    have hlabD := ‹St.label _ d = some _›
    injection hc with hc
    simp only [Prod.mk.injEq] at hc
    obtain ⟨rfl, rfl, _⟩ := hc
    have hcases := brTable_fold_targets _ _ _ _ _ hfold (by intro x hx; simp at hx)
    obtain ⟨f1, f2, f3⟩ := brTable_fold_same _ _ _ _ _ hfold
    refine ⟨by simp [labelsSeq, labelsStmt], by simp [labelsSeq, labelsStmt], hst.next, ?_⟩
    intro L hL
    simp only [gotosSeq, gotosStmt, List.append_nil, List.mem_cons, List.mem_nil_iff, or_false, List.mem_append, List.mem_map] at hL
    rcases hL with ⟨x, hx, rfl⟩ | rfl
    · exact Or.inl (hcases x hx)
    · have := St.label_mem hlabD
      rw [f2] at this
      exact Or.inl ⟨_, this, rfl⟩
  | .block bt body, s, s', out, dead, hc, hw => by
    have hst := instr_static ctx _ s s' out dead hc hw
    simp only [compileInstr, bind, Except.bind] at hc
    split at hc
    · cases hc
    · rename_i res hcb
      obtain ⟨sB, outB, deadB⟩ := res
      simp only [] at hc
      split at hc
      · cases hc
      · injection hc with hc
        simp only [Prod.mk.injEq] at hc
        obtain ⟨rfl, rfl, _⟩ := hc
        have hB := seq_labels ctx body _ sB outB deadB hcb (hw.enter bt)
        exact hB.wrap (bt := bt) rfl rfl (by simp) _ (by simp [labelsStmt]) (by simp [gotosStmt])
  | .loop bt body, s, s', out, dead, hc, hw => by
    have hst := instr_static ctx _ s s' out dead hc hw
    simp only [compileInstr, bind, Except.bind] at hc
    split at hc
    · cases hc
    · rename_i res hcb
      obtain ⟨sB, outB, deadB⟩ := res
      simp only [] at hc
      split at hc
      · cases hc
      · injection hc with hc
        simp only [Prod.mk.injEq] at hc
        obtain ⟨rfl, rfl, _⟩ := hc
        have hB := seq_labels ctx body _ sB outB deadB hcb (hw.enter none)
        exact hB.wrap (bt := none) rfl rfl (by simp) _ (by simp [labelsStmt]) (by simp [gotosStmt])
  | .ite bt thn els, s, s', out, dead, hc, hw => by
    have hst := instr_static ctx _ s s' out dead hc hw
    rw [compileInstr] at hc
    cases hc0 : s.top 0 with
    | none => simp [hc0, bind, Except.bind] at hc
    | some c =>
      simp only [hc0, bind, Except.bind] at hc
      split at hc
      · cases hc
      · rename_i hcond
        have hge : s.base + 1 ≤ s.stack.length := by simp [St.height] at hcond; omega
        have hw0 : WF (s.drop 1) := hw.of_same rfl (Nat.le_refl _) (by simp; omega) (by have := hw.decl; simp; omega)
        split at hc
        · cases hc
        · rename_i res hcT
          obtain ⟨sT, outT, deadT⟩ := res
          simp only [] at hc
          split at hc
          · cases hc
          · have hT := seq_labels ctx thn _ sT outT deadT hcT (hw0.enter bt)
            have hstT := seq_static ctx thn _ sT outT deadT hcT (hw0.enter bt)
            cases els with
            | none =>
              simp only [] at hc
              split at hc
              · cases hc
              · injection hc with hc
                simp only [Prod.mk.injEq] at hc
                obtain ⟨rfl, rfl, _⟩ := hc
                exact LabelStep.wrap (s := s) (bt := bt) hT rfl rfl (by simp) _ (by simp [labelsStmt]) (by simp [gotosStmt])
            | some els =>
              simp only [] at hc
              split at hc
              · cases hc
              · rename_i res2 hcE
                obtain ⟨sE, outE, deadE⟩ := res2
                simp only [] at hc
                split at hc
                · cases hc
                · injection hc with hc
                  simp only [Prod.mk.injEq] at hc
                  obtain ⟨rfl, rfl, _⟩ := hc
                  have hbT : sT.base = (s.drop 1).height := by rw [hstT.base, St.base_enter]
                  have hlenT : (s.drop 1).height ≤ sT.stack.length := by
                    have := hstT.len; rw [St.base_enter] at this; exact this
                  have hwE0 : WF { sT with stack := sT.stack.take (s.drop 1).height } :=
                    hstT.wf.of_same rfl (Nat.le_refl _) (by simp only [List.length_take]; rw [hbT]; omega)
                      (by have := hstT.wf.decl; simp only [List.length_take]; omega)
                  have hE := seq_labels ctx els _ sE outE deadE hcE hwE0
                  -- both arms as one body: `outT ++ outE` from the entry state to `sE`
                  have hTE : LabelStep _ sE (outT ++ outE) := hT.trans (s1 := sT) (hE.congr_left rfl rfl) hstT.labels
                  exact LabelStep.wrap (s := s) (bt := bt) hTE rfl rfl (by simp) _
                    (by simp [labelsStmt, labelsSeq_append]) (by simp [gotosStmt, gotosSeq_append])
end

end W2c2Verif.Sim
