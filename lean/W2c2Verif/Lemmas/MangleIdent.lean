/-
  Lemmas.MangleIdent — the first character of an import's identifier: a leading byte of the module name that the wrapper does NOT escape
  is not a digit (false for the rule of a tree without `wasmCWrite{File,String}EscapedModule`).
-/
import W2c2Verif.Lemmas.Mangle
namespace W2c2Verif.Lemmas.Mangle
open W2c2Verif Model.Mangle Gen.Mangle

theorem not_leads_not_digit {c : UInt8} (h : leads c = false) : ¬ (48 ≤ c.toNat ∧ c.toNat ≤ 57) := by
  simp [leads, moduleLeadEscape, leadHolds] at h
  omega

/-- the module part never starts with a digit: its first character, if any, is a letter or an underscore -/
theorem escModL_head (m : List UInt8) : escModL m = [] ∨ ∃ h t, escModL m = h :: t ∧ isIdStart h = true := by
  cases m with
  | nil => exact .inl rfl
  | cons c rest =>
    right
    simp only [escModL]
    by_cases hl : leads c = true
    · exact ⟨escapeChar, hexL c ++ escL none rest, by simp [hl], by decide⟩
    · have hlf : leads c = false := by simpa using hl
      simp only [hlf, escL]
      rcases piece_cases none c with ⟨_, ⟨hp, _⟩ | ⟨hp, _⟩⟩ | ⟨_, hx, hk, hp⟩ | ⟨_, _, hp⟩
      · exact ⟨95, _, by rw [hp]; rfl, by decide⟩
      · exact ⟨95, _, by rw [hp]; rfl, by decide⟩
      · refine ⟨c.toNat, _, by rw [hp]; rfl, ?_⟩
        have ha := keeps_alnum hk
        have hd := not_leads_not_digit hlf
        simp [isAlnum] at ha
        simp [isIdStart]
        omega
      · exact ⟨88, _, by rw [hp]; rfl, by decide⟩

end W2c2Verif.Lemmas.Mangle
