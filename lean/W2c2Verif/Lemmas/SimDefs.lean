/-
  Lemmas.SimDefs — invariants and the statement shape of the simulation theorem (C03).
-/
import W2c2Verif.Lemmas.SimMono
namespace W2c2Verif.Sim
open W2c2Verif Model Gen Spec

/-! static invariants of the translator state -/
structure WF (s : St) : Prop where
  sorted : s.labels.Pairwise (fun a b => a.height ≤ b.height)
  below : ∀ lab ∈ s.labels, lab.height ≤ s.stack.length
  fresh : ∀ lab ∈ s.labels, lab.index < s.next
  nonempty : s.labels ≠ []
  /-- every operand on the type stack has a declared slot index (`stackDeclarations->length`) -/
  decl : s.stack.length ≤ s.declLen

/-- locals and globals have their declared types -/
structure LocTyped (ctx : Ctx) (loc : Store) : Prop where
  len : loc.locals.length = ctx.localTypes.length
  typed : ∀ k (h : k < loc.locals.length) (h' : k < ctx.localTypes.length), vtOf loc.locals[k] = ctx.localTypes[k]
  glob : GTyped ctx loc.g

/-- static result type of a numeric statement -/
def numResTy (opcode : String) (k : EmitKind) (t1 : VT) : VT := (numSlots opcode k t1 0 t1 0).1.ty

structure NumOK (ns : NumSem) : Prop where
  arity : ∀ opcode k, lookupAssoc Gen.emitTable opcode = some k →
    ns.arity opcode = (numSlots opcode k .i32 0 .i32 0).2.length
  typed : ∀ opcode k args v, lookupAssoc Gen.emitTable opcode = some k → ns.sem opcode args = .val v →
    ∀ a, args.head? = some a → vtOf v = numResTy opcode k (vtOf a)

/-- what the simulation needs to know about callees: arities agree with the module's types, results
    are typed, and the emitted-C side of a callee refines its specification side -/
structure CallOK (ns : NumSem) (ctx : Ctx) : Prop where
  arity : ∀ fn ti ft, ctx.funcTypeIdx[fn]? = some ti → ctx.types[ti]? = some ft → ft.results.length ≤ 1 →
    ns.callArity fn = some (ft.params.length, ft.results.head?.map vtOfW)
  typed : ∀ fn n t args g v g', GTyped ctx g → ns.callArity fn = some (n, some t) → ns.callS fn args g = .val (some v, g') → vtOf v = t
  pres : ∀ fn args g r, GTyped ctx g → ns.callS fn args g = .val r → GTyped ctx r.2
  refVal : ∀ fn args g r, GTyped ctx g → ns.callS fn args g = .val r → ns.callT fn args g = .val r
  refTrap : ∀ fn args g t, GTyped ctx g → ns.callS fn args g = .trap t → ns.callT fn args g = .trap t
  indArity : ∀ ty ft, ctx.types[ty]? = some ft → ft.results.length ≤ 1 →
    ns.indArity ty = some (ft.params.length, ft.results.head?.map vtOfW)
  indTyped : ∀ ty n t i args g v g', GTyped ctx g → ns.indArity ty = some (n, some t) → ns.indS ty i args g = .val (some v, g') → vtOf v = t
  indPres : ∀ ty i args g r, GTyped ctx g → ns.indS ty i args g = .val r → GTyped ctx r.2
  indRefVal : ∀ ty i args g r, GTyped ctx g → ns.indS ty i args g = .val r → ns.indT ty i args g = .val r
  indRefTrap : ∀ ty i args g t, GTyped ctx g → ns.indS ty i args g = .trap t → ns.indT ty i args g = .trap t

/-- what the simulation needs to know about memory accesses: the runtime function the translator calls for an
    opcode refines the opcode's specification (proved for the regenerated functions in C05), results are typed -/
structure MemOK (ns : NumSem) : Prop where
  loadRef : ∀ opcode fn rt m ea v, lookupAssoc Gen.loadTable opcode = some (fn, rt) → ns.loadS opcode m ea = .val v →
    ns.loadT fn m ea = .val v ∧ vtOf v = rt
  loadTrap : ∀ opcode fn rt m ea t, lookupAssoc Gen.loadTable opcode = some (fn, rt) → ns.loadS opcode m ea = .trap t → ns.loadT fn m ea = .trap t
  storeRef : ∀ opcode fn m ea v m', lookupAssoc Gen.storeTable opcode = some fn → ns.storeS opcode m ea v = .val m' → ns.storeT fn m ea v = .val m'
  storeTrap : ∀ opcode fn m ea v t, lookupAssoc Gen.storeTable opcode = some fn → ns.storeS opcode m ea v = .trap t → ns.storeT fn m ea v = .trap t
  growTyped : ∀ m d, vtOf (ns.grow m d).2 = .i32
  bulkRef : ∀ op m a b c m', ns.bulkS op m a b c = .val m' → ns.bulkT op m a b c = .val m'
  bulkTrap : ∀ op m a b c t, ns.bulkS op m a b c = .trap t → ns.bulkT op m a b c = .trap t
  /-- atomic accesses: the function the translator dispatches the opcode to (`Model.atomicFn`, from the regenerated
      `Gen.atomicEmit`) does what the specification's instruction does; a result exists exactly when the row has a result
      type, and has that type -/
  atomRef : ∀ kind opcode fn rt m ea args r, atomicFnK kind opcode = some (fn, rt) → ns.rmwS opcode m ea args = .val r →
    ns.rmwT fn m ea args = .val r ∧ (∀ t, rt = some t → ∃ v, r.1 = some v ∧ vtOf v = t) ∧ (rt = none → r.1 = none)
  atomTrap : ∀ kind opcode fn rt m ea args t, atomicFnK kind opcode = some (fn, rt) → ns.rmwS opcode m ea args = .trap t →
    ns.rmwT fn m ea args = .trap t

def JumpOK (lab : Label) (base : Nat) (stk stkB : List Val) (locB : Store) (σ σ' : MSt) : Prop :=
  σ'.store = locB ∧ SlotsBelow lab.height σ σ' ∧ stkB.take base = stk.take base ∧ lab.height ≤ stkB.length ∧
  (∀ ty, lab.type = some ty → ∃ v, stkB.getLast? = some v ∧ σ'.get ⟨ty, lab.height⟩ = v)

def SimRes (ctx : Ctx) (st : St) (stk : List Val) (σ : MSt) (stOut : St) (dead : Bool) (r : ERes) (m : MRes) : Prop :=
  match r with
  | .oof => True
  | .stuck => True
  | .trap t => m = .trap t
  | .normal stk' loc' =>
    dead = false ∧ WF stOut ∧ stOut.labels = st.labels ∧ st.next ≤ stOut.next ∧ LocTyped ctx loc' ∧
    ∃ σ', m = .normal σ' ∧ Rel stOut.stack stk' σ' ∧ σ'.store = loc' ∧ SlotsBelow st.base σ σ' ∧ stk'.take st.base = stk.take st.base
  | .branch l stkB locB =>
    LocTyped ctx locB ∧ ∃ lab σ', st.label l = some lab ∧ m = .jump lab.index σ' ∧ JumpOK lab st.base stk stkB locB σ σ' ∧
      (lab.type.isSome → 1 ≤ stOut.declLen)
  | .ret stkB locB =>
    LocTyped ctx locB ∧ ∃ lab σ', st.labels[0]? = some lab ∧ m = .jump lab.index σ' ∧ JumpOK lab st.base stk stkB locB σ σ' ∧
      (lab.type.isSome → 1 ≤ stOut.declLen)

def execOut (ns : NumSem) (f : Nat) (out : List MStmtC) (σ : MSt) : MRes :=
  match out with
  | [] => .normal σ
  | [s] => execStmt ns f s σ
  | _ => .stuck


/-! ### facts about the translator state -/

theorem St.label_mem {s : St} {l : Nat} {lab : Label} (h : s.label l = some lab) : lab ∈ s.labels := by
  unfold St.label at h
  split at h
  · exact List.mem_of_getElem? h
  · cases h

theorem WF.height_le_base {s : St} (hw : WF s) {lab : Label} (hm : lab ∈ s.labels) : lab.height ≤ s.base := by
  unfold St.base
  cases hl : s.labels.getLast? with
  | none => rw [List.getLast?_eq_none_iff] at hl; exact absurd hl hw.nonempty
  | some last =>
    simp only []
    obtain ⟨ys, hys⟩ : ∃ ys, s.labels = ys ++ [last] := by
      have := List.getLast?_eq_some_iff.mp hl
      exact this
    rw [hys] at hm
    rcases List.mem_append.mp hm with h1 | h1
    · have hs := hw.sorted
      rw [hys, List.pairwise_append] at hs
      exact hs.2.2 lab h1 last (by simp)
    · simp at h1; subst h1; exact Nat.le_refl _

theorem WF.base_le_height {s : St} (hw : WF s) : s.base ≤ s.stack.length := by
  unfold St.base
  cases hl : s.labels.getLast? with
  | none => simp
  | some last => exact hw.below last (List.mem_of_getLast? hl)

end W2c2Verif.Sim
