/-
  Lemmas.SimDefs — invariants and the statement shape of the simulation theorem (C03).
-/
import W2c2Verif.Lemmas.SimMono
namespace W2c2Verif.Sim
open W2c2Verif Model Gen Spec

/-! static invariants of the translator state -/
structure WF (s : St) : Prop where
  sorted : s.labels.Pairwise (fun a b => a.height ≤ b.height)
  below : ∀ lab ∈ s.labels, lab.height ≤ s.stack.length
  fresh : ∀ lab ∈ s.labels, lab.index < s.next
  nonempty : s.labels ≠ []
  /-- every operand on the type stack has a declared slot index (`stackDeclarations->length`) -/
  decl : s.stack.length ≤ s.declLen

def LocTyped (ctx : Ctx) (loc : List Val) : Prop :=
  loc.length = ctx.localTypes.length ∧ ∀ k (h : k < loc.length) (h' : k < ctx.localTypes.length), vtOf loc[k] = ctx.localTypes[k]

/-- static result type of a numeric statement -/
def numResTy (opcode : String) (k : EmitKind) (t1 : VT) : VT := (numSlots opcode k t1 0 t1 0).1.ty

structure NumOK (ns : NumSem) : Prop where
  arity : ∀ opcode k, lookupAssoc Gen.emitTable opcode = some k →
    ns.arity opcode = (numSlots opcode k .i32 0 .i32 0).2.length
  typed : ∀ opcode k args v, lookupAssoc Gen.emitTable opcode = some k → ns.sem opcode args = .val v →
    ∀ a, args.head? = some a → vtOf v = numResTy opcode k (vtOf a)

/-- what the simulation needs to know about callees: arities agree with the module's types, results
    are typed, and the emitted-C side of a callee refines its specification side -/
structure CallOK (ns : NumSem) (ctx : Ctx) : Prop where
  arity : ∀ fn ti ft, ctx.funcTypeIdx[fn]? = some ti → ctx.types[ti]? = some ft → ft.results.length ≤ 1 →
    ns.callArity fn = some (ft.params.length, ft.results.head?.map vtOfW)
  typed : ∀ fn n t args v, ns.callArity fn = some (n, some t) → ns.callS fn args = .val (some v) → vtOf v = t
  refVal : ∀ fn args r, ns.callS fn args = .val r → ns.callT fn args = .val r
  refTrap : ∀ fn args t, ns.callS fn args = .trap t → ns.callT fn args = .trap t
  indArity : ∀ ty ft, ctx.types[ty]? = some ft → ft.results.length ≤ 1 →
    ns.indArity ty = some (ft.params.length, ft.results.head?.map vtOfW)
  indTyped : ∀ ty n t i args v, ns.indArity ty = some (n, some t) → ns.indS ty i args = .val (some v) → vtOf v = t
  indRefVal : ∀ ty i args r, ns.indS ty i args = .val r → ns.indT ty i args = .val r
  indRefTrap : ∀ ty i args t, ns.indS ty i args = .trap t → ns.indT ty i args = .trap t

def JumpOK (lab : Label) (base : Nat) (stk stkB : List Val) (locB : List Val) (σ σ' : MSt) : Prop :=
  σ'.locals = locB ∧ SlotsBelow lab.height σ σ' ∧ stkB.take base = stk.take base ∧ lab.height ≤ stkB.length ∧
  (∀ ty, lab.type = some ty → ∃ v, stkB.getLast? = some v ∧ σ'.get ⟨ty, lab.height⟩ = v)

def SimRes (ctx : Ctx) (st : St) (stk : List Val) (σ : MSt) (stOut : St) (dead : Bool) (r : ERes) (m : MRes) : Prop :=
  match r with
  | .oof => True
  | .stuck => True
  | .trap t => m = .trap t
  | .normal stk' loc' =>
    dead = false ∧ WF stOut ∧ stOut.labels = st.labels ∧ st.next ≤ stOut.next ∧ LocTyped ctx loc' ∧
    ∃ σ', m = .normal σ' ∧ Rel stOut.stack stk' σ' ∧ σ'.locals = loc' ∧ SlotsBelow st.base σ σ' ∧ stk'.take st.base = stk.take st.base
  | .branch l stkB locB =>
    LocTyped ctx locB ∧ ∃ lab σ', st.label l = some lab ∧ m = .jump lab.index σ' ∧ JumpOK lab st.base stk stkB locB σ σ' ∧
      (lab.type.isSome → 1 ≤ stOut.declLen)
  | .ret stkB locB =>
    LocTyped ctx locB ∧ ∃ lab σ', st.labels[0]? = some lab ∧ m = .jump lab.index σ' ∧ JumpOK lab st.base stk stkB locB σ σ' ∧
      (lab.type.isSome → 1 ≤ stOut.declLen)

def execOut (ns : NumSem) (f : Nat) (out : List MStmtC) (σ : MSt) : MRes :=
  match out with
  | [] => .normal σ
  | [s] => execStmt ns f s σ
  | _ => .stuck


/-! ### facts about the translator state -/

theorem St.label_mem {s : St} {l : Nat} {lab : Label} (h : s.label l = some lab) : lab ∈ s.labels := by
  unfold St.label at h
  split at h
  · exact List.mem_of_getElem? h
  · cases h

theorem WF.height_le_base {s : St} (hw : WF s) {lab : Label} (hm : lab ∈ s.labels) : lab.height ≤ s.base := by
  unfold St.base
  cases hl : s.labels.getLast? with
  | none => rw [List.getLast?_eq_none_iff] at hl; exact absurd hl hw.nonempty
  | some last =>
    simp only []
    obtain ⟨ys, hys⟩ : ∃ ys, s.labels = ys ++ [last] := by
      have := List.getLast?_eq_some_iff.mp hl
      exact this
    rw [hys] at hm
    rcases List.mem_append.mp hm with h1 | h1
    · have hs := hw.sorted
      rw [hys, List.pairwise_append] at hs
      exact hs.2.2 lab h1 last (by simp)
    · simp at h1; subst h1; exact Nat.le_refl _

theorem WF.base_le_height {s : St} (hw : WF s) : s.base ≤ s.stack.length := by
  unfold St.base
  cases hl : s.labels.getLast? with
  | none => simp
  | some last => exact hw.below last (List.mem_of_getLast? hl)

end W2c2Verif.Sim
