/-
  Lemmas.Trunc — exactness of range guards on float-to-int truncation: comparing a finite float
  `(-1)^s · m · 2^e` with an INTEGER constant decides the same as comparing its truncation toward zero.
-/
import W2c2Verif.CSem.Float
namespace W2c2Verif.SF

/-- magnitude of the truncation toward zero of `m · 2^e` -/
def truncMag (m : Nat) (e : Int) : Nat := if e ≥ 0 then m <<< e.toNat else m >>> (-e).toNat
def tval (s : Bool) (q : Nat) : Int := if s then -(q : Int) else (q : Int)

theorem truncToInt_fin {f : Fmt} {a : Nat} {s : Bool} {m : Nat} {e : Int} (h : decode f a = .fin s m e) :
    truncToInt f a = some (tval s (truncMag m e)) := by
  simp [truncToInt, h, tval, truncMag]

/-- core: `m·2^e < n·2^g` (as the exact comparison does it) iff `trunc(m·2^e) < n·2^g`, when `g ≥ 0` -/
theorem scaled_lt_iff (m n : Nat) (e g : Int) (hg : 0 ≤ g) :
    (m <<< (e - min e g).toNat < n <<< (g - min e g).toNat) ↔ truncMag m e < n <<< g.toNat := by
  simp only [Nat.shiftLeft_eq, truncMag]
  by_cases he : 0 ≤ e
  · simp only [ge_iff_le, he, if_true]
    -- multiply both sides by 2^(min e g)
    have hmin : 0 ≤ min e g := by omega
    have e1 : e.toNat = (e - min e g).toNat + (min e g).toNat := by omega
    have e2 : g.toNat = (g - min e g).toNat + (min e g).toNat := by omega
    rw [e1, e2, Nat.pow_add, Nat.pow_add, ← Nat.mul_assoc, ← Nat.mul_assoc]
    exact (Nat.mul_lt_mul_right (Nat.pow_pos (by decide))).symm
  · have hneg : e < 0 := by omega
    simp only [ge_iff_le, he, if_false]
    have hmin : min e g = e := by omega
    rw [hmin]
    have e1 : (e - e).toNat = 0 := by omega
    have e2 : (g - e).toNat = g.toNat + (-e).toNat := by omega
    rw [e1, e2, Nat.pow_zero, Nat.mul_one, Nat.shiftRight_eq_div_pow, Nat.pow_add, ← Nat.mul_assoc]
    exact (Nat.div_lt_iff_lt_mul (Nat.pow_pos (by decide))).symm

/-- `x < C` for a positive integer constant `C = n·2^g` -/
theorem cmpFin_lt_pos (s : Bool) (m : Nat) (e : Int) (n : Nat) (g : Int) (hg : 0 ≤ g) (hn : 0 < n) :
    cmpFin s m e false n g = .lt ↔ tval s (truncMag m e) < ((n <<< g.toNat : Nat) : Int) := by
  simp only [cmpFin, Int.compare_eq_lt, Bool.false_eq_true, if_false, Int.one_mul]
  have hB : 0 < n <<< (g - min e g).toNat := by rw [Nat.shiftLeft_eq]; exact Nat.mul_pos hn (Nat.pow_pos (by decide))
  have hN : 0 < n <<< g.toNat := by rw [Nat.shiftLeft_eq]; exact Nat.mul_pos hn (Nat.pow_pos (by decide))
  have key := scaled_lt_iff m n e g hg
  generalize m <<< (e - min e g).toNat = A at *
  generalize n <<< (g - min e g).toNat = B at *
  generalize n <<< g.toNat = N at *
  generalize truncMag m e = Q at *
  cases s with
  | true =>
    simp only [if_true, tval]
    constructor <;> intro _ <;> omega
  | false =>
    simp only [Bool.false_eq_true, if_false, tval, Int.one_mul]
    rw [Int.ofNat_lt, Int.ofNat_lt]
    exact key

/-- `x > -C` for a positive integer constant `C = n·2^g` -/
theorem cmpFin_gt_neg (s : Bool) (m : Nat) (e : Int) (n : Nat) (g : Int) (hg : 0 ≤ g) (hn : 0 < n) :
    cmpFin s m e true n g = .gt ↔ -((n <<< g.toNat : Nat) : Int) < tval s (truncMag m e) := by
  simp only [cmpFin, Int.compare_eq_gt, if_true]
  have hB : 0 < n <<< (g - min e g).toNat := by rw [Nat.shiftLeft_eq]; exact Nat.mul_pos hn (Nat.pow_pos (by decide))
  have hN : 0 < n <<< g.toNat := by rw [Nat.shiftLeft_eq]; exact Nat.mul_pos hn (Nat.pow_pos (by decide))
  have key := scaled_lt_iff m n e g hg
  generalize m <<< (e - min e g).toNat = A at *
  generalize n <<< (g - min e g).toNat = B at *
  generalize n <<< g.toNat = N at *
  generalize truncMag m e = Q at *
  cases s with
  | false =>
    simp only [Bool.false_eq_true, if_false, tval, Int.one_mul]
    constructor <;> intro _ <;> omega
  | true =>
    simp only [if_true, tval]
    constructor
    · intro h; have : A < B := by omega
      have := key.mp this; omega
    · intro h; have : Q < N := by omega
      have := key.mpr this; omega

theorem scaled_le_iff (m n : Nat) (e g : Int) (hg : 0 ≤ g) (hm : e < 0 → m ≤ n <<< g.toNat) :
    (m <<< (e - min e g).toNat ≤ n <<< (g - min e g).toNat) ↔ truncMag m e ≤ n <<< g.toNat := by
  simp only [Nat.shiftLeft_eq, truncMag] at hm ⊢
  by_cases he : 0 ≤ e
  · simp only [ge_iff_le, he, if_true]
    have hmin : 0 ≤ min e g := by omega
    have e1 : e.toNat = (e - min e g).toNat + (min e g).toNat := by omega
    have e2 : g.toNat = (g - min e g).toNat + (min e g).toNat := by omega
    rw [e1, e2, Nat.pow_add, Nat.pow_add, ← Nat.mul_assoc, ← Nat.mul_assoc]
    exact (Nat.mul_le_mul_right_iff (Nat.pow_pos (by decide))).symm
  · have hneg : e < 0 := by omega
    simp only [ge_iff_le, he, if_false]
    have hmin : min e g = e := by omega
    rw [hmin]
    have e1 : (e - e).toNat = 0 := by omega
    have e2 : (g - e).toNat = g.toNat + (-e).toNat := by omega
    rw [e1, e2, Nat.pow_zero, Nat.mul_one, Nat.shiftRight_eq_div_pow, Nat.pow_add, ← Nat.mul_assoc]
    have h1 := hm hneg
    have hp : 0 < 2 ^ (-e).toNat := Nat.pow_pos (by decide)
    constructor
    · intro _; exact Nat.le_trans (Nat.div_le_self _ _) h1
    · intro _; exact Nat.le_trans h1 (Nat.le_mul_of_pos_right _ hp)

/-- `x ≥ -C` for `C = n·2^g`, when the format cannot represent a non-integer of magnitude ≥ C
    (`m ≤ C` for every mantissa with a negative exponent) -/
theorem cmpFin_ge_neg (s : Bool) (m : Nat) (e : Int) (n : Nat) (g : Int) (hg : 0 ≤ g) (hn : 0 < n)
    (hm : e < 0 → m ≤ n <<< g.toNat) :
    cmpFin s m e true n g ≠ .lt ↔ -((n <<< g.toNat : Nat) : Int) ≤ tval s (truncMag m e) := by
  simp only [cmpFin, ne_eq, Int.compare_eq_lt, if_true]
  have hB : 0 < n <<< (g - min e g).toNat := by rw [Nat.shiftLeft_eq]; exact Nat.mul_pos hn (Nat.pow_pos (by decide))
  have key := scaled_le_iff m n e g hg hm
  generalize m <<< (e - min e g).toNat = A at *
  generalize n <<< (g - min e g).toNat = B at *
  generalize n <<< g.toNat = N at *
  generalize truncMag m e = Q at *
  cases s with
  | false =>
    simp only [Bool.false_eq_true, if_false, tval, Int.one_mul]
    constructor <;> intro _ <;> omega
  | true =>
    simp only [if_true, tval]
    constructor
    · intro h; have : A ≤ B := by omega
      have := key.mp this; omega
    · intro h; have : Q ≤ N := by omega
      have := key.mpr this; omega

end W2c2Verif.SF
