/-
  Lemmas.WasiPathSpawn — invariants of the thread-spawn transition system (Model.WasiProc):
  InvA (allocated ids), InvB (threads ↔ successful calls), InvD (missing export).
-/
import W2c2Verif.Model.WasiProc
namespace W2c2Verif.WasiProc
open W2c2Verif
def heldAt (s : Sys) (i : Nat) : Option Nat := (s.calls[i]?).bind Call.heldId

/-- the thread ids held by calls are allocated (`1 ≤ id < next`) and pairwise distinct -/
structure InvA (s : Sys) : Prop where
  nextLo : 1 ≤ s.next
  nextHi : s.next < 4294967296
  held : ∀ i tid, heldAt s i = some tid → 1 ≤ tid ∧ tid < s.next
  distinct : ∀ i j a b, i ≠ j → heldAt s i = some a → heldAt s j = some b → a ≠ b

theorem getElem?_set_of_some {α} (l : List α) (i j : Nat) (c v : α) (h : l[i]? = some c) :
    (l.set i v)[j]? = if i = j then some v else l[j]? := by
  have hi : i < l.length := by
    rcases Nat.lt_or_ge i l.length with h1 | h1
    · exact h1
    · rw [List.getElem?_eq_none h1] at h; cases h
  rw [List.getElem?_set]
  simp [hi]

/-- replacing call `i` by one that holds the same id or none keeps InvA (counter may grow) -/
theorem InvA_set (s : Sys) (i : Nat) (c c' : Call) (next' : Nat) (threads' : List Start) (started' : List Nat)
    (children' : Nat) (h : s.calls[i]? = some c) (hinv : InvA s)
    (hid : c'.heldId = c.heldId ∨ c'.heldId = none) (hn : s.next ≤ next') (hn2 : next' < 4294967296) :
    InvA ⟨next', s.calls.set i c', threads', started', children'⟩ := by
  have hget : ∀ j, heldAt ⟨next', s.calls.set i c', threads', started', children'⟩ j
      = if i = j then c'.heldId else heldAt s j := by
    intro j
    unfold heldAt
    simp only [getElem?_set_of_some s.calls i j c c' h]
    split <;> simp
  have hsub : ∀ j tid, heldAt ⟨next', s.calls.set i c', threads', started', children'⟩ j = some tid →
      heldAt s j = some tid := by
    intro j tid hj
    rw [hget j] at hj
    by_cases hij : i = j
    · subst hij
      simp only [if_true] at hj
      rcases hid with h1 | h1
      · rw [h1] at hj; unfold heldAt; rw [h]; exact hj
      · rw [h1] at hj; cases hj
    · simp only [hij, if_false] at hj; exact hj
  constructor
  · have := hinv.nextLo; show 1 ≤ next'; omega
  · exact hn2
  · intro j tid hj
    have := hinv.held j tid (hsub j tid hj)
    show 1 ≤ tid ∧ tid < next'
    omega
  · intro j k a b hjk ha hb
    exact hinv.distinct j k a b hjk (hsub j a ha) (hsub k b hb)

theorem InvA_step (hasExport : Bool) (s s' : Sys) (hinv : InvA s) (hs : Step hasExport s s') : InvA s' := by
  cases hs with
  | call arg =>
    have hget : ∀ j, heldAt { s with calls := s.calls ++ [.init arg] } j = heldAt s j := by
      intro j
      unfold heldAt
      simp only
      by_cases hj : j < s.calls.length
      · rw [List.getElem?_append_left hj]
      · rw [List.getElem?_append_right (by omega)]
        rw [List.getElem?_eq_none (by omega : s.calls.length ≤ j)]
        cases hk : j - s.calls.length with
        | zero => simp [Call.heldId]
        | succ k => simp
    constructor
    · exact hinv.nextLo
    · exact hinv.nextHi
    · intro j tid hj; rw [hget j] at hj; exact hinv.held j tid hj
    · intro j k a b hjk ha hb; rw [hget j] at ha; rw [hget k] at hb; exact hinv.distinct j k a b hjk ha hb
  | lookup i arg h =>
    exact InvA_set s i _ _ s.next s.threads s.started s.children h hinv
      (by cases hasExport <;> simp [Call.heldId]) (Nat.le_refl _) hinv.nextHi
  | allocFail i arg h =>
    exact InvA_set s i _ _ s.next s.threads s.started s.children h hinv (by simp [Call.heldId]) (Nat.le_refl _) hinv.nextHi
  | fetchAdd i arg h hw =>
    -- the one step that allocates: the new id is the old counter value, larger than every held id
    have hget : ∀ j, heldAt { s with calls := s.calls.set i (.gotId arg s.next), next := s.next + Gen.WasiPath.threadIDIncrement } j
        = if i = j then some s.next else heldAt s j := by
      intro j
      unfold heldAt
      simp only [getElem?_set_of_some s.calls i j _ (.gotId arg s.next) h]
      split <;> simp [Call.heldId]
    have hinc : Gen.WasiPath.threadIDIncrement = 1 := rfl
    have hnone : heldAt s i = none := by unfold heldAt; rw [h]; rfl
    constructor
    · show 1 ≤ s.next + Gen.WasiPath.threadIDIncrement; have := hinv.nextLo; omega
    · exact hw
    · intro j tid hj
      rw [hget j] at hj
      show 1 ≤ tid ∧ tid < s.next + Gen.WasiPath.threadIDIncrement
      by_cases hij : i = j
      · simp only [hij, if_true, Option.some.injEq] at hj
        have := hinv.nextLo; omega
      · simp only [hij, if_false] at hj
        have := hinv.held j tid hj; omega
    · intro j k a b hjk ha hb
      rw [hget j] at ha; rw [hget k] at hb
      by_cases hij : i = j
      · by_cases hik : i = k
        · omega
        · simp only [hij, if_true, Option.some.injEq] at ha
          have hik' : ¬ j = k := hjk
          rw [← hij] at hik'
          simp only [hik, if_false] at hb
          have := hinv.held k b hb; omega
      · simp only [hij, if_false] at ha
        by_cases hik : i = k
        · simp only [hik, if_true, Option.some.injEq] at hb
          have := hinv.held j a ha; omega
        · simp only [hik, if_false] at hb
          exact hinv.distinct j k a b hjk ha hb
  | newChild i arg tid h =>
    exact InvA_set s i _ _ s.next s.threads s.started (s.children + 1) h hinv (by simp [Call.heldId]) (Nat.le_refl _) hinv.nextHi
  | create i arg tid c h =>
    exact InvA_set s i _ _ s.next _ s.started s.children h hinv (by simp [Call.heldId]) (Nat.le_refl _) hinv.nextHi
  | createFail i arg tid c h =>
    exact InvA_set s i _ _ s.next s.threads s.started s.children h hinv (by simp [Call.heldId]) (Nat.le_refl _) hinv.nextHi
  | run j hj hn =>
    exact ⟨hinv.nextLo, hinv.nextHi, hinv.held, hinv.distinct⟩

theorem InvA_initial : InvA Sys.initial := by
  constructor
  · decide
  · decide
  · intro i tid h; simp [heldAt, Sys.initial] at h
  · intro i j a b _ h; simp [heldAt, Sys.initial] at h

theorem InvA_reach (hasExport : Bool) (s : Sys) (h : Reach hasExport s) : InvA s := by
  induction h with
  | init => exact InvA_initial
  | step _ hs ih => exact InvA_step hasExport _ _ ih hs


def Call.isSuccess : Call → Bool
  | .done _ (some _) => true
  | _ => false

/-- created threads correspond one-to-one to successfully returned calls -/
structure InvB (s : Sys) : Prop where
  thrFromCall : ∀ (k : Nat) (t : Start), s.threads[k]? = some t →
    (∃ i : Nat, s.calls[i]? = some (Call.done t.arg (some t.tid))) ∧ t.child < s.children
  callHasThr : ∀ (i arg tid : Nat), s.calls[i]? = some (Call.done arg (some tid)) →
    ∃ (k c : Nat), s.threads[k]? = some (Start.mk c tid arg)
  thrDistinct : ∀ (k l : Nat) (a b : Start), k ≠ l → s.threads[k]? = some a → s.threads[l]? = some b → a.tid ≠ b.tid
  childBound : ∀ (i arg tid c : Nat), s.calls[i]? = some (Call.hasChild arg tid c) → c < s.children
  startedOk : s.started.Nodup ∧ ∀ j ∈ s.started, j < s.threads.length

/-- a step that rewrites call `i` (not yet returned successfully) into something that is not a
    successful return and creates no thread -/
theorem InvB_set (s : Sys) (i : Nat) (c c' : Call) (next' children' : Nat)
    (h : s.calls[i]? = some c) (hinv : InvB s) (hc : c.isSuccess = false) (hc' : c'.isSuccess = false)
    (hch : s.children ≤ children') (hb : ∀ arg tid ch, c' = .hasChild arg tid ch → ch < children') :
    InvB ⟨next', s.calls.set i c', s.threads, s.started, children'⟩ := by
  constructor
  · intro k t hk
    obtain ⟨⟨i0, hi0⟩, hcb⟩ := hinv.thrFromCall k t hk
    refine ⟨⟨i0, ?_⟩, by show t.child < children'; omega⟩
    show (s.calls.set i c')[i0]? = _
    rw [getElem?_set_of_some s.calls i i0 c c' h]
    by_cases hii : i = i0
    · subst hii; rw [h] at hi0; cases hi0; simp [Call.isSuccess] at hc
    · simp [hii, hi0]
  · intro i0 arg tid hi0
    have hi0' : (s.calls.set i c')[i0]? = some (.done arg (some tid)) := hi0
    rw [getElem?_set_of_some s.calls i i0 c c' h] at hi0'
    by_cases hii : i = i0
    · simp only [hii, if_true, Option.some.injEq] at hi0'
      rw [hi0'] at hc'; simp [Call.isSuccess] at hc'
    · simp only [hii, if_false] at hi0'
      exact hinv.callHasThr i0 arg tid hi0'
  · exact hinv.thrDistinct
  · intro i0 arg tid ch hi0
    have hi0' : (s.calls.set i c')[i0]? = some (.hasChild arg tid ch) := hi0
    rw [getElem?_set_of_some s.calls i i0 c c' h] at hi0'
    show ch < children'
    by_cases hii : i = i0
    · simp only [hii, if_true, Option.some.injEq] at hi0'
      exact hb arg tid ch hi0'
    · simp only [hii, if_false] at hi0'
      have := hinv.childBound i0 arg tid ch hi0'; omega
  · exact hinv.startedOk

theorem InvB_step (hasExport : Bool) (s s' : Sys) (ha : InvA s) (hinv : InvB s) (hs : Step hasExport s s') : InvB s' := by
  cases hs with
  | call arg =>
    have hget : ∀ (j : Nat) (c : Call), s.calls[j]? = some c → (s.calls ++ [Call.init arg])[j]? = some c := by
      intro j c hj
      have : j < s.calls.length := by
        rcases Nat.lt_or_ge j s.calls.length with h1 | h1
        · exact h1
        · rw [List.getElem?_eq_none h1] at hj; cases hj
      rw [List.getElem?_append_left this]; exact hj
    have hget' : ∀ (j : Nat) (c : Call), (s.calls ++ [Call.init arg])[j]? = some c → s.calls[j]? = some c ∨ c = .init arg := by
      intro j c hj
      by_cases hlt : j < s.calls.length
      · rw [List.getElem?_append_left hlt] at hj; exact Or.inl hj
      · rw [List.getElem?_append_right (by omega)] at hj
        cases hk : j - s.calls.length with
        | zero => rw [hk] at hj; simp at hj; exact Or.inr hj.symm
        | succ k => rw [hk] at hj; simp at hj
    constructor
    · intro k t hk
      obtain ⟨⟨i0, hi0⟩, hcb⟩ := hinv.thrFromCall k t hk
      exact ⟨⟨i0, hget i0 _ hi0⟩, hcb⟩
    · intro i0 a tid hi0
      rcases hget' i0 _ hi0 with h1 | h1
      · exact hinv.callHasThr i0 a tid h1
      · cases h1
    · exact hinv.thrDistinct
    · intro i0 a tid ch hi0
      rcases hget' i0 _ hi0 with h1 | h1
      · exact hinv.childBound i0 a tid ch h1
      · cases h1
    · exact hinv.startedOk
  | lookup i arg h =>
    exact InvB_set s i _ _ s.next s.children h hinv rfl (by cases hasExport <;> rfl) (Nat.le_refl _)
      (by intro a t c hc; cases hasExport <;> cases hc)
  | allocFail i arg h =>
    exact InvB_set s i _ _ s.next s.children h hinv rfl rfl (Nat.le_refl _) (by intro a t c hc; cases hc)
  | fetchAdd i arg h hw =>
    exact InvB_set s i _ _ _ s.children h hinv rfl rfl (Nat.le_refl _) (by intro a t c hc; cases hc)
  | newChild i arg tid h =>
    exact InvB_set s i _ _ s.next (s.children + 1) h hinv rfl rfl (by omega)
      (by intro a t c hc; cases hc; omega)
  | createFail i arg tid c h =>
    exact InvB_set s i _ _ s.next s.children h hinv rfl rfl (Nat.le_refl _) (by intro a t c hc; cases hc)
  | create i arg tid c h =>
    have hheld : heldAt s i = some tid := by unfold heldAt; rw [h]; rfl
    constructor
    · intro k t hk
      have hk' : (s.threads ++ [⟨c, tid, arg⟩])[k]? = some t := hk
      by_cases hlt : k < s.threads.length
      · rw [List.getElem?_append_left hlt] at hk'
        obtain ⟨⟨i0, hi0⟩, hcb⟩ := hinv.thrFromCall k t hk'
        refine ⟨⟨i0, ?_⟩, hcb⟩
        show (s.calls.set i _)[i0]? = _
        rw [getElem?_set_of_some s.calls i i0 _ _ h]
        by_cases hii : i = i0
        · subst hii; rw [h] at hi0; cases hi0
        · simp [hii, hi0]
      · rw [List.getElem?_append_right (by omega)] at hk'
        cases hkk : k - s.threads.length with
        | zero =>
          rw [hkk] at hk'; simp at hk'; subst hk'
          refine ⟨⟨i, ?_⟩, hinv.childBound i arg tid c h⟩
          show (s.calls.set i _)[i]? = _
          rw [getElem?_set_of_some s.calls i i _ _ h]; simp
        | succ k' => rw [hkk] at hk'; simp at hk'
    · intro i0 a t hi0
      have hi0' : (s.calls.set i (Call.done arg (some tid)))[i0]? = some (.done a (some t)) := hi0
      rw [getElem?_set_of_some s.calls i i0 _ _ h] at hi0'
      show ∃ (k c' : Nat), (s.threads ++ [Start.mk c tid arg])[k]? = some (Start.mk c' t a)
      by_cases hii : i = i0
      · simp only [hii, if_true, Option.some.injEq, Call.done.injEq] at hi0'
        obtain ⟨h1, h2⟩ := hi0'
        refine ⟨s.threads.length, c, ?_⟩
        rw [List.getElem?_append_right (Nat.le_refl _)]
        subst h1; subst h2; simp
      · simp only [hii, if_false] at hi0'
        obtain ⟨k, c', hk⟩ := hinv.callHasThr i0 a t hi0'
        have : k < s.threads.length := by
          rcases Nat.lt_or_ge k s.threads.length with h1 | h1
          · exact h1
          · rw [List.getElem?_eq_none h1] at hk; cases hk
        exact ⟨k, c', by rw [List.getElem?_append_left this]; exact hk⟩
    · -- the new thread's id is held by call i; every older thread's id by another (returned) call
      have hold : ∀ (k : Nat) (a : Start), s.threads[k]? = some a → a.tid ≠ tid := by
        intro k a hk
        obtain ⟨⟨i0, hi0⟩, _⟩ := hinv.thrFromCall k a hk
        have hne : i0 ≠ i := by intro he; subst he; rw [h] at hi0; cases hi0
        have h0 : heldAt s i0 = some a.tid := by unfold heldAt; rw [hi0]; rfl
        exact ha.distinct i0 i a.tid tid hne h0 hheld
      have hsplit : ∀ (k : Nat) (a : Start), (s.threads ++ [(⟨c, tid, arg⟩ : Start)])[k]? = some a →
          (k < s.threads.length ∧ s.threads[k]? = some a) ∨ (k = s.threads.length ∧ a = ⟨c, tid, arg⟩) := by
        intro k a hk
        by_cases hlt : k < s.threads.length
        · rw [List.getElem?_append_left hlt] at hk; exact Or.inl ⟨hlt, hk⟩
        · rw [List.getElem?_append_right (by omega)] at hk
          cases hkk : k - s.threads.length with
          | zero => rw [hkk] at hk; simp at hk; exact Or.inr ⟨by omega, hk.symm⟩
          | succ k' => rw [hkk] at hk; simp at hk
      intro k l a b hkl hka hlb
      rcases hsplit k a hka with ⟨_, h1⟩ | ⟨h1, h1'⟩ <;> rcases hsplit l b hlb with ⟨_, h2⟩ | ⟨h2, h2'⟩
      · exact hinv.thrDistinct k l a b hkl h1 h2
      · subst h2'; exact hold k a h1
      · subst h1'; exact fun he => hold l b h2 he.symm
      · omega
    · intro i0 a t ch hi0
      have hi0' : (s.calls.set i (Call.done arg (some tid)))[i0]? = some (.hasChild a t ch) := hi0
      rw [getElem?_set_of_some s.calls i i0 _ _ h] at hi0'
      by_cases hii : i = i0
      · simp only [hii, if_true, Option.some.injEq] at hi0'; cases hi0'
      · simp only [hii, if_false] at hi0'
        exact hinv.childBound i0 a t ch hi0'
    · refine ⟨hinv.startedOk.1, ?_⟩
      intro j hj
      have := hinv.startedOk.2 j hj
      show j < (s.threads ++ [_]).length
      simp; omega
  | run j hj hn =>
    refine ⟨hinv.thrFromCall, hinv.callHasThr, hinv.thrDistinct, hinv.childBound, ?_, ?_⟩
    · show (s.started ++ [j]).Nodup
      rw [List.nodup_append]
      refine ⟨hinv.startedOk.1, by simp, ?_⟩
      intro a ha b hb
      simp at hb; subst hb
      intro he; subst he; exact hn ha
    · intro k hk
      have hk' : k ∈ s.started ++ [j] := hk
      rcases List.mem_append.mp hk' with h1 | h1
      · exact hinv.startedOk.2 k h1
      · simp at h1; subst h1; exact hj

theorem InvB_initial : InvB Sys.initial := by
  constructor
  · intro k t h; simp [Sys.initial] at h
  · intro i a t h; simp [Sys.initial] at h
  · intro k l a b _ h; simp [Sys.initial] at h
  · intro i a t c h; simp [Sys.initial] at h
  · simp [Sys.initial]

theorem Inv_reach (hasExport : Bool) (s : Sys) (h : Reach hasExport s) : InvA s ∧ InvB s := by
  induction h with
  | init => exact ⟨InvA_initial, InvB_initial⟩
  | step _ hs ih => exact ⟨InvA_step hasExport _ _ ih.1 hs, InvB_step hasExport _ _ ih.1 ih.2 hs⟩


/-- without the export nothing is ever allocated, created or started -/
structure InvD (s : Sys) : Prop where
  calls : ∀ (i : Nat) (c : Call), s.calls[i]? = some c → (∃ a, c = Call.init a) ∨ (∃ a, c = Call.done a none)
  threads : s.threads = []
  started : s.started = []
  children : s.children = 0
  next : s.next = Gen.WasiPath.firstThreadID

theorem InvD_step (s s' : Sys) (hinv : InvD s) (hs : Step false s s') : InvD s' := by
  have hset : ∀ (i : Nat) (c c' : Call), s.calls[i]? = some c →
      ((∃ a, c' = Call.init a) ∨ (∃ a, c' = Call.done a none)) →
      ∀ (j : Nat) (d : Call), (s.calls.set i c')[j]? = some d → (∃ a, d = Call.init a) ∨ (∃ a, d = Call.done a none) := by
    intro i c c' h hc' j d hj
    rw [getElem?_set_of_some s.calls i j c c' h] at hj
    by_cases hij : i = j
    · simp only [hij, if_true, Option.some.injEq] at hj; rw [← hj]; exact hc'
    · simp only [hij, if_false] at hj; exact hinv.calls j d hj
  cases hs with
  | call arg =>
    refine ⟨?_, hinv.threads, hinv.started, hinv.children, hinv.next⟩
    intro j d hj
    have hj' : (s.calls ++ [Call.init arg])[j]? = some d := hj
    by_cases hlt : j < s.calls.length
    · rw [List.getElem?_append_left hlt] at hj'; exact hinv.calls j d hj'
    · rw [List.getElem?_append_right (by omega)] at hj'
      cases hk : j - s.calls.length with
      | zero => rw [hk] at hj'; simp at hj'; exact Or.inl ⟨arg, hj'.symm⟩
      | succ k => rw [hk] at hj'; simp at hj'
  | lookup i arg h =>
    exact ⟨hset i _ _ h (Or.inr ⟨arg, rfl⟩), hinv.threads, hinv.started, hinv.children, hinv.next⟩
  | allocFail i arg h =>
    exact ⟨hset i _ _ h (Or.inr ⟨arg, rfl⟩), hinv.threads, hinv.started, hinv.children, hinv.next⟩
  | fetchAdd i arg h hw => rcases hinv.calls i _ h with ⟨a, ha⟩ | ⟨a, ha⟩ <;> cases ha
  | newChild i arg tid h => rcases hinv.calls i _ h with ⟨a, ha⟩ | ⟨a, ha⟩ <;> cases ha
  | create i arg tid c h => rcases hinv.calls i _ h with ⟨a, ha⟩ | ⟨a, ha⟩ <;> cases ha
  | createFail i arg tid c h => rcases hinv.calls i _ h with ⟨a, ha⟩ | ⟨a, ha⟩ <;> cases ha
  | run j hj hn => rw [hinv.threads] at hj; simp at hj

theorem InvD_reach (s : Sys) (h : Reach false s) : InvD s := by
  induction h with
  | init => exact ⟨by intro i c h; simp [Sys.initial] at h, rfl, rfl, rfl, rfl⟩
  | step _ hs ih => exact InvD_step _ _ ih hs

end W2c2Verif.WasiProc
