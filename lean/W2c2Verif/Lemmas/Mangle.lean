/-
  Lemmas.Mangle — injectivity of the identifier mangling of c.c over the regenerated rule (Gen.Mangle / Model.Mangle).
-/
import W2c2Verif.Model.Mangle
namespace W2c2Verif.Lemmas.Mangle
open W2c2Verif Model.Mangle Gen.Mangle

theorem hexU_inj {a b : Nat} (ha : a < 16) (hb : b < 16) (h : hexU a = hexU b) : a = b := by
  unfold hexU at h
  split at h <;> split at h <;> omega

theorem u8_eq {c c' : UInt8} (h : c.toNat = c'.toNat) : c = c' := UInt8.toNat_inj.mp h

theorem hexL_inj {c c' : UInt8} (h : hexL c = hexL c') : c = c' := by
  unfold hexL at h
  have h1 : hexU (c.toNat / 16) = hexU (c'.toNat / 16) := by injection h
  have h2 : hexU (c.toNat % 16) = hexU (c'.toNat % 16) := by
    injection h with _ h; injection h
  have := c.toNat_lt
  have := c'.toNat_lt
  have e1 := hexU_inj (by omega) (by omega) h1
  have e2 := hexU_inj (by omega) (by omega) h2
  exact u8_eq (by omega)

theorem keeps_not_escape {c : UInt8} (h : keeps c = true) : c.toNat ≠ escapeChar := by
  simp [keeps, keepCond, atomHolds] at h
  exact h.1

theorem keeps_alnum {c : UInt8} (h : keeps c = true) : isAlnum c = true := by
  simp [keeps, keepCond, atomHolds] at h
  exact h.2

/-- what a byte becomes, by class -/
theorem piece_cases (prev : Option UInt8) (c : UInt8) :
    (c.toNat = 95 ∧ (piece prev c = [95, 95] ∧ prev = some c ∨ piece prev c = [95] ∧ prev ≠ some c)) ∨
    (c.toNat ≠ 95 ∧ c.toNat ≠ 88 ∧ keeps c = true ∧ piece prev c = [c.toNat]) ∨
    (c.toNat ≠ 95 ∧ keeps c = false ∧ piece prev c = 88 :: hexL c) := by
  unfold piece
  by_cases hu : c.toNat = underscore
  · left
    have hu' : c.toNat = 95 := hu
    refine ⟨hu', ?_⟩
    by_cases hp : prev = some c
    · left; simp [hu, hp, doubled]
    · right; simp [hu, hp, underscore]
  · right
    have hu' : c.toNat ≠ 95 := hu
    by_cases hk : keeps c = true
    · left; exact ⟨hu', keeps_not_escape hk, hk, by simp [hu, hk]⟩
    · right
      have hk' : keeps c = false := by simpa using hk
      exact ⟨hu', hk', by simp [hu, hk', escapeChar]⟩

theorem piece_ne_nil (prev : Option UInt8) (c : UInt8) : piece prev c ≠ [] := by
  rcases piece_cases prev c with ⟨_, ⟨h, _⟩ | ⟨h, _⟩⟩ | ⟨_, _, _, h⟩ | ⟨_, _, h⟩ <;> simp [h]

/-- a byte other than the underscore never starts with an underscore -/
theorem piece_head_ne (prev : Option UInt8) (c : UInt8) (h : c.toNat ≠ 95) : ∃ x t, piece prev c = x :: t ∧ x ≠ 95 := by
  rcases piece_cases prev c with ⟨hu, _⟩ | ⟨_, _, _, hp⟩ | ⟨_, _, hp⟩
  · exact absurd hu h
  · exact ⟨_, _, hp, h⟩
  · exact ⟨_, _, hp, by decide⟩

/-- the escaped text of one byte determines the byte (same preceding byte on both sides) -/
theorem piece_append_inj (prev : Option UInt8) (c c' : UInt8) (r r' : List Nat)
    (h : piece prev c ++ r = piece prev c' ++ r') : c = c' ∧ r = r' := by
  rcases piece_cases prev c with ⟨hu, hc⟩ | ⟨hn, hx, _, hp⟩ | ⟨hn, _, hp⟩ <;>
  rcases piece_cases prev c' with ⟨hu', hc'⟩ | ⟨hn', hx', _, hp'⟩ | ⟨hn', _, hp'⟩
  · have e : c = c' := u8_eq (hu.trans hu'.symm)
    subst e
    exact ⟨rfl, List.append_cancel_left h⟩
  · rcases hc with ⟨hp, _⟩ | ⟨hp, _⟩ <;> (rw [hp, hp'] at h; simp at h; omega)
  · rcases hc with ⟨hp, _⟩ | ⟨hp, _⟩ <;> (rw [hp, hp'] at h; simp at h)
  · rcases hc' with ⟨hp', _⟩ | ⟨hp', _⟩ <;> (rw [hp, hp'] at h; simp at h; omega)
  · rw [hp, hp'] at h
    simp at h
    exact ⟨u8_eq h.1, h.2⟩
  · rw [hp, hp'] at h
    simp at h
    omega
  · rcases hc' with ⟨hp', _⟩ | ⟨hp', _⟩ <;> (rw [hp, hp'] at h; simp at h)
  · rw [hp, hp'] at h
    simp at h
    omega
  · rw [hp, hp'] at h
    have h2 : hexL c ++ r = hexL c' ++ r' := by simpa using h
    have h3 : hexL c = hexL c' ∧ r = r' := by
      unfold hexL at h2 ⊢
      simp at h2
      exact ⟨by simp [h2.1, h2.2.1], h2.2.2⟩
    exact ⟨hexL_inj h3.1, h3.2⟩

/-- `esc` is injective on names (any fixed preceding byte) -/
theorem escL_inj : ∀ (a b : List UInt8) (prev : Option UInt8), escL prev a = escL prev b → a = b
  | [], [], _, _ => rfl
  | [], c :: r, prev, h => by
    simp only [escL] at h
    have := piece_ne_nil prev c
    cases hp : piece prev c with
    | nil => exact absurd hp this
    | cons x t => rw [hp] at h; simp at h
  | c :: r, [], prev, h => by
    simp only [escL] at h
    have := piece_ne_nil prev c
    cases hp : piece prev c with
    | nil => exact absurd hp this
    | cons x t => rw [hp] at h; simp at h
  | c :: r, c' :: r', prev, h => by
    simp only [escL] at h
    obtain ⟨e, hr⟩ := piece_append_inj prev c c' _ _ h
    subst e
    rw [escL_inj r r' (some c) hr]

theorem okFrom_cons {prev : Option UInt8} {c : UInt8} {r : List UInt8} (h : okFrom prev (c :: r) = true) :
    ¬ (prev = some 95 ∧ c = 95) ∧ okFrom (some c) r = true := by
  simp [okFrom] at h
  exact ⟨fun hh => by simp [hh.1, hh.2] at h, h.2⟩

theorem u8_95 {c : UInt8} (h : c.toNat = 95) : c = 95 := u8_eq (by simpa using h)

/-- the separator cannot be read as the beginning of a longer module name (of the accepted form) -/
theorem sep_conflict (prev : Option UInt8) (c : UInt8) (r : List UInt8) (R R' : List Nat)
    (hok : okFrom prev (c :: r) = true) (hprev : okFrom prev [] = true) :
    separator ++ R ≠ escL prev (c :: r) ++ (separator ++ R') := by
  intro h
  obtain ⟨hnd, hr⟩ := okFrom_cons hok
  simp only [escL, separator] at h
  by_cases hu : c.toNat = 95
  · have hc : c = 95 := u8_95 hu
    have hp : prev ≠ some c := by
      intro e; simp [okFrom, e, hc] at hprev
    rcases piece_cases prev c with ⟨_, ⟨_, e⟩ | ⟨hpc, _⟩⟩ | ⟨hn, _⟩ | ⟨hn, _⟩
    · exact hp e
    · rw [hpc] at h
      cases r with
      | nil => simp [okFrom, hc] at hr
      | cons c2 r2 =>
        obtain ⟨hnd2, _⟩ := okFrom_cons hr
        have hc2 : c2.toNat ≠ 95 := fun e => hnd2 ⟨by rw [hc], u8_95 e⟩
        obtain ⟨x, t, hx, hne⟩ := piece_head_ne (some c) c2 hc2
        simp only [escL, hx] at h
        simp at h
        omega
    · exact hn hu
    · exact hn hu
  · obtain ⟨x, t, hx, hne⟩ := piece_head_ne prev c hu
    rw [hx] at h
    simp at h
    omega

/-- esc(module) ++ separator ++ rest determines the module name and the rest, for module names of the accepted form -/
theorem esc_sep_inj : ∀ (a b : List UInt8) (prev : Option UInt8) (R R' : List Nat),
    okFrom prev a = true → okFrom prev b = true →
    escL prev a ++ (separator ++ R) = escL prev b ++ (separator ++ R') → a = b ∧ R = R'
  | [], [], _, R, R', _, _, h => by
    simp only [escL, List.nil_append] at h
    exact ⟨rfl, List.append_cancel_left h⟩
  | [], c :: r, prev, R, R', ha, hb, h => by
    simp only [escL, List.nil_append] at h
    exact absurd h (sep_conflict prev c r R R' hb ha)
  | c :: r, [], prev, R, R', ha, hb, h => by
    simp only [escL, List.nil_append] at h
    exact absurd h.symm (sep_conflict prev c r R' R ha hb)
  | c :: r, c' :: r', prev, R, R', ha, hb, h => by
    simp only [escL, List.append_assoc] at h
    obtain ⟨e, hr⟩ := piece_append_inj prev c c' _ _ h
    subst e
    obtain ⟨e2, hR⟩ := esc_sep_inj r r' (some c) R R' (okFrom_cons ha).2 (okFrom_cons hb).2 hr
    exact ⟨by rw [e2], hR⟩

/-! ## the module part (`escModL`): a leading byte the wrapper escapes -/

theorem leads_digit {c : UInt8} (h : leads c = true) : 48 ≤ c.toNat ∧ c.toNat ≤ 57 := by
  simp [leads, moduleLeadEscape, leadHolds] at h <;> exact h

theorem piece_prev_irrel (c c' : UInt8) (hc : c.toNat ≠ 95) : piece (some c) c' = piece none c' := by
  unfold piece
  by_cases hu : c'.toNat = underscore
  · have h1 : ¬ (some c = some c') := by
      intro e; injection e with e; subst e; exact hc hu
    simp [hu, h1]
  · simp [hu]

theorem escL_prev_irrel (c : UInt8) (hc : c.toNat ≠ 95) (r : List UInt8) : escL (some c) r = escL none r := by
  cases r with
  | nil => rfl
  | cons c' r' => simp only [escL, piece_prev_irrel c c' hc]

theorem okFrom_prev_irrel (c : UInt8) (hc : c.toNat ≠ 95) (r : List UInt8) : okFrom (some c) r = okFrom none r := by
  have h95 : c ≠ 95 := fun e => hc (by rw [e]; rfl)
  cases r with
  | nil =>
    have e1 : (some c != some (95 : UInt8)) = true := by simp [h95]
    simp [okFrom, e1]
  | cons c' r' => simp [okFrom, h95]

/-- esc(module part) ++ separator ++ rest determines the module name and the rest, for module names of the accepted form -/
theorem escMod_sep_inj (a b : List UInt8) (R R' : List Nat) (ha : okFrom none a = true) (hb : okFrom none b = true)
    (h : escModL a ++ (separator ++ R) = escModL b ++ (separator ++ R')) : a = b ∧ R = R' := by
  have sepHead : ∀ X : List Nat, separator ++ X = 95 :: 95 :: X := fun _ => rfl
  cases a with
  | nil =>
    cases b with
    | nil =>
      simp only [escModL, List.nil_append] at h
      exact ⟨rfl, List.append_cancel_left h⟩
    | cons c r =>
      simp only [escModL, List.nil_append] at h
      by_cases hl : leads c = true
      · simp [hl, sepHead, escapeChar] at h
      · simp only [hl] at h
        exact absurd h (sep_conflict none c r R R' hb ha)
  | cons c r =>
    cases b with
    | nil =>
      simp only [escModL, List.nil_append] at h
      by_cases hl : leads c = true
      · simp [hl, sepHead, escapeChar] at h
      · simp only [hl] at h
        exact absurd h.symm (sep_conflict none c r R' R ha hb)
    | cons c' r' =>
      simp only [escModL] at h
      by_cases hl : leads c = true <;> by_cases hl' : leads c' = true
      · -- both leading bytes are escaped by the wrapper
        simp only [hl, hl', if_true, List.cons_append, List.append_assoc, List.cons.injEq, true_and] at h
        have h2 : hexL c = hexL c' ∧ escL none r ++ (separator ++ R) = escL none r' ++ (separator ++ R') := by
          unfold hexL at h ⊢
          simp at h
          exact ⟨by simp [h.1, h.2.1], h.2.2⟩
        have e := hexL_inj h2.1
        subst e
        have hc95 : c.toNat ≠ 95 := by have := leads_digit hl; omega
        have oa : okFrom none r = true := by rw [← okFrom_prev_irrel c hc95]; exact (okFrom_cons ha).2
        have ob : okFrom none r' = true := by rw [← okFrom_prev_irrel c hc95]; exact (okFrom_cons hb).2
        obtain ⟨e2, hR⟩ := esc_sep_inj r r' none R R' oa ob h2.2
        exact ⟨by rw [e2], hR⟩
      · -- only the left one: X hh … against an ordinary first piece
        have hl'f : leads c' = false := by simpa using hl'
        simp only [hl, hl'f, if_true, escL, List.cons_append, List.append_assoc] at h
        rcases piece_cases none c' with ⟨_, ⟨hp, _⟩ | ⟨hp, _⟩⟩ | ⟨_, hx, _, hp⟩ | ⟨_, hk, hp⟩
        · rw [hp] at h; simp [escapeChar] at h
        · rw [hp] at h; simp [escapeChar] at h
        · rw [hp] at h; simp [escapeChar] at h; omega
        · rw [hp] at h
          have h2 : hexL c = hexL c' := by
            unfold hexL at h ⊢
            simp [escapeChar] at h
            simp [h.1, h.2.1]
          have e := hexL_inj h2
          subst e
          rw [hl] at hl'f; exact absurd hl'f (by simp)
      · have hlf : leads c = false := by simpa using hl
        simp only [hlf, hl', if_true, escL, List.cons_append, List.append_assoc] at h
        rcases piece_cases none c with ⟨_, ⟨hp, _⟩ | ⟨hp, _⟩⟩ | ⟨_, hx, _, hp⟩ | ⟨_, hk, hp⟩
        · rw [hp] at h; simp [escapeChar] at h
        · rw [hp] at h; simp [escapeChar] at h
        · rw [hp] at h; simp [escapeChar] at h; omega
        · rw [hp] at h
          have h2 : hexL c = hexL c' := by
            unfold hexL at h ⊢
            simp [escapeChar] at h
            simp [h.1, h.2.1]
          have e := hexL_inj h2
          subst e
          rw [hl'] at hlf; exact absurd hlf (by simp)
      · have hlf : leads c = false := by simpa using hl
        have hl'f : leads c' = false := by simpa using hl'
        simp only [hlf, hl'f] at h
        exact esc_sep_inj (c :: r) (c' :: r') none R R' ha hb h

/-! ## the symbol is a C identifier -/

theorem hexU_idChar (n : Nat) (h : n < 16) : isIdChar (hexU n) = true := by
  unfold hexU isIdChar isIdStart
  split <;> simp <;> omega

theorem alnum_idChar {c : UInt8} (h : isAlnum c = true) : isIdChar c.toNat = true := by
  simp [isAlnum] at h
  simp [isIdChar, isIdStart]
  omega

theorem piece_idChars (prev : Option UInt8) (c : UInt8) : ∀ x ∈ piece prev c, isIdChar x = true := by
  intro x hx
  have := c.toNat_lt
  rcases piece_cases prev c with ⟨_, ⟨h, _⟩ | ⟨h, _⟩⟩ | ⟨_, _, hk, h⟩ | ⟨_, _, h⟩ <;> rw [h] at hx
  · simp at hx; subst hx; decide
  · simp at hx; subst hx; decide
  · simp at hx; subst hx; exact alnum_idChar (keeps_alnum hk)
  · simp [hexL] at hx
    rcases hx with rfl | rfl | rfl
    · decide
    · exact hexU_idChar _ (by omega)
    · exact hexU_idChar _ (by omega)

theorem escL_idChars : ∀ (bs : List UInt8) (prev : Option UInt8), ∀ x ∈ escL prev bs, isIdChar x = true
  | [], _, x, hx => by simp [escL] at hx
  | c :: rest, prev, x, hx => by
    simp only [escL, List.mem_append] at hx
    rcases hx with hx | hx
    · exact piece_idChars prev c x hx
    · exact escL_idChars rest (some c) x hx

theorem escModL_idChars (m : List UInt8) : ∀ x ∈ escModL m, isIdChar x = true := by
  cases m with
  | nil => intro x hx; simp [escModL] at hx
  | cons c rest =>
    intro x hx
    have := c.toNat_lt
    simp only [escModL] at hx
    by_cases hl : leads c = true
    · simp only [hl, if_true, List.cons_append, List.mem_cons, List.mem_append] at hx
      rcases hx with rfl | hx | hx
      · decide
      · simp [hexL] at hx
        rcases hx with rfl | rfl
        · exact hexU_idChar _ (by omega)
        · exact hexU_idChar _ (by omega)
      · exact escL_idChars rest none x hx
    · simp only [hl] at hx
      exact escL_idChars (c :: rest) none x hx

end W2c2Verif.Lemmas.Mangle
