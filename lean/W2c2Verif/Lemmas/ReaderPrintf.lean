/-
  Lemmas.ReaderPrintf — how many characters `sprintf` writes for the integer conversions used by
  stringbuilder.c and c.c (C99 §7.19.6.1: `%u %i %X %c`, flag `0`, a decimal field width, length modifier `ll`),
  as a function of the format string and of the argument *as passed through `...`* (default argument
  promotions: a `char` arrives as an `int`).  This is the specification side of `sprintf_fits`; it is small
  on purpose.  `%g` is not modelled digit by digit: `gMaxLen` is the longest output the standard's description
  of `%.Pg` allows for a binary64 argument.
-/
namespace W2c2Verif.Lemmas.Printf

/-- number of decimal digits of `n` (`0` has one digit) -/
def decDigits (n : Nat) : Nat := if n < 10 then 1 else 1 + decDigits (n / 10)
decreasing_by omega

/-- number of hexadecimal digits of `n` -/
def hexDigits (n : Nat) : Nat := if n < 16 then 1 else 1 + hexDigits (n / 16)
decreasing_by omega

theorem decDigits_le : ∀ (k n : Nat), n < 10 ^ (k + 1) → decDigits n ≤ k + 1 := by
  intro k
  induction k with
  | zero => intro n h; unfold decDigits; simp at h; simp [h]
  | succ k ih =>
    intro n h
    unfold decDigits
    split
    · omega
    · have : n / 10 < 10 ^ (k + 1) := by
        rw [Nat.div_lt_iff_lt_mul (by decide)]; rw [Nat.pow_succ] at h; exact h
      have := ih (n / 10) this
      omega

theorem hexDigits_le : ∀ (k n : Nat), n < 16 ^ (k + 1) → hexDigits n ≤ k + 1 := by
  intro k
  induction k with
  | zero => intro n h; unfold hexDigits; simp at h; simp [h]
  | succ k ih =>
    intro n h
    unfold hexDigits
    split
    · omega
    · have : n / 16 < 16 ^ (k + 1) := by
        rw [Nat.div_lt_iff_lt_mul (by decide)]; rw [Nat.pow_succ] at h; exact h
      have := ih (n / 16) this
      omega

theorem hexDigits_ge : ∀ (k n : Nat), 16 ^ k ≤ n → k + 1 ≤ hexDigits n := by
  intro k
  induction k with
  | zero => intro n _; unfold hexDigits; split <;> omega
  | succ k ih =>
    intro n h
    unfold hexDigits
    have h16 : 16 ≤ n := by
      have : 16 ^ 1 ≤ 16 ^ (k + 1) := Nat.pow_le_pow_right (by decide) (by omega)
      omega
    have : ¬ n < 16 := by omega
    simp only [this, if_false]
    have : 16 ^ k ≤ n / 16 := by
      rw [Nat.le_div_iff_mul_le (by decide)]; rw [Nat.pow_succ] at h; exact h
    have := ih (n / 16) this
    omega

inductive Conv | u | i | X | c
  deriving DecidableEq, Repr

structure ConvSpec where
  width : Nat
  ll : Bool
  conv : Conv
  deriving DecidableEq, Repr

inductive Piece
  | lit (ch : Char)
  | conv (s : ConvSpec)
  deriving DecidableEq, Repr

def digitVal (c : Char) : Option Nat :=
  if '0' ≤ c ∧ c ≤ '9' then some (c.toNat - 48) else none

/-- after `%`: optional `0` flag, width digits, optional `ll`, conversion character -/
def parseConv : List Char → Nat → Bool → Option (ConvSpec × List Char)
  | 'l' :: 'l' :: t, w, _ => parseConv t w true
  | 'u' :: t, w, ll => some ({ width := w, ll := ll, conv := .u }, t)
  | 'i' :: t, w, ll => some ({ width := w, ll := ll, conv := .i }, t)
  | 'X' :: t, w, ll => some ({ width := w, ll := ll, conv := .X }, t)
  | 'c' :: t, w, ll => some ({ width := w, ll := ll, conv := .c }, t)
  | ch :: t, w, ll =>
    match digitVal ch with
    | some d => parseConv t (w * 10 + d) ll
    | none => none
  | [], _, _ => none

def parse : Nat → List Char → Option (List Piece)
  | 0, _ => none
  | _, [] => some []
  | fuel + 1, '%' :: t =>
    match parseConv t 0 false with
    | some (s, rest) => (parse fuel rest).map (Piece.conv s :: ·)
    | none => none
  | fuel + 1, ch :: t => (parse fuel t).map (Piece.lit ch :: ·)

/-- A variadic argument: declared C type (`bits`, `signed`) and the bits of the value. -/
structure Arg where
  bits : Nat
  signed : Bool
  raw : Nat
  deriving Repr

/-- the mathematical value of the argument -/
def Arg.toInt (a : Arg) : Int :=
  if a.signed ∧ 2 ^ (a.bits - 1) ≤ a.raw then (a.raw : Int) - (2 ^ a.bits : Nat) else (a.raw : Int)

/-- Characters written for one conversion: the argument is converted to `unsigned int` / `unsigned long long`
    (`%u %X`: value modulo 2^32 / 2^64 after promotion) or read as `int` / `long long` (`%i`). -/
def convLen (s : ConvSpec) (a : Arg) : Nat :=
  let w := if s.ll then 64 else 32
  let natural :=
    match s.conv with
    | .c => 1
    | .u => decDigits (a.toInt % (2 ^ w : Nat)).toNat
    | .X => hexDigits (a.toInt % (2 ^ w : Nat)).toNat
    | .i => (if a.toInt < 0 then 1 else 0) + decDigits a.toInt.natAbs
  max s.width natural

def piecesLen : List Piece → List Arg → Option Nat
  | [], [] => some 0
  | [], _ :: _ => none
  | .lit _ :: ps, as => (piecesLen ps as).map (· + 1)
  | .conv s :: ps, a :: as => (piecesLen ps as).map (· + convLen s a)
  | .conv _ :: _, [] => none

/-- `strlen` of what `sprintf(buf, fmt, args…)` writes (the terminating NUL is one more byte). -/
def formatLen (fmt : String) (args : List Arg) : Option Nat :=
  match parse (fmt.length + 1) fmt.toList with
  | some ps => piecesLen ps args
  | none => none

/-- Longest output of `%.Pg` for a binary64 argument: scientific style `-d.ddd…e-XXX` (P significant digits,
    three exponent digits) or fixed style with up to four leading zeros `-0.0000ddd…`; `inf`/`nan` are shorter. -/
def gMaxLen (P : Nat) : Nat := max (1 + 1 + 1 + (P - 1) + 1 + 1 + 3) (1 + 2 + 4 + P)

end W2c2Verif.Lemmas.Printf
