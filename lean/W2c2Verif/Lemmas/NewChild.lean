/-
  Lemmas.NewChild — the call sequence extracted from `wasmCWriteNewChildFunction` (Gen.newChildSteps with the instance
  argument of every call, Gen.newChildTarget / newChildMemParent) initialises the CHILD and only the child.
-/
import W2c2Verif.Model.NewChild
import W2c2Verif.Lemmas.InstantiateOrder

namespace W2c2Verif.Model.Inst
open W2c2Verif Spec.Inst Gen

/-- without shared memories every defined memory of a child is allocated, exactly as for a first instance -/
theorem allocOrShare_unshared (d : ModDesc) (p : Instance) (hns : ∀ k, d.memShared.getD k false = false) :
    ∀ (mems : List (Nat × Nat)) (start : Nat) (w0 : World) (ptrs0 : List Nat),
      foldM' (allocOrShare d p) (w0, ptrs0) (mems.zipIdx start) =
        .val ({ w0 with mems := w0.mems ++ mems.map fun mm => Array.replicate (mm.1 * pageSize) (0 : UInt8) },
              ptrs0 ++ (List.range mems.length).map (w0.mems.length + ·)) := by
  intro mems
  induction mems with
  | nil => intro start w0 ptrs0; simp [foldM']
  | cons m ms ih =>
    intro start w0 ptrs0
    simp only [List.zipIdx_cons, foldM', allocOrShare, hns, Bool.false_eq_true, if_false, Out.bind_val]
    rw [ih]
    congr 1
    simp only [Prod.mk.injEq]
    refine ⟨by simp, ?_⟩
    simp only [List.length_append, List.length_cons, List.length_nil, List.range_succ_eq_map, List.map_cons, List.map_map,
      List.append_assoc, List.singleton_append, Nat.add_zero]
    congr 2
    apply List.map_congr_left
    intro a _
    simp; omega

theorem initMemoriesFrom_unshared (d : ModDesc) (p : Instance) (s : St) (hns : ∀ k, d.memShared.getD k false = false) :
    initMemoriesFrom d (some p) s = initMemories d s := by
  unfold initMemoriesFrom initMemories
  simp only
  rw [allocOrShare_unshared d p hns d.mems 0 s.1 []]
  simp

/-- InitMemories (with or without parent) leaves the tables and globals of the struct alone -/
theorem initMemoriesFrom_inst (d : ModDesc) (parent : Option Instance) (s s' : St) (h : initMemoriesFrom d parent s = .val s') :
    s'.2.tables = s.2.tables ∧ s'.2.globals = s.2.globals := by
  cases parent with
  | none => exact initMemories_inst d s s' h
  | some p =>
    simp only [initMemoriesFrom] at h
    cases ha : foldM' (allocOrShare d p) (s.1, []) d.mems.zipIdx with
    | val wp =>
      rw [ha] at h
      simp only [Out.bind_val] at h
      exact foldM'_inv (loadData d) (fun t : St => t.2.tables = s.2.tables ∧ t.2.globals = s.2.globals)
        (fun a x b hx hp => by rw [loadData_inst d a b x hx]; exact hp) _ _ _ h ⟨rfl, rfl⟩
    | trap t => rw [ha] at h; simp at h
    | ub k => rw [ha] at h; simp at h
    | oof => rw [ha] at h; simp at h

theorem foldM'_cons {σ α} (f : σ → α → Out σ) (s : σ) (x : α) (xs : List α) :
    foldM' f s (x :: xs) = f s x >>= fun s' => foldM' f s' xs := rfl

/-- the last three calls of NewChild (tables, globals, start) on a child that has no tables / globals yet -/
theorem newChild_tail (d : ModDesc) (r : Resolver) (start : St → Out St) (self : Instance) (s1 : St)
    (ht : s1.2.tables = []) (hgl : s1.2.globals = []) :
    foldM' (runChildStep d r start) { w := s1.1, self := self, child := s1.2 }
        [([.tableDefined, .hasElems], .tables), ([.globalsDefined], .globals), ([.hasStart], .start)] =
      ((initTables d s1 >>= initGlobals d >>= fun s => if d.hasStart then start s else .val s) >>= fun s =>
        .val { w := s.1, self := self, child := s.2 }) := by
  have e2 : ∀ x : Fam, x.child.tables = [] → runChildStep d r start x ([.tableDefined, .hasElems], .tables) = onTarget .child (initTables d) x := by
    intro x hx
    show (if guardHolds d [.tableDefined, .hasElems] then (if guardHolds d [.tableDefined, .hasElems] then
            onTarget .child (initTables d) x else .ub .unboundVar) else .val x) = _
    by_cases hg : guardHolds d [.tableDefined, .hasElems] = true
    · rw [if_pos hg, if_pos hg]
    · rw [if_neg hg]
      have this := step_tables d (x.w, x.child) hx
      rw [if_neg hg] at this
      simp only [onTarget, ← this, Out.bind_val]
  have e3 : ∀ x : Fam, x.child.globals = [] → runChildStep d r start x ([.globalsDefined], .globals) = onTarget .child (initGlobals d) x := by
    intro x hx
    show (if guardHolds d [.globalsDefined] then (if guardHolds d [.globalsDefined] then
            onTarget .child (initGlobals d) x else .ub .unboundVar) else .val x) = _
    by_cases hg : guardHolds d [.globalsDefined] = true
    · rw [if_pos hg, if_pos hg]
    · rw [if_neg hg]
      have this := step_globals d (x.w, x.child) hx
      rw [if_neg hg] at this
      simp only [onTarget, ← this, Out.bind_val]
  have e4 : ∀ x : Fam, runChildStep d r start x ([.hasStart], .start) = if d.hasStart then onTarget .child start x else .val x := by
    intro x
    show (if guardHolds d [.hasStart] then (if guardHolds d [.always] then onTarget .child start x else .ub .unboundVar) else .val x) = _
    have hstart : guardHolds d [.hasStart] = d.hasStart := by simp [guardHolds, atomHolds]
    have ga : guardHolds d [.always] = true := rfl
    rw [hstart, ga, if_pos rfl]
  rw [foldM'_cons, e2 _ ht]
  simp only [onTarget]
  cases h2 : initTables d s1 with
  | val s2 =>
    have hg2 := initTables_inst d s1 s2 h2
    simp only [Out.bind_val]
    rw [foldM'_cons, e3 _ (by show s2.2.globals = []; rw [hg2, hgl])]
    simp only [onTarget]
    cases h3 : initGlobals d s2 with
    | val s3 =>
      simp only [Out.bind_val]
      rw [foldM'_cons, e4]
      by_cases hs : d.hasStart = true
      · simp only [hs, if_true, onTarget]
        cases start s3 <;> rfl
      · simp only [hs]
        rfl
    | trap t => rfl
    | ub k => rfl
    | oof => rfl
  | trap t => rfl
  | ub k => rfl
  | oof => rfl

/-- `<module>NewChild` as emitted = every initialisation on the CHILD, in order, then the start function on the child (if
    any), nothing after; the struct of `self` comes back as it was -/
theorem newChild_eq (d : ModDesc) (r : Resolver) (start : St → Out St) (w : World) (self : Instance) :
    newChild d r start w self =
      ((childInit d r w self >>= fun s => if d.hasStart then start s else .val s) >>= fun s => .val { w := s.1, self := self, child := s.2 }) := by
  unfold newChild childInit
  have h0 : initImports d r (w, {}) = .val (w, imp0 d r) := rfl
  have e0 : runChildStep d r start { w := w, self := self, child := {} } ([.always], .imports) = .val { w := w, self := self, child := imp0 d r } := rfl
  have e1 : ∀ x : Fam, runChildStep d r start x ([.memDefined], .memories) =
      if d.mems.length > 0 then onTarget .child (initMemoriesFrom d (some x.self)) x else .val x := by
    intro x
    show (if guardHolds d [.memDefined] then (if guardHolds d [.memDefined, .hasData] then
            onTarget .child (initMemoriesFrom d (x.pick .self)) x else .ub .unboundVar) else .val x) = _
    by_cases hm : d.mems.length > 0
    · have g1 : guardHolds d [.memDefined] = true := by simp [guardHolds, atomHolds, hm]
      have g2 : guardHolds d [.memDefined, .hasData] = true := by simp [guardHolds, atomHolds, hm]
      rw [g1, g2, if_pos rfl, if_pos rfl, if_pos hm]
      rfl
    · have hnil : d.mems = [] := eq_nil_of_length_not_pos _ hm
      have g1 : guardHolds d [.memDefined] = false := by simp [guardHolds, atomHolds, hnil]
      rw [g1, if_neg hm]
      rfl
  rw [show Gen.newChildSteps = ([.always], .imports) :: ([.memDefined], .memories) ::
        [([.tableDefined, .hasElems], .tables), ([.globalsDefined], .globals), ([.hasStart], .start)] from rfl]
  rw [foldM'_cons, e0, h0]
  simp only [Out.bind_val]
  rw [foldM'_cons, e1]
  by_cases hm : d.mems.length > 0
  · simp only [hm, if_true, onTarget]
    cases h1 : initMemoriesFrom d (some self) (w, imp0 d r) with
    | val s1 =>
      obtain ⟨ht, hgl⟩ := initMemoriesFrom_inst d _ _ s1 h1
      simp only [Out.bind_val]
      exact newChild_tail d r start self s1 (by rw [ht]; rfl) (by rw [hgl]; rfl)
    | trap t => rfl
    | ub k => rfl
    | oof => rfl
  · simp only [hm, if_false, Out.bind_val]
    exact newChild_tail d r start self (w, imp0 d r) rfl rfl

end W2c2Verif.Model.Inst
