/-
  Lemmas.Leb — the decoder loop of `Model.Leb` on every spec encoding (`Spec.Binary.ULeb/SLeb`),
  by induction on the derivation of the encoding (= on the byte list), for any decoder row whose
  constants have the shape `WF` (the four regenerated rows do, by `decide`).
-/
import W2c2Verif.Model.Leb
import W2c2Verif.Spec.Binary

namespace W2c2Verif.Lemmas.Leb
open W2c2Verif.Model.Leb W2c2Verif.Spec.Binary
open W2c2Verif.Gen.Reader (LebDecoder)

/-- The constants of a decoder row as the proofs need them. -/
structure WF (d : LebDecoder) : Prop where
  step : d.step = 7
  pay : d.payloadMask = 127
  cont : d.contMask = 128
  fuel : d.width ≤ 7 * d.maxBytes
  wpos : 0 < d.width

structure WFS (d : LebDecoder) : Prop extends WF d where
  signed : d.signed = true
  sign : d.signMask = 64
  guard : d.guardBits = d.width

structure WFU (d : LebDecoder) : Prop extends WF d where
  unsigned : d.signed = false

/-! ### byte masks -/

theorem and127 (n : Nat) : n &&& 127 = n % 128 := Nat.and_two_pow_sub_one_eq_mod n 7

set_option maxRecDepth 100000 in
theorem and128_lt : ∀ n, n < 256 → ((n &&& 128 = 0) ↔ n < 128) := by decide

set_option maxRecDepth 100000 in
theorem and64_lt : ∀ n, n < 128 → ((n &&& 64 ≠ 0) ↔ 64 ≤ n) := by decide

theorem cont_iff (b : UInt8) : (b.toNat &&& 128 = 0) ↔ b.toNat < 128 := and128_lt _ b.toNat_lt

/-! ### arithmetic helpers -/

theorem or_shift_disjoint {a p k : Nat} (ha : a < 2 ^ k) : a ||| (p * 2 ^ k) = a + p * 2 ^ k := by
  have := Nat.shiftLeft_add_eq_or_of_lt ha p
  rw [Nat.shiftLeft_eq] at this
  rw [Nat.or_comm, ← this, Nat.add_comm]

theorem pow_split {k n : Nat} : 2 ^ (k + n) = 2 ^ n * 2 ^ k := by
  rw [Nat.pow_add, Nat.mul_comm]

/-- One step of the loop on a continuation byte or on a last byte that fits: the payload lands above the
    accumulated bits, nothing is truncated. -/
theorem step_value {d : LebDecoder} (hd : WF d) (s : St) (b : UInt8) (hv : s.value < 2 ^ s.shift)
    (hfit : (b.toNat % 128) * 2 ^ s.shift < 2 ^ d.width) :
    (step d s b).value = s.value + (b.toNat % 128) * 2 ^ s.shift := by
  simp only [step, hd.pay, and127, Nat.shiftLeft_eq]
  rw [Nat.mod_eq_of_lt hfit, or_shift_disjoint hv]

theorem step_fields {d : LebDecoder} (hd : WF d) (s : St) (b : UInt8) :
    (step d s b).shift = s.shift + 7 ∧ (step d s b).count = s.count + 1 ∧ (step d s b).byte = b.toNat ∧
    (step d s b).ub = (s.ub || decide (d.width ≤ s.shift)) := by
  simp [step, hd.step]

/-! ### unsigned -/

theorem acc_more (v p m P : Nat) : v + p * P + m * (128 * P) = v + (128 * m + p) * P := by
  rw [Nat.add_mul, Nat.mul_assoc, Nat.mul_left_comm m]; omega

theorem loop_last {d : LebDecoder} (hd : WF d) (f : Nat) (b : UInt8) (rest : Bytes) (s : St) (h7 : b.toNat < 128) :
    loop d (f + 1) ([b] ++ rest) s = (step d s b, rest) := by
  have hc : b.toNat &&& d.contMask = 0 := by rw [hd.cont]; exact (cont_iff b).2 h7
  simp [loop, hc]

theorem loop_more {d : LebDecoder} (hd : WF d) (f : Nat) (b : UInt8) (bs rest : Bytes) (s : St) (h7 : 128 ≤ b.toNat) :
    loop d (f + 1) (b :: bs ++ rest) s = loop d f (bs ++ rest) (step d s b) := by
  have hc : ¬ (b.toNat &&& d.contMask = 0) := by rw [hd.cont, cont_iff]; omega
  simp [loop, hc]

theorem loop_uleb {d : LebDecoder} (hd : WF d) {N m : Nat} {bs : Bytes} (h : ULeb N m bs) :
    ∀ (fuel : Nat) (s : St) (rest : Bytes), N ≤ 7 * fuel → s.shift + N ≤ d.width → s.value < 2 ^ s.shift →
      (loop d fuel (bs ++ rest) s).2 = rest ∧
      (loop d fuel (bs ++ rest) s).1.value = s.value + m * 2 ^ s.shift ∧
      (loop d fuel (bs ++ rest) s).1.count = s.count + bs.length ∧
      (loop d fuel (bs ++ rest) s).1.shift = s.shift + 7 * bs.length ∧
      (loop d fuel (bs ++ rest) s).1.ub = s.ub := by
  induction h with
  | @last N b hN h7 hr =>
    intro fuel s rest hf hs hv
    obtain ⟨f, rfl⟩ : ∃ f, fuel = f + 1 := ⟨fuel - 1, by omega⟩
    have hmod : b.toNat % 128 = b.toNat := Nat.mod_eq_of_lt h7
    have hfit : (b.toNat % 128) * 2 ^ s.shift < 2 ^ d.width := by
      rw [hmod]
      calc b.toNat * 2 ^ s.shift < 2 ^ N * 2 ^ s.shift := Nat.mul_lt_mul_of_pos_right hr (Nat.two_pow_pos _)
        _ = 2 ^ (s.shift + N) := pow_split.symm
        _ ≤ 2 ^ d.width := Nat.pow_le_pow_right (by decide) hs
    have hsv := step_value hd s b hv hfit
    obtain ⟨h1, h2, _, h4⟩ := step_fields hd s b
    rw [loop_last hd f b rest s h7]
    refine ⟨rfl, ?_, ?_, ?_, ?_⟩
    · show (step d s b).value = _; rw [hsv, hmod]
    · show (step d s b).count = _; rw [h2]; simp
    · show (step d s b).shift = _; rw [h1]; simp
    · show (step d s b).ub = _; rw [h4]; have : ¬ d.width ≤ s.shift := by omega
      simp [this]
  | @more N m bs b h7 hN ht ih =>
    intro fuel s rest hf hs hv
    obtain ⟨f, rfl⟩ : ∃ f, fuel = f + 1 := ⟨fuel - 1, by omega⟩
    have hb : b.toNat < 256 := b.toNat_lt
    have hp : b.toNat % 128 = b.toNat - 128 := by omega
    have hP : 0 < 2 ^ s.shift := Nat.two_pow_pos _
    have hfit : (b.toNat % 128) * 2 ^ s.shift < 2 ^ d.width := by
      calc (b.toNat % 128) * 2 ^ s.shift < 2 ^ 7 * 2 ^ s.shift :=
            Nat.mul_lt_mul_of_pos_right (Nat.mod_lt _ (by decide)) hP
        _ = 2 ^ (s.shift + 7) := pow_split.symm
        _ ≤ 2 ^ d.width := Nat.pow_le_pow_right (by decide) (by omega)
    have hsv := step_value hd s b hv hfit
    obtain ⟨h1, h2, _, h4⟩ := step_fields hd s b
    have hv' : (step d s b).value < 2 ^ (step d s b).shift := by
      rw [hsv, h1, pow_split]
      have : b.toNat % 128 * 2 ^ s.shift ≤ 127 * 2 ^ s.shift := Nat.mul_le_mul_right _ (by omega)
      omega
    obtain ⟨r1, r2, r3, r4, r5⟩ := ih f (step d s b) rest (by omega) (by rw [h1]; omega) hv'
    rw [loop_more hd f b bs rest s h7]
    refine ⟨r1, ?_, ?_, ?_, ?_⟩
    · rw [r2, hsv, h1, hp, pow_split]; exact acc_more _ _ _ _
    · rw [r3, h2]; simp; omega
    · rw [r4, h1]; simp; omega
    · rw [r5, h4]; have : ¬ d.width ≤ s.shift := by omega
      simp [this]

/-- `readU` on any spec encoding of `v` followed by anything: the value, the exact number of bytes, the
    rest of the buffer, and no undefined shift. -/
theorem readU_uleb {d : LebDecoder} (hd : WF d) (hu : d.signed = false) {v : Nat} {bs : Bytes}
    (h : ULeb d.width v bs) (rest : Bytes) :
    readU d (bs ++ rest) = { value := v, count := bs.length, rest := rest, ub := false } := by
  obtain ⟨r1, r2, r3, _, r5⟩ :=
    loop_uleb hd h d.maxBytes St.init rest hd.fuel (by simp [St.init]) (by simp [St.init])
  have hse : ∀ s, signExtend d s = s := by intro s; simp [signExtend, hu]
  simp only [readU, run, hse, r1, r2, r3, r5]
  simp [St.init]

/-! ### signed -/

theorem emod_neg (x W : Int) (h1 : -W ≤ x) (h2 : x < 0) : x % W = x + W := by
  rw [← Int.add_emod_right, Int.emod_eq_of_lt] <;> omega

/-- bits of `-((T)1 << k)` OR-ed onto a value below `2^k`. -/
theorem sext_or {V k w : Nat} (hV : V < 2 ^ k) (hk : k < w) :
    V ||| ((2 ^ w - (1 <<< k) % 2 ^ w) % 2 ^ w) = V + (2 ^ w - 2 ^ k) := by
  have hkw : 2 ^ k < 2 ^ w := Nat.pow_lt_pow_right (by decide) hk
  have hpos : 0 < 2 ^ k := Nat.two_pow_pos k
  rw [Nat.one_shiftLeft, Nat.mod_eq_of_lt hkw, Nat.mod_eq_of_lt (by omega)]
  have e : 2 ^ w = 2 ^ (w - k) * 2 ^ k := by rw [← Nat.pow_add]; congr 1; omega
  have : 2 ^ w - 2 ^ k = (2 ^ (w - k) - 1) * 2 ^ k := by rw [Nat.sub_mul, ← e]; simp
  rw [this]; exact or_shift_disjoint hV

theorem mask_aux (A B : Nat) (h1 : 0 < B) (h2 : B < A) : (A - 1) * B = (A - B) + (B - 1) * A := by
  have hX : A ≤ A * B := Nat.le_mul_of_pos_right _ h1
  have hY : B ≤ A * B := Nat.le_trans (Nat.le_of_lt h2) hX
  rw [Nat.sub_mul, Nat.sub_mul, Nat.one_mul, Nat.one_mul, Nat.mul_comm B A]
  omega

/-- the two ways of writing the sign bits denote the same `w`-bit pattern: `~(UT)0 << k` and `-((T)1 << k)` -/
theorem mask_eq {k w : Nat} (hk : k < w) :
    ((2 ^ w - 1) <<< k) % 2 ^ w = (2 ^ w - (1 <<< k) % 2 ^ w) % 2 ^ w := by
  have hkw : 2 ^ k < 2 ^ w := Nat.pow_lt_pow_right (by decide) hk
  have hpos : 0 < 2 ^ k := Nat.two_pow_pos k
  have hl : ((2 ^ w - 1) <<< k) % 2 ^ w = 2 ^ w - 2 ^ k := by
    rw [Nat.shiftLeft_eq, mask_aux _ _ hpos hkw, Nat.add_mul_mod_self_right, Nat.mod_eq_of_lt (by omega)]
  have hr : (2 ^ w - (1 <<< k) % 2 ^ w) % 2 ^ w = 2 ^ w - 2 ^ k := by
    rw [Nat.one_shiftLeft, Nat.mod_eq_of_lt hkw, Nat.mod_eq_of_lt (by omega)]
  rw [hl, hr]

/-- `signExtend` when its condition holds, in one normal form for both source forms. -/
theorem signExtend_applied (d : LebDecoder) (s : St) (hc : d.signed = true ∧ s.shift < d.guardBits ∧ s.byte &&& d.signMask ≠ 0)
    (hk : s.shift < d.width) :
    signExtend d s =
      { s with value := s.value ||| ((2 ^ d.width - (1 <<< s.shift) % 2 ^ d.width) % 2 ^ d.width)
               ub := s.ub || decide (d.signExtForm ≠ "unsignedMask" ∧ d.width ≤ s.shift + 1) } := by
  unfold signExtend
  rw [if_pos hc]
  by_cases hf : d.signExtForm = "unsignedMask"
  · rw [if_pos hf, mask_eq hk]
    have : ¬ d.width ≤ s.shift := by omega
    simp [hf, this]
  · rw [if_neg hf]; simp [hf]

theorem step_value_trunc {d : LebDecoder} (hd : WF d) (s : St) (b : UInt8) (N : Nat) (hv : s.value < 2 ^ s.shift)
    (hs : s.shift + N = d.width) :
    (step d s b).value = s.value + (b.toNat % 128 % 2 ^ N) * 2 ^ s.shift := by
  simp only [step, hd.pay, and127, Nat.shiftLeft_eq]
  rw [← hs, pow_split, Nat.mul_mod_mul_right, or_shift_disjoint hv]

theorem int_fix (sv c P : Nat) (v : Int) (M : Nat) (hc : (c : Int) = v + M) :
    ((sv : Int) + c * P) = (sv + v * P) + M * P := by
  rw [hc, Int.add_mul]; omega

/-- The last byte of a signed encoding (`N = width − shift` bits are still missing). -/
theorem last_signed {d : LebDecoder} (hd : WFS d) (s : St) (b : UInt8) (N : Nat) (hN : 0 < N)
    (hs : s.shift + N = d.width) (hv : s.value < 2 ^ s.shift) (h7 : b.toNat < 128)
    (hr : (b.toNat < 64 ∧ b.toNat < 2 ^ (N - 1)) ∨ (64 ≤ b.toNat ∧ 128 ≤ b.toNat + 2 ^ (N - 1))) :
    ((signExtend d (step d s b)).value : Int) =
      ((s.value : Int) + (if b.toNat < 64 then (b.toNat : Int) else (b.toNat : Int) - 128) * ((2 ^ s.shift : Nat) : Int))
        % ((2 ^ d.width : Nat) : Int) ∧
    (signExtend d (step d s b)).ub =
      (s.ub || decide (d.signExtForm ≠ "unsignedMask" ∧ 64 ≤ b.toNat ∧ s.shift + 8 = d.width)) ∧
    (signExtend d (step d s b)).count = s.count + 1 := by
  have hwf := hd.toWF
  obtain ⟨h1, h2, h3, h4⟩ := step_fields hwf s b
  have hub : (step d s b).ub = s.ub := by
    rw [h4]; have : ¬ d.width ≤ s.shift := by omega
    simp [this]
  have hmod : b.toNat % 128 = b.toNat := Nat.mod_eq_of_lt h7
  have hP : 0 < 2 ^ s.shift := Nat.two_pow_pos _
  have hW : 2 ^ d.width = 2 ^ N * 2 ^ s.shift := by rw [← hs]; exact pow_split
  have hcount : (signExtend d (step d s b)).count = s.count + 1 := by
    rw [← h2]; unfold signExtend; split
    · split <;> rfl
    · rfl
  rcases hr with ⟨h6, hr⟩ | ⟨h6, hr⟩
  · -- non-negative
    have hNN : 2 ^ N = 2 * 2 ^ (N - 1) := by rw [← Nat.pow_succ']; congr 1; omega
    have hle : (b.toNat + 1) * 2 ^ s.shift ≤ 2 ^ (N - 1) * 2 ^ s.shift := Nat.mul_le_mul_right _ hr
    have hfit : (b.toNat % 128) * 2 ^ s.shift < 2 ^ d.width := by
      rw [hmod, hW, hNN, Nat.mul_assoc]; rw [Nat.add_mul] at hle; omega
    have hsv := step_value hwf s b hv hfit
    have hno : signExtend d (step d s b) = step d s b := by
      have : ¬ ((step d s b).byte &&& d.signMask ≠ 0) := by
        rw [h3, hd.sign, and64_lt _ h7]; omega
      simp [signExtend, this]
    rw [hno, hub, hsv, hmod]
    refine ⟨?_, ?_, hcount ▸ (by rw [hno])⟩
    · simp only [h6, if_true]
      rw [Int.emod_eq_of_lt]
      · simp [Int.natCast_add, Int.natCast_mul]
      · have h0 : (0:Int) ≤ (s.value : Int) := Int.natCast_nonneg _
        have h0' : (0:Int) ≤ (b.toNat : Int) * ((2 ^ s.shift : Nat) : Int) :=
          Int.mul_nonneg (Int.natCast_nonneg _) (Int.natCast_nonneg _)
        omega
      · have : s.value + b.toNat * 2 ^ s.shift < 2 ^ d.width := by
          rw [hW, hNN, Nat.mul_assoc]; rw [Nat.add_mul] at hle; omega
        have := Int.ofNat_lt.2 this
        simpa [Int.natCast_add, Int.natCast_mul] using this
    · have : ¬ (64 ≤ b.toNat) := by omega
      simp [this]
  · -- negative
    have hnot : ¬ b.toNat < 64 := by omega
    simp only [hnot, if_false]
    have hsign : (step d s b).byte &&& d.signMask ≠ 0 := by rw [h3, hd.sign, and64_lt _ h7]; exact h6
    rcases Nat.lt_or_ge 7 N with hN7 | hN7
    · -- the sign extension is applied
      have hW' : 2 ^ d.width = 2 ^ (N - 7) * 2 ^ (s.shift + 7) := by
        rw [← hs, ← Nat.pow_add]; congr 1; omega
      have hQ : 2 ≤ 2 ^ (N - 7) := by
        have : 2 ^ 1 ≤ 2 ^ (N - 7) := Nat.pow_le_pow_right (by decide) (by omega)
        simpa using this
      have h128 : 2 ^ (s.shift + 7) = 128 * 2 ^ s.shift := pow_split
      have hfit : (b.toNat % 128) * 2 ^ s.shift < 2 ^ d.width := by
        rw [hmod, hW', h128]
        have : b.toNat * 2 ^ s.shift ≤ 127 * 2 ^ s.shift := Nat.mul_le_mul_right _ (by omega)
        have : 2 * (128 * 2 ^ s.shift) ≤ 2 ^ (N - 7) * (128 * 2 ^ s.shift) := Nat.mul_le_mul_right _ hQ
        omega
      have hsv := step_value hwf s b hv hfit
      have hV : (step d s b).value < 2 ^ (s.shift + 7) := by
        rw [hsv, hmod, h128]
        have : b.toNat * 2 ^ s.shift ≤ 127 * 2 ^ s.shift := Nat.mul_le_mul_right _ (by omega)
        omega
      have hyes : signExtend d (step d s b) =
          { step d s b with value := (step d s b).value ||| ((2 ^ d.width - (1 <<< (step d s b).shift) % 2 ^ d.width) % 2 ^ d.width)
                            ub := (step d s b).ub || decide (d.signExtForm ≠ "unsignedMask" ∧ d.width ≤ (step d s b).shift + 1) } := by
        have : (step d s b).shift < d.guardBits := by rw [h1, hd.guard]; omega
        exact signExtend_applied d _ ⟨hd.signed, this, hsign⟩ (by rw [h1]; omega)
      rw [hyes]
      refine ⟨?_, ?_, by simpa using h2⟩
      · show (((step d s b).value ||| ((2 ^ d.width - (1 <<< (step d s b).shift) % 2 ^ d.width) % 2 ^ d.width) : Nat) : Int) = _
        rw [h1, sext_or hV (by omega), hsv, hmod, h128]
        have hWge : 2 * (128 * 2 ^ s.shift) ≤ 2 ^ d.width := by
          rw [hW', h128]; exact Nat.mul_le_mul_right _ hQ
        have hbP : b.toNat * 2 ^ s.shift ≤ 127 * 2 ^ s.shift := Nat.mul_le_mul_right _ (by omega)
        have hbP' : 64 * 2 ^ s.shift ≤ b.toNat * 2 ^ s.shift := Nat.mul_le_mul_right _ h6
        rw [emod_neg]
        · rw [Int.sub_mul]
          have e1 : ((s.value + b.toNat * 2 ^ s.shift + (2 ^ d.width - 128 * 2 ^ s.shift) : Nat) : Int)
              = (s.value : Int) + (b.toNat : Int) * ((2 ^ s.shift : Nat) : Int) + (((2 ^ d.width : Nat) : Int) - 128 * ((2 ^ s.shift : Nat) : Int)) := by
            rw [Int.natCast_add, Int.natCast_add, Int.natCast_mul, Int.natCast_sub (by omega), Int.natCast_mul]; rfl
          rw [e1]; omega
        · rw [Int.sub_mul]
          have := Int.ofNat_le.2 hWge
          have h2' := Int.ofNat_le.2 hbP'
          simp only [Int.natCast_mul] at this h2'
          have : (0:Int) ≤ (s.value : Int) := Int.natCast_nonneg _
          omega
        · rw [Int.sub_mul]
          have h2' := Int.ofNat_le.2 hbP
          have h3' := Int.ofNat_lt.2 hv
          simp only [Int.natCast_mul] at h2'
          omega
      · show ((step d s b).ub || decide (d.signExtForm ≠ "unsignedMask" ∧ d.width ≤ (step d s b).shift + 1)) = _
        rw [hub, h1]
        have : (d.width ≤ s.shift + 7 + 1) ↔ (64 ≤ b.toNat ∧ s.shift + 8 = d.width) := by omega
        simp [this]
    · -- the guard `shift < width` fails: the bits are already complete (possibly after truncation)
      have hno : signExtend d (step d s b) = step d s b := by
        have : ¬ ((step d s b).shift < d.guardBits) := by rw [h1, hd.guard]; omega
        simp [signExtend, this]
      rw [hno, hub]
      refine ⟨?_, ?_, h2⟩
      · rw [step_value_trunc hwf s b N hv hs, hmod]
        have hN' : N = 1 ∨ N = 2 ∨ N = 3 ∨ N = 4 ∨ N = 5 ∨ N = 6 ∨ N = 7 := by omega
        have hb3 := Int.ofNat_lt.2 hv
        have hb0 : (0:Int) ≤ (s.value : Int) := Int.natCast_nonneg _
        have key : ∀ M : Nat, 2 ^ N = M → M ≤ 128 → (b.toNat % M : Nat) + 128 = b.toNat + M →
            ((s.value + b.toNat % M * 2 ^ s.shift : Nat) : Int) =
              ((s.value : Int) + ((b.toNat : Int) - 128) * ((2 ^ s.shift : Nat) : Int)) % ((M * 2 ^ s.shift : Nat) : Int) := by
          intro M _ hM hc
          have hcI : ((b.toNat % M : Nat) : Int) = ((b.toNat : Int) - 128) + (M : Nat) := by omega
          rw [Int.natCast_add, Int.natCast_mul, int_fix _ _ _ _ _ hcI, Int.natCast_mul]
          have hcm : (b.toNat % M) * 2 ^ s.shift < M * 2 ^ s.shift :=
            Nat.mul_lt_mul_of_pos_right (Nat.mod_lt _ (by omega)) hP
          have hcm' := Int.ofNat_lt.2 hcm
          rw [Int.natCast_mul, Int.natCast_mul, hcI, Int.add_mul] at hcm'
          have hnn : (0:Int) ≤ ((b.toNat % M : Nat) : Int) * ((2 ^ s.shift : Nat) : Int) :=
            Int.mul_nonneg (Int.natCast_nonneg _) (Int.natCast_nonneg _)
          rw [hcI, Int.add_mul] at hnn
          have hneg : ((b.toNat : Int) - 128) * ((2 ^ s.shift : Nat) : Int) ≤ -((2 ^ s.shift : Nat) : Int) := by
            have : ((b.toNat : Int) - 128) ≤ -1 := by omega
            have := Int.mul_le_mul_of_nonneg_right this (Int.natCast_nonneg (2 ^ s.shift))
            omega
          rw [emod_neg] <;> omega
        rw [hW]
        rcases hN' with h | h | h | h | h | h | h <;> subst h <;> simp only [Nat.reducePow, Nat.reduceSub] at hr ⊢ <;>
          exact key _ (by rfl) (by decide) (by omega)
      · have : ¬ (s.shift + 8 = d.width) := by omega
        simp [this]

theorem loop_sleb {d : LebDecoder} (hd : WFS d) {N : Nat} {v : Int} {bs : Bytes} (h : SLeb N v bs) :
    ∀ (fuel : Nat) (s : St) (rest : Bytes), N ≤ 7 * fuel → s.shift + N = d.width → s.value < 2 ^ s.shift →
      (loop d fuel (bs ++ rest) s).2 = rest ∧
      (signExtend d (loop d fuel (bs ++ rest) s).1).count = s.count + bs.length ∧
      ((signExtend d (loop d fuel (bs ++ rest) s).1).value : Int) =
        ((s.value : Int) + v * ((2 ^ s.shift : Nat) : Int)) % ((2 ^ d.width : Nat) : Int) ∧
      (signExtend d (loop d fuel (bs ++ rest) s).1).ub =
        (s.ub || decide (d.signExtForm ≠ "unsignedMask" ∧ v < 0 ∧ s.shift + 7 * bs.length + 1 = d.width)) := by
  have hwf := hd.toWF
  induction h with
  | @pos N b hN h6 hr =>
    intro fuel s rest hf hs hv
    obtain ⟨f, rfl⟩ : ∃ f, fuel = f + 1 := ⟨fuel - 1, by omega⟩
    rw [loop_last hwf f b rest s (by omega)]
    obtain ⟨a1, a2, a3⟩ := last_signed hd s b N hN hs hv (by omega) (Or.inl ⟨h6, hr⟩)
    refine ⟨rfl, by simpa using a3, ?_, ?_⟩
    · simpa [h6] using a1
    · rw [a2]
      have : ¬ (64 ≤ b.toNat) := by omega
      have h' : ¬ ((b.toNat : Int) < 0) := by omega
      simp [this, h']
  | @neg N b hN h6 h7 hr =>
    intro fuel s rest hf hs hv
    obtain ⟨f, rfl⟩ : ∃ f, fuel = f + 1 := ⟨fuel - 1, by omega⟩
    rw [loop_last hwf f b rest s h7]
    obtain ⟨a1, a2, a3⟩ := last_signed hd s b N hN hs hv h7 (Or.inr ⟨h6, hr⟩)
    have hnot : ¬ b.toNat < 64 := by omega
    refine ⟨rfl, by simpa using a3, ?_, ?_⟩
    · simpa [hnot] using a1
    · rw [a2]
      have h' : ((b.toNat : Int) - 128 < 0) := by omega
      have : (s.shift + 8 = d.width) ↔ (s.shift + 7 * 1 + 1 = d.width) := by omega
      simp [h6, h', this]
  | @more N m bs b h7 hN ht ih =>
    intro fuel s rest hf hs hv
    obtain ⟨f, rfl⟩ : ∃ f, fuel = f + 1 := ⟨fuel - 1, by omega⟩
    have hb : b.toNat < 256 := b.toNat_lt
    have hp : b.toNat % 128 = b.toNat - 128 := by omega
    have hP : 0 < 2 ^ s.shift := Nat.two_pow_pos _
    have hfit : (b.toNat % 128) * 2 ^ s.shift < 2 ^ d.width := by
      calc (b.toNat % 128) * 2 ^ s.shift < 2 ^ 7 * 2 ^ s.shift :=
            Nat.mul_lt_mul_of_pos_right (Nat.mod_lt _ (by decide)) hP
        _ = 2 ^ (s.shift + 7) := pow_split.symm
        _ ≤ 2 ^ d.width := Nat.pow_le_pow_right (by decide) (by omega)
    have hsv := step_value hwf s b hv hfit
    obtain ⟨h1, h2, _, h4⟩ := step_fields hwf s b
    have hub : (step d s b).ub = s.ub := by
      rw [h4]; have : ¬ d.width ≤ s.shift := by omega
      simp [this]
    have hv' : (step d s b).value < 2 ^ (step d s b).shift := by
      rw [hsv, h1, pow_split]
      have : b.toNat % 128 * 2 ^ s.shift ≤ 127 * 2 ^ s.shift := Nat.mul_le_mul_right _ (by omega)
      omega
    obtain ⟨r1, r2, r3, r4⟩ := ih f (step d s b) rest (by omega) (by rw [h1]; omega) hv'
    rw [loop_more hwf f b bs rest s h7]
    refine ⟨r1, ?_, ?_, ?_⟩
    · rw [r2, h2]; simp; omega
    · rw [r3, hsv, h1, hp]
      congr 1
      rw [pow_split, Int.natCast_add, Int.natCast_mul, Int.natCast_mul, Int.natCast_sub (by omega)]
      have : ((128 : Nat) : Int) = 128 := rfl
      simp only [Nat.reducePow, this]
      rw [Int.add_mul, Int.mul_assoc, Int.mul_left_comm m]
      omega
    · rw [r4, hub, h1]
      have : (m < 0 ∧ s.shift + 7 + 7 * bs.length + 1 = d.width) ↔
          (128 * m + ((b.toNat : Int) - 128) < 0 ∧ s.shift + 7 * (bs.length + 1) + 1 = d.width) := by
        constructor <;> rintro ⟨x, y⟩ <;> constructor <;> omega
      simp [this]

/-- `readS` on any spec encoding of `v` followed by anything. -/
theorem toSigned_emod {w : Nat} (hw : 0 < w) {v : Int} (hl : -((2 ^ (w - 1) : Nat) : Int) ≤ v) (hu : v < ((2 ^ (w - 1) : Nat) : Int))
    {bits : Nat} (hb : (bits : Int) = v % ((2 ^ w : Nat) : Int)) : toSigned w bits = v := by
  have e : 2 ^ w = 2 * 2 ^ (w - 1) := by rw [← Nat.pow_succ']; congr 1; omega
  have eI : ((2 ^ w : Nat) : Int) = 2 * ((2 ^ (w - 1) : Nat) : Int) := by rw [e]; simp
  unfold toSigned
  rcases Int.lt_or_le v 0 with hneg | hpos
  · rw [emod_neg _ _ (by omega) hneg] at hb
    have : ¬ bits < 2 ^ (w - 1) := by
      intro hc; have := Int.ofNat_lt.2 hc; omega
    simp only [this, if_false]; omega
  · rw [Int.emod_eq_of_lt hpos (by omega)] at hb
    have : bits < 2 ^ (w - 1) := by
      have : (bits : Int) < ((2 ^ (w - 1) : Nat) : Int) := by omega
      exact Int.ofNat_lt.1 this
    simp only [this, if_true]; omega

theorem readS_sleb {d : LebDecoder} (hd : WFS d) {v : Int} {bs : Bytes} (h : SLeb d.width v bs) (rest : Bytes) :
    readS d (bs ++ rest) =
      { value := v, count := bs.length, rest := rest,
        ub := decide (d.signExtForm ≠ "unsignedMask" ∧ v < 0 ∧ 7 * bs.length + 1 = d.width) } := by
  obtain ⟨r1, r2, r3, r4⟩ :=
    loop_sleb hd h d.maxBytes St.init rest hd.fuel (by simp [St.init]) (by simp [St.init])
  obtain ⟨hl, hu⟩ := h.range
  have hv : toSigned d.width (signExtend d (loop d d.maxBytes (bs ++ rest) St.init).1).value = v := by
    apply toSigned_emod hd.wpos hl hu
    rw [r3]; simp [St.init]
  simp only [readS, run, r1, r2, r4, hv]
  simp [St.init]

/-! ### totality: any byte string -/

theorem step_value_lt {d : LebDecoder} (s : St) (b : UInt8) (hv : s.value < 2 ^ d.width) :
    (step d s b).value < 2 ^ d.width := by
  simp only [step]
  exact Nat.or_lt_two_pow hv (Nat.mod_lt _ (Nat.two_pow_pos _))

/-- The loop on an arbitrary buffer: reads at most `fuel` bytes and at most the bytes present, returns
    exactly the unread suffix, keeps `value` a `width`-bit pattern, advances `shift` by 7 per byte, and never
    shifts by `≥ width` as long as `shift + 7·fuel < width + 7`. -/
theorem loop_total {d : LebDecoder} (hd : WF d) :
    ∀ (fuel : Nat) (bs : Bytes) (s : St),
      s.count ≤ (loop d fuel bs s).1.count ∧
      (loop d fuel bs s).1.count ≤ s.count + fuel ∧
      (loop d fuel bs s).1.count ≤ s.count + bs.length ∧
      (loop d fuel bs s).2 = bs.drop ((loop d fuel bs s).1.count - s.count) ∧
      (loop d fuel bs s).1.shift = s.shift + 7 * ((loop d fuel bs s).1.count - s.count) ∧
      (s.value < 2 ^ d.width → (loop d fuel bs s).1.value < 2 ^ d.width) ∧
      (s.shift + 7 * fuel < d.width + 7 → (loop d fuel bs s).1.ub = s.ub) ∧
      (0 < fuel → bs ≠ [] → s.count < (loop d fuel bs s).1.count) := by
  intro fuel
  induction fuel with
  | zero => intro bs s; simp [loop]
  | succ f ih =>
    intro bs s
    cases bs with
    | nil => simp [loop]
    | cons b bs =>
      obtain ⟨h1, h2, _, h4⟩ := step_fields hd s b
      by_cases hc : b.toNat &&& d.contMask = 0
      · have hl : loop d (f + 1) (b :: bs) s = (step d s b, bs) := by simp [loop, hc]
        rw [hl]
        refine ⟨by simp [h2], by simp [h2], by simp [h2], by simp [h2], by simp [h2, h1], ?_, ?_, by simp [h2]⟩
        · exact step_value_lt s b
        · intro hlt; show (step d s b).ub = _; rw [h4]
          have : ¬ d.width ≤ s.shift := by omega
          simp [this]
      · have hl : loop d (f + 1) (b :: bs) s = loop d f bs (step d s b) := by simp [loop, hc]
        rw [hl]
        obtain ⟨i1, i2, i3, i4, i5, i6, i7, _⟩ := ih bs (step d s b)
        rw [h2] at i1 i2 i3 i4 i5
        rw [h1] at i5 i7
        refine ⟨by omega, by omega, by simp; omega, ?_, ?_, ?_, ?_, by omega⟩
        · rw [i4]
          have : (loop d f bs (step d s b)).1.count - s.count = ((loop d f bs (step d s b)).1.count - (s.count + 1)) + 1 := by omega
          rw [this]; simp
        · rw [i5]; omega
        · intro hv; exact i6 (step_value_lt s b hv)
        · intro hlt; rw [i7 (by omega), h4]
          have : ¬ d.width ≤ s.shift := by omega
          simp [this]

theorem signExtend_fields (d : LebDecoder) (s : St) :
    (signExtend d s).count = s.count ∧ (signExtend d s).shift = s.shift ∧
    (s.value < 2 ^ d.width → (signExtend d s).value < 2 ^ d.width) := by
  unfold signExtend; split
  · split
    · refine ⟨rfl, rfl, fun hv => Nat.or_lt_two_pow hv (Nat.mod_lt _ (Nat.two_pow_pos _))⟩
    · refine ⟨rfl, rfl, fun hv => Nat.or_lt_two_pow hv (Nat.mod_lt _ (Nat.two_pow_pos _))⟩
  · exact ⟨rfl, rfl, id⟩

/-- When the sign extension can be the first undefined operation of a call. -/
theorem signExtend_ub (d : LebDecoder) (s : St) (hg : d.guardBits ≤ d.width) (h : (signExtend d s).ub = true) :
    s.ub = true ∨ (d.signExtForm ≠ "unsignedMask" ∧ d.signed = true ∧ s.shift < d.guardBits ∧ d.width ≤ s.shift + 1) := by
  unfold signExtend at h
  split at h
  · rename_i hc
    split at h
    · simp only [Bool.or_eq_true, decide_eq_true_eq] at h
      rcases h with h | h
      · exact Or.inl h
      · omega
    · rename_i hf
      simp only [Bool.or_eq_true, decide_eq_true_eq] at h
      rcases h with h | h
      · exact Or.inl h
      · exact Or.inr ⟨hf, hc.1, hc.2.1, h⟩
  · exact Or.inl h

/-- Totality of a decoder call (`run`) on ANY buffer. -/
theorem run_total {d : LebDecoder} (hd : WF d) (bs : Bytes) :
    (run d bs).1.count ≤ d.maxBytes ∧ (run d bs).1.count ≤ bs.length ∧
    (run d bs).2 = bs.drop (run d bs).1.count ∧ (run d bs).1.value < 2 ^ d.width ∧
    (0 < d.maxBytes → ((run d bs).1.count = 0 ↔ bs = [])) := by
  obtain ⟨_, t2, t3, t4, _, t6, _, t8⟩ := loop_total hd d.maxBytes bs St.init
  obtain ⟨s1, _, s3⟩ := signExtend_fields d (loop d d.maxBytes bs St.init).1
  have hc0 : St.init.count = 0 := rfl
  have hv0 : St.init.value = 0 := rfl
  rw [hc0] at t2 t3 t4 t8
  rw [hv0] at t6
  simp only [Nat.zero_add, Nat.sub_zero] at t2 t3 t4
  simp only [run, s1]
  refine ⟨t2, t3, t4, s3 (t6 (Nat.two_pow_pos _)), ?_⟩
  intro hm
  constructor
  · intro h0; apply Classical.byContradiction; intro hne
    have := t8 hm hne; omega
  · intro he; subst he
    cases hmb : d.maxBytes <;> simp [loop, St.init]

/-- No out-of-range shift inside the loop when `7·(maxBytes−1) < width`. -/
theorem run_loop_ub {d : LebDecoder} (hd : WF d) (hm : 7 * d.maxBytes < d.width + 7) (bs : Bytes) :
    (loop d d.maxBytes bs St.init).1.ub = false := by
  obtain ⟨_, _, _, _, _, _, t7, _⟩ := loop_total hd d.maxBytes bs St.init
  simpa [St.init] using t7 (by simp [St.init]; omega)

/-- A decoder call performs no undefined operation when its loop cannot shift by `≥ width` and its sign
    extension is written with the unsigned mask (or it is unsigned). -/
theorem run_ub_false {d : LebDecoder} (hd : WF d) (hm : 7 * d.maxBytes < d.width + 7) (hg : d.guardBits ≤ d.width)
    (hform : d.signExtForm = "unsignedMask" ∨ d.signed = false) (bs : Bytes) : (run d bs).1.ub = false := by
  have hl := run_loop_ub hd hm bs
  cases hub : (run d bs).1.ub with
  | false => rfl
  | true =>
    exfalso
    rcases signExtend_ub d _ hg hub with h | ⟨hf, hsg, _, _⟩
    · rw [hl] at h; exact absurd h (by decide)
    · rcases hform with h | h
      · exact hf h
      · rw [h] at hsg; exact absurd hsg (by decide)

end W2c2Verif.Lemmas.Leb
