/-
  Lemmas.FilesTotal — a run is total (no modelled undefined behaviour) when the output path fits
  the PATH_MAX buffers with room for the header suffix.
-/
import W2c2Verif.Lemmas.FilesRun

namespace W2c2Verif.Lemmas.Files
open W2c2Verif W2c2Verif.Model.Files W2c2Verif.Gen.Files

theorem length_takeWhile_le' (p : UInt8 → Bool) : ∀ l : List UInt8, (l.takeWhile p).length ≤ l.length
  | [] => by simp
  | x :: xs => by
    simp only [List.takeWhile]
    split
    · simp; exact length_takeWhile_le' p xs
    · simp

theorem length_dropWhile_le' (p : UInt8 → Bool) : ∀ l : List UInt8, (l.dropWhile p).length ≤ l.length
  | [] => by simp
  | x :: xs => by
    simp only [List.dropWhile]
    split
    · have := length_dropWhile_le' p xs; simp; omega
    · simp

theorem basename_length_le (s : Name) : (basenameC s).length ≤ s.length + 1 := by
  unfold basenameC
  split
  · simp
  · simp only
    split
    · simp
    · have h1 := length_takeWhile_le' notSlash (dropWhileEnd isSlash s).reverse
      have h2 := length_dropWhile_le' isSlash s.reverse
      simp only [takeWhileEnd, dropWhileEnd, List.length_reverse] at *
      omega

theorem headerSuffix_length : (ofNats headerSuffix).length = 2 := by decide

theorem writeModule_total (o : Opts) (w : World) (sIdx dIdx : List (BitVec 32)) (st : St)
    (h : o.outputPath.length + 4 ≤ w.pathMax) : ∃ st', writeModule o w sIdx dIdx st = .val st' := by
  unfold writeModule
  have hb := basename_length_le o.outputPath
  have hh := headerName_length_le (basenameC o.outputPath)
  rw [headerSuffix_length] at hh
  rw [if_neg (by omega)]
  simp only
  rw [if_neg (by omega)]
  split
  · exact ⟨_, rfl⟩
  split
  · exact ⟨_, rfl⟩
  split
  · exact ⟨_, rfl⟩
  · exact ⟨_, rfl⟩

theorem step_total (o : Opts) (w : World) (plan) (s : MainStep) (st : St)
    (h : o.outputPath.length + 4 ≤ w.pathMax) : ∃ st', step o w plan s st = .val st' := by
  unfold step
  split
  · exact ⟨_, rfl⟩
  cases s with
  | readModule => exact ⟨_, rfl⟩
  | readReference =>
    simp only
    split <;> exact ⟨_, rfl⟩
  | defaultFpf => exact ⟨_, rfl⟩
  | chdirOut =>
    simp only
    rw [if_neg (by omega)]
    split <;> exact ⟨_, rfl⟩
  | clean =>
    simp only
    split
    · obtain ⟨st', h1, _⟩ := cleanLoop_spec w.charSigned
        ((w.listing st.inOut).filter (globMatch globPattern)) (st.emit (.glob st.inOut globPatternString))
      exact ⟨st', by rw [cleanDir_eq]; exact h1⟩
    · exact ⟨_, rfl⟩
  | writeModule => exact writeModule_total o w _ _ st h

theorem runSteps_total (o : Opts) (w : World) (plan) (h : o.outputPath.length + 4 ≤ w.pathMax) :
    ∀ (steps : List MainStep) (st : St), ∃ st', runSteps o w plan steps st = .val st'
  | [], st => ⟨st, rfl⟩
  | s :: rest, st => by
    obtain ⟨st1, h1⟩ := step_total o w plan s st h
    obtain ⟨st2, h2⟩ := runSteps_total o w plan h rest st1
    exact ⟨st2, by simp only [runSteps, h1, h2]⟩

theorem run_total (o : Opts) (w : World) (plan) (fs : FS) (h : o.outputPath.length + 4 ≤ w.pathMax) :
    ∃ st, run o w plan fs = .val st := by
  unfold run
  simp only
  split
  · exact ⟨_, rfl⟩
  · obtain ⟨st, hs⟩ := runSteps_total o w plan h mainSteps { fs := fs, fpf := o.fpf }
    rw [hs]
    exact ⟨_, rfl⟩

end W2c2Verif.Lemmas.Files
