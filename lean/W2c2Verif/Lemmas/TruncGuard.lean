/-
  Lemmas.TruncGuard — IEEE comparisons of a finite / infinite float against integer constants, in terms of its
  truncation toward zero (the facts the TRUNC* range guards of w2c2_base.h rely on).
-/
import W2c2Verif.Lemmas.Trunc
namespace W2c2Verif.SF

theorem decode_fin_mant {f : Fmt} {a : Nat} {s : Bool} {m : Nat} {e : Int} (h : decode f a = .fin s m e) : m < 2 ^ (f.mbits + 1) := by
  unfold decode at h
  simp only [] at h
  split at h
  · split at h <;> cases h
  · split at h
    · injection h with _ hm _; subst hm
      have : fracOf f a < 2 ^ f.mbits := Nat.mod_lt _ (Nat.pow_pos (by decide))
      rw [Nat.pow_succ]; omega
    · injection h with _ hm _; subst hm
      have : fracOf f a < 2 ^ f.mbits := Nat.mod_lt _ (Nat.pow_pos (by decide))
      rw [Nat.pow_succ]; omega

theorem isNaN_iff_decode (f : Fmt) (a : Nat) : isNaN f a = true ↔ decode f a = .nan := by
  unfold isNaN decode
  simp only []
  by_cases h1 : (expOf f a == f.expMax) = true
  · by_cases h2 : (fracOf f a == 0) = true
    · simp [h1, h2]; simpa using h2
    · simp [h1, h2]; simpa using h2
  · by_cases h3 : (expOf f a == 0) = true
    · simp [h1, h3]
    · simp [h1, h3]

variable {f : Fmt} {a c : Nat} {s : Bool} {m : Nat} {e : Int} {n : Nat} {g : Int}

theorem lt_posconst (ha : decode f a = .fin s m e) (hc : decode f c = .fin false n g) (hg : 0 ≤ g) (hn : 0 < n) :
    lt f a c = true ↔ tval s (truncMag m e) < ((n <<< g.toNat : Nat) : Int) := by
  simp only [lt, cmp, ha, hc, beq_iff_eq, Option.some.injEq]
  exact cmpFin_lt_pos s m e n g hg hn

theorem gt_negconst (ha : decode f a = .fin s m e) (hc : decode f c = .fin true n g) (hg : 0 ≤ g) (hn : 0 < n) :
    gt f a c = true ↔ -((n <<< g.toNat : Nat) : Int) < tval s (truncMag m e) := by
  simp only [gt, cmp, ha, hc, beq_iff_eq, Option.some.injEq]
  exact cmpFin_gt_neg s m e n g hg hn

theorem ge_negconst (ha : decode f a = .fin s m e) (hc : decode f c = .fin true n g) (hg : 0 ≤ g) (hn : 0 < n)
    (hm : 2 ^ (f.mbits + 1) ≤ n <<< g.toNat) :
    ge f a c = true ↔ -((n <<< g.toNat : Nat) : Int) ≤ tval s (truncMag m e) := by
  have hmant := decode_fin_mant ha
  rw [← cmpFin_ge_neg s m e n g hg hn (fun _ => by omega)]
  simp only [ge, cmp, ha, hc, Bool.or_eq_true, beq_iff_eq, Option.some.injEq]
  cases cmpFin s m e true n g <;> simp

theorem lt_inf (ha : decode f a = .inf s) (hc : decode f c = .fin false n g) : lt f a c = s := by
  simp only [lt, cmp, ha, hc]; cases s <;> rfl
theorem gt_inf (ha : decode f a = .inf s) (hc : decode f c = .fin true n g) : gt f a c = !s := by
  simp only [gt, cmp, ha, hc]; cases s <;> rfl
theorem ge_inf (ha : decode f a = .inf s) (hc : decode f c = .fin true n g) : ge f a c = !s := by
  simp only [ge, cmp, ha, hc]; cases s <;> rfl


/-- the comparison only depends on the VALUE of the constant: `(n·2^k)·2^(g-k) = n·2^g` -/
theorem cmpFin_const_shift (s : Bool) (m : Nat) (e : Int) (t : Bool) (n : Nat) (g : Int) (k : Nat) :
    cmpFin s m e t (n <<< k) (g - k) = cmpFin s m e t n g := by
  simp only [cmpFin]
  -- d = how much further down the common exponent moved
  have hd : min e g - min e (g - k) ≥ 0 := by omega
  generalize hdd : (min e g - min e (g - k)).toNat = d
  have e1 : (e - min e (g - k)).toNat = (e - min e g).toNat + d := by omega
  have e2 : (g - k - min e (g - k)).toNat + k = (g - min e g).toNat + d := by omega
  have hA : m <<< (e - min e (g - k)).toNat = (m <<< (e - min e g).toNat) * 2 ^ d := by
    rw [e1, Nat.shiftLeft_eq, Nat.shiftLeft_eq, Nat.pow_add, Nat.mul_assoc]
  have hB : (n <<< k) <<< (g - k - min e (g - k)).toNat = (n <<< (g - min e g).toNat) * 2 ^ d := by
    rw [Nat.shiftLeft_eq, Nat.shiftLeft_eq, Nat.shiftLeft_eq, Nat.mul_assoc, ← Nat.pow_add, Nat.add_comm k, e2, Nat.pow_add, Nat.mul_assoc]
  rw [hA, hB]
  generalize m <<< (e - min e g).toNat = A
  generalize n <<< (g - min e g).toNat = B
  simp only [Int.natCast_mul, Int.natCast_pow, Int.cast_ofNat_Int]
  have hp : (0 : Int) < (2 : Int) ^ d := Int.pow_pos (by decide)
  generalize (2 : Int) ^ d = P at hp
  have key : ∀ (x y : Int), compare (x * P) (y * P) = compare x y := by
    intro x y
    rcases Int.lt_trichotomy x y with h | h | h
    · rw [Int.compare_eq_lt.mpr h, Int.compare_eq_lt.mpr (Int.mul_lt_mul_of_pos_right h hp)]
    · subst h; simp
    · rw [Int.compare_eq_gt.mpr h, Int.compare_eq_gt.mpr (Int.mul_lt_mul_of_pos_right h hp)]
  have := key ((if s = true then -1 else 1) * (A : Int)) ((if t = true then -1 else 1) * (B : Int))
  rw [← this]
  congr 1 <;> simp [Int.mul_assoc]

/-! constants given as `(n·2^k) · 2^(g-k)` (how the format stores an integer `n·2^g` with a short mantissa) -/

theorem lt_posconst' {k : Nat} (ha : decode f a = .fin s m e) (hc : decode f c = .fin false (n <<< k) (g - k)) (hg : 0 ≤ g) (hn : 0 < n) :
    lt f a c = true ↔ tval s (truncMag m e) < ((n <<< g.toNat : Nat) : Int) := by
  simp only [lt, cmp, ha, hc, beq_iff_eq, Option.some.injEq, cmpFin_const_shift]
  exact cmpFin_lt_pos s m e n g hg hn

theorem gt_negconst' {k : Nat} (ha : decode f a = .fin s m e) (hc : decode f c = .fin true (n <<< k) (g - k)) (hg : 0 ≤ g) (hn : 0 < n) :
    gt f a c = true ↔ -((n <<< g.toNat : Nat) : Int) < tval s (truncMag m e) := by
  simp only [gt, cmp, ha, hc, beq_iff_eq, Option.some.injEq, cmpFin_const_shift]
  exact cmpFin_gt_neg s m e n g hg hn

theorem ge_negconst' {k : Nat} (ha : decode f a = .fin s m e) (hc : decode f c = .fin true (n <<< k) (g - k)) (hg : 0 ≤ g) (hn : 0 < n)
    (hm : 2 ^ (f.mbits + 1) ≤ n <<< g.toNat) :
    ge f a c = true ↔ -((n <<< g.toNat : Nat) : Int) ≤ tval s (truncMag m e) := by
  have hmant := decode_fin_mant ha
  rw [← cmpFin_ge_neg s m e n g hg hn (fun _ => by omega)]
  simp only [ge, cmp, ha, hc, Bool.or_eq_true, beq_iff_eq, Option.some.injEq, cmpFin_const_shift]
  cases cmpFin s m e true n g <;> simp

end W2c2Verif.SF
