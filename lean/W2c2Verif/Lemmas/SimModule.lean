/-
  Lemmas.SimModule — module-level simulation: by induction on the call-depth bound, the emitted-C side
  of every function refines its specification side.
-/
import W2c2Verif.Model.SimModule
import W2c2Verif.Lemmas.SimFunc
set_option linter.unusedSimpArgs false
set_option linter.unusedVariables false
namespace W2c2Verif.Sim
open W2c2Verif Model Gen Spec

/-- `b` refines `a`: whenever `a` is a value or a trap, `b` is the same -/
def Refines (a b : Out (Option Val × GS)) : Prop := (∀ r, a = .val r → b = .val r) ∧ (∀ t, a = .trap t → b = .trap t)

theorem Refines.rfl' (a : Out (Option Val × GS)) : Refines a a := ⟨fun _ h => h, fun _ h => h⟩

theorem compileFuncs_get (m : MModule) : ∀ (fds : List MFunc) (cfs : List Model.CFunc), m.compileFuncs fds = .ok cfs →
    ∀ (k : Nat) (fd : MFunc), fds[k]? = some fd → ∃ cf, cfs[k]? = some cf ∧ m.compileOne fd = .ok cf
  | [], cfs, h, k, fd, hk => by simp at hk
  | fd0 :: rest, cfs, h, k, fd, hk => by
    simp only [MModule.compileFuncs, bind, Except.bind] at h
    cases h1 : m.compileOne fd0 with
    | error e => simp [h1] at h
    | ok cf0 =>
      cases h2 : m.compileFuncs rest with
      | error e => simp [h1, h2] at h
      | ok cfs' =>
        simp only [h1, h2] at h
        injection h with h; subst h
        cases k with
        | zero => simp at hk; subst hk; exact ⟨cf0, by simp, h1⟩
        | succ k =>
          simp at hk
          obtain ⟨cf, e1, e2⟩ := compileFuncs_get m rest cfs' h2 k fd hk
          exact ⟨cf, by simpa using e1, e2⟩

theorem compileFunc_shape {ctx : Ctx} {params locals : List VT} {result : Option VT} {body : List EInstr} {cf : Model.CFunc}
    (h : compileFunc ctx params locals result body = .ok cf) : cf.paramTypes = params ∧ cf.result = result := by
  unfold compileFunc at h
  simp only [bind, Except.bind] at h
  split at h
  · cases h
  · split at h
    · cases h
    · cases result with
      | none => simp only [] at h; injection h with h; subst h; exact ⟨rfl, rfl⟩
      | some rt =>
        simp only [] at h
        split at h <;> (injection h with h; subst h; exact ⟨rfl, rfl⟩)

theorem runFuncTgt_typed {ns : NumSem} {fuel : Nat} {cf : Model.CFunc} {args : List Val} {g g' : GS} {v : Val} {rt : VT}
    (h : runFuncTgt ns fuel cf args g = .value (some v) g') (hr : cf.result = some rt) : vtOf v = rt := by
  unfold runFuncTgt at h
  generalize execSeq ns fuel cf.body (initMSt cf.localTypes args g) = r at h
  cases r with
  | normal σ =>
    simp only [tgtFinish, hr] at h
    split at h
    · injection h with h _; injection h with h; subst h; exact vtOf_get _ _
    · cases h
  | jump L σ =>
    cases L with
    | zero =>
      simp only [tgtFinish, hr] at h
      split at h
      · injection h with h _; injection h with h; subst h; exact vtOf_get _ _
      · cases h
    | succ L => simp [tgtFinish] at h
  | trap t => simp [tgtFinish] at h
  | oof => simp [tgtFinish] at h
  | stuck => simp [tgtFinish] at h

theorem numOK_env {ns0 : NumSem} (h : NumOK ns0) (m : MModule) (cS cT : Nat → List Val → GS → Out (Option Val × GS)) : NumOK (m.env ns0 cS cT) :=
  ⟨h.arity, h.typed⟩

theorem memOK_env {ns0 : NumSem} (h : MemOK ns0) (m : MModule) (cS cT : Nat → List Val → GS → Out (Option Val × GS)) : MemOK (m.env ns0 cS cT) :=
  ⟨h.loadRef, h.loadTrap, h.storeRef, h.storeTrap, h.growTyped, h.bulkRef, h.bulkTrap, h.atomRef, h.atomTrap⟩

theorem toOut_val {r : FRes} {x : Option Val × GS} (h : r.toOut = .val x) : r = .value x.1 x.2 := by
  cases r <;> simp [FRes.toOut] at h; subst h; rfl
theorem toOut_trap {r : FRes} {t : Trap} (h : r.toOut = .trap t) : r = .trap t := by
  cases r <;> simp [FRes.toOut] at h; subst h; rfl

theorem indirect_refines (m : MModule) (cS cT : Nat → List Val → GS → Out (Option Val × GS)) (href : ∀ fn args g, Refines (cS fn args g) (cT fn args g))
    (ty i : Nat) (args : List Val) (g : GS) : Refines (m.indirect cS ty i args g) (m.indirect cT ty i args g) := by
  unfold MModule.indirect
  cases m.table[i]? with
  | none => exact Refines.rfl' _
  | some e =>
    cases e with
    | none => exact Refines.rfl' _
    | some fn =>
      simp only []
      split
      · exact href fn args g
      · exact Refines.rfl' _

/-- `b` refines `a` on well-typed global states -/
def RefinesOn (m : MModule) (cS cT : Nat → List Val → GS → Out (Option Val × GS)) : Prop :=
  ∀ fn args g, GTyped m.ctx g → Refines (cS fn args g) (cT fn args g)

theorem indirect_refines_on (m : MModule) (cS cT : Nat → List Val → GS → Out (Option Val × GS)) (href : RefinesOn m cS cT)
    (ty i : Nat) (args : List Val) (g : GS) (hg : GTyped m.ctx g) : Refines (m.indirect cS ty i args g) (m.indirect cT ty i args g) := by
  unfold MModule.indirect
  cases m.table[i]? with
  | none => exact Refines.rfl' _
  | some e =>
    cases e with
    | none => exact Refines.rfl' _
    | some fn =>
      simp only []
      split
      · exact href fn args g hg
      · exact Refines.rfl' _

/-- the inductive statement: at every call-depth bound the callee environment satisfies `CallOK` -/
theorem module_callOK (m : MModule) (ns0 : NumSem) (hns : NumOK ns0) (hmo : MemOK ns0) (cfs : List Model.CFunc)
    (hc : m.compileFuncs m.funcs = .ok cfs) (hh : HostOK m) :
    ∀ n (lt : List VT), CallOK (m.env ns0 (m.run ns0 cfs n).1 (m.run ns0 cfs n).2) { m.ctx with localTypes := lt } := by
  intro n
  -- the part of CallOK that follows from facts about direct calls
  have build : ∀ (cS cT : Nat → List Val → GS → Out (Option Val × GS)),
      (∀ fn k t args g v g', GTyped m.ctx g → m.callArity fn = some (k, some t) → cS fn args g = .val (some v, g') → vtOf v = t) →
      (∀ fn args g r, GTyped m.ctx g → cS fn args g = .val r → GTyped m.ctx r.2) →
      RefinesOn m cS cT →
      ∀ lt, CallOK (m.env ns0 cS cT) { m.ctx with localTypes := lt } := by
    intro cS cT htyped hpres href lt
    refine ⟨?_, ?_, ?_, ?_, ?_, ?_, ?_, ?_, ?_, ?_⟩
    · intro fn ti ft h1 h2 h3
      show m.callArity fn = _
      have h1' : m.ctx.funcTypeIdx[fn]? = some ti := h1
      have h2' : m.types[ti]? = some ft := h2
      simp [MModule.callArity, MModule.funcType, h1', h2', arityOfType, h3]
    · intro fn k t args g v g' hg h1 h2; exact htyped fn k t args g v g' hg h1 h2
    · intro fn args g r hg h; exact hpres fn args g r hg h
    · intro fn args g r hg h; exact (href fn args g hg).1 r h
    · intro fn args g t hg h; exact (href fn args g hg).2 t h
    · intro ty ft h1 h2
      show m.indArity ty = _
      have h1' : m.types[ty]? = some ft := h1
      simp [MModule.indArity, h1', arityOfType, h2]
    · intro ty k t i args g v g' hg h1 h2
      have h1' : m.indArity ty = some (k, some t) := h1
      have h2' : m.indirect cS ty i args g = .val (some v, g') := h2
      unfold MModule.indirect at h2'
      split at h2'
      · rename_i fn hfn
        split at h2'
        · rename_i hty
          have : m.callArity fn = some (k, some t) := by
            simp only [MModule.callArity, hty]; exact h1'
          exact htyped fn k t args g v g' hg this h2'
        · cases h2'
      · cases h2'
    · intro ty i args g r hg h
      have h' : m.indirect cS ty i args g = .val r := h
      unfold MModule.indirect at h'
      split at h'
      · rename_i fn hfn
        split at h'
        · exact hpres fn args g r hg h'
        · cases h'
      · cases h'
    · intro ty i args g r hg h; exact (indirect_refines_on m cS cT href ty i args g hg).1 r h
    · intro ty i args g t hg h; exact (indirect_refines_on m cS cT href ty i args g hg).2 t h
  induction n with
  | zero =>
    intro lt
    refine build _ _ ?_ ?_ ?_ lt
    · intro fn k t args g v g' _ _ h; simp [MModule.run] at h
    · intro fn args g r _ h; simp [MModule.run] at h
    · intro fn args g _; exact Refines.rfl' _
  | succ n ih =>
    intro lt
    -- one function, one level up
    have key : ∀ fn args g, GTyped m.ctx g → ∀ fd, m.funcs[fn - m.imports.length]? = some fd → ∀ ft, m.types[fd.type]? = some ft →
        args.map vtOf = ft.params.map vtOfW →
        ∃ cf, cfs[fn - m.imports.length]? = some cf ∧ cf.paramTypes = ft.params.map vtOfW ∧ cf.result = ft.results.head?.map vtOfW ∧
          (match runFuncSrc (m.env ns0 (m.run ns0 cfs n).1 (m.run ns0 cfs n).2) (n + 1) fd.locals (ft.results.head?.map vtOfW) fd.body args g with
           | .value v g' => runFuncTgt (m.env ns0 (m.run ns0 cfs n).1 (m.run ns0 cfs n).2) (n + 1) cf args g = .value v g' ∧ GTyped m.ctx g'
           | .trap t => runFuncTgt (m.env ns0 (m.run ns0 cfs n).1 (m.run ns0 cfs n).2) (n + 1) cf args g = .trap t
           | _ => True) := by
      intro fn args g hg fd hfd ft hft hargs
      obtain ⟨cf, e1, e2⟩ := compileFuncs_get m m.funcs cfs hc _ fd hfd
      simp only [MModule.compileOne, hft] at e2
      split at e2
      · obtain ⟨s1, s2⟩ := compileFunc_shape e2
        refine ⟨cf, e1, s1, s2, ?_⟩
        exact func_sim _ (numOK_env hns m _ _) (memOK_env hmo m _ _) m.ctx (ft.params.map vtOfW) fd.locals (ft.results.head?.map vtOfW) fd.body cf args g (n + 1)
          (ih _) e2 hargs hg
      · cases e2
    -- a defined function's finished source run, unfolded
    have unfoldS : ∀ fn args g (o : Out (Option Val × GS)), (m.run ns0 cfs (n + 1)).1 fn args g = o → ¬ fn < m.imports.length → (∀ k, o ≠ .ub k) → o ≠ .oof →
        ∃ fd ft, m.funcs[fn - m.imports.length]? = some fd ∧ m.types[fd.type]? = some ft ∧ args.map vtOf = ft.params.map vtOfW ∧
          (runFuncSrc (m.env ns0 (m.run ns0 cfs n).1 (m.run ns0 cfs n).2) (n + 1) fd.locals (ft.results.head?.map vtOfW) fd.body args g).toOut = o := by
      intro fn args g o h himp hub hoof
      simp only [MModule.run, himp, if_false] at h
      split at h
      · exact absurd h.symm (hub _)
      · rename_i fd hfd
        split at h
        · exact absurd h.symm (hub _)
        · rename_i ft hft
          split at h
          · rename_i hargs; exact ⟨fd, ft, hfd, hft, hargs, h⟩
          · exact absurd h.symm (hub _)
    have tgtEq : ∀ fn args g cf, ¬ fn < m.imports.length → cfs[fn - m.imports.length]? = some cf → args.map vtOf = cf.paramTypes →
        (m.run ns0 cfs (n + 1)).2 fn args g = (runFuncTgt (m.env ns0 (m.run ns0 cfs n).1 (m.run ns0 cfs n).2) (n + 1) cf args g).toOut := by
      intro fn args g cf himp hcf hargs
      simp only [MModule.run, himp, if_false, hcf, hargs, if_true]
    refine build _ _ ?_ ?_ ?_ lt
    · -- results are typed
      intro fn k t args g v g' hg har h
      by_cases himp : fn < m.imports.length
      · simp only [MModule.run, himp, if_true] at h
        exact hh.1 fn k t args g v g' himp har h
      · obtain ⟨fd, ft, hfd, hft, hargs, hsrc⟩ := unfoldS fn args g _ h himp (by intro k hk; cases hk) (by intro hk; cases hk)
        obtain ⟨cf, e1, e2, e3, e4⟩ := key fn args g hg fd hfd ft hft hargs
        rw [toOut_val hsrc] at e4
        have hfty : m.funcType fn = some ft := by
          have hidx : m.ctx.funcTypeIdx[fn]? = some fd.type := by
            show (m.imports ++ m.funcs.map (·.type))[fn]? = _
            rw [List.getElem?_append_right (by omega), List.getElem?_map, hfd]; rfl
          simp [MModule.funcType, hidx, hft]
        simp only [MModule.callArity, hfty, Option.bind_some, arityOfType] at har
        split at har
        · injection har with har
          simp only [Prod.mk.injEq] at har
          exact runFuncTgt_typed e4.1 (e3.trans har.2)
        · cases har
    · -- globals stay typed
      intro fn args g r hg h
      by_cases himp : fn < m.imports.length
      · simp only [MModule.run, himp, if_true] at h
        exact hh.2 fn args g r himp hg h
      · obtain ⟨fd, ft, hfd, hft, hargs, hsrc⟩ := unfoldS fn args g _ h himp (by intro k hk; cases hk) (by intro hk; cases hk)
        obtain ⟨cf, e1, e2, e3, e4⟩ := key fn args g hg fd hfd ft hft hargs
        rw [toOut_val hsrc] at e4
        exact e4.2
    · -- the emitted-C side refines the specification side
      intro fn args g hg
      by_cases himp : fn < m.imports.length
      · simp only [MModule.run, himp, if_true]; exact Refines.rfl' _
      · constructor
        · intro r h
          obtain ⟨fd, ft, hfd, hft, hargs, hsrc⟩ := unfoldS fn args g _ h himp (by intro k hk; cases hk) (by intro hk; cases hk)
          obtain ⟨cf, e1, e2, e3, e4⟩ := key fn args g hg fd hfd ft hft hargs
          rw [toOut_val hsrc] at e4
          rw [tgtEq fn args g cf himp e1 (by rw [e2]; exact hargs), e4.1]; rfl
        · intro t h
          obtain ⟨fd, ft, hfd, hft, hargs, hsrc⟩ := unfoldS fn args g _ h himp (by intro k hk; cases hk) (by intro hk; cases hk)
          obtain ⟨cf, e1, e2, e3, e4⟩ := key fn args g hg fd hfd ft hft hargs
          rw [toOut_trap hsrc] at e4
          rw [tgtEq fn args g cf himp e1 (by rw [e2]; exact hargs), e4]; rfl

/-- C04, module level: for every call-depth bound, every function index (imported or defined), all arguments and
    every well-typed state of the instance's globals and memory, if the specification's invocation returns a result
    (leaving globals/memory `g'`) or traps, the emitted C does the same (same result, same `g'`) -/
theorem module_sim (m : MModule) (ns0 : NumSem) (hns : NumOK ns0) (hmo : MemOK ns0) (cfs : List Model.CFunc)
    (hc : m.compileFuncs m.funcs = .ok cfs) (hh : HostOK m) (n fn : Nat) (args : List Val) (g : GS) (hg : GTyped m.ctx g) :
    Refines ((m.run ns0 cfs n).1 fn args g) ((m.run ns0 cfs n).2 fn args g) := by
  have h := module_callOK m ns0 hns hmo cfs hc hh n []
  exact ⟨fun r hr => h.refVal fn args g r hg hr, fun t ht => h.refTrap fn args g t hg ht⟩

end W2c2Verif.Sim
