/-
  Lemmas.SimModule — module-level simulation: by induction on the call-depth bound, the emitted-C side
  of every function refines its specification side.
-/
import W2c2Verif.Model.SimModule
import W2c2Verif.Lemmas.SimFunc
set_option linter.unusedSimpArgs false
set_option linter.unusedVariables false
namespace W2c2Verif.Sim
open W2c2Verif Model Gen Spec

/-- `b` refines `a`: whenever `a` is a value or a trap, `b` is the same -/
def Refines (a b : Out (Option Val)) : Prop := (∀ r, a = .val r → b = .val r) ∧ (∀ t, a = .trap t → b = .trap t)

theorem Refines.rfl' (a : Out (Option Val)) : Refines a a := ⟨fun _ h => h, fun _ h => h⟩

theorem compileFuncs_get (m : MModule) : ∀ (fds : List MFunc) (cfs : List Model.CFunc), m.compileFuncs fds = .ok cfs →
    ∀ (k : Nat) (fd : MFunc), fds[k]? = some fd → ∃ cf, cfs[k]? = some cf ∧ m.compileOne fd = .ok cf
  | [], cfs, h, k, fd, hk => by simp at hk
  | fd0 :: rest, cfs, h, k, fd, hk => by
    simp only [MModule.compileFuncs, bind, Except.bind] at h
    cases h1 : m.compileOne fd0 with
    | error e => simp [h1] at h
    | ok cf0 =>
      cases h2 : m.compileFuncs rest with
      | error e => simp [h1, h2] at h
      | ok cfs' =>
        simp only [h1, h2] at h
        injection h with h; subst h
        cases k with
        | zero => simp at hk; subst hk; exact ⟨cf0, by simp, h1⟩
        | succ k =>
          simp at hk
          obtain ⟨cf, e1, e2⟩ := compileFuncs_get m rest cfs' h2 k fd hk
          exact ⟨cf, by simpa using e1, e2⟩

theorem compileFunc_shape {ctx : Ctx} {params locals : List VT} {result : Option VT} {body : List EInstr} {cf : Model.CFunc}
    (h : compileFunc ctx params locals result body = .ok cf) : cf.paramTypes = params ∧ cf.result = result := by
  unfold compileFunc at h
  simp only [bind, Except.bind] at h
  split at h
  · cases h
  · split at h
    · cases h
    · cases result with
      | none => simp only [] at h; injection h with h; subst h; exact ⟨rfl, rfl⟩
      | some rt =>
        simp only [] at h
        split at h <;> (injection h with h; subst h; exact ⟨rfl, rfl⟩)

theorem runFuncTgt_typed {ns : NumSem} {fuel : Nat} {cf : Model.CFunc} {args : List Val} {v : Val} {rt : VT}
    (h : runFuncTgt ns fuel cf args = .value (some v)) (hr : cf.result = some rt) : vtOf v = rt := by
  unfold runFuncTgt at h
  generalize execSeq ns fuel cf.body (initMSt cf.localTypes args) = r at h
  cases r with
  | normal σ =>
    simp only [tgtFinish, hr] at h
    split at h
    · injection h with h; injection h with h; subst h; exact vtOf_get _ _
    · cases h
  | jump L σ =>
    cases L with
    | zero =>
      simp only [tgtFinish, hr] at h
      split at h
      · injection h with h; injection h with h; subst h; exact vtOf_get _ _
      · cases h
    | succ L => simp [tgtFinish] at h
  | trap t => simp [tgtFinish] at h
  | oof => simp [tgtFinish] at h
  | stuck => simp [tgtFinish] at h

theorem numOK_env {ns0 : NumSem} (h : NumOK ns0) (m : MModule) (cS cT : Nat → List Val → Out (Option Val)) : NumOK (m.env ns0 cS cT) :=
  ⟨h.arity, h.typed⟩

theorem toOut_val {r : FRes} {x : Option Val} (h : r.toOut = .val x) : r = .value x := by
  cases r <;> simp [FRes.toOut] at h; subst h; rfl
theorem toOut_trap {r : FRes} {t : Trap} (h : r.toOut = .trap t) : r = .trap t := by
  cases r <;> simp [FRes.toOut] at h; subst h; rfl

theorem indirect_refines (m : MModule) (cS cT : Nat → List Val → Out (Option Val)) (href : ∀ fn args, Refines (cS fn args) (cT fn args))
    (ty i : Nat) (args : List Val) : Refines (m.indirect cS ty i args) (m.indirect cT ty i args) := by
  unfold MModule.indirect
  cases m.table[i]? with
  | none => exact Refines.rfl' _
  | some e =>
    cases e with
    | none => exact Refines.rfl' _
    | some fn =>
      simp only []
      split
      · exact href fn args
      · exact Refines.rfl' _

/-- the inductive statement: at every call-depth bound the callee environment satisfies `CallOK` -/
theorem module_callOK (m : MModule) (ns0 : NumSem) (hns : NumOK ns0) (cfs : List Model.CFunc)
    (hc : m.compileFuncs m.funcs = .ok cfs) (hh : HostOK m) :
    ∀ n (lt : List VT), CallOK (m.env ns0 (m.run ns0 cfs n).1 (m.run ns0 cfs n).2) { m.ctx with localTypes := lt } := by
  intro n
  -- the part of CallOK that follows from facts about direct calls
  have build : ∀ (cS cT : Nat → List Val → Out (Option Val)),
      (∀ fn k t args v, m.callArity fn = some (k, some t) → cS fn args = .val (some v) → vtOf v = t) →
      (∀ fn args, Refines (cS fn args) (cT fn args)) →
      ∀ lt, CallOK (m.env ns0 cS cT) { m.ctx with localTypes := lt } := by
    intro cS cT htyped href lt
    refine ⟨?_, ?_, ?_, ?_, ?_, ?_, ?_, ?_⟩
    · intro fn ti ft h1 h2 h3
      show m.callArity fn = _
      have h1' : m.ctx.funcTypeIdx[fn]? = some ti := h1
      have h2' : m.types[ti]? = some ft := h2
      simp [MModule.callArity, MModule.funcType, h1', h2', arityOfType, h3]
    · intro fn k t args v h1 h2; exact htyped fn k t args v h1 h2
    · intro fn args r h; exact (href fn args).1 r h
    · intro fn args t h; exact (href fn args).2 t h
    · intro ty ft h1 h2
      show m.indArity ty = _
      have h1' : m.types[ty]? = some ft := h1
      simp [MModule.indArity, h1', arityOfType, h2]
    · intro ty k t i args v h1 h2
      have h1' : m.indArity ty = some (k, some t) := h1
      have h2' : m.indirect cS ty i args = .val (some v) := h2
      unfold MModule.indirect at h2'
      split at h2'
      · rename_i fn hfn
        split at h2'
        · rename_i hty
          have : m.callArity fn = some (k, some t) := by
            simp only [MModule.callArity, hty]; exact h1'
          exact htyped fn k t args v this h2'
        · cases h2'
      · cases h2'
    · intro ty i args r h; exact (indirect_refines m cS cT href ty i args).1 r h
    · intro ty i args t h; exact (indirect_refines m cS cT href ty i args).2 t h
  induction n with
  | zero =>
    intro lt
    refine build _ _ ?_ ?_ lt
    · intro fn k t args v _ h; simp [MModule.run] at h
    · intro fn args; exact Refines.rfl' _
  | succ n ih =>
    intro lt
    -- one function, one level up
    have key : ∀ fn args, fn ≥ m.imports.length → ∀ fd, m.funcs[fn - m.imports.length]? = some fd → ∀ ft, m.types[fd.type]? = some ft →
        args.map vtOf = ft.params.map vtOfW →
        ∃ cf, cfs[fn - m.imports.length]? = some cf ∧ cf.paramTypes = ft.params.map vtOfW ∧ cf.result = ft.results.head?.map vtOfW ∧
          (match runFuncSrc (m.env ns0 (m.run ns0 cfs n).1 (m.run ns0 cfs n).2) (n + 1) fd.locals (ft.results.head?.map vtOfW) fd.body args with
           | .value v => runFuncTgt (m.env ns0 (m.run ns0 cfs n).1 (m.run ns0 cfs n).2) (n + 1) cf args = .value v
           | .trap t => runFuncTgt (m.env ns0 (m.run ns0 cfs n).1 (m.run ns0 cfs n).2) (n + 1) cf args = .trap t
           | _ => True) := by
      intro fn args hfn fd hfd ft hft hargs
      obtain ⟨cf, e1, e2⟩ := compileFuncs_get m m.funcs cfs hc _ fd hfd
      simp only [MModule.compileOne, hft] at e2
      split at e2
      · obtain ⟨s1, s2⟩ := compileFunc_shape e2
        refine ⟨cf, e1, s1, s2, ?_⟩
        exact func_sim _ (numOK_env hns m _ _) m.ctx (ft.params.map vtOfW) fd.locals (ft.results.head?.map vtOfW) fd.body cf args (n + 1)
          (ih _) e2 hargs
      · cases e2
    refine build _ _ ?_ ?_ lt
    · -- results are typed
      intro fn k t args v har h
      simp only [MModule.run] at h
      split at h
      · rename_i himp; exact hh fn k t args v himp har h
      · rename_i himp
        split at h
        · cases h
        · rename_i fd hfd
          split at h
          · cases h
          · rename_i ft hft
            split at h
            · rename_i hargs
              obtain ⟨cf, e1, e2, e3, e4⟩ := key fn args (by omega) fd hfd ft hft hargs
              have hsrc := toOut_val h
              rw [hsrc] at e4
              -- the callee's declared result type
              have hfty : m.funcType fn = some ft := by
                have hidx : m.ctx.funcTypeIdx[fn]? = some fd.type := by
                  show (m.imports ++ m.funcs.map (·.type))[fn]? = _
                  rw [List.getElem?_append_right (by omega), List.getElem?_map, hfd]; rfl
                simp [MModule.funcType, hidx, hft]
              simp only [MModule.callArity, hfty, Option.bind_some, arityOfType] at har
              split at har
              · injection har with har
                simp only [Prod.mk.injEq] at har
                exact runFuncTgt_typed e4 (e3.trans har.2)
              · cases har
            · cases h
    · -- the emitted-C side refines the specification side
      intro fn args
      simp only [MModule.run]
      split
      · exact Refines.rfl' _
      · rename_i himp
        constructor
        · intro r h
          split at h
          · cases h
          · rename_i fd hfd
            split at h
            · cases h
            · rename_i ft hft
              split at h
              · rename_i hargs
                obtain ⟨cf, e1, e2, e3, e4⟩ := key fn args (by omega) fd hfd ft hft hargs
                rw [toOut_val h] at e4
                simp only [e1, e2, hargs, if_true, e4, FRes.toOut]
              · cases h
        · intro t h
          split at h
          · cases h
          · rename_i fd hfd
            split at h
            · cases h
            · rename_i ft hft
              split at h
              · rename_i hargs
                obtain ⟨cf, e1, e2, e3, e4⟩ := key fn args (by omega) fd hfd ft hft hargs
                rw [toOut_trap h] at e4
                simp only [e1, e2, hargs, if_true, e4, FRes.toOut]
              · cases h

/-- C04, module level: for every call-depth bound, every function index (imported or defined) and all
    arguments, if the specification's invocation returns a result or traps, the emitted C does the same -/
theorem module_sim (m : MModule) (ns0 : NumSem) (hns : NumOK ns0) (cfs : List Model.CFunc)
    (hc : m.compileFuncs m.funcs = .ok cfs) (hh : HostOK m) (n fn : Nat) (args : List Val) :
    Refines ((m.run ns0 cfs n).1 fn args) ((m.run ns0 cfs n).2 fn args) := by
  have h := module_callOK m ns0 hns cfs hc hh n []
  exact ⟨fun r hr => h.refVal fn args r hr, fun t ht => h.refTrap fn args t ht⟩

end W2c2Verif.Sim
