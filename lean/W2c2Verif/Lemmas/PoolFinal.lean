/-
  Lemmas.PoolFinal — consequences of the pool invariants: enabledness without spurious wake-ups, and what
  the logs look like (always / at the end).
-/
import W2c2Verif.Lemmas.PoolLive
namespace W2c2Verif.Model.Pool
open W2c2Verif.Model

/-- program counters whose statement reads or writes the shared hand-off data
    (`writer->task`, the fields of `*task`, `writer->done`) -/
def PC.accessesTask : PC → Bool
  | .w2 | .w4 | .w6a | .w6b | .w7 | .p2 | .p4a | .p4b | .p5 | .p9 | .p11 => true
  | _ => false

theorem accessesTask_holds : ∀ pc : PC, pc.accessesTask = true → pc.holds = true := by
  intro pc; cases pc <;> simp [PC.accessesTask, PC.holds]

/-- a thread that owns the mutex can always take its next step (no spurious wake-up involved) -/
theorem holder_enabled (cfg : Cfg) (t : Nat) (g : Sh) (l : Loc) (h : l.pc.holds = true) :
    step false cfg t g l ≠ [] := by
  have hs := signalChoices_ne_nil
  unfold step
  cases hpc : l.pc <;> simp [hpc, PC.holds] at h ⊢ <;> exact hs _

/-- a worker that is neither returned nor parked-and-unsignalled can move once the mutex is free -/
theorem worker_enabled (cfg : Cfg) (t : Nat) (g : Sh) (l : Loc) (hm : g.mutex = none) (hw : l.pc.isWorker = true)
    (hh : l.pc.holds = false) (hr : l.pc ≠ .wret) (hp : ¬ (l.pc = .w3p ∧ t ∈ g.consume)) :
    step false cfg t g l ≠ [] := by
  unfold step
  cases hpc : l.pc <;> simp [hpc, PC.holds, PC.isWorker, hm, wake] at hw hh hr hp ⊢
  exact hp

theorem tk_nodup {tk : List Nat} (h : (List.range tk.length).reverse = tk) : tk.Nodup := by
  rw [← h]; exact ((List.reverse_perm _).nodup_iff).mpr List.nodup_range

theorem mem_tk_lt {tk : List Nat} (h : (List.range tk.length).reverse = tk) {i : Nat} (hi : i ∈ tk) :
    i < tk.length := by
  rw [← h] at hi
  simpa using hi

/-- the number of emptied slots never exceeds the number of tasks -/
theorem tk_length_le {cfg : Cfg} {g : Sh} {ls : Tid → Loc} (I : Inv cfg g ls) : g.tk.length ≤ cfg.K := by
  have hpub := I.pub
  obtain ⟨h1, h2, _⟩ := I.fiK
  cases hp : (ls 0).pc.published with
  | false => simp only [hp, b2n] at hpub; cases hts : g.taskSet <;> simp [hts] at hpub <;> omega
  | true =>
    have : (ls 0).pc.inLoop = true := by
      revert hp; cases (ls 0).pc <;> simp [PC.published, PC.inLoop]
    have := h2 this
    simp only [hp, b2n] at hpub; cases hts : g.taskSet <;> simp [hts] at hpub <;> omega

/-- when the producer has returned, no worker holds a task any more -/
theorem pend_final {cfg : Cfg} {g : Sh} {ls : Tid → Loc} (I : Inv cfg g ls) (hf : (ls 0).pc = .pend) :
    ∀ n : Nat, n ≤ cfg.N → pend ls n = []
  | 0, _ => rfl
  | n + 1, h => by
    have hret := I.join.2 hf (n + 1) (by omega) h
    have hpc := I.ret1 (n + 1) hret
    simp only [pend, contrib, hpc, pend_final I hf n (by omega)]
    simp

end W2c2Verif.Model.Pool
