/-
  Lemmas.WasiSafe — which undefined behaviour a call of `Model.Wasi` can reach.
  `OnlyOOB x`: the only `.ub` outcome of `x` is a guest pointer outside guest memory
  (no double free, no use after free, no NULL dereference).
-/
import W2c2Verif.Lemmas.Wasi

namespace W2c2Verif.Model.Wasi
open W2c2Verif W2c2Verif.Spec.Posix

variable {σ : Type}

def OnlyOOB {α : Type} (x : Out α) : Prop := ∀ k, x = .ub k → k = .outOfBounds

theorem OnlyOOB.val {α : Type} (a : α) : OnlyOOB (Out.val a) := by intro k h; cases h
theorem OnlyOOB.trap {α : Type} (t : Trap) : OnlyOOB (Out.trap t : Out α) := by intro k h; cases h
theorem OnlyOOB.oof {α : Type} : OnlyOOB (Out.oof : Out α) := by intro k h; cases h
theorem OnlyOOB.oob {α : Type} : OnlyOOB (Out.ub .outOfBounds : Out α) := by intro k h; cases h; rfl

theorem OnlyOOB.bind {α β : Type} {x : Out α} {f : α → Out β}
    (hx : OnlyOOB x) (hf : ∀ a, x = .val a → OnlyOOB (f a)) : OnlyOOB (x >>= f) := by
  intro k h
  cases x with
  | val a => exact hf a rfl k h
  | trap t => cases h
  | ub k' => simp at h; subst h; exact hx k' rfl
  | oof => cases h

theorem OnlyOOB.map' {α β : Type} {x : Out α} (f : α → β) (hx : OnlyOOB x) : OnlyOOB (x.map' f) := by
  unfold Out.map'
  exact OnlyOOB.bind hx (fun a _ => OnlyOOB.val _)

/-! ## guest memory -/

theorem OnlyOOB_read (m : Mem) (a n : Nat) : OnlyOOB (m.read a n) := by
  unfold Mem.read; split
  · exact OnlyOOB.val _
  · exact OnlyOOB.oob

theorem OnlyOOB_write (m : Mem) (a : Nat) (bs : Bytes) : OnlyOOB (m.write a bs) := by
  unfold Mem.write; split
  · exact OnlyOOB.val _
  · split
    · exact OnlyOOB.val _
    · exact OnlyOOB.oob

theorem OnlyOOB_store (w : MW) (a : Nat) (bs : Bytes) : OnlyOOB (w.store a bs) := by
  unfold MW.store; exact OnlyOOB.map' _ (OnlyOOB_write _ _ _)

theorem OnlyOOB_loadU32 (m : Mem) (a : Nat) : OnlyOOB (m.loadU32 a) := by
  unfold Mem.loadU32; exact OnlyOOB.map' _ (OnlyOOB_read _ _ _)

theorem OnlyOOB_readIovecs (m : Mem) (ptr stride bo lo : Nat) (k : Nat) :
    OnlyOOB (readIovecs m ptr stride bo lo k) := by
  induction k with
  | zero => exact OnlyOOB.val _
  | succ k ih =>
    unfold readIovecs
    refine OnlyOOB.bind ih fun _ _ => ?_
    refine OnlyOOB.bind (OnlyOOB_loadU32 _ _) fun _ _ => ?_
    refine OnlyOOB.bind (OnlyOOB_loadU32 _ _) fun _ _ => ?_
    exact OnlyOOB.val _

theorem OnlyOOB_gather (m : Mem) (segs : List (Nat × Nat)) : OnlyOOB (gather m segs) := by
  induction segs with
  | nil => exact OnlyOOB.val _
  | cons s r ih =>
    obtain ⟨b, l⟩ := s
    unfold gather
    refine OnlyOOB.bind (OnlyOOB_read _ _ _) fun _ _ => ?_
    refine OnlyOOB.bind ih fun _ _ => ?_
    exact OnlyOOB.val _

theorem OnlyOOB_scatter (segs : List (Nat × Nat)) : ∀ (w : MW) (bs : Bytes), OnlyOOB (scatter w segs bs) := by
  induction segs with
  | nil => intro w bs; exact OnlyOOB.val _
  | cons s r ih =>
    intro w bs
    obtain ⟨b, l⟩ := s
    unfold scatter
    split
    · exact OnlyOOB.val _
    · exact OnlyOOB.bind (OnlyOOB_store _ _ _) fun w' _ => ih w' _

theorem OnlyOOB_storeRows (p : Nat) (st : Stat) (rows : List (String × Nat × Nat × Nat)) :
    ∀ w : MW, OnlyOOB (storeRows w p st rows) := by
  induction rows with
  | nil => intro w; exact OnlyOOB.val _
  | cons r rest ih =>
    intro w
    obtain ⟨name, off, bytes, bits⟩ := r
    unfold storeRows
    exact OnlyOOB.bind (OnlyOOB_store _ _ _) fun w' _ => ih w'

theorem OnlyOOB_storeFilestat (abi : Abi) (w : MW) (p : Nat) (st : Stat) : OnlyOOB (storeFilestat abi w p st) := by
  unfold storeFilestat
  exact OnlyOOB.bind (OnlyOOB_store _ _ _) fun w' _ => OnlyOOB_storeRows _ _ _ w'

theorem OnlyOOB_ret (w : MW) (h : σ) (e : Nat) : OnlyOOB (ret w h e) := OnlyOOB.val _
theorem OnlyOOB_retUnmodelled (w : MW) (h : σ) : OnlyOOB (retUnmodelled w h) := OnlyOOB.val _

/-! ## the I/O cores (no heap access at all) -/

theorem OnlyOOB_finishWrite (w : MW) (res : Nat) (x : σ × R Nat) : OnlyOOB (finishWrite w res x) := by
  unfold finishWrite
  split
  · exact OnlyOOB_retUnmodelled _ _
  · exact OnlyOOB_ret _ _ _
  · exact OnlyOOB.bind (OnlyOOB_store _ _ _) fun _ _ => OnlyOOB_ret _ _ _

theorem OnlyOOB_doWrite (H : Host σ) (w : MW) (h : σ) (iovs cnt res : Nat) (wr : σ → List Bytes → σ × R Nat) :
    OnlyOOB (doWrite H w h iovs cnt res wr) := by
  unfold doWrite
  refine OnlyOOB.bind (OnlyOOB_readIovecs _ _ _ _ _ _) fun _ _ => ?_
  refine OnlyOOB.bind (OnlyOOB_gather _ _) fun _ _ => ?_
  exact OnlyOOB_finishWrite _ _ _

theorem OnlyOOB_finishRead (w : MW) (segs : List (Nat × Nat)) (res : Nat) (x : σ × R Bytes) :
    OnlyOOB (finishRead w segs res x) := by
  unfold finishRead
  split
  · exact OnlyOOB_retUnmodelled _ _
  · exact OnlyOOB_ret _ _ _
  · refine OnlyOOB.bind (OnlyOOB_scatter _ _ _) fun _ _ => ?_
    exact OnlyOOB.bind (OnlyOOB_store _ _ _) fun _ _ => OnlyOOB_ret _ _ _

theorem OnlyOOB_doRead (w : MW) (h : σ) (iovs cnt res : Nat) (rd : σ → List Nat → σ × R Bytes) :
    OnlyOOB (doRead w h iovs cnt res rd) := by
  unfold doRead
  refine OnlyOOB.bind (OnlyOOB_readIovecs _ _ _ _ _ _) fun _ _ => ?_
  exact OnlyOOB_finishRead _ _ _ _

theorem OnlyOOB_finishSeek (w : MW) (res : Nat) (x : σ × R Nat) : OnlyOOB (finishSeek w res x) := by
  unfold finishSeek
  split
  · exact OnlyOOB_retUnmodelled _ _
  · exact OnlyOOB_ret _ _ _
  · exact OnlyOOB.bind (OnlyOOB_store _ _ _) fun _ _ => OnlyOOB_ret _ _ _

theorem OnlyOOB_doSeek (cfg : Cfg) (H : Host σ) (s : St σ) (w : MW) (n : Nat) (off : Int) (wh : Whence) (res : Nat) :
    OnlyOOB (doSeek cfg H s w n off wh res) := by
  unfold doSeek
  split
  · exact OnlyOOB_ret _ _ _
  · split
    · exact OnlyOOB_ret _ _ _
    · exact OnlyOOB_finishSeek _ _ _

/-! ## heap reads: safe when the string is live -/

theorem OnlyOOB_readHeap {heap : List Cell} {h : Nat} (hl : ∃ p, heap[h]? = some (Cell.live p)) :
    OnlyOOB (readHeap heap h) := by
  obtain ⟨p, hp⟩ := hl
  unfold readHeap; rw [hp]; exact OnlyOOB.val _

theorem OnlyOOB_resolvePath (cfg : Cfg) {heap : List Cell} {h : Nat} (gp : Bytes) (hl : ∃ p, heap[h]? = some (Cell.live p)) :
    OnlyOOB (resolvePath cfg heap h gp) := by
  unfold resolvePath
  split
  · exact OnlyOOB.val _
  · split
    · exact OnlyOOB.val _
    · split
      · exact OnlyOOB.val _
      · refine OnlyOOB.bind (OnlyOOB_readHeap hl) fun dir _ => ?_
        split
        · split
          · exact OnlyOOB.oob
          · exact OnlyOOB.val _
        · exact OnlyOOB.val _

/-- the facts about descriptors delivered by `wasiFileDescriptorGet` that make a call safe -/
structure SafeTable (cfg : Cfg) (s : St σ) : Prop where
  live : ∀ (n : Nat) (d : Desc) (hp : Nat), getDesc cfg s n = some d → d.path = some hp →
    ∃ p, s.heap[hp]? = some (Cell.live p)
  hasPath : ∀ (n : Nat) (d : Desc), getDesc cfg s n = some d → d.fd < 0 → d.path ≠ none

theorem SafeTable_of_InvS (cfg : Cfg) (hg : cfg.getRejectsClosed = true) (s : St σ) (hi : InvS s) :
    SafeTable cfg s := by
  constructor
  · intro n d hp hd hpath
    exact hi.live n d hp (getDesc_some hd).1 hpath
  · intro n d hd hneg hnone
    obtain ⟨hd1, hd2⟩ := getDesc_some hd
    have hdir : d.dir ≠ none := by
      intro hdn
      exact hd2 hg ⟨hneg, hdn, hnone⟩
    exact hi.dirPath n d hd1 hdir hnone

theorem OnlyOOB_pathPrologue (cfg : Cfg) (s : St σ) (hs : SafeTable cfg s) (w : MW) (n ptr len : Nat) :
    OnlyOOB (pathPrologue cfg s w n ptr len) := by
  unfold pathPrologue
  split
  · exact OnlyOOB.val _
  · rename_i d hd
    split
    · exact OnlyOOB.val _
    · rename_i hp hpath
      refine OnlyOOB.bind (OnlyOOB_read _ _ _) fun gp _ => ?_
      refine OnlyOOB.bind (OnlyOOB_resolvePath cfg gp (hs.live n d hp hd hpath)) fun r _ => ?_
      split
      · exact OnlyOOB.val _
      · exact OnlyOOB.val _

theorem OnlyOOB_simplePathCall (cfg : Cfg) (H : Host σ) (s : St σ) (hs : SafeTable cfg s) (w : MW)
    (name : String) (n ptr len : Nat) : OnlyOOB (simplePathCall cfg H s w name n ptr len) := by
  unfold simplePathCall
  refine OnlyOOB.bind (OnlyOOB_pathPrologue cfg s hs w n ptr len) fun r _ => ?_
  split
  · exact OnlyOOB_ret _ _ _
  · split
    · exact OnlyOOB_retUnmodelled _ _
    · exact OnlyOOB_ret _ _ _
    · exact OnlyOOB_ret _ _ _

theorem OnlyOOB_fdOrPathStat (cfg : Cfg) (H : Host σ) (s : St σ) (hs : SafeTable cfg s) (n : Nat) (d : Desc)
    (hd : getDesc cfg s n = some d) (guard : Option Nat) : OnlyOOB (fdOrPathStat H s d guard) := by
  unfold fdOrPathStat
  split
  · exact OnlyOOB.val _
  · rename_i hneg
    split
    · exact OnlyOOB.val _
    · have hne := hs.hasPath n d hd (by omega)
      cases hp : d.path with
      | none => exact absurd hp hne
      | some hpp =>
        refine OnlyOOB.bind ?_ fun _ _ => OnlyOOB.val _
        unfold derefPath
        exact OnlyOOB_readHeap (hs.live n d hpp hd hp)

/-! ## every read-only call -/

theorem OnlyOOB_stepRO (cfg : Cfg) (H : Host σ) (abi : Abi) (s : St σ) (hs : SafeTable cfg s) (c : ROCall) :
    OnlyOOB (stepRO cfg H abi s c) := by
  cases c with
  | fdWrite n iovs cnt res =>
    simp only [stepRO]
    split
    · exact OnlyOOB_ret _ _ _
    · split
      · exact OnlyOOB_ret _ _ _
      · exact OnlyOOB_doWrite _ _ _ _ _ _ _
  | fdPwrite n iovs cnt off res =>
    simp only [stepRO]
    split
    · exact OnlyOOB_ret _ _ _
    · split
      · exact OnlyOOB_ret _ _ _
      · exact OnlyOOB_doWrite _ _ _ _ _ _ _
  | fdRead n iovs cnt res =>
    simp only [stepRO]
    split
    · exact OnlyOOB_ret _ _ _
    · split
      · exact OnlyOOB_ret _ _ _
      · exact OnlyOOB_doRead _ _ _ _ _ _
  | fdPread n iovs cnt off res =>
    simp only [stepRO]
    split
    · exact OnlyOOB_ret _ _ _
    · split
      · exact OnlyOOB_ret _ _ _
      · exact OnlyOOB_doRead _ _ _ _ _ _
  | fdSeek n off whence res =>
    simp only [stepRO]
    split
    · split
      · exact OnlyOOB_ret _ _ _
      · exact OnlyOOB_doSeek _ _ _ _ _ _ _ _
    · split
      · exact OnlyOOB_ret _ _ _
      · split
        · exact OnlyOOB_ret _ _ _
        · split
          · exact OnlyOOB_ret _ _ _
          · exact OnlyOOB_doSeek _ _ _ _ _ _ _ _
  | fdTell n res => simp only [stepRO]; exact OnlyOOB_doSeek _ _ _ _ _ _ _ _
  | fdFdstatGet n res =>
    simp only [stepRO]
    split
    · exact OnlyOOB_ret _ _ _
    · rename_i d hd
      refine OnlyOOB.bind (OnlyOOB_fdOrPathStat cfg H s hs n d hd _) fun r _ => ?_
      split
      · exact OnlyOOB_ret _ _ _
      · exact OnlyOOB_retUnmodelled _ _
      · exact OnlyOOB_ret _ _ _
      · split
        · exact OnlyOOB_retUnmodelled _ _
        · exact OnlyOOB_ret _ _ _
        · refine OnlyOOB.bind (OnlyOOB_store _ _ _) fun _ _ => ?_
          refine OnlyOOB.bind (OnlyOOB_store _ _ _) fun _ _ => ?_
          refine OnlyOOB.bind (OnlyOOB_store _ _ _) fun _ _ => ?_
          refine OnlyOOB.bind (OnlyOOB_store _ _ _) fun _ _ => ?_
          refine OnlyOOB.bind (OnlyOOB_store _ _ _) fun _ _ => ?_
          exact OnlyOOB_ret _ _ _
  | fdDatasync n =>
    simp only [stepRO]
    split
    · exact OnlyOOB_ret _ _ _
    · split
      · exact OnlyOOB_ret _ _ _
      · split
        · exact OnlyOOB_retUnmodelled _ _
        · exact OnlyOOB_ret _ _ _
        · exact OnlyOOB_ret _ _ _
  | fdSync n =>
    simp only [stepRO]
    split
    · exact OnlyOOB_ret _ _ _
    · split
      · exact OnlyOOB_ret _ _ _
      · split
        · exact OnlyOOB_retUnmodelled _ _
        · exact OnlyOOB_ret _ _ _
        · exact OnlyOOB_ret _ _ _
  | fdPrestatGet n ptr =>
    simp only [stepRO]
    split
    · exact OnlyOOB_ret _ _ _
    · rename_i d hd
      split
      · exact OnlyOOB_ret _ _ _
      · rename_i hp hpath
        refine OnlyOOB.bind (OnlyOOB_readHeap (hs.live n d hp hd hpath)) fun _ _ => ?_
        refine OnlyOOB.bind (OnlyOOB_store _ _ _) fun _ _ => ?_
        refine OnlyOOB.bind (OnlyOOB_store _ _ _) fun _ _ => ?_
        exact OnlyOOB_ret _ _ _
  | fdPrestatDirName n ptr len =>
    simp only [stepRO]
    split
    · exact OnlyOOB_ret _ _ _
    · rename_i d hd
      split
      · exact OnlyOOB_ret _ _ _
      · rename_i hp hpath
        refine OnlyOOB.bind (OnlyOOB_readHeap (hs.live n d hp hd hpath)) fun _ _ => ?_
        refine OnlyOOB.bind (OnlyOOB_store _ _ _) fun _ _ => ?_
        exact OnlyOOB_ret _ _ _
  | fdFilestatGet n ptr =>
    simp only [stepRO]
    split
    · exact OnlyOOB_ret _ _ _
    · rename_i d hd
      refine OnlyOOB.bind (OnlyOOB_fdOrPathStat cfg H s hs n d hd _) fun r _ => ?_
      split
      · exact OnlyOOB_ret _ _ _
      · exact OnlyOOB_retUnmodelled _ _
      · exact OnlyOOB_ret _ _ _
      · exact OnlyOOB.bind (OnlyOOB_storeFilestat _ _ _ _) fun _ _ => OnlyOOB_ret _ _ _
  | pathFilestatGet n fl pathPtr pathLen statPtr =>
    simp only [stepRO]
    refine OnlyOOB.bind (OnlyOOB_pathPrologue cfg s hs _ n pathPtr pathLen) fun r _ => ?_
    split
    · exact OnlyOOB_ret _ _ _
    · split
      · exact OnlyOOB_retUnmodelled _ _
      · exact OnlyOOB_ret _ _ _
      · exact OnlyOOB.bind (OnlyOOB_storeFilestat _ _ _ _) fun _ _ => OnlyOOB_ret _ _ _
  | pathRename ofd op ol nfd np nl =>
    simp only [stepRO]
    split
    · exact OnlyOOB_ret _ _ _
    · rename_i od hod
      split
      · exact OnlyOOB_ret _ _ _
      · rename_i nd hnd
        split
        · exact OnlyOOB_ret _ _ _
        · rename_i oh hoh
          refine OnlyOOB.bind (OnlyOOB_read _ _ _) fun ogp _ => ?_
          refine OnlyOOB.bind (OnlyOOB_resolvePath cfg ogp (hs.live ofd od oh hod hoh)) fun r _ => ?_
          split
          · exact OnlyOOB_ret _ _ _
          · split
            · exact OnlyOOB_ret _ _ _
            · rename_i nh hnh
              refine OnlyOOB.bind (OnlyOOB_read _ _ _) fun ngp _ => ?_
              refine OnlyOOB.bind (OnlyOOB_resolvePath cfg ngp (hs.live nfd nd nh hnd hnh)) fun r _ => ?_
              split
              · exact OnlyOOB_ret _ _ _
              · split
                · exact OnlyOOB_retUnmodelled _ _
                · exact OnlyOOB_ret _ _ _
                · exact OnlyOOB_ret _ _ _
  | pathUnlinkFile n p l => simp only [stepRO]; exact OnlyOOB_simplePathCall cfg H s hs _ _ n p l
  | pathRemoveDirectory n p l => simp only [stepRO]; exact OnlyOOB_simplePathCall cfg H s hs _ _ n p l
  | pathCreateDirectory n p l => simp only [stepRO]; exact OnlyOOB_simplePathCall cfg H s hs _ _ n p l
  | pathSymlink op ol n np nl =>
    simp only [stepRO]
    split
    · exact OnlyOOB_ret _ _ _
    · rename_i d hd
      split
      · exact OnlyOOB_ret _ _ _
      · refine OnlyOOB.bind (OnlyOOB_read _ _ _) fun old _ => ?_
        split
        · exact OnlyOOB_ret _ _ _
        · rename_i hp hpath
          refine OnlyOOB.bind (OnlyOOB_read _ _ _) fun ngp _ => ?_
          refine OnlyOOB.bind (OnlyOOB_resolvePath cfg ngp (hs.live n d hp hd hpath)) fun r _ => ?_
          split
          · exact OnlyOOB_ret _ _ _
          · split
            · exact OnlyOOB_retUnmodelled _ _
            · exact OnlyOOB_ret _ _ _
            · exact OnlyOOB_ret _ _ _
  | pathReadlink n p l buf bl lp =>
    simp only [stepRO]
    refine OnlyOOB.bind (OnlyOOB_pathPrologue cfg s hs _ n p l) fun r _ => ?_
    split
    · exact OnlyOOB_ret _ _ _
    · split
      · exact OnlyOOB_ret _ _ _
      · exact OnlyOOB_retUnmodelled _ _
  | nosys name fd => simp only [stepRO]; exact OnlyOOB_ret _ _ _

/-! ## the calls that modify the table -/

theorem OnlyOOB_fdClose (cfg : Cfg) (H : Host σ) (s : St σ) (hs : SafeTable cfg s) (n : Nat) :
    OnlyOOB (fdClose cfg H s n) := by
  unfold fdClose
  split
  · exact OnlyOOB.val _
  · rename_i d hd
    split
    · exact OnlyOOB.val _
    · exact OnlyOOB.val _
    · split
      · exact OnlyOOB.val _
      · rename_i hp hpath
        obtain ⟨p, hl⟩ := hs.live n d hp hd hpath
        have : freeHeap s.heap hp = .val (s.heap.set hp .freed) := by
          unfold freeHeap; rw [hl]
        rw [this]
        exact OnlyOOB.val _

theorem OnlyOOB_readdirOpen (cfg : Cfg) (hg : cfg.readdirNullPath.isSome = true) (H : Host σ) (s : St σ)
    (hs : SafeTable cfg s) (n : Nat) (d : Desc) (hd : getDesc cfg s n = some d) (cookie : Nat) :
    OnlyOOB (readdirOpen cfg H s n d cookie) := by
  unfold readdirOpen
  split
  · exact OnlyOOB.val _
  · split
    · exact OnlyOOB.val _
    · rename_i hng
      cases hp : d.path with
      | none => exact absurd ⟨hg, hp⟩ hng
      | some hpp =>
        obtain ⟨p, hl⟩ := hs.live n d hpp hd hp
        have : derefPath s.heap (some hpp) = .val p := by
          unfold derefPath readHeap; simp [hl]
        rw [this]
        simp only
        split
        · exact OnlyOOB.val _
        · split
          · exact OnlyOOB.val _
          · exact OnlyOOB.val _
          · exact OnlyOOB.val _

theorem OnlyOOB_fdReaddir (cfg : Cfg) (hg : cfg.readdirNullPath.isSome = true) (H : Host σ) (s : St σ)
    (hs : SafeTable cfg s) (n buf len cookie used : Nat) : OnlyOOB (fdReaddir cfg H s n buf len cookie used) := by
  unfold fdReaddir
  split
  · exact OnlyOOB.val _
  · rename_i d hd
    have hro := OnlyOOB_readdirOpen cfg hg H s hs n d hd cookie
    split
    · rename_i k hk; intro k' hk'; cases hk'; exact hro k hk
    · exact OnlyOOB.trap _
    · exact OnlyOOB.oof
    · exact OnlyOOB.val _
    · rename_i s1 _
      simp only
      split
      · rename_i k hk; intro k' hk'; cases hk'; exact OnlyOOB_store _ _ _ k hk
      · exact OnlyOOB.trap _
      · exact OnlyOOB.oof
      · split
        · split
          · rename_i k hk; intro k' hk'; cases hk'; exact OnlyOOB_store _ _ _ k hk
          · exact OnlyOOB.trap _
          · exact OnlyOOB.oof
          · exact OnlyOOB.val _
        · exact OnlyOOB.val _

theorem OnlyOOB_finishOpen (H : Host σ) (s : St σ) (w : MW) (fl : List OFlag) (fdPtr : Nat) (p : Bytes)
    (x : σ × R Nat) : OnlyOOB (finishOpen H s w fl fdPtr p x) := by
  unfold finishOpen
  split
  · exact OnlyOOB.val _
  · exact OnlyOOB.val _
  · split
    · exact OnlyOOB.val _
    · split
      · exact OnlyOOB.val _
      · split
        · rename_i k hk; intro k' hk'; cases hk'; exact OnlyOOB_store _ _ _ k hk
        · exact OnlyOOB.trap _
        · exact OnlyOOB.oof
        · exact OnlyOOB.val _

theorem OnlyOOB_pathOpen (cfg : Cfg) (H : Host σ) (s : St σ) (hs : SafeTable cfg s) (a b c d e f g hh i : Nat) :
    OnlyOOB (pathOpen cfg H s a b c d e f g hh i) := by
  unfold pathOpen
  simp only
  have hpro := OnlyOOB_pathPrologue cfg s hs ⟨s.mem, []⟩ a c d
  split
  · rename_i k hk; intro k' hk'; cases hk'; exact hpro k hk
  · exact OnlyOOB.trap _
  · exact OnlyOOB.oof
  · exact OnlyOOB.val _
  · exact OnlyOOB_finishOpen _ _ _ _ _ _ _

/-- the source has the three repairs of the descriptor code -/
structure Fixed (cfg : Cfg) : Prop where
  clears : cfg.closeClearsPath = true
  rejects : cfg.getRejectsClosed = true
  readdir : cfg.readdirNullPath.isSome = true

/-- one call: under the strong invariant nothing but an out-of-range guest pointer is undefined -/
theorem OnlyOOB_step (cfg : Cfg) (hfix : Fixed cfg) (H : Host σ) (abi : Abi) (s : St σ) (hi : InvS s) (c : Call) :
    OnlyOOB (step cfg H abi s c) := by
  have hs := SafeTable_of_InvS cfg hfix.rejects s hi
  cases c with
  | ro c =>
    simp only [step]
    exact OnlyOOB.map' _ (OnlyOOB_stepRO cfg H abi s hs c)
  | fdClose n => exact OnlyOOB_fdClose cfg H s hs n
  | fdReaddir n buf len cookie used => exact OnlyOOB_fdReaddir cfg hfix.readdir H s hs n buf len cookie used
  | pathOpen a b c d e f g hh i => exact OnlyOOB_pathOpen cfg H s hs a b c d e f g hh i

/-- a whole history -/
theorem OnlyOOB_run (cfg : Cfg) (hfix : Fixed cfg) (H : Host σ) (hist : List (Abi × Call)) :
    ∀ s : St σ, InvS s → OnlyOOB (run cfg H s hist) := by
  induction hist with
  | nil => intro s _; exact OnlyOOB.val _
  | cons ac rest ih =>
    intro s hi
    obtain ⟨abi, c⟩ := ac
    simp only [run]
    refine OnlyOOB.bind (OnlyOOB_step cfg hfix H abi s hi c) fun x hx => ?_
    obtain ⟨s1, r⟩ := x
    have hi1 := step_InvS cfg hfix.clears H abi s s1 c r hx hi
    exact OnlyOOB.bind (ih s1 hi1) fun y _ => OnlyOOB.val _
