/-
  Lemmas.GrowInv — the inductive invariant behind `grow_linearizable` (Props/C18.lean), for ANY
  configuration satisfying `WF`: any number of threads, any arguments, any interleaving.
-/
import W2c2Verif.Lemmas.GrowLin

namespace W2c2Verif.Model.Grow
open W2c2Verif.Model

/-- per-thread invariant -/
structure TInv (cfg : Cfg) (m0 : Mem) (g : Sh) (t : Tid) (l : Loc) : Prop where
  idle : l.st = .idle → l.pc = 0 ∧ l.regs = initRegs (cfg.arg t) ∧ l.ph = .pre ∧ ∀ e ∈ g.trace, e.tid ≠ t
  inv_ev : l.st ≠ .idle → Ev.inv t ∈ g.trace
  res_ev : ∀ v, Ev.res t v ∈ g.trace → l.st = .done v
  rel_ev : Ev.rel t ∈ g.trace → l.ph = .post
  held : l.ph = .held ↔ g.mutex = some t
  reader : cfg.isGrow t = false → l.ph = .pre
  good : cfg.isGrow t = true → (l.st = .idle ∨ l.st = .run) → Good (cfg.prog t) l.ph l.pc l.regs
  seq_pre : cfg.isGrow t = true → l.ph = .pre → (l.st = .idle ∨ l.st = .run) →
    ∀ m r, Final cfg.imm (cfg.prog t) m 0 (initRegs (cfg.arg t)) r ↔ Final cfg.imm (cfg.prog t) m l.pc l.regs r
  seq_held : cfg.isGrow t = true → l.ph = .held →
    ∃ ms : Mem, ms.pages = replay cfg m0.pages (lin cfg g.trace) ∧ SizeInv m0 ms ∧
      ∀ r, Final cfg.imm (cfg.prog t) ms 0 (initRegs (cfg.arg t)) r ↔ Final cfg.imm (cfg.prog t) g.mem l.pc l.regs r
  seq_post : cfg.isGrow t = true → l.ph = .post →
    ∃ newer older, lin cfg g.trace = newer ++ t :: older ∧
      (l.st = .run → ∃ ms m1 : Mem, ms.pages = replay cfg m0.pages older ∧
        ∀ r, Final cfg.imm (cfg.prog t) ms 0 (initRegs (cfg.arg t)) r ↔ Final cfg.imm (cfg.prog t) m1 l.pc l.regs r)
  done_val : ∀ v, l.st = .done v → cfg.isGrow t = true →
    ∀ newer older, lin cfg g.trace = newer ++ t :: older → v = retOf cfg m0.pages older t

/-- global invariant -/
structure GInv (cfg : Cfg) (m0 : Mem) (s : Sh × (Tid → Loc)) : Prop where
  data : s.1.mem.data = m0.data
  free : s.1.mutex = none → s.1.mem.pages = replay cfg m0.pages (lin cfg s.1.trace) ∧ SizeInv m0 s.1.mem
  rt : ∀ a b va, cfg.isGrow a = true → Older s.1.trace (Ev.res a va) (Ev.inv b) → b ∈ lin cfg s.1.trace →
    Older (lin cfg s.1.trace) a b
  thr : ∀ t, TInv cfg m0 s.1 t (s.2 t)

/-! ### the invariant holds initially -/

theorem ginv_init {cfg : Cfg} {m0 : Mem} (wf : WF cfg m0) : GInv cfg m0 (initState cfg m0) := by
  refine ⟨rfl, fun _ => ⟨rfl, Or.inl rfl⟩, ?_, ?_⟩
  · intro a b va _ h; obtain ⟨l1, l2, h, _⟩ := h; simp [initState] at h
  · intro t
    refine ⟨?_, ?_, ?_, ?_, ?_, ?_, ?_, ?_, ?_, ?_, ?_⟩
    · intro _; exact ⟨rfl, rfl, rfl, by simp [initState]⟩
    · intro h; exact absurd rfl h
    · intro v h; simp [initState] at h
    · intro h; simp [initState] at h
    · simp [initState, initLoc]
    · intro _; rfl
    · intro hg _; exact good_of_readsUnderLock (wf.disc t hg) _
    · intro _ _ _ m r; exact Iff.rfl
    · intro _ h; simp [initState, initLoc] at h
    · intro _ h; simp [initState, initLoc] at h
    · intro v h; simp [initState, initLoc] at h

/-! ### frame: what a step of another thread preserves -/

theorem TInv_frame {cfg : Cfg} {m0 : Mem} {g g' : Sh} {u : Tid} {l : Loc} (h : TInv cfg m0 g u l)
    (htr : g'.trace = g.trace ∨ ∃ e, g'.trace = e :: g.trace ∧ e.tid ≠ u)
    (hmx : g'.mutex = some u ↔ g.mutex = some u)
    (hmem : l.ph = .held → g'.mem = g.mem)
    (hlin : lin cfg g'.trace = lin cfg g.trace ∨ ∃ x, x ≠ u ∧ lin cfg g'.trace = x :: lin cfg g.trace)
    (hcur : l.ph = .held → replay cfg m0.pages (lin cfg g'.trace) = replay cfg m0.pages (lin cfg g.trace)) :
    TInv cfg m0 g' u l := by
  have hsub : ∀ e, e.tid = u → e ∈ g'.trace → e ∈ g.trace := by
    intro e he hin
    rcases htr with h1 | ⟨e', h1, hne⟩
    · rw [h1] at hin; exact hin
    · rw [h1] at hin
      rcases List.mem_cons.mp hin with rfl | h2
      · exact absurd he hne
      · exact h2
  have hsup : ∀ e, e ∈ g.trace → e ∈ g'.trace := by
    intro e hin
    rcases htr with h1 | ⟨e', h1, _⟩
    · rw [h1]; exact hin
    · rw [h1]; exact List.mem_cons_of_mem _ hin
  refine ⟨?_, ?_, ?_, ?_, ?_, h.reader, h.good, h.seq_pre, ?_, ?_, ?_⟩
  · intro hi
    obtain ⟨a, b, c, d⟩ := h.idle hi
    refine ⟨a, b, c, ?_⟩
    intro e he heq
    exact d e (hsub e heq he) heq
  · intro hi; exact hsup _ (h.inv_ev hi)
  · intro v hv; exact h.res_ev v (hsub _ rfl hv)
  · intro hv; exact h.rel_ev (hsub _ rfl hv)
  · rw [hmx]; exact h.held
  · intro hg hp
    obtain ⟨ms, h1, h2, h3⟩ := h.seq_held hg hp
    refine ⟨ms, ?_, h2, ?_⟩
    · rw [hcur hp]; exact h1
    · rw [hmem hp]; exact h3
  · intro hg hp
    obtain ⟨newer, older, h1, h2⟩ := h.seq_post hg hp
    rcases hlin with h3 | ⟨x, _, h3⟩
    · exact ⟨newer, older, by rw [h3]; exact h1, h2⟩
    · exact ⟨x :: newer, older, by rw [h3, h1]; rfl, h2⟩
  · intro v hv hg newer older hd
    rcases hlin with h3 | ⟨x, hx, h3⟩
    · exact h.done_val v hv hg newer older (by rw [← h3]; exact hd)
    · rw [h3] at hd
      obtain ⟨n', _, hd'⟩ := decomp_cons_ne hx hd
      exact h.done_val v hv hg n' older hd'

/-! ### preservation, one kind of step at a time -/

theorem lin_inv_cons (cfg : Cfg) (t : Tid) (tr : List Ev) : lin cfg (Ev.inv t :: tr) = lin cfg tr := rfl
theorem lin_acq_cons (cfg : Cfg) (t : Tid) (tr : List Ev) : lin cfg (Ev.acq t :: tr) = lin cfg tr := rfl

theorem not_mem_lin_of_no_events {cfg : Cfg} {t : Tid} {tr : List Ev} (h : ∀ e ∈ tr, e.tid ≠ t) :
    t ∉ lin cfg tr := by
  intro hm
  rcases (mem_lin cfg t tr).mp hm with h1 | ⟨_, v, h1⟩
  · exact h _ h1 rfl
  · exact h _ h1 rfl

theorem step_idle {cfg : Cfg} {m0 : Mem} {g : Sh} {ls : Tid → Loc} (hI : GInv cfg m0 (g, ls)) (t : Tid)
    (hst : (ls t).st = .idle) :
    GInv cfg m0 ({ g with trace := Ev.inv t :: g.trace }, upd ls t { ls t with st := .run }) := by
  have hT := hI.thr t
  obtain ⟨hpc, hregs, hph, hnoev⟩ := hT.idle hst
  refine ⟨hI.data, hI.free, ?_, ?_⟩
  · intro a b va ha hold hb
    simp only [lin_inv_cons] at hb ⊢
    rcases Older_cons.mp hold with ⟨he, _⟩ | h2
    · cases he
      exact absurd hb (not_mem_lin_of_no_events hnoev)
    · exact hI.rt a b va ha h2 hb
  · intro u
    by_cases hu : u = t
    · subst hu
      rw [upd_same]
      refine ⟨?_, ?_, ?_, ?_, ?_, hT.reader, ?_, ?_, ?_, ?_, ?_⟩
      · intro h; cases h
      · intro _; exact List.mem_cons_self
      · intro v hv
        rcases List.mem_cons.mp hv with h | h
        · cases h
        · exact absurd rfl (hnoev _ h)
      · intro hv
        rcases List.mem_cons.mp hv with h | h
        · cases h
        · exact absurd rfl (hnoev _ h)
      · exact hT.held
      · intro hg _; exact hT.good hg (Or.inl hst)
      · intro hg hp _; exact hT.seq_pre hg hp (Or.inl hst)
      · intro _ hp; rw [show ({ ls u with st := Status.run } : Loc).ph = (ls u).ph from rfl, hph] at hp; cases hp
      · intro _ hp; rw [show ({ ls u with st := Status.run } : Loc).ph = (ls u).ph from rfl, hph] at hp; cases hp
      · intro v hv; cases hv
    · rw [upd_other _ _ hu]
      exact TInv_frame (hI.thr u) (Or.inr ⟨_, rfl, fun h => hu h.symm⟩) Iff.rfl (fun _ => rfl) (Or.inl rfl)
        (fun _ => rfl)

end W2c2Verif.Model.Grow
