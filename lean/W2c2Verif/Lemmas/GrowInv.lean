/-
  Lemmas.GrowInv — the inductive invariant behind `grow_linearizable` (Props/C18.lean), for ANY
  configuration satisfying `WF`: any number of threads, any arguments, any interleaving.
-/
import W2c2Verif.Lemmas.GrowLin

namespace W2c2Verif.Model.Grow
open W2c2Verif.Model

/-- per-thread invariant -/
structure TInv (cfg : Cfg) (m0 : Mem) (g : Sh) (t : Tid) (l : Loc) : Prop where
  idle : l.st = .idle → l.pc = 0 ∧ l.regs = initRegs (cfg.arg t) ∧ l.ph = .pre ∧ ∀ e ∈ g.trace, e.tid ≠ t
  inv_ev : l.st ≠ .idle → Ev.inv t ∈ g.trace
  res_ev : ∀ v, Ev.res t v ∈ g.trace → l.st = .done v
  rel_ev : Ev.rel t ∈ g.trace → l.ph = .post
  held : l.ph = .held ↔ g.mutex = some t
  reader : cfg.isGrow t = false → l.ph = .pre
  good : cfg.isGrow t = true → (l.st = .idle ∨ l.st = .run) → Good (cfg.prog t) l.ph l.pc l.regs
  seq_pre : cfg.isGrow t = true → l.ph = .pre → (l.st = .idle ∨ l.st = .run) →
    ∀ m r, Final cfg.imm (cfg.prog t) m 0 (initRegs (cfg.arg t)) r ↔ Final cfg.imm (cfg.prog t) m l.pc l.regs r
  seq_held : cfg.isGrow t = true → l.ph = .held →
    ∃ ms : Mem, ms.pages = replay cfg m0.pages (lin cfg g.trace) ∧ SizeInv m0 ms ∧
      ∀ r, Final cfg.imm (cfg.prog t) ms 0 (initRegs (cfg.arg t)) r ↔ Final cfg.imm (cfg.prog t) g.mem l.pc l.regs r
  seq_post : cfg.isGrow t = true → l.ph = .post →
    ∃ newer older, lin cfg g.trace = newer ++ t :: older ∧
      (l.st = .run → ∃ ms m1 : Mem, ms.pages = replay cfg m0.pages older ∧
        ∀ r, Final cfg.imm (cfg.prog t) ms 0 (initRegs (cfg.arg t)) r ↔ Final cfg.imm (cfg.prog t) m1 l.pc l.regs r)
  done_val : ∀ v, l.st = .done v → cfg.isGrow t = true →
    ∀ newer older, lin cfg g.trace = newer ++ t :: older → v = retOf cfg m0.pages older t

/-- global invariant -/
structure GInv (cfg : Cfg) (m0 : Mem) (g : Sh) (ls : Tid → Loc) : Prop where
  data : g.mem.data = m0.data
  free : g.mutex = none → g.mem.pages = replay cfg m0.pages (lin cfg g.trace) ∧ SizeInv m0 g.mem
  rt : ∀ a b va, cfg.isGrow a = true → Older g.trace (Ev.res a va) (Ev.inv b) → b ∈ lin cfg g.trace →
    Older (lin cfg g.trace) a b
  thr : ∀ t, TInv cfg m0 g t (ls t)

/-! ### the invariant holds initially -/

theorem ginv_init {cfg : Cfg} {m0 : Mem} (wf : WF cfg m0) : GInv cfg m0 (initState cfg m0).1 (initState cfg m0).2 := by
  refine ⟨rfl, fun _ => ⟨rfl, Or.inl rfl⟩, ?_, ?_⟩
  · intro a b va _ h; obtain ⟨l1, l2, h, _⟩ := h; simp [initState] at h
  · intro t
    refine ⟨?_, ?_, ?_, ?_, ?_, ?_, ?_, ?_, ?_, ?_, ?_⟩
    · intro _; exact ⟨rfl, rfl, rfl, by simp [initState]⟩
    · intro h; exact absurd rfl h
    · intro v h; simp [initState] at h
    · intro h; simp [initState] at h
    · simp [initState, initLoc]
    · intro _; rfl
    · intro hg _; exact good_of_readsUnderLock (wf.disc t hg) _
    · intro _ _ _ m r; exact Iff.rfl
    · intro _ h; simp [initState, initLoc] at h
    · intro _ h; simp [initState, initLoc] at h
    · intro v h; simp [initState, initLoc] at h

/-! ### frame: what a step of another thread preserves -/

theorem TInv_frame {cfg : Cfg} {m0 : Mem} {g g' : Sh} {u : Tid} {l : Loc} (h : TInv cfg m0 g u l)
    (htr : g'.trace = g.trace ∨ ∃ e, g'.trace = e :: g.trace ∧ e.tid ≠ u)
    (hmx : g'.mutex = some u ↔ g.mutex = some u)
    (hmem : l.ph = .held → g'.mem = g.mem)
    (hlin : lin cfg g'.trace = lin cfg g.trace ∨ ∃ x, x ≠ u ∧ lin cfg g'.trace = x :: lin cfg g.trace)
    (hcur : l.ph = .held → replay cfg m0.pages (lin cfg g'.trace) = replay cfg m0.pages (lin cfg g.trace)) :
    TInv cfg m0 g' u l := by
  have hsub : ∀ e, e.tid = u → e ∈ g'.trace → e ∈ g.trace := by
    intro e he hin
    rcases htr with h1 | ⟨e', h1, hne⟩
    · rw [h1] at hin; exact hin
    · rw [h1] at hin
      rcases List.mem_cons.mp hin with rfl | h2
      · exact absurd he hne
      · exact h2
  have hsup : ∀ e, e ∈ g.trace → e ∈ g'.trace := by
    intro e hin
    rcases htr with h1 | ⟨e', h1, _⟩
    · rw [h1]; exact hin
    · rw [h1]; exact List.mem_cons_of_mem _ hin
  refine ⟨?_, ?_, ?_, ?_, ?_, h.reader, h.good, h.seq_pre, ?_, ?_, ?_⟩
  · intro hi
    obtain ⟨a, b, c, d⟩ := h.idle hi
    refine ⟨a, b, c, ?_⟩
    intro e he heq
    exact d e (hsub e heq he) heq
  · intro hi; exact hsup _ (h.inv_ev hi)
  · intro v hv; exact h.res_ev v (hsub _ rfl hv)
  · intro hv; exact h.rel_ev (hsub _ rfl hv)
  · rw [hmx]; exact h.held
  · intro hg hp
    obtain ⟨ms, h1, h2, h3⟩ := h.seq_held hg hp
    refine ⟨ms, ?_, h2, ?_⟩
    · rw [hcur hp]; exact h1
    · rw [hmem hp]; exact h3
  · intro hg hp
    obtain ⟨newer, older, h1, h2⟩ := h.seq_post hg hp
    rcases hlin with h3 | ⟨x, _, h3⟩
    · exact ⟨newer, older, by rw [h3]; exact h1, h2⟩
    · exact ⟨x :: newer, older, by rw [h3, h1]; rfl, h2⟩
  · intro v hv hg newer older hd
    rcases hlin with h3 | ⟨x, hx, h3⟩
    · exact h.done_val v hv hg newer older (by rw [← h3]; exact hd)
    · rw [h3] at hd
      obtain ⟨n', _, hd'⟩ := decomp_cons_ne hx hd
      exact h.done_val v hv hg n' older hd'

/-! ### preservation, one kind of step at a time -/

theorem lin_inv_cons (cfg : Cfg) (t : Tid) (tr : List Ev) : lin cfg (Ev.inv t :: tr) = lin cfg tr := rfl
theorem lin_acq_cons (cfg : Cfg) (t : Tid) (tr : List Ev) : lin cfg (Ev.acq t :: tr) = lin cfg tr := rfl

theorem not_mem_lin_of_no_events {cfg : Cfg} {t : Tid} {tr : List Ev} (h : ∀ e ∈ tr, e.tid ≠ t) :
    t ∉ lin cfg tr := by
  intro hm
  rcases (mem_lin cfg t tr).mp hm with h1 | ⟨_, v, h1⟩
  · exact h _ h1 rfl
  · exact h _ h1 rfl

theorem step_idle {cfg : Cfg} {m0 : Mem} {g : Sh} {ls : Tid → Loc} (hI : GInv cfg m0 g ls) (t : Tid)
    (hst : (ls t).st = .idle) :
    GInv cfg m0 { g with trace := Ev.inv t :: g.trace } (upd ls t { ls t with st := .run }) := by
  have hT := hI.thr t
  obtain ⟨hpc, hregs, hph, hnoev⟩ := hT.idle hst
  refine ⟨hI.data, hI.free, ?_, ?_⟩
  · intro a b va ha hold hb
    simp only [lin_inv_cons] at hb ⊢
    rcases Older_cons.mp hold with ⟨he, _⟩ | h2
    · cases he
      exact absurd hb (not_mem_lin_of_no_events hnoev)
    · exact hI.rt a b va ha h2 hb
  · intro u
    by_cases hu : u = t
    · subst hu
      rw [upd_same]
      refine ⟨?_, ?_, ?_, ?_, ?_, hT.reader, ?_, ?_, ?_, ?_, ?_⟩
      · intro h; cases h
      · intro _; exact List.mem_cons_self
      · intro v hv
        rcases List.mem_cons.mp hv with h | h
        · cases h
        · exact absurd rfl (hnoev _ h)
      · intro hv
        rcases List.mem_cons.mp hv with h | h
        · cases h
        · exact absurd rfl (hnoev _ h)
      · exact hT.held
      · intro hg _; exact hT.good hg (Or.inl hst)
      · intro hg hp _; exact hT.seq_pre hg hp (Or.inl hst)
      · intro _ hp; rw [show ({ ls u with st := Status.run } : Loc).ph = (ls u).ph from rfl, hph] at hp; cases hp
      · intro _ hp; rw [show ({ ls u with st := Status.run } : Loc).ph = (ls u).ph from rfl, hph] at hp; cases hp
      · intro v hv; cases hv
    · rw [upd_other _ _ hu]
      exact TInv_frame (hI.thr u) (Or.inr ⟨_, rfl, fun h => hu h.symm⟩) Iff.rfl (fun _ => rfl) (Or.inl rfl)
        (fun _ => rfl)

theorem step_cont {cfg : Cfg} {m0 : Mem} (wf : WF cfg m0) {g : Sh} {ls : Tid → Loc} (hI : GInv cfg m0 g ls)
    (t : Tid) (hst : (ls t).st = .run) {m' : Mem} {pc' : Nat} {ρ' : Nat → Nat}
    (ha : act cfg.imm (cfg.prog t) g.mem (ls t).pc (ls t).regs = .cont m' pc' ρ') :
    GInv cfg m0 { g with mem := m' } (upd ls t { ls t with pc := pc', regs := ρ' }) := by
  have hT := hI.thr t
  -- facts about the step, for grows (discipline) and for readers (read-only)
  have hfacts : m'.data = g.mem.data ∧ ((ls t).ph ≠ .held → m' = g.mem) ∧
      (cfg.isGrow t = true → Good (cfg.prog t) (ls t).ph pc' ρ' ∧
        ((ls t).ph ≠ .held → ∀ m2, act cfg.imm (cfg.prog t) m2 (ls t).pc (ls t).regs = .cont m2 pc' ρ')) := by
    cases hg : cfg.isGrow t with
    | true =>
      have ga := good_act wf.shared (hT.good hg (Or.inr hst)) g.mem
      rw [ha] at ga
      exact ⟨ga.2.1, fun h => (ga.2.2 h).1, fun _ => ⟨ga.1, fun h => (ga.2.2 h).2⟩⟩
    | false =>
      have ra := readOnly_act (imm := cfg.imm) (wf.reader t hg) g.mem (ls t).pc (ls t).regs
      rw [ha] at ra
      dsimp only at ra
      exact ⟨by rw [ra], fun _ => ra, fun h => by cases h⟩
  obtain ⟨hdata, hmem, hgrow⟩ := hfacts
  have hnotheld_of_other : ∀ u, u ≠ t → (ls u).ph = .held → (ls t).ph ≠ .held := by
    intro u hu hph hph'
    have h1 := (hI.thr u).held.mp hph
    have h2 := hT.held.mp hph'
    rw [h1] at h2
    exact hu (Option.some.inj h2)
  refine ⟨by rw [← hI.data]; exact hdata, ?_, hI.rt, ?_⟩
  · intro hm
    have hne : (ls t).ph ≠ .held := by
      intro hp; have := hT.held.mp hp; rw [hm] at this; cases this
    show m'.pages = _ ∧ SizeInv m0 m'
    rw [hmem hne]; exact hI.free hm
  · intro u
    by_cases hu : u = t
    · subst hu
      rw [upd_same]
      refine ⟨?_, hT.inv_ev, hT.res_ev, hT.rel_ev, hT.held, hT.reader, ?_, ?_, ?_, ?_, ?_⟩
      · intro h; rw [show ({ ls u with pc := pc', regs := ρ' } : Loc).st = (ls u).st from rfl, hst] at h; cases h
      · intro hg _; exact (hgrow hg).1
      · intro hg hp _ m r
        have hp' : (ls u).ph = .pre := hp
        have hne : (ls u).ph ≠ .held := by rw [hp']; decide
        rw [hT.seq_pre hg hp' (Or.inr hst) m r]
        exact Final_cont ((hgrow hg).2 hne m) r
      · intro hg hp
        have hp' : (ls u).ph = .held := hp
        obtain ⟨ms, h1, h2, h3⟩ := hT.seq_held hg hp'
        refine ⟨ms, h1, h2, fun r => ?_⟩
        rw [h3 r]
        exact Final_cont ha r
      · intro hg hp
        have hp' : (ls u).ph = .post := hp
        have hne : (ls u).ph ≠ .held := by rw [hp']; decide
        obtain ⟨newer, older, h1, h2⟩ := hT.seq_post hg hp'
        refine ⟨newer, older, h1, fun _ => ?_⟩
        obtain ⟨ms, m1, h3, h4⟩ := h2 hst
        refine ⟨ms, m1, h3, fun r => ?_⟩
        rw [h4 r]
        exact Final_cont ((hgrow hg).2 hne m1) r
      · intro v hv; rw [show ({ ls u with pc := pc', regs := ρ' } : Loc).st = (ls u).st from rfl, hst] at hv; cases hv
    · rw [upd_other _ _ hu]
      exact TInv_frame (hI.thr u) (Or.inl rfl) Iff.rfl
        (fun hp => hmem (hnotheld_of_other u hu hp)) (Or.inl rfl) (fun _ => rfl)

theorem isGrow_of_not_readOnly_lock {cfg : Cfg} {m0 : Mem} (wf : WF cfg m0) {t : Tid} {m : Mem} {pc : Nat}
    {ρ : Nat → Nat} {pc' : Nat} (ha : act cfg.imm (cfg.prog t) m pc ρ = .lock pc') : cfg.isGrow t = true := by
  cases hg : cfg.isGrow t with
  | true => rfl
  | false =>
    have ra := readOnly_act (imm := cfg.imm) (wf.reader t hg) m pc ρ
    rw [ha] at ra; exact ra.elim

theorem isGrow_of_not_readOnly_unlock {cfg : Cfg} {m0 : Mem} (wf : WF cfg m0) {t : Tid} {m : Mem} {pc : Nat}
    {ρ : Nat → Nat} {pc' : Nat} (ha : act cfg.imm (cfg.prog t) m pc ρ = .unlock pc') : cfg.isGrow t = true := by
  cases hg : cfg.isGrow t with
  | true => rfl
  | false =>
    have ra := readOnly_act (imm := cfg.imm) (wf.reader t hg) m pc ρ
    rw [ha] at ra; exact ra.elim

theorem step_lock {cfg : Cfg} {m0 : Mem} (wf : WF cfg m0) {g : Sh} {ls : Tid → Loc} (hI : GInv cfg m0 g ls)
    (t : Tid) (hst : (ls t).st = .run) {pc' : Nat}
    (ha : act cfg.imm (cfg.prog t) g.mem (ls t).pc (ls t).regs = .lock pc') (hfree : g.mutex = none) :
    GInv cfg m0 { g with mutex := some t, trace := Ev.acq t :: g.trace }
      (upd ls t { ls t with pc := pc', ph := .held }) := by
  have hT := hI.thr t
  have hg : cfg.isGrow t = true := isGrow_of_not_readOnly_lock wf ha
  have ga := good_act wf.shared (hT.good hg (Or.inr hst)) g.mem
  rw [ha] at ga
  obtain ⟨hph, hgood, _⟩ := ga
  refine ⟨hI.data, fun h => (by cases h), ?_, ?_⟩
  · intro a b va hga hold hb
    rw [show ({ g with mutex := some t, trace := Ev.acq t :: g.trace } : Sh).trace = Ev.acq t :: g.trace from rfl,
      lin_acq_cons] at hb ⊢
    rcases Older_cons.mp hold with ⟨he, _⟩ | h2
    · cases he
    · exact hI.rt a b va hga h2 hb
  · intro u
    by_cases hu : u = t
    · subst hu
      rw [upd_same]
      refine ⟨?_, ?_, ?_, ?_, ?_, ?_, ?_, ?_, ?_, ?_, ?_⟩
      · intro h; rw [show ({ ls u with pc := pc', ph := Phase.held } : Loc).st = (ls u).st from rfl, hst] at h; cases h
      · intro h; exact List.mem_cons_of_mem _ (hT.inv_ev h)
      · intro v hv
        rcases List.mem_cons.mp hv with h | h
        · cases h
        · exact hT.res_ev v h
      · intro hv
        rcases List.mem_cons.mp hv with h | h
        · cases h
        · have := hT.rel_ev h; rw [hph] at this; cases this
      · exact ⟨fun _ => rfl, fun _ => rfl⟩
      · intro h; rw [hg] at h; cases h
      · intro _ _; exact hgood
      · intro _ hp; cases hp
      · intro _ _
        obtain ⟨h1, h2⟩ := hI.free hfree
        refine ⟨g.mem, h1, h2, fun r => ?_⟩
        show _ ↔ Final cfg.imm (cfg.prog u) g.mem pc' (ls u).regs r
        rw [hT.seq_pre hg hph (Or.inr hst) g.mem r]
        exact Final_lock ha r
      · intro _ hp; cases hp
      · intro v hv; rw [show ({ ls u with pc := pc', ph := Phase.held } : Loc).st = (ls u).st from rfl, hst] at hv; cases hv
    · rw [upd_other _ _ hu]
      refine TInv_frame (hI.thr u) (Or.inr ⟨_, rfl, fun h => hu h.symm⟩) ?_ (fun _ => rfl) (Or.inl rfl) (fun _ => rfl)
      constructor
      · intro h; exact absurd (Option.some.inj h).symm hu
      · intro h; rw [hfree] at h; cases h

theorem step_unlock {cfg : Cfg} {m0 : Mem} (wf : WF cfg m0) {g : Sh} {ls : Tid → Loc} (hI : GInv cfg m0 g ls)
    (t : Tid) (hst : (ls t).st = .run) {pc' : Nat}
    (ha : act cfg.imm (cfg.prog t) g.mem (ls t).pc (ls t).regs = .unlock pc') (hown : g.mutex = some t) :
    GInv cfg m0 { g with mutex := none, trace := Ev.rel t :: g.trace }
      (upd ls t { ls t with pc := pc', ph := .post }) := by
  have hT := hI.thr t
  have hg : cfg.isGrow t = true := isGrow_of_not_readOnly_unlock wf ha
  have ga := good_act wf.shared (hT.good hg (Or.inr hst)) g.mem
  rw [ha] at ga
  obtain ⟨hph, hgood, _⟩ := ga
  have hnotin : t ∉ lin cfg g.trace := by
    intro hm
    rcases (mem_lin cfg t g.trace).mp hm with h1 | ⟨_, v, h1⟩
    · have := hT.rel_ev h1; rw [hph] at this; cases this
    · have := hT.res_ev v h1; rw [hst] at this; cases this
  have hlin : lin cfg (Ev.rel t :: g.trace) = t :: lin cfg g.trace := by
    show linAdd t (lin cfg g.trace) = _
    exact linAdd_of_not_mem hnotin
  obtain ⟨ms, hms, hsz, hfin⟩ := hT.seq_held hg hph
  have hle : ms.pages ≤ cfg.imm.maxPages := by rw [hms]; exact replay_le cfg wf.init_le _
  obtain ⟨m', hF, hpages, hsize⟩ := wf.seq t hg ms hle
  have hF2 : Final cfg.imm (cfg.prog t) g.mem pc' (ls t).regs (m', (specGrow cfg.imm ms.pages (cfg.arg t)).1) :=
    (Final_unlock ha _).mp ((hfin _).mp hF)
  have hm' : m' = g.mem := by
    obtain ⟨n, hn⟩ := hF2
    exact post_runSeq_mem wf.shared n _ _ _ _ hgood hn
  refine ⟨hI.data, ?_, ?_, ?_⟩
  · intro _
    show g.mem.pages = replay cfg m0.pages (lin cfg (Ev.rel t :: g.trace)) ∧ SizeInv m0 g.mem
    rw [hlin]
    constructor
    · show g.mem.pages = (specGrow cfg.imm (replay cfg m0.pages (lin cfg g.trace)) (cfg.arg t)).2
      rw [← hms, ← hpages, hm']
    · rcases hsize with h | h
      · rw [← hm', h]; exact hsz
      · rw [← hm']; exact Or.inr h
  · intro a b va hga hold hb
    show Older (lin cfg (Ev.rel t :: g.trace)) a b
    rw [show ({ g with mutex := none, trace := Ev.rel t :: g.trace } : Sh).trace = Ev.rel t :: g.trace from rfl,
      hlin] at hb
    rw [hlin]
    have hold' : Older g.trace (Ev.res a va) (Ev.inv b) := by
      rcases Older_cons.mp hold with ⟨he, _⟩ | h2
      · cases he
      · exact h2
    by_cases hbl : b ∈ lin cfg g.trace
    · exact Older_cons.mpr (Or.inr (hI.rt a b va hga hold' hbl))
    · rcases List.mem_cons.mp hb with rfl | h
      · refine Older_cons.mpr (Or.inl ⟨rfl, ?_⟩)
        exact (mem_lin cfg a g.trace).mpr (Or.inr ⟨hga, va, Older_mem_left hold'⟩)
      · exact absurd h hbl
  · intro u
    by_cases hu : u = t
    · subst hu
      rw [upd_same]
      refine ⟨?_, ?_, ?_, ?_, ?_, ?_, ?_, ?_, ?_, ?_, ?_⟩
      · intro h; rw [show ({ ls u with pc := pc', ph := Phase.post } : Loc).st = (ls u).st from rfl, hst] at h; cases h
      · intro h; exact List.mem_cons_of_mem _ (hT.inv_ev h)
      · intro v hv
        rcases List.mem_cons.mp hv with h | h
        · cases h
        · exact hT.res_ev v h
      · intro _; rfl
      · exact ⟨fun h => (by cases h), fun h => (by cases h)⟩
      · intro h; rw [hg] at h; cases h
      · intro _ _; exact hgood
      · intro _ hp; cases hp
      · intro _ hp; cases hp
      · intro _ _
        refine ⟨[], lin cfg g.trace, hlin, fun _ => ⟨ms, g.mem, hms, fun r => ?_⟩⟩
        show _ ↔ Final cfg.imm (cfg.prog u) g.mem pc' (ls u).regs r
        rw [hfin r]
        exact Final_unlock ha r
      · intro v hv; rw [show ({ ls u with pc := pc', ph := Phase.post } : Loc).st = (ls u).st from rfl, hst] at hv; cases hv
    · rw [upd_other _ _ hu]
      have hnh : (ls u).ph ≠ .held := by
        intro hp
        have := (hI.thr u).held.mp hp
        rw [hown] at this
        exact hu (Option.some.inj this).symm
      refine TInv_frame (hI.thr u) (Or.inr ⟨_, rfl, fun h => hu h.symm⟩) ?_ (fun _ => rfl)
        (Or.inr ⟨t, fun h => hu h.symm, hlin⟩) (fun hp => absurd hp hnh)
      constructor
      · intro h; cases h
      · intro h; rw [hown] at h; exact absurd (Option.some.inj h).symm hu

theorem step_ret {cfg : Cfg} {m0 : Mem} (wf : WF cfg m0) {g : Sh} {ls : Tid → Loc} (hI : GInv cfg m0 g ls)
    (t : Tid) (hst : (ls t).st = .run) {v : Nat}
    (ha : act cfg.imm (cfg.prog t) g.mem (ls t).pc (ls t).regs = .ret v) :
    GInv cfg m0 { g with trace := Ev.res t v :: g.trace } (upd ls t { ls t with st := .done v }) := by
  have hT := hI.thr t
  have hnores : ∀ w, Ev.res t w ∉ g.trace := by
    intro w hw; have := hT.res_ev w hw; rw [hst] at this; cases this
  -- what the response does to the linearization order
  have hsum : (lin cfg (Ev.res t v :: g.trace) = lin cfg g.trace ∨
        (lin cfg (Ev.res t v :: g.trace) = t :: lin cfg g.trace)) ∧
      replay cfg m0.pages (lin cfg (Ev.res t v :: g.trace)) = replay cfg m0.pages (lin cfg g.trace) ∧
      (cfg.isGrow t = true → (ls t).ph ≠ .held ∧
        ∀ newer older, lin cfg (Ev.res t v :: g.trace) = newer ++ t :: older → v = retOf cfg m0.pages older t) := by
    cases hg : cfg.isGrow t with
    | false =>
      have : lin cfg (Ev.res t v :: g.trace) = lin cfg g.trace := by simp [lin, hg]
      exact ⟨Or.inl this, by rw [this], fun h => by cases h⟩
    | true =>
      have ga := good_act wf.shared (hT.good hg (Or.inr hst)) g.mem
      rw [ha] at ga
      obtain ⟨hnh, hact⟩ := ga
      have hnd := lin_nodup cfg (Ev.res t v :: g.trace)
      cases hph : (ls t).ph with
      | held => exact absurd hph hnh
      | pre =>
        have hnotin : t ∉ lin cfg g.trace := by
          intro hm
          rcases (mem_lin cfg t g.trace).mp hm with h1 | ⟨_, w, h1⟩
          · have := hT.rel_ev h1; rw [hph] at this; cases this
          · exact hnores w h1
        have hlin : lin cfg (Ev.res t v :: g.trace) = t :: lin cfg g.trace := by
          simp only [lin, hg, ↓reduceIte]; exact linAdd_of_not_mem hnotin
        -- run the specification at the current linearized size
        let m : Mem := ⟨g.mem.data, g.mem.size, replay cfg m0.pages (lin cfg g.trace)⟩
        have hle : m.pages ≤ cfg.imm.maxPages := replay_le cfg wf.init_le _
        obtain ⟨m', hF, hpages, _⟩ := wf.seq t hg m hle
        have hF' : Final cfg.imm (cfg.prog t) m 0 (initRegs (cfg.arg t)) (m, v) :=
          (hT.seq_pre hg hph (Or.inr hst) m (m, v)).mpr ((Final_ret (hact m) _).mpr rfl)
        have heq := Final_det hF hF'
        have h1 : m' = m := congrArg Prod.fst heq
        have h2 : (specGrow cfg.imm m.pages (cfg.arg t)).1 = v := congrArg Prod.snd heq
        refine ⟨Or.inr hlin, ?_, fun _ => ⟨by simp, ?_⟩⟩
        · rw [hlin]
          show (specGrow cfg.imm m.pages (cfg.arg t)).2 = m.pages
          rw [← hpages, h1]
        · intro newer older hd
          rw [hlin] at hd hnd
          have := nodup_decomp_unique (n1 := []) (o1 := lin cfg g.trace) hnd hd
          rw [← this.2]
          exact h2.symm
      | post =>
        obtain ⟨newer0, older0, hd0, hrun⟩ := hT.seq_post hg hph
        have hin : t ∈ lin cfg g.trace := by rw [hd0]; simp
        have hlin : lin cfg (Ev.res t v :: g.trace) = lin cfg g.trace := by
          simp only [lin, hg, ↓reduceIte]; exact linAdd_of_mem hin
        obtain ⟨ms, m1, hms, hfin⟩ := hrun hst
        have hle : ms.pages ≤ cfg.imm.maxPages := by rw [hms]; exact replay_le cfg wf.init_le _
        obtain ⟨m', hF, _, _⟩ := wf.seq t hg ms hle
        have hF' : Final cfg.imm (cfg.prog t) ms 0 (initRegs (cfg.arg t)) (m1, v) :=
          (hfin _).mpr ((Final_ret (hact m1) _).mpr rfl)
        have h2 : (specGrow cfg.imm ms.pages (cfg.arg t)).1 = v := congrArg Prod.snd (Final_det hF hF')
        refine ⟨Or.inl hlin, by rw [hlin], fun _ => ⟨by simp, ?_⟩⟩
        intro newer older hd
        rw [hlin] at hd hnd
        rw [hd0] at hnd
        have := nodup_decomp_unique hnd (hd0.symm.trans hd)
        rw [← this.2]
        show v = (specGrow cfg.imm (replay cfg m0.pages older0) (cfg.arg t)).1
        rw [← hms]; exact h2.symm
  obtain ⟨hlin, hcur, hval⟩ := hsum
  refine ⟨hI.data, ?_, ?_, ?_⟩
  · intro hm
    show g.mem.pages = replay cfg m0.pages (lin cfg (Ev.res t v :: g.trace)) ∧ SizeInv m0 g.mem
    rw [hcur]; exact hI.free hm
  · intro a b va hga hold hb
    show Older (lin cfg (Ev.res t v :: g.trace)) a b
    have hb' : b ∈ lin cfg (Ev.res t v :: g.trace) := hb
    have hold' : Older g.trace (Ev.res a va) (Ev.inv b) := by
      rcases Older_cons.mp hold with ⟨he, _⟩ | h2
      · cases he
      · exact h2
    rcases hlin with h | h
    · rw [h] at hb' ⊢; exact hI.rt a b va hga hold' hb'
    · rw [h] at hb' ⊢
      by_cases hbl : b ∈ lin cfg g.trace
      · exact Older_cons.mpr (Or.inr (hI.rt a b va hga hold' hbl))
      · rcases List.mem_cons.mp hb' with rfl | h'
        · refine Older_cons.mpr (Or.inl ⟨rfl, ?_⟩)
          exact (mem_lin cfg a g.trace).mpr (Or.inr ⟨hga, va, Older_mem_left hold'⟩)
        · exact absurd h' hbl
  · intro u
    by_cases hu : u = t
    · subst hu
      rw [upd_same]
      refine ⟨?_, ?_, ?_, ?_, hT.held, hT.reader, ?_, ?_, ?_, ?_, ?_⟩
      · intro h; cases h
      · intro _; exact List.mem_cons_of_mem _ (hT.inv_ev (by rw [hst]; simp))
      · intro w hw
        rcases List.mem_cons.mp hw with h | h
        · cases h; rfl
        · exact absurd h (hnores w)
      · intro hv
        rcases List.mem_cons.mp hv with h | h
        · cases h
        · exact hT.rel_ev h
      · intro _ h; rcases h with h | h <;> cases h
      · intro _ _ h; rcases h with h | h <;> cases h
      · intro hg hp; exact absurd hp (hval hg).1
      · intro hg hp
        have hp' : (ls u).ph = .post := hp
        obtain ⟨newer0, older0, hd0, _⟩ := hT.seq_post hg hp'
        rcases hlin with h | h
        · exact ⟨newer0, older0, by show lin cfg (Ev.res u v :: g.trace) = _; rw [h]; exact hd0, fun h => by cases h⟩
        · exact ⟨u :: newer0, older0, by show lin cfg (Ev.res u v :: g.trace) = _; rw [h, hd0]; rfl, fun h => by cases h⟩
      · intro w hw hg newer older hd
        have : w = v := by cases hw; rfl
        rw [this]
        exact (hval hg).2 newer older hd
    · rw [upd_other _ _ hu]
      refine TInv_frame (hI.thr u) (Or.inr ⟨_, rfl, fun h => hu h.symm⟩) Iff.rfl (fun _ => rfl) ?_ (fun _ => hcur)
      rcases hlin with h | h
      · exact Or.inl h
      · exact Or.inr ⟨t, fun h => hu h.symm, h⟩

theorem no_abort {cfg : Cfg} {m0 : Mem} (wf : WF cfg m0) {g : Sh} {ls : Tid → Loc} (hI : GInv cfg m0 g ls)
    (t : Tid) (hst : (ls t).st = .run) :
    act cfg.imm (cfg.prog t) g.mem (ls t).pc (ls t).regs ≠ .abort := by
  intro ha
  cases hg : cfg.isGrow t with
  | true =>
    have ga := good_act wf.shared ((hI.thr t).good hg (Or.inr hst)) g.mem
    rw [ha] at ga; exact ga
  | false =>
    have ra := readOnly_act (imm := cfg.imm) (wf.reader t hg) g.mem (ls t).pc (ls t).regs
    rw [ha] at ra; exact ra

/-- every transition preserves the invariant -/
theorem ginv_step {cfg : Cfg} {m0 : Mem} (wf : WF cfg m0) {g : Sh} {ls : Tid → Loc} (hI : GInv cfg m0 g ls)
    (t : Tid) (g' : Sh) (l' : Loc) (hs : (g', l') ∈ tstep cfg t g (ls t)) : GInv cfg m0 g' (upd ls t l') := by
  unfold tstep at hs
  cases hst : (ls t).st with
  | idle =>
    simp only [hst, List.mem_singleton, Prod.mk.injEq] at hs
    obtain ⟨rfl, rfl⟩ := hs
    exact step_idle hI t hst
  | run =>
    simp only [hst] at hs
    cases ha : act cfg.imm (cfg.prog t) g.mem (ls t).pc (ls t).regs with
    | cont m pc ρ =>
      simp only [ha, List.mem_singleton, Prod.mk.injEq] at hs
      obtain ⟨rfl, rfl⟩ := hs
      have h := step_cont wf hI t hst ha
      simp only [hst] at h
      exact h
    | lock pc =>
      simp only [ha] at hs
      split at hs
      · rename_i hfree
        simp only [List.mem_singleton, Prod.mk.injEq] at hs
        obtain ⟨rfl, rfl⟩ := hs
        have h := step_lock wf hI t hst ha hfree
        simp only [hst] at h
        exact h
      · simp at hs
    | unlock pc =>
      simp only [ha] at hs
      split at hs
      · rename_i hown
        simp only [List.mem_singleton, Prod.mk.injEq] at hs
        obtain ⟨rfl, rfl⟩ := hs
        have h := step_unlock wf hI t hst ha hown
        simp only [hst] at h
        exact h
      · simp at hs
    | ret v =>
      simp only [ha, List.mem_singleton, Prod.mk.injEq] at hs
      obtain ⟨rfl, rfl⟩ := hs
      exact step_ret wf hI t hst ha
    | abort => exact absurd ha (no_abort wf hI t hst)
    | stuck => simp [ha] at hs
  | done v => simp [hst] at hs
  | aborted => simp [hst] at hs

/-- the invariant holds in every reachable state -/
theorem ginv_reach {cfg : Cfg} {m0 : Mem} (wf : WF cfg m0) {s : Sh × (Tid → Loc)} (hr : Reachable cfg m0 s) :
    GInv cfg m0 s.1 s.2 := by
  induction hr with
  | init => exact ginv_init wf
  | step t g' l' _ hs ih => exact ginv_step wf ih t g' l' hs

end W2c2Verif.Model.Grow
