/-
  Lemmas.GrowCex — executable witnesses for C18: segment schedules reach reachable states; the concrete
  configurations used by the counterexample theorems; `replay` on constant-delta configurations.
-/
import W2c2Verif.Lemmas.GrowRace

namespace W2c2Verif.Model.Grow
open W2c2Verif.Model

theorem segment_reach {cfg : Cfg} {init : Sh × (Tid → Loc)} (t : Tid) :
    ∀ (fuel : Nat) (first : Bool) (s : Sh × (Tid → Loc)), Reach (sys cfg) init s →
      Reach (sys cfg) init (segment cfg t fuel first s).1 := by
  intro fuel
  induction fuel with
  | zero => intro first s hr; exact hr
  | succ fuel ih =>
    intro first s hr
    unfold segment
    dsimp only
    split
    · split
      · rename_i s' h; exact ih _ _ (sched1_reach hr h)
      · exact hr
    · split
      · split
        · split
          · rename_i s' h; exact ih _ _ (sched1_reach hr h)
          · exact hr
        · exact hr
      · split
        · rename_i s' h; exact sched1_reach hr h
        · exact hr
      · split
        · rename_i s' h; exact sched1_reach hr h
        · exact hr
      · split
        · rename_i s' h; exact sched1_reach hr h
        · exact hr
      · split
        · rename_i s' h; exact ih _ _ (sched1_reach hr h)
        · exact hr
      · exact hr
    · exact hr

theorem runSegments_reach {cfg : Cfg} {init : Sh × (Tid → Loc)} :
    ∀ (sch : List Tid) (s : Sh × (Tid → Loc)) (b : List Tid), Reach (sys cfg) init s →
      Reach (sys cfg) init (runSegments cfg sch s b).1
  | [], s, b, hr => hr
  | t :: rest, s, b, hr => by
    unfold runSegments
    exact runSegments_reach rest _ _ (segment_reach t _ _ s hr)

/-- two (or more) threads, each `memory.grow(1)` with the step list `prog`, on a shared memory of 1 page,
    maximum 10 -/
def cfgGrow1 (prog : List MStep) : Cfg :=
  { imm := { maxPages := 10 }, prog := fun _ => prog, arg := fun _ => 1, isGrow := fun _ => true }

def mem1 : Mem := ⟨0, 655360, 1⟩

/-- the schedule of DESIGN §6 #14, in segments: T0 runs up to the lock; T1 runs its whole grow; T0 finishes -/
def lostUpdateSchedule : List Tid := [0, 1, 1, 1, 0, 0]

/-- after `lostUpdateSchedule`: both grows have returned the old size 1, the memory has 2 pages -/
def lostUpdateCheck (prog : List MStep) : Bool :=
  let s := (runSegments (cfgGrow1 prog) lostUpdateSchedule (initState (cfgGrow1 prog) mem1) []).1
  decide ((s.2 0).st = .done 1) && decide ((s.2 1).st = .done 1) && decide (s.1.mem.pages = 2) &&
    decide (s.1.mutex = none) && decide (s.1.trace.length = 8) &&
    decide (Ev.res 0 1 ∈ s.1.trace) && decide (Ev.res 1 1 ∈ s.1.trace)

theorem replay_cfgGrow1 (prog : List MStep) :
    ∀ order : List Tid, replay (cfgGrow1 prog) 1 order = min (1 + order.length) 10
  | [] => by simp [replay]
  | t :: l => by
    have ih := replay_cfgGrow1 prog l
    have : replay (cfgGrow1 prog) 1 (t :: l) =
        (specGrow { maxPages := 10 } (replay (cfgGrow1 prog) 1 l) 1).2 := rfl
    rw [this, ih]
    unfold specGrow
    simp only [List.length_cons]
    split <;> simp only <;> omega

theorem two_le_length_of_mem {l : List Tid} (h0 : 0 ∈ l) (h1 : 1 ∈ l) : 2 ≤ l.length := by
  match l, h0, h1 with
  | [], h0, _ => simp at h0
  | [a], h0, h1 =>
    simp only [List.mem_singleton] at h0 h1
    rw [← h0] at h1; cases h1
  | _ :: _ :: _, _, _ => simp

/-- single-threaded wrap witness: 1 page, `memory.grow(0xFFFFFFFF)` -/
def wrapZeroCheck (prog : List MStep) : Bool :=
  match runSeq { maxPages := 10 } prog 64 mem1 0 (initRegs 4294967295) with
  | some (m, v) => decide (v = 0) && decide (m.pages = 1)
  | none => false

/-- a grow poised at its write of `pages` while an UNLOCKED read of `pages` (memory.size as emitted before
    ee826ee) is poised at its read (DESIGN §6 #18) -/
def cfgGrowSize (prog : List MStep) : Cfg :=
  { imm := { maxPages := 10 }, prog := fun t => if t = 0 then prog else plainSizeSteps, arg := fun _ => 1,
    isGrow := fun t => t = 0 }

def sizeRaceAfter (prog : List MStep) (k : Nat) : Bool :=
  match runSched (sys (cfgGrowSize prog)) (moves 0 k ++ moves 1 1) (initState (cfgGrowSize prog) mem1) with
  | some s =>
    decide (nextAccess (cfgGrowSize prog) 0 (s.2 0) = some (.pages, true)) &&
      decide (nextAccess (cfgGrowSize prog) 1 (s.2 1) = some (.pages, false))
  | none => false

def sizeRaceCheck (prog : List MStep) : Bool := (List.range 64).any (sizeRaceAfter prog)

theorem sizeRace_of_check {prog : List MStep} (h : sizeRaceCheck prog = true) :
    ∃ s, Reachable (cfgGrowSize prog) mem1 s ∧ Race (cfgGrowSize prog) s := by
  obtain ⟨k, _, hk⟩ := List.any_eq_true.mp h
  unfold sizeRaceAfter at hk
  split at hk
  · rename_i s hs
    simp only [Bool.and_eq_true, decide_eq_true_eq] at hk
    exact ⟨s, runSched_reach _ _ _ Reach.init hs, 0, 1, .pages, true, false, by decide, hk.1, hk.2, Or.inl rfl⟩
  · cases hk

end W2c2Verif.Model.Grow
