/-
  Lemmas.SimStatic — facts about the translator state that hold for every successful translation,
  independent of any execution: labels are restored, label indices only grow, the type stack below
  the innermost open label is never touched, and the state stays well formed.
-/
import W2c2Verif.Lemmas.SimSeq
set_option linter.unusedSimpArgs false
set_option linter.unusedVariables false
namespace W2c2Verif.Sim
open W2c2Verif Model Gen Spec

@[simp] theorem St.declare_stack (s : St) (sl : Slot) : (s.declare sl).stack = s.stack := rfl
@[simp] theorem St.declare_labels (s : St) (sl : Slot) : (s.declare sl).labels = s.labels := rfl
@[simp] theorem St.declare_next (s : St) (sl : Slot) : (s.declare sl).next = s.next := rfl
@[simp] theorem St.push_stack (s : St) (t : VT) : (s.push t).stack = s.stack ++ [t] := rfl
@[simp] theorem St.push_labels (s : St) (t : VT) : (s.push t).labels = s.labels := rfl
@[simp] theorem St.push_next (s : St) (t : VT) : (s.push t).next = s.next := rfl
@[simp] theorem St.drop_stack (s : St) (n : Nat) : (s.drop n).stack = s.stack.take (s.stack.length - n) := rfl
@[simp] theorem St.drop_labels (s : St) (n : Nat) : (s.drop n).labels = s.labels := rfl
@[simp] theorem St.drop_next (s : St) (n : Nat) : (s.drop n).next = s.next := rfl
@[simp] theorem St.declare_base (s : St) (sl : Slot) : (s.declare sl).base = s.base := rfl
@[simp] theorem St.push_base (s : St) (t : VT) : (s.push t).base = s.base := rfl
@[simp] theorem St.drop_base (s : St) (n : Nat) : (s.drop n).base = s.base := rfl
@[simp] theorem St.endBlock_labels (s : St) (h : Nat) (bt : Option VT) (ls : List Label) : (s.endBlock h bt ls).labels = ls := by
  cases bt <;> rfl
@[simp] theorem St.endBlock_next (s : St) (h : Nat) (bt : Option VT) (ls : List Label) : (s.endBlock h bt ls).next = s.next := by
  cases bt <;> rfl
@[simp] theorem St.endBlock_stack (s : St) (h : Nat) (bt : Option VT) (ls : List Label) :
    (s.endBlock h bt ls).stack = s.stack.take h ++ bt.toList := by
  cases bt <;> rfl

@[simp] theorem St.declare_declLen (s : St) (sl : Slot) : (s.declare sl).declLen = max s.declLen (sl.idx + 1) := rfl
@[simp] theorem St.push_declLen (s : St) (t : VT) : (s.push t).declLen = s.declLen := rfl
@[simp] theorem St.drop_declLen (s : St) (n : Nat) : (s.drop n).declLen = s.declLen := rfl
theorem St.endBlock_declLen_ge (s : St) (h : Nat) (bt : Option VT) (ls : List Label) : s.declLen ≤ (s.endBlock h bt ls).declLen := by
  cases bt with
  | none => exact Nat.le_refl _
  | some t => show s.declLen ≤ max s.declLen (h + 1); omega
theorem St.endBlock_declLen_some (s : St) (h : Nat) (t : VT) (ls : List Label) : h + 1 ≤ (s.endBlock h (some t) ls).declLen := by
  show h + 1 ≤ max s.declLen (h + 1); omega

theorem St.top_spec {s : St} {k : Nat} {sl : Slot} (h : s.top k = some sl) :
    k < s.stack.length ∧ sl.idx = s.stack.length - 1 - k ∧ s.stack[s.stack.length - 1 - k]? = some sl.ty := by
  unfold St.top at h
  split at h
  · rename_i hk
    have hi : s.stack.length - 1 - k < s.stack.length := by omega
    simp only [List.getElem?_eq_getElem hi, Option.map_some, Option.some.injEq] at h
    subst h
    exact ⟨hk, rfl, by simp [List.getElem?_eq_getElem hi]⟩
  · cases h

theorem WF.of_same {s s' : St} (hw : WF s) (hl : s'.labels = s.labels) (hn : s.next ≤ s'.next)
    (hh : s.base ≤ s'.stack.length) (hd : s'.stack.length ≤ s'.declLen) : WF s' := by
  refine ⟨hl ▸ hw.sorted, ?_, ?_, hl ▸ hw.nonempty, hd⟩
  · intro lab hm; rw [hl] at hm; exact Nat.le_trans (hw.height_le_base hm) hh
  · intro lab hm; rw [hl] at hm; exact Nat.lt_of_lt_of_le (hw.fresh lab hm) hn

structure Static (s s' : St) : Prop where
  labels : s'.labels = s.labels
  next : s.next ≤ s'.next
  take : s'.stack.take s.base = s.stack.take s.base
  len : s.base ≤ s'.stack.length
  declMono : s.declLen ≤ s'.declLen
  wf : WF s'

theorem Static.base {s s' : St} (h : Static s s') : s'.base = s.base := base_eq_of_labels h.labels

theorem Static.trans {s s1 s2 : St} (h1 : Static s s1) (h2 : Static s1 s2) : Static s s2 := by
  have hb := h1.base
  refine ⟨h2.labels.trans h1.labels, Nat.le_trans h1.next h2.next, ?_, ?_, Nat.le_trans h1.declMono h2.declMono, h2.wf⟩
  · have := h2.take; rw [hb] at this; exact this.trans h1.take
  · have := h2.len; rw [hb] at this; exact this

/-- the shape of every non-control instruction: pop down to `k ≥ base`, push `extra` -/
theorem Static.simple {s s' : St} (hw : WF s) (hl : s'.labels = s.labels) (hn : s.next ≤ s'.next) (k : Nat) (extra : List VT)
    (hk : s.base ≤ k) (hk' : k ≤ s.stack.length) (hs : s'.stack = s.stack.take k ++ extra)
    (hdm : s.declLen ≤ s'.declLen) (hd : s'.stack.length ≤ s'.declLen) : Static s s' := by
  have hlen : s.base ≤ s'.stack.length := by rw [hs]; simp; omega
  refine ⟨hl, hn, ?_, hlen, hdm, hw.of_same hl hn hlen hd⟩
  rw [hs, List.take_append_of_le_length (by simp; omega), List.take_take, Nat.min_eq_left hk]

theorem Static.refl {s : St} (hw : WF s) : Static s s :=
  Static.simple hw rfl (Nat.le_refl _) s.stack.length [] hw.base_le_height (Nat.le_refl _) (by simp) (Nat.le_refl _) hw.decl

theorem gotoCopy_declLen {s s' : St} {lab : Label} {cp : Option (Slot × Slot)} (h : gotoCopy s lab = some (s', cp)) :
    s.declLen ≤ s'.declLen ∧ (lab.type.isSome → 1 ≤ s'.stack.length) := by
  unfold gotoCopy at h
  split at h
  · rename_i hty; cases h; exact ⟨Nat.le_refl _, by simp [hty]⟩
  · split at h
    · cases h
    · rename_i src hsrc
      have hpos : 1 ≤ s.stack.length := by have := (St.top_spec hsrc).1; omega
      split at h
      · cases h
      · split at h
        · cases h; exact ⟨by simp; omega, fun _ => hpos⟩
        · cases h; exact ⟨Nat.le_refl _, fun _ => hpos⟩

theorem gotoCopy_same {s s' : St} {lab : Label} {cp : Option (Slot × Slot)} (h : gotoCopy s lab = some (s', cp)) :
    s'.stack = s.stack ∧ s'.labels = s.labels ∧ s'.next = s.next := by
  unfold gotoCopy at h
  split at h
  · cases h; exact ⟨rfl, rfl, rfl⟩
  · split at h
    · cases h
    · split at h
      · cases h
      · split at h <;> (cases h; exact ⟨rfl, rfl, rfl⟩)

theorem brTable_fold_same (ls : List Nat) : ∀ (s0 : St) (cs : List (Option (Slot × Slot) × Nat)) (s1 : St) (cases : List (Option (Slot × Slot) × Nat)),
    ls.foldl brTableStep (.ok (s0, cs)) = .ok (s1, cases) → s1.stack = s0.stack ∧ s1.labels = s0.labels ∧ s1.next = s0.next := by
  induction ls with
  | nil => intro s0 cs s1 cases h; simp at h; obtain ⟨rfl, _⟩ := h; exact ⟨rfl, rfl, rfl⟩
  | cons l rest ih =>
    intro s0 cs s1 cases h
    simp only [List.foldl_cons] at h
    cases hstep : brTableStep (.ok (s0, cs)) l with
    | error e =>
      rw [hstep] at h
      have : ∀ (xs : List Nat), xs.foldl brTableStep (.error e) = .error e := by
        intro xs; induction xs with
        | nil => rfl
        | cons x xs ihx => simp only [List.foldl_cons]; exact ihx
      rw [this] at h; cases h
    | ok res =>
      obtain ⟨sa, ca⟩ := res
      rw [hstep] at h
      obtain ⟨h1, h2, h3⟩ := ih sa ca s1 cases h
      simp only [brTableStep, bind, Except.bind] at hstep
      cases hlab : s0.label l with
      | none => simp [hlab] at hstep
      | some lab =>
        cases hg : gotoCopy s0 lab with
        | none => simp [hlab, hg] at hstep
        | some r =>
          obtain ⟨sb, cp⟩ := r
          simp only [hlab, hg] at hstep
          injection hstep with hstep
          simp only [Prod.mk.injEq] at hstep
          obtain ⟨rfl, _⟩ := hstep
          obtain ⟨g1, g2, g3⟩ := gotoCopy_same hg
          exact ⟨h1.trans g1, h2.trans g2, h3.trans g3⟩


theorem WF.enter {s : St} (hw : WF s) (bt : Option VT) :
    WF { s with labels := s.labels ++ [⟨s.next, s.stack.length, bt⟩], next := s.next + 1 } := by
  refine ⟨?_, ?_, ?_, by simp, hw.decl⟩
  · rw [List.pairwise_append]
    refine ⟨hw.sorted, by simp, ?_⟩
    intro a ha b hb
    simp at hb; subst hb
    exact hw.below a ha
  · intro lab hm
    simp at hm
    rcases hm with hm | rfl
    · exact hw.below lab hm
    · exact Nat.le_refl _
  · intro lab hm
    simp at hm
    rcases hm with hm | rfl
    · exact Nat.lt_succ_of_lt (hw.fresh lab hm)
    · exact Nat.lt_succ_self _

theorem St.base_enter (s : St) (lab : Label) (n : Nat) : ({ s with labels := s.labels ++ [lab], next := n } : St).base = lab.height := by
  simp [St.base]

theorem Static.pushes {s s' : St} (hw : WF s) (hl : s'.labels = s.labels) (hn : s.next ≤ s'.next) (extra : List VT)
    (hs : s'.stack = s.stack ++ extra) (hdm : s.declLen ≤ s'.declLen) (hd : s'.stack.length ≤ s'.declLen) : Static s s' :=
  Static.simple hw hl hn s.stack.length extra hw.base_le_height (Nat.le_refl _) (by simp [hs]) hdm hd

theorem Static.pops {s s' : St} (hw : WF s) (hl : s'.labels = s.labels) (hn : s.next ≤ s'.next) (k : Nat)
    (hk : s.base ≤ k) (hk' : k ≤ s.stack.length) (hs : s'.stack = s.stack.take k)
    (hdm : s.declLen ≤ s'.declLen) (hd : s'.stack.length ≤ s'.declLen) : Static s s' :=
  Static.simple hw hl hn k [] hk hk' (by simp [hs]) hdm hd

set_option hygiene false in
/-- arithmetic side conditions of the static lemmas: heights, declared-slot counts -/
macro "static_arith" : tactic => `(tactic| (
  have hdecl := hw.decl
  try have t0 := St.top_spec ‹s.top 0 = some _›
  try have t1 := St.top_spec ‹s.top 1 = some _›
  try have t2 := St.top_spec ‹s.top 2 = some _›
  simp only [St.height, St.declare_stack, St.declare_base, St.declare_declLen, St.push_stack, St.push_declLen, St.drop_stack,
    St.drop_declLen, List.length_append, List.length_take, List.length_cons, List.length_nil, Nat.not_lt] at *
  omega))

set_option hygiene false in
/-- closes the `.ok` branch of a non-control instruction -/
macro "static_fin" : tactic => `(tactic| (
  injection hc with hc
  simp only [Prod.mk.injEq] at hc
  obtain ⟨rfl, _, _⟩ := hc
  first
  | exact Static.refl hw
  | (refine Static.pushes hw rfl (Nat.le_refl _) _ rfl ?_ ?_ <;> static_arith)
  | (refine Static.simple hw rfl (Nat.le_refl _) _ _ ?_ ?_ rfl ?_ ?_ <;> static_arith)
  | (refine Static.pops hw rfl (Nat.le_refl _) _ ?_ ?_ rfl ?_ ?_ <;> static_arith)
  | (refine Static.simple hw rfl (Nat.le_refl _) s.stack.length [] hw.base_le_height (Nat.le_refl _) ?_ ?_ ?_
     · simp
     · static_arith
     · static_arith)))

set_option hygiene false in
/-- splits `hc` until every branch is an error (closed) or the final `.ok` -/
macro "static_simple" : tactic => `(tactic| (
  simp only [compileInstr, bind, Except.bind] at hc
  repeat' (split at hc)
  all_goals (first | (cases hc; done) | static_fin)))

theorem endBlock_decl (sB : St) (h : Nat) (bt : Option VT) (ls : List Label) (hd : sB.stack.length ≤ sB.declLen) :
    (sB.endBlock h bt ls).stack.length ≤ (sB.endBlock h bt ls).declLen := by
  cases bt with
  | none =>
    show (sB.stack.take h ++ []).length ≤ sB.declLen
    simp; omega
  | some t =>
    have := St.endBlock_declLen_some sB h t ls
    simp only [St.endBlock_stack, List.length_append, List.length_take, Option.toList, List.length_cons, List.length_nil]
    omega

theorem brTable_fold_declLen (ls : List Nat) : ∀ (s0 : St) (cs : List (Option (Slot × Slot) × Nat)) (s1 : St) (cases : List (Option (Slot × Slot) × Nat)),
    ls.foldl brTableStep (.ok (s0, cs)) = .ok (s1, cases) → s0.declLen ≤ s1.declLen := by
  induction ls with
  | nil => intro s0 cs s1 cases h; simp at h; obtain ⟨rfl, _⟩ := h; exact Nat.le_refl _
  | cons l rest ih =>
    intro s0 cs s1 cases h
    simp only [List.foldl_cons] at h
    cases hstep : brTableStep (.ok (s0, cs)) l with
    | error e =>
      rw [hstep] at h
      have : ∀ (xs : List Nat), xs.foldl brTableStep (.error e) = .error e := by
        intro xs; induction xs with
        | nil => rfl
        | cons x xs ihx => simp only [List.foldl_cons]; exact ihx
      rw [this] at h; cases h
    | ok res =>
      obtain ⟨sa, ca⟩ := res
      rw [hstep] at h
      have h1 := ih sa ca s1 cases h
      simp only [brTableStep, bind, Except.bind] at hstep
      cases hlab : s0.label l with
      | none => simp [hlab] at hstep
      | some lab =>
        cases hg : gotoCopy s0 lab with
        | none => simp [hlab, hg] at hstep
        | some r =>
          obtain ⟨sb, cp⟩ := r
          simp only [hlab, hg] at hstep
          injection hstep with hstep
          simp only [Prod.mk.injEq] at hstep
          obtain ⟨rfl, _⟩ := hstep
          exact Nat.le_trans (gotoCopy_declLen hg).1 h1

mutual
theorem seq_static (ctx : Ctx) : ∀ (is : List EInstr) (s s' : St) (out : List MStmtC) (dead : Bool),
    compileSeq ctx s is = .ok (s', out, dead) → WF s → Static s s'
  | [], s, s', out, dead, hc, hw => by
    simp [compileSeq] at hc
    obtain ⟨rfl, _, _⟩ := hc
    exact Static.refl hw
  | i :: rest, s, s', out, dead, hc, hw => by
    simp only [compileSeq] at hc
    cases hci : compileInstr ctx s i with
    | error e => simp [hci, bind, Except.bind] at hc
    | ok res =>
      obtain ⟨s1, out1, dead1⟩ := res
      simp only [hci, bind, Except.bind] at hc
      have h1 := instr_static ctx i s s1 out1 dead1 hci hw
      cases dead1 with
      | true =>
        simp at hc
        obtain ⟨rfl, _, _⟩ := hc
        exact h1
      | false =>
        simp only [Bool.false_eq_true, if_false] at hc
        cases hcr : compileSeq ctx s1 rest with
        | error e => simp [hcr] at hc
        | ok res2 =>
          obtain ⟨s2, out2, dead2⟩ := res2
          simp only [hcr] at hc
          injection hc with hc
          simp only [Prod.mk.injEq] at hc
          obtain ⟨rfl, _, _⟩ := hc
          exact h1.trans (seq_static ctx rest s1 s2 out2 dead2 hcr h1.wf)

theorem instr_static (ctx : Ctx) : ∀ (i : EInstr) (s s' : St) (out : List MStmtC) (dead : Bool),
    compileInstr ctx s i = .ok (s', out, dead) → WF s → Static s s'
  | .nop, s, s', out, dead, hc, hw => by
    simp [compileInstr] at hc
    obtain ⟨rfl, _, _⟩ := hc
    exact Static.refl hw
  | .block bt body, s, s', out, dead, hc, hw => by
    simp only [compileInstr, bind, Except.bind] at hc
    split at hc
    · cases hc
    · rename_i res hcb
      obtain ⟨sB, outB, deadB⟩ := res
      simp only [] at hc
      split at hc
      · cases hc
      · injection hc with hc
        simp only [Prod.mk.injEq] at hc
        obtain ⟨rfl, _, _⟩ := hc
        have hB := seq_static ctx body _ sB outB deadB hcb (hw.enter bt)
        have hbase := St.base_enter s ⟨s.next, s.height, bt⟩ (s.next + 1)
        have htake := hB.take
        rw [hbase] at htake
        simp only [St.height] at htake
        refine Static.simple hw (by simp) (by simp; have := hB.next; simp at this; omega) s.stack.length bt.toList hw.base_le_height (Nat.le_refl _) ?_
          (Nat.le_trans hB.declMono (St.endBlock_declLen_ge _ _ _ _)) (endBlock_decl _ _ _ _ hB.wf.decl)
        simp [St.height, htake]
  | .unreachable, s, s', out, dead, hc, hw => by static_simple
  | .drop, s, s', out, dead, hc, hw => by static_simple
  | .select, s, s', out, dead, hc, hw => by static_simple
  | .const t bits, s, s', out, dead, hc, hw => by static_simple
  | .localGet k, s, s', out, dead, hc, hw => by static_simple
  | .localSet k, s, s', out, dead, hc, hw => by static_simple
  | .localTee k, s, s', out, dead, hc, hw => by static_simple
  | .globalGet k, s, s', out, dead, hc, hw => by static_simple
  | .globalSet k, s, s', out, dead, hc, hw => by static_simple
  | .load o off, s, s', out, dead, hc, hw => by static_simple
  | .store o off, s, s', out, dead, hc, hw => by static_simple
  | .memorySize, s, s', out, dead, hc, hw => by static_simple
  | .memoryGrow, s, s', out, dead, hc, hw => by static_simple
  | .memoryCopy, s, s', out, dead, hc, hw => by static_simple
  | .memoryFill, s, s', out, dead, hc, hw => by static_simple
  | .memoryInit seg, s, s', out, dead, hc, hw => by static_simple
  | .dataDrop seg, s, s', out, dead, hc, hw => by static_simple
  | .atomicLoad o off, s, s', out, dead, hc, hw => by static_simple
  | .atomicStore o off, s, s', out, dead, hc, hw => by static_simple
  | .atomicRmw o off, s, s', out, dead, hc, hw => by static_simple
  | .atomicCmpxchg o off, s, s', out, dead, hc, hw => by static_simple
  | .atomicFence, s, s', out, dead, hc, hw => by static_simple
  | .atomicNotify off, s, s', out, dead, hc, hw => by static_simple
  | .atomicWait b off, s, s', out, dead, hc, hw => by static_simple
  | .numeric o, s, s', out, dead, hc, hw => by static_simple
  | .call f, s, s', out, dead, hc, hw => by static_simple
  | .callIndirect ty tbl, s, s', out, dead, hc, hw => by static_simple
  | .loop bt body, s, s', out, dead, hc, hw => by
    simp only [compileInstr, bind, Except.bind] at hc
    split at hc
    · cases hc
    · rename_i res hcb
      obtain ⟨sB, outB, deadB⟩ := res
      simp only [] at hc
      split at hc
      · cases hc
      · injection hc with hc
        simp only [Prod.mk.injEq] at hc
        obtain ⟨rfl, _, _⟩ := hc
        have hB := seq_static ctx body _ sB outB deadB hcb (hw.enter none)
        have hbase := St.base_enter s ⟨s.next, s.height, none⟩ (s.next + 1)
        have htake := hB.take
        rw [hbase] at htake
        simp only [St.height] at htake
        refine Static.simple hw (by simp) (by simp; have := hB.next; simp at this; omega) s.stack.length bt.toList hw.base_le_height (Nat.le_refl _) ?_
          (Nat.le_trans hB.declMono (St.endBlock_declLen_ge _ _ _ _)) (endBlock_decl _ _ _ _ hB.wf.decl)
        simp [St.height, htake]
  | .br l, s, s', out, dead, hc, hw => by
    simp only [compileInstr, bind, Except.bind] at hc
    repeat' (split at hc)
    all_goals first | (cases hc; done) | skip
    have hg := ‹gotoCopy _ _ = some _›
    injection hc with hc
    simp only [Prod.mk.injEq] at hc
    obtain ⟨rfl, _, _⟩ := hc
    obtain ⟨g1, g2, g3⟩ := gotoCopy_same hg
    have hdm := (gotoCopy_declLen hg).1
    exact Static.pushes hw g2 (Nat.le_of_eq g3.symm) [] (by simp [g1]) hdm (by rw [g1]; exact Nat.le_trans hw.decl hdm)
  | .ret, s, s', out, dead, hc, hw => by
    simp only [compileInstr, bind, Except.bind] at hc
    repeat' (split at hc)
    all_goals first | (cases hc; done) | skip
    have hg := ‹gotoCopy _ _ = some _›
    injection hc with hc
    simp only [Prod.mk.injEq] at hc
    obtain ⟨rfl, _, _⟩ := hc
    obtain ⟨g1, g2, g3⟩ := gotoCopy_same hg
    have hdm := (gotoCopy_declLen hg).1
    exact Static.pushes hw g2 (Nat.le_of_eq g3.symm) [] (by simp [g1]) hdm (by rw [g1]; exact Nat.le_trans hw.decl hdm)
  | .brIf l, s, s', out, dead, hc, hw => by
    simp only [compileInstr, bind, Except.bind] at hc
    repeat' (split at hc)
    all_goals first | (cases hc; done) | skip
    have hg := ‹gotoCopy _ _ = some _›
    have hcond := ‹¬ (_ ∨ _)›
    injection hc with hc
    simp only [Prod.mk.injEq] at hc
    obtain ⟨rfl, _, _⟩ := hc
    obtain ⟨g1, g2, g3⟩ := gotoCopy_same hg
    have hdm := (gotoCopy_declLen hg).1
    simp only [St.drop_declLen] at hdm
    refine Static.pops hw (by simp [g2]) (by simp [g3]) (s.stack.length - 1) ?_ (by omega) (by simp [g1]) hdm
      (by rw [g1]; have := hw.decl; simp; omega)
    simp [St.height] at hcond; omega
  | .brTable ls d, s, s', out, dead, hc, hw => by
    simp only [compileInstr, bind, Except.bind] at hc
    repeat' (split at hc)
    all_goals first | (cases hc; done) | skip
    have hg := ‹gotoCopy _ _ = some _›
    have hcond := ‹¬ (_ ∨ _)›
    have hfold := ‹List.foldl brTableStep _ _ = Except.ok _›
    injection hc with hc
    simp only [Prod.mk.injEq] at hc
    obtain ⟨rfl, _, _⟩ := hc
    obtain ⟨g1, g2, g3⟩ := gotoCopy_same hg
    obtain ⟨f1, f2, f3⟩ := brTable_fold_same _ _ _ _ _ hfold
    simp only [St.drop_stack, St.drop_labels, St.drop_next] at f1 f2 f3
    have hdm := Nat.le_trans (brTable_fold_declLen _ _ _ _ _ hfold) (gotoCopy_declLen hg).1
    simp only [St.drop_declLen] at hdm
    refine Static.pops hw (by simp [g2, f2]) (by simp [g3, f3]) (s.stack.length - 1) ?_ (by omega) (by simp [g1, f1]) hdm
      (by rw [g1, f1]; have := hw.decl; simp; omega)
    simp [St.height] at hcond; omega
  | .ite bt thn els, s, s', out, dead, hc, hw => by
    rw [compileInstr] at hc
    cases hc0 : s.top 0 with
    | none => simp [hc0, bind, Except.bind] at hc
    | some c =>
      simp only [hc0, bind, Except.bind] at hc
      split at hc
      · cases hc
      · rename_i hcond
        have hge : s.base + 1 ≤ s.stack.length := by simp [St.height] at hcond; omega
        have hw0 : WF (s.drop 1) := hw.of_same rfl (Nat.le_refl _) (by simp; omega) (by have := hw.decl; simp; omega)
        split at hc
        · cases hc
        · rename_i res hcT
          obtain ⟨sT, outT, deadT⟩ := res
          simp only [] at hc
          split at hc
          · cases hc
          · have hT := seq_static ctx thn _ sT outT deadT hcT (hw0.enter bt)
            have hbase := St.base_enter (s.drop 1) ⟨(s.drop 1).next, (s.drop 1).height, bt⟩ ((s.drop 1).next + 1)
            have hTtake := hT.take
            have hTlen := hT.len
            rw [hbase] at hTtake hTlen
            simp only [St.height, St.drop_stack, List.length_take, List.take_take, Nat.min_self] at hTtake hTlen
            have hmin : min (s.stack.length - 1) s.stack.length = s.stack.length - 1 := by omega
            rw [hmin] at hTtake hTlen
            simp only [Nat.min_self] at hTtake
            have hTnext := hT.next
            simp only [St.drop_next] at hTnext
            cases els with
            | none =>
              simp only [] at hc
              split at hc
              · cases hc
              · injection hc with hc
                simp only [Prod.mk.injEq] at hc
                obtain ⟨rfl, _, _⟩ := hc
                refine Static.simple hw (by simp) (by simp; omega) (s.stack.length - 1) bt.toList (by omega) (by omega) ?_
                  (Nat.le_trans hT.declMono (St.endBlock_declLen_ge _ _ _ _)) (endBlock_decl _ _ _ _ hT.wf.decl)
                simp [St.height, hmin, hTtake]
            | some els =>
              simp only [] at hc
              split at hc
              · cases hc
              · rename_i res2 hcE
                obtain ⟨sE, outE, deadE⟩ := res2
                simp only [] at hc
                split at hc
                · cases hc
                · injection hc with hc
                  simp only [Prod.mk.injEq] at hc
                  obtain ⟨rfl, _, _⟩ := hc
                  have hbT : sT.base = s.stack.length - 1 := by rw [hT.base, hbase]; simp [St.height, hmin]
                  have hwE0 : WF { sT with stack := sT.stack.take (s.drop 1).height } :=
                    hT.wf.of_same rfl (Nat.le_refl _) (by simp [St.height, hmin, hbT]; omega)
                      (by have := hT.wf.decl; simp only [List.length_take]; omega)
                  have hE := seq_static ctx els _ sE outE deadE hcE hwE0
                  have hbE0 : ({ sT with stack := sT.stack.take (s.drop 1).height } : St).base = s.stack.length - 1 := by
                    rw [← hbT]; rfl
                  have hEtake := hE.take
                  rw [hbE0] at hEtake
                  simp only [St.height, St.drop_stack, List.length_take, hmin, List.take_take, Nat.min_self, hTtake] at hEtake
                  have hEnext := hE.next
                  simp only [] at hEnext
                  refine Static.simple hw (by simp) (by simp; omega) (s.stack.length - 1) bt.toList (by omega) (by omega) ?_
                    (Nat.le_trans hT.declMono (Nat.le_trans hE.declMono (St.endBlock_declLen_ge _ _ _ _))) (endBlock_decl _ _ _ _ hE.wf.decl)
                  simp [St.height, hmin, hEtake]
end
end W2c2Verif.Sim
