/-
  Lemmas.Files — facts about the interpreters of Model.Files (character tests, scan loop, glob,
  decimal formatting).  Generic in the Gen data where possible; the lemmas that mention
  `Gen.Files.cleanSteps` / `globPattern` / `implFormat` re-check against the regenerated source.
-/
import W2c2Verif.Model.Files

namespace W2c2Verif.Lemmas.Files
open W2c2Verif W2c2Verif.Model.Files W2c2Verif.Gen.Files

/-! ## characters -/

theorem toNat_toUInt8 (n : Nat) (h : n < 256) : (n.toUInt8).toNat = n := by
  simp [Nat.toUInt8]; omega

theorem charVal_eq_ascii (sg : Bool) (c : UInt8) (k : Nat) (hk : k < 128) :
    charVal sg c = (k : Int) ↔ c.toNat = k := by
  have := c.toNat_lt
  unfold charVal
  constructor
  · intro h
    split at h <;> simp_all <;> omega
  · intro h
    split <;> simp_all <;> omega

theorem charVal_lt_ascii (sg : Bool) (c : UInt8) (k : Nat) (hk : k ≤ 128) :
    charVal sg c < (k : Int) ↔ (c.toNat < k ∨ (sg = true ∧ 128 ≤ c.toNat)) := by
  have := c.toNat_lt
  unfold charVal
  cases sg <;> simp <;> split <;> omega

theorem charVal_gt_ascii (sg : Bool) (c : UInt8) (k : Nat) (hk : k < 128) :
    charVal sg c > (k : Int) ↔ (k < c.toNat ∧ (sg = false ∨ c.toNat < 128)) := by
  have := c.toNat_lt
  unfold charVal
  cases sg <;> simp <;> split <;> omega

theorem eq_of_toNat (c : UInt8) (k : Nat) (hk : k < 256) (h : c.toNat = k) : c = k.toUInt8 := by
  apply UInt8.toNat_inj.mp
  rw [toNat_toUInt8 k hk]; exact h

/-- the digit test of the C source (`c < '0' || c > '9'`) is the negation of `isDigit`,
    whatever the signedness of `char` -/
theorem notDigit_cond (sg : Bool) (c : UInt8) :
    evalCond sg (.or (.cmp .lt 48) (.cmp .gt 57)) c = !isDigit c := by
  have := c.toNat_lt
  have h1 := charVal_lt_ascii sg c 48 (by omega)
  have h2 := charVal_gt_ascii sg c 57 (by omega)
  simp only [evalCond, cmpInt, isDigit]
  by_cases a : charVal sg c < ((48 : Nat) : Int) <;> by_cases b : charVal sg c > ((57 : Nat) : Int)
    <;> simp only [a, b, decide_true, decide_false, Bool.or_self, Bool.or_true, Bool.or_false]
    <;> cases sg <;> simp_all <;> omega

/-- the first-character test (`c != 'd' && c != 's'`) -/
theorem firstChar_cond (sg : Bool) (c : UInt8) :
    evalCond sg (.and (.cmp .ne 100) (.cmp .ne 115)) c = !(decide (c = 100) || decide (c = 115)) := by
  have h1 := charVal_eq_ascii sg c 100 (by omega)
  have h2 := charVal_eq_ascii sg c 115 (by omega)
  have e1 : (c = 100) ↔ c.toNat = 100 := ⟨fun h => by rw [h]; rfl, fun h => UInt8.toNat_inj.mp (by simpa using h)⟩
  have e2 : (c = 115) ↔ c.toNat = 115 := ⟨fun h => by rw [h]; rfl, fun h => UInt8.toNat_inj.mp (by simpa using h)⟩
  simp only [evalCond, cmpInt]
  by_cases a : c.toNat = 100 <;> by_cases b : c.toNat = 115 <;> simp_all

/-! ## charAt / scan -/

theorem charAt_lt (name : Name) (i : Nat) (h : i < name.length) : charAt name i = .val name[i] := by
  simp [charAt, List.getElem?_eq_getElem h]

/-- the scan loop with `<`: inside the string it is `List.any` over the index range -/
theorem scan_lt (sg : Bool) (name : Name) (c : CharCond) (bound : Nat) (hb : bound ≤ name.length) :
    ∀ (f i : Nat), bound - i < f →
      scan sg name c .lt bound f i = .val (((name.drop i).take (bound - i)).any (evalCond sg c)) := by
  intro f
  induction f with
  | zero => intro i h; omega
  | succ f ih =>
    intro i h
    unfold scan
    by_cases hi : i < bound
    · have hlt : i < name.length := by omega
      have hc : cmpInt .lt (i : Int) (bound : Int) = true := by simp [cmpInt]; omega
      rw [if_pos hc, charAt_lt name i hlt]
      have hd : name.drop i = name[i] :: name.drop (i + 1) := by
        rw [List.drop_eq_getElem_cons hlt]
      have hk : bound - i = (bound - (i + 1)) + 1 := by omega
      rw [hd, hk, List.take_succ_cons, List.any_cons]
      by_cases hev : evalCond sg c name[i] = true
      · simp [hev]
      · have : evalCond sg c name[i] = false := by simpa using hev
        simp only [this, Bool.false_or]
        rw [ih (i + 1) (by omega)]
        simp
    · have hc : cmpInt .lt (i : Int) (bound : Int) = false := by simp [cmpInt]; omega
      rw [hc]
      have : bound - i = 0 := by omega
      simp [this]

/-! ## glob -/

theorem starMatch_iff (k : Name → Bool) (n : Name) :
    starMatch k n = true ↔ ∃ pre suf, n = pre ++ suf ∧ k suf = true := by
  induction n with
  | nil =>
    simp only [starMatch]
    constructor
    · intro h; exact ⟨[], [], rfl, h⟩
    · rintro ⟨pre, suf, h, hk⟩
      have : suf = [] := by
        have := congrArg List.length h; simp at this; exact List.eq_nil_of_length_eq_zero (by omega)
      rw [this] at hk; exact hk
  | cons c n ih =>
    simp only [starMatch, Bool.or_eq_true, ih]
    constructor
    · rintro (h | ⟨pre, suf, h, hk⟩)
      · exact ⟨[], c :: n, rfl, h⟩
      · exact ⟨c :: pre, suf, by rw [h]; rfl, hk⟩
    · rintro ⟨pre, suf, h, hk⟩
      cases pre with
      | nil => left; simp at h; rw [h]; exact hk
      | cons p pre =>
        right
        simp at h
        exact ⟨pre, suf, h.2, hk⟩

theorem byte_eq_iff (c : UInt8) (k : Nat) (hk : k < 256) : c.toNat = k ↔ c = k.toUInt8 :=
  ⟨eq_of_toNat c k hk, fun h => by rw [h]; exact toNat_toUInt8 k hk⟩

/-- the extracted pattern `*.c` matches exactly the names with suffix `.c` … -/
theorem globCore_pattern (name : Name) :
    globCore globPattern name = true ↔ ∃ pre, name = pre ++ [46, 99] := by
  simp only [globPattern, globCore, starMatch_iff]
  constructor
  · rintro ⟨pre, suf, h, hk⟩
    refine ⟨pre, ?_⟩
    match suf, hk with
    | [a, b], hk =>
      simp only [List.isEmpty_nil, Bool.and_true, Bool.and_eq_true, decide_eq_true_eq] at hk
      have ha := (byte_eq_iff a 46 (by omega)).mp hk.1
      have hb := (byte_eq_iff b 99 (by omega)).mp hk.2
      rw [h, ha, hb]; rfl
    | [], hk => simp at hk
    | [_], hk => simp at hk
    | _ :: _ :: _ :: _, hk => simp at hk
  · rintro ⟨pre, h⟩
    exact ⟨pre, [46, 99], h, by decide⟩

/-- … and (no GLOB_PERIOD) never a name that starts with a period -/
theorem leadingPeriodOk_pattern (name : Name) :
    leadingPeriodOk globPattern name = true ↔ ∀ c rest, name = c :: rest → c ≠ 46 := by
  cases name with
  | nil => simp [leadingPeriodOk]
  | cons c rest =>
    simp only [leadingPeriodOk, globPattern]
    constructor
    · intro h c' rest' e
      simp at e
      rw [← e.1]
      intro hc
      rw [hc] at h
      simp at h
    · intro h
      have := h c rest rfl
      have hne : ¬ c.toNat = 46 := fun hc => this (UInt8.toNat_inj.mp (by simpa using hc))
      simp [hne]

/-! ## decimal formatting -/

theorem digitByte_isDigit (d : Nat) : isDigit (digitByte d) = true := by
  have h : (digitByte d).toNat = 48 + d % 10 := by
    unfold digitByte; rw [toNat_toUInt8]; omega
  simp [isDigit, h]; omega

theorem decRev_digits : ∀ (f n : Nat), ∀ d ∈ decRev f n, isDigit d = true := by
  intro f
  induction f with
  | zero => intro n d h; simp [decRev] at h
  | succ f ih =>
    intro n d h
    unfold decRev at h
    split at h
    · simp at h; rw [h]; exact digitByte_isDigit n
    · simp at h
      rcases h with h | h
      · rw [h]; exact digitByte_isDigit _
      · exact ih _ d h

theorem decRev_length : ∀ (k f n : Nat), n < 10 ^ (k + 1) → (decRev f n).length ≤ k + 1 := by
  intro k
  induction k with
  | zero =>
    intro f n h
    cases f with
    | zero => simp [decRev]
    | succ f => unfold decRev; simp at h; simp [h]
  | succ k ih =>
    intro f n h
    cases f with
    | zero => simp [decRev]
    | succ f =>
      unfold decRev
      split
      · simp
      · simp only [List.length_cons]
        have : n / 10 < 10 ^ (k + 1) := by
          rw [Nat.div_lt_iff_lt_mul (by omega)]
          rw [Nat.pow_succ] at h; exact h
        have := ih f (n / 10) this
        omega

theorem decimal_digits (n : Nat) : ∀ d ∈ decimal n, isDigit d = true := by
  intro d h
  unfold decimal at h
  rw [List.mem_reverse] at h
  exact decRev_digits _ _ d h

theorem decimal_length_u32 (n : Nat) (h : n < 2 ^ 32) : (decimal n).length ≤ 10 := by
  unfold decimal
  rw [List.length_reverse]
  exact decRev_length 9 _ n (by omega)

theorem padLeft_length (w : Nat) (fill : UInt8) (l : List UInt8) (h : l.length ≤ w) :
    (padLeft w fill l).length = w := by
  simp [padLeft]; omega

theorem padLeft_digits (w : Nat) (l : List UInt8) (h : ∀ d ∈ l, isDigit d = true) :
    ∀ d ∈ padLeft w 48 l, isDigit d = true := by
  intro d hd
  simp only [padLeft, List.mem_append, List.mem_replicate] at hd
  rcases hd with ⟨_, rfl⟩ | hd
  · decide
  · exact h d hd

end W2c2Verif.Lemmas.Files
