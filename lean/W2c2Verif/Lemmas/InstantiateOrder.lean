/-
  Lemmas.InstantiateOrder — the call sequence extracted from `wasmCWriteInstantiateFunction` (Gen.instantiateSteps,
  with the guard of every call and of every Init* definition) performs all four initialisations and then the start
  function: a guard is false only when its step would do nothing.
-/
import W2c2Verif.Lemmas.InstantiateSteps2

namespace W2c2Verif.Model.Inst
open W2c2Verif Spec.Inst Gen

theorem foldM'_inv {σ α} (f : σ → α → Out σ) (P : σ → Prop) (hstep : ∀ s x s', f s x = .val s' → P s → P s') :
    ∀ (xs : List α) (s s' : σ), foldM' f s xs = .val s' → P s → P s' := by
  intro xs
  induction xs with
  | nil => intro s s' h hp; simp [foldM'] at h; subst h; exact hp
  | cons x rest ih =>
    intro s s' h hp
    simp only [foldM'] at h
    cases hx : f s x with
    | val s1 => rw [hx] at h; exact ih s1 s' (by simpa using h) (hstep s x s1 hx hp)
    | trap t => rw [hx] at h; simp at h
    | ub k => rw [hx] at h; simp at h
    | oof => rw [hx] at h; simp at h

theorem loadData_inst (d : ModDesc) (s s' : St) (seg : DataSeg) (h : loadData d s seg = .val s') : s'.2 = s.2 := by
  unfold loadData at h
  cases hr : resData d s.1.globals s.2 seg with
  | val x =>
    rw [hr] at h
    cases x with
    | none => simp at h; rw [← h]
    | some x =>
      simp only [Out.bind_val] at h
      cases hw : heapWrite s.1.mems x.1 x.2.1 x.2.2 with
      | val ms => rw [hw] at h; simp at h; rw [← h]
      | trap t => rw [hw] at h; simp at h
      | ub k => rw [hw] at h; simp at h
      | oof => rw [hw] at h; simp at h
  | trap t => rw [hr] at h; simp at h
  | ub k => rw [hr] at h; simp at h
  | oof => rw [hr] at h; simp at h

theorem storeElems_inst (d : ModDesc) (s s' : St) (seg : ElemSegD) (h : storeElems d s seg = .val s') : s'.2 = s.2 := by
  unfold storeElems at h
  cases hr : resElem d s.1.globals s.2 seg with
  | val x =>
    rw [hr] at h
    simp only [Out.bind_val] at h
    cases hw : heapWrite s.1.tables x.1 x.2.1 x.2.2 with
    | val ms => rw [hw] at h; simp at h; rw [← h]
    | trap t => rw [hw] at h; simp at h
    | ub k => rw [hw] at h; simp at h
    | oof => rw [hw] at h; simp at h
  | trap t => rw [hr] at h; simp at h
  | ub k => rw [hr] at h; simp at h
  | oof => rw [hr] at h; simp at h

theorem initMemories_inst (d : ModDesc) (s s' : St) (h : initMemories d s = .val s') :
    s'.2.tables = s.2.tables ∧ s'.2.globals = s.2.globals := by
  unfold initMemories at h
  have := foldM'_inv (loadData d) (fun t : St => t.2.tables = s.2.tables ∧ t.2.globals = s.2.globals)
    (fun a x b hx hp => by rw [loadData_inst d a b x hx]; exact hp) _ _ _ h ⟨rfl, rfl⟩
  exact this

theorem initTables_inst (d : ModDesc) (s s' : St) (h : initTables d s = .val s') : s'.2.globals = s.2.globals := by
  unfold initTables at h
  exact foldM'_inv (storeElems d) (fun t : St => t.2.globals = s.2.globals)
    (fun a x b hx hp => by rw [storeElems_inst d a b x hx]; exact hp) _ _ _ h rfl

theorem eq_nil_of_length_not_pos {α} (l : List α) (h : ¬ l.length > 0) : l = [] := by
  cases l with
  | nil => rfl
  | cons x xs => simp at h

/-- the guarded call of InitMemories equals the unguarded one (on an instance without own memories yet) -/
theorem step_memories (d : ModDesc) (s : St) (hs : s.2.mems = []) :
    (if guardHolds d [.memDefined, .hasData] then (if guardHolds d [.memDefined, .hasData] then initMemories d s else .ub .unboundVar) else .val s) = initMemories d s := by
  by_cases hg : guardHolds d [.memDefined, .hasData] = true
  · simp [hg]
  · have h1 : d.mems = [] := eq_nil_of_length_not_pos _ (by intro h; apply hg; simp [guardHolds, atomHolds, h])
    have h2 : d.datas = [] := eq_nil_of_length_not_pos _ (by intro h; apply hg; simp [guardHolds, atomHolds, h])
    simp only [hg]
    obtain ⟨w, i⟩ := s
    simp only at hs
    cases i; simp_all [initMemories, foldM']

theorem step_tables (d : ModDesc) (s : St) (hs : s.2.tables = []) :
    (if guardHolds d [.tableDefined, .hasElems] then (if guardHolds d [.tableDefined, .hasElems] then initTables d s else .ub .unboundVar) else .val s) = initTables d s := by
  by_cases hg : guardHolds d [.tableDefined, .hasElems] = true
  · simp [hg]
  · have h1 : d.tables = [] := eq_nil_of_length_not_pos _ (by intro h; apply hg; simp [guardHolds, atomHolds, h])
    have h2 : d.elems = [] := eq_nil_of_length_not_pos _ (by intro h; apply hg; simp [guardHolds, atomHolds, h])
    simp only [hg]
    obtain ⟨w, i⟩ := s
    simp only at hs
    cases i; simp_all [initTables, foldM']

theorem step_globals (d : ModDesc) (s : St) (hs : s.2.globals = []) :
    (if guardHolds d [.globalsDefined] then (if guardHolds d [.globalsDefined] then initGlobals d s else .ub .unboundVar) else .val s) = initGlobals d s := by
  by_cases hg : guardHolds d [.globalsDefined] = true
  · simp [hg]
  · have h1 : d.globals = [] := eq_nil_of_length_not_pos _ (by intro h; apply hg; simp [guardHolds, atomHolds, h])
    simp only [hg]
    obtain ⟨w, i⟩ := s
    simp only at hs
    cases i; simp_all [initGlobals, foldM']

/-- the instance right after `InitImports` -/
def imp0 (d : ModDesc) (r : Resolver) : Instance :=
  { memImp := (List.range d.memImports).map r.mem
    tabImp := (List.range d.tableImports).map r.table
    globImp := (List.range d.globalImports).map r.global }

/-- `<module>Instantiate` as emitted = all initialisations in order, then the start function (if any), nothing after -/
theorem instantiate_eq (d : ModDesc) (r : Resolver) (start : St → Out St) (w : World) :
    instantiate d r start w = (initAll d r w >>= fun s => if d.hasStart then start s else .val s) := by
  unfold instantiate initAll runSteps
  have h0 : initImports d r (w, {}) = .val (w, imp0 d r) := rfl
  have bind_ret : ∀ (x : Out St), (x >>= fun s => Out.val s) = x := by intro x; cases x <;> rfl
  have e0 : runStep d r start (w, {}) ([.always], .imports) = .val (w, imp0 d r) := rfl
  have e1 : ∀ s : St, s.2.mems = [] → runStep d r start s ([.memDefined, .hasData], .memories) = initMemories d s :=
    fun s hs => step_memories d s hs
  have e2 : ∀ s : St, s.2.tables = [] → runStep d r start s ([.tableDefined, .hasElems], .tables) = initTables d s :=
    fun s hs => step_tables d s hs
  have e3 : ∀ s : St, s.2.globals = [] → runStep d r start s ([.globalsDefined], .globals) = initGlobals d s :=
    fun s hs => step_globals d s hs
  have e4 : ∀ s : St, runStep d r start s ([.hasStart], .start) = if d.hasStart then start s else .val s := by
    intro s
    show (if guardHolds d [.hasStart] then (if guardHolds d [.always] then start s else .ub .unboundVar) else .val s) = _
    have hstart : guardHolds d [.hasStart] = d.hasStart := by simp [guardHolds, atomHolds]
    have ga : guardHolds d [.always] = true := rfl
    simp [hstart, ga]
  simp only [Gen.instantiateSteps, foldM', e0, h0, Out.bind_val, e4]
  rw [e1 (w, imp0 d r) rfl]
  cases h1 : initMemories d (w, imp0 d r) with
  | val s1 =>
    obtain ⟨ht, hgl⟩ := initMemories_inst d _ s1 h1
    simp only [Out.bind_val]
    rw [e2 s1 (by rw [ht]; rfl)]
    cases h2 : initTables d s1 with
    | val s2 =>
      have hg2 := initTables_inst d s1 s2 h2
      simp only [Out.bind_val]
      rw [e3 s2 (by rw [hg2, hgl]; rfl)]
      cases h3 : initGlobals d s2 with
      | val s3 =>
        simp only [Out.bind_val]
        exact bind_ret _
      | trap t => rfl
      | ub k => rfl
      | oof => rfl
    | trap t => rfl
    | ub k => rfl
    | oof => rfl
  | trap t => rfl
  | ub k => rfl
  | oof => rfl

end W2c2Verif.Model.Inst
