/-
  Lemmas.FloatBits — the field accessors of the soft-float (`SF.expOf`, `fracOf`, `signOf`,
  `isNaN`, on natural-number bit patterns) expressed as bit-vector predicates, so that
  classification facts can be decided by `bv_decide`.
-/
import W2c2Verif.CSem.Float
import Std.Tactic.BVDecide

namespace W2c2Verif.SF

theorem and_toNat32 (b : BitVec 32) (m : Nat) (h : m < 2 ^ 32) : b.toNat &&& m = (b &&& BitVec.ofNat 32 m).toNat := by
  simp [BitVec.toNat_and, Nat.mod_eq_of_lt h]
theorem and_toNat64 (b : BitVec 64) (m : Nat) (h : m < 2 ^ 64) : b.toNat &&& m = (b &&& BitVec.ofNat 64 m).toNat := by
  simp [BitVec.toNat_and, Nat.mod_eq_of_lt h]

theorem toNat_eq_lit32 (x : BitVec 32) (n : Nat) (h : n < 2 ^ 32) : x.toNat = n ↔ x = BitVec.ofNat 32 n := by
  constructor
  · intro e; apply BitVec.eq_of_toNat_eq; simp [e, Nat.mod_eq_of_lt h]
  · intro e; subst e; simp [Nat.mod_eq_of_lt h]
theorem toNat_eq_lit64 (x : BitVec 64) (n : Nat) (h : n < 2 ^ 64) : x.toNat = n ↔ x = BitVec.ofNat 64 n := by
  constructor
  · intro e; apply BitVec.eq_of_toNat_eq; simp [e, Nat.mod_eq_of_lt h]
  · intro e; subst e; simp [Nat.mod_eq_of_lt h]

theorem fracOf32 (b : BitVec 32) : fracOf f32 b.toNat = (b &&& 0x7fffff#32).toNat := by
  simp only [fracOf, f32, BitVec.toNat_and, BitVec.toNat_ofNat]
  rw [show (8388607 % 2 ^ 32) = 2 ^ 23 - 1 by decide, Nat.and_two_pow_sub_one_eq_mod]
theorem expOf32 (b : BitVec 32) : expOf f32 b.toNat = ((b >>> 23) &&& 0xff#32).toNat := by
  simp only [expOf, f32, BitVec.toNat_and, BitVec.toNat_ofNat, BitVec.toNat_ushiftRight, Nat.shiftRight_eq_div_pow]
  rw [show (255 % 2 ^ 32) = 2 ^ 8 - 1 by decide, Nat.and_two_pow_sub_one_eq_mod]
theorem fracOf64 (b : BitVec 64) : fracOf f64 b.toNat = (b &&& 0xfffffffffffff#64).toNat := by
  simp only [fracOf, f64, BitVec.toNat_and, BitVec.toNat_ofNat]
  rw [show (4503599627370495 % 2 ^ 64) = 2 ^ 52 - 1 by decide, Nat.and_two_pow_sub_one_eq_mod]
theorem expOf64 (b : BitVec 64) : expOf f64 b.toNat = ((b >>> 52) &&& 0x7ff#64).toNat := by
  simp only [expOf, f64, BitVec.toNat_and, BitVec.toNat_ofNat, BitVec.toNat_ushiftRight, Nat.shiftRight_eq_div_pow]
  rw [show (2047 % 2 ^ 64) = 2 ^ 11 - 1 by decide, Nat.and_two_pow_sub_one_eq_mod]

/-- NaN of binary32: exponent all ones and a non-zero significand -/
theorem isNaN32_iff (b : BitVec 32) :
    isNaN f32 b.toNat = true ↔ (b &&& 0x7f800000#32 = 0x7f800000#32 ∧ b &&& 0x7fffff#32 ≠ 0#32) := by
  simp only [isNaN, Bool.and_eq_true, beq_iff_eq, bne_iff_ne, expOf32, fracOf32]
  have e : f32.expMax = (0xff#32).toNat := by decide
  rw [e, BitVec.toNat_inj]
  have z : (0 : Nat) = (0#32).toNat := by decide
  rw [z, Ne, BitVec.toNat_inj]
  constructor <;> intro ⟨h1, h2⟩ <;> refine ⟨?_, h2⟩ <;> bv_decide

theorem isNaN64_iff (b : BitVec 64) :
    isNaN f64 b.toNat = true ↔ (b &&& 0x7ff0000000000000#64 = 0x7ff0000000000000#64 ∧ b &&& 0xfffffffffffff#64 ≠ 0#64) := by
  simp only [isNaN, Bool.and_eq_true, beq_iff_eq, bne_iff_ne, expOf64, fracOf64]
  have e : f64.expMax = (0x7ff#64).toNat := by decide
  rw [e, BitVec.toNat_inj]
  have z : (0 : Nat) = (0#64).toNat := by decide
  rw [z, Ne, BitVec.toNat_inj]
  constructor <;> intro ⟨h1, h2⟩ <;> refine ⟨?_, h2⟩ <;> bv_decide

end W2c2Verif.SF
