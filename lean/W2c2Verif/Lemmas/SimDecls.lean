/-
  Lemmas.SimDecls — every slot variable the emitted statements mention is declared (C11: the output compiles).
-/
import W2c2Verif.Lemmas.SimStatic
set_option linter.unusedSimpArgs false
set_option linter.unusedVariables false
namespace W2c2Verif.Sim
open W2c2Verif Model Gen Spec

def cpSlots : Option (Slot × Slot) → List Slot
  | none => []
  | some (d, s) => [d, s]

mutual
/-- every slot variable a statement mentions -/
def slotsStmt : MStmtC → List Slot
  | .num opcode k t1 i1 t0 i0 => (numSlots opcode k t1 i1 t0 i0).1 :: (numSlots opcode k t1 i1 t0 i0).2
  | .const d _ => [d]
  | .localGet d _ => [d]
  | .localSet _ s => [s]
  | .globalGet d _ => [d]
  | .globalSet _ s => [s]
  | .select d c a b => [d, c, a, b]
  | .load d _ a _ => [d, a]
  | .store _ a _ v => [a, v]
  | .memSize d => [d]
  | .memGrow d s => [d, s]
  | .memCopy d s n => [d, s, n]
  | .memFill d v n => [d, v, n]
  | .memInit _ d s n => [d, s, n]
  | .rmw dst _ a _ args => dst.toList ++ a :: args
  | .notify dst a _ c => [dst, a, c]
  | .wait dst a _ e t _ => [dst, a, e, t]
  | .fence => []
  | .call res _ args => res.toList ++ args
  | .callIndirect res _ _ idx args => res.toList ++ idx :: args
  | .goto cp _ => cpSlots cp
  | .ifGoto c cp _ => c :: cpSlots cp
  | .switchGoto c cases dflt => c :: (cases.flatMap fun x => cpSlots x.1) ++ cpSlots dflt.1
  | .block body _ => slotsSeq body
  | .loop _ body => slotsSeq body
  | .ifElse c thn els _ => c :: slotsSeq thn ++ (match els with | some e => slotsSeq e | none => [])
  | .unreachable => []
def slotsSeq : List MStmtC → List Slot
  | [] => []
  | s :: rest => slotsStmt s ++ slotsSeq rest
end

/-- every operand on the type stack lives in a declared slot variable -/
def DeclCover (s : St) : Prop := ∀ k (h : k < s.stack.length), (⟨s.stack[k], k⟩ : Slot) ∈ s.decls

theorem mem_declare_self (s : St) (sl : Slot) : sl ∈ (s.declare sl).decls := by
  unfold St.declare
  simp only []
  split
  · rename_i h; simpa using h
  · simp

theorem mem_declare_of_mem {s : St} {x : Slot} (sl : Slot) (h : x ∈ s.decls) : x ∈ (s.declare sl).decls := by
  unfold St.declare
  simp only []
  split
  · exact h
  · simp [h]

@[simp] theorem St.push_decls (s : St) (t : VT) : (s.push t).decls = s.decls := rfl
@[simp] theorem St.drop_decls (s : St) (n : Nat) : (s.drop n).decls = s.decls := rfl

theorem DeclCover.top {s : St} (h : DeclCover s) {k : Nat} {sl : Slot} (ht : s.top k = some sl) : sl ∈ s.decls := by
  obtain ⟨t1, t2, t3⟩ := St.top_spec ht
  have hi : s.stack.length - 1 - k < s.stack.length := by omega
  have := h _ hi
  rw [List.getElem?_eq_getElem hi] at t3
  injection t3 with t3
  have e : sl = ⟨s.stack[s.stack.length - 1 - k], s.stack.length - 1 - k⟩ := by cases sl; simp_all
  rw [e]; exact this

/-- the general shape: keep the lowest `k` entries, push `extra` whose slots are declared -/
theorem DeclCover.replace {s s' : St} (h : DeclCover s) (hsub : ∀ x ∈ s.decls, x ∈ s'.decls) (k : Nat) (extra : List VT)
    (hs : s'.stack = s.stack.take k ++ extra) (hk : k ≤ s.stack.length)
    (hex : ∀ j (hj : j < extra.length), (⟨extra[j], k + j⟩ : Slot) ∈ s'.decls) : DeclCover s' := by
  intro i hi
  simp only [hs] at hi ⊢
  by_cases hlt : i < k
  · have h1 : (s.stack.take k ++ extra)[i]'hi = s.stack[i]'(by omega) := by
      rw [List.getElem_append_left (by simp; omega)]; simp
    rw [h1]; exact hsub _ (h i (by omega))
  · have hlen : (s.stack.take k).length = k := by simp; omega
    have h1 : (s.stack.take k ++ extra)[i]'hi = extra[i - k]'(by simp at hi; omega) := by
      rw [List.getElem_append_right (by rw [hlen]; omega)]; simp [hlen]
    rw [h1]
    have := hex (i - k) (by simp at hi; omega)
    have e : k + (i - k) = i := by omega
    rw [e] at this; exact this

@[simp] theorem Slot.eta' (s : Slot) : (⟨s.ty, s.idx⟩ : Slot) = s := rfl

theorem DeclCover.pop {s s' : St} (h : DeclCover s) (hsub : ∀ x ∈ s.decls, x ∈ s'.decls) (k : Nat)
    (hs : s'.stack = s.stack.take k) (hk : k ≤ s.stack.length) : DeclCover s' :=
  h.replace hsub k [] (by simp [hs]) hk (fun j hj => absurd hj (Nat.not_lt_zero _))

theorem DeclCover.popPush {s s' : St} (h : DeclCover s) (hsub : ∀ x ∈ s.decls, x ∈ s'.decls) (k : Nat) (rt : VT)
    (hs : s'.stack = s.stack.take k ++ [rt]) (hk : k ≤ s.stack.length) (hd : (⟨rt, k⟩ : Slot) ∈ s'.decls) : DeclCover s' :=
  h.replace hsub k [rt] hs hk (fun j hj => by
    have : j = 0 := by simpa using hj
    subst this; simpa using hd)

theorem DeclCover.push1 {s s' : St} (h : DeclCover s) (hsub : ∀ x ∈ s.decls, x ∈ s'.decls) (t : VT)
    (hs : s'.stack = s.stack ++ [t]) (hd : (⟨t, s.stack.length⟩ : Slot) ∈ s'.decls) : DeclCover s' :=
  h.popPush hsub s.stack.length t (by simp [hs]) (Nat.le_refl _) hd

theorem DeclCover.same {s s' : St} (h : DeclCover s) (hsub : ∀ x ∈ s.decls, x ∈ s'.decls) (hs : s'.stack = s.stack) : DeclCover s' :=
  h.pop hsub s.stack.length (by simp [hs]) (Nat.le_refl _)

structure DeclStep (s s' : St) (out : List MStmtC) : Prop where
  cover : DeclCover s'
  mono : ∀ x ∈ s.decls, x ∈ s'.decls
  uses : ∀ sl ∈ slotsSeq out, sl ∈ s'.decls

theorem slotsSeq_append (a b : List MStmtC) : slotsSeq (a ++ b) = slotsSeq a ++ slotsSeq b := by
  induction a with
  | nil => simp [slotsSeq]
  | cons x xs ih => simp [slotsSeq, ih]

theorem DeclStep.refl {s : St} (h : DeclCover s) : DeclStep s s [] := ⟨h, fun _ hx => hx, fun sl hsl => by simp [slotsSeq] at hsl⟩

theorem DeclStep.trans {s s1 s2 : St} {o1 o2 : List MStmtC} (h1 : DeclStep s s1 o1) (h2 : DeclStep s1 s2 o2) : DeclStep s s2 (o1 ++ o2) :=
  ⟨h2.cover, fun x hx => h2.mono x (h1.mono x hx), fun sl hsl => by
    rw [slotsSeq_append, List.mem_append] at hsl
    rcases hsl with h | h
    · exact h2.mono _ (h1.uses sl h)
    · exact h2.uses sl h⟩

set_option hygiene false in
macro "decl_facts" : tactic => `(tactic| (
  try have t0 := St.top_spec ‹s.top 0 = some _›
  try have t1 := St.top_spec ‹s.top 1 = some _›
  try have t2 := St.top_spec ‹s.top 2 = some _›
  try have m0 := hd.top ‹s.top 0 = some _›
  try have m1 := hd.top ‹s.top 1 = some _›
  try have m2 := hd.top ‹s.top 2 = some _›))

set_option hygiene false in
macro "decl_mem" : tactic => `(tactic| (
  try simp only [St.push_decls, St.drop_decls, St.height, St.declare_stack, St.push_stack, St.drop_stack] at *
  first
  | assumption
  | exact mem_declare_self _ _
  | (apply mem_declare_of_mem; assumption)
  | (try (obtain ⟨_, e0, _⟩ := t0)
     try (obtain ⟨_, e1, _⟩ := t1)
     try (obtain ⟨_, e2, _⟩ := t2)
     simp only [*, Nat.sub_sub, Nat.reduceAdd, Nat.sub_zero, Nat.add_zero] at *
     first
     | exact mem_declare_self _ _
     | (apply mem_declare_of_mem; assumption)
     | assumption)
  | (simp [slotsSeq, slotsStmt, numSlots, cpSlots, mem_declare_self, mem_declare_of_mem, *]; done)))

set_option hygiene false in
/-- closes the `.ok` branch of a non-control instruction -/
macro "decl_fin" : tactic => `(tactic| (
  injection hc with hc
  simp only [Prod.mk.injEq] at hc
  obtain ⟨rfl, rfl, _⟩ := hc
  decl_facts
  refine ⟨?_, ?_, ?_⟩
  · first
    | exact hd
    | (refine DeclCover.push1 hd ?_ _ rfl ?_ <;> (try intro x hx) <;> decl_mem)
    | (refine DeclCover.popPush hd ?_ _ _ rfl ?_ ?_ <;> (try intro x hx) <;> first | decl_mem | (simp only [St.height, St.declare_stack] at *; omega) | skip)
    | (refine DeclCover.pop hd ?_ _ rfl ?_ <;> (try intro x hx) <;> first | decl_mem | (simp only [St.height, St.declare_stack] at *; omega))
    | (refine DeclCover.same hd ?_ rfl <;> (try intro x hx) <;> decl_mem)
  · intro x hx; decl_mem
  · try simp only [slotsSeq, slotsStmt, numSlots, cpSlots, List.mem_append, List.mem_cons, List.mem_nil_iff, or_false, false_or, List.not_mem_nil,
      Option.toList, Slot.eta', forall_eq_or_imp, forall_eq, List.append_nil, List.nil_append, false_imp_iff, implies_true, and_true]
    repeat' (apply And.intro)
    all_goals first | decl_mem | (intro sl hsl; simp [slotsSeq] at hsl; done) | skip))

set_option hygiene false in
macro "decl_simple" : tactic => `(tactic| (
  simp only [compileInstr, bind, Except.bind] at hc
  repeat' (split at hc)
  all_goals (first | (cases hc; done) | decl_fin)))

theorem args_declared {s : St} (hd : DeclCover s) (params : List Wasm.VT) (b : Nat)
    (ht : (s.stack.drop b).take params.length = params.map vtOfW) :
    ∀ a ∈ (params.zipIdx.map fun (tk : Wasm.VT × Nat) => (⟨vtOfW tk.1, b + tk.2⟩ : Slot)), a ∈ s.decls := by
  intro a ha
  simp only [List.mem_map] at ha
  obtain ⟨⟨t, k⟩, hm, rfl⟩ := ha
  have hk := List.mem_zipIdx hm
  obtain ⟨_, hk1, hk2⟩ := hk
  simp only [Nat.zero_add, Nat.sub_zero] at hk1 hk2
  have hlen : ((s.stack.drop b).take params.length).length = params.length := by rw [ht]; simp
  have hb : b + k < s.stack.length := by
    simp only [List.length_take, List.length_drop] at hlen; omega
  have := congrArg (fun l => l[k]?) ht
  simp only [List.getElem?_take, hk1, if_true, List.getElem?_drop, List.getElem?_map] at this
  rw [List.getElem?_eq_getElem hb, List.getElem?_eq_getElem hk1] at this
  simp only [Option.map_some, Option.some.injEq] at this
  have hd' := hd (b + k) hb
  rw [this] at hd'
  rw [hk2]; exact hd'

theorem gotoCopy_decls {s s' : St} {lab : Label} {cp : Option (Slot × Slot)} (hd : DeclCover s) (h : gotoCopy s lab = some (s', cp)) :
    (∀ x ∈ s.decls, x ∈ s'.decls) ∧ (∀ sl ∈ cpSlots cp, sl ∈ s'.decls) := by
  unfold gotoCopy at h
  split at h
  · cases h; exact ⟨fun x hx => hx, fun sl hsl => by simp [cpSlots] at hsl⟩
  · split at h
    · cases h
    · rename_i src hsrc
      have msrc := hd.top hsrc
      split at h
      · cases h
      · split at h
        · cases h
          refine ⟨fun x hx => mem_declare_of_mem _ hx, fun sl hsl => ?_⟩
          simp only [cpSlots, List.mem_cons, List.mem_nil_iff, or_false] at hsl
          rcases hsl with rfl | rfl
          · exact mem_declare_self _ _
          · exact mem_declare_of_mem _ msrc
        · cases h; exact ⟨fun x hx => hx, fun sl hsl => by simp [cpSlots] at hsl⟩

theorem DeclCover.drop1 {s : St} (hd : DeclCover s) (n : Nat) : DeclCover (s.drop n) :=
  hd.pop (fun x hx => hx) (s.stack.length - n) rfl (Nat.sub_le _ _)

theorem brTable_fold_decls (ls : List Nat) : ∀ (s0 : St) (cs : List (Option (Slot × Slot) × Nat)) (s1 : St) (cases : List (Option (Slot × Slot) × Nat)),
    ls.foldl brTableStep (.ok (s0, cs)) = .ok (s1, cases) → DeclCover s0 → (∀ x ∈ cs, ∀ sl ∈ cpSlots x.1, sl ∈ s0.decls) →
    DeclCover s1 ∧ (∀ x ∈ s0.decls, x ∈ s1.decls) ∧ (∀ x ∈ cases, ∀ sl ∈ cpSlots x.1, sl ∈ s1.decls) := by
  induction ls with
  | nil => intro s0 cs s1 cases h hd hcs; simp at h; obtain ⟨rfl, rfl⟩ := h; exact ⟨hd, fun x hx => hx, hcs⟩
  | cons l rest ih =>
    intro s0 cs s1 cases h hd hcs
    simp only [List.foldl_cons] at h
    cases hstep : brTableStep (.ok (s0, cs)) l with
    | error e =>
      rw [hstep] at h
      have : ∀ (xs : List Nat), xs.foldl brTableStep (.error e) = .error e := by
        intro xs; induction xs with
        | nil => rfl
        | cons x xs ihx => simp only [List.foldl_cons]; exact ihx
      rw [this] at h; cases h
    | ok res =>
      obtain ⟨sa, ca⟩ := res
      rw [hstep] at h
      simp only [brTableStep, bind, Except.bind] at hstep
      cases hlab : s0.label l with
      | none => simp [hlab] at hstep
      | some lab =>
        cases hg : gotoCopy s0 lab with
        | none => simp [hlab, hg] at hstep
        | some r =>
          obtain ⟨sb, cp⟩ := r
          simp only [hlab, hg] at hstep
          injection hstep with hstep
          simp only [Prod.mk.injEq] at hstep
          obtain ⟨rfl, rfl⟩ := hstep
          obtain ⟨g1, g2⟩ := gotoCopy_decls hd hg
          have hsame := gotoCopy_same hg
          have hdb : DeclCover sb := hd.same g1 hsame.1
          obtain ⟨i1, i2, i3⟩ := ih sb _ s1 cases h hdb (by
            intro x hx sl hsl
            simp only [List.mem_append, List.mem_cons, List.mem_nil_iff, or_false] at hx
            rcases hx with hx | rfl
            · exact g1 _ (hcs x hx sl hsl)
            · exact g2 sl hsl)
          exact ⟨i1, fun x hx => i2 x (g1 x hx), i3⟩

theorem endBlock_decls_mono (sB : St) (h : Nat) (bt : Option VT) (ls : List Label) (x : Slot) (hx : x ∈ sB.decls) :
    x ∈ (sB.endBlock h bt ls).decls := by
  cases bt with
  | none => exact hx
  | some t => exact mem_declare_of_mem (s := { sB with stack := sB.stack.take h ++ [t], labels := ls }) _ hx

theorem endBlock_cover {sB : St} (hB : DeclCover sB) (h : Nat) (bt : Option VT) (ls : List Label) (hle : h ≤ sB.stack.length) :
    DeclCover (sB.endBlock h bt ls) := by
  cases bt with
  | none =>
    exact hB.pop (s' := sB.endBlock h none ls) (fun x hx => hx) h (by simp) hle
  | some t =>
    refine hB.popPush (s' := sB.endBlock h (some t) ls) (fun x hx => endBlock_decls_mono _ _ _ _ x hx) h t (by simp) hle ?_
    exact mem_declare_self (s := { sB with stack := sB.stack.take h ++ [t], labels := ls }) _

mutual
theorem seq_decls (ctx : Ctx) : ∀ (is : List EInstr) (s s' : St) (out : List MStmtC) (dead : Bool),
    compileSeq ctx s is = .ok (s', out, dead) → WF s → DeclCover s → DeclStep s s' out
  | [], s, s', out, dead, hc, hw, hd => by
    simp [compileSeq] at hc
    obtain ⟨rfl, rfl, _⟩ := hc
    exact DeclStep.refl hd
  | i :: rest, s, s', out, dead, hc, hw, hd => by
    simp only [compileSeq] at hc
    cases hci : compileInstr ctx s i with
    | error e => simp [hci, bind, Except.bind] at hc
    | ok res =>
      obtain ⟨s1, out1, dead1⟩ := res
      simp only [hci, bind, Except.bind] at hc
      have h1 := instr_decls ctx i s s1 out1 dead1 hci hw hd
      have hw1 := (instr_static ctx i s s1 out1 dead1 hci hw).wf
      cases dead1 with
      | true =>
        simp at hc
        obtain ⟨rfl, rfl, _⟩ := hc
        exact h1
      | false =>
        simp only [Bool.false_eq_true, if_false] at hc
        cases hcr : compileSeq ctx s1 rest with
        | error e => simp [hcr] at hc
        | ok res2 =>
          obtain ⟨s2, out2, dead2⟩ := res2
          simp only [hcr] at hc
          injection hc with hc
          simp only [Prod.mk.injEq] at hc
          obtain ⟨rfl, rfl, _⟩ := hc
          exact h1.trans (seq_decls ctx rest s1 s2 out2 dead2 hcr hw1 h1.cover)

theorem instr_decls (ctx : Ctx) : ∀ (i : EInstr) (s s' : St) (out : List MStmtC) (dead : Bool),
    compileInstr ctx s i = .ok (s', out, dead) → WF s → DeclCover s → DeclStep s s' out
  | .nop, s, s', out, dead, hc, hw, hd => by decl_simple
  | .unreachable, s, s', out, dead, hc, hw, hd => by decl_simple
  | .drop, s, s', out, dead, hc, hw, hd => by decl_simple
  | .const t bits, s, s', out, dead, hc, hw, hd => by decl_simple
  | .select, s, s', out, dead, hc, hw, hd => by decl_simple
  | .localGet k, s, s', out, dead, hc, hw, hd => by decl_simple
  | .localSet k, s, s', out, dead, hc, hw, hd => by decl_simple
  | .localTee k, s, s', out, dead, hc, hw, hd => by decl_simple
  | .numeric o, s, s', out, dead, hc, hw, hd => by decl_simple
  | .globalGet k, s, s', out, dead, hc, hw, hd => by decl_simple
  | .globalSet k, s, s', out, dead, hc, hw, hd => by decl_simple
  | .load o off, s, s', out, dead, hc, hw, hd => by decl_simple
  | .store o off, s, s', out, dead, hc, hw, hd => by decl_simple
  | .memorySize, s, s', out, dead, hc, hw, hd => by decl_simple
  | .memoryGrow, s, s', out, dead, hc, hw, hd => by decl_simple
  | .memoryCopy, s, s', out, dead, hc, hw, hd => by decl_simple
  | .memoryFill, s, s', out, dead, hc, hw, hd => by decl_simple
  | .memoryInit seg, s, s', out, dead, hc, hw, hd => by decl_simple
  | .dataDrop seg, s, s', out, dead, hc, hw, hd => by decl_simple
  | .atomicLoad o off, s, s', out, dead, hc, hw, hd => by decl_simple
  | .atomicStore o off, s, s', out, dead, hc, hw, hd => by decl_simple
  | .atomicRmw o off, s, s', out, dead, hc, hw, hd => by decl_simple
  | .atomicCmpxchg o off, s, s', out, dead, hc, hw, hd => by decl_simple
  | .atomicFence, s, s', out, dead, hc, hw, hd => by decl_simple
  | .atomicNotify off, s, s', out, dead, hc, hw, hd => by decl_simple
  | .atomicWait b off, s, s', out, dead, hc, hw, hd => by decl_simple
  | .call fn, s, s', out, dead, hc, hw, hd => by
    simp only [compileInstr, bind, Except.bind] at hc
    repeat' (split at hc)
    all_goals first | (cases hc; done) | skip
    all_goals (
      have hty := ‹¬ (s.stack.drop _ ≠ _)›
      simp only [Decidable.not_not, ne_eq] at hty
      have hge := ‹¬ (s.height < _)›
      have hargs := args_declared hd _ (s.height - _) (by rw [hty]; exact List.take_of_length_le (by simp))
      injection hc with hc
      simp only [Prod.mk.injEq] at hc
      obtain ⟨rfl, rfl, _⟩ := hc)
    · refine ⟨DeclCover.pop hd (fun x hx => hx) _ rfl (Nat.sub_le _ _), fun x hx => hx, ?_⟩
      intro sl hsl
      simp only [slotsSeq, slotsStmt, Option.toList, List.nil_append, List.append_nil] at hsl
      exact hargs sl hsl
    · refine ⟨DeclCover.popPush hd (fun x hx => mem_declare_of_mem _ hx) _ _ rfl (Nat.sub_le _ _) (mem_declare_self _ _), fun x hx => mem_declare_of_mem _ hx, ?_⟩
      intro sl hsl
      simp only [slotsSeq, slotsStmt, Option.toList, List.append_nil, List.mem_append, List.mem_cons, List.mem_nil_iff, or_false] at hsl
      rcases hsl with rfl | hsl
      · exact mem_declare_self _ _
      · exact mem_declare_of_mem _ (hargs sl hsl)
  | .callIndirect ty tbl, s, s', out, dead, hc, hw, hd => by
    simp only [compileInstr, bind, Except.bind] at hc
    repeat' (split at hc)
    all_goals first | (cases hc; done) | skip
    all_goals (
      have hty := ‹¬ (_ ∨ _)›
      simp only [not_or, Decidable.not_not, ne_eq] at hty
      have midx := hd.top ‹s.top 0 = some _›
      have hargs := args_declared hd _ (s.height - 1 - _) hty.1
      injection hc with hc
      simp only [Prod.mk.injEq] at hc
      obtain ⟨rfl, rfl, _⟩ := hc)
    · refine ⟨DeclCover.pop hd (fun x hx => hx) _ rfl (Nat.sub_le _ _), fun x hx => hx, ?_⟩
      intro sl hsl
      simp only [slotsSeq, slotsStmt, Option.toList, List.nil_append, List.append_nil, List.mem_cons] at hsl
      rcases hsl with rfl | hsl
      · exact midx
      · exact hargs sl hsl
    · refine ⟨DeclCover.popPush hd (fun x hx => mem_declare_of_mem _ hx) _ _ rfl (Nat.sub_le _ _) ?_, fun x hx => mem_declare_of_mem _ hx, ?_⟩
      · simp only [St.declare_stack, St.push_decls, St.drop_decls, St.height]
        rw [Nat.add_comm, Nat.sub_add_eq]
        exact mem_declare_self _ _
      · intro sl hsl
        simp only [slotsSeq, slotsStmt, Option.toList, List.append_nil, List.mem_append, List.mem_cons, List.mem_nil_iff, or_false] at hsl
        rcases hsl with rfl | rfl | hsl
        · exact mem_declare_self _ _
        · exact mem_declare_of_mem _ midx
        · exact mem_declare_of_mem _ (hargs sl hsl)
  | .br l, s, s', out, dead, hc, hw, hd => by
    simp only [compileInstr, bind, Except.bind] at hc
    repeat' (split at hc)
    all_goals first | (cases hc; done) | skip
    have hg := ‹gotoCopy _ _ = some _›
    injection hc with hc
    simp only [Prod.mk.injEq] at hc
    obtain ⟨rfl, rfl, _⟩ := hc
    obtain ⟨g1, g2⟩ := gotoCopy_decls hd hg
    exact ⟨hd.same g1 (gotoCopy_same hg).1, g1, fun sl hsl => by
      simp only [slotsSeq, slotsStmt, List.append_nil] at hsl; exact g2 sl hsl⟩
  | .ret, s, s', out, dead, hc, hw, hd => by
    simp only [compileInstr, bind, Except.bind] at hc
    repeat' (split at hc)
    all_goals first | (cases hc; done) | skip
    have hg := ‹gotoCopy _ _ = some _›
    injection hc with hc
    simp only [Prod.mk.injEq] at hc
    obtain ⟨rfl, rfl, _⟩ := hc
    obtain ⟨g1, g2⟩ := gotoCopy_decls hd hg
    exact ⟨hd.same g1 (gotoCopy_same hg).1, g1, fun sl hsl => by
      simp only [slotsSeq, slotsStmt, List.append_nil] at hsl; exact g2 sl hsl⟩
  | .brIf l, s, s', out, dead, hc, hw, hd => by
    simp only [compileInstr, bind, Except.bind] at hc
    repeat' (split at hc)
    all_goals first | (cases hc; done) | skip
    have hg := ‹gotoCopy _ _ = some _›
    have mc := hd.top ‹s.top 0 = some _›
    injection hc with hc
    simp only [Prod.mk.injEq] at hc
    obtain ⟨rfl, rfl, _⟩ := hc
    obtain ⟨g1, g2⟩ := gotoCopy_decls (hd.drop1 1) hg
    exact ⟨(hd.drop1 1).same g1 (gotoCopy_same hg).1, g1, fun sl hsl => by
      simp only [slotsSeq, slotsStmt, List.append_nil, List.mem_cons] at hsl
      rcases hsl with rfl | hsl
      · exact g1 _ mc
      · exact g2 sl hsl⟩
  | .brTable ls d, s, s', out, dead, hc, hw, hd => by
    simp only [compileInstr, bind, Except.bind] at hc
    repeat' (split at hc)
    all_goals first | (cases hc; done) | skip
    have hg := ‹gotoCopy _ _ = some _›
    have mc := hd.top ‹s.top 0 = some _›
    have hfold := ‹List.foldl brTableStep _ _ = Except.ok _›
    injection hc with hc
    simp only [Prod.mk.injEq] at hc
    obtain ⟨rfl, rfl, _⟩ := hc
    obtain ⟨f1, f2, f3⟩ := brTable_fold_decls _ _ _ _ _ hfold (hd.drop1 1) (by intro x hx; simp at hx)
    obtain ⟨g1, g2⟩ := gotoCopy_decls f1 hg
    refine ⟨f1.same g1 (gotoCopy_same hg).1, fun x hx => g1 x (f2 x hx), fun sl hsl => ?_⟩
    simp only [slotsSeq, slotsStmt, List.append_nil, List.mem_cons, List.mem_append, List.mem_flatMap] at hsl
    rcases hsl with (rfl | ⟨x, hx, hsl⟩) | hsl
    · exact g1 _ (f2 _ mc)
    · exact g1 _ (f3 x hx sl hsl)
    · exact g2 sl hsl
  | .block bt body, s, s', out, dead, hc, hw, hd => by
    simp only [compileInstr, bind, Except.bind] at hc
    split at hc
    · cases hc
    · rename_i res hcb
      obtain ⟨sB, outB, deadB⟩ := res
      simp only [] at hc
      split at hc
      · cases hc
      · injection hc with hc
        simp only [Prod.mk.injEq] at hc
        obtain ⟨rfl, rfl, _⟩ := hc
        have hB := seq_decls ctx body _ sB outB deadB hcb (hw.enter bt) hd
        have hst := seq_static ctx body _ sB outB deadB hcb (hw.enter bt)
        have hlen : s.height ≤ sB.stack.length := by
          have := hst.len; rw [St.base_enter] at this; exact this
        exact ⟨endBlock_cover hB.cover _ _ _ hlen, fun x hx => endBlock_decls_mono _ _ _ _ _ (hB.mono x hx), fun sl hsl => by
          simp only [slotsSeq, slotsStmt, List.append_nil] at hsl
          exact endBlock_decls_mono _ _ _ _ _ (hB.uses sl hsl)⟩
  | .loop bt body, s, s', out, dead, hc, hw, hd => by
    simp only [compileInstr, bind, Except.bind] at hc
    split at hc
    · cases hc
    · rename_i res hcb
      obtain ⟨sB, outB, deadB⟩ := res
      simp only [] at hc
      split at hc
      · cases hc
      · injection hc with hc
        simp only [Prod.mk.injEq] at hc
        obtain ⟨rfl, rfl, _⟩ := hc
        have hB := seq_decls ctx body _ sB outB deadB hcb (hw.enter none) hd
        have hst := seq_static ctx body _ sB outB deadB hcb (hw.enter none)
        have hlen : s.height ≤ sB.stack.length := by
          have := hst.len; rw [St.base_enter] at this; exact this
        exact ⟨endBlock_cover hB.cover _ _ _ hlen, fun x hx => endBlock_decls_mono _ _ _ _ _ (hB.mono x hx), fun sl hsl => by
          simp only [slotsSeq, slotsStmt, List.append_nil] at hsl
          exact endBlock_decls_mono _ _ _ _ _ (hB.uses sl hsl)⟩
  | .ite bt thn els, s, s', out, dead, hc, hw, hd => by
    rw [compileInstr] at hc
    cases hc0 : s.top 0 with
    | none => simp [hc0, bind, Except.bind] at hc
    | some c =>
      simp only [hc0, bind, Except.bind] at hc
      have mc := hd.top hc0
      split at hc
      · cases hc
      · rename_i hcond
        have hge : s.base + 1 ≤ s.stack.length := by simp [St.height] at hcond; omega
        have hw0 : WF (s.drop 1) := hw.of_same rfl (Nat.le_refl _) (by simp; omega) (by have := hw.decl; simp; omega)
        have hd0 : DeclCover (s.drop 1) := hd.drop1 1
        split at hc
        · cases hc
        · rename_i res hcT
          obtain ⟨sT, outT, deadT⟩ := res
          simp only [] at hc
          split at hc
          · cases hc
          · have hT := seq_decls ctx thn _ sT outT deadT hcT (hw0.enter bt) hd0
            have hstT := seq_static ctx thn _ sT outT deadT hcT (hw0.enter bt)
            have hlenT : (s.drop 1).height ≤ sT.stack.length := by
              have := hstT.len; rw [St.base_enter] at this; exact this
            cases els with
            | none =>
              simp only [] at hc
              split at hc
              · cases hc
              · injection hc with hc
                simp only [Prod.mk.injEq] at hc
                obtain ⟨rfl, rfl, _⟩ := hc
                exact ⟨endBlock_cover hT.cover _ _ _ hlenT, fun x hx => endBlock_decls_mono _ _ _ _ _ (hT.mono x hx), fun sl hsl => by
                  simp only [slotsSeq, slotsStmt, List.append_nil, List.mem_cons, List.mem_append] at hsl
                  rcases hsl with rfl | hsl
                  · exact endBlock_decls_mono _ _ _ _ _ (hT.mono _ mc)
                  · exact endBlock_decls_mono _ _ _ _ _ (hT.uses sl hsl)⟩
            | some els =>
              simp only [] at hc
              split at hc
              · cases hc
              · rename_i res2 hcE
                obtain ⟨sE, outE, deadE⟩ := res2
                simp only [] at hc
                split at hc
                · cases hc
                · injection hc with hc
                  simp only [Prod.mk.injEq] at hc
                  obtain ⟨rfl, rfl, _⟩ := hc
                  have hbT : sT.base = (s.drop 1).height := by rw [hstT.base, St.base_enter]
                  have hwE0 : WF { sT with stack := sT.stack.take (s.drop 1).height } :=
                    hstT.wf.of_same rfl (Nat.le_refl _) (by simp only [List.length_take]; rw [hbT]; omega)
                      (by have := hstT.wf.decl; simp only [List.length_take]; omega)
                  have hdE0 : DeclCover { sT with stack := sT.stack.take (s.drop 1).height } :=
                    hT.cover.pop (s' := { sT with stack := sT.stack.take (s.drop 1).height }) (fun x hx => hx) _ rfl hlenT
                  have hE := seq_decls ctx els _ sE outE deadE hcE hwE0 hdE0
                  have hstE := seq_static ctx els _ sE outE deadE hcE hwE0
                  have hlenE : (s.drop 1).height ≤ sE.stack.length := by
                    have := hstE.len
                    have hb : ({ sT with stack := sT.stack.take (s.drop 1).height } : St).base = (s.drop 1).height := by rw [← hbT]; rfl
                    rw [hb] at this; exact this
                  exact ⟨endBlock_cover hE.cover _ _ _ hlenE, fun x hx => endBlock_decls_mono _ _ _ _ _ (hE.mono x (hT.mono x hx)), fun sl hsl => by
                    simp only [slotsSeq, slotsStmt, List.append_nil, List.mem_cons, List.mem_append] at hsl
                    rcases hsl with (rfl | hsl) | hsl
                    · exact endBlock_decls_mono _ _ _ _ _ (hE.mono _ (hT.mono _ mc))
                    · exact endBlock_decls_mono _ _ _ _ _ (hE.mono _ (hT.uses sl hsl))
                    · exact endBlock_decls_mono _ _ _ _ _ (hE.uses sl hsl)⟩
end

end W2c2Verif.Sim
