/-
  Lemmas.PoolInv — the inductive invariant of the worker pool (Model/Pool.lean), for ANY number of workers
  N ≥ 1, any number of tasks K, any interleaving, with spurious wake-ups.
-/
import W2c2Verif.Model.Pool

namespace W2c2Verif.Model.Pool
open W2c2Verif.Model

/-- program counters at which the thread owns the mutex -/
def PC.holds : PC → Bool
  | .w1 | .w2 | .w3 | .w4 | .w5 | .w6a | .w6b | .w7 | .w8
  | .p2 | .p3 | .p4a | .p4b | .p5 | .p6 | .p7 | .p9 | .p10 | .p11 | .p12 | .p13 => true
  | _ => false

def PC.isWorker : PC → Bool
  | .w0 | .w1 | .w2 | .w3 | .w3p | .w3r | .w4 | .w5 | .w6a | .w6b | .w7 | .w8 | .w9 | .wret => true
  | _ => false

def PC.isProducer (p : PC) : Bool := !p.isWorker

/-- the producer is between `writer.task = &task` and `fileIndex++` -/
def PC.published : PC → Bool
  | .p6 | .p7 | .p0inc => true
  | _ => false

def PC.inLoop : PC → Bool
  | .p1 | .p2 | .p3 | .p3p | .p3r | .p4a | .p4b | .p5 | .p6 | .p7 | .p0inc => true
  | _ => false

def PC.afterLoop : PC → Bool
  | .p8 | .p9 | .p10 | .p10p | .p10r | .p11 | .p12 | .p13 | .p14 | .pend => true
  | _ => false

/-- the fileIndex a worker holds between `task = NULL` and the file write -/
def contrib (l : Loc) : List Nat := if l.pc = .w8 ∨ l.pc = .w9 then [l.la] else []

/-- … over workers n, n-1, …, 1 -/
def pend (ls : Tid → Loc) : Nat → List Nat
  | 0 => []
  | n + 1 => contrib (ls (n + 1)) ++ pend ls n

/-- a worker that will run without anybody's help once the mutex is free -/
def Active (g : Sh) (ls : Tid → Loc) (w : Nat) : Prop :=
  (ls w).pc ≠ .wret ∧ ¬ ((ls w).pc = .w3p ∧ w ∈ g.consume)

/-- a worker that will signal `produce` before it can park or return -/
def Owing (ls : Tid → Loc) (w : Nat) : Prop :=
  (ls w).pc = .w8 ∨ (ls w).pc = .w9 ∨ (ls w).pc = .w0 ∨ (ls w).pc = .w1

structure Inv (cfg : Cfg) (g : Sh) (ls : Tid → Loc) : Prop where
  role0 : (ls 0).pc.isProducer = true
  roleW : ∀ t : Nat, 1 ≤ t → (ls t).pc.isWorker = true
  roleX : ∀ t : Nat, cfg.N < t → (ls t).pc = .wret
  mx : ∀ t : Nat, (ls t).pc.holds = true ↔ g.mutex = some t
  cons : ∀ t : Nat, t ∈ g.consume → (ls t).pc = .w3p
  prod : g.produce = [] ∨ (g.produce = [0] ∧ ((ls 0).pc = .p3p ∨ (ls 0).pc = .p10p))
  tkseq : (List.range g.tk.length).reverse = g.tk
  slot : g.taskSet = true → g.fa = g.tk.length ∧ g.fb = cfg.startOf g.fa
  pub : g.tk.length + b2n g.taskSet = (ls 0).fi + b2n (ls 0).pc.published
  fiK : (ls 0).fi ≤ cfg.K ∧ ((ls 0).pc.inLoop = true → (ls 0).fi < cfg.K) ∧
    ((ls 0).pc.afterLoop = true → (ls 0).fi = cfg.K)
  ppc : (((ls 0).pc = .p3 ∨ (ls 0).pc = .p10 ∨ (ls 0).pc = .p6) → g.taskSet = true) ∧
    (((ls 0).pc = .p4a ∨ (ls 0).pc = .p4b ∨ (ls 0).pc = .p5 ∨ (ls 0).pc = .p11) → g.taskSet = false) ∧
    (((ls 0).pc = .p4b ∨ (ls 0).pc = .p5) → g.fa = (ls 0).fi) ∧
    ((ls 0).pc = .p5 → g.fb = cfg.startOf (ls 0).fi)
  dn1 : g.done = true → g.taskSet = false ∧
    ((ls 0).pc = .p12 ∨ (ls 0).pc = .p13 ∨ (ls 0).pc = .p14 ∨ (ls 0).pc = .pend)
  dn2 : ((ls 0).pc = .p13 ∨ (ls 0).pc = .p14 ∨ (ls 0).pc = .pend) → g.done = true ∧ g.consume = []
  dn3 : (ls 0).pc = .p12 → g.done = true
  ret1 : ∀ t : Nat, t ∈ g.returned → (ls t).pc = .wret
  ret2 : ∀ t : Nat, 1 ≤ t → t ≤ cfg.N → (ls t).pc = .wret → t ∈ g.returned ∧ g.done = true
  join : ((ls 0).pc = .p14 → 1 ≤ (ls 0).j ∧ ∀ w : Nat, 1 ≤ w → w < (ls 0).j → w ∈ g.returned) ∧
    ((ls 0).pc = .pend → ∀ w : Nat, 1 ≤ w → w ≤ cfg.N → w ∈ g.returned)
  wk : ∀ t : Nat, ((ls t).pc = .w3 → g.taskSet = false ∧ g.done = false) ∧
    ((ls t).pc = .w4 → g.done = true ∨ g.taskSet = true) ∧
    ((ls t).pc = .w5 → g.done = true) ∧
    (((ls t).pc = .w6a ∨ (ls t).pc = .w6b ∨ (ls t).pc = .w7) → g.taskSet = true) ∧
    (((ls t).pc = .w6b ∨ (ls t).pc = .w7) → (ls t).la = g.fa) ∧
    ((ls t).pc = .w7 → (ls t).lb = g.fb) ∧
    (((ls t).pc = .w8 ∨ (ls t).pc = .w9) → (ls t).lb = cfg.startOf (ls t).la)
  exv : ∀ e, e ∈ g.ex → e.2.2 = cfg.startOf e.2.1 ∧ 1 ≤ e.1 ∧ e.1 ≤ cfg.N

theorem upd_apply {L : Type} (f : Tid → L) (t u : Tid) (l : L) : upd f t l u = if u = t then l else f u := rfl

theorem mem_signalChoices {c l : CondVar} (h : c ∈ signalChoices l) :
    (l = [] ∧ c = []) ∨ ∃ w, w ∈ l ∧ c = l.filter (· ≠ w) := by
  cases l with
  | nil => simp [signalChoices] at h; exact Or.inl ⟨rfl, h⟩
  | cons a as =>
    simp only [signalChoices, List.mem_map] at h
    obtain ⟨w, hw, rfl⟩ := h
    exact Or.inr ⟨w, hw, rfl⟩

theorem initLoc_cases (cfg : Cfg) (t : Nat) :
    (t = 0 ∧ initLoc cfg t = { pc := .p0 }) ∨ (1 ≤ t ∧ t ≤ cfg.N ∧ initLoc cfg t = { pc := .w0 }) ∨
    (1 ≤ t ∧ cfg.N < t ∧ initLoc cfg t = { pc := .wret }) := by
  unfold initLoc
  by_cases h0 : t = 0
  · exact Or.inl ⟨h0, by simp [h0]⟩
  · by_cases hn : t ≤ cfg.N
    · exact Or.inr (Or.inl ⟨by omega, hn, by simp [h0, hn]⟩)
    · exact Or.inr (Or.inr ⟨by omega, by omega, by simp [h0, hn]⟩)

theorem inv_init (cfg : Cfg) : Inv cfg (initState cfg).1 (initState cfg).2 := by
  have h0 : initLoc cfg 0 = { pc := .p0 } := by simp [initLoc]
  refine ⟨?_, ?_, ?_, ?_, ?_, ?_, ?_, ?_, ?_, ?_, ?_, ?_, ?_, ?_, ?_, ?_, ?_, ?_, ?_⟩
  · simp [initState, h0, PC.isProducer, PC.isWorker]
  · intro t ht
    rcases initLoc_cases cfg t with ⟨h, _⟩ | ⟨_, _, h⟩ | ⟨_, _, h⟩
    · omega
    · simp [initState, h, PC.isWorker]
    · simp [initState, h, PC.isWorker]
  · intro t ht
    rcases initLoc_cases cfg t with ⟨h, _⟩ | ⟨_, h2, _⟩ | ⟨_, _, h⟩
    · omega
    · omega
    · simp [initState, h]
  · intro t
    rcases initLoc_cases cfg t with ⟨_, h⟩ | ⟨_, _, h⟩ | ⟨_, _, h⟩ <;> simp [initState, h, PC.holds]
  · intro t ht; simp [initState] at ht
  · exact Or.inl rfl
  · simp [initState]
  · intro h; simp [initState] at h
  · simp [initState, h0, b2n, PC.published]
  · simp [initState, h0, PC.inLoop, PC.afterLoop]
  · simp [initState, h0]
  · intro h; simp [initState] at h
  · simp [initState, h0]
  · simp [initState, h0]
  · intro t ht; simp [initState] at ht
  · intro t h1 h2 h3
    rcases initLoc_cases cfg t with ⟨h, _⟩ | ⟨_, _, h⟩ | ⟨_, h4, _⟩
    · omega
    · simp [initState, h] at h3
    · omega
  · simp [initState, h0]
  · intro t
    rcases initLoc_cases cfg t with ⟨_, h⟩ | ⟨_, _, h⟩ | ⟨_, _, h⟩ <;> simp [initState, h]
  · intro e he; simp [initState] at he

end W2c2Verif.Model.Pool
