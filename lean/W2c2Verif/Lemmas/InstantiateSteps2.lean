/-
  Lemmas.InstantiateSteps2 — element segments, globals, and the composition of the Init* functions.
-/
import W2c2Verif.Lemmas.InstantiateSteps

namespace W2c2Verif.Model.Inst
open W2c2Verif Spec.Inst

/-! ## element segments -/

def resolvedElems (d : ModDesc) (gl : List Nat) (i : Instance) (segs : List ElemSegD) : List (Nat × Nat × List (Option Nat)) :=
  segs.filterMap fun seg => match resElem d gl i seg with | .val w => some w | _ => none

theorem fold_storeElems (d : ModDesc) (i : Instance) (segs : List ElemSegD) : ∀ (w : World),
    (∀ seg ∈ segs, ∃ x, resElem d w.globals i seg = .val x) →
    foldM' (storeElems d) (w, i) segs =
      (writeAll w.tables (resolvedElems d w.globals i segs) >>= fun ts => .val ({ w with tables := ts }, i)) := by
  induction segs with
  | nil => intro w _; simp [foldM', resolvedElems, writeAll]
  | cons seg rest ih =>
    intro w hres
    obtain ⟨x, hx⟩ := hres seg (by simp)
    have hrest : ∀ seg ∈ rest, ∃ x, resElem d w.globals i seg = .val x := fun s hs => hres s (by simp [hs])
    have h2 : resolvedElems d w.globals i (seg :: rest) = x :: resolvedElems d w.globals i rest := by
      simp [resolvedElems, hx]
    simp only [foldM', h2, writeAll]
    have h1 : storeElems d (w, i) seg = (heapWrite w.tables x.1 x.2.1 x.2.2 >>= fun ts => .val ({ w with tables := ts }, i)) := by
      simp [storeElems, hx]
    rw [h1]
    cases hw : heapWrite w.tables x.1 x.2.1 x.2.2 with
    | val ts =>
      simp only [Out.bind_val]
      have := ih { w with tables := ts } hrest
      simpa [writeAll] using this
    | trap t => rfl
    | ub k => rfl
    | oof => rfl

theorem objSize_append_tables (d : ModDesc) (w : World) (p : Nat) :
    objSize (w.tables ++ d.tables.map fun tt => Array.replicate tt.1 (none : Option Nat)) p = tableSize d w p := by
  unfold objSize tableSize
  rw [List.getElem?_append]
  by_cases h : p < w.tables.length
  · simp [h]
  · simp [h, List.getElem?_map]
    cases d.tables[p - w.tables.length]? <;> simp

theorem cell_append_tables (d : ModDesc) (w : World) (p a : Nat) :
    cell (w.tables ++ d.tables.map fun tt => Array.replicate tt.1 (none : Option Nat)) p a = tablePrior d w p a := by
  unfold cell tablePrior
  rw [List.getElem?_append]
  by_cases h : p < w.tables.length
  · simp [h, cell]
  · simp only [h, if_false, List.getElem?_map]
    cases d.tables[p - w.tables.length]? with
    | none => simp
    | some tt => simp [Array.getElem?_replicate]

theorem initTables_spec (d : ModDesc) (w w' : World) (r : Resolver) (i : Instance)
    (ht : w'.tables = w.tables) (hgl : w'.globals = w.globals)
    (hm : i.tabImp = (List.range d.tableImports).map r.table)
    (hg : i.globImp = (List.range d.globalImports).map r.global)
    (hf : Fits d w r) :
    ∃ ts, initTables d (w', i) = .val ({ w' with tables := ts }, { i with tables := (List.range d.tables.length).map (w.tables.length + ·) }) ∧
      ts.length = w.tables.length + d.tables.length ∧ ∀ p a, cell ts p a = tableAfter d w r p a := by
  let i1 : Instance := { i with tables := (List.range d.tables.length).map (w.tables.length + ·) }
  let w1 : World := { w' with tables := w.tables ++ d.tables.map fun tt => Array.replicate tt.1 (none : Option Nat) }
  have hw1g : w1.globals = w.globals := hgl
  have hres : ∀ seg ∈ d.elems, ∃ p off sz, resElem d w1.globals i1 seg = .val (p, off, seg.funcs.map some) ∧
      tableAddr d w r seg.table = some p ∧ evalConst d w r seg.offset = some off ∧ tableSize d w p = some sz ∧ off + seg.funcs.length ≤ sz := by
    intro seg hs
    obtain ⟨p, off, sz, h1, h2, h3, h4⟩ := hf.elem seg hs
    refine ⟨p, off, sz, ?_, h1, h2, h3, h4⟩
    unfold resElem
    have e1 : evalC d w1.globals i1 seg.offset = .val off := by
      rw [hw1g]; exact evalC_of_evalConst d w r i1 hg seg.offset off h2
    have e2 : tabPtr d i1 seg.table = some p := by rw [tabPtr_eq d w r i1 hm rfl]; exact h1
    simp [e1, e2]
  have hfold := fold_storeElems d i1 d.elems w1 (fun seg hs => by obtain ⟨p, off, sz, h, _⟩ := hres seg hs; exact ⟨_, h⟩)
  have hsegs : ∀ q, segsFor (resolvedElems d w1.globals i1 d.elems) q = elemSegsAt d w r q := by
    intro q
    unfold segsFor resolvedElems elemSegsAt
    rw [List.filterMap_filterMap]
    apply filterMap_congr'
    intro seg hs
    obtain ⟨p, off, sz, h, h1, h2, _, _⟩ := hres seg hs
    rw [h]
    simp only [h1, h2]
    by_cases hq : p = q
    · simp [hq]
    · simp [hq]
  have hok : ∀ x ∈ resolvedElems d w1.globals i1 d.elems, ∃ sz, objSize w1.tables x.1 = some sz ∧ x.2.1 + x.2.2.length ≤ sz := by
    intro x hx
    unfold resolvedElems at hx
    rw [List.mem_filterMap] at hx
    obtain ⟨seg, hs, hx⟩ := hx
    obtain ⟨p, off, sz, h, h1, h2, h3, h4⟩ := hres seg hs
    rw [h] at hx
    have hx' : x = (p, off, seg.funcs.map some) := by simpa using hx.symm
    subst hx'
    exact ⟨sz, by rw [objSize_append_tables]; exact h3, by simpa using h4⟩
  obtain ⟨ts, hw, hl, _, hcell⟩ := writeAll_spec _ w1.tables hok
  refine ⟨ts, ?_, ?_, ?_⟩
  · have h0 : initTables d (w', i) = foldM' (storeElems d) (w1, i1) d.elems := by
      unfold initTables; simp only [ht]; rfl
    rw [h0, hfold, hw]; rfl
  · rw [hl]; simp [w1]
  · intro p a
    rw [hcell, hsegs, cell_append_tables]
    rfl

/-! ## globals -/

theorem initGlobals_fold (d : ModDesc) (w : World) (r : Resolver) (w' : World) (hgl : w'.globals = w.globals)
    (es : List ConstE) : ∀ (i : Instance), i.globImp = (List.range d.globalImports).map r.global →
    (∀ e ∈ es, ∃ v, evalConst d w r e = some v) →
    ∃ vs, foldM' (fun (s : St) e => evalC d s.1.globals s.2 e >>= fun v => .val (s.1, { s.2 with globals := s.2.globals ++ [v] })) (w', i) es
        = .val (w', { i with globals := i.globals ++ vs }) ∧ vs.map some = es.map (evalConst d w r) := by
  induction es with
  | nil => intro i _ _; exact ⟨[], by simp [foldM'], rfl⟩
  | cons e rest ih =>
    intro i hg hv
    obtain ⟨v, hev⟩ := hv e (by simp)
    have e1 : evalC d w'.globals i e = .val v := by rw [hgl]; exact evalC_of_evalConst d w r i hg e v hev
    obtain ⟨vs, h1, h2⟩ := ih { i with globals := i.globals ++ [v] } hg (fun e' he' => hv e' (by simp [he']))
    refine ⟨v :: vs, ?_, ?_⟩
    · simp only [foldM', e1, Out.bind_val]
      rw [h1]; simp
    · simp [hev, h2]

theorem initGlobals_spec (d : ModDesc) (w w' : World) (r : Resolver) (i : Instance) (hgl : w'.globals = w.globals)
    (hg : i.globImp = (List.range d.globalImports).map r.global) (hf : Fits d w r) :
    ∃ vs, initGlobals d (w', i) = .val (w', { i with globals := vs }) ∧ vs.map some = d.globals.map (evalConst d w r) := by
  obtain ⟨vs, h1, h2⟩ := initGlobals_fold d w r w' hgl d.globals { i with globals := [] } hg hf.glob
  exact ⟨vs, by simpa [initGlobals] using h1, h2⟩

/-! ## all of it -/

theorem initAll_spec (d : ModDesc) (r : Resolver) (w : World) (hf : Fits d w r) :
    ∃ s, initAll d r w = .val s ∧ Initialised d w r s := by
  let i0 : Instance := { memImp := (List.range d.memImports).map r.mem, tabImp := (List.range d.tableImports).map r.table,
                         globImp := (List.range d.globalImports).map r.global }
  obtain ⟨ms, hm, hml, hmc⟩ := initMemories_spec d w r i0 rfl rfl hf
  obtain ⟨ts, ht, htl, htc⟩ := initTables_spec d w { w with mems := ms } r
      { i0 with mems := (List.range d.mems.length).map (w.mems.length + ·) } rfl rfl rfl rfl hf
  obtain ⟨vs, hgv, hgs⟩ := initGlobals_spec d w { w with mems := ms, tables := ts } r
      { i0 with mems := (List.range d.mems.length).map (w.mems.length + ·),
                tables := (List.range d.tables.length).map (w.tables.length + ·) } rfl rfl hf
  refine ⟨(({ mems := ms, tables := ts, globals := w.globals } : World),
            ({ i0 with mems := (List.range d.mems.length).map (w.mems.length + ·),
                       tables := (List.range d.tables.length).map (w.tables.length + ·), globals := vs } : Instance)), ?_, ?_⟩
  · unfold initAll
    show (initImports d r (w, {}) >>= initMemories d >>= initTables d >>= initGlobals d) = _
    have h0 : initImports d r (w, {}) = .val (w, i0) := rfl
    rw [h0]
    simp only [Out.bind_val]
    rw [hm]
    simp only [Out.bind_val]
    rw [ht]
    simp only [Out.bind_val]
    exact hgv
  · exact { memImp := rfl, tabImp := rfl, globImp := rfl, ownMems := rfl, ownTables := rfl,
            memCount := hml, tableCount := htl, mem := hmc, table := htc, globals := hgs, hostGlobals := rfl }

end W2c2Verif.Model.Inst
