/-
  Lemmas.WasiPath — helper lemmas about the byte-level primitives of Model.WasiPath
  (readAt / writeAt / memcpy / strlen / cstr) and the statement-by-statement evaluation of
  `resolvePath` (`resolvePath_eq_spec`).
-/
import W2c2Verif.Model.WasiPath
namespace W2c2Verif.WasiPath
open W2c2Verif

theorem readAt_lt (obj : Bytes) (i : Nat) (h : i < obj.length) : readAt obj i = .val obj[i] := by
  simp [readAt, List.getElem?_eq_getElem h]

theorem writeAt_lt (buf : Bytes) (i : Nat) (v : UInt8) (h : i < buf.length) :
    writeAt buf i v = .val (buf.set i v) := by simp [writeAt, h]

theorem set_append_mid (pre : Bytes) (m v : UInt8) (post : Bytes) :
    (pre ++ m :: post).set pre.length v = pre ++ v :: post := by
  induction pre with
  | nil => simp
  | cons a t ih => simp [ih]

theorem writeAt_mid (pre : Bytes) (m v : UInt8) (post : Bytes) (k : Nat) (hk : k = pre.length) :
    writeAt (pre ++ m :: post) k v = .val (pre ++ v :: post) := by
  subst hk
  rw [writeAt_lt _ _ _ (by simp), set_append_mid]

theorem copyInto_ok : ∀ (src : Bytes) (n : Nat) (dstTail : Bytes), n ≤ src.length → n ≤ dstTail.length →
    copyInto src n dstTail = .val (src.take n ++ dstTail.drop n) := by
  intro src n
  induction n generalizing src with
  | zero => intro dstTail _ _; cases src <;> simp [copyInto]
  | succ n ih =>
    intro dstTail hs hd
    cases src with
    | nil => simp at hs
    | cons b src =>
      cases dstTail with
      | nil => simp at hd
      | cons x t =>
        simp only [copyInto]
        rw [ih src t (by simpa using hs) (by simpa using hd)]
        simp

/-- memcpy into the not yet written part of a buffer whose first `w.length` bytes are `w` -/
theorem memcpy_step (buf w src : Bytes) (n : Nat) (hs : n ≤ src.length) (hd : w.length + n ≤ buf.length) :
    memcpyTo (w ++ buf.drop w.length) w.length src n
      = .val ((w ++ src.take n) ++ buf.drop ((w ++ src.take n).length)) := by
  unfold memcpyTo
  rw [List.drop_left, copyInto_ok src n _ hs (by simp; omega)]
  simp [Nat.min_eq_left hs, Nat.add_comm]

theorem memcpy_first (buf src : Bytes) (n : Nat) (hs : n ≤ src.length) (hd : n ≤ buf.length) :
    memcpyTo buf 0 src n = .val (src.take n ++ buf.drop n) := by
  have := memcpy_step buf [] src n hs (by simpa using hd)
  simpa [Nat.min_eq_left hs] using this

theorem write_step (buf w : Bytes) (v : UInt8) (hd : w.length < buf.length) :
    writeAt (w ++ buf.drop w.length) w.length v
      = .val ((w ++ [v]) ++ buf.drop ((w ++ [v]).length)) := by
  have : buf.drop w.length = buf[w.length] :: buf.drop (w.length + 1) := List.drop_eq_getElem_cons hd
  rw [this, writeAt_mid w _ v _ _ rfl]
  simp

theorem memcpy_step' (buf w src : Bytes) (n j k : Nat) (hj : j = w.length) (hk : k = w.length)
    (hs : n ≤ src.length) (hd : w.length + n ≤ buf.length) :
    memcpyTo (w ++ buf.drop j) k src n
      = .val ((w ++ src.take n) ++ buf.drop ((w ++ src.take n).length)) := by
  subst hk; subst hj; exact memcpy_step buf w src n hs hd

theorem write_step' (buf w : Bytes) (v : UInt8) (j k : Nat) (hj : j = w.length) (hk : k = w.length)
    (hd : w.length < buf.length) :
    writeAt (w ++ buf.drop j) k v = .val ((w ++ [v]) ++ buf.drop ((w ++ [v]).length)) := by
  subst hk; subst hj; exact write_step buf w v hd

theorem cstrlen_ok (dir tl : Bytes) (h0 : (0 : UInt8) ∉ dir) :
    cstrlen (dir ++ 0 :: tl) = .val dir.length := by
  induction dir with
  | nil => simp [cstrlen]
  | cons a t ih =>
    have ha : a ≠ 0 := by intro h; subst h; simp at h0
    have ht : (0 : UInt8) ∉ t := by intro h; exact h0 (List.mem_cons_of_mem _ h)
    simp [cstrlen, ha, ih ht]

theorem cstr_append_nul (s r : Bytes) : cstr (s ++ 0 :: r) = cstr s := by
  induction s with
  | nil => simp [cstr]
  | cons a t ih =>
    unfold cstr at *
    by_cases ha : a = 0
    · subst ha; simp
    · simp [ha, ih]

theorem cstr_nulfree (s : Bytes) (h : (0 : UInt8) ∉ s) : cstr s = s := by
  induction s with
  | nil => simp [cstr]
  | cons a t ih =>
    have ha : a ≠ 0 := by intro h0; subst h0; simp at h
    have ht : (0 : UInt8) ∉ t := by intro h1; exact h (List.mem_cons_of_mem _ h1)
    have := ih ht
    unfold cstr at *
    simp [ha, this]


theorem noNulIn_ok : ∀ (avail : Bytes) (n : Nat), n ≤ avail.length →
    noNulIn avail n = .val (decide ((0 : UInt8) ∉ avail.take n)) := by
  intro avail n
  induction n generalizing avail with
  | zero => intro _; cases avail <;> simp [noNulIn]
  | succ n ih =>
    intro h
    cases avail with
    | nil => simp at h
    | cons b rest =>
      simp only [noNulIn, List.take_succ_cons]
      by_cases hb : b = 0
      · subst hb; simp
      · rw [ih rest (by simpa using h)]
        have : (0 : UInt8) ≠ b := fun h => hb h.symm
        simp [hb, this]

theorem getLast_readAt (dir tl : Bytes) (hne : dir ≠ []) :
    readAt (dir ++ 0 :: tl) (dir.length - 1) = .val (dir.getLast hne) := by
  have hpos : 0 < dir.length := List.length_pos_iff.mpr hne
  rw [readAt_lt _ _ (by simp; omega)]
  congr 1
  rw [List.getElem_append_left (by omega), List.getLast_eq_getElem]

theorem sepOf_of_getLast (dir : Bytes) (hne : dir ≠ []) :
    sepOf dir = if dir.getLast hne ≠ 47 then [47] else [] := by
  unfold sepOf
  rw [List.getLast?_eq_some_getLast hne]
  by_cases h : dir.getLast hne = 47 <;> simp [h]

/-- `resolvePath` as written computes `resolveSpec` of the first `len` guest bytes, NUL-terminates it
    inside the `PATH_MAX` buffer and leaves the rest of the buffer untouched. -/
theorem resolvePath_eq_spec (pm : Nat) (dir tl avail : Bytes) (len : Nat) (buf : Bytes)
    (hdir0 : (0 : UInt8) ∉ dir) (hdne : dir ≠ []) (hlen : len ≤ avail.length) (hbuf : buf.length = pm) :
    resolvePath pm (dir ++ 0 :: tl) avail len buf =
      .val ((resolveSpec pm dir (avail.take len)).map
              (fun s => (s ++ [0]) ++ buf.drop (s ++ [0]).length)) := by
  have htl : (avail.take len).length = len := by simp [Nat.min_eq_left hlen]
  have hg1 : nulGuard (Gen.WasiPath.rejectsNul && !Gen.WasiPath.nulCheckAfterLength) avail len = .val true := rfl
  have hg2 : nulGuard (Gen.WasiPath.rejectsNul && Gen.WasiPath.nulCheckAfterLength) avail len
      = .val (decide ((0 : UInt8) ∉ avail.take len)) := by
    show noNulIn avail len = _
    exact noNulIn_ok avail len hlen
  unfold resolvePath resolveSpec
  rw [hg1, hg2]
  simp only [Gen.WasiPath.guardNonEmpty, Gen.WasiPath.guardAbs, Gen.WasiPath.guardRel,
    Gen.WasiPath.absChar, Gen.WasiPath.sepTestChar, Gen.WasiPath.sepChar, Gen.WasiPath.terminator, htl]
  by_cases h0 : len = 0
  · simp [h0]
  · have hpos : 0 < avail.length := by omega
    have hhead : (avail.take len).head? = some avail[0] := by
      cases avail with
      | nil => simp at hpos
      | cons a t => cases len with
        | zero => exact absurd rfl h0
        | succ k => simp
    rw [readAt_lt avail 0 hpos]
    simp only [Out.bind_val, hhead, h0, gt_iff_lt, Nat.pos_of_ne_zero h0, decide_true, not_true_eq_false,
      if_false, Bool.not_eq_true, decide_eq_false_iff_not, Nat.not_lt, Option.some.injEq]
    by_cases habs : avail[0] = 47
    · simp only [habs, if_true]
      by_cases hfit : len < pm
      · have : ¬ pm ≤ len := by omega
        simp only [this, hfit, if_false, if_true]
        by_cases hnul : (0 : UInt8) ∈ avail.take len
        · simp [hnul]
        simp only [hnul, not_false_eq_true, decide_true, not_true_eq_false, if_false, Option.map_some]
        rw [memcpy_first buf avail len hlen (by omega)]
        simp only [Out.bind_val]
        have hl : (avail.take len : Bytes).length = len := by simp [Nat.min_eq_left hlen]
        rw [write_step' buf (avail.take len) 0 _ _ hl.symm hl.symm (by rw [hl]; omega)]
        simp
      · have : pm ≤ len := by omega
        simp [this, hfit]
    · simp only [habs, if_false]
      rw [cstrlen_ok dir tl hdir0]
      simp only [Out.bind_val]
      by_cases hfit : dir.length + len + 1 < pm
      · have hnot : ¬ pm ≤ dir.length + len + 1 := by omega
        have hdpos : dir.length ≠ 0 := by
          intro h; exact hdne (List.eq_nil_of_length_eq_zero h)
        simp only [hnot, hfit, if_false, if_true]
        by_cases hnul : (0 : UInt8) ∈ avail.take len
        · simp [hnul]
        simp only [hnul, not_false_eq_true, decide_true, not_true_eq_false, if_false, Option.map_some, hdpos]
        rw [memcpy_first buf (dir ++ 0 :: tl) dir.length (by simp) (by omega)]
        simp only [Out.bind_val, getLast_readAt dir tl hdne]
        have htk : ((dir ++ 0 :: tl).take dir.length : Bytes) = dir := by simp
        rw [htk, sepOf_of_getLast dir hdne]
        by_cases hsep : dir.getLast hdne = 47
        · simp only [hsep, ne_eq, not_true_eq_false, if_false, Out.bind_val]
          rw [memcpy_step buf dir avail len hlen (by omega)]
          simp only [Out.bind_val]
          have hl : (dir ++ avail.take len).length = dir.length + len := by simp [Nat.min_eq_left hlen]
          rw [write_step' buf (dir ++ avail.take len) 0 _ _ rfl hl.symm (by rw [hl]; omega)]
          simp
        · simp only [hsep, ne_eq, not_false_eq_true, if_true]
          rw [write_step buf dir 47 (by omega)]
          simp only [Out.bind_val]
          have hl1 : (dir ++ [47]).length = dir.length + 1 := by simp
          rw [memcpy_step' buf (dir ++ [47]) avail len _ _ rfl hl1.symm hlen (by rw [hl1]; omega)]
          simp only [Out.bind_val]
          have hl : (dir ++ [47] ++ avail.take len).length = dir.length + 1 + len := by
            simp [Nat.min_eq_left hlen]; omega
          rw [write_step' buf (dir ++ [47] ++ avail.take len) 0 _ _ rfl hl.symm (by rw [hl]; omega)]
          simp
      · have : pm ≤ dir.length + len + 1 := by omega
        simp [this, hfit]

/-- **an over-long length is rejected before the path bytes are looked at**: only `path[0]` is
    read (the guest memory may END right after it) when the branch's length guard fails -/
theorem resolvePath_long_reads_only_first (pm : Nat) (dir tl : Bytes) (c0 : UInt8) (rest : Bytes) (len : Nat)
    (buf : Bytes) (hdir0 : (0 : UInt8) ∉ dir) (hlen : 0 < len)
    (hlong : (c0 = 47 ∧ pm ≤ len) ∨ (c0 ≠ 47 ∧ pm ≤ dir.length + len + 1)) :
    resolvePath pm (dir ++ 0 :: tl) (c0 :: rest) len buf = .val none := by
  have hg1 : nulGuard (Gen.WasiPath.rejectsNul && !Gen.WasiPath.nulCheckAfterLength) (c0 :: rest) len = .val true := rfl
  unfold resolvePath
  rw [hg1]
  simp only [Gen.WasiPath.guardNonEmpty, Gen.WasiPath.guardAbs, Gen.WasiPath.guardRel, Gen.WasiPath.absChar,
    gt_iff_lt, hlen, decide_true, not_true_eq_false, if_false, Out.bind_val, readAt, List.getElem?_cons_zero]
  rcases hlong with ⟨h1, h2⟩ | ⟨h1, h2⟩
  · have : ¬ len < pm := by omega
    simp [h1, this]
  · rw [cstrlen_ok dir tl hdir0]
    have : ¬ dir.length + len + 1 < pm := by omega
    simp [h1, this]

/-! ### strcpy / cstr -/

theorem strcpy_split : ∀ (s r dst : Bytes), (0 : UInt8) ∉ s → s.length < dst.length →
    strcpy dst (s ++ 0 :: r) = .val (s ++ [0] ++ dst.drop (s.length + 1)) := by
  intro s
  induction s with
  | nil =>
    intro r dst _ hd
    cases dst with
    | nil => simp at hd
    | cons x t => simp [strcpy]
  | cons a t ih =>
    intro r dst h0 hd
    have ha : a ≠ 0 := by intro h; subst h; simp at h0
    have ht : (0 : UInt8) ∉ t := by intro h; exact h0 (List.mem_cons_of_mem _ h)
    cases dst with
    | nil => simp at hd
    | cons x d =>
      simp only [List.cons_append, strcpy, ha, if_false]
      rw [ih r d ht (by simpa using hd)]
      simp

@[simp] theorem cstr_nil : cstr [] = [] := rfl
@[simp] theorem cstr_cons_zero (t : Bytes) : cstr (0 :: t) = [] := by simp [cstr]
theorem cstr_cons_ne (a : UInt8) (t : Bytes) (ha : a ≠ 0) : cstr (a :: t) = a :: cstr t := by
  simp [cstr, ha]

/-- every buffer that contains a NUL splits at its first NUL -/
theorem split_at_nul (b : Bytes) (h : (0 : UInt8) ∈ b) :
    ∃ r, b = cstr b ++ 0 :: r := by
  induction b with
  | nil => simp at h
  | cons a t ih =>
    by_cases ha : a = 0
    · subst ha; exact ⟨t, by simp [cstr]⟩
    · have : (0 : UInt8) ∈ t := by
        cases h with
        | head => exact absurd rfl ha
        | tail _ h => exact h
      obtain ⟨r, hr⟩ := ih this
      refine ⟨r, ?_⟩
      rw [cstr_cons_ne a t ha, List.cons_append, ← hr]

theorem cstr_nul_free (b : Bytes) : (0 : UInt8) ∉ cstr b := by
  induction b with
  | nil => simp [cstr]
  | cons a t ih =>
    by_cases ha : a = 0
    · subst ha; simp
    · rw [cstr_cons_ne a t ha]
      intro h
      cases h with
      | head => exact ha rfl
      | tail _ h => exact ih h

theorem cstr_length_le (b : Bytes) : (cstr b).length ≤ b.length := by
  induction b with
  | nil => simp
  | cons a t ih =>
    by_cases ha : a = 0
    · subst ha; simp
    · rw [cstr_cons_ne a t ha]; simp; exact ih

/-- `strcpy(dst, src)` for a `src` buffer containing a NUL and a `dst` that can hold the string -/
theorem strcpy_ok (dst src : Bytes) (h0 : (0 : UInt8) ∈ src) (hfit : (cstr src).length < dst.length) :
    strcpy dst src = .val (cstr src ++ [0] ++ dst.drop ((cstr src).length + 1)) := by
  obtain ⟨r, hr⟩ := split_at_nul src h0
  conv => lhs; rw [hr]
  exact strcpy_split (cstr src) r dst (cstr_nul_free src) hfit

theorem cstr_strcpy (s rest : Bytes) (h : (0 : UInt8) ∉ s) : cstr (s ++ [0] ++ rest) = s := by
  rw [List.append_assoc]
  show cstr (s ++ 0 :: rest) = s
  rw [cstr_append_nul, cstr_nulfree s h]

end W2c2Verif.WasiPath
