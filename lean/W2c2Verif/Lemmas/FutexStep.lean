import W2c2Verif.Model.Futex

/-!
  Lemmas.FutexStep — inversion of `Model.Futex.stepL`: every successor of a thread is described by
  one constructor of `Step` (one per statement and branch of futex.c), or is a crash whose
  condition is spelled out by `CrashCond`.  All invariant proofs go through this relation, so the
  (large) definitional unfolding of `stepL` happens once, here.
-/
namespace W2c2Verif.Futex
open W2c2Verif.Threads

@[simp] theorem lock?_eq_some (m : Mutex) (t : Tid) (m' : Mutex) :
    Mutex.lock? m t = some m' ↔ m = none ∧ m' = some t := by
  cases m <;> simp [Mutex.lock?, eq_comm]

@[simp] theorem lock?_eq_none (m : Mutex) (t : Tid) : Mutex.lock? m t = none ↔ m ≠ none := by
  cases m <;> simp [Mutex.lock?]

@[simp] theorem unlock?_eq_some (m : Mutex) (t : Tid) (m' : Mutex) :
    Mutex.unlock? m t = some m' ↔ m = some t ∧ m' = none := by
  unfold Mutex.unlock?; split <;> simp_all [eq_comm]

@[simp] theorem unlock?_eq_none (m : Mutex) (t : Tid) : Mutex.unlock? m t = none ↔ m ≠ some t := by
  unfold Mutex.unlock?; split <;> simp_all

/-- when does the statement at `l.pc` dereference a dead object / misuse a pthread object / fail
    its assertion -/
def CrashCond (B : Nat) (g : G) (l : L) (k : Crash) : Prop :=
  match l.pc with
  | .wUnlockNe | .wUnlock | .nUnlock => k = .mutexMisuse ∧ g.mutex ≠ some l.tid
  | .wMapGet | .nMapGet => mapGet B g l.addr = .error k
  | .wMapInsert => k = .useAfterFree ∧ allLiveN g ((g.buckets (l.addr % B)).take 1) = false
  | .wPrepend =>
    (k = .nullDeref ∧ l.slot = none) ∨
    (k = .useAfterFree ∧ ∃ n, l.slot = some n ∧
      ((g.nodes n).live = false ∨ (g.waits l.wait).live = false ∨ allLiveW g ((g.nodes n).waits.take 1) = false))
  | .wCondWait =>
    (k = .useAfterFree ∧ (g.waits l.wait).live = false) ∨ (k = .mutexMisuse ∧ g.mutex ≠ some l.tid)
  | .wCheck => k = .useAfterFree ∧ (g.waits l.wait).live = false
  | .wIsTimeout => k = .useAfterFree ∧ (g.waits l.wait).live = false
  | .wRemove =>
    (k = .nullDeref ∧ l.slot = none) ∨
    (k = .useAfterFree ∧ ∃ n, l.slot = some n ∧
      ((g.nodes n).live = false ∨ (g.waits l.wait).live = false ∨ allLiveW g (g.nodes n).waits = false))
  | .wMapRemove =>
    (k = .nullDeref ∧ l.slot = none) ∨
    (∃ n, l.slot = some n ∧
      ((k = .useAfterFree ∧ (g.nodes n).live = false) ∨
       ((g.nodes n).waits = [] ∧
         (chainFind g.nodes l.addr (g.buckets (l.addr % B)) = .error k ∨
          ∃ m, chainFind g.nodes l.addr (g.buckets (l.addr % B)) = .ok (some m) ∧
            ((k = .useAfterFree ∧ allLiveN g (g.buckets (l.addr % B)) = false) ∨
             (k = .assertFail ∧ (g.nodes m).waits ≠ []))))))
  | .wFree =>
    (k = .useAfterFree ∧ (g.waits l.wait).live = false) ∨
    (k = .condMisuse ∧ g.parked.any (fun p => p.2 = l.wait) = true)
  | .nHead =>
    (k = .nullDeref ∧ l.slot = none) ∨ (k = .useAfterFree ∧ ∃ n, l.slot = some n ∧ (g.nodes n).live = false)
  | .nLoop => k = .useAfterFree ∧ ∃ w rest, l.cursor = w :: rest ∧ l.notified < l.count ∧ (g.waits w).live = false
  | .nSignal =>
    (k = .nullDeref ∧ l.cursor = []) ∨ (k = .useAfterFree ∧ ∃ w rest, l.cursor = w :: rest ∧ (g.waits w).live = false)
  | _ => False

/-- the non-crashing successors, one constructor per statement/branch -/
inductive Step (B : Nat) (g : G) (l : L) : G → L → Prop
  | idle {op : Op} {rest : List Op} (hpc : l.pc = .idle) (hp : l.prog = op :: rest) :
      Step B g l g (l.start op rest)
  | wLock (hpc : l.pc = .wLock) (hm : g.mutex = none) :
      Step B g l { g with mutex := some l.tid } { l with pc := .wLoad }
  | wLoadNe (hpc : l.pc = .wLoad) (hne : loadLE g.mem l.addr (loadWidth l.w64) ≠ expected l.w64 l.expect) :
      Step B g l g { l with loaded := loadLE g.mem l.addr (loadWidth l.w64), pc := .wUnlockNe }
  | wLoadEq (hpc : l.pc = .wLoad) (heq : loadLE g.mem l.addr (loadWidth l.w64) = expected l.w64 l.expect) :
      Step B g l g { l with loaded := loadLE g.mem l.addr (loadWidth l.w64), pc := .wAlloc }
  | wUnlockNe (hpc : l.pc = .wUnlockNe) (hm : g.mutex = some l.tid) :
      Step B g l { g with mutex := none } (l.ret 1)
  | wAlloc (hpc : l.pc = .wAlloc) :
      Step B g l { g with waits := upd g.waits (l.tid, l.serial) ⟨.waiting, true, l.tid, l.addr⟩ }
        { l with wait := (l.tid, l.serial), pc := .wMapCreate }
  | wMapCreate (hpc : l.pc = .wMapCreate) :
      Step B g l { g with mapAlloc := true } { l with pc := .wMapGet }
  | wMapGetSome {n : Id} (hpc : l.pc = .wMapGet) (hg : mapGet B g l.addr = .ok (some n)) :
      Step B g l g { l with slot := some n, pc := .wPrepend }
  | wMapGetNone (hpc : l.pc = .wMapGet) (hg : mapGet B g l.addr = .ok none) :
      Step B g l g { l with slot := none, pc := .wMapInsert }
  | wMapInsert (hpc : l.pc = .wMapInsert) (hl : allLiveN g ((g.buckets (l.addr % B)).take 1) = true) :
      Step B g l
        { g with nodes := upd g.nodes (l.tid, l.serial) ⟨l.addr, [], true⟩,
                 buckets := upd g.buckets (l.addr % B) ((l.tid, l.serial) :: g.buckets (l.addr % B)) }
        { l with slot := some (l.tid, l.serial), pc := .wPrepend }
  | wPrepend {n : Id} (hpc : l.pc = .wPrepend) (hs : l.slot = some n) (hn : (g.nodes n).live = true)
      (hw : (g.waits l.wait).live = true) (hh : allLiveW g ((g.nodes n).waits.take 1) = true) :
      Step B g l { g with nodes := upd g.nodes n { g.nodes n with waits := l.wait :: (g.nodes n).waits } }
        { l with pc := .wCondWait }
  | wCondWait (hpc : l.pc = .wCondWait) (hw : (g.waits l.wait).live = true) (hm : g.mutex = some l.tid) :
      Step B g l { g with mutex := none, parked := (l.tid, l.wait) :: g.parked }
        { l with pc := .wParked, timedOut := false }
  | wSpurious (hpc : l.pc = .wParked) (hp : (l.tid, l.wait) ∈ g.parked) :
      Step B g l { g with parked := g.parked.erase (l.tid, l.wait) } l
  | wTimeout (hpc : l.pc = .wParked) (hp : (l.tid, l.wait) ∈ g.parked) (ht : l.timeout ≥ 0) :
      Step B g l { g with parked := g.parked.erase (l.tid, l.wait) } { l with timedOut := true }
  | wReacquire (hpc : l.pc = .wParked) (hp : (l.tid, l.wait) ∉ g.parked) (hm : g.mutex = none) :
      Step B g l { g with mutex := some l.tid } { l with pc := .wCheck }
  | wCheckTimedOut (hpc : l.pc = .wCheck) (ht : l.timeout ≥ 0 ∧ l.timedOut = true) :
      Step B g l g { l with pc := .wIsTimeout }
  | wCheckNotified (hpc : l.pc = .wCheck) (ht : ¬ (l.timeout ≥ 0 ∧ l.timedOut = true))
      (hw : (g.waits l.wait).live = true) (hst : (g.waits l.wait).status = .notified) :
      Step B g l g { l with pc := .wIsTimeout }
  | wCheckAgain (hpc : l.pc = .wCheck) (ht : ¬ (l.timeout ≥ 0 ∧ l.timedOut = true))
      (hw : (g.waits l.wait).live = true) (hst : (g.waits l.wait).status ≠ .notified) :
      Step B g l g { l with pc := .wCondWait }
  | wIsTimeout (hpc : l.pc = .wIsTimeout) (hw : (g.waits l.wait).live = true) :
      Step B g l g { l with isTimeout := decide ((g.waits l.wait).status = .waiting), pc := .wRemove }
  | wRemove {n : Id} (hpc : l.pc = .wRemove) (hs : l.slot = some n) (hn : (g.nodes n).live = true)
      (hw : (g.waits l.wait).live = true) (hall : allLiveW g (g.nodes n).waits = true) :
      Step B g l { g with nodes := upd g.nodes n { g.nodes n with waits := listRemove (g.nodes n).waits l.wait } }
        { l with pc := .wMapRemove }
  | wMapRemoveKeep {n : Id} (hpc : l.pc = .wMapRemove) (hs : l.slot = some n) (hn : (g.nodes n).live = true)
      (hne : (g.nodes n).waits ≠ []) :
      Step B g l g { l with pc := .wFree }
  | wMapRemoveNone {n : Id} (hpc : l.pc = .wMapRemove) (hs : l.slot = some n) (hn : (g.nodes n).live = true)
      (he : (g.nodes n).waits = []) (hf : chainFind g.nodes l.addr (g.buckets (l.addr % B)) = .ok none) :
      Step B g l g { l with pc := .wFree }
  | wMapRemoveFree {n m : Id} (hpc : l.pc = .wMapRemove) (hs : l.slot = some n) (hn : (g.nodes n).live = true)
      (he : (g.nodes n).waits = []) (hf : chainFind g.nodes l.addr (g.buckets (l.addr % B)) = .ok (some m))
      (hall : allLiveN g (g.buckets (l.addr % B)) = true) (hme : (g.nodes m).waits = []) :
      Step B g l
        { g with buckets := upd g.buckets (l.addr % B) ((g.buckets (l.addr % B)).erase m),
                 nodes := upd g.nodes m { g.nodes m with live := false } }
        { l with pc := .wFree }
  | wFree (hpc : l.pc = .wFree) (hw : (g.waits l.wait).live = true)
      (hp : g.parked.any (fun p => p.2 = l.wait) = false) :
      Step B g l { g with waits := upd g.waits l.wait { g.waits l.wait with live := false } }
        { l with pc := .wUnlock }
  | wUnlock (hpc : l.pc = .wUnlock) (hm : g.mutex = some l.tid) :
      Step B g l { g with mutex := none } (l.ret (if l.isTimeout then 2 else 0))
  | nSharedNo (hpc : l.pc = .nShared) (hsh : g.shared = false) : Step B g l g (l.ret 0)
  | nSharedYes (hpc : l.pc = .nShared) (hsh : g.shared = true) : Step B g l g { l with pc := .nLock }
  | nLock (hpc : l.pc = .nLock) (hm : g.mutex = none) :
      Step B g l { g with mutex := some l.tid } { l with pc := .nGetMap }
  | nGetMapNull (hpc : l.pc = .nGetMap) (ha : g.mapAlloc = false) : Step B g l g { l with pc := .nUnlock }
  | nGetMapOk (hpc : l.pc = .nGetMap) (ha : g.mapAlloc = true) : Step B g l g { l with pc := .nMapGet }
  | nMapGetNone (hpc : l.pc = .nMapGet) (hg : mapGet B g l.addr = .ok none) :
      Step B g l g { l with pc := .nUnlock }
  | nMapGetSome {n : Id} (hpc : l.pc = .nMapGet) (hg : mapGet B g l.addr = .ok (some n)) :
      Step B g l g { l with slot := some n, pc := .nHead }
  | nHead {n : Id} (hpc : l.pc = .nHead) (hs : l.slot = some n) (hn : (g.nodes n).live = true) :
      Step B g l g { l with cursor := (g.nodes n).waits, pc := .nLoop }
  | nLoopEnd (hpc : l.pc = .nLoop) (hc : l.cursor = []) : Step B g l g { l with pc := .nUnlock }
  | nLoopFull {w : Id} {rest : List Id} (hpc : l.pc = .nLoop) (hc : l.cursor = w :: rest)
      (hn : ¬ l.notified < l.count) : Step B g l g { l with pc := .nUnlock }
  | nLoopMark {w : Id} {rest : List Id} (hpc : l.pc = .nLoop) (hc : l.cursor = w :: rest)
      (hn : l.notified < l.count) (hw : (g.waits w).live = true) (hst : (g.waits w).status = .waiting) :
      Step B g l
        { g with waits := upd g.waits w { g.waits w with status := .notified },
                 marks := g.marks ++ [⟨l.tid, l.serial, l.addr, w⟩] }
        { l with pc := .nSignal }
  | nLoopSkip {w : Id} {rest : List Id} (hpc : l.pc = .nLoop) (hc : l.cursor = w :: rest)
      (hn : l.notified < l.count) (hw : (g.waits w).live = true) (hst : (g.waits w).status ≠ .waiting) :
      Step B g l g { l with cursor := rest }
  | nSignal {w : Id} {rest : List Id} {ps : Parked Id} (hpc : l.pc = .nSignal) (hc : l.cursor = w :: rest)
      (hw : (g.waits w).live = true) (hps : ps ∈ g.parked.signal w) :
      Step B g l { g with parked := ps } { l with notified := l.notified + 1, cursor := rest, pc := .nLoop }
  | nUnlock (hpc : l.pc = .nUnlock) (hm : g.mutex = some l.tid) :
      Step B g l { g with mutex := none } (l.ret l.notified)
  | sPoint (hpc : l.pc = .sPoint) :
      Step B g l { g with mem := storeLE g.mem l.addr l.expect l.width } (l.ret 0)
  | crash {k : Crash} (hc : CrashCond B g l k) : Step B g l g { l with pc := .crashed k }

theorem mem_run1 {g g' : G} {l l' : L} {lab : Label} :
    (lab, g', l') ∈ run1 g l ↔ lab = .run ∧ g' = g ∧ l' = l := by
  simp [run1]

theorem mem_crash {g g' : G} {l l' : L} {lab : Label} {k : Crash} :
    (lab, g', l') ∈ crash g l k ↔ lab = .run ∧ g' = g ∧ l' = { l with pc := .crashed k } := by
  simp [crash]

set_option linter.unusedSimpArgs false in
/-- inversion: every successor is a `Step` -/
theorem step_inv {B : Nat} {g g' : G} {l l' : L} (h : (g', l') ∈ (sys B).step g l) : Step B g l g' l' := by
  simp only [sys, List.mem_map] at h
  obtain ⟨⟨lab, g'', l''⟩, hm, heq⟩ := h
  simp only [Prod.mk.injEq] at heq
  obtain ⟨rfl, rfl⟩ := heq
  unfold stepL at hm
  split at hm <;> try dsimp only at hm
  · -- idle
    rename_i hpc
    split at hm
    · simp at hm
    · rename_i op rest hp
      obtain ⟨-, rfl, rfl⟩ := mem_run1.mp hm
      exact .idle hpc hp
  · -- wLock
    rename_i hpc
    split at hm
    · rename_i m hl
      obtain ⟨-, rfl, rfl⟩ := mem_run1.mp hm
      obtain ⟨h1, rfl⟩ := (lock?_eq_some _ _ _).mp hl
      exact .wLock hpc h1
    · simp at hm
  · -- wLoad
    rename_i hpc
    by_cases heq : loadLE g.mem l.addr (loadWidth l.w64) = expected l.w64 l.expect
    · simp only [ne_eq, heq, not_true_eq_false, ↓reduceIte] at hm
      obtain ⟨-, rfl, rfl⟩ := mem_run1.mp hm
      rw [← heq]
      exact .wLoadEq hpc heq
    · simp only [ne_eq, heq, not_false_eq_true, ↓reduceIte] at hm
      obtain ⟨-, rfl, rfl⟩ := mem_run1.mp hm
      exact .wLoadNe hpc heq
  · -- wUnlockNe
    rename_i hpc
    split at hm
    · rename_i m hl
      obtain ⟨-, rfl, rfl⟩ := mem_run1.mp hm
      obtain ⟨h1, rfl⟩ := (unlock?_eq_some _ _ _).mp hl
      exact .wUnlockNe hpc h1
    · rename_i hl
      obtain ⟨-, rfl, rfl⟩ := mem_crash.mp hm
      exact .crash (by simp_all [CrashCond, or_assoc])
  · -- wAlloc
    rename_i hpc
    obtain ⟨-, rfl, rfl⟩ := mem_run1.mp hm
    exact .wAlloc hpc
  · -- wMapCreate
    rename_i hpc
    obtain ⟨-, rfl, rfl⟩ := mem_run1.mp hm
    exact .wMapCreate hpc
  · -- wMapGet
    rename_i hpc
    split at hm
    · rename_i c hg
      obtain ⟨-, rfl, rfl⟩ := mem_crash.mp hm
      exact .crash (by simp_all [CrashCond, or_assoc])
    · rename_i n hg
      obtain ⟨-, rfl, rfl⟩ := mem_run1.mp hm
      exact .wMapGetSome hpc hg
    · rename_i hg
      obtain ⟨-, rfl, rfl⟩ := mem_run1.mp hm
      exact .wMapGetNone hpc hg
  · -- wMapInsert
    rename_i hpc
    split at hm
    · rename_i hl
      obtain ⟨-, rfl, rfl⟩ := mem_crash.mp hm
      exact .crash (by simp_all [CrashCond, or_assoc])
    · rename_i hl
      obtain ⟨-, rfl, rfl⟩ := mem_run1.mp hm
      exact .wMapInsert hpc (by simpa using hl)
  · -- wPrepend
    rename_i hpc
    split at hm
    · rename_i hs
      obtain ⟨-, rfl, rfl⟩ := mem_crash.mp hm
      exact .crash (by simp_all [CrashCond, or_assoc])
    · rename_i n hs
      split at hm
      · rename_i hl
        obtain ⟨-, rfl, rfl⟩ := mem_crash.mp hm
        exact .crash (by simp_all [CrashCond, or_assoc])
      · rename_i hl
        obtain ⟨-, rfl, rfl⟩ := mem_run1.mp hm
        simp only [Bool.or_eq_true, Bool.not_eq_true', not_or, Bool.not_eq_false] at hl
        exact .wPrepend hpc hs hl.1.1 hl.1.2 hl.2
  · -- wCondWait
    rename_i hpc
    split at hm
    · rename_i hl
      obtain ⟨-, rfl, rfl⟩ := mem_crash.mp hm
      exact .crash (by simp_all [CrashCond, or_assoc])
    · rename_i hl
      split at hm
      · rename_i hu
        obtain ⟨-, rfl, rfl⟩ := mem_crash.mp hm
        exact .crash (by simp_all [CrashCond, or_assoc])
      · rename_i m hu
        obtain ⟨-, rfl, rfl⟩ := mem_run1.mp hm
        obtain ⟨h1, rfl⟩ := (unlock?_eq_some _ _ _).mp hu
        exact .wCondWait hpc (by simpa using hl) h1
  · -- wParked
    rename_i hpc
    split at hm
    · rename_i hp
      simp only [List.mem_cons] at hm
      rcases hm with hm | hm
      · simp only [Prod.mk.injEq] at hm
        obtain ⟨-, rfl, rfl⟩ := hm
        exact .wSpurious hpc hp
      · split at hm
        · rename_i ht
          simp only [List.mem_cons, Prod.mk.injEq, List.not_mem_nil, or_false] at hm
          obtain ⟨-, rfl, rfl⟩ := hm
          exact .wTimeout hpc hp ht
        · simp at hm
    · rename_i hp
      split at hm
      · rename_i m hl
        obtain ⟨-, rfl, rfl⟩ := mem_run1.mp hm
        obtain ⟨h1, rfl⟩ := (lock?_eq_some _ _ _).mp hl
        exact .wReacquire hpc hp h1
      · simp at hm
  · -- wCheck
    rename_i hpc
    split at hm
    · rename_i ht
      obtain ⟨-, rfl, rfl⟩ := mem_run1.mp hm
      exact .wCheckTimedOut hpc ht
    · rename_i ht
      split at hm
      · rename_i hl
        obtain ⟨-, rfl, rfl⟩ := mem_crash.mp hm
        exact .crash (by simp_all [CrashCond, or_assoc])
      · rename_i hl
        split at hm
        · rename_i hst
          obtain ⟨-, rfl, rfl⟩ := mem_run1.mp hm
          exact .wCheckNotified hpc ht (by simpa using hl) hst
        · rename_i hst
          obtain ⟨-, rfl, rfl⟩ := mem_run1.mp hm
          exact .wCheckAgain hpc ht (by simpa using hl) hst
  · -- wIsTimeout
    rename_i hpc
    split at hm
    · rename_i hl
      obtain ⟨-, rfl, rfl⟩ := mem_crash.mp hm
      exact .crash (by simp_all [CrashCond, or_assoc])
    · rename_i hl
      obtain ⟨-, rfl, rfl⟩ := mem_run1.mp hm
      exact .wIsTimeout hpc (by simpa using hl)
  · -- wRemove
    rename_i hpc
    split at hm
    · rename_i hs
      obtain ⟨-, rfl, rfl⟩ := mem_crash.mp hm
      exact .crash (by simp_all [CrashCond, or_assoc])
    · rename_i n hs
      split at hm
      · rename_i hl
        obtain ⟨-, rfl, rfl⟩ := mem_crash.mp hm
        exact .crash (by simp_all [CrashCond, or_assoc])
      · rename_i hl
        obtain ⟨-, rfl, rfl⟩ := mem_run1.mp hm
        simp only [Bool.or_eq_true, Bool.not_eq_true', not_or, Bool.not_eq_false] at hl
        exact .wRemove hpc hs hl.1.1 hl.1.2 hl.2
  · -- wMapRemove
    rename_i hpc
    split at hm
    · rename_i hs
      obtain ⟨-, rfl, rfl⟩ := mem_crash.mp hm
      exact .crash (by simp_all [CrashCond, or_assoc])
    · rename_i n hs
      split at hm
      · rename_i hl
        obtain ⟨-, rfl, rfl⟩ := mem_crash.mp hm
        exact .crash (by simp_all [CrashCond, or_assoc])
      · rename_i hl
        have hl' : (g.nodes n).live = true := by simpa using hl
        split at hm
        · rename_i hne
          obtain ⟨-, rfl, rfl⟩ := mem_run1.mp hm
          exact .wMapRemoveKeep hpc hs hl' hne
        · rename_i he
          have he' : (g.nodes n).waits = [] := by simpa using he
          split at hm
          · rename_i c hf
            obtain ⟨-, rfl, rfl⟩ := mem_crash.mp hm
            exact .crash (by simp_all [CrashCond, or_assoc])
          · rename_i hf
            obtain ⟨-, rfl, rfl⟩ := mem_run1.mp hm
            exact .wMapRemoveNone hpc hs hl' he' hf
          · rename_i m hf
            split at hm
            · rename_i hall
              obtain ⟨-, rfl, rfl⟩ := mem_crash.mp hm
              exact .crash (by simp_all [CrashCond, or_assoc])
            · rename_i hall
              split at hm
              · rename_i hme
                obtain ⟨-, rfl, rfl⟩ := mem_crash.mp hm
                exact .crash (by simp_all [CrashCond, or_assoc])
              · rename_i hme
                obtain ⟨-, rfl, rfl⟩ := mem_run1.mp hm
                exact .wMapRemoveFree hpc hs hl' he' hf (by simpa using hall) (by simpa using hme)
  · -- wFree
    rename_i hpc
    split at hm
    · rename_i hl
      obtain ⟨-, rfl, rfl⟩ := mem_crash.mp hm
      exact .crash (by simp_all [CrashCond, or_assoc])
    · rename_i hl
      split at hm
      · rename_i hp
        obtain ⟨-, rfl, rfl⟩ := mem_crash.mp hm
        exact .crash (by simp_all [CrashCond, or_assoc])
      · rename_i hp
        obtain ⟨-, rfl, rfl⟩ := mem_run1.mp hm
        exact .wFree hpc (by simpa using hl) (Bool.eq_false_iff.mpr hp)
  · -- wUnlock
    rename_i hpc
    split at hm
    · rename_i m hl
      obtain ⟨-, rfl, rfl⟩ := mem_run1.mp hm
      obtain ⟨h1, rfl⟩ := (unlock?_eq_some _ _ _).mp hl
      exact .wUnlock hpc h1
    · rename_i hl
      obtain ⟨-, rfl, rfl⟩ := mem_crash.mp hm
      exact .crash (by simp_all [CrashCond, or_assoc])
  · -- nShared
    rename_i hpc
    split at hm
    · rename_i hsh
      obtain ⟨-, rfl, rfl⟩ := mem_run1.mp hm
      exact .nSharedNo hpc (by simpa using hsh)
    · rename_i hsh
      obtain ⟨-, rfl, rfl⟩ := mem_run1.mp hm
      exact .nSharedYes hpc (by simpa using hsh)
  · -- nLock
    rename_i hpc
    split at hm
    · rename_i m hl
      obtain ⟨-, rfl, rfl⟩ := mem_run1.mp hm
      obtain ⟨h1, rfl⟩ := (lock?_eq_some _ _ _).mp hl
      exact .nLock hpc h1
    · simp at hm
  · -- nGetMap
    rename_i hpc
    split at hm
    · rename_i ha
      obtain ⟨-, rfl, rfl⟩ := mem_run1.mp hm
      exact .nGetMapNull hpc (by simpa using ha)
    · rename_i ha
      obtain ⟨-, rfl, rfl⟩ := mem_run1.mp hm
      exact .nGetMapOk hpc (by simpa using ha)
  · -- nMapGet
    rename_i hpc
    split at hm
    · rename_i c hg
      obtain ⟨-, rfl, rfl⟩ := mem_crash.mp hm
      exact .crash (by simp_all [CrashCond, or_assoc])
    · rename_i hg
      obtain ⟨-, rfl, rfl⟩ := mem_run1.mp hm
      exact .nMapGetNone hpc hg
    · rename_i n hg
      obtain ⟨-, rfl, rfl⟩ := mem_run1.mp hm
      exact .nMapGetSome hpc hg
  · -- nHead
    rename_i hpc
    split at hm
    · rename_i hs
      obtain ⟨-, rfl, rfl⟩ := mem_crash.mp hm
      exact .crash (by simp_all [CrashCond, or_assoc])
    · rename_i n hs
      split at hm
      · rename_i hl
        obtain ⟨-, rfl, rfl⟩ := mem_crash.mp hm
        exact .crash (by simp_all [CrashCond, or_assoc])
      · rename_i hl
        obtain ⟨-, rfl, rfl⟩ := mem_run1.mp hm
        exact .nHead hpc hs (by simpa using hl)
  · -- nLoop
    rename_i hpc
    split at hm
    · rename_i hc
      obtain ⟨-, rfl, rfl⟩ := mem_run1.mp hm
      exact .nLoopEnd hpc hc
    · rename_i w rest hc
      split at hm
      · rename_i hn
        split at hm
        · rename_i hl
          obtain ⟨-, rfl, rfl⟩ := mem_crash.mp hm
          exact .crash (by simp_all [CrashCond, or_assoc])
        · rename_i hl
          split at hm
          · rename_i hst
            obtain ⟨-, rfl, rfl⟩ := mem_run1.mp hm
            exact .nLoopMark hpc hc hn (by simpa using hl) hst
          · rename_i hst
            obtain ⟨-, rfl, rfl⟩ := mem_run1.mp hm
            exact .nLoopSkip hpc hc hn (by simpa using hl) hst
      · rename_i hn
        obtain ⟨-, rfl, rfl⟩ := mem_run1.mp hm
        exact .nLoopFull hpc hc hn
  · -- nSignal
    rename_i hpc
    split at hm
    · rename_i hc
      obtain ⟨-, rfl, rfl⟩ := mem_crash.mp hm
      exact .crash (by simp_all [CrashCond, or_assoc])
    · rename_i w rest hc
      split at hm
      · rename_i hl
        obtain ⟨-, rfl, rfl⟩ := mem_crash.mp hm
        exact .crash (by simp_all [CrashCond, or_assoc])
      · rename_i hl
        simp only [List.mem_map, Prod.mk.injEq] at hm
        obtain ⟨ps, hps, -, rfl, rfl⟩ := hm
        exact .nSignal hpc hc (by simpa using hl) hps
  · -- nUnlock
    rename_i hpc
    split at hm
    · rename_i m hl
      obtain ⟨-, rfl, rfl⟩ := mem_run1.mp hm
      obtain ⟨h1, rfl⟩ := (unlock?_eq_some _ _ _).mp hl
      exact .nUnlock hpc h1
    · rename_i hl
      obtain ⟨-, rfl, rfl⟩ := mem_crash.mp hm
      exact .crash (by simp_all [CrashCond, or_assoc])
  · -- sPoint
    rename_i hpc
    obtain ⟨-, rfl, rfl⟩ := mem_run1.mp hm
    exact .sPoint hpc
  · simp at hm

end W2c2Verif.Futex
