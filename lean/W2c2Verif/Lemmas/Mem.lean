/-
  Lemmas.Mem — the byte-assembling primitives of CSem.Mem expressed through the
  specification's little-endian value (`Spec.leValue`) and byte-wise store (`Spec.storeBytes`).
-/
import W2c2Verif.Spec.Mem
import Std.Tactic.BVDecide

namespace W2c2Verif
open Spec

theorem append8_toNat {w : Nat} (x : BitVec w) (b : BitVec 8) : (x ++ b).toNat = x.toNat * 256 + b.toNat := by
  rw [BitVec.toNat_append]
  have hb : b.toNat < 2 ^ 8 := b.isLt
  rw [← Nat.shiftLeft_add_eq_or_of_lt hb, Nat.shiftLeft_eq]

theorem Mem.readLE8_eq (m : Mem) (a : Nat) : m.readLE8 a = BitVec.ofNat 8 (leValue m a 1) := by
  apply BitVec.eq_of_toNat_eq
  have h0 := (m.rd a).isLt
  simp only [Mem.readLE8, leValue, BitVec.toNat_ofNat]; omega

theorem Mem.readLE16_eq (m : Mem) (a : Nat) : m.readLE16 a = BitVec.ofNat 16 (leValue m a 2) := by
  apply BitVec.eq_of_toNat_eq
  have h0 := (m.rd a).isLt; have h1 := (m.rd (a + 1)).isLt
  simp only [Mem.readLE16, leValue, append8_toNat, BitVec.toNat_ofNat]; omega

theorem Mem.readLE32_eq (m : Mem) (a : Nat) : m.readLE32 a = BitVec.ofNat 32 (leValue m a 4) := by
  apply BitVec.eq_of_toNat_eq
  have h0 := (m.rd a).isLt; have h1 := (m.rd (a + 1)).isLt
  have h2 := (m.rd (a + 2)).isLt; have h3 := (m.rd (a + 3)).isLt
  simp only [Mem.readLE32, leValue, append8_toNat, BitVec.toNat_ofNat, Nat.add_assoc, Nat.reduceAdd]; omega

theorem Mem.readLE64_eq (m : Mem) (a : Nat) : m.readLE64 a = BitVec.ofNat 64 (leValue m a 8) := by
  apply BitVec.eq_of_toNat_eq
  have h0 := (m.rd a).isLt; have h1 := (m.rd (a + 1)).isLt
  have h2 := (m.rd (a + 2)).isLt; have h3 := (m.rd (a + 3)).isLt
  have h4 := (m.rd (a + 4)).isLt; have h5 := (m.rd (a + 5)).isLt
  have h6 := (m.rd (a + 6)).isLt; have h7 := (m.rd (a + 7)).isLt
  simp only [Mem.readLE64, leValue, append8_toNat, BitVec.toNat_ofNat, Nat.add_assoc, Nat.reduceAdd]; omega

theorem extract8 {w : Nat} (v : BitVec w) (k : Nat) :
    v.extractLsb' k 8 = BitVec.ofNat 8 (v.toNat / 2 ^ k % 256) := by
  apply BitVec.eq_of_toNat_eq
  simp [BitVec.extractLsb'_toNat, Nat.shiftRight_eq_div_pow]

theorem Mem.writeLE8_eq (m : Mem) (a : Nat) (v : BitVec 8) : m.writeLE8 a v = Spec.store 1 m a v := by
  simp only [Mem.writeLE8, Spec.store, Spec.storeBytes]
  congr 1; apply BitVec.eq_of_toNat_eq; have := v.isLt; simp; omega

theorem Mem.writeLE16_eq (m : Mem) (a : Nat) (v : BitVec 16) : m.writeLE16 a v = Spec.store 2 m a v := by
  simp only [Mem.writeLE16, Spec.store, Spec.storeBytes, extract8, Nat.div_div_eq_div_mul]
  simp

theorem Mem.writeLE32_eq (m : Mem) (a : Nat) (v : BitVec 32) : m.writeLE32 a v = Spec.store 4 m a v := by
  simp only [Mem.writeLE32, Spec.store, Spec.storeBytes, extract8, Nat.div_div_eq_div_mul, Nat.add_assoc]
  simp

theorem Mem.writeLE64_eq (m : Mem) (a : Nat) (v : BitVec 64) : m.writeLE64 a v = Spec.store 8 m a v := by
  simp only [Mem.writeLE64, Spec.store, Spec.storeBytes, extract8, Nat.div_div_eq_div_mul, Nat.add_assoc]
  simp

theorem Spec.storeBytes_mod (k : Nat) : ∀ (m : Mem) (a v : Nat), storeBytes m a k (v % 256 ^ k) = storeBytes m a k v := by
  induction k with
  | zero => intro m a v; rfl
  | succ k ih =>
    intro m a v
    simp only [storeBytes]
    have h1 : v % 256 ^ (k + 1) % 256 = v % 256 := by
      rw [Nat.pow_succ, Nat.mul_comm]; exact Nat.mod_mul_right_mod v 256 (256 ^ k)
    have h2 : v % 256 ^ (k + 1) / 256 = (v / 256) % 256 ^ k := by
      rw [Nat.pow_succ, Nat.mul_comm, Nat.mod_mul_right_div_self]
    rw [h1, h2, ih]

theorem Spec.store_setWidth32 (m : Mem) (a : Nat) (v : BitVec 64) : Spec.store 4 m a (v.setWidth 32) = Spec.store 4 m a v := by
  simp only [Spec.store, BitVec.toNat_setWidth]; exact Spec.storeBytes_mod 4 m a v.toNat
theorem Spec.store_setWidth16 {N : Nat} (m : Mem) (a : Nat) (v : BitVec N) : Spec.store 2 m a (v.setWidth 16) = Spec.store 2 m a v := by
  simp only [Spec.store, BitVec.toNat_setWidth]; exact Spec.storeBytes_mod 2 m a v.toNat
theorem Spec.store_setWidth8 {N : Nat} (m : Mem) (a : Nat) (v : BitVec N) : Spec.store 1 m a (v.setWidth 8) = Spec.store 1 m a v := by
  simp only [Spec.store, BitVec.toNat_setWidth]; exact Spec.storeBytes_mod 1 m a v.toNat

/-- a store changes exactly the bytes `[a, a+k)` and never the size -/
theorem Spec.storeBytes_frame (k : Nat) : ∀ (m : Mem) (a v i : Nat), (i < a ∨ a + k ≤ i) →
    (storeBytes m a k v).rd i = m.rd i ∧ (storeBytes m a k v).size = m.size := by
  induction k with
  | zero => intro m a v i _; exact ⟨rfl, rfl⟩
  | succ k ih =>
    intro m a v i h
    simp only [storeBytes]
    have := ih (m.wr a (BitVec.ofNat 8 (v % 256))) (a + 1) (v / 256) i (by omega)
    refine ⟨?_, ?_⟩
    · rw [this.1]; simp only [Mem.rd, Mem.wr]; have : i ≠ a := by omega
      simp [this]
    · rw [this.2]; rfl

/-- reading back the `k` bytes just stored yields the value's low `8k` bits (little-endian round trip) -/
theorem Spec.leValue_storeBytes (k : Nat) : ∀ (m : Mem) (a v : Nat), leValue (storeBytes m a k v) a k = v % 256 ^ k := by
  induction k with
  | zero => intro m a v; simp [leValue, Nat.mod_one]
  | succ k ih =>
    intro m a v
    simp only [storeBytes, leValue]
    rw [ih]
    have hfr := (Spec.storeBytes_frame k (m.wr a (BitVec.ofNat 8 (v % 256))) (a + 1) (v / 256) a (by omega)).1
    rw [hfr]
    simp only [Mem.rd, Mem.wr, if_true, BitVec.toNat_ofNat]
    have : v % 256 % 2 ^ 8 = v % 256 := by omega
    rw [this, Nat.pow_succ, Nat.mul_comm (256 ^ k) 256, Nat.mod_mul]

theorem Spec.leValue_lt (k : Nat) : ∀ (m : Mem) (a : Nat), leValue m a k < 256 ^ k := by
  induction k with
  | zero => intro m a; simp [leValue]
  | succ k ih =>
    intro m a
    have h0 := (m.rd a).isLt
    have h1 := ih m (a + 1)
    simp only [leValue, Nat.pow_succ]; omega

theorem setWidth_ofNat_of_lt {w v : Nat} (n : Nat) (h : n < 2 ^ w) (hwv : w ≤ v) :
    (BitVec.ofNat w n).setWidth v = BitVec.ofNat v n := by
  apply BitVec.eq_of_toNat_eq
  have : 2 ^ w ≤ 2 ^ v := Nat.pow_le_pow_right (by decide) hwv
  simp only [BitVec.toNat_setWidth, BitVec.toNat_ofNat]
  rw [Nat.mod_eq_of_lt h, Nat.mod_eq_of_lt (by omega)]

theorem Spec.zext8 (m : Mem) (a N : Nat) (h : 8 ≤ N) :
    (BitVec.ofNat 8 (leValue m a 1)).setWidth N = BitVec.ofNat N (leValue m a 1) :=
  setWidth_ofNat_of_lt _ (by have := Spec.leValue_lt 1 m a; simpa using this) h
theorem Spec.zext16 (m : Mem) (a N : Nat) (h : 16 ≤ N) :
    (BitVec.ofNat 16 (leValue m a 2)).setWidth N = BitVec.ofNat N (leValue m a 2) :=
  setWidth_ofNat_of_lt _ (by have := Spec.leValue_lt 2 m a; simpa using this) h
theorem Spec.zext32 (m : Mem) (a N : Nat) (h : 32 ≤ N) :
    (BitVec.ofNat 32 (leValue m a 4)).setWidth N = BitVec.ofNat N (leValue m a 4) :=
  setWidth_ofNat_of_lt _ (by have := Spec.leValue_lt 4 m a; simpa using this) h

/-! ### one byte reversal turns the big-endian host view into the little-endian one -/

theorem Mem.bswap_readBE16 (m : Mem) (a : Nat) : CPrim.bswap16 (m.readBE16 a) = m.readLE16 a := by
  simp only [CPrim.bswap16, Mem.readBE16, Mem.readLE16]; bv_decide
theorem Mem.bswap_readBE32 (m : Mem) (a : Nat) : CPrim.bswap32 (m.readBE32 a) = m.readLE32 a := by
  simp only [CPrim.bswap32, Mem.readBE32, Mem.readLE32]; bv_decide
theorem Mem.bswap_readBE64 (m : Mem) (a : Nat) : CPrim.bswap64 (m.readBE64 a) = m.readLE64 a := by
  simp only [CPrim.bswap64, Mem.readBE64, Mem.readLE64]; bv_decide

theorem Mem.writeBE16_bswap (m : Mem) (a : Nat) (v : BitVec 16) : m.writeBE16 a (CPrim.bswap16 v) = m.writeLE16 a v := by
  simp only [Mem.writeBE16, Mem.writeLE16, CPrim.bswap16]
  have h1 : BitVec.extractLsb' 8 8 (BitVec.extractLsb' 0 8 v ++ BitVec.extractLsb' 8 8 v) = BitVec.extractLsb' 0 8 v := by bv_decide
  have h0 : BitVec.extractLsb' 0 8 (BitVec.extractLsb' 0 8 v ++ BitVec.extractLsb' 8 8 v) = BitVec.extractLsb' 8 8 v := by bv_decide
  rw [h1, h0]
theorem Mem.writeBE32_bswap (m : Mem) (a : Nat) (v : BitVec 32) : m.writeBE32 a (CPrim.bswap32 v) = m.writeLE32 a v := by
  simp only [Mem.writeBE32, Mem.writeLE32, CPrim.bswap32]
  have h3 : BitVec.extractLsb' 24 8 (v.extractLsb' 0 8 ++ v.extractLsb' 8 8 ++ v.extractLsb' 16 8 ++ v.extractLsb' 24 8) = v.extractLsb' 0 8 := by bv_decide
  have h2 : BitVec.extractLsb' 16 8 (v.extractLsb' 0 8 ++ v.extractLsb' 8 8 ++ v.extractLsb' 16 8 ++ v.extractLsb' 24 8) = v.extractLsb' 8 8 := by bv_decide
  have h1 : BitVec.extractLsb' 8 8 (v.extractLsb' 0 8 ++ v.extractLsb' 8 8 ++ v.extractLsb' 16 8 ++ v.extractLsb' 24 8) = v.extractLsb' 16 8 := by bv_decide
  have h0 : BitVec.extractLsb' 0 8 (v.extractLsb' 0 8 ++ v.extractLsb' 8 8 ++ v.extractLsb' 16 8 ++ v.extractLsb' 24 8) = v.extractLsb' 24 8 := by bv_decide
  rw [h3, h2, h1, h0]
theorem Mem.writeBE64_bswap (m : Mem) (a : Nat) (v : BitVec 64) : m.writeBE64 a (CPrim.bswap64 v) = m.writeLE64 a v := by
  simp only [Mem.writeBE64, Mem.writeLE64]
  have h7 : BitVec.extractLsb' 56 8 (CPrim.bswap64 v) = v.extractLsb' 0 8 := by simp only [CPrim.bswap64]; bv_decide
  have h6 : BitVec.extractLsb' 48 8 (CPrim.bswap64 v) = v.extractLsb' 8 8 := by simp only [CPrim.bswap64]; bv_decide
  have h5 : BitVec.extractLsb' 40 8 (CPrim.bswap64 v) = v.extractLsb' 16 8 := by simp only [CPrim.bswap64]; bv_decide
  have h4 : BitVec.extractLsb' 32 8 (CPrim.bswap64 v) = v.extractLsb' 24 8 := by simp only [CPrim.bswap64]; bv_decide
  have h3 : BitVec.extractLsb' 24 8 (CPrim.bswap64 v) = v.extractLsb' 32 8 := by simp only [CPrim.bswap64]; bv_decide
  have h2 : BitVec.extractLsb' 16 8 (CPrim.bswap64 v) = v.extractLsb' 40 8 := by simp only [CPrim.bswap64]; bv_decide
  have h1 : BitVec.extractLsb' 8 8 (CPrim.bswap64 v) = v.extractLsb' 48 8 := by simp only [CPrim.bswap64]; bv_decide
  have h0 : BitVec.extractLsb' 0 8 (CPrim.bswap64 v) = v.extractLsb' 56 8 := by simp only [CPrim.bswap64]; bv_decide
  rw [h7, h6, h5, h4, h3, h2, h1, h0]

theorem ofNat_mod8 {N : Nat} (v : BitVec N) : BitVec.ofNat 8 (v.toNat % 256) = v.setWidth 8 := by
  apply BitVec.eq_of_toNat_eq; simp
theorem ofNat_mod16 {N : Nat} (v : BitVec N) : BitVec.ofNat 16 (v.toNat % 65536) = v.setWidth 16 := by
  apply BitVec.eq_of_toNat_eq; simp
theorem ofNat_mod32 {N : Nat} (v : BitVec N) : BitVec.ofNat 32 (v.toNat % 4294967296) = v.setWidth 32 := by
  apply BitVec.eq_of_toNat_eq; simp
theorem ofNat_mod64 {N : Nat} (v : BitVec N) : BitVec.ofNat 64 (v.toNat % 18446744073709551616) = v.setWidth 64 := by
  apply BitVec.eq_of_toNat_eq; simp

theorem Spec.storeBytes_mod1 (m : Mem) (a v : Nat) : storeBytes m a 1 (v % 256) = storeBytes m a 1 v := Spec.storeBytes_mod 1 m a v
theorem Spec.storeBytes_mod2 (m : Mem) (a v : Nat) : storeBytes m a 2 (v % 65536) = storeBytes m a 2 v := Spec.storeBytes_mod 2 m a v
theorem Spec.storeBytes_mod4 (m : Mem) (a v : Nat) : storeBytes m a 4 (v % 4294967296) = storeBytes m a 4 v := Spec.storeBytes_mod 4 m a v

end W2c2Verif
