/-
  Lemmas.ExecRefine — the emitted-C semantics is monotone in its parameters: if the numeric / memory / call
  semantics `B` agrees with `A` wherever `A` is defined (not undefined behaviour), then every execution that does not
  get stuck under `A` is the same execution under `B`.  Used to replace, on the emitted-C side only, the
  specification's numeric functions by the C semantics of the regenerated header macros.
-/
import W2c2Verif.Lemmas.SimBasic

namespace W2c2Verif.Sim
open W2c2Verif Model Gen Spec

/-- `o` is a value or a trap -/
def Out.Defined {α : Type} : Out α → Prop | .val _ => True | .trap _ => True | _ => False

/-- `o` is not undefined behaviour -/
def Out.NoUB {α : Type} : Out α → Prop | .ub _ => False | _ => True

structure ExecRef (A B : NumSem) : Prop where
  sem : ∀ op args, Out.Defined (A.sem op args) → B.sem op args = A.sem op args
  call : ∀ fn args g, Out.NoUB (A.callT fn args g) → B.callT fn args g = A.callT fn args g
  ind : ∀ ty i args g, Out.NoUB (A.indT ty i args g) → B.indT ty i args g = A.indT ty i args g
  load : ∀ fn m ea, Out.NoUB (A.loadT fn m ea) → B.loadT fn m ea = A.loadT fn m ea
  store : ∀ fn m ea v, Out.NoUB (A.storeT fn m ea v) → B.storeT fn m ea v = A.storeT fn m ea v
  grow : B.grow = A.grow
  bulk : ∀ op m a b c, Out.NoUB (A.bulkT op m a b c) → B.bulkT op m a b c = A.bulkT op m a b c
  rmw : ∀ fn m ea args, Out.NoUB (A.rmwT fn m ea args) → B.rmwT fn m ea args = A.rmwT fn m ea args

theorem exec_refine (A B : NumSem) (hab : ExecRef A B) : ∀ f,
    (∀ out σ r, execSeq A f out σ = r → r ≠ .stuck → execSeq B f out σ = r) ∧
    (∀ s σ r, execStmt A f s σ = r → r ≠ .stuck → execStmt B f s σ = r) := by
  intro f
  induction f with
  | zero =>
    constructor
    · intro out σ r h _; simp only [execSeq] at h ⊢; exact h
    · intro s σ r h _; simp only [execStmt] at h ⊢; exact h
  | succ f ih =>
    obtain ⟨ihS, ihI⟩ := ih
    constructor
    · intro out σ r h hr
      cases out with
      | nil => simp only [execSeq] at h ⊢; exact h
      | cons s rest =>
        simp only [execSeq] at h ⊢
        cases hs : execStmt A f s σ with
        | normal σ' =>
          rw [hs] at h
          rw [ihI s σ _ hs (by simp)]
          exact ihS rest σ' r h hr
        | jump L σ' => rw [hs] at h; rw [ihI s σ _ hs (by simp)]; exact h
        | trap t => rw [hs] at h; rw [ihI s σ _ hs (by simp)]; exact h
        | oof => rw [hs] at h; rw [ihI s σ _ hs (by simp)]; exact h
        | stuck => rw [hs] at h; exact absurd h.symm hr
    · intro s σ r h hr
      cases s with
      | block body L =>
        simp only [execStmt] at h ⊢
        cases hb : execSeq A f body σ with
        | stuck => rw [hb] at h; exact absurd h.symm hr
        | normal σ' => rw [hb] at h; rw [ihS body σ _ hb (by simp)]; exact h
        | jump L' σ' => rw [hb] at h; rw [ihS body σ _ hb (by simp)]; exact h
        | trap t => rw [hb] at h; rw [ihS body σ _ hb (by simp)]; exact h
        | oof => rw [hb] at h; rw [ihS body σ _ hb (by simp)]; exact h
      | loop L body =>
        simp only [execStmt] at h ⊢
        cases hb : execSeq A f body σ with
        | stuck => rw [hb] at h; exact absurd h.symm hr
        | normal σ' => rw [hb] at h; rw [ihS body σ _ hb (by simp)]; exact h
        | jump L' σ' =>
          rw [hb] at h; rw [ihS body σ _ hb (by simp)]
          by_cases hL : L' = L
          · simp only [hL, if_true] at h ⊢
            exact ihI _ σ' r h hr
          · simp only [hL, if_false] at h ⊢; exact h
        | trap t => rw [hb] at h; rw [ihS body σ _ hb (by simp)]; exact h
        | oof => rw [hb] at h; rw [ihS body σ _ hb (by simp)]; exact h
      | ifElse c thn els L =>
        simp only [execStmt] at h ⊢
        by_cases hc : isTrue (σ.get c) = true
        · simp only [hc, if_true] at h ⊢
          cases hb : execSeq A f thn σ with
          | stuck => rw [hb] at h; exact absurd h.symm hr
          | normal σ' => rw [hb] at h; rw [ihS thn σ _ hb (by simp)]; exact h
          | jump L' σ' => rw [hb] at h; rw [ihS thn σ _ hb (by simp)]; exact h
          | trap t => rw [hb] at h; rw [ihS thn σ _ hb (by simp)]; exact h
          | oof => rw [hb] at h; rw [ihS thn σ _ hb (by simp)]; exact h
        · simp only [hc] at h ⊢
          cases els with
          | some e =>
            simp only [] at h ⊢
            cases hb : execSeq A f e σ with
            | stuck => rw [hb] at h; exact absurd h.symm hr
            | normal σ' => rw [hb] at h; rw [ihS e σ _ hb (by simp)]; exact h
            | jump L' σ' => rw [hb] at h; rw [ihS e σ _ hb (by simp)]; exact h
            | trap t => rw [hb] at h; rw [ihS e σ _ hb (by simp)]; exact h
            | oof => rw [hb] at h; rw [ihS e σ _ hb (by simp)]; exact h
          | none =>
            simp only [] at h ⊢
            cases hb : execSeq A f [] σ with
            | stuck => rw [hb] at h; exact absurd h.symm hr
            | normal σ' => rw [hb] at h; rw [ihS [] σ _ hb (by simp)]; exact h
            | jump L' σ' => rw [hb] at h; rw [ihS [] σ _ hb (by simp)]; exact h
            | trap t => rw [hb] at h; rw [ihS [] σ _ hb (by simp)]; exact h
            | oof => rw [hb] at h; rw [ihS [] σ _ hb (by simp)]; exact h
      | num opcode k t1 i1 t0 i0 =>
        simp only [execStmt] at h ⊢
        cases hv : A.sem opcode ((numSlots opcode k t1 i1 t0 i0).2.map σ.get) with
        | val v => rw [hab.sem _ _ (by rw [hv]; trivial), hv]; rw [hv] at h; exact h
        | trap t => rw [hab.sem _ _ (by rw [hv]; trivial), hv]; rw [hv] at h; exact h
        | ub k => rw [hv] at h; exact absurd h.symm hr
        | oof => rw [hv] at h; exact absurd h.symm hr
      | load dst fn addr off =>
        simp only [execStmt] at h ⊢
        cases hv : A.loadT fn σ.store.g.mem ((σ.get addr).bits + off) with
        | ub k => rw [hv] at h; exact absurd h.symm hr
        | val v => rw [hab.load _ _ _ (by rw [hv]; trivial), hv]; rw [hv] at h; exact h
        | trap t => rw [hab.load _ _ _ (by rw [hv]; trivial), hv]; rw [hv] at h; exact h
        | oof => rw [hab.load _ _ _ (by rw [hv]; trivial), hv]; rw [hv] at h; exact h
      | store fn addr off v =>
        simp only [execStmt] at h ⊢
        cases hv : A.storeT fn σ.store.g.mem ((σ.get addr).bits + off) (σ.get v) with
        | ub k => rw [hv] at h; exact absurd h.symm hr
        | val v => rw [hab.store _ _ _ _ (by rw [hv]; trivial), hv]; rw [hv] at h; exact h
        | trap t => rw [hab.store _ _ _ _ (by rw [hv]; trivial), hv]; rw [hv] at h; exact h
        | oof => rw [hab.store _ _ _ _ (by rw [hv]; trivial), hv]; rw [hv] at h; exact h
      | memGrow dst src => simp only [execStmt, hab.grow] at h ⊢; exact h
      | call res fn args =>
        simp only [execStmt] at h ⊢
        cases hv : A.callT fn (args.map σ.get) σ.store.g with
        | ub k => rw [hv] at h; exact absurd h.symm hr
        | val v => rw [hab.call _ _ _ (by rw [hv]; trivial), hv]; rw [hv] at h; exact h
        | trap t => rw [hab.call _ _ _ (by rw [hv]; trivial), hv]; rw [hv] at h; exact h
        | oof => rw [hab.call _ _ _ (by rw [hv]; trivial), hv]; rw [hv] at h; exact h
      | callIndirect res ty tbl idx args =>
        simp only [execStmt] at h ⊢
        cases hv : A.indT ty (σ.get idx).bits (args.map σ.get) σ.store.g with
        | ub k => rw [hv] at h; exact absurd h.symm hr
        | val v => rw [hab.ind _ _ _ _ (by rw [hv]; trivial), hv]; rw [hv] at h; exact h
        | trap t => rw [hab.ind _ _ _ _ (by rw [hv]; trivial), hv]; rw [hv] at h; exact h
        | oof => rw [hab.ind _ _ _ _ (by rw [hv]; trivial), hv]; rw [hv] at h; exact h
      | memCopy d s n =>
        simp only [execStmt, execBulk] at h ⊢
        cases hv : A.bulkT .copy σ.store.g.mem (σ.get d).bits (σ.get s).bits (σ.get n).bits with
        | ub k => rw [hv] at h; exact absurd h.symm hr
        | val v => rw [hab.bulk _ _ _ _ _ (by rw [hv]; trivial), hv]; rw [hv] at h; exact h
        | trap t => rw [hab.bulk _ _ _ _ _ (by rw [hv]; trivial), hv]; rw [hv] at h; exact h
        | oof => rw [hab.bulk _ _ _ _ _ (by rw [hv]; trivial), hv]; rw [hv] at h; exact h
      | memFill d v n =>
        simp only [execStmt, execBulk] at h ⊢
        cases hv : A.bulkT .fill σ.store.g.mem (σ.get d).bits (σ.get v).bits (σ.get n).bits with
        | ub k => rw [hv] at h; exact absurd h.symm hr
        | val v => rw [hab.bulk _ _ _ _ _ (by rw [hv]; trivial), hv]; rw [hv] at h; exact h
        | trap t => rw [hab.bulk _ _ _ _ _ (by rw [hv]; trivial), hv]; rw [hv] at h; exact h
        | oof => rw [hab.bulk _ _ _ _ _ (by rw [hv]; trivial), hv]; rw [hv] at h; exact h
      | memInit seg d s n =>
        simp only [execStmt, execBulk] at h ⊢
        cases hv : A.bulkT (.init seg) σ.store.g.mem (σ.get d).bits (σ.get s).bits (σ.get n).bits with
        | ub k => rw [hv] at h; exact absurd h.symm hr
        | val v => rw [hab.bulk _ _ _ _ _ (by rw [hv]; trivial), hv]; rw [hv] at h; exact h
        | trap t => rw [hab.bulk _ _ _ _ _ (by rw [hv]; trivial), hv]; rw [hv] at h; exact h
        | oof => rw [hab.bulk _ _ _ _ _ (by rw [hv]; trivial), hv]; rw [hv] at h; exact h
      | rmw dst fn addr off args =>
        simp only [execStmt] at h ⊢
        cases hv : A.rmwT fn σ.store.g.mem ((σ.get addr).bits + off) (args.map σ.get) with
        | ub k => rw [hv] at h; exact absurd h.symm hr
        | val v => rw [hab.rmw _ _ _ _ (by rw [hv]; trivial), hv]; rw [hv] at h; exact h
        | trap t => rw [hab.rmw _ _ _ _ (by rw [hv]; trivial), hv]; rw [hv] at h; exact h
        | oof => rw [hab.rmw _ _ _ _ (by rw [hv]; trivial), hv]; rw [hv] at h; exact h
      | _ => simp only [execStmt] at h ⊢; exact h

/-- whole functions: a result other than `stuck` is preserved -/
theorem runFuncTgt_refine (A B : NumSem) (hab : ExecRef A B) (fuel : Nat) (cf : Model.CFunc) (args : List Val) (g : GS)
    (h : runFuncTgt A fuel cf args g ≠ .stuck) :
    runFuncTgt B fuel cf args g = runFuncTgt A fuel cf args g := by
  unfold runFuncTgt at h ⊢
  have hns : execSeq A fuel cf.body (initMSt cf.localTypes args g) ≠ .stuck := by
    intro hs; rw [hs] at h; exact h rfl
  rw [(exec_refine A B hab fuel).1 _ _ _ rfl hns]

end W2c2Verif.Sim
