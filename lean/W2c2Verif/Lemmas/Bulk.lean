/-
  Lemmas.Bulk — the specification's byte-by-byte reductions of memory.fill / copy / init equal the libc contracts
  the runtime relies on: memset, memmove ("as if through a temporary": every destination byte receives the ORIGINAL
  source byte, whatever the overlap) and memcpy from the segment.
-/
import W2c2Verif.Spec.Bulk

namespace W2c2Verif
open Spec

theorem Mem.ext' {a b : Mem} (hs : a.size = b.size) (hb : ∀ i, a.bytes i = b.bytes i) : a = b := by
  cases a; cases b; simp only [Mem.mk.injEq]; exact ⟨funext hb, hs⟩

@[simp] theorem Mem.wr_size (m : Mem) (a : Nat) (b : BitVec 8) : (m.wr a b).size = m.size := rfl

theorem fillSteps_size (v : Nat) : ∀ (n : Nat) (m : Mem) (d : Nat), (fillSteps m d v n).size = m.size
  | 0, _, _ => rfl
  | n + 1, m, d => by simp [fillSteps, fillSteps_size v n]

theorem fillSteps_bytes (v : Nat) : ∀ (n : Nat) (m : Mem) (d i : Nat),
    (fillSteps m d v n).bytes i = if d ≤ i ∧ i < d + n then BitVec.ofNat 8 v else m.bytes i
  | 0, m, d, i => by simp [fillSteps]; omega
  | n + 1, m, d, i => by
    rw [fillSteps, fillSteps_bytes v n]
    simp only [Mem.wr]
    by_cases h1 : d + 1 ≤ i ∧ i < d + 1 + n
    · have : d ≤ i ∧ i < d + (n + 1) := by omega
      simp [h1, this]
    · by_cases h2 : i = d
      · subst h2; simp
      · have : ¬ (d ≤ i ∧ i < d + (n + 1)) := by omega
        simp [h1, h2, this]

/-- **memory.fill = memset** -/
theorem fill_eq_memset (m : Mem) (d v n : Nat) : fillSteps m d v n = m.memset d v n :=
  Mem.ext' (fillSteps_size v n m d) (fun i => by rw [fillSteps_bytes]; rfl)

theorem initSteps_size (seg : List UInt8) : ∀ (n : Nat) (m : Mem) (d s : Nat), (initSteps seg m d s n).size = m.size
  | 0, _, _, _ => rfl
  | n + 1, m, d, s => by simp [initSteps, initSteps_size seg n]

theorem initSteps_bytes (seg : List UInt8) : ∀ (n : Nat) (m : Mem) (d s i : Nat),
    (initSteps seg m d s n).bytes i = if d ≤ i ∧ i < d + n then BitVec.ofNat 8 (seg.getD (s + (i - d)) 0).toNat else m.bytes i
  | 0, m, d, s, i => by simp [initSteps]; omega
  | n + 1, m, d, s, i => by
    rw [initSteps, initSteps_bytes seg n]
    simp only [Mem.wr]
    by_cases h1 : d + 1 ≤ i ∧ i < d + 1 + n
    · have h : d ≤ i ∧ i < d + (n + 1) := by omega
      have e : s + 1 + (i - (d + 1)) = s + (i - d) := by omega
      simp [h1, h, e]
    · by_cases h2 : i = d
      · subst h2
        have h3 : ¬ (i + 1 ≤ i) := by omega
        simp [h3]
      · have : ¬ (d ≤ i ∧ i < d + (n + 1)) := by omega
        simp [h1, h2, this]

/-- **memory.init = memcpy from the segment** -/
theorem init_eq_memcpy (seg : List UInt8) (m : Mem) (d s n : Nat) : initSteps seg m d s n = m.memcpyFrom seg d s n :=
  Mem.ext' (initSteps_size seg n m d s) (fun i => by rw [initSteps_bytes]; rfl)

theorem copyFwd_size : ∀ (n : Nat) (m : Mem) (d s : Nat), (copyFwd m d s n).size = m.size
  | 0, _, _, _ => rfl
  | n + 1, m, d, s => by simp [copyFwd, copyFwd_size n]

theorem copyBwd_size : ∀ (n : Nat) (m : Mem) (d s : Nat), (copyBwd m d s n).size = m.size
  | 0, _, _, _ => rfl
  | n + 1, m, d, s => by simp [copyBwd, copyBwd_size n]

/-- forward copying with d ≤ s never reads a byte it has already overwritten -/
theorem copyFwd_bytes : ∀ (n : Nat) (m : Mem) (d s i : Nat), d ≤ s →
    (copyFwd m d s n).bytes i = if d ≤ i ∧ i < d + n then m.bytes (s + (i - d)) else m.bytes i
  | 0, m, d, s, i, _ => by simp [copyFwd]; omega
  | n + 1, m, d, s, i, h => by
    rw [copyFwd, copyFwd_bytes n _ _ _ _ (by omega)]
    simp only [Mem.wr, Mem.rd]
    by_cases h1 : d + 1 ≤ i ∧ i < d + 1 + n
    · have h' : d ≤ i ∧ i < d + (n + 1) := by omega
      have e : s + 1 + (i - (d + 1)) = s + (i - d) := by omega
      have ne : s + (i - d) ≠ d := by omega
      simp [h1, h', e, ne]
    · by_cases h2 : i = d
      · subst h2
        have h3 : ¬ (i + 1 ≤ i) := by omega
        simp [h3]
      · have : ¬ (d ≤ i ∧ i < d + (n + 1)) := by omega
        simp [h1, h2, this]

/-- backward copying with s < d never reads a byte it has already overwritten -/
theorem copyBwd_bytes : ∀ (n : Nat) (m : Mem) (d s i : Nat), s < d →
    (copyBwd m d s n).bytes i = if d ≤ i ∧ i < d + n then m.bytes (s + (i - d)) else m.bytes i
  | 0, m, d, s, i, _ => by simp [copyBwd]; omega
  | n + 1, m, d, s, i, h => by
    rw [copyBwd, copyBwd_bytes n _ _ _ _ h]
    simp only [Mem.wr, Mem.rd]
    by_cases h1 : d ≤ i ∧ i < d + n
    · have h' : d ≤ i ∧ i < d + (n + 1) := by omega
      have ne : s + (i - d) ≠ d + n := by omega
      simp [h1, h', ne]
    · by_cases h2 : i = d + n
      · subst h2
        have e : s + (d + n - d) = s + n := by omega
        simp
      · have : ¬ (d ≤ i ∧ i < d + (n + 1)) := by omega
        simp [h1, h2, this]

/-- **memory.copy = memmove**, for every overlap, in both directions -/
theorem copy_eq_memmove (m : Mem) (d s n : Nat) : copySteps m d s n = m.memmove d s n := by
  unfold copySteps
  by_cases h : d ≤ s
  · simp only [h, if_true]
    exact Mem.ext' (copyFwd_size n m d s) (fun i => by rw [copyFwd_bytes n m d s i h]; rfl)
  · simp only [h, if_false]
    exact Mem.ext' (copyBwd_size n m d s) (fun i => by rw [copyBwd_bytes n m d s i (by omega)]; rfl)

/-- copying in the WRONG direction is a different function: the direction rule matters (non-vacuity of the
    overlap clause): forward copy of [1,2,3] one byte up smears the first byte -/
example : (copyFwd ⟨fun i => BitVec.ofNat 8 (i + 1), 4⟩ 1 0 3).bytes 3 = 1#8 ∧ (copySteps ⟨fun i => BitVec.ofNat 8 (i + 1), 4⟩ 1 0 3).bytes 3 = 3#8 := by
  decide

end W2c2Verif
