/-
  Model.Leb — the four LEB128 decoders of /repo/w2c2/leb128.h, statement by statement.

  All constants (loop bound `int32/int64LEB128MaxByteCount`, the width of `value`/`shift`, the masks
  0x7F / 0x80 / 0x40, the shift step and the `shift < 8*sizeof(T)` guard) come from the regenerated
  `Gen.Reader.LebDecoder` rows, so a change of any of them in the source changes this model.

  C state of one decoder call:   value (bit pattern of a `width`-bit integer), shift, count, byte.
  C undefined behaviour is tracked in `St.ub`:
    * `x << shift` with `shift ≥ width`                       (never happens while 7·(max−1) < width);
    * `(T)1 << shift` with `shift = width−1` for signed `T`   (1 is shifted into the sign bit and the result
      negated: signed overflow) — with the sign-extension form `-((T)1 << shift)` this happens in a 64-bit
      decoder for 9-byte encodings whose sign bit is set (the defect fixed by /repo 415f201; `leb128ReadI32`
      still uses that form, harmlessly: its largest guarded shift is 28).
  The value computed in that case is the one gcc/clang produce (two's complement wrap-around).
-/
import W2c2Verif.Gen.Reader

namespace W2c2Verif.Model.Leb
open W2c2Verif.Gen.Reader (LebDecoder)

abbrev Bytes := List UInt8

/-- Local variables of `leb128Read*` (`value` as its bit pattern, `< 2^width`). -/
structure St where
  value : Nat
  shift : Nat
  count : Nat
  byte  : Nat
  ub    : Bool
  deriving Repr, DecidableEq

def St.init : St := { value := 0, shift := 0, count := 0, byte := 0, ub := false }

/-- Loop body after a successful `bufferReadByte`:
    `count++; value |= ((T)(byte & 0x7F)) << shift; shift += 7;` -/
def step (d : LebDecoder) (s : St) (b : UInt8) : St :=
  { value := s.value ||| (((b.toNat &&& d.payloadMask) <<< s.shift) % 2 ^ d.width)
    shift := s.shift + d.step
    count := s.count + 1
    byte  := b.toNat
    ub    := s.ub || decide (d.width ≤ s.shift) }

/-- `while (count < max && bufferReadByte(buffer, &byte)) { …; if ((byte & 0x80) == 0) break; }`
    with fuel `max − count`; returns the state and the advanced buffer. -/
def loop (d : LebDecoder) : Nat → Bytes → St → St × Bytes
  | 0, bs, s => (s, bs)
  | _ + 1, [], s => (s, [])
  | n + 1, b :: bs, s =>
    if b.toNat &&& d.contMask = 0 then (step d s b, bs) else loop d n bs (step d s b)

/-- `if ((shift < 8 * sizeof(T)) && (byte & 0x40)) value |= <sign bits>;` (signed decoders only).  The source
    writes the sign bits in one of two ways (`LebDecoder.signExtForm`, regenerated):
      * `-((T) 1 << shift)`        — a signed shift and a negation: undefined for `shift = width − 1`;
      * `(T) (~(UT) 0 << shift)`   — an unsigned shift (defined for every `shift < width`) converted to `T`. -/
def signExtend (d : LebDecoder) (s : St) : St :=
  if d.signed = true ∧ s.shift < d.guardBits ∧ s.byte &&& d.signMask ≠ 0 then
    if d.signExtForm = "unsignedMask" then
      { s with value := s.value ||| (((2 ^ d.width - 1) <<< s.shift) % 2 ^ d.width)
               ub := s.ub || decide (d.width ≤ s.shift) }
    else
      { s with value := s.value ||| ((2 ^ d.width - (1 <<< s.shift) % 2 ^ d.width) % 2 ^ d.width)
               ub := s.ub || decide (d.width ≤ s.shift + 1) }
  else s

/-- One call of the decoder on the buffer `bs`: final locals and the advanced buffer. -/
def run (d : LebDecoder) (bs : Bytes) : St × Bytes :=
  let r := loop d d.maxBytes bs St.init
  (signExtend d r.1, r.2)

/-- Interpretation of a `w`-bit pattern as a signed C integer. -/
def toSigned (w : Nat) (bits : Nat) : Int :=
  if bits < 2 ^ (w - 1) then (bits : Int) else (bits : Int) - (2 ^ w : Nat)

/-- What the caller sees: `*result`, the return value (bytes consumed), the advanced buffer. -/
structure Result (α : Type) where
  value : α
  count : Nat
  rest  : Bytes
  ub    : Bool
  deriving Repr, DecidableEq

def readU (d : LebDecoder) (bs : Bytes) : Result Nat :=
  let r := run d bs
  { value := r.1.value, count := r.1.count, rest := r.2, ub := r.1.ub }

def readS (d : LebDecoder) (bs : Bytes) : Result Int :=
  let r := run d bs
  { value := toSigned d.width r.1.value, count := r.1.count, rest := r.2, ub := r.1.ub }

def readU32 : Bytes → Result Nat := readU Gen.Reader.leb128ReadU32
def readI32 : Bytes → Result Int := readS Gen.Reader.leb128ReadI32
def readU64 : Bytes → Result Nat := readU Gen.Reader.leb128ReadU64
def readI64 : Bytes → Result Int := readS Gen.Reader.leb128ReadI64

end W2c2Verif.Model.Leb
