/-
  Model.WasiProc — WASI process services of wasi/wasi.c (C15): args_sizes_get / args_get,
  environ_sizes_get / environ_get, clock_time_get, random_get, proc_exit, thread-spawn.

  Guest memory and its stores are those of Model.WasiPath (`Mem`, `storeBytes`: a write outside
  the memory object is `.ub outOfBounds` — wasi.c performs no bounds checks).  Strides, the
  `strlen + 1` accounting, the clock table, the getentropy chunk size and the thread-id counter
  come from Gen/WasiPath.lean.
-/
import W2c2Verif.Model.WasiPath

namespace W2c2Verif.WasiProc
open W2c2Verif W2c2Verif.WasiPath

/-! ### args / environ

    `wasi.argv[0 … argc-1]` / `wasi.envp[0 … envc-1]` are C strings; a vector is modelled as the
    list of their contents (the bytes before each terminating NUL). -/

/-- `for (; argvIndex < wasi.argc; argvIndex++) argvBufSize += strlen(wasi.argv[argvIndex]) + 1;` -/
def sizeLoop (extra : Nat) : List Bytes → Nat → Nat
  | [], acc => acc
  | a :: rest, acc => sizeLoop extra rest (acc + (a.length + extra))

/-- args_sizes_get: `i32_store(argcPointer, wasi.argc); i32_store(argvBufSizePointer, argvBufSize)`
    (the `size_t` sum is truncated to `U32` by the store) -/
def argsSizesGet (argv : List Bytes) (mem : Mem) (argcPtr sizePtr : Nat) : Out (Nat × Mem) := do
  let size := sizeLoop Gen.WasiPath.argSizeExtra argv 0
  let mem ← i32Store mem argcPtr argv.length
  let mem ← i32Store mem sizePtr size
  .val (Gen.WasiPath.errnoSuccess, mem)

/-- args_sizes_get over what the embedder really passed to `wasiInit(argc, argv, …)`: `arr` = the entries of
    the `argv` array before its first NULL (`none`: `argv` is a NULL pointer), `argc` = `wasi.argc`.
    The size loop runs over `argvIndex < wasi.argc` or until `wasi.argv[argvIndex] == NULL`, as the
    regenerated `Gen.WasiPath.argsSizesLoopUsesArgc` says; the count stored is always `wasi.argc`. -/
def argsSizesGetArr (arr : Option (List Bytes)) (argc : Nat) (mem : Mem) (argcPtr sizePtr : Nat) : Out (Nat × Mem) :=
  let finish (size : Nat) : Out (Nat × Mem) := do
    let mem ← i32Store mem argcPtr argc
    let mem ← i32Store mem sizePtr size
    .val (Gen.WasiPath.errnoSuccess, mem)
  if Gen.WasiPath.argsSizesLoopUsesArgc then
    match arr with
    | none => if argc = 0 then finish 0 else .ub .nullDeref                 -- wasi.argv[0] with argv == NULL
    | some a =>
      if argc ≤ a.length then finish (sizeLoop Gen.WasiPath.argSizeExtra (a.take argc) 0)
      else .ub .nullDeref                                                   -- strlen(NULL) at the terminator
  else
    match arr with
    | none => .ub .nullDeref                                                -- wasi.argv[0] with argv == NULL
    | some a => finish (sizeLoop Gen.WasiPath.argSizeExtra a 0)

/-- the loop of wasiArgsGet / wasiEnvironGet:
      size_t length = strlen(arg) + 1;
      memcpy(memory->data + argvBufPointer, arg, length);
      i32_store(memory, argvPointer + index * sizeof(U32), argvBufPointer);
      argvBufPointer += length;                                    // U32 -/
def getLoop (copyExtra stride : Nat) : List Bytes → Nat → Nat → Nat → Mem → Out Mem
  | [], _, _, _, mem => .val mem
  | a :: rest, index, ptrArr, bufPtr, mem => do
    let length := a.length + copyExtra
    let src := a ++ [0]                                           -- the C string object
    if ¬ length ≤ src.length then .ub .outOfBounds else do        -- memcpy reads `length` bytes of it
    let mem ← storeBytes mem bufPtr (src.take length)
    let mem ← i32Store mem (ptrArr + index * stride) bufPtr
    getLoop copyExtra stride rest (index + 1) ptrArr (u32 (bufPtr + length)) mem

def argsGet (argv : List Bytes) (mem : Mem) (argvPtr bufPtr : Nat) : Out (Nat × Mem) := do
  let mem ← getLoop Gen.WasiPath.argCopyExtra Gen.WasiPath.argPtrStride argv 0 argvPtr bufPtr mem
  .val (Gen.WasiPath.errnoSuccess, mem)

/-- environ_sizes_get: count = `wasi.envc` (the number of entries before the NULL, counted by
    wasiInit), size by the same accounting -/
def environSizesGet (envp : List Bytes) (mem : Mem) (envcPtr sizePtr : Nat) : Out (Nat × Mem) := do
  let size := sizeLoop Gen.WasiPath.envSizeExtra envp 0
  let mem ← i32Store mem envcPtr envp.length
  let mem ← i32Store mem sizePtr size
  .val (Gen.WasiPath.errnoSuccess, mem)

def environGet (envp : List Bytes) (mem : Mem) (envpPtr bufPtr : Nat) : Out (Nat × Mem) := do
  let mem ← getLoop Gen.WasiPath.envCopyExtra Gen.WasiPath.envPtrStride envp 0 envpPtr bufPtr mem
  .val (Gen.WasiPath.errnoSuccess, mem)

/-- what the property demands: the strings with their terminators, back to back -/
def flatStrings : List Bytes → Bytes
  | [] => []
  | a :: rest => a ++ [0] ++ flatStrings rest

/-- …and the pointer array: entry `k` = address of string `k` -/
def flatPointers : List Bytes → Nat → Bytes
  | [], _ => []
  | a :: rest, b => leBytes 4 b ++ flatPointers rest (b + a.length + 1)

/-- `put m a bs`: memory `m` with the bytes at `[a, a+|bs|)` replaced by `bs` -/
def put (m : Mem) (a : Nat) (bs : Bytes) : Mem := m.take a ++ bs ++ m.drop (a + bs.length)

/-! ### clock_time_get -/

/-- `a·x + b·y` in 64-bit signed arithmetic (`time_t`, `long`, `long long` are all 64 bits here); signed
    overflow is undefined -/
def scaledSum (a : Nat) (x : Int) (b : Nat) (y : Int) : Out Int :=
  let p1 := x * (a : Int)
  if p1 < -9223372036854775808 ∨ 9223372036854775807 < p1 then .ub .signedOverflow else
  let p2 := y * (b : Int)
  if p2 < -9223372036854775808 ∨ 9223372036854775807 < p2 then .ub .signedOverflow else
  let s := p1 + p2
  if s < -9223372036854775808 ∨ 9223372036854775807 < s then .ub .signedOverflow else .val s

/-- `convertTimespec`: `t.tv_sec * NSEC_PER_SEC + t.tv_nsec` — the two scale factors are regenerated -/
def convertTimespec (sec nsec : Int) : Out Int :=
  scaledSum Gen.WasiPath.timespecSecScale sec Gen.WasiPath.timespecNsecScale nsec

/-- `convertTimeval`: `t.tv_sec * NSEC_PER_SEC + t.tv_usec * NSEC_PER_USEC` (fallback-timer configuration) -/
def convertTimeval (sec usec : Int) : Out Int :=
  scaledSum Gen.WasiPath.timevalSecScale sec Gen.WasiPath.timevalUsecScale usec

/-- two's complement image of an `I64` for `i64_store` -/
def i64Bits (v : Int) : Nat := (v % 18446744073709551616).toNat

/-- answer of `clock_gettime(clock, &ts)`: the time, or failure with errno -/
abbrev HostClock := String → Sum String (Int × Int)

/-- the host clock `clock_gettime` is called with: the table's clock of `clockID`, unless the regenerated
    `clockOverride` names another one for this `precision` (the pinned source has no such branch) -/
def clockNative (clockID precision : Nat) : Option String :=
  match Gen.WasiPath.clockTable.find? (fun r => r.1 == clockID) with
  | none => none
  | some (_, native) => some ((Gen.WasiPath.clockOverride clockID precision).getD native)

def clockTimeGet (host : HostClock) (clockID precision : Nat) (mem : Mem) (resultPtr : Nat) : Out (Nat × Mem) :=
  match clockNative clockID precision with
  | none => .val (Gen.WasiPath.clockDefaultErrno, mem)
  | some native =>
    match host native with
    | .inl e => .val (wasiErrno e, mem)
    | .inr (sec, nsec) => do
      let r ← convertTimespec sec nsec
      let mem ← i64Store mem resultPtr (i64Bits r)
      .val (Gen.WasiPath.errnoSuccess, mem)

/-- clock_time_get of a library built with -DWASI_FALLBACK_TIMERS_ENABLED=1 (no POSIX timers): the realtime
    clock from `gettimeofday`, the process CPU time from `getrusage` (user + system), both `struct timeval`
    converted by `convertTimeval`; every other id is rejected.  `host call` answers (seconds, microseconds). -/
def clockTimeGetFallback (host : HostClock) (clockID : Nat) (mem : Mem) (resultPtr : Nat) : Out (Nat × Mem) :=
  match Gen.WasiPath.fallbackClockTable.find? (fun r => r.1 == clockID) with
  | none => .val (Gen.WasiPath.fallbackClockDefaultErrno, mem)
  | some (_, call) =>
    match host call with
    | .inl e => .val (wasiErrno e, mem)
    | .inr (sec, usec) => do
      let r ← convertTimeval sec usec
      let mem ← i64Store mem resultPtr (i64Bits r)
      .val (Gen.WasiPath.errnoSuccess, mem)

/-! ### random_get -/

/-- result of one `getentropy(buf, n)` call: the `n` bytes, or −1 with errno -/
abbrev Entropy := (offset n : Nat) → Sum String Bytes

/-- getentropy as specified (glibc / POSIX.1-2024): requests of more than 256 bytes fail with
    EIO, others deliver exactly `n` bytes from `source` -/
def getentropySpec (source : Nat → UInt8) : Entropy := fun offset n =>
  if n > 256 then .inl "EIO" else .inr ((List.range n).map (fun i => source (offset + i)))

/-- the chunk loop of the current code:
      while (result == 0 && offset < bufferLength) {
          remaining = bufferLength - offset; chunkLength = remaining > 256 ? 256 : remaining;
          result = getentropy(bufferStart + offset, chunkLength); offset += chunkLength; }
    `.inl errno` = a call failed (memory as filled so far). -/
def chunkLoop (ent : Entropy) (chunk ptr len : Nat) : (fuel offset : Nat) → Mem → Out (Sum (String × Mem) Mem)
  | 0, _, _ => .oof
  | fuel + 1, offset, mem =>
    if ¬ offset < len then .val (.inr mem) else
    let remaining := len - offset
    let chunkLength := if remaining > chunk then chunk else remaining
    match ent offset chunkLength with
    | .inl e => .val (.inl (e, mem))
    | .inr bytes => do
      let mem ← storeBytes mem (ptr + offset) bytes
      chunkLoop ent chunk ptr len fuel (u32 (offset + chunkLength)) mem

/-- outcome of the `/dev/random` + `random()` fallbacks (reached only when getentropy is not
    available); `fallback` abstracts them -/
abbrev Fallback := Mem → Nat → Nat → Out (Nat × Mem)

/-- `wasiRandomGet`.  Shape selected by the regenerated `Gen.WasiPath.entropyChunked`:
    * chunked (current code): chunk loop; `result == 0` ⇒ SUCCESS; `errno != ENOSYS` ⇒ wasiErrno();
      else fallbacks.
    * single call (code before commit 28dd14b): one getentropy for the whole buffer; error iff
      `result != 0 && result != ENOSYS` (result is 0 or −1); then — since the `/dev/random` block is
      guarded by `result == ENOSYS` only — control falls through to the `srandom(time)/random()`
      loop, which overwrites the buffer (`prng`). -/
def randomGet (ent : Entropy) (fallback : Fallback) (prng : Nat → UInt8) (mem : Mem) (ptr len : Nat) :
    Out (Nat × Mem) :=
  if Gen.WasiPath.entropyChunked then do
    match ← chunkLoop ent Gen.WasiPath.entropyChunk ptr len (len + 1) 0 mem with
    | .inr mem => .val (Gen.WasiPath.errnoSuccess, mem)
    | .inl (e, mem) => if e ≠ "ENOSYS" then .val (wasiErrno e, mem) else fallback mem ptr len
  else
    match ent 0 len with
    | .inl e => .val (wasiErrno e, mem)                    -- result = −1: `!= 0 && != ENOSYS`
    | .inr bytes => do
      let mem ← storeBytes mem ptr bytes
      let mem ← storeBytes mem ptr ((List.range len).map prng)    -- fall-through to random()
      .val (Gen.WasiPath.errnoSuccess, mem)

/-! ### proc_exit -/

/-- `exit((int)code)`: the parent observes `status & 0377` (POSIX `WEXITSTATUS`) -/
def procExitStatus (code : Nat) : Nat :=
  let asInt : Int := if code % 4294967296 < 2147483648 then (code % 4294967296 : Nat) else (code % 4294967296 : Nat) - 4294967296
  (asInt % 256).toNat

/-! ### thread-spawn as a transition system

    Every call of `wasi__threadX2Dspawn` is a sequence of steps; steps of different calls (and the
    start of the created threads) interleave arbitrarily.  The only shared state is the counter
    `nextThreadID`, touched by ONE atomic step (`atomic_add_U32`, fetch-and-add). -/

/-- the module's function-export table (`instance->funcExports`, up to the entry with `func == NULL`):
    name and function (a number identifying it) -/
abbrev ExportTable := List (String × Nat)

/-- the lookup loop of `wasi__threadX2Dspawn`:
      for (; funcExport->func != NULL; funcExport++)
          if (<comparison of funcExport->name with "wasi_thread_start">) { startFunc = funcExport->func; break; }
    the comparison is the regenerated `Gen.WasiPath.exportNameMatches`.  `none` = `startFunc == NULL`. -/
def lookupStart : ExportTable → Option Nat
  | [] => none
  | (name, f) :: rest => if Gen.WasiPath.exportNameMatches name then some f else lookupStart rest

/-- The variable `startFunc` of `wasi__threadX2Dspawn` at the entry of a call, given the value the PREVIOUS call of
    the process (by whichever instance) left in it: an automatic variable starts as NULL in every call, a static
    one keeps its value.  The storage class is the regenerated `Gen.WasiPath.spawnLookupStorage`. -/
def lookupEntryValue (prev : Option Nat) : Option Nat :=
  if Gen.WasiPath.spawnLookupStorage == "static" then prev else none

/-- the start function one call ends up with: the scan over the CALLING instance's table — skipped when the
    variable is already set and the regenerated loop condition says so; a scan that finds nothing leaves the
    variable as it was -/
def lookupCall (prev : Option Nat) (table : ExportTable) : Option Nat :=
  let cur := lookupEntryValue prev
  if Gen.WasiPath.spawnLookupSkippedWhenSet && cur.isSome then cur
  else match lookupStart table with
    | some f => some f
    | none => cur

/-- progress of one thread-spawn call -/
inductive Call where
  | init (arg : Nat)                       -- entered
  | looked (arg : Nat)                     -- export found, ThreadStartArg allocated
  | gotId (arg tid : Nat)                  -- threadID = atomic_add_U32(&nextThreadID, 1)
  | hasChild (arg tid child : Nat)         -- threadStartArg->instance = instance->newChild(instance)
  | done (arg : Nat) (ret : Option Nat)    -- returned `tid` (`some`) or −1 (`none`)
  deriving DecidableEq, Repr

/-- a created native thread / a performed `wasi_thread_start(child, tid, arg)` call -/
structure Start where
  child : Nat
  tid : Nat
  arg : Nat
  deriving DecidableEq, Repr

structure Sys where
  next : Nat                -- static U32 nextThreadID
  calls : List Call
  threads : List Start      -- native threads created so far (creation order)
  started : List Nat        -- indices (into `threads`) of the threads whose `wasiThreadSpawn` has run
                            -- = the `wasi_thread_start(child, tid, arg)` invocations, in order
  children : Nat            -- child instances created so far (their ids are 0 … children−1;
                            -- each shares the parent's shared memory: NewChild calls InitMemories(child, self))
  deriving Repr

def Sys.initial : Sys := ⟨Gen.WasiPath.firstThreadID, [], [], [], 0⟩

/-- one step of the system; `hasExport` = the module exports `wasi_thread_start` -/
inductive Step (hasExport : Bool) : Sys → Sys → Prop
  /-- a new call of thread-spawn is issued (any number, at any time) -/
  | call (s : Sys) (arg : Nat) : Step hasExport s { s with calls := s.calls ++ [.init arg] }
  /-- export lookup (+ calloc): missing export ⇒ return −1 -/
  | lookup (s : Sys) (i : Nat) (arg : Nat) (h : s.calls[i]? = some (.init arg)) :
      Step hasExport s { s with calls := s.calls.set i (if hasExport then .looked arg else .done arg none) }
  /-- calloc failure ⇒ return −1 -/
  | allocFail (s : Sys) (i : Nat) (arg : Nat) (h : s.calls[i]? = some (.init arg)) :
      Step hasExport s { s with calls := s.calls.set i (.done arg none) }
  /-- the atomic fetch-and-add (below the wrap of the U32 counter) -/
  | fetchAdd (s : Sys) (i : Nat) (arg : Nat) (h : s.calls[i]? = some (.looked arg))
      (hw : s.next + Gen.WasiPath.threadIDIncrement < 4294967296) :
      Step hasExport s { s with calls := s.calls.set i (.gotId arg s.next),
                                next := s.next + Gen.WasiPath.threadIDIncrement }
  | newChild (s : Sys) (i : Nat) (arg tid : Nat) (h : s.calls[i]? = some (.gotId arg tid)) :
      Step hasExport s { s with calls := s.calls.set i (.hasChild arg tid s.children), children := s.children + 1 }
  /-- WASM_THREAD_CREATE succeeded: the thread exists, the call returns the id -/
  | create (s : Sys) (i : Nat) (arg tid c : Nat) (h : s.calls[i]? = some (.hasChild arg tid c)) :
      Step hasExport s { s with calls := s.calls.set i (.done arg (some tid)), threads := s.threads ++ [⟨c, tid, arg⟩] }
  /-- WASM_THREAD_CREATE failed: return −1, no thread -/
  | createFail (s : Sys) (i : Nat) (arg tid c : Nat) (h : s.calls[i]? = some (.hasChild arg tid c)) :
      Step hasExport s { s with calls := s.calls.set i (.done arg none) }
  /-- a created thread that has not run yet runs `wasiThreadSpawn`: it frees its argument block and
      makes exactly one `startFunc(instance, threadID, startArg)` call, then ends -/
  | run (s : Sys) (j : Nat) (hj : j < s.threads.length) (hn : j ∉ s.started) :
      Step hasExport s { s with started := s.started ++ [j] }

inductive Reach (hasExport : Bool) : Sys → Prop
  | init : Reach hasExport Sys.initial
  | step {s s' : Sys} : Reach hasExport s → Step hasExport s s' → Reach hasExport s'

/-- The value a successful thread-spawn returns.  The pinned code returns its LOCAL copy of the id
    (`threadID = atomic_add_U32(..)` … `return threadID;`).  If instead the ThreadStartArg block is read again
    after WASM_THREAD_CREATE (`Gen.WasiPath.spawnReturnsLocalId = false`), the new thread — which frees that
    block first thing — may already have finished: a read of freed memory. -/
def spawnReturn (threadFinished : Bool) (tid : Nat) : Out Nat :=
  if Gen.WasiPath.spawnReturnsLocalId then .val tid
  else if threadFinished then .ub .useAfterFree else .val tid

/-- the thread id a call holds (allocated by its fetch-and-add), if any -/
def Call.heldId : Call → Option Nat
  | .gotId _ tid => some tid
  | .hasChild _ tid _ => some tid
  | .done _ (some tid) => some tid
  | _ => none

/-- `(tid, arg)` of a successfully returned call -/
def Call.success : Call → Option (Nat × Nat)
  | .done arg (some tid) => some (tid, arg)
  | _ => none

/-- executable form of `Step` (used by the driver's scheduler; `exec_sound` in Props/C15 shows every
    executed action is a `Step`) -/
inductive Action
  | call (arg : Nat) | lookup (i : Nat) | allocFail (i : Nat) | fetchAdd (i : Nat) | newChild (i : Nat)
  | create (i : Nat) | createFail (i : Nat) | run (j : Nat)
  deriving Repr, DecidableEq

def exec (hasExport : Bool) (s : Sys) : Action → Option Sys
  | .call arg => some { s with calls := s.calls ++ [.init arg] }
  | .lookup i => match s.calls[i]? with
    | some (.init arg) => some { s with calls := s.calls.set i (if hasExport then .looked arg else .done arg none) }
    | _ => none
  | .allocFail i => match s.calls[i]? with
    | some (.init arg) => some { s with calls := s.calls.set i (.done arg none) }
    | _ => none
  | .fetchAdd i => match s.calls[i]? with
    | some (.looked arg) =>
      if s.next + Gen.WasiPath.threadIDIncrement < 4294967296 then
        some { s with calls := s.calls.set i (.gotId arg s.next), next := s.next + Gen.WasiPath.threadIDIncrement }
      else none
    | _ => none
  | .newChild i => match s.calls[i]? with
    | some (.gotId arg tid) => some { s with calls := s.calls.set i (.hasChild arg tid s.children), children := s.children + 1 }
    | _ => none
  | .create i => match s.calls[i]? with
    | some (.hasChild arg tid c) =>
      some { s with calls := s.calls.set i (.done arg (some tid)), threads := s.threads ++ [⟨c, tid, arg⟩] }
    | _ => none
  | .createFail i => match s.calls[i]? with
    | some (.hasChild arg _ _) => some { s with calls := s.calls.set i (.done arg none) }
    | _ => none
  | .run j => if j < s.threads.length ∧ j ∉ s.started then some { s with started := s.started ++ [j] } else none

end W2c2Verif.WasiProc
