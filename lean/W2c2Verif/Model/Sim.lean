/-
  Model.Sim — the two semantics related by the simulation theorem of C03:

  * `erun*`  : WebAssembly execution of a function body (the control-flow core: blocks, loops,
    if/else, br, br_if, br_table, return, unreachable, select, drop, nop, constants, locals,
    numeric instructions), following the specification's rules, on the instruction AST the
    translator model consumes.  Numeric instructions are a parameter (`NumSem`): their own
    correctness is the subject of C01/C02.
  * `exec*`  : execution of the translated body (`MStmtC`): C slot variables `s<t><k>` hold raw
    bits, `goto L` leaves every enclosing construct up to the statement that owns label `L`
    (`block … L:;` continues after it, `L:; { … }` — a loop — re-enters it).

  Both are structurally recursive on fuel (a derivation-depth bound), so `∀ fuel` quantifies
  over executions of every length.
-/
import W2c2Verif.Model.Emit

namespace W2c2Verif.Sim
open W2c2Verif Model Gen Spec

/-- value of a slot variable of type `t` holding the raw bits `n` -/
def mkV (t : VT) (n : Nat) : Val :=
  match t with
  | .i32 => .i32 (BitVec.ofNat 32 n) | .i64 => .i64 (BitVec.ofNat 64 n)
  | .f32 => .f32 (BitVec.ofNat 32 n) | .f64 => .f64 (BitVec.ofNat 64 n)

def vtOf : Val → VT | .i32 _ => .i32 | .i64 _ => .i64 | .f32 _ => .f32 | .f64 _ => .f64

theorem mkV_bits (v : Val) : mkV (vtOf v) v.bits = v := by
  cases v <;> simp [mkV, vtOf, Val.bits]

def isTrue (v : Val) : Bool := v.bits ≠ 0

/-- the state shared by all functions of an instance: globals and the linear memory -/
structure GS where
  globals : List Val := []
  mem : Mem := ⟨fun _ => 0, 0⟩

/-- everything a function body reads and writes besides its operand stack -/
structure Store where
  locals : List Val := []
  g : GS := {}

def wasmPage : Nat := 65536

/-- the bulk memory instructions: memory.copy, memory.fill, memory.init of a data segment -/
inductive BulkOp | copy | fill | init (seg : Nat)
  deriving DecidableEq, Repr, Inhabited

/-- numeric instructions: arity and semantics by opcode name -/
structure NumSem where
  arity : String → Nat                      -- 1 or 2
  sem : String → List Val → Out Val         -- operands in push order
  /-- calls (the callee's semantics is a parameter, instantiated with the function-level
      semantics one fuel level down by the module-level theorem): number of parameters and result
      type by function index; the specification side and the emitted-C side of the same callee -/
  callArity : Nat → Option (Nat × Option VT) := fun _ => none
  callS : Nat → List Val → GS → Out (Option Val × GS) := fun _ _ _ => .oof
  callT : Nat → List Val → GS → Out (Option Val × GS) := fun _ _ _ => .oof
  /-- call_indirect: by type index; the callee is selected by the table slot -/
  indArity : Nat → Option (Nat × Option VT) := fun _ => none
  indS : Nat → Nat → List Val → GS → Out (Option Val × GS) := fun _ _ _ _ => .oof
  indT : Nat → Nat → List Val → GS → Out (Option Val × GS) := fun _ _ _ _ => .oof
  /-- memory accesses at an effective address (address operand + static offset, no wrap-around): the
      specification side by opcode, the emitted-C side by the name of the runtime function called;
      out-of-bounds accesses are outside every property (w2c2 emits no bounds checks): any non-value
      result other than a trap makes the source semantics `stuck`.  C05 proves the concrete instance. -/
  loadS : String → Mem → Nat → Out Val := fun _ _ _ => .oof
  loadT : String → Mem → Nat → Out Val := fun _ _ _ => .oof
  storeS : String → Mem → Nat → Val → Out Mem := fun _ _ _ _ => .oof
  storeT : String → Mem → Nat → Val → Out Mem := fun _ _ _ _ => .oof
  /-- memory.grow: new memory and the i32 result (old size in pages or -1); the same function on both sides
      (`wasmMemoryGrow`, whose own properties are C05/C18) -/
  grow : Mem → Nat → Mem × Val := fun m _ => (m, .i32 0xFFFFFFFF)
  /-- memory.copy d s n / memory.fill d v n / memory.init seg d s n on the three i32 operands in push order: the
      specification side (byte-by-byte reduction rules) and the emitted-C side (wasmMemoryCopy / wasmMemoryFill /
      LOAD_DATA).  Lemmas/Bulk + Props/C05Sim prove the concrete instance. -/
  bulkS : BulkOp → Mem → Nat → Nat → Nat → Out Mem := fun _ _ _ _ _ => .oof
  bulkT : BulkOp → Mem → Nat → Nat → Nat → Out Mem := fun _ _ _ _ _ => .oof
  /-- atomic load (no operand), store (one, no result), read-modify-write (one) and compare-exchange (two operands) at an
      effective address, as executed by ONE thread: value returned (if any), new memory; specification side by opcode, emitted-C side by the runtime function
      called.  (What other threads may observe is C16's subject, Props/C16Conc.) -/
  rmwS : String → Mem → Nat → List Val → Out (Option Val × Mem) := fun _ _ _ _ => .oof
  rmwT : String → Mem → Nat → List Val → Out (Option Val × Mem) := fun _ _ _ _ => .oof

/-- the operand stack after a call: `n` arguments popped, the result (if any) pushed -/
def afterCall (stk : List Val) (n : Nat) (rt : Option VT) (r : Option Val) (loc : Store) (normal : List Val → Store → α) (stuck : α) : α :=
  match rt, r with
  | none, none => normal (stk.take (stk.length - n)) loc
  | some _, some v => normal (stk.take (stk.length - n) ++ [v]) loc
  | _, _ => stuck

/-! ## source: WebAssembly -/

inductive ERes
  | normal (stk : List Val) (store : Store)          -- `stk` bottom first
  | branch (l : Nat) (stk : List Val) (store : Store)
  | ret (stk : List Val) (store : Store)
  | trap (t : Trap)
  | oof
  | stuck                                            -- no rule applies (invalid program)

/-- the `n` topmost values -/
def topN (n : Nat) (stk : List Val) : List Val := stk.drop (stk.length - n)

/-- leaving a block by `br 0`: the stack below the block's entry height, plus the carried values -/
def exitBlock (h : Nat) (bt : Option VT) (stk : List Val) : List Val := stk.take h ++ topN bt.toList.length stk

/-- a bulk memory instruction on the wasm side: pops n, then the second, then the first operand -/
def erunBulk (ns : NumSem) (op : BulkOp) (stk : List Val) (loc : Store) : ERes :=
  if stk.length < 3 then .stuck else
  let c := stk.getD (stk.length - 1) (.i32 0)
  let b := stk.getD (stk.length - 2) (.i32 0)
  let a := stk.getD (stk.length - 3) (.i32 0)
  match ns.bulkS op loc.g.mem a.bits b.bits c.bits with
  | .val m' => .normal (stk.take (stk.length - 3)) { loc with g := { loc.g with mem := m' } }
  | .trap t => .trap t
  | .oof => .oof
  | _ => .stuck

/-- an atomic access with `n` operands after the address (load 0, store 1, rmw 1, cmpxchg 2): pops them and the address,
    pushes the result if the instruction has one -/
def erunRmw (ns : NumSem) (opcode : String) (off n : Nat) (hasRes : Bool) (stk : List Val) (loc : Store) : ERes :=
  if stk.length < n + 1 then .stuck else
  let a := stk.getD (stk.length - (n + 1)) (.i32 0)
  match ns.rmwS opcode loc.g.mem (a.bits + off) (stk.drop (stk.length - n)) with
  | .val r =>
    (match hasRes, r.1 with
     | true, some v => .normal (stk.take (stk.length - (n + 1)) ++ [v]) { loc with g := { loc.g with mem := r.2 } }
     | false, none => .normal (stk.take (stk.length - (n + 1))) { loc with g := { loc.g with mem := r.2 } }
     | _, _ => .stuck)
  | .trap t => .trap t
  | .oof => .oof
  | _ => .stuck

mutual
def erunSeq (ns : NumSem) : Nat → List EInstr → List Val → Store → ERes
  | 0, _, _, _ => .oof
  | _ + 1, [], stk, loc => .normal stk loc
  | f + 1, i :: rest, stk, loc =>
    match erunInstr ns f i stk loc with
    | .normal stk' loc' => erunSeq ns f rest stk' loc'
    | r => r

def erunInstr (ns : NumSem) : Nat → EInstr → List Val → Store → ERes
  | 0, _, _, _ => .oof
  | f + 1, i, stk, loc =>
    match i with
    | .nop => .normal stk loc
    | .unreachable => .trap .unreachable
    | .drop => if stk.length = 0 then .stuck else .normal stk.dropLast loc
    | .select =>
      if stk.length < 3 then .stuck else
      let c := stk.getD (stk.length - 1) (.i32 0)
      let b := stk.getD (stk.length - 2) (.i32 0)
      let a := stk.getD (stk.length - 3) (.i32 0)
      .normal (stk.take (stk.length - 3) ++ [if isTrue c then a else b]) loc
    | .const t bits => .normal (stk ++ [mkV t bits]) loc
    | .numeric opcode =>
      let n := ns.arity opcode
      if stk.length < n then .stuck else
      match ns.sem opcode (topN n stk) with
      | .val v => .normal (stk.take (stk.length - n) ++ [v]) loc
      | .trap t => .trap t
      | _ => .stuck
    | .localGet k => (match loc.locals[k]? with | some v => .normal (stk ++ [v]) loc | none => .stuck)
    | .localSet k =>
      (match stk.getLast? with
       | some v => if k < loc.locals.length then .normal stk.dropLast { loc with locals := loc.locals.set k v } else .stuck
       | none => .stuck)
    | .localTee k =>
      (match stk.getLast? with
       | some v => if k < loc.locals.length then .normal stk { loc with locals := loc.locals.set k v } else .stuck
       | none => .stuck)
    | .globalGet k => (match loc.g.globals[k]? with | some v => .normal (stk ++ [v]) loc | none => .stuck)
    | .globalSet k =>
      (match stk.getLast? with
       | some v => if k < loc.g.globals.length then .normal stk.dropLast { loc with g := { loc.g with globals := loc.g.globals.set k v } } else .stuck
       | none => .stuck)
    | .load opcode off =>
      (match stk.getLast? with
       | none => .stuck
       | some a =>
         match ns.loadS opcode loc.g.mem (a.bits + off) with
         | .val v => .normal (stk.dropLast ++ [v]) loc
         | .trap t => .trap t
         | .oof => .oof
         | _ => .stuck)
    | .store opcode off =>
      if stk.length < 2 then .stuck else
      let v := stk.getD (stk.length - 1) (.i32 0)
      let a := stk.getD (stk.length - 2) (.i32 0)
      (match ns.storeS opcode loc.g.mem (a.bits + off) v with
       | .val m' => .normal (stk.take (stk.length - 2)) { loc with g := { loc.g with mem := m' } }
       | .trap t => .trap t
       | .oof => .oof
       | _ => .stuck)
    | .memorySize => .normal (stk ++ [.i32 (BitVec.ofNat 32 (loc.g.mem.size / wasmPage))]) loc
    | .memoryGrow =>
      (match stk.getLast? with
       | none => .stuck
       | some d => .normal (stk.dropLast ++ [(ns.grow loc.g.mem d.bits).2]) { loc with g := { loc.g with mem := (ns.grow loc.g.mem d.bits).1 } })
    | .block bt body =>
      (match erunSeq ns f body stk loc with
       | .branch 0 stk' loc' => .normal (exitBlock stk.length bt stk') loc'
       | .branch (l + 1) stk' loc' => .branch l stk' loc'
       | r => r)
    | .loop bt body =>
      (match erunSeq ns f body stk loc with
       | .branch 0 stk' loc' => erunInstr ns f (.loop bt body) (stk'.take stk.length) loc'
       | .branch (l + 1) stk' loc' => .branch l stk' loc'
       | r => r)
    | .ite bt thn els =>
      (match stk.getLast? with
       | none => .stuck
       | some c =>
         let stk0 := stk.dropLast
         let r := if isTrue c then erunSeq ns f thn stk0 loc
                  else (match els with | some e => erunSeq ns f e stk0 loc | none => erunSeq ns f [] stk0 loc)
         match r with
         | .branch 0 stk' loc' => .normal (exitBlock stk0.length bt stk') loc'
         | .branch (l + 1) stk' loc' => .branch l stk' loc'
         | r => r)
    | .br l => .branch l stk loc
    | .brIf l =>
      (match stk.getLast? with
       | none => .stuck
       | some c => if isTrue c then .branch l stk.dropLast loc else .normal stk.dropLast loc)
    | .brTable ls d =>
      (match stk.getLast? with
       | none => .stuck
       | some c => .branch (ls.getD c.bits d) stk.dropLast loc)
    | .ret => .ret stk loc
    | .call fn =>
      (match ns.callArity fn with
       | none => .stuck
       | some (n, rt) =>
         if stk.length < n then .stuck else
         match ns.callS fn (topN n stk) loc.g with
         | .val r => afterCall stk n rt r.1 { loc with g := r.2 } .normal .stuck
         | .trap t => .trap t
         | .oof => .oof
         | _ => .stuck)
    | .callIndirect ty _ =>
      (match ns.indArity ty with
       | none => .stuck
       | some (n, rt) =>
         if stk.length < n + 1 then .stuck else
         let idx := stk.getD (stk.length - 1) (.i32 0)
         match ns.indS ty idx.bits (topN n stk.dropLast) loc.g with
         | .val r => afterCall stk.dropLast n rt r.1 { loc with g := r.2 } .normal .stuck
         | .trap t => .trap t
         | .oof => .oof
         | _ => .stuck)
    | .memoryCopy => erunBulk ns .copy stk loc
    | .memoryFill => erunBulk ns .fill stk loc
    | .memoryInit seg => erunBulk ns (.init seg) stk loc
    | .atomicLoad opcode off => erunRmw ns opcode off 0 true stk loc
    | .atomicStore opcode off => erunRmw ns opcode off 1 false stk loc
    | .atomicRmw opcode off => erunRmw ns opcode off 1 true stk loc
    | .atomicCmpxchg opcode off => erunRmw ns opcode off 2 true stk loc
    | .atomicFence => .normal stk loc              -- one thread: no effect
    | _ => .stuck                                   -- data.drop: w2c2 reports it as unimplemented and emits nothing
end

/-! ## target: the emitted C -/

structure MSt where
  slots : Slot → Nat                -- raw bits of each C variable s<t><k>
  store : Store                     -- C locals l<k>, the instance's globals and memory

def MSt.get (σ : MSt) (s : Slot) : Val := mkV s.ty (σ.slots s)
def MSt.set (σ : MSt) (s : Slot) (v : Val) : MSt :=
  { σ with slots := fun s' => if s' = s then v.bits else σ.slots s' }

inductive MRes
  | normal (σ : MSt)
  | jump (L : Nat) (σ : MSt)
  | trap (t : Trap)
  | oof
  | stuck

def doCopy (σ : MSt) : Option (Slot × Slot) → MSt
  | none => σ
  | some (d, s) => σ.set d (σ.get s)

/-- destination slot and operand slots of a numeric statement, by emitter kind -/
def numSlots (opcode : String) (k : EmitKind) (t1 : VT) (i1 : Nat) (t0 : VT) (i0 : Nat) : Slot × List Slot :=
  match k with
  | .unary rt _ _ => (⟨rt, i0⟩, [⟨t0, i0⟩])
  | .infix rt _ _ => (⟨rt, i1⟩, [⟨t1, i1⟩, ⟨t0, i0⟩])
  | .prefixBinary rt _ => (⟨rt, i1⟩, [⟨t1, i1⟩, ⟨t0, i0⟩])
  | .signedInfix _ => (⟨(lookupVT Gen.opcodeResultType opcode).getD .i32, i1⟩, [⟨t1, i1⟩, ⟨t0, i0⟩])
  | .shl | .shrS | .shrU => (⟨t1, i1⟩, [⟨t1, i1⟩, ⟨t0, i0⟩])

/-- a bulk memory statement on the emitted-C side -/
def execBulk (ns : NumSem) (op : BulkOp) (a b c : Slot) (σ : MSt) : MRes :=
  match ns.bulkT op σ.store.g.mem (σ.get a).bits (σ.get b).bits (σ.get c).bits with
  | .val m' => .normal { σ with store := { σ.store with g := { σ.store.g with mem := m' } } }
  | .trap t => .trap t
  | .oof => .oof
  | _ => .stuck

mutual
def execSeq (ns : NumSem) : Nat → List MStmtC → MSt → MRes
  | 0, _, _ => .oof
  | _ + 1, [], σ => .normal σ
  | f + 1, s :: rest, σ =>
    match execStmt ns f s σ with
    | .normal σ' => execSeq ns f rest σ'
    | r => r

def execStmt (ns : NumSem) : Nat → MStmtC → MSt → MRes
  | 0, _, _ => .oof
  | f + 1, s, σ =>
    match s with
    | .num opcode k t1 i1 t0 i0 =>
      let (dst, args) := numSlots opcode k t1 i1 t0 i0
      (match ns.sem opcode (args.map σ.get) with
       | .val v => .normal (σ.set dst v)
       | .trap t => .trap t
       | _ => .stuck)
    | .const dst bits => .normal (σ.set dst (mkV dst.ty bits))
    | .localGet dst l => (match σ.store.locals[l]? with | some v => .normal (σ.set dst v) | none => .stuck)
    | .localSet l src => if l < σ.store.locals.length then .normal { σ with store := { σ.store with locals := σ.store.locals.set l (σ.get src) } } else .stuck
    | .globalGet dst k => (match σ.store.g.globals[k]? with | some v => .normal (σ.set dst v) | none => .stuck)
    | .globalSet k src =>
      if k < σ.store.g.globals.length then
        .normal { σ with store := { σ.store with g := { σ.store.g with globals := σ.store.g.globals.set k (σ.get src) } } }
      else .stuck
    | .load dst fn addr off =>
      (match ns.loadT fn σ.store.g.mem ((σ.get addr).bits + off) with
       | .val v => .normal (σ.set dst v)
       | .trap t => .trap t
       | .oof => .oof
       | _ => .stuck)
    | .store fn addr off v =>
      (match ns.storeT fn σ.store.g.mem ((σ.get addr).bits + off) (σ.get v) with
       | .val m' => .normal { σ with store := { σ.store with g := { σ.store.g with mem := m' } } }
       | .trap t => .trap t
       | .oof => .oof
       | _ => .stuck)
    | .memSize dst => .normal (σ.set dst (.i32 (BitVec.ofNat 32 (σ.store.g.mem.size / wasmPage))))
    | .memGrow dst src =>
      .normal (({ σ with store := { σ.store with g := { σ.store.g with mem := (ns.grow σ.store.g.mem (σ.get src).bits).1 } } } : MSt).set dst
        (ns.grow σ.store.g.mem (σ.get src).bits).2)
    | .select dst c a b => .normal (σ.set dst (if isTrue (σ.get c) then σ.get a else σ.get b))
    | .goto cp L => .jump L (doCopy σ cp)
    | .ifGoto c cp L => if isTrue (σ.get c) then .jump L (doCopy σ cp) else .normal σ
    | .switchGoto c cases dflt =>
      let (cp, L) := cases.getD (σ.get c).bits dflt
      .jump L (doCopy σ cp)
    | .block body L =>
      (match execSeq ns f body σ with
       | .jump L' σ' => if L' = L then .normal σ' else .jump L' σ'
       | r => r)
    | .loop L body =>
      (match execSeq ns f body σ with
       | .jump L' σ' => if L' = L then execStmt ns f (.loop L body) σ' else .jump L' σ'
       | r => r)
    | .ifElse c thn els L =>
      let r := if isTrue (σ.get c) then execSeq ns f thn σ
               else (match els with | some e => execSeq ns f e σ | none => execSeq ns f [] σ)
      (match r with
       | .jump L' σ' => if L' = L then .normal σ' else .jump L' σ'
       | r => r)
    | .unreachable => .trap .unreachable
    | .call res fn args =>
      (match ns.callT fn (args.map σ.get) σ.store.g with
       | .val r =>
         (match res, r.1 with
          | none, none => .normal { σ with store := { σ.store with g := r.2 } }
          | some d, some v => .normal (({ σ with store := { σ.store with g := r.2 } } : MSt).set d v)
          | _, _ => .stuck)
       | .trap t => .trap t
       | .oof => .oof
       | _ => .stuck)
    | .callIndirect res ty _ idx args =>
      (match ns.indT ty (σ.get idx).bits (args.map σ.get) σ.store.g with
       | .val r =>
         (match res, r.1 with
          | none, none => .normal { σ with store := { σ.store with g := r.2 } }
          | some d, some v => .normal (({ σ with store := { σ.store with g := r.2 } } : MSt).set d v)
          | _, _ => .stuck)
       | .trap t => .trap t
       | .oof => .oof
       | _ => .stuck)
    | .memCopy d s n => execBulk ns .copy d s n σ
    | .memFill d v n => execBulk ns .fill d v n σ
    | .memInit seg d s n => execBulk ns (.init seg) d s n σ
    | .rmw dst fn addr off args =>
      (match ns.rmwT fn σ.store.g.mem ((σ.get addr).bits + off) (args.map σ.get) with
       | .val r =>
         (match dst, r.1 with
          | some d, some v => .normal (({ σ with store := { σ.store with g := { σ.store.g with mem := r.2 } } } : MSt).set d v)
          | none, none => .normal { σ with store := { σ.store with g := { σ.store.g with mem := r.2 } } }
          | _, _ => .stuck)
       | .trap t => .trap t
       | .oof => .oof
       | _ => .stuck)
    | .fence => .normal σ
    | .notify .. => .stuck                         -- wait / notify: concurrency only (C17)
    | .wait .. => .stuck
end

/-! ## the relation between the two states -/

/-- operand `k` of the wasm stack lives in slot `s<stack[k]><k>` -/
def Rel (stack : List VT) (stk : List Val) (σ : MSt) : Prop :=
  stk.length = stack.length ∧ ∀ k, ∀ h : k < stack.length, ∀ h' : k < stk.length, σ.get ⟨stack[k], k⟩ = stk[k]

/-- the instance's globals have their declared types -/
def GTyped (ctx : Ctx) (g : GS) : Prop :=
  g.globals.length = ctx.globalTypes.length ∧ ∀ k (h : k < g.globals.length) (h' : k < ctx.globalTypes.length), vtOf g.globals[k] = ctx.globalTypes[k]

/-! ## whole functions -/

def zeroVal : VT → Val
  | .i32 => .i32 0 | .i64 => .i64 0 | .f32 => .f32 0 | .f64 => .f64 0

/-- parameters hold the arguments, declared locals start at zero; globals and memory are the instance's -/
def initLocals (locals : List VT) (args : List Val) (g : GS := {}) : Store := { locals := args ++ locals.map zeroVal, g := g }

inductive FRes
  | value (v : Option Val) (g : GS)   -- returned (with the result value, if the function has one) leaving globals/memory `g`
  | trap (t : Trap)
  | oof
  | stuck
  deriving Inhabited

/-- how a function invocation ends, given how its body ended: falling off the end, `br` to the
    function label and `return` all return the top of the stack -/
def srcFinish (result : Option VT) : ERes → FRes
  | .normal stk loc | .branch 0 stk loc | .ret stk loc =>
    (match result with
     | none => .value none loc.g
     | some _ => (match stk.getLast? with | some v => .value (some v) loc.g | none => .stuck))
  | .branch (_ + 1) _ _ => .stuck
  | .trap t => .trap t
  | .oof => .oof
  | .stuck => .stuck

/-- invocation of a WebAssembly function: parameters hold the arguments, declared locals start at
    zero, the body runs as a block labelled with the result type -/
def runFuncSrc (ns : NumSem) (fuel : Nat) (locals : List VT) (result : Option VT) (body : List EInstr) (args : List Val) (g : GS := {}) : FRes :=
  srcFinish result (erunSeq ns fuel body [] (initLocals locals args g))

def initMSt (locals : List VT) (args : List Val) (g : GS := {}) : MSt := { slots := fun _ => 0, store := initLocals locals args g }

/-- after the body: `L0:;` and `return s<t>0;` (emitted only when some slot variable was declared:
    without it, leaving a non-void function is undefined, `stuck`) -/
def tgtFinish (cf : Model.CFunc) : MRes → FRes
  | .normal σ | .jump 0 σ =>
    (match cf.result with
     | none => .value none σ.store.g
     | some rt => if cf.returnsSlot then .value (some (σ.get ⟨rt, 0⟩)) σ.store.g else .stuck)
  | .jump (_ + 1) _ => .stuck
  | .trap t => .trap t
  | .oof => .oof
  | .stuck => .stuck

/-- the emitted C function: parameters and zero-initialised locals, the body, the epilogue -/
def runFuncTgt (ns : NumSem) (fuel : Nat) (cf : Model.CFunc) (args : List Val) (g : GS := {}) : FRes :=
  tgtFinish cf (execSeq ns fuel cf.body (initMSt cf.localTypes args g))

end W2c2Verif.Sim
