/-
  Model.Partition — how c.c distributes the (hash-sorted) function IDs over implementation files (C09).

  Mirrors, with the C integer types made explicit:
    main.c                                 `if (functionsPerFile == 0) functionsPerFile = module->functions.count;`
    wasmCWriteModuleImplementation         single file iff `functionsPerFile >= functions.count && dynamic.length == 0`
    wasmCWriteModuleImplementationFiles    `if (functionCount == 0) return; if (functionsPerFile == 0) functionsPerFile = UINT32_MAX;
                                            fileCount = 1 + (functionCount - 1) / functionsPerFile;`          (size_t)
                                           `U32 startFunctionIDIndex = fileIndex * functionsPerFile;`          (U32: wraps)
    wasmCWriteImplementationFile           `U32 end = start + functionsPerFile; if (end > count) end = count;` (U32: wraps)
                                           `if (start > end) return true;   /* Do not create empty files */`
-/
namespace W2c2Verif.Model.Partition

def U32MAX : Nat := 4294967295
def U32MOD : Nat := 4294967296

/-- `functionsPerFile` as used inside wasmCWriteModuleImplementationFiles -/
def effFpf (fpf : Nat) : Nat := if fpf = 0 then U32MAX else fpf

/-- number of loop iterations (files attempted) for a list of `n` function IDs -/
def fileCount (n fpf : Nat) : Nat := if n = 0 then 0 else 1 + (n - 1) / effFpf fpf

/-- `[start, end)` of file `i`, or `none` when wasmCWriteImplementationFile returns early ("empty file") -/
def fileRange (n fpf i : Nat) : Option (Nat × Nat) :=
  let f := effFpf fpf
  let start := (i * f) % U32MOD
  let end0 := (start + f) % U32MOD
  let end1 := if end0 > n then n else end0
  if start > end1 then none else some (start, end1)

/-- the files written for one ID list: (file index, start, end) -/
def files (n fpf : Nat) : List (Nat × Nat × Nat) :=
  (List.range (fileCount n fpf)).filterMap fun i => (fileRange n fpf i).map fun r => (i, r.1, r.2)

/-- main.c: `-f 0` means "all functions of the module in one file" -/
def mainFpf (fOpt count : Nat) : Nat := if fOpt = 0 then count else fOpt

/-- wasmCWriteModuleImplementation: are the function bodies written into the main output file? -/
def singleFile (fpf count nDynamic : Nat) : Bool := decide (fpf ≥ count) && decide (nDynamic = 0)

/-- Where the function bodies go: `none` = the main file holds static IDs [0, nStatic); otherwise the
    `s%010u.c` and `d%010u.c` files with their ID ranges. -/
def plan (fOpt count nStatic nDynamic : Nat) : Option (List (Nat × Nat × Nat) × List (Nat × Nat × Nat)) :=
  let fpf := mainFpf fOpt count
  if singleFile fpf count nDynamic then none
  else some (files nStatic fpf, files nDynamic fpf)

end W2c2Verif.Model.Partition
